package checks

// C05 — coverings cover, interior coverings are contained, level limits are
// honoured; ContainsCell / IntersectsCell are one-sidedly safe.
//
// Engine E3 (bounded-exhaustive inputs against reference models).  Three sub-spaces:
//
//   coverings   region catalogue x coverer option grid x {Covering, CellUnion,
//               InteriorCovering, InteriorCellUnion, FastCovering}
//   predicates  region catalogue x (all cells of the top levels + cells around the
//               region boundary at levels 5, 10, 20, 30): ContainsCell / IntersectsCell
//   grazing     lat-lng rectangles whose edges are taken from the characteristic
//               latitudes / longitudes of a cell (vertices, centre, edge extrema and the
//               values between them), all pairs x all pairs, against that cell
//
// Membership oracle: the region's own ContainsPoint for caps, rectangles, cells and
// cell unions; the exact reference containment (crossing parity on exact orientation
// signs) for loops and polygons; distance 0 to the vertex chain for polylines; equality
// for points.  A probe accuses only if it is farther than c05Tau = 1e-12 rad from the
// boundary of the region or of the cell concerned, so rounding noise on a boundary
// (about 1e-16) can never be reported.  MaxCells is a soft limit and is not asserted.

import (
	"fmt"
	"math"
	"os"
	"sort"
	"sync"
	"sync/atomic"
	"time"

	"github.com/golang/geo/r1"
	"github.com/golang/geo/s1"
	"github.com/golang/geo/s2"

	"verif/mc/core"
	"verif/mc/lattice"
	"verif/mc/refmodel"
)

// c05Tau is the angular slack (radians) of the one-sided assertions: a probe accuses
// only if it is farther than this from the relevant boundary.  It is four orders of
// magnitude above the 1e-16 rounding noise of a unit vector and three below the
// width of a leaf cell (about 1e-9).
const c05Tau = 1e-12

func init() {
	Registry["C05"] = &Check{Level: "exploration", QuickBudget: 400, ThoroughBudget: 2400, Run: runC05}
}

// c05Region is one entry of the region catalogue together with its oracle.
type c05Region struct {
	name    string
	kind    string
	reg     s2.Region
	in      func(p s2.Point) bool    // reference membership
	bdist   func(p s2.Point) float64 // lower bound of the distance from p to the region's boundary
	probes  []s2.Point               // region-specific probes (inside, outside, on the boundary)
	bprobes []s2.Point               // probes within rounding noise of the boundary (subset of probes)
	bpts    []s2.Point               // seeds for "cells around the boundary"
	extent  float64                  // length of a zero-area extended region (polyline), else 0
	desc    any                      // replay description

	inPts  []s2.Point // all probes (specific + structural) that the region contains
	inLeaf []s2.CellID
	pidx   *lattice.GeoLeafIndex // probes + bprobes by leaf cell
	bidx   *lattice.GeoLeafIndex
}

func (r *c05Region) addBoundary(p s2.Point) {
	r.probes = append(r.probes, p)
	r.bprobes = append(r.bprobes, p)
}

// ---- region constructors ---------------------------------------------------------

func c05CapRegion(name string, ctr s2.Point, rad float64) *c05Region {
	var cp s2.Cap
	switch {
	case rad < 0:
		cp = s2.EmptyCap()
	case rad >= math.Pi:
		cp = s2.FullCap()
	default:
		cp = s2.CapFromCenterAngle(ctr, s1.Angle(rad))
	}
	r := &c05Region{name: name, kind: "cap", reg: cp, desc: map[string]any{"center": lattice.GeoPt(ctr), "radius": rad}}
	r.in = cp.ContainsPoint
	if cp.IsEmpty() || cp.IsFull() {
		r.bdist = func(s2.Point) float64 { return math.Inf(1) }
		return r
	}
	ctr = cp.Center()
	r2 := 2 * cp.Height() // squared chord length of the radius, exactly as stored
	theta := 2 * math.Atan2(math.Sqrt(r2), math.Sqrt(4-r2))
	r.bdist = func(p s2.Point) float64 { return math.Abs(lattice.GeoAngle(ctr, p) - theta) }
	r.probes = append(r.probes, ctr, s2.Point{Vector: ctr.Mul(-1)})
	const dirs = 32
	for k := 0; k < dirs; k++ {
		phi := 2 * math.Pi * (float64(k) + 0.25) / dirs
		if theta > 0 {
			b := lattice.GeoCirclePoint(ctr, theta, phi)
			r.addBoundary(b)
			if k%2 == 0 {
				r.bpts = append(r.bpts, b)
			}
		}
		for _, d := range []float64{theta * (1 - 1.0/(1<<20)), theta * (1 + 1.0/(1<<20)), theta / 2, theta - 3e-12, theta + 3e-12, theta + 1e-9, 2 * theta} {
			if d > 0 && d < math.Pi {
				r.probes = append(r.probes, lattice.GeoCirclePoint(ctr, d, phi))
			}
		}
	}
	if theta == 0 {
		r.bprobes = append(r.bprobes, ctr)
		r.bpts = append(r.bpts, ctr)
	}
	return r
}

func c05RectBoundaryDist(rc s2.Rect, p s2.Point) float64 {
	if rc.IsEmpty() || rc.IsFull() {
		return math.Inf(1)
	}
	lat, _ := lattice.GeoLatLng(p)
	d := math.Min(math.Abs(lat-rc.Lat.Lo), math.Abs(lat-rc.Lat.Hi))
	if !rc.Lng.IsFull() {
		mid := 0.5 * (rc.Lat.Lo + rc.Lat.Hi)
		for _, lng := range []float64{rc.Lng.Lo, rc.Lng.Hi} {
			a, m, b := lattice.GeoPtLL(rc.Lat.Lo, lng), lattice.GeoPtLL(mid, lng), lattice.GeoPtLL(rc.Lat.Hi, lng)
			d = math.Min(d, math.Min(lattice.GeoSegDist(p, a, m), lattice.GeoSegDist(p, m, b)))
		}
	}
	return d
}

func c05RectRegion(name string, rc s2.Rect) *c05Region {
	r := &c05Region{name: name, kind: "rect", reg: rc, desc: map[string]any{"lat": []float64{rc.Lat.Lo, rc.Lat.Hi}, "lng": []float64{rc.Lng.Lo, rc.Lng.Hi}}}
	r.in = rc.ContainsPoint
	r.bdist = func(p s2.Point) float64 { return c05RectBoundaryDist(rc, p) }
	if rc.IsEmpty() || rc.IsFull() {
		return r
	}
	if !rc.IsPoint() && (rc.Lat.Length() == 0 || rc.Lng.Length() == 0) {
		// a zero-area rectangle that is a line: interior coverings would subdivide along its whole length
		r.extent = math.Max(rc.Lat.Length(), rc.Lng.Length()*math.Cos(rc.Lat.Lo))
	}
	clampLat := func(x float64) float64 { return math.Max(-math.Pi/2, math.Min(math.Pi/2, x)) }
	wrap := func(x float64) float64 { return math.Remainder(x, 2*math.Pi) }
	latMid := rc.Lat.Center()
	lngLen := rc.Lng.Length()
	lngAt := func(f float64) float64 { return wrap(rc.Lng.Lo + f*lngLen) }
	var lats, lngs []float64
	for _, f := range []float64{0, 0.25, 0.5, 0.75, 1} {
		lats = append(lats, rc.Lat.Lo+f*(rc.Lat.Hi-rc.Lat.Lo))
		lngs = append(lngs, lngAt(f))
	}
	// boundary points
	for _, la := range lats {
		for _, ln := range []float64{rc.Lng.Lo, rc.Lng.Hi} {
			b := lattice.GeoPtLL(la, ln)
			if !rc.Lng.IsFull() {
				r.addBoundary(b)
				r.bpts = append(r.bpts, b)
			}
		}
	}
	for _, ln := range lngs {
		for _, la := range []float64{rc.Lat.Lo, rc.Lat.Hi} {
			b := lattice.GeoPtLL(la, ln)
			if math.Abs(la) < math.Pi/2 {
				r.addBoundary(b)
				r.bpts = append(r.bpts, b)
			} else {
				r.probes = append(r.probes, b)
			}
		}
	}
	for _, d := range []float64{1e-6, 1e-10, 3e-12} {
		for _, la := range []float64{rc.Lat.Lo - d, rc.Lat.Lo + d, latMid, rc.Lat.Hi - d, rc.Lat.Hi + d} {
			for _, ln := range []float64{rc.Lng.Lo - d, rc.Lng.Lo + d, rc.Lng.Center(), rc.Lng.Hi - d, rc.Lng.Hi + d, rc.Lng.ComplementCenter()} {
				r.probes = append(r.probes, lattice.GeoPtLL(clampLat(la), wrap(ln)))
			}
		}
	}
	return r
}

func c05CellRegion(name string, id s2.CellID) *c05Region {
	cell := s2.CellFromCellID(id)
	r := &c05Region{name: name, kind: "cell", reg: cell, desc: map[string]any{"cell": id.ToToken(), "level": id.Level()}}
	r.in = cell.ContainsPoint
	r.bdist = func(p s2.Point) float64 { return lattice.GeoCellBoundaryDist(p, cell) }
	v := lattice.GeoCellVerts(cell)
	for k := 0; k < 4; k++ {
		r.addBoundary(v[k])
		r.bpts = append(r.bpts, v[k])
		for _, t := range []float64{0.25, 0.5, 0.75} {
			b := lattice.GeoSlerp(v[k], v[(k+1)%4], t)
			r.addBoundary(b)
			if t == 0.5 {
				r.bpts = append(r.bpts, b)
			}
		}
		r.probes = append(r.probes, lattice.GeoSlerp(v[k], cell.Center(), 1e-3), lattice.GeoSlerp(v[k], cell.Center(), -1e-3))
	}
	r.probes = append(r.probes, lattice.GeoCellProbes(id, 2)...)
	for _, nb := range id.AllNeighbors(id.Level()) {
		r.probes = append(r.probes, nb.Point())
	}
	return r
}

func c05CellUnionRegion(name string, ids []s2.CellID) *c05Region {
	cu := s2.CellUnion(append([]s2.CellID(nil), ids...))
	cu.Normalize()
	cup := &cu
	var toks []string
	for _, id := range cu {
		toks = append(toks, id.ToToken())
	}
	r := &c05Region{name: name, kind: "cellunion", reg: cup, desc: map[string]any{"cells": toks}}
	r.in = cup.ContainsPoint
	cells := make([]s2.Cell, len(cu))
	for i, id := range cu {
		cells[i] = s2.CellFromCellID(id)
	}
	r.bdist = func(p s2.Point) float64 {
		d := math.Inf(1)
		for _, c := range cells {
			d = math.Min(d, lattice.GeoCellBoundaryDist(p, c))
		}
		return d
	}
	for i, id := range cu {
		r.probes = append(r.probes, lattice.GeoCellProbes(id, 1)...)
		for _, nb := range id.EdgeNeighbors() {
			r.probes = append(r.probes, nb.Point())
		}
		if len(r.bpts) < 40 {
			r.bpts = append(r.bpts, lattice.GeoCellVerts(cells[i])...)
		}
	}
	return r
}

// c05LoopProbes adds the probes of one vertex loop (or open chain).
func (r *c05Region) addChainProbes(v []s2.Point, closed bool, perEdge int, ctr s2.Point) {
	n := len(v)
	last := n - 1
	if closed {
		last = n
	}
	strideV := 1 + n/24
	strideE := 1 + n/16
	for i := 0; i < n; i++ {
		r.addBoundary(v[i])
		if i%strideV == 0 {
			r.bpts = append(r.bpts, v[i])
		}
		if closed {
			r.probes = append(r.probes, lattice.GeoSlerp(v[i], ctr, 1e-3), lattice.GeoSlerp(v[i], ctr, 0.5), lattice.GeoSlerp(v[i], ctr, -1e-3))
		}
	}
	for i := 0; i < last; i++ {
		a, b := v[i], v[(i+1)%n]
		for k := 1; k <= perEdge; k++ {
			p := lattice.GeoSlerp(a, b, float64(k)/float64(perEdge+1))
			r.addBoundary(p)
			if closed && k == (perEdge+1)/2 {
				r.probes = append(r.probes, lattice.GeoSlerp(p, ctr, 1e-4), lattice.GeoSlerp(p, ctr, -1e-4))
				if i%strideE == 0 {
					r.bpts = append(r.bpts, p)
				}
			}
		}
	}
}

func c05LoopRegion(name string, v []s2.Point, ctr s2.Point, perEdge int) *c05Region {
	l := s2.LoopFromPoints(append([]s2.Point(nil), v...))
	ref := refmodel.NewFastLoop(v)
	r := &c05Region{name: name, kind: "loop", reg: l, desc: map[string]any{"vertices": lattice.GeoPts(v)}}
	r.in = ref.Contains
	if len(v) < 3 {
		r.bdist = func(s2.Point) float64 { return math.Inf(1) }
		return r
	}
	r.bdist = func(p s2.Point) float64 { return lattice.GeoChainDist(p, v, true) }
	r.addChainProbes(v, true, perEdge, ctr)
	r.probes = append(r.probes, ctr, s2.Point{Vector: ctr.Mul(-1)})
	return r
}

func c05PolygonRegion(name string, loops [][]s2.Point, ctrs []s2.Point, perEdge int) *c05Region {
	var ls []*s2.Loop
	var ref refmodel.FastPolygon
	var d [][][3]float64
	for _, v := range loops {
		ls = append(ls, s2.LoopFromPoints(append([]s2.Point(nil), v...)))
		ref = append(ref, refmodel.NewFastLoop(v))
		d = append(d, lattice.GeoPts(v))
	}
	pg := s2.PolygonFromLoops(ls)
	r := &c05Region{name: name, kind: "polygon", reg: pg, desc: map[string]any{"loops": d}}
	r.in = ref.Contains
	r.bdist = func(p s2.Point) float64 {
		x := math.Inf(1)
		for _, v := range loops {
			x = math.Min(x, lattice.GeoChainDist(p, v, true))
		}
		return x
	}
	for i, v := range loops {
		r.addChainProbes(v, true, perEdge, ctrs[i])
		r.probes = append(r.probes, ctrs[i])
	}
	return r
}

func c05PolylineRegion(name string, v []s2.Point, perEdge int) *c05Region {
	pl := s2.Polyline(append([]s2.Point(nil), v...))
	r := &c05Region{name: name, kind: "polyline", reg: &pl, desc: map[string]any{"vertices": lattice.GeoPts(v)}}
	r.in = func(p s2.Point) bool { return lattice.GeoChainDist(p, v, false) <= 1e-15 }
	r.bdist = func(p s2.Point) float64 { return lattice.GeoChainDist(p, v, false) }
	r.addChainProbes(v, false, perEdge, s2.Point{})
	for i := 0; i+1 < len(v); i++ {
		r.extent += lattice.GeoAngle(v[i], v[i+1])
		m := lattice.GeoSlerp(v[i], v[i+1], 0.5)
		u, _ := lattice.GeoFrame(m)
		r.probes = append(r.probes, s2.Point{Vector: m.Add(u.Mul(1e-6)).Normalize()})
	}
	return r
}

func c05PointRegion(name string, p s2.Point) *c05Region {
	r := &c05Region{name: name, kind: "point", reg: p, desc: map[string]any{"point": lattice.GeoPt(p)}}
	r.in = func(q s2.Point) bool { return q == p }
	r.bdist = func(q s2.Point) float64 { return lattice.GeoAngle(p, q) }
	r.addBoundary(p)
	r.bpts = append(r.bpts, p)
	for k := 0; k < 8; k++ {
		r.probes = append(r.probes, lattice.GeoCirclePoint(p, 1e-9, float64(k)), lattice.GeoCirclePoint(p, 1e-5, float64(k)))
	}
	return r
}

// ---- catalogue ---------------------------------------------------------------------

func c05Centres() map[string]s2.Point {
	return map[string]s2.Point{
		"face":    s2.PointFromCoords(1, 0, 0),
		"edge":    s2.PointFromCoords(1, 1, 0),
		"corner":  s2.PointFromCoords(1, 1, 1),
		"pole":    s2.PointFromCoords(0, 0, 1),
		"antimer": lattice.LL(10, 180),
		"generic": lattice.LL(37.3, -122.1),
	}
}

func c05Catalogue(c *core.Ctx) []*c05Region {
	ctr := c05Centres()
	var out []*c05Region
	add := func(r *c05Region) { out = append(out, r) }
	big := !c.Quick()
	pe := core.Pick(c, 8, 64)

	// caps
	if big {
		for _, cn := range []string{"face", "edge", "corner", "pole", "antimer", "generic"} {
			for _, rad := range []float64{0, 1e-7, 1e-3, 0.5, math.Pi / 2, math.Pi - 1e-3} {
				add(c05CapRegion(fmt.Sprintf("cap(%s,%g)", cn, rad), ctr[cn], rad))
			}
		}
	} else {
		add(c05CapRegion("cap(corner,1e-7)", ctr["corner"], 1e-7))
		add(c05CapRegion("cap(corner,0.5)", ctr["corner"], 0.5))
		add(c05CapRegion("cap(pole,1e-3)", ctr["pole"], 1e-3))
		add(c05CapRegion("cap(pole,pi/2)", ctr["pole"], math.Pi/2))
		add(c05CapRegion("cap(edge,0)", ctr["edge"], 0))
		add(c05CapRegion("cap(edge,pi-1e-3)", ctr["edge"], math.Pi-1e-3))
		add(c05CapRegion("cap(antimer,0.5)", ctr["antimer"], 0.5))
	}
	add(c05CapRegion("cap(empty)", ctr["face"], -1))
	add(c05CapRegion("cap(full)", ctr["face"], math.Pi))

	// lat-lng rectangles
	deg := math.Pi / 180
	rect := func(la0, la1, ln0, ln1 float64) s2.Rect {
		return s2.Rect{Lat: r1.Interval{Lo: la0 * deg, Hi: la1 * deg}, Lng: s1.Interval{Lo: ln0 * deg, Hi: ln1 * deg}}
	}
	add(c05RectRegion("rect(normal)", rect(10, 30, 20, 50)))
	add(c05RectRegion("rect(antimeridian)", rect(-20, 10, 170, -170)))
	add(c05RectRegion("rect(polar-cap)", s2.Rect{Lat: r1.Interval{Lo: 80 * deg, Hi: math.Pi / 2}, Lng: s1.FullInterval()}))
	add(c05RectRegion("rect(polar-quadrant)", s2.Rect{Lat: r1.Interval{Lo: 70 * deg, Hi: math.Pi / 2}, Lng: s1.Interval{Lo: 0, Hi: math.Pi / 2}}))
	add(c05RectRegion("rect(point)", rect(35.26, 35.26, 45, 45)))
	add(c05RectRegion("rect(sliver)", s2.Rect{Lat: r1.Interval{Lo: 45 * deg, Hi: 45*deg + 1e-6}, Lng: s1.Interval{Lo: 10 * deg, Hi: 10*deg + 1e-4}}))
	add(c05RectRegion("rect(above face 0)", rect(44, 88, -16, 16)))
	add(c05RectRegion("rect(full)", s2.FullRect()))
	add(c05RectRegion("rect(empty)", s2.EmptyRect()))
	if big {
		add(c05RectRegion("rect(wide)", rect(-5, 5, -100, 100)))
		add(c05RectRegion("rect(south-polar)", s2.Rect{Lat: r1.Interval{Lo: -math.Pi / 2, Hi: -60 * deg}, Lng: s1.Interval{Lo: 100 * deg, Hi: -100 * deg}}))
		add(c05RectRegion("rect(band)", s2.Rect{Lat: r1.Interval{Lo: 30 * deg, Hi: 40 * deg}, Lng: s1.FullInterval()}))
		add(c05RectRegion("rect(face-edge)", rect(-1, 1, 44, 46)))
		add(c05RectRegion("rect(tiny)", s2.Rect{Lat: r1.Interval{Lo: 0.5, Hi: 0.5 + 1e-7}, Lng: s1.Interval{Lo: -2, Hi: -2 + 1e-7}}))
		add(c05RectRegion("rect(lng-line)", rect(0, 40, 90, 90)))
	}

	// cells
	corner := lattice.GeoLeaf(ctr["corner"])
	gen := lattice.GeoLeaf(ctr["generic"])
	add(c05CellRegion("cell(face0)", s2.CellIDFromFace(0)))
	add(c05CellRegion("cell(level1)", s2.CellIDFromFace(2).Children()[1]))
	add(c05CellRegion("cell(corner,5)", corner.Parent(5)))
	add(c05CellRegion("cell(generic,17)", gen.Parent(17)))
	add(c05CellRegion("cell(corner,30)", corner))
	if big {
		add(c05CellRegion("cell(face5)", s2.CellIDFromFace(5)))
		add(c05CellRegion("cell(generic,5)", gen.Parent(5)))
		add(c05CellRegion("cell(corner,17)", corner.Parent(17)))
		add(c05CellRegion("cell(generic,30)", gen))
		add(c05CellRegion("cell(edge,10)", lattice.GeoLeaf(ctr["edge"]).Parent(10)))
	}

	// cell unions
	add(c05CellUnionRegion("cellunion(corner-block)", corner.VertexNeighbors(3)))
	f0 := s2.CellIDFromFace(0)
	add(c05CellUnionRegion("cellunion(mixed)", []s2.CellID{f0.Children()[0], f0.Children()[1].Children()[2], f0.Children()[3].Children()[0].Children()[1], gen.Parent(12), gen}))
	if big {
		add(c05CellUnionRegion("cellunion(sphere)", []s2.CellID{s2.CellIDFromFace(0), s2.CellIDFromFace(1), s2.CellIDFromFace(2), s2.CellIDFromFace(3), s2.CellIDFromFace(4), s2.CellIDFromFace(5)}))
		add(c05CellUnionRegion("cellunion(edge-strip)", lattice.GeoLeaf(ctr["edge"]).Parent(6).AllNeighbors(6)))
		add(c05CellUnionRegion("cellunion(leaves)", append(gen.AllNeighbors(30), gen)))
	}

	// loops
	loop := func(cn string, rad float64, n int, inverted bool) {
		v := lattice.GeoRegular(ctr[cn], rad, n, 0.1)
		name := fmt.Sprintf("loop(%s,%g,%d)", cn, rad, n)
		if inverted {
			v = lattice.GeoReverse(v)
			name += "-inverted"
		}
		add(c05LoopRegion(name, v, ctr[cn], pe))
	}
	loop("corner", 0.1, 8, false)
	loop("pole", 1, 40, false)
	loop("face", 1e-3, 3, false)
	loop("edge", 1e-7, 4, false)
	loop("corner", 2, 33, false)
	loop("pole", 0.1, 100, true)
	loop("generic", 3e-9, 4, false)
	add(c05LoopRegion("loop(cell corner,2)", lattice.GeoCellVerts(s2.CellFromCellID(corner.Parent(2))), corner.Parent(2).Point(), pe))
	add(c05LoopRegion("loop(wedge)", lattice.GeoWedge(0.3, 1.1, 20), lattice.GeoPtLL(0.1, 0.7), pe))
	// a quadrilateral at the cube corner (1,1,1) with vertices on faces 0 and 1 only: its edge a-b cuts
	// across the corner of face 2 without having a vertex there (and the same one face further round)
	cut := func(x, y, z float64) s2.Point { return s2.PointFromCoords(x, y, z) }
	ccw := func(v []s2.Point) []s2.Point {
		if s2.RobustSign(v[0], v[1], v[2]) < 0 {
			return lattice.GeoReverse(v)
		}
		return v
	}
	add(c05LoopRegion("loop(corner-cut through face 2)", ccw([]s2.Point{cut(1, 0.8, 0.97), cut(0.8, 1, 0.97), cut(0.8, 1, 0.5), cut(1, 0.8, 0.5)}), cut(0.9, 0.9, 0.75), pe))
	add(c05LoopRegion("loop(corner-cut through face 0)", ccw([]s2.Point{cut(0.97, 1, 0.8), cut(0.97, 0.8, 1), cut(0.5, 0.8, 1), cut(0.5, 1, 0.8)}), cut(0.75, 0.9, 0.9), pe))
	add(c05LoopRegion("loop(empty)", []s2.Point{s2.PointFromCoords(0, 0, 1)}, ctr["face"], pe))
	add(c05LoopRegion("loop(full)", []s2.Point{s2.PointFromCoords(0, 0, -1)}, ctr["face"], pe))
	if big {
		for _, cn := range []string{"face", "edge", "corner", "pole", "antimer"} {
			for _, n := range []int{3, 4, 31, 32, 33, 64} {
				rad := []float64{1e-7, 1e-3, 0.1, 1, math.Pi/2 - 1e-3, math.Pi / 2, 2}[(n+len(cn))%7]
				loop(cn, rad, n, (n+len(cn))%3 == 0)
			}
		}
		add(c05LoopRegion("loop(cell generic,9)", lattice.GeoCellVerts(s2.CellFromCellID(gen.Parent(9))), gen.Parent(9).Point(), pe))
		add(c05LoopRegion("loop(cell face3)", lattice.GeoCellVerts(s2.CellFromCellID(s2.CellIDFromFace(3))), s2.CellIDFromFace(3).Point(), pe))
		add(c05LoopRegion("loop(wedge-antimeridian)", lattice.GeoWedge(3.0, 3.3, 24), lattice.GeoPtLL(-0.2, 3.1), pe))
	}

	// polygons
	cc := ctr["corner"]
	add(c05PolygonRegion("polygon(shell+hole 8/8)", [][]s2.Point{lattice.GeoRegular(cc, 0.2, 8, 0), lattice.GeoRegular(cc, 0.08, 8, 0.3)}, []s2.Point{lattice.GeoCirclePoint(cc, 0.14, 1), cc}, pe))
	add(c05PolygonRegion("polygon(shell+hole 40/40)", [][]s2.Point{lattice.GeoRegular(ctr["generic"], 0.3, 40, 0), lattice.GeoRegular(ctr["generic"], 0.1, 40, 0.3)}, []s2.Point{lattice.GeoCirclePoint(ctr["generic"], 0.2, 1), ctr["generic"]}, pe))
	add(c05PolygonRegion("polygon(two islands)", [][]s2.Point{lattice.GeoRegular(ctr["edge"], 0.05, 12, 0), lattice.GeoRegular(lattice.GeoCirclePoint(ctr["edge"], 0.2, 0.5), 0.06, 5, 0)}, []s2.Point{ctr["edge"], lattice.GeoCirclePoint(ctr["edge"], 0.2, 0.5)}, pe))
	if big {
		pc := ctr["pole"]
		add(c05PolygonRegion("polygon(shell+2 holes)", [][]s2.Point{lattice.GeoRegular(pc, 0.5, 36, 0), lattice.GeoRegular(lattice.GeoCirclePoint(pc, 0.2, 0), 0.1, 10, 0), lattice.GeoRegular(lattice.GeoCirclePoint(pc, 0.2, 3), 0.1, 34, 0)},
			[]s2.Point{lattice.GeoCirclePoint(pc, 0.45, 1.5), lattice.GeoCirclePoint(pc, 0.2, 0), lattice.GeoCirclePoint(pc, 0.2, 3)}, pe))
		add(c05PolygonRegion("polygon(nested depth 3)", [][]s2.Point{lattice.GeoRegular(ctr["face"], 0.4, 16, 0), lattice.GeoRegular(ctr["face"], 0.3, 16, 0.1), lattice.GeoRegular(ctr["face"], 0.2, 16, 0.2), lattice.GeoRegular(ctr["face"], 0.1, 16, 0.3)},
			[]s2.Point{lattice.GeoCirclePoint(ctr["face"], 0.35, 1), lattice.GeoCirclePoint(ctr["face"], 0.25, 1), lattice.GeoCirclePoint(ctr["face"], 0.15, 1), ctr["face"]}, pe))
		var many [][]s2.Point
		var mc []s2.Point
		for k := 0; k < 13; k++ {
			p := lattice.GeoCirclePoint(ctr["antimer"], 0.3, float64(k)*2*math.Pi/13)
			many = append(many, lattice.GeoRegular(p, 0.05, 6, 0))
			mc = append(mc, p)
		}
		add(c05PolygonRegion("polygon(13 islands)", many, mc, pe))
	}

	// polylines
	add(c05PolylineRegion("polyline(across face edge)", []s2.Point{lattice.LL(5, 40), lattice.LL(8, 47), lattice.LL(2, 52)}, pe))
	var pv []s2.Point
	for i := 0; i < 14; i++ {
		pv = append(pv, lattice.LL(-2+2*float64(i), 1+1.5*float64(i)))
	}
	add(c05PolylineRegion("polyline(14 vertices)", pv, pe))
	add(c05PolylineRegion("polyline(tiny at corner)", []s2.Point{lattice.GeoCirclePoint(cc, 5e-8, 0), cc, lattice.GeoCirclePoint(cc, 5e-8, 2)}, pe))
	add(c05PolylineRegion("polyline(one vertex)", []s2.Point{ctr["generic"]}, pe))
	// a long east-west edge: its interior rises far poleward of both endpoints (to 73.9N), so the
	// lat-lng box of the vertices is not a bound for the polyline
	add(c05PolylineRegion("polyline(east-west edge at 60N)", []s2.Point{lattice.LL(60, -60), lattice.LL(60, 60)}, pe))
	if big {
		add(c05PolylineRegion("polyline(long edge)", []s2.Point{lattice.LL(-30, -60), lattice.LL(40, 50)}, pe))
		add(c05PolylineRegion("polyline(through pole)", []s2.Point{lattice.LL(80, 10), lattice.LL(85, -170)}, pe))
	}

	// points
	add(c05PointRegion("point(corner)", cc))
	add(c05PointRegion("point(generic)", ctr["generic"]))
	if big {
		add(c05PointRegion("point(pole)", ctr["pole"]))
		add(c05PointRegion("point(face)", ctr["face"]))
	}
	return out
}

// prepare computes the in-probes and the leaf indexes of a region.
func (r *c05Region) prepare(structural []s2.Point) {
	all := append(append([]s2.Point(nil), r.probes...), structural...)
	all = lattice.Dedup(all)
	for _, p := range all {
		if n := p.Norm2(); !(n > 1-1e-14 && n < 1+1e-14) {
			panic(core.HarnessError("C05: a probe of " + r.name + " is not a unit vector"))
		}
	}
	for _, p := range all {
		if r.in(p) {
			r.inPts = append(r.inPts, p)
			r.inLeaf = append(r.inLeaf, lattice.GeoLeaf(p))
		}
	}
	r.pidx = lattice.NewGeoLeafIndex(all)
	r.bidx = lattice.NewGeoLeafIndex(r.bprobes)
}

// ---- coverer option grid -------------------------------------------------------------

type c05Cfg struct{ minL, maxL, mod, maxCells int }

func c05Grid(c *core.Ctx) []c05Cfg {
	levels := core.Pick(c, []int{0, 2, 5, 10, 30}, []int{0, 1, 2, 3, 5, 10, 29, 30})
	cells := core.Pick(c, []int{0, 1, 3, 4, 8, 100}, []int{0, 1, 2, 3, 4, 5, 6, 8, 20, 100})
	var out []c05Cfg
	for _, lo := range levels {
		for _, hi := range levels {
			if lo > hi {
				continue
			}
			for mod := 1; mod <= 3; mod++ {
				for _, mc := range cells {
					out = append(out, c05Cfg{lo, hi, mod, mc})
				}
			}
		}
	}
	return out
}

var c05Methods = []string{"Covering", "CellUnion", "InteriorCovering", "InteriorCellUnion", "FastCovering"}

// c05Estimate is the number of cells of the region's CellUnionBound after it has been
// split down to the levels allowed by (MinLevel, LevelMod): the documented reason for
// "an arbitrary number of cells" when MinLevel is too high for the region.
func c05Estimate(bound []s2.CellID, cfg c05Cfg) float64 {
	est := 0.0
	for _, id := range bound {
		l := id.Level()
		nl := l
		if nl < cfg.minL {
			nl = cfg.minL
		}
		if cfg.mod > 1 {
			nl += (30 - (nl - cfg.minL)) % cfg.mod
		}
		if nl > 30 {
			nl = 30
		}
		est += math.Pow(4, float64(nl-l))
	}
	return est
}

type c05Stats struct {
	coverings, nontrivial, skippedMinLevel, skippedInterior               atomic.Int64
	coverProbes, slowPath, interiorCells, interiorProbes, nbrProbes       atomic.Int64
	emptyCoverings, interiorNonEmpty, cellsReturned                       atomic.Int64
	predCells, predContained, predDisjoint, predMixed, predProbes         atomic.Int64
	grazeRects, grazeContained, grazeDisjoint, grazeCandidates, grazeBase atomic.Int64
}

// c05Covered reports whether p lies in a cell of the sorted, non-overlapping covering
// or within c05Tau of one.
func c05Covered(cu []s2.CellID, p s2.Point, leaf s2.CellID, st *c05Stats) bool {
	find := func(l s2.CellID) int {
		i := sort.Search(len(cu), func(k int) bool { return cu[k].RangeMax() >= l })
		if i < len(cu) && cu[i].RangeMin() <= l {
			return i
		}
		return -1
	}
	if find(leaf) >= 0 {
		return true
	}
	st.slowPath.Add(1)
	// any cell within tau of p contains p's leaf cell or one of its neighbours
	for _, nb := range leaf.AllNeighbors(30) {
		if i := find(nb); i >= 0 {
			cell := s2.CellFromCellID(cu[i])
			if cell.ContainsPoint(p) || lattice.GeoCellBoundaryDist(p, cell) <= c05Tau {
				return true
			}
		}
	}
	return false
}

func c05CfgDetail(r *c05Region, cfg c05Cfg, method string) map[string]any {
	return map[string]any{"region": r.name, "region_data": r.desc, "MinLevel": cfg.minL, "MaxLevel": cfg.maxL, "LevelMod": cfg.mod, "MaxCells": cfg.maxCells, "method": method}
}

func c05Tokens(cu []s2.CellID) []string {
	var t []string
	for i, id := range cu {
		if i >= 64 {
			t = append(t, fmt.Sprintf("... (%d cells)", len(cu)))
			break
		}
		t = append(t, id.ToToken())
	}
	return t
}

// c05CheckCovering runs one (region, config) case over the five methods.
func c05CheckCovering(c *core.Ctx, ri, ci int, r *c05Region, cfg c05Cfg, bound []s2.CellID, st *c05Stats, depth int) {
	const sub = "coverings"
	est := c05Estimate(bound, cfg)
	if est > 30000 {
		st.skippedMinLevel.Add(1)
		return
	}
	skipInterior := r.extent > 0 && r.extent/s2.MinWidthMetric.Value(cfg.maxL) > 2000
	rc := &s2.RegionCoverer{MinLevel: cfg.minL, MaxLevel: cfg.maxL, LevelMod: cfg.mod, MaxCells: cfg.maxCells}
	for mi, method := range c05Methods {
		interior := mi == 2 || mi == 3
		if interior && skipInterior {
			st.skippedInterior.Add(1)
			continue
		}
		cas := []int{ri, ci}
		var cu s2.CellUnion
		ok := false
		c.Guard(sub, cas, func() any { return c05CfgDetail(r, cfg, method) }, func() {
			switch mi {
			case 0:
				cu = rc.Covering(r.reg)
			case 1:
				cu = rc.CellUnion(r.reg)
			case 2:
				cu = rc.InteriorCovering(r.reg)
			case 3:
				cu = rc.InteriorCellUnion(r.reg)
			case 4:
				cu = rc.FastCovering(r.reg)
			}
			ok = true
		})
		if !ok {
			continue
		}
		st.coverings.Add(1)
		st.cellsReturned.Add(int64(len(cu)))
		bad := func(desc string, extra map[string]any) {
			d := c05CfgDetail(r, cfg, method)
			d["covering"] = c05Tokens(cu)
			for k, v := range extra {
				d[k] = v
			}
			c.Violate(sub, "wrong-answer", desc, cas, d)
		}
		// (3) structure and levels
		structOK := true
		for i, id := range cu {
			if !id.IsValid() {
				bad(method+" returns an invalid cell id", map[string]any{"index": i})
				structOK = false
				break
			}
			if i > 0 && cu[i-1].RangeMax() >= id.RangeMin() {
				bad(method+" result is not sorted / not disjoint", map[string]any{"index": i})
				structOK = false
				break
			}
			l := id.Level()
			if l > cfg.maxL {
				bad(method+" returns a cell above MaxLevel", map[string]any{"cell": id.ToToken(), "level": l})
			}
			if mi == 0 || mi == 2 || mi == 4 {
				if l < cfg.minL {
					bad(method+" returns a cell below MinLevel", map[string]any{"cell": id.ToToken(), "level": l})
				} else if (l-cfg.minL)%cfg.mod != 0 {
					bad(method+" returns a cell whose level violates LevelMod", map[string]any{"cell": id.ToToken(), "level": l})
				}
			}
		}
		if !structOK {
			continue
		}
		if mi == 1 || mi == 3 {
			// normalised: no four sibling cells
			for i := 3; i < len(cu); i++ {
				a := cu[i-3]
				if a.Level() > 0 && cu[i].Level() == a.Level() && cu[i-1].Level() == a.Level() && cu[i-2].Level() == a.Level() {
					par := a.Parent(a.Level() - 1)
					if cu[i].Parent(a.Level()-1) == par && cu[i-1].Parent(a.Level()-1) == par && cu[i-2].Parent(a.Level()-1) == par {
						bad(method+" result is not normalized (four siblings)", map[string]any{"index": i})
						break
					}
				}
			}
		}
		if len(cu) == 0 {
			st.emptyCoverings.Add(1)
		}
		if !interior {
			// (1) every contained probe is covered
			n := 0
			for k, p := range r.inPts {
				n++
				if !c05Covered(cu, p, r.inLeaf[k], st) {
					bad(fmt.Sprintf("%s of a %s misses a point the region contains (farther than 1e-12 from every returned cell)", method, r.kind),
						map[string]any{"point": lattice.GeoPt(p), "distance_to_region_boundary": r.bdist(p)})
					break
				}
			}
			// centres of the neighbours of the covering cells
			stride := 1 + len(cu)/300
			nb := 0
			for i := 0; i < len(cu); i += stride {
				for _, q := range cu[i].EdgeNeighbors() {
					p := q.Point()
					leaf := lattice.GeoLeaf(p)
					nb++
					j := sort.Search(len(cu), func(k int) bool { return cu[k].RangeMax() >= leaf })
					if j < len(cu) && cu[j].RangeMin() <= leaf {
						continue
					}
					if r.in(p) && !c05Covered(cu, p, leaf, st) {
						bad(fmt.Sprintf("%s of a %s misses the centre of a neighbouring cell that the region contains", method, r.kind),
							map[string]any{"point": lattice.GeoPt(p), "neighbour": q.ToToken(), "distance_to_region_boundary": r.bdist(p)})
						i = len(cu)
						break
					}
				}
			}
			st.coverProbes.Add(int64(n))
			st.nbrProbes.Add(int64(nb))
			if n > 0 && len(cu) > 0 {
				st.nontrivial.Add(1)
			}
		} else {
			// (2) every interior cell lies inside the region
			if len(cu) > 0 {
				st.interiorNonEmpty.Add(1)
				st.nontrivial.Add(1)
			}
			stride := 1 + len(cu)/200
			for i := 0; i < len(cu); i += stride {
				id := cu[i]
				cell := s2.CellFromCellID(id)
				probes := lattice.GeoCellProbes(id, depth)
				st.interiorCells.Add(1)
				st.interiorProbes.Add(int64(len(probes)))
				if p, found := c05WitnessOutside(r, cell, probes); found {
					bad(fmt.Sprintf("%s of a %s returns a cell with a point outside the region", method, r.kind),
						map[string]any{"cell": id.ToToken(), "point": lattice.GeoPt(p), "distance_to_region_boundary": r.bdist(p), "distance_to_cell_boundary": lattice.GeoCellBoundaryDist(p, cell)})
					break
				}
			}
		}
	}
}

// c05WitnessOutside looks for a point of the closed cell that is not in the region:
// a probe the reference excludes that is farther than tau from the region's boundary
// or from the cell's boundary, or a boundary probe of the region deep inside the cell.
func c05WitnessOutside(r *c05Region, cell s2.Cell, probes []s2.Point) (s2.Point, bool) {
	for _, p := range probes {
		if !r.in(p) && (r.bdist(p) > c05Tau || lattice.GeoCellBoundaryDist(p, cell) > c05Tau) {
			return p, true
		}
	}
	for _, p := range r.bidx.In(cell.ID()) {
		if lattice.GeoCellBoundaryDist(p, cell) > c05Tau {
			return p, true
		}
	}
	return s2.Point{}, false
}

// c05WitnessInside looks for a point of the region in the closed cell.
func c05WitnessInside(r *c05Region, cell s2.Cell, probes []s2.Point) (s2.Point, bool) {
	for _, p := range probes {
		if r.in(p) && (r.bdist(p) > c05Tau || lattice.GeoCellBoundaryDist(p, cell) > c05Tau) {
			return p, true
		}
	}
	for _, p := range r.pidx.In(cell.ID()) {
		if r.in(p) && lattice.GeoCellBoundaryDist(p, cell) > c05Tau {
			return p, true
		}
	}
	for _, p := range r.bidx.In(cell.ID()) {
		if lattice.GeoCellBoundaryDist(p, cell) > c05Tau {
			return p, true
		}
	}
	return s2.Point{}, false
}

// ---- region predicates ------------------------------------------------------------------

func c05AllCells(maxLevel int) []s2.CellID {
	var out []s2.CellID
	for f := 0; f < 6; f++ {
		root := s2.CellIDFromFace(f)
		for l := 0; l <= maxLevel; l++ {
			end := root.ChildEndAtLevel(l)
			for id := root.ChildBeginAtLevel(l); id != end; id = id.Next() {
				out = append(out, id)
			}
		}
	}
	return out
}

func c05PredicateCells(r *c05Region, top []s2.CellID, levels []int) []s2.CellID {
	seen := map[s2.CellID]bool{}
	var out []s2.CellID
	put := func(id s2.CellID) {
		if !seen[id] {
			seen[id] = true
			out = append(out, id)
		}
	}
	for _, id := range top {
		put(id)
	}
	for _, b := range r.bpts {
		leaf := lattice.GeoLeaf(b)
		for _, l := range levels {
			id := leaf.Parent(l)
			put(id)
			for _, nb := range id.AllNeighbors(l) {
				put(nb)
			}
		}
	}
	return out
}

func c05CheckPredicates(c *core.Ctx, ri int, r *c05Region, cells []s2.CellID, st *c05Stats, depth int) {
	const sub = "predicates"
	for k, id := range cells {
		if c.Skip(sub, ri, k) {
			continue
		}
		cell := s2.CellFromCellID(id)
		var cont, inter bool
		ok := false
		cas := []int{ri, k}
		detail := func() any {
			return map[string]any{"region": r.name, "region_data": r.desc, "cell": id.ToToken(), "level": id.Level()}
		}
		c.Guard(sub, cas, detail, func() {
			cont = r.reg.ContainsCell(cell)
			inter = r.reg.IntersectsCell(cell)
			ok = true
		})
		if !ok {
			continue
		}
		st.predCells.Add(1)
		if !cont && inter {
			st.predMixed.Add(1)
			continue
		}
		probes := lattice.GeoCellProbes(id, depth)
		st.predProbes.Add(int64(len(probes)))
		if cont {
			st.predContained.Add(1)
			if p, found := c05WitnessOutside(r, cell, probes); found {
				d := detail().(map[string]any)
				d["point"] = lattice.GeoPt(p)
				d["distance_to_region_boundary"] = r.bdist(p)
				d["distance_to_cell_boundary"] = lattice.GeoCellBoundaryDist(p, cell)
				c.Violate(sub, "wrong-answer", fmt.Sprintf("ContainsCell of a %s is true for a cell with a point outside the region", r.kind), cas, d)
			}
		}
		if !inter {
			st.predDisjoint.Add(1)
			if p, found := c05WitnessInside(r, cell, probes); found {
				d := detail().(map[string]any)
				d["point"] = lattice.GeoPt(p)
				d["distance_to_region_boundary"] = r.bdist(p)
				d["distance_to_cell_boundary"] = lattice.GeoCellBoundaryDist(p, cell)
				c.Violate(sub, "wrong-answer", fmt.Sprintf("IntersectsCell of a %s is false for a cell with a point inside the region", r.kind), cas, d)
			}
		}
	}
}

// ---- grazing rectangles --------------------------------------------------------------------

type c05GProbe struct {
	p        s2.Point
	lat, lng float64
}

// c05Thin reduces a sorted value list to at most n entries, keeping both ends.
func c05Thin(v []float64, n int) []float64 {
	if len(v) <= n {
		return v
	}
	out := make([]float64, 0, n)
	for k := 0; k < n; k++ {
		out = append(out, v[k*(len(v)-1)/(n-1)])
	}
	return out
}

// c05Alphabet builds the characteristic value alphabet: the given values, the
// midpoints between consecutive distinct ones and one value beyond either end.
func c05Alphabet(vals []float64, n int) []float64 {
	sort.Float64s(vals)
	var u []float64
	for _, x := range vals {
		if len(u) == 0 || x-u[len(u)-1] > 1e-13 {
			u = append(u, x)
		}
	}
	if len(u) < 2 {
		return u
	}
	span := u[len(u)-1] - u[0]
	out := []float64{u[0] - span/8}
	for i, x := range u {
		out = append(out, x)
		if i+1 < len(u) {
			out = append(out, 0.5*(x+u[i+1]))
		}
	}
	out = append(out, u[len(u)-1]+span/8)
	return c05Thin(out, n)
}

// c05Merge merges two value lists into a sorted list of distinct values.
func c05Merge(a, b []float64) []float64 {
	all := append(append([]float64(nil), a...), b...)
	sort.Float64s(all)
	var out []float64
	for _, x := range all {
		if len(out) == 0 || x-out[len(out)-1] > 1e-13 {
			out = append(out, x)
		}
	}
	return out
}

func c05Grazing(c *core.Ctx, bi int, id s2.CellID, st *c05Stats, nAlpha int) {
	const sub = "grazing-rects"
	cell := s2.CellFromCellID(id)
	north, south := s2.PointFromCoords(0, 0, 1), s2.PointFromCoords(0, 0, -1)
	if cell.ContainsPoint(north) || cell.ContainsPoint(south) {
		return
	}
	st.grazeBase.Add(1)
	v := lattice.GeoCellVerts(cell)
	_, lngC := lattice.GeoLatLng(cell.Center())
	rel := func(lng float64) float64 { return math.Remainder(lng-lngC, 2*math.Pi) }
	var probes []c05GProbe
	addP := func(p s2.Point) {
		la, ln := lattice.GeoLatLng(p)
		probes = append(probes, c05GProbe{p, la, ln})
	}
	var lats, lngs, latExtra, lngExtra []float64
	for k := 0; k < 4; k++ {
		addP(v[k])
		la, ln := lattice.GeoLatLng(v[k])
		lats = append(lats, la)
		lngs = append(lngs, rel(ln))
		eMax, eMin := math.Inf(-1), math.Inf(1)
		var lngMax, lngMin float64
		for j := 1; j < 48; j++ {
			p := lattice.GeoSlerp(v[k], v[(k+1)%4], float64(j)/48)
			addP(p)
			pl, pn := lattice.GeoLatLng(p)
			if pl > eMax {
				eMax, lngMax = pl, rel(pn)
			}
			if pl < eMin {
				eMin, lngMin = pl, rel(pn)
			}
		}
		lats = append(lats, eMax, eMin)
		// an extremum in the interior of the edge (the edge bulges beyond both of its
		// vertices): latitudes approaching the extremum and longitudes around it
		la2, ln2 := lattice.GeoLatLng(v[(k+1)%4])
		for _, e := range [][2]float64{{eMax, lngMax}, {eMin, lngMin}} {
			near := la
			if math.Abs(la2-e[0]) < math.Abs(la-e[0]) {
				near = la2
			}
			if (e[0] > la && e[0] > la2 || e[0] < la && e[0] < la2) && math.Abs(e[0]-near) > 1e-9 {
				for sh := 2; sh <= 64; sh *= 2 {
					latExtra = append(latExtra, e[0]-(e[0]-near)/float64(sh))
				}
				w := math.Abs(math.Remainder(rel(ln2)-rel(ln), 2*math.Pi))
				for _, f := range []float64{0.03, 0.1, 0.2, 0.35} {
					lngExtra = append(lngExtra, e[1]-f*w, e[1]+f*w)
				}
			}
		}
	}
	addP(cell.Center())
	cla, _ := lattice.GeoLatLng(cell.Center())
	lats = append(lats, cla)
	lngs = append(lngs, 0)
	if id.Level()+3 <= 30 {
		end := id.ChildEndAtLevel(id.Level() + 3)
		for ch := id.ChildBeginAtLevel(id.Level() + 3); ch != end; ch = ch.Next() {
			addP(ch.Point())
		}
	}
	A := c05Merge(c05Alphabet(lats, nAlpha), latExtra)
	B := c05Merge(c05Alphabet(lngs, nAlpha), lngExtra)
	for i := range A {
		A[i] = math.Max(-math.Pi/2, math.Min(math.Pi/2, A[i]))
	}
	ri := 0
	for a0 := 0; a0 < len(A); a0++ {
		for a1 := a0 + 1; a1 < len(A); a1++ {
			if A[a1] <= A[a0] {
				continue
			}
			for b0 := 0; b0 < len(B); b0++ {
				for b1 := b0 + 1; b1 < len(B); b1++ {
					ri++
					cas := []int{bi, a0, a1, b0, b1}
					if c.Skip(sub, cas...) {
						continue
					}
					rc := s2.Rect{Lat: r1.Interval{Lo: A[a0], Hi: A[a1]},
						Lng: s1.IntervalFromEndpoints(math.Remainder(B[b0]+lngC, 2*math.Pi), math.Remainder(B[b1]+lngC, 2*math.Pi))}
					if !rc.IsValid() || rc.IsEmpty() {
						continue
					}
					var cont, inter bool
					ok := false
					detail := func() map[string]any {
						return map[string]any{"cell": id.ToToken(), "level": id.Level(), "face": id.Face(), "rect_lat": []float64{rc.Lat.Lo, rc.Lat.Hi}, "rect_lng": []float64{rc.Lng.Lo, rc.Lng.Hi},
							"ContainsCell": cont, "IntersectsCell": inter}
					}
					c.Guard(sub, cas, func() any { return detail() }, func() {
						cont = rc.ContainsCell(cell)
						inter = rc.IntersectsCell(cell)
						ok = true
					})
					if !ok {
						continue
					}
					st.grazeRects.Add(1)
					if cont {
						st.grazeContained.Add(1)
					}
					if !inter {
						st.grazeDisjoint.Add(1)
					}
					if !cont && inter {
						continue
					}
					for _, q := range probes {
						in := rc.Lat.Contains(q.lat) && rc.Lng.Contains(q.lng)
						if cont && !in || !inter && in {
							st.grazeCandidates.Add(1)
							if c05RectBoundaryDist(rc, q.p) > c05Tau || lattice.GeoCellBoundaryDist(q.p, cell) > c05Tau {
								d := detail()
								d["point"] = lattice.GeoPt(q.p)
								d["point_lat_lng"] = []float64{q.lat, q.lng}
								d["distance_to_rect_boundary"] = c05RectBoundaryDist(rc, q.p)
								d["distance_to_cell_boundary"] = lattice.GeoCellBoundaryDist(q.p, cell)
								if cont {
									c.Violate(sub, "wrong-answer", "Rect.ContainsCell is true for a cell with a point outside the rectangle", cas, d)
								} else {
									c.Violate(sub, "wrong-answer", "Rect.IntersectsCell is false for a cell with a point inside the rectangle", cas, d)
								}
								break
							}
						}
					}
				}
			}
		}
	}
}

// ---- driver -----------------------------------------------------------------------------------

func runC05(c *core.Ctx) {
	c.Rule = "coverings: every region of the catalogue (caps, lat-lng rectangles, cells, cell unions, loops, polygons with holes, polylines, points; radii 3e-9 .. pi; cube corners, face edges, poles, antimeridian) x every (MinLevel<=MaxLevel, LevelMod, MaxCells) of the option grid x {Covering, CellUnion, InteriorCovering, InteriorCellUnion, FastCovering}, minus configurations whose MinLevel would split the region's own CellUnionBound into more than 30000 cells (documented: arbitrary many cells) and interior coverings of zero-area lines (polylines, degenerate rectangles) at levels needing more than 2000 cells along the line; a covering is non-trivial when it is non-empty and at least one contained probe (exterior) or one returned cell (interior) was judged.  predicates: every region x (all cells of the top levels + 9 cells around each boundary seed at levels 5, 10, 20, 30 (thorough: 2, 5, 8, 10, 15, 20, 25, 30)); non-trivial = cells answered ContainsCell=true or IntersectsCell=false (the one-sided claims).  grazing-rects: for every base cell all rectangles [a0,a1]x[b0,b1] over the alphabet of its characteristic latitudes and longitudes; non-trivial = rectangles with ContainsCell=true or IntersectsCell=false."
	c.Assume = []string{
		"membership of caps, rectangles, cells and cell unions is the region's own ContainsPoint; of loops and polygons the exact crossing-parity reference (float filter at 1e-13 in front of exact signs, cross-checked against refmodel.Loop); polylines: distance 0 to the chain; points: equality",
		"a probe accuses only when it is farther than 1e-12 rad from the boundary of the region or of the cell; distances are float64 (error about 1e-15)",
		"cell geometry (Cell.Vertex, Cell.Center, CellID hierarchy, Cell.ContainsPoint) is trusted here; it is the subject of C01/C12",
		"MaxCells is a soft limit and is not asserted",
	}
	if c.OnlySub == "" || c.OnlySub == "cap-grid" || c.OnlySub == "cap-grid-covering" {
		c05CapGrid(c)
	}
	st := &c05Stats{}
	regions := c05Catalogue(c)
	structural := lattice.PStruct(core.Pick(c, 2, 3))
	c.ParallelFor(len(regions), func(i int) { regions[i].prepare(structural) })

	// cross-check of the filtered reference against refmodel on a slice of the probes
	var xc atomic.Int64
	c.ParallelFor(len(regions), func(i int) {
		r := regions[i]
		if r.kind != "loop" {
			return
		}
		l := r.reg.(*s2.Loop)
		if l.NumVertices() < 3 {
			return
		}
		full := refmodel.LoopOf(l)
		stride := 1 + len(r.probes)/40
		for k := 0; k < len(r.probes); k += stride {
			xc.Add(1)
			if full.Contains(r.probes[k]) != r.in(r.probes[k]) {
				panic(core.HarnessError("filtered reference containment disagrees with refmodel.Loop on " + r.name))
			}
		}
	})
	c.Count("oracle/filtered_vs_exact_reference_crosschecks", xc.Load())

	kinds := map[string]int64{}
	var nIn int64
	for _, r := range regions {
		kinds[r.kind]++
		nIn += int64(len(r.inPts))
	}
	for k, n := range kinds {
		c.Count("regions/"+k, n)
	}
	c.Count("regions/total", int64(len(regions)))
	c.Count("probes/contained_probes_all_regions", nIn)

	// ---- coverings
	grid := c05Grid(c)
	c.Count("coverings/option_grid_size", int64(len(grid)))
	depth := core.Pick(c, 2, 4)
	bounds := make([][]s2.CellID, len(regions))
	for i, r := range regions {
		c.Guard("coverings", []int{i}, func() any { return r.desc }, func() { bounds[i] = r.reg.CellUnionBound() })
		// build the lazily built indexes before the parallel phase
		c.Guard("coverings", []int{i}, func() any { return r.desc }, func() { r.reg.ContainsCell(s2.CellFromCellID(s2.CellIDFromFace(0))) })
	}
	type job struct{ ri, ci int }
	var jobs []job
	for ri := range regions {
		for ci := range grid {
			jobs = append(jobs, job{ri, ci})
		}
	}
	// interleave regions so that workers do not all sit on the same expensive region
	sort.SliceStable(jobs, func(a, b int) bool { return jobs[a].ci < jobs[b].ci })
	var cut atomic.Bool
	var done atomic.Int64
	// Liveness guard.  A covering takes milliseconds; the coverer contains loops whose
	// termination depends on the data ("while more than MaxCells cells ..."), so a case
	// that is still inside the library 180 s after it started is reported as
	// non-termination (with its inputs) instead of hanging the check for ever.  This
	// is not a speed oracle: four to five orders of magnitude lie between the two.
	var inflight sync.Map // job index -> start time
	stopWatch := make(chan struct{})
	go func() {
		tick := time.NewTicker(5 * time.Second)
		defer tick.Stop()
		for {
			select {
			case <-stopWatch:
				return
			case <-tick.C:
				inflight.Range(func(k, v any) bool {
					if time.Since(v.(time.Time)) > 180*time.Second {
						jb := jobs[k.(int)]
						d := c05CfgDetail(regions[jb.ri], grid[jb.ci], "one of "+fmt.Sprint(c05Methods))
						c.Violate("coverings", "nontermination", fmt.Sprintf("a RegionCoverer call on a %s has not returned after 180 s", regions[jb.ri].kind), []int{jb.ri, jb.ci}, d)
						c.CapHit("coverings: abandoned because a library call does not return")
						os.Exit(c.Finish())
					}
					return true
				})
			}
		}
	}()
	c.ParallelFor(len(jobs), func(j int) {
		jb := jobs[j]
		if c.Skip("coverings", jb.ri, jb.ci) {
			return
		}
		if c.Expired() {
			cut.Store(true)
			return
		}
		inflight.Store(j, time.Now())
		c05CheckCovering(c, jb.ri, jb.ci, regions[jb.ri], grid[jb.ci], bounds[jb.ri], st, depth)
		inflight.Delete(j)
		done.Add(1)
	})
	close(stopWatch)
	if cut.Load() {
		c.CapHit(fmt.Sprintf("coverings: wall budget reached after %d of %d (region, configuration) cases", done.Load(), len(jobs)))
	}
	for i, r := range regions {
		if i%7 == 0 {
			c.Sample(map[string]any{"sub": "coverings", "region": r.name, "contained_probes": len(r.inPts), "example_config": grid[(i*37)%len(grid)]})
		}
	}

	// ---- predicates
	if c.OnlySub == "" || c.OnlySub == "predicates" {
		top := c05AllCells(core.Pick(c, 2, 3))
		c.ParallelFor(len(regions), func(ri int) {
			if c.Expired() {
				cut.Store(true)
				return
			}
			cells := c05PredicateCells(regions[ri], top, core.Pick(c, []int{5, 10, 20, 30}, []int{2, 5, 8, 10, 15, 20, 25, 30}))
			c05CheckPredicates(c, ri, regions[ri], cells, st, core.Pick(c, 2, 3))
		})
	}

	// ---- grazing rectangles
	if c.OnlySub == "" || c.OnlySub == "grazing-rects" {
		var base []s2.CellID
		base = append(base, c05AllCells(core.Pick(c, 2, 4))...)
		for _, p := range []s2.Point{lattice.LL(37.3, -122.1), lattice.LL(-33.9, 151.2), lattice.LL(61, 10), lattice.LL(5, 179.9), s2.PointFromCoords(1, 1, 1), s2.PointFromCoords(-1, 1, -0.9)} {
			for _, l := range core.Pick(c, []int{5, 12}, []int{4, 5, 8, 12, 20}) {
				base = append(base, lattice.GeoLeaf(p).Parent(l))
			}
		}
		c.Count("grazing/base_cells", int64(len(base)))
		nAlpha := core.Pick(c, 11, 15)
		c.ParallelFor(len(base), func(bi int) {
			if c.Expired() {
				cut.Store(true)
				return
			}
			c05Grazing(c, bi, base[bi], st, nAlpha)
		})
		c.Sample(map[string]any{"sub": "grazing-rects", "base_cell": base[len(base)/2].ToToken(), "alphabet_size": nAlpha})
	}
	if cut.Load() && c.Expired() {
		c.CapHit("wall budget reached during predicates / grazing rectangles")
	}

	// ---- counters
	c.Eval(int(st.coverings.Load() + st.predCells.Load() + st.grazeRects.Load()))
	c.Nontrivial(int(st.nontrivial.Load() + st.predContained.Load() + st.predDisjoint.Load() + st.grazeContained.Load() + st.grazeDisjoint.Load()))
	c.Count("coverings/computed", st.coverings.Load())
	c.Count("coverings/nontrivial", st.nontrivial.Load())
	c.Count("coverings/skipped_MinLevel_too_high_for_region", st.skippedMinLevel.Load())
	c.Count("coverings/skipped_interior_of_zero_area_line_at_deep_level", st.skippedInterior.Load())
	c.Count("coverings/cells_returned", st.cellsReturned.Load())
	c.Count("coverings/empty_results", st.emptyCoverings.Load())
	c.Count("coverings/contained_probes_judged", st.coverProbes.Load())
	c.Count("coverings/neighbour_centre_probes", st.nbrProbes.Load())
	c.Count("coverings/probes_resolved_by_closed_cell_or_slack", st.slowPath.Load())
	c.Count("coverings/interior_nonempty", st.interiorNonEmpty.Load())
	c.Count("coverings/interior_cells_judged", st.interiorCells.Load())
	c.Count("coverings/interior_cell_probes", st.interiorProbes.Load())
	c.Count("predicates/cells", st.predCells.Load())
	c.Count("predicates/ContainsCell_true", st.predContained.Load())
	c.Count("predicates/IntersectsCell_false", st.predDisjoint.Load())
	c.Count("predicates/undecided_by_one_sided_claims", st.predMixed.Load())
	c.Count("predicates/cell_probes", st.predProbes.Load())
	c.Count("grazing/base_cells_used", st.grazeBase.Load())
	c.Count("grazing/rect_cell_pairs", st.grazeRects.Load())
	c.Count("grazing/ContainsCell_true", st.grazeContained.Load())
	c.Count("grazing/IntersectsCell_false", st.grazeDisjoint.Load())
	c.Count("grazing/boundary_noise_candidates_examined", st.grazeCandidates.Load())
	if c.OnlySub == "" && c.CapsHit() == 0 { // a run cut short by its wall budget is reported as such, not as vacuous
		if st.interiorNonEmpty.Load() == 0 || st.predContained.Load() == 0 || st.predDisjoint.Load() == 0 || st.grazeContained.Load() == 0 || st.grazeDisjoint.Load() == 0 || st.coverProbes.Load() == 0 {
			panic(core.HarnessError("C05: a one-sided claim was never exercised (vacuous run)"))
		}
	}
	c05History(c) // sub-check "covering-histories" (c05_history.go)
}
