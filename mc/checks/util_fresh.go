package checks

// Fresh-process schedule exploration.
//
// Package-level state that is built lazily on first use (a table, a cached constant) is shared by all
// goroutines of a process whether or not they share any geometry, and its construction happens once
// per process: an in-process explorer sees it in its very first execution only.  Here every execution
// is a new process: the worker runs exactly one controlled execution of the panel's thread bodies
// following a given choice list — the bodies' calls are the first use of golang/geo in that process —
// and reports its scheduling points; the parent performs the preemption-bounded depth-first search
// over choice lists, comparing every thread's answer with the serial answer computed in the parent
// and collecting panics, deadlocks and happens-before races (all shared memory of package s2 when the
// worker binary is the memory-instrumented one).
//
// The thread bodies must not touch golang/geo while they are being constructed (constructing them is
// harness code that runs before the controlled execution and would perform the first use serially).

import (
	"encoding/json"
	"fmt"
	"os"
	"sort"
	"strconv"
	"strings"
	"sync"

	"github.com/golang/geo/verifshim/vsched"

	"verif/mc/core"
)

type freshOp struct {
	Name string
	Run  func() string
}

type freshPanel struct {
	Name string
	Ops  func() []freshOp // one per thread
}

var freshPanels = map[string]*freshPanel{}

func init() { workers["fresh"] = freshWorker }

type freshPoint struct {
	E []int `json:"e"` // enabled threads
	C int   `json:"c"` // chosen index
	R bool  `json:"r"` // running thread still enabled
}

type freshOut struct {
	Points   []freshPoint `json:"points"`
	Answers  []string     `json:"answers"`
	Panics   []string     `json:"panics"`
	Deadlock string       `json:"deadlock"`
	Livelock bool         `json:"livelock"`
	Diverged string       `json:"diverged"`
	Races    []string     `json:"races"`
	MemAcc   int64        `json:"mem"`
}

// freshWorker: vcheck worker fresh <panel> <threads> <choices-json>
func freshWorker(args []string) int {
	if len(args) < 3 {
		return 2
	}
	p := freshPanels[args[0]]
	if p == nil {
		fmt.Println("unknown panel", args[0])
		return 2
	}
	n, _ := strconv.Atoi(args[1])
	var choices []int
	if json.Unmarshal([]byte(args[2]), &choices) != nil {
		return 2
	}
	installAccessHook()
	ops := p.Ops()
	if n < len(ops) {
		ops = ops[:n]
	}
	out := freshOut{Answers: make([]string, len(ops))}
	bodies := make([]func(), len(ops))
	for i := range ops {
		i := i
		bodies[i] = func() { out.Answers[i] = ops[i].Run() }
	}
	r := vsched.Run(choices, bodies, false, 0)
	for _, pt := range r.Points {
		out.Points = append(out.Points, freshPoint{pt.Enabled, pt.Chosen, pt.RunningStillEnabled})
	}
	out.Panics = r.Panics
	if r.Deadlock {
		out.Deadlock = r.DeadInfo
		if out.Deadlock == "" {
			out.Deadlock = "deadlock"
		}
	}
	out.Livelock = r.Livelock
	out.Diverged = r.Diverged
	for _, rc := range r.Races {
		a, b := rc.First, rc.Second
		if a > b {
			a, b = b, a
		}
		out.Races = append(out.Races, fmt.Sprintf("%s: {%s} unordered by happens-before with {%s}", rc.Loc, a, b))
	}
	out.MemAcc = vsched.MemAccesses
	b, _ := json.Marshal(out)
	fmt.Println("FRESHOUT " + string(b))
	return 0
}

type freshStats struct {
	Panel       string `json:"panel"`
	Threads     int    `json:"threads"`
	Bound       int    `json:"preemption_bound_completed"`
	Executions  int64  `json:"executions_each_in_a_fresh_process"`
	Points      int64  `json:"scheduling_points"`
	MaxPoints   int    `json:"max_points_per_execution"`
	MemAccesses int64  `json:"memory_accesses_race_checked"`
	Outcomes    int    `json:"distinct_answer_vectors"`
	Truncated   bool   `json:"truncated"`
	MemBinary   bool   `json:"memory_instrumented_binary"`
}

// freshRunOne runs one execution in a new process.
func freshRunOne(bin, panel string, threads int, choices []int) (*freshOut, error) {
	cj, _ := json.Marshal(choices)
	if choices == nil {
		cj = []byte("[]")
	}
	so, se, err := runWorkerBin(bin, "fresh", panel, strconv.Itoa(threads), string(cj))
	for _, l := range strings.Split(so, "\n") {
		if strings.HasPrefix(l, "FRESHOUT ") {
			var o freshOut
			if e := json.Unmarshal([]byte(l[9:]), &o); e != nil {
				return nil, e
			}
			return &o, nil
		}
	}
	return nil, fmt.Errorf("fresh worker produced no result: %v\n%s\n%s", err, tail(so, 1500), tail(se, 3000))
}

// freshExplore explores every schedule of the panel up to the preemption bound, one process per
// execution, and reports violations under sub.
func freshExplore(c *core.Ctx, sub, panel string, threads, bound int, maxExec int64) freshStats {
	bin := os.Getenv("VERIF_MEM_BIN") // "" = this binary (hooked state only)
	p := freshPanels[panel]
	// serial answers, computed here (this process has long finished any first use)
	ops := p.Ops()
	if threads < len(ops) {
		ops = ops[:threads]
	}
	expected := make([]string, len(ops))
	for i, o := range ops {
		expected[i] = o.Run()
	}
	// the serial answers must be reproducible before they can serve as an oracle
	for i, o := range p.Ops()[:len(ops)] {
		if again := o.Run(); again != expected[i] {
			panic(core.HarnessError(fmt.Sprintf("panel %s: the serial answer of %q is not reproducible (%s vs %s)", panel, o.Name, trunc(expected[i], 120), trunc(again, 120))))
		}
	}
	st := freshStats{Panel: panel, Threads: len(ops), Bound: bound, MemBinary: bin != ""}
	var mu sync.Mutex
	outcomes := map[string]bool{}
	reported := map[string]bool{}
	queue := [][]int{nil}
	inflight := 0
	cond := sync.NewCond(&mu)
	var harnessErr error
	report := func(kind, desc string, choices []int) {
		key := kind + "|" + desc
		if reported[key] {
			return
		}
		reported[key] = true
		mu.Unlock()
		// the same schedule must fail the same way in two more fresh processes
		stable := true
		for k := 0; k < 2; k++ {
			o, err := freshRunOne(bin, panel, len(ops), choices)
			if err != nil || !freshHas(o, expected, ops, kind, desc) {
				stable = false
			}
		}
		mu.Lock()
		if !stable {
			harnessErr = fmt.Errorf("schedule %v of %s did not reproduce its finding (%s: %s) in a fresh process: nondeterminism not owned", choices, panel, kind, desc)
			return
		}
		c.Violate(sub, kind, desc, nil, map[string]any{"panel": panel, "threads": len(ops), "choices": choices, "ops": freshNames(ops), "serial_answers": expected, "fresh_process": true})
	}
	worker := func() {
		mu.Lock()
		defer mu.Unlock()
		for {
			for len(queue) == 0 && inflight > 0 && harnessErr == nil {
				cond.Wait()
			}
			if harnessErr != nil || (len(queue) == 0 && inflight == 0) {
				cond.Broadcast()
				return
			}
			if maxExec > 0 && st.Executions >= maxExec {
				st.Truncated = true
				queue = nil
				if inflight == 0 {
					cond.Broadcast()
					return
				}
				cond.Wait()
				continue
			}
			prefix := queue[len(queue)-1]
			queue = queue[:len(queue)-1]
			inflight++
			st.Executions++
			mu.Unlock()
			o, err := freshRunOne(bin, panel, len(ops), prefix)
			mu.Lock()
			inflight--
			if err != nil {
				harnessErr = err
				cond.Broadcast()
				return
			}
			if o.Diverged != "" {
				harnessErr = fmt.Errorf("replay of prefix %v diverged in a fresh process: %s", prefix, o.Diverged)
				cond.Broadcast()
				return
			}
			st.Points += int64(len(o.Points))
			if len(o.Points) > st.MaxPoints {
				st.MaxPoints = len(o.Points)
			}
			st.MemAccesses += o.MemAcc
			outcomes[strings.Join(o.Answers, "\x00")] = true
			choices := make([]int, len(o.Points))
			for i, pt := range o.Points {
				choices[i] = pt.C
			}
			for _, f := range freshFindings(o, expected, ops) {
				report(f[0], f[1], choices)
			}
			// expand the alternatives within the preemption bound
			pre := 0
			for i, pt := range o.Points {
				if i >= len(prefix) && len(pt.E) > 1 {
					cost := pre
					if pt.R {
						cost++
					}
					if cost <= bound {
						for alt := 1; alt < len(pt.E); alt++ {
							np := make([]int, i+1)
							copy(np, choices[:i])
							np[i] = alt
							queue = append(queue, np)
						}
					}
				}
				if pt.R && pt.C != 0 {
					pre++
				}
			}
			cond.Broadcast()
		}
	}
	var wg sync.WaitGroup
	for w := 0; w < c.Workers; w++ {
		wg.Add(1)
		go func() { defer wg.Done(); worker() }()
	}
	wg.Wait()
	if harnessErr != nil {
		panic(core.HarnessError(harnessErr.Error()))
	}
	st.Outcomes = len(outcomes)
	if st.Truncated {
		c.CapHit(fmt.Sprintf("%s: fresh-process exploration truncated after %d executions", panel, st.Executions))
	}
	c.Eval(int(st.Executions))
	c.MC(int64(st.Outcomes), st.Points, st.Executions)
	return st
}

func freshNames(ops []freshOp) []string {
	var s []string
	for _, o := range ops {
		s = append(s, o.Name)
	}
	return s
}

// freshFindings lists (kind, canonical description) pairs of one execution.
func freshFindings(o *freshOut, expected []string, ops []freshOp) [][2]string {
	var fs [][2]string
	for i, p := range o.Panics {
		if p != "" {
			fs = append(fs, [2]string{"panic", canonDesc("panic", fmt.Sprintf("T%d: %s", i, p))})
		}
	}
	if o.Deadlock != "" {
		fs = append(fs, [2]string{"deadlock", canonDesc("deadlock", o.Deadlock)})
	}
	if o.Livelock {
		fs = append(fs, [2]string{"nontermination", "step horizon exceeded"})
	}
	for _, r := range o.Races {
		fs = append(fs, [2]string{"race", canonDesc("race", r)})
	}
	{
		for i := range ops {
			if i < len(o.Answers) && o.Answers[i] != expected[i] {
				fs = append(fs, [2]string{"wrong-answer", fmt.Sprintf("%s, as the first use of the library in a new process concurrently with other first uses, returned %s; the serial answer is %s", ops[i].Name, trunc(o.Answers[i], 160), trunc(expected[i], 160))})
			}
		}
	}
	sort.Slice(fs, func(i, j int) bool { return fs[i][0]+fs[i][1] < fs[j][0]+fs[j][1] })
	return fs
}

func freshHas(o *freshOut, expected []string, ops []freshOp, kind, desc string) bool {
	if o == nil {
		return false
	}
	for _, f := range freshFindings(o, expected, ops) {
		if f[0] == kind && f[1] == desc {
			return true
		}
	}
	return false
}

// freshReplay re-runs the recorded schedule of a replay file three times, each in a new process.
func freshReplay(c *core.Ctx, sub string) {
	d, _ := c.ReplayDetail.(map[string]any)
	if d == nil {
		panic(core.HarnessError("replay file has no detail"))
	}
	panel, _ := d["panel"].(string)
	threads := int(d["threads"].(float64))
	var choices []int
	for _, x := range d["choices"].([]any) {
		choices = append(choices, int(x.(float64)))
	}
	p := freshPanels[panel]
	if p == nil {
		panic(core.HarnessError("unknown panel " + panel))
	}
	ops := p.Ops()
	if threads < len(ops) {
		ops = ops[:threads]
	}
	expected := make([]string, len(ops))
	for i, o := range ops {
		expected[i] = o.Run()
	}
	bin := os.Getenv("VERIF_MEM_BIN")
	var first string
	for k := 0; k < 3; k++ {
		o, err := freshRunOne(bin, panel, len(ops), choices)
		if err != nil {
			panic(core.HarnessError(err.Error()))
		}
		fs := freshFindings(o, expected, ops)
		var ds []string
		for _, f := range fs {
			ds = append(ds, f[0]+": "+f[1])
		}
		sig := strings.Join(ds, " || ")
		if k == 0 {
			first = sig
			for _, f := range fs {
				c.Violate(sub, f[0], f[1], nil, nil)
			}
		} else if sig != first {
			panic(core.HarnessError("replay is not deterministic: " + first + " vs " + sig))
		}
	}
	fmt.Println("replayed in 3 fresh processes with identical observations:", first)
}
