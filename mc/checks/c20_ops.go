package checks

import (
	"fmt"
	"math"
	"sync"

	"github.com/golang/geo/r2"
	"github.com/golang/geo/r3"
	"github.com/golang/geo/s1"
	"github.com/golang/geo/s2"

	"verif/mc/core"
	"verif/mc/lattice"
)

// ---------------------------------------------------------------------------
// Project / Unproject

// c20RoundTripBound is what "returns it to within rounding" is taken to mean: a
// few ulps of the angles involved.  Plate Carree: lat/lng are recovered by atan2
// (<= 2 ulp each, angles <= pi) and multiplied by two rounded constants: 16
// epsilon in all.  Mercator: y = atanh(sin(lat)) loses absolute accuracy in
// 1 - sin(lat) near the poles, an intrinsic amplification by 1/cos(lat) of the
// rounding of sin(lat); allowed here with the same constant.
func c20RoundTripBound(pr c20Proj, latDeg float64) float64 {
	const eps = 2.220446049250313e-16
	if pr.mercator {
		return 16 * eps * (1 + 1/math.Max(math.Cos(latDeg*math.Pi/180), 1e-12))
	}
	return 16 * eps
}

func c20Projection(c *core.Ctx) {
	sub := "projection"
	pts := append([]s2.Point(nil), lattice.PStruct(core.Pick(c, 2, 3))...)
	for _, l := range c20Alphabet(c) {
		pts = append(pts, c20PointDeg(l))
	}
	for _, l := range []c20LL{{90, 0}, {-90, 0}, {89.999999, 77}, {-89.9999, -179.9}, {0, 180}, {0, -180}, {1e-9, 1e-9}, {-1e-300, 180}} {
		pts = append(pts, c20PointDeg(l))
	}
	var projs []c20Proj
	for _, sc := range core.Pick(c, []float64{180, 1}, []float64{180, 1, 1 << 30, math.Pi, 1e-3}) {
		projs = append(projs, c20Proj{false, sc}, c20Proj{true, sc})
	}
	worst := &c20Worst{}
	var cases, nt int64
	var maxPC, maxMerc float64
	var mu sync.Mutex
	c.ParallelFor(len(pts), func(i int) {
		p := pts[i]
		lat := c20LatDeg(p)
		var n, ntl int64
		var mpc, mm float64
		for pi, pr := range projs {
			idx := []int{i, pi}
			if c.Skip(sub, idx...) {
				continue
			}
			detail := func() any {
				return map[string]any{"projection": pr.name(), "scale": pr.scale, "point": [3]float64{p.X, p.Y, p.Z}, "lat_deg": lat}
			}
			c.Guard(sub, idx, detail, func() {
				impl := pr.impl()
				q := impl.Project(p)
				back := impl.Unproject(q)
				n++
				d := c20Angle(p.Vector, back.Vector)
				bound := c20RoundTripBound(pr, lat)
				if back != p {
					ntl++
				}
				if pr.mercator {
					mm = math.Max(mm, d/bound)
				} else {
					mpc = math.Max(mpc, d/bound)
				}
				if !(d <= bound) {
					worst.add("Projection("+pr.name()+"): Unproject(Project(p)) is farther from p than rounding allows", "bound-exceeded", d/bound, idx, func() any {
						m := detail().(map[string]any)
						m["distance_rad"], m["bound_rad"], m["projected"] = d, bound, [2]float64{q.X, q.Y}
						return m
					})
				}
				if math.IsInf(q.Y, 0) || math.IsNaN(q.Y) || math.IsNaN(q.X) {
					return // a pole under Mercator: documented to be infinite
				}
				// the implementation's projection agrees with the mathematical one
				if d2 := c20Angle(pr.unproject(q).Vector, p.Vector); !(d2 <= bound) {
					worst.add("Projection("+pr.name()+"): Project(p) is not the projection of p to within rounding", "bound-exceeded", d2/bound, idx, detail)
				}
				// any real x is accepted on the wrapping axis and names the same point
				w := impl.WrapDistance()
				if w.X != 2*pr.scale || w.Y != 0 {
					worst.add("Projection("+pr.name()+"): WrapDistance is not (2*scale, 0)", "wrong-answer", 0, idx, detail)
				}
				for _, k := range []float64{-2, -1, 1, 2} {
					q2 := r2.Point{X: q.X + k*w.X, Y: q.Y}
					b2 := impl.Unproject(q2)
					// adding k periods rounds x to an ulp of up to 2.5 periods: 5*pi*2^-52 rad
					if d3 := c20Angle(b2.Vector, pr.unproject(q2).Vector); !(d3 <= bound+4e-15) {
						worst.add("Projection("+pr.name()+"): Unproject of an x-coordinate shifted by whole periods names a different point", "bound-exceeded", d3, idx, detail)
					}
					// WrapDestination brings it back next to q, unchanged modulo the period
					wd := impl.WrapDestination(q, q2)
					if math.Abs(wd.X-q.X) > pr.scale*(1+1e-12) || wd.Y != q2.Y {
						worst.add("Projection("+pr.name()+"): WrapDestination(a,b) is more than half a period from a", "wrong-answer", 0, idx, detail)
					}
					r := math.Remainder(wd.X-q2.X, w.X)
					if math.Abs(r) > 1e-9*pr.scale {
						worst.add("Projection("+pr.name()+"): WrapDestination(a,b) is not b modulo the period", "wrong-answer", 0, idx, detail)
					}
				}
				if u := impl.WrapDestination(q, q); u != q {
					worst.add("Projection("+pr.name()+"): WrapDestination modifies a point that needs no wrapping", "wrong-answer", 0, idx, detail)
				}
			})
		}
		mu.Lock()
		cases += n
		nt += ntl
		maxPC = math.Max(maxPC, mpc)
		maxMerc = math.Max(maxMerc, mm)
		mu.Unlock()
	})
	worst.flush(c, sub)
	c.Eval(int(cases))
	c.Nontrivial(int(nt))
	c.Count(sub+"/round_trips", cases)
	c.Count(sub+"/round_trips_not_bit_identical", nt)
	c.Note("projection_max_roundtrip_error_over_bound_platecarree", maxPC)
	c.Note("projection_max_roundtrip_error_over_bound_mercator", maxMerc)
}

// ---------------------------------------------------------------------------
// Polyline.SubsampleVertices

func c20Subsample(c *core.Ctx) {
	sub := "subsample"
	alphabets := [][]c20LL{
		// on a great circle (exactly collinear on the equator), just inside / just outside 1e-3 of it, far, >90 degrees away
		{{0, 0}, {0, 1}, {0, 2}, {0.05, 1.5}, {0.06, 0.5}, {5, 3}, {0, 100}},
	}
	if !c.Quick() {
		alphabets = append(alphabets,
			[]c20LL{{89.9, 0}, {89.95, 90}, {90, 0}, {89.9, 180}, {89.9, 179.9}, {-10, 0}, {89.9, 1e-7}},
			[]c20LL{{10, 179.5}, {10, -179.5}, {10.0001, 180}, {10, 180}, {9.99, -179}, {-80, 0.5}, {10, 179.5000001}})
	}
	tols := []float64{0, 1e-9, 1e-3, 0.1, 1, -1}
	maxLen := 6
	const slack = 3e-15 // rounding of the implementation's own wedge arithmetic plus the reference error
	worst := &c20Worst{}
	var cases, nt, perSegOver int64
	var mu sync.Mutex
	for ai, al := range alphabets {
		pts := make([]s2.Point, len(al))
		for i, l := range al {
			pts[i] = c20PointDeg(l)
		}
		na := len(pts)
		// all sequences of length 0..maxLen; parallel over the first two symbols
		c.ParallelFor(na*na+na+1, func(w int) {
			var prefix []int
			extend := false
			switch {
			case w == na*na+na:
			case w >= na*na:
				prefix = []int{w - na*na}
			default:
				prefix, extend = []int{w / na, w % na}, true
			}
			var n, ntl, pso int64
			var rec func(seq []int)
			rec = func(seq []int) {
				for ti, tol := range tols {
					idx := append([]int{ai, ti}, seq...)
					if c.Skip(sub, idx...) {
						continue
					}
					pl := make(s2.Polyline, len(seq))
					for i, k := range seq {
						pl[i] = pts[k]
					}
					detail := func() any {
						var ll []c20LL
						for _, k := range seq {
							ll = append(ll, al[k])
						}
						return map[string]any{"polyline_latlng_deg": fmt.Sprint(ll), "tolerance_rad": tol}
					}
					c.Guard(sub, idx, detail, func() {
						got := pl.SubsampleVertices(s1.Angle(tol))
						n++
						if len(got) < len(pl) {
							ntl++
						}
						if d, over := c20JudgeSubsample(pl, got, math.Max(tol, 0), slack); d != "" {
							worst.add("Polyline.SubsampleVertices: "+d, "wrong-answer", over, idx, func() any {
								m := detail().(map[string]any)
								m["result"] = got
								m["excess_rad"] = over
								return m
							})
						} else if over > 0 {
							pso++
						}
					})
				}
				if len(seq) == maxLen || !extend {
					return
				}
				for k := 0; k < na; k++ {
					rec(append(seq, k))
				}
			}
			rec(prefix)
			mu.Lock()
			cases += n
			nt += ntl
			perSegOver += pso
			mu.Unlock()
		})
	}
	worst.flush(c, sub)
	c.Eval(int(cases))
	c.Nontrivial(int(nt))
	c.Count(sub+"/calls", cases)
	c.Count(sub+"/calls_that_dropped_a_vertex", nt)
	c.Count(sub+"/dropped_vertex_farther_than_tolerance_from_its_own_segment_but_within_it_of_the_polyline(observed, not asserted)", perSegOver)
	c.Sample(map[string]any{"sub": sub, "alphabet_latlng_deg": fmt.Sprint(alphabets[0]), "tolerances": tols, "max_vertices": maxLen})
}

// c20JudgeSubsample returns a descriptor ("" if fine).  The second result is the
// excess over the tolerance (for violations), or a positive number when a
// dropped vertex is within tolerance of the simplified polyline but not of its
// own segment (observation only).
func c20JudgeSubsample(pl s2.Polyline, got []int, tol, slack float64) (string, float64) {
	n := len(pl)
	if n == 0 {
		if len(got) != 0 {
			return "indices returned for an empty polyline", 0
		}
		return "", 0
	}
	if len(got) == 0 || got[0] != 0 {
		return "the first vertex is not kept", 0
	}
	for i := range got {
		if got[i] < 0 || got[i] >= n || (i > 0 && got[i] <= got[i-1]) {
			return "result is not an increasing sequence of valid indices", 0
		}
		if i > 0 && pl[got[i]] == pl[got[i-1]] {
			return "adjacent output vertices are identical", 0
		}
		if i > 0 && pl[got[i]].Vector == pl[got[i-1]].Mul(-1) {
			return "adjacent output vertices are antipodal", 0
		}
	}
	if pl[0] != pl[n-1] && pl[got[len(got)-1]] != pl[n-1] {
		return "first and last vertices are distinct but the last one is not preserved", 0
	}
	distToSimplified := func(p r3.Vector) float64 {
		if len(got) == 1 {
			return c20Angle(p, pl[got[0]].Vector)
		}
		best := math.Inf(1)
		for j := 0; j+1 < len(got); j++ {
			best = math.Min(best, c20DistToArc(p, pl[got[j]].Vector, pl[got[j+1]].Vector))
		}
		return best
	}
	obs := 0.0
	j := 0
	for k := 0; k < n; k++ {
		for j+1 < len(got) && got[j+1] <= k {
			j++
		}
		if got[j] == k {
			continue
		}
		// k is dropped; its own segment is (got[j], got[j+1]) or the last kept vertex
		var own float64
		if j+1 < len(got) {
			own = c20DistToArc(pl[k].Vector, pl[got[j]].Vector, pl[got[j+1]].Vector)
		} else {
			own = c20Angle(pl[k].Vector, pl[got[j]].Vector)
		}
		if own > tol+slack {
			d := distToSimplified(pl[k].Vector)
			if d > tol+slack {
				return "a dropped vertex is farther than the tolerance from the simplified polyline", d - tol
			}
			obs = math.Max(obs, own-tol)
		}
	}
	return "", obs
}

// ---------------------------------------------------------------------------
// snappers

// c20CellCentreLevel decides, without golang/geo's cell code, whether p is
// bit-for-bit the centre of a cell and returns its level (-1 if not).
func c20CellCentreLevel(p s2.Point) int {
	ax, ay, az := math.Abs(p.X), math.Abs(p.Y), math.Abs(p.Z)
	var face int
	var u, v float64
	switch {
	case ax >= ay && ax >= az:
		if p.X > 0 {
			face, u, v = 0, p.Y/p.X, p.Z/p.X
		} else {
			face, u, v = 3, p.Z/p.X, p.Y/p.X
		}
	case ay >= az:
		if p.Y > 0 {
			face, u, v = 1, -p.X/p.Y, p.Z/p.Y
		} else {
			face, u, v = 4, p.Z/p.Y, -p.X/p.Y
		}
	default:
		if p.Z > 0 {
			face, u, v = 2, -p.X/p.Z, -p.Y/p.Z
		} else {
			face, u, v = 5, -p.Y/p.Z, -p.X/p.Z
		}
	}
	st := func(u float64) float64 {
		if u >= 0 {
			return 0.5 * math.Sqrt(1+3*u)
		}
		return 1 - 0.5*math.Sqrt(1-3*u)
	}
	si, ti := math.Round(st(u)*(1<<31)), math.Round(st(v)*(1<<31))
	if si <= 0 || ti <= 0 || si >= 1<<31 || ti >= 1<<31 {
		return -1
	}
	lv := func(x uint32) int {
		l := 30
		for x&1 == 0 {
			x >>= 1
			l--
		}
		return l
	}
	if lv(uint32(si)) != lv(uint32(ti)) {
		return -1
	}
	if lattice.FaceSiTiPoint(face, uint32(si), uint32(ti)) != p {
		return -1
	}
	return lv(uint32(si))
}

func c20Snappers(c *core.Ctx) {
	const refErr = 4e-16 // error of c20Angle on two nearby or distant unit vectors
	base := append([]s2.Point(nil), lattice.PStruct(core.Pick(c, 2, 3))...)
	for _, l := range c20Alphabet(c) {
		base = append(base, c20PointDeg(l))
	}
	base = append(base, c20PointDeg(c20LL{90, 0}), c20PointDeg(c20LL{-90, 0}))

	// ---- CellIDSnapper
	{
		sub := "snap-cellid"
		worst := &c20Worst{}
		var cases, nt int64
		var maxRatio float64
		var mu sync.Mutex
		c.ParallelFor(32, func(li int) {
			level := li
			var sn s2.CellIDSnapper
			name := fmt.Sprintf("CellIDSnapperForLevel(%d)", level)
			if li == 31 {
				sn, level, name = s2.NewCellIDSnapper(), s2.MaxLevel, "NewCellIDSnapper()"
			} else {
				sn = s2.CellIDSnapperForLevel(level)
			}
			pts := append([]s2.Point(nil), base...)
			// vertices of level-L cells (the points farthest from the centres) at structural
			// positions of every face, and their 1-ulp neighbourhoods
			n := int64(1) << uint(level)
			var coords []int64
			for _, x := range []int64{0, 1, n / 4, n/2 - 1, n / 2, n/2 + 1, n - 1, n} {
				if x >= 0 && x <= n {
					coords = append(coords, x)
				}
			}
			for f := 0; f < 6; f++ {
				for _, i := range coords {
					for _, j := range coords {
						sh := uint(31 - level)
						v := lattice.FaceSiTiPoint(f, uint32(i<<sh), uint32(j<<sh))
						if c.Quick() {
							pts = append(pts, v)
						} else {
							pts = append(pts, lattice.PUlp(v, 1)...)
						}
					}
				}
			}
			var cs, ntl int64
			var mr float64
			for i, p := range pts {
				idx := []int{li, i}
				if c.Skip(sub, idx...) {
					continue
				}
				detail := func() any {
					return map[string]any{"snapper": name, "point": [3]float64{p.X, p.Y, p.Z}, "snap_radius_rad": float64(sn.SnapRadius())}
				}
				c.Guard(sub, idx, detail, func() {
					q := sn.SnapPoint(p)
					cs++
					if q != p {
						ntl++
					}
					d := c20Angle(p.Vector, q.Vector)
					r := float64(sn.SnapRadius())
					if r > 0 {
						mr = math.Max(mr, d/r)
					}
					if got := c20CellCentreLevel(q); got != level {
						worst.add("CellIDSnapper.SnapPoint: result is not the centre of a cell of the snapper's level", "wrong-answer", 0, idx, func() any {
							m := detail().(map[string]any)
							m["snapped"], m["level_of_snapped"] = [3]float64{q.X, q.Y, q.Z}, got
							return m
						})
						return
					}
					if d > r+refErr {
						desc := "CellIDSnapper.SnapPoint moves a point farther than SnapRadius()"
						if li == 31 {
							desc = "NewCellIDSnapper(): SnapPoint moves points while SnapRadius() is 0 (the default constructor never sets the minimum snap radius of its level)"
						}
						worst.add(desc, "bound-exceeded", d-r, idx, func() any {
							m := detail().(map[string]any)
							m["snapped"], m["moved_rad"] = [3]float64{q.X, q.Y, q.Z}, d
							return m
						})
					}
				})
			}
			mu.Lock()
			cases += cs
			nt += ntl
			maxRatio = math.Max(maxRatio, mr)
			mu.Unlock()
		})
		worst.flush(c, sub)
		c.Eval(int(cases))
		c.Nontrivial(int(nt))
		c.Count(sub+"/points_snapped", cases)
		c.Note("snap_cellid_max_moved_over_snap_radius(levels with nonzero radius)", maxRatio)
	}

	// ---- IntLatLngSnapper
	{
		sub := "snap-intlatlng"
		worst := &c20Worst{}
		var cases, nt int64
		var maxRatio float64
		var mu sync.Mutex
		c.ParallelFor(11, func(e int) {
			sn := s2.NewIntLatLngSnapper(e)
			unit := math.Pow(10, -float64(e)) // degrees
			pts := append([]s2.Point(nil), base...)
			for _, b := range []c20LL{{0, 0}, {0, 179}, {45, 90}, {-60, -120}, {89, 10}, {12, -34}, {-0, 1}} {
				for _, fl := range []float64{0.5, 0.499, 0.501, 0, 0.25} {
					for _, fg := range []float64{0.5, 0.499, 0.501, 0} {
						pts = append(pts, c20PointDeg(c20LL{b.lat + fl*unit, b.lng + fg*unit}), c20PointDeg(c20LL{b.lat - fl*unit, b.lng - fg*unit}))
					}
				}
			}
			var cs, ntl int64
			var mr float64
			for i, p := range pts {
				idx := []int{e, i}
				if c.Skip(sub, idx...) {
					continue
				}
				detail := func() any {
					return map[string]any{"exponent": e, "point": [3]float64{p.X, p.Y, p.Z}, "point_lat_deg": c20LatDeg(p), "point_lng_deg": math.Atan2(p.Y, p.X) * 180 / math.Pi, "snap_radius_rad": float64(sn.SnapRadius())}
				}
				c.Guard(sub, idx, detail, func() {
					q := sn.SnapPoint(p)
					cs++
					if q != p {
						ntl++
					}
					d := c20Angle(p.Vector, q.Vector)
					r := float64(sn.SnapRadius())
					mr = math.Max(mr, d/r)
					// a site of the grid: latitude and longitude are whole multiples of 10^-e degrees
					lat := c20LatDeg(q) / unit
					lng := math.Atan2(q.Y, q.X) * 180 / math.Pi / unit
					onGrid := math.Abs(lat-math.Round(lat)) <= 0.02 && (math.Abs(lng-math.Round(lng)) <= 0.02 || math.Hypot(q.X, q.Y) < 1e-9)
					full := func() any {
						m := detail().(map[string]any)
						m["snapped"], m["moved_rad"] = [3]float64{q.X, q.Y, q.Z}, d
						m["snapped_lat_in_grid_units"], m["snapped_lng_in_grid_units"] = lat, lng
						return m
					}
					if onGrid && d <= r+refErr {
						return
					}
					// name the cause: which intermediate value explains the result
					pw := math.Pow(10, float64(e))
					inLatRad, inLngRad := c20LatDeg(p)*math.Pi/180, math.Atan2(p.Y, p.X)
					// what rounding the RADIAN values to the grid would give (a model of the
					// suspected mistake, used to label the violation only)
					rl, rg := math.Round(inLatRad*pw)/pw, math.Round(inLngRad*pw)/pw
					sp, cp := math.Sincos(rl)
					sg, cg := math.Sincos(rg)
					radModel := r3.Vector{X: cp * cg, Y: cp * sg, Z: sp}
					cause := ""
					switch {
					case math.Abs(inLatRad*pw) >= 1<<31-1 || math.Abs(inLngRad*pw) >= 1<<31-1 || math.Abs(c20LatDeg(p)*pw) >= 1<<31-1 || math.Abs(inLngRad*180/math.Pi*pw) >= 1<<31-1:
						cause = " (a coordinate times 10^exponent does not fit the int32 that roundAngle returns)"
					case c20Angle(radModel, q.Vector) < 1e-12:
						cause = " (the result lies on a grid of 10^-exponent RADIANS: the angle is scaled without converting to degrees)"
					}
					if !onGrid {
						worst.add("IntLatLngSnapper.SnapPoint: result is not at a whole multiple of 10^-exponent degrees"+cause, "wrong-answer", d/r, idx, full)
					}
					if d > r+refErr {
						worst.add("IntLatLngSnapper.SnapPoint moves a point farther than SnapRadius()"+cause, "bound-exceeded", d/r, idx, full)
					}
				})
			}
			mu.Lock()
			cases += cs
			nt += ntl
			maxRatio = math.Max(maxRatio, mr)
			mu.Unlock()
		})
		worst.flush(c, sub)
		c.Eval(int(cases))
		c.Nontrivial(int(nt))
		c.Count(sub+"/points_snapped", cases)
		c.Note("snap_intlatlng_max_moved_over_snap_radius", maxRatio)
	}
}
