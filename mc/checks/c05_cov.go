package checks

// C05, coverage-guided extension.  A statement-coverage measurement of golang/geo under all checks
// showed code behind C05 that no lattice element reached.  The sub-checks of this file reach it and
// judge it by what the property statement or the library documentation promises:
//
//   cov-metric-levels      Metric.MinLevel / MaxLevel / ClosestLevel for all 14 metrics x 31 levels x
//                          {value, 1-ulp and 1e-15 neighbours, arithmetic and geometric midpoints ...}
//                          against the documented definitions evaluated by brute force over the levels.
//   cov-canonical          RegionCoverer.IsCanonical against a reference model written from its
//                          documentation (five bullets), on all short sequences over a cell alphabet
//                          (unsorted, overlapping, invalid, wrong level, LevelMod violated, too many
//                          cells, replaceable children) and on structured complete-children sets.
//   cov-flood-fill         SimpleRegionCovering / FloodFillRegionCovering of connected regions: all
//                          cells at the requested level, no duplicates, every contained probe covered;
//                          at coarse levels the result equals the edge-connected component (adjacency =
//                          two shared vertices, computed from the cell vertices) of the cells the region
//                          reports as intersecting.
//   cov-region-predicates  ContainsCell / IntersectsCell of region types and positions the catalogue of
//                          c05.go does not have: RegionUnion, polar / antimeridian rectangles and
//                          rectangles with corners on cell vertices, polylines along cell edges and
//                          diagonals, points on cell vertices / edges / centres, cells and (non-normalized)
//                          cell unions.  One-sided claims of C05 by probes; cells and cell unions also
//                          two-sidedly against the id-range model their documentation defines; RegionUnion
//                          against the documented "one of the regions" law.
//   cov-region-coverings   the five covering methods on those regions x an option grid aimed at the
//                          partially executed branches (LevelMod 2 and 3 with MinLevel not aligned,
//                          MaxLevel below the natural level, small MaxCells with MinLevel > 0); every
//                          Covering / InteriorCovering / FastCovering result is also given to IsCanonical
//                          (own and altered parameters) and compared with the reference model.
//   cov-normalize          FastCovering of regions whose CellUnionBound is a hand-made pile of cells
//                          (the Region interface allows any type): piles that make normalizeCovering
//                          merge cells into ancestors (replaceCellsWithAncestor), complete a parent
//                          (containsAllChildren) or exceed the "very large covering" threshold.
//   cov-default-coverer    NewRegionCoverer: valid parameters, and its coverings satisfy C05.

import (
	"fmt"
	"math"
	"math/big"
	"os"
	"sort"
	"strings"
	"sync"
	"sync/atomic"
	"time"

	"github.com/golang/geo/r1"
	"github.com/golang/geo/r3"
	"github.com/golang/geo/s1"
	"github.com/golang/geo/s2"

	"verif/mc/core"
	"verif/mc/lattice"
)

func init() {
	ck := Registry["C05"]
	run := ck.Run
	ck.Run = func(c *core.Ctx) {
		run(c)
		c05Cov(c)
	}
}

func c05covWanted(c *core.Ctx, sub string) bool { return c.OnlySub == "" || c.OnlySub == sub }

func c05Cov(c *core.Ctx) {
	if c.OnlySub == "" && c.Expired() {
		c.CapHit("coverage-guided sub-checks (cov-*): not run, the wall budget was used up before them")
		return
	}
	c05covMetrics(c)
	c05covCanonical(c)
	c05covRegions(c)
}

// ---- cov-metric-levels ------------------------------------------------------------------------------

func c05covMetricValue(m s2.Metric, level int) float64 { return math.Ldexp(m.Deriv, -m.Dim*level) }

// c05covClosestAccept returns the set (bit mask) of levels whose metric value is closest to val,
// linearly or logarithmically (the documentation says "approximately the given value"; both readings
// are accepted, ties included).  val is positive and finite.
func c05covClosestAccept(m s2.Metric, val float64) uint32 {
	if val >= c05covMetricValue(m, 0) {
		return 1
	}
	if val <= c05covMetricValue(m, 30) {
		return 1 << 30
	}
	lo := 0 // V(lo) >= val > V(lo+1)
	for c05covMetricValue(m, lo+1) >= val {
		lo++
	}
	a, b := c05covMetricValue(m, lo), c05covMetricValue(m, lo+1)
	if a == val {
		return 1 << uint(lo)
	}
	bf := func(x float64) *big.Float { return new(big.Float).SetPrec(400).SetFloat64(x) }
	var acc uint32
	// linear: a - val <=> val - b   i.e.   a + b <=> 2 val
	switch new(big.Float).SetPrec(400).Add(bf(a), bf(b)).Cmp(new(big.Float).SetPrec(400).Mul(bf(2), bf(val))) {
	case -1:
		acc |= 1 << uint(lo)
	case 1:
		acc |= 1 << uint(lo+1)
	default:
		acc |= 3 << uint(lo)
	}
	// logarithmic: a / val <=> val / b   i.e.   a b <=> val^2; within a few ulps of the geometric mean
	// (where the implementation's own rounding of sqrt(2) * val decides) both levels are accepted
	ab, vv := new(big.Float).SetPrec(400).Mul(bf(a), bf(b)), new(big.Float).SetPrec(400).Mul(bf(val), bf(val))
	diff := new(big.Float).SetPrec(400).Sub(ab, vv)
	tol := new(big.Float).SetPrec(400).Mul(vv, bf(1e-14))
	switch {
	case diff.Abs(diff).Cmp(tol) <= 0:
		acc |= 3 << uint(lo)
	case ab.Cmp(vv) < 0:
		acc |= 1 << uint(lo)
	default:
		acc |= 1 << uint(lo+1)
	}
	return acc
}

func c05covMetrics(c *core.Ctx) {
	const sub = "cov-metric-levels"
	if !c05covWanted(c, sub) {
		return
	}
	type nm struct {
		name string
		m    s2.Metric
	}
	ms := []nm{
		{"MinAngleSpanMetric", s2.MinAngleSpanMetric}, {"AvgAngleSpanMetric", s2.AvgAngleSpanMetric}, {"MaxAngleSpanMetric", s2.MaxAngleSpanMetric},
		{"MinWidthMetric", s2.MinWidthMetric}, {"AvgWidthMetric", s2.AvgWidthMetric}, {"MaxWidthMetric", s2.MaxWidthMetric},
		{"MinEdgeMetric", s2.MinEdgeMetric}, {"AvgEdgeMetric", s2.AvgEdgeMetric}, {"MaxEdgeMetric", s2.MaxEdgeMetric},
		{"MinAreaMetric", s2.MinAreaMetric}, {"AvgAreaMetric", s2.AvgAreaMetric}, {"MaxAreaMetric", s2.MaxAreaMetric},
		{"MinDiagMetric", s2.MinDiagMetric}, {"AvgDiagMetric", s2.AvgDiagMetric}, {"MaxDiagMetric", s2.MaxDiagMetric},
	}
	// multiples of the level's value: the value itself, the arithmetic midpoints to the next finer
	// level (0.75 for lengths, 0.625 for areas) and to the next coarser one (1.5, 2.5), the
	// geometric midpoints (1/sqrt2, sqrt2; 1/2, 2) and values on either side of each of them
	factors := []float64{1, 0.75, 0.625, 0.5, math.Sqrt2 / 2, math.Sqrt2, 0.76, 0.74, 0.72, 0.70, 0.63, 0.62, 0.51, 0.49, 1.41, 1.42, 1.5, 1.99, 2, 2.01, 2.5, 0.25, 0.26}
	if !c.Quick() {
		for k := 1; k < 32; k++ {
			factors = append(factors, 0.5+float64(k)/64, 1+float64(k)/32)
		}
	}
	perturb := func(x float64) []float64 {
		return []float64{x, math.Nextafter(x, math.Inf(1)), math.Nextafter(x, 0), x * (1 + 1e-15), x * (1 - 1e-15)}
	}
	specials := []float64{0, math.Copysign(0, -1), -1, -1e-300, math.Inf(1), math.Inf(-1), math.NaN(), math.MaxFloat64, math.SmallestNonzeroFloat64, 1e-300, 1e300}
	var cases, decided, singleton, special int64
	judge := func(mi int, cas []int, val float64) {
		m := ms[mi].m
		cases++
		var lmin, lmax, lclosest int
		ok := false
		detail := func() any {
			return map[string]any{"metric": ms[mi].name, "dim": m.Dim, "deriv": m.Deriv, "value": val, "value_bits": fmt.Sprintf("%#x", math.Float64bits(val)),
				"MinLevel": lmin, "MaxLevel": lmax, "ClosestLevel": lclosest}
		}
		c.Guard(sub, cas, detail, func() {
			lmin, lmax, lclosest = m.MinLevel(val), m.MaxLevel(val), m.ClosestLevel(val)
			ok = true
		})
		if !ok {
			return
		}
		for _, l := range []int{lmin, lmax, lclosest} {
			if l < 0 || l > 30 {
				c.Violate(sub, "wrong-answer", "Metric.MinLevel / MaxLevel / ClosestLevel returns an invalid level (documented: always a valid level)", cas, detail())
				return
			}
		}
		if math.IsNaN(val) {
			special++
			return
		}
		// MinLevel: the minimum level such that the metric is at most the value, or 30
		wantMin := 30
		for l := 0; l <= 30; l++ {
			if c05covMetricValue(m, l) <= val {
				wantMin = l
				break
			}
		}
		// MaxLevel: the maximum level such that the metric is at least the value, or 0
		wantMax := 0
		for l := 30; l >= 0; l-- {
			if c05covMetricValue(m, l) >= val {
				wantMax = l
				break
			}
		}
		decided++
		if lmin != wantMin {
			d := detail().(map[string]any)
			d["expected_MinLevel"] = wantMin
			c.Violate(sub, "wrong-answer", "Metric.MinLevel is not the minimum level whose metric value is at most the argument (or 30)", cas, d)
		}
		if lmax != wantMax {
			d := detail().(map[string]any)
			d["expected_MaxLevel"] = wantMax
			c.Violate(sub, "wrong-answer", "Metric.MaxLevel is not the maximum level whose metric value is at least the argument (or 0)", cas, d)
		}
		if !(val > 0) || math.IsInf(val, 0) {
			special++
			return
		}
		acc := c05covClosestAccept(m, val)
		if acc&(acc-1) == 0 {
			singleton++
		}
		if acc&(1<<uint(lclosest)) == 0 {
			d := detail().(map[string]any)
			var want []int
			for l := 0; l <= 30; l++ {
				if acc&(1<<uint(l)) != 0 {
					want = append(want, l)
				}
			}
			d["closest_levels(linear or logarithmic)"] = want
			c.Violate(sub, "wrong-answer", "Metric.ClosestLevel returns a level whose metric value is neither linearly nor logarithmically the closest to the argument", cas, d)
		}
	}
	for mi := range ms {
		for l := 0; l <= 30; l++ {
			v := c05covMetricValue(ms[mi].m, l)
			if ms[mi].m.Value(l) != v {
				c.Violate(sub, "wrong-answer", "Metric.Value(level) is not Deriv * 2^(-Dim*level)", []int{mi, l}, map[string]any{"metric": ms[mi].name, "level": l})
			}
			for fi, f := range factors {
				for pi, val := range perturb(v * f) {
					cas := []int{mi, l, fi, pi}
					if c.Skip(sub, cas...) {
						continue
					}
					judge(mi, cas, val)
				}
			}
		}
		for si, val := range specials {
			cas := []int{mi, 31, si, 0}
			if c.Skip(sub, cas...) {
				continue
			}
			judge(mi, cas, val)
		}
	}
	c.Eval(int(cases))
	c.Nontrivial(int(singleton))
	c.Count(sub+"/metrics", int64(len(ms)))
	c.Count(sub+"/values_judged", cases)
	c.Count(sub+"/MinLevel_MaxLevel_decided_by_brute_force", decided)
	c.Count(sub+"/ClosestLevel_with_a_single_acceptable_level", singleton)
	c.Count(sub+"/special_values(0,negative,inf,nan:validity_only_for_ClosestLevel)", special)
	c.Sample(map[string]any{"sub": sub, "metric": "AvgEdgeMetric", "level": 7, "value": c05covMetricValue(s2.AvgEdgeMetric, 7), "factors": len(factors), "perturbations": 5})
	if c.OnlySub == "" && singleton == 0 {
		panic(core.HarnessError("cov-metric-levels is vacuous"))
	}
}

// ---- cov-canonical -------------------------------------------------------------------------------------

// c05covCanonicalRef is the documentation of RegionCoverer.IsCanonical turned into a model:
//   - all cell ids valid;  - sorted and non-overlapping;  - levels satisfy MinLevel, MaxLevel, LevelMod;
//   - with more than MaxCells cells, no two cells have a common ancestor at MinLevel or higher;
//   - no sequence of cells could be replaced by an ancestor: no cell of a permitted level
//     (>= MinLevel, congruent to MinLevel modulo LevelMod) is exactly tiled by cells of the covering.
//
// It returns the verdict and the first bullet that fails.
func c05covCanonicalRef(cfg c05Cfg, cov []s2.CellID) (bool, string) {
	for _, id := range cov {
		if !id.IsValid() {
			return false, "invalid cell id"
		}
	}
	for i := 1; i < len(cov); i++ {
		if cov[i-1].RangeMax() >= cov[i].RangeMin() {
			return false, "not sorted / overlapping"
		}
	}
	for _, id := range cov {
		l := id.Level()
		if l < cfg.minL || l > cfg.maxL || (l-cfg.minL)%cfg.mod != 0 {
			return false, "level outside MinLevel / MaxLevel / LevelMod"
		}
	}
	if len(cov) > cfg.maxCells {
		shares := func(a, b s2.CellID) bool {
			if a.Face() != b.Face() {
				return false
			}
			l := a.Level()
			if b.Level() < l {
				l = b.Level()
			}
			for ; l >= cfg.minL; l-- {
				if a.Parent(l) == b.Parent(l) {
					return true
				}
			}
			return false
		}
		if len(cov) <= 48 {
			for i := range cov {
				for j := i + 1; j < len(cov); j++ {
					if shares(cov[i], cov[j]) {
						return false, "too many cells and two of them share an ancestor at MinLevel or higher"
					}
				}
			}
		} else {
			// sorted and disjoint: the common ancestor of two cells contains every cell between them
			for i := 1; i < len(cov); i++ {
				if shares(cov[i-1], cov[i]) {
					return false, "too many cells and two of them share an ancestor at MinLevel or higher"
				}
			}
		}
	}
	for _, id := range cov {
		for a := id.Level() - cfg.mod; a >= cfg.minL; a -= cfg.mod {
			anc := id.Parent(a)
			lo := sort.Search(len(cov), func(k int) bool { return cov[k] >= anc.RangeMin() })
			var leaves uint64
			for k := lo; k < len(cov) && cov[k] <= anc.RangeMax(); k++ {
				leaves += uint64(1) << uint(2*(30-cov[k].Level()))
			}
			if leaves == uint64(1)<<uint(2*(30-a)) {
				return false, "a sequence of cells could be replaced by an ancestor"
			}
		}
	}
	return true, ""
}

func c05covTokens(cov []s2.CellID) []string {
	var t []string
	for i, id := range cov {
		if i >= 80 {
			t = append(t, fmt.Sprintf("... (%d cells)", len(cov)))
			break
		}
		if id.IsValid() {
			t = append(t, fmt.Sprintf("%s/L%d", id.ToToken(), id.Level()))
		} else {
			t = append(t, fmt.Sprintf("invalid:%#x", uint64(id)))
		}
	}
	return t
}

type c05covCanonStats struct {
	cases, canonical                                              atomic.Int64
	invalid, unsorted, level, tooMany, replaceable, coverer, alts atomic.Int64
}

// c05covCompareCanonical compares IsCanonical with the reference on one (parameters, covering).
func c05covCompareCanonical(c *core.Ctx, sub string, cas []int, cfg c05Cfg, cov []s2.CellID, origin string, st *c05covCanonStats) {
	want, why := c05covCanonicalRef(cfg, cov)
	st.cases.Add(1)
	switch why {
	case "":
		st.canonical.Add(1)
	case "invalid cell id":
		st.invalid.Add(1)
	case "not sorted / overlapping":
		st.unsorted.Add(1)
	case "level outside MinLevel / MaxLevel / LevelMod":
		st.level.Add(1)
	case "a sequence of cells could be replaced by an ancestor":
		st.replaceable.Add(1)
	default:
		st.tooMany.Add(1)
	}
	var got bool
	ok := false
	detail := func() any {
		return map[string]any{"MinLevel": cfg.minL, "MaxLevel": cfg.maxL, "LevelMod": cfg.mod, "MaxCells": cfg.maxCells, "covering": c05covTokens(cov), "cells": len(cov),
			"origin": origin, "IsCanonical": got, "reference": want, "reference_reason": why}
	}
	c.Guard(sub, cas, detail, func() {
		rc := &s2.RegionCoverer{MinLevel: cfg.minL, MaxLevel: cfg.maxL, LevelMod: cfg.mod, MaxCells: cfg.maxCells}
		got = rc.IsCanonical(s2.CellUnion(cov))
		ok = true
	})
	if !ok || got == want {
		return
	}
	if want {
		c.Violate(sub, "wrong-answer", "RegionCoverer.IsCanonical is false for a covering that satisfies every documented condition", cas, detail())
	} else {
		c.Violate(sub, "wrong-answer", "RegionCoverer.IsCanonical is true for a covering that breaks a documented condition: "+why, cas, detail())
	}
}

func c05covCanonGrid() []c05Cfg {
	var out []c05Cfg
	for _, lo := range []int{0, 1, 2, 3, 4} {
		for _, hi := range []int{2, 3, 4, 30} {
			if lo > hi {
				continue
			}
			for mod := 1; mod <= 3; mod++ {
				for _, mc := range []int{0, 1, 2, 3, 4, 8} {
					out = append(out, c05Cfg{lo, hi, mod, mc})
				}
			}
		}
	}
	return out
}

func c05covDescendants(id s2.CellID, level int) []s2.CellID {
	var out []s2.CellID
	for ch := id.ChildBeginAtLevel(level); ch != id.ChildEndAtLevel(level); ch = ch.Next() {
		out = append(out, ch)
	}
	return out
}

func c05covCanonical(c *core.Ctx) {
	const sub = "cov-canonical"
	if !c05covWanted(c, sub) {
		return
	}
	st := &c05covCanonStats{}
	// (1) every sequence of length <= n over the alphabet
	p1 := s2.CellIDFromFace(2).Children()[1]
	p2 := p1.Children()[2]
	ch := p2.Children()
	g := ch[0].Children()
	o := s2.CellIDFromFace(4).ChildBeginAtLevel(3)
	sigma := []s2.CellID{s2.CellIDFromFace(2), p1, p2, ch[0], ch[1], ch[2], ch[3], g[0], g[1], g[2], g[3], o, o.Next(), 0}
	if !c.Quick() {
		sigma = append(sigma, s2.CellID(7<<61|1<<60), ch[3].Children()[3])
	}
	n := core.Pick(c, 3, 4)
	var seqs [][]s2.CellID
	var rec func(cur []s2.CellID)
	rec = func(cur []s2.CellID) {
		seqs = append(seqs, append([]s2.CellID(nil), cur...))
		if len(cur) == n {
			return
		}
		for _, s := range sigma {
			rec(append(cur, s))
		}
	}
	rec(nil)
	grid := c05covCanonGrid()
	c.ParallelFor(len(seqs), func(si int) {
		for ci, cfg := range grid {
			if c.Skip(sub, 0, si, ci) {
				continue
			}
			c05covCompareCanonical(c, sub, []int{0, si, ci}, cfg, seqs[si], "alphabet sequence", st)
		}
	})
	c.Count(sub+"/alphabet_size", int64(len(sigma)))
	c.Count(sub+"/alphabet_sequences(length<="+fmt.Sprint(n)+")", int64(len(seqs)))
	c.Count(sub+"/parameter_grid", int64(len(grid)))

	// (2) complete sets of 4^LevelMod descendants and their one-step variants
	type structured struct {
		name string
		cov  []s2.CellID
		b, m int
	}
	var ss []structured
	bases := []s2.CellID{p2, lattice.GeoLeaf(lattice.LL(37.3, -122.1)).Parent(5)}
	for _, base := range bases {
		b := base.Level()
		for m := 1; m <= 3; m++ {
			full := c05covDescendants(base, b+m)
			add := func(name string, cov []s2.CellID) {
				ss = append(ss, structured{fmt.Sprintf("%s of %s/L%d, step %d", name, base.ToToken(), b, m), cov, b, m})
			}
			add("all descendants", full)
			for _, k := range []int{0, len(full) / 2, len(full) - 1} {
				cut := append(append([]s2.CellID(nil), full[:k]...), full[k+1:]...)
				add(fmt.Sprintf("all descendants but #%d", k), cut)
				nested := append(append(append([]s2.CellID(nil), full[:k]...), c05covDescendants(full[k], b+2*m)...), full[k+1:]...)
				add(fmt.Sprintf("all descendants, #%d replaced by all of its own", k), nested)
				part := c05covDescendants(full[k], b+2*m)
				nested2 := append(append(append([]s2.CellID(nil), full[:k]...), part[1:]...), full[k+1:]...)
				add(fmt.Sprintf("all descendants, #%d replaced by all of its own but one", k), nested2)
			}
			add("all descendants after a cell of another face", append([]s2.CellID{s2.CellIDFromFace(0).ChildBeginAtLevel(b + m)}, full...))
			add("all descendants before the next cell's first descendant", append(append([]s2.CellID(nil), full...), base.Next().ChildBeginAtLevel(b+m)))
			add("all descendants of two consecutive cells", append(append([]s2.CellID(nil), full...), c05covDescendants(base.Next(), b+m)...))
			sw := append([]s2.CellID(nil), full...)
			sw[0], sw[1] = sw[1], sw[0]
			add("all descendants, first two swapped", sw)
		}
	}
	var sgrid [][]c05Cfg
	for _, s := range ss {
		var gcfg []c05Cfg
		full := 1 << uint(2*s.m)
		for lo := 0; lo <= s.b+s.m+1; lo++ {
			for _, hi := range []int{s.b + s.m, s.b + 2*s.m, 30} {
				if lo > hi {
					continue
				}
				for mod := 1; mod <= 3; mod++ {
					for _, mc := range []int{0, 3, full - 1, full, full + 1, 1000} {
						gcfg = append(gcfg, c05Cfg{lo, hi, mod, mc})
					}
				}
			}
		}
		sgrid = append(sgrid, gcfg)
	}
	var structuredCases atomic.Int64
	c.ParallelFor(len(ss), func(si int) {
		for ci, cfg := range sgrid[si] {
			if c.Skip(sub, 1, si, ci) {
				continue
			}
			structuredCases.Add(1)
			c05covCompareCanonical(c, sub, []int{1, si, ci}, cfg, ss[si].cov, ss[si].name, st)
		}
	})
	c.Count(sub+"/structured_coverings", int64(len(ss)))
	c.Count(sub+"/structured_cases", structuredCases.Load())
	c05covCanonCounters(c, sub, st)
	c.Eval(int(st.cases.Load()))
	c.Nontrivial(int(st.cases.Load() - st.invalid.Load()))
	c.Sample(map[string]any{"sub": sub, "structured_example": ss[1].name, "cells": len(ss[1].cov)})
	if c.OnlySub == "" && (st.canonical.Load() == 0 || st.unsorted.Load() == 0 || st.level.Load() == 0 || st.tooMany.Load() == 0 || st.replaceable.Load() == 0 || st.invalid.Load() == 0) {
		panic(core.HarnessError("cov-canonical is vacuous: a documented condition was never the deciding one"))
	}
}

func c05covCanonCounters(c *core.Ctx, sub string, st *c05covCanonStats) {
	c.Count(sub+"/cases", st.cases.Load())
	c.Count(sub+"/reference:canonical", st.canonical.Load())
	c.Count(sub+"/reference:invalid_cell_id", st.invalid.Load())
	c.Count(sub+"/reference:not_sorted_or_overlapping", st.unsorted.Load())
	c.Count(sub+"/reference:level_outside_MinLevel_MaxLevel_LevelMod", st.level.Load())
	c.Count(sub+"/reference:too_many_cells_with_common_ancestor", st.tooMany.Load())
	c.Count(sub+"/reference:replaceable_by_an_ancestor", st.replaceable.Load())
}

// ---- regions of the extension -----------------------------------------------------------------------

// c05covExtra carries the exact models some region types have besides the probe oracle.
type c05covExtra struct {
	ids     []s2.CellID    // cells / cell unions: ContainsCell and IntersectsCell are defined by id ranges
	members []s2.Region    // RegionUnion: the documented "one of the regions" law
	pile    bool           // CellUnionBound is a hand-made pile (cov-normalize)
	index   *s2.ShapeIndex // shape index region: a ShapeIndexRegion keeps an iterator, so every concurrent call gets its own
	along   bool           // polyline whose every edge joins two vertices of one cell, i.e. runs along a cell edge (by construction)
	conn    bool           // connected (flood fill precondition)
	cells   []s2.CellID    // cells the lattice element was designed for (added to the predicate cells)
}

// c05covVerbatimUnion is a valid (sorted, non-overlapping) but not necessarily normalized cell union.
func c05covVerbatimUnion(name string, ids []s2.CellID) *c05Region {
	cu := s2.CellUnion(append([]s2.CellID(nil), ids...))
	sort.Slice(cu, func(i, j int) bool { return cu[i] < cu[j] })
	cup := &cu
	cells := make([]s2.Cell, len(cu))
	var toks []string
	for i, id := range cu {
		cells[i] = s2.CellFromCellID(id)
		toks = append(toks, fmt.Sprintf("%s/L%d", id.ToToken(), id.Level()))
	}
	r := &c05Region{name: name, kind: "cellunion", reg: cup, desc: map[string]any{"cells": toks}}
	r.in = func(p s2.Point) bool {
		for _, cl := range cells {
			if cl.ContainsPoint(p) {
				return true
			}
		}
		return false
	}
	r.bdist = func(p s2.Point) float64 {
		d := math.Inf(1)
		for _, cl := range cells {
			d = math.Min(d, lattice.GeoCellBoundaryDist(p, cl))
		}
		return d
	}
	for i, id := range cu {
		if i < 24 || i%8 == 0 {
			r.probes = append(r.probes, lattice.GeoCellProbes(id, 1)...)
			for _, nb := range id.EdgeNeighbors() {
				r.probes = append(r.probes, nb.Point())
			}
		} else {
			r.probes = append(r.probes, id.Point())
		}
		if len(r.bpts) < 40 {
			r.bpts = append(r.bpts, lattice.GeoCellVerts(cells[i])...)
		}
	}
	return r
}

// c05covPile is a region (a cell union) whose CellUnionBound is the given pile of cells: unsorted,
// possibly redundant, but covering the region, as the Region interface allows.
type c05covPile struct {
	*s2.CellUnion
	bound []s2.CellID
}

func (p c05covPile) CellUnionBound() []s2.CellID { return append([]s2.CellID(nil), p.bound...) }

func c05covPileRegion(name string, pile []s2.CellID) *c05Region {
	r := c05CellUnionRegion(name, pile) // normalized union of the pile + its oracle
	cu := r.reg.(*s2.CellUnion)
	var toks []string
	for i, id := range pile {
		if i >= 40 {
			toks = append(toks, fmt.Sprintf("... (%d cells)", len(pile)))
			break
		}
		toks = append(toks, fmt.Sprintf("%s/L%d", id.ToToken(), id.Level()))
	}
	r.kind = "cell union with a hand-made CellUnionBound"
	r.reg = c05covPile{cu, pile}
	r.desc = map[string]any{"CellUnionBound": toks, "region": "the union of these cells"}
	return r
}

// c05covUnionRegion is the RegionUnion of the member regions with the oracle that follows from theirs.
func c05covUnionRegion(name string, members []*c05Region) *c05Region {
	var ru s2.RegionUnion
	var descs []any
	for _, m := range members {
		ru = append(ru, m.reg)
		descs = append(descs, map[string]any{"kind": m.kind, "data": m.desc})
	}
	r := &c05Region{name: name, kind: "regionunion", reg: ru, desc: map[string]any{"members": descs}}
	r.in = func(p s2.Point) bool {
		for _, m := range members {
			if m.in(p) {
				return true
			}
		}
		return false
	}
	// the boundary of a union is part of the union of the boundaries
	r.bdist = func(p s2.Point) float64 {
		d := math.Inf(1)
		for _, m := range members {
			d = math.Min(d, m.bdist(p))
		}
		return d
	}
	for i, m := range members {
		r.extent += m.extent
		r.bpts = append(r.bpts, m.bpts...)
		isB := map[r3.Vector]bool{}
		for _, p := range m.bprobes {
			isB[p.Vector] = true
		}
		for _, p := range m.probes {
			if !isB[p.Vector] {
				r.probes = append(r.probes, p)
				continue
			}
			// a boundary probe of a member is one of the union only if no other member reaches it
			free := true
			for j, o := range members {
				if j != i && (o.in(p) || o.bdist(p) <= 1e-9) {
					free = false
				}
			}
			if free {
				r.addBoundary(p)
			} else {
				r.probes = append(r.probes, p)
			}
		}
	}
	return r
}

func c05covIndexRegion(name string, chains []c05hChain, perEdge int) (*c05Region, c05covExtra) {
	idx := s2.NewShapeIndex()
	for _, ch := range chains {
		idx.Add(c05hShape(ch))
	}
	idx.Iterator() // build the index before the parallel phase
	r := c05hChainsOracle(name, chains, perEdge)
	r.reg = c05hIndexRegion{idx.Region(), idx}
	for _, ch := range chains {
		for i := 0; i+1 < len(ch.v); i++ {
			r.extent += lattice.GeoAngle(ch.v[i], ch.v[i+1])
		}
	}
	return r, c05covExtra{index: idx}
}

// c05covReg is the region object for one call: shape index regions are created per call.
func c05covReg(r *c05Region, e c05covExtra) s2.Region {
	if e.index != nil {
		return c05hIndexRegion{e.index.Region(), e.index}
	}
	return r.reg
}

func c05covCatalogue(c *core.Ctx) ([]*c05Region, []c05covExtra) {
	ctr := c05Centres()
	big := !c.Quick()
	pe := core.Pick(c, 8, 32)
	deg := math.Pi / 180
	var out []*c05Region
	var ex []c05covExtra
	add := func(r *c05Region, e c05covExtra) {
		out = append(out, r)
		ex = append(ex, e)
	}
	rect := func(la0, la1, ln0, ln1 float64) s2.Rect {
		return s2.Rect{Lat: r1.Interval{Lo: la0 * deg, Hi: la1 * deg}, Lng: s1.Interval{Lo: ln0 * deg, Hi: ln1 * deg}}
	}
	conn := c05covExtra{conn: true}

	// lat-lng rectangles: polar, over the antimeridian, corners on cell vertices
	add(c05RectRegion("cov-rect(north polar quadrant over the antimeridian)", s2.Rect{Lat: r1.Interval{Lo: 60 * deg, Hi: math.Pi / 2}, Lng: s1.Interval{Lo: 135 * deg, Hi: -135 * deg}}), conn)
	add(c05RectRegion("cov-rect(antimeridian strip)", rect(-5, 35, 175, -178)), conn)
	vertexRect := func(id s2.CellID) s2.Rect {
		cell := s2.CellFromCellID(id)
		la0, la1, ln0, ln1 := math.Inf(1), math.Inf(-1), math.Inf(1), math.Inf(-1)
		for k := 0; k < 4; k++ {
			la, ln := lattice.GeoLatLng(cell.Vertex(k))
			la0, la1, ln0, ln1 = math.Min(la0, la), math.Max(la1, la), math.Min(ln0, ln), math.Max(ln1, ln)
		}
		return s2.Rect{Lat: r1.Interval{Lo: la0, Hi: la1}, Lng: s1.Interval{Lo: ln0, Hi: ln1}}
	}
	add(c05RectRegion("cov-rect(corners on the vertices of a level-4 cell)", vertexRect(lattice.GeoLeaf(lattice.LL(52, 13)).Parent(4))), conn)
	// thin strips: a cell crossed by a strip contains none of its corners and has no vertex in it,
	// only the edge-crossing tests of Rect.IntersectsCell (intersectsLatEdge / intersectsLngEdge) see it
	add(c05RectRegion("cov-rect(thin latitude strip)", rect(20, 20.01, 28, 32)), conn)
	add(c05RectRegion("cov-rect(thin longitude strip over the antimeridian)", rect(-2, 2, 179.995, -179.995)), conn)
	add(c05RectRegion("cov-rect(thin longitude strip)", rect(-2, 2, 29.995, 30.005)), conn)
	// a strip under the southward bulge of the southern edge of face cell 0: the edge dips into the
	// strip through its upper latitude edge only
	{
		cell := s2.CellFromCellID(s2.CellIDFromFace(0)) // its southern edge runs from 35.3 S at both ends down to 45 S
		for k := 0; k < 4; k++ {
			a, b := cell.Vertex(k), cell.Vertex((k+1)%4)
			la, lna := lattice.GeoLatLng(a)
			lb, lnb := lattice.GeoLatLng(b)
			lm, _ := lattice.GeoLatLng(lattice.GeoSlerp(a, b, 0.5))
			if d := math.Min(la, lb) - lm; d > 1e-4 && math.Abs(lna-lnb) < 2 {
				add(c05RectRegion("cov-rect(strip under the bulge of a southern cell edge)", s2.Rect{Lat: r1.Interval{Lo: lm - d, Hi: lm + d/2}, Lng: s1.Interval{Lo: math.Min(lna, lnb), Hi: math.Max(lna, lnb)}}), conn)
				break
			}
		}
	}
	add(c05RectRegion("cov-rect(empty)", s2.EmptyRect()), c05covExtra{})
	strips, stripCells := c05covMeridianStrips(core.Pick(c, 2, 6))
	for i, rc := range strips {
		add(c05RectRegion(fmt.Sprintf("cov-rect(meridian strip through the northern corner of the skewed polar-face cell %s)", stripCells[i].ToToken()), rc), c05covExtra{conn: true, cells: []s2.CellID{stripCells[i]}})
	}
	if big {
		add(c05RectRegion("cov-rect(south polar cap)", s2.Rect{Lat: r1.Interval{Lo: -math.Pi / 2, Hi: -75 * deg}, Lng: s1.FullInterval()}), conn)
		add(c05RectRegion("cov-rect(corners on the vertices of a level-9 cell at a face edge)", vertexRect(lattice.GeoLeaf(lattice.LL(20, 44.9)).Parent(9))), conn)
		add(c05RectRegion("cov-rect(all longitudes but a sliver, to the north pole)", s2.Rect{Lat: r1.Interval{Lo: 85 * deg, Hi: math.Pi / 2}, Lng: s1.Interval{Lo: -179 * deg, Hi: 179 * deg}}), conn)
		add(c05RectRegion("cov-rect(lat-line over the antimeridian)", rect(45, 45, 170, -170)), conn)
	}

	// polylines along the cell structure
	x6 := s2.CellFromCellID(lattice.GeoLeaf(lattice.LL(20, 30)).Parent(6))
	add(c05PolylineRegion("cov-polyline(along a cell edge)", []s2.Point{x6.Vertex(0), x6.Vertex(1)}, pe), c05covExtra{conn: true, along: true})
	add(c05PolylineRegion("cov-polyline(cell diagonal, then to the centre of the next cell)", []s2.Point{x6.Vertex(0), x6.Vertex(2), x6.ID().Next().Point()}, pe), conn)
	cornerLeaf := lattice.GeoLeaf(ctr["corner"])
	var around []s2.Point
	for _, id := range cornerLeaf.VertexNeighbors(3) {
		around = append(around, id.Point())
	}
	add(c05PolylineRegion("cov-polyline(cell centres around a cube corner)", around, pe), conn)
	add(c05PolylineRegion("cov-polyline(no vertices)", nil, pe), c05covExtra{})
	if big {
		add(c05PolylineRegion("cov-polyline(three faces, over the antimeridian)", []s2.Point{lattice.LL(10, 100), lattice.LL(30, 160), lattice.LL(20, -150), lattice.LL(-40, -100)}, pe), conn)
		add(c05PolylineRegion("cov-polyline(along two edges of a leaf cell's parent)", []s2.Point{s2.CellFromCellID(cornerLeaf.Parent(29)).Vertex(0), s2.CellFromCellID(cornerLeaf.Parent(29)).Vertex(1), s2.CellFromCellID(cornerLeaf.Parent(29)).Vertex(2)}, pe), c05covExtra{conn: true, along: true})
	}

	// points on the cell structure
	x10 := s2.CellFromCellID(lattice.GeoLeaf(lattice.LL(-33.9, 151.2)).Parent(10))
	add(c05PointRegion("cov-point(vertex of a level-10 cell)", x10.Vertex(2)), conn)
	add(c05PointRegion("cov-point(midpoint of a level-10 cell edge)", lattice.GeoSlerp(x10.Vertex(0), x10.Vertex(1), 0.5)), conn)
	add(c05PointRegion("cov-point(on a face edge)", ctr["edge"]), conn)
	if big {
		add(c05PointRegion("cov-point(centre of a level-12 cell)", lattice.GeoLeaf(lattice.LL(61, 10)).Parent(12).Point()), conn)
		add(c05PointRegion("cov-point(antimeridian)", lattice.LL(10, 180)), conn)
	}

	// cells and cell unions, with the id-range model
	cellReg := func(name string, id s2.CellID) {
		add(c05CellRegion(name, id), c05covExtra{ids: []s2.CellID{id}, conn: true})
	}
	cellReg("cov-cell(face edge,8)", lattice.GeoLeaf(ctr["edge"]).Parent(8))
	cellReg("cov-cell(pole,30)", lattice.GeoLeaf(ctr["pole"]))
	if big {
		cellReg("cov-cell(antimeridian,3)", lattice.GeoLeaf(ctr["antimer"]).Parent(3))
		cellReg("cov-cell(face 4)", s2.CellIDFromFace(4))
		cellReg("cov-cell(generic,29)", lattice.GeoLeaf(ctr["generic"]).Parent(29))
	}
	gen := lattice.GeoLeaf(ctr["generic"])
	unionReg := func(name string, ids []s2.CellID, connected bool) {
		r := c05covVerbatimUnion(name, ids)
		add(r, c05covExtra{ids: append([]s2.CellID(nil), *(r.reg.(*s2.CellUnion))...), conn: connected})
	}
	sib := gen.Parent(7).Children()
	unionReg("cov-cellunion(four siblings, not normalized)", sib[:], true)
	unionReg("cov-cellunion(three siblings and the children of the fourth)", append(append([]s2.CellID(nil), sib[:3]...), c05covDescendants(sib[3], 9)...), true)
	if big {
		unionReg("cov-cellunion(leaf, its parent's sibling, a face)", []s2.CellID{gen, gen.Parent(29).Next(), s2.CellIDFromFace(5)}, false)
		unionReg("cov-cellunion(first and last cell of every level of one branch)", []s2.CellID{s2.CellIDFromFace(0).ChildBeginAtLevel(30), s2.CellIDFromFace(0).ChildBeginAtLevel(29).Next(), s2.CellIDFromFace(0).ChildBeginAtLevel(20).Next(), s2.CellIDFromFace(5).ChildEndAtLevel(30).Prev()}, false)
	}

	// region unions
	capA := c05CapRegion("cap(corner,0.3)", ctr["corner"], 0.3)
	rectA := c05RectRegion("rect(20..50,30..70)", rect(20, 50, 30, 70))
	add(c05covUnionRegion("cov-union(cap and overlapping rectangle)", []*c05Region{capA, rectA}), c05covExtra{members: []s2.Region{capA.reg, rectA.reg}, conn: true})
	cellF := c05CellRegion("cell(generic,6)", gen.Parent(6))
	cellG := c05CellRegion("cell(antimer,4)", lattice.GeoLeaf(ctr["antimer"]).Parent(4))
	add(c05covUnionRegion("cov-union(two cells on different faces)", []*c05Region{cellF, cellG}), c05covExtra{members: []s2.Region{cellF.reg, cellG.reg}})
	add(c05covUnionRegion("cov-union(empty)", nil), c05covExtra{members: []s2.Region{}})
	plA := c05PolylineRegion("polyline(3 vertices)", []s2.Point{lattice.LL(5, 40), lattice.LL(8, 47), lattice.LL(2, 52)}, pe)
	capB := c05CapRegion("cap(end of the polyline,0.02)", lattice.LL(2, 52), 0.02)
	ptA := c05PointRegion("point(far away)", lattice.LL(-60, -20))
	add(c05covUnionRegion("cov-union(polyline, cap at its end, far point)", []*c05Region{plA, capB, ptA}), c05covExtra{members: []s2.Region{plA.reg, capB.reg, ptA.reg}})
	if big {
		loopA := c05LoopRegion("loop(face,0.4,12)", lattice.GeoRegular(ctr["face"], 0.4, 12, 0.1), ctr["face"], pe)
		cellH := c05CellRegion("cell(inside the loop,5)", lattice.GeoLeaf(ctr["face"]).Parent(5))
		add(c05covUnionRegion("cov-union(loop and a cell inside it)", []*c05Region{loopA, cellH}), c05covExtra{members: []s2.Region{loopA.reg, cellH.reg}, conn: true})
		capC := c05CapRegion("cap(pole,0.2)", ctr["pole"], 0.2)
		capD := c05CapRegion("cap(south pole,0.2)", s2.PointFromCoords(0, 0, -1), 0.2)
		add(c05covUnionRegion("cov-union(caps at both poles)", []*c05Region{capC, capD}), c05covExtra{members: []s2.Region{capC.reg, capD.reg}})
		add(c05covUnionRegion("cov-union(single point)", []*c05Region{ptA}), c05covExtra{members: []s2.Region{ptA.reg}, conn: true})
	}

	// shape index regions (adapter of c05_history.go: the library has CellUnionBound only)
	add(c05covIndexRegion("cov-index(polyline and lax loop over a face edge)", []c05hChain{
		{v: []s2.Point{lattice.LL(5, 40), lattice.LL(8, 47), lattice.LL(2, 52)}},
		{v: lattice.GeoRegular(lattice.LL(6, 44), 0.03, 5, 0), closed: true}}, pe))
	if big {
		add(c05covIndexRegion("cov-index(one short edge)", []c05hChain{{v: []s2.Point{lattice.LL(37.3, -122.1), lattice.LL(37.3001, -122.1001)}}}, pe))
	}

	// piles: regions with a hand-made CellUnionBound
	for _, p := range c05covPiles(c) {
		add(c05covPileRegion(p.name, p.cells), c05covExtra{pile: true})
	}
	return out, ex
}

// c05covMeridianStrips builds narrow meridian strips for the one configuration in which
// Rect.IntersectsCell is decided by the crossing of a cell edge with the rectangle's EASTERN meridian
// (an edge is tested against the western meridian first): on the polar faces, away from the face
// diagonals, cells are skewed diamonds in latitude / longitude.  The strip contains the longitude of
// the cell's northernmost vertex V but not those of the other vertices and of the centre, starts just
// below V (where the cell is narrower than the strip) and runs far to the south, so that neither
// contains a vertex or the centre of the other; the two edges at V then cross one meridian each, and
// in the cell's vertex order the edge crossing the eastern meridian comes first.  All of this is
// decided here from the vertex coordinates (lattice construction only; the oracle is the usual one).
func c05covMeridianStrips(n int) ([]s2.Rect, []s2.CellID) {
	var out []s2.Rect
	var cells []s2.CellID
	for _, lat := range []float64{60, 50, 70, -60, -50} {
		for _, lng := range []float64{30, 60, 120, 150, -30, -60, -120, -150, 20, 70} {
			if len(out) >= n {
				return out, cells
			}
			for _, level := range []int{5, 7} {
				cell := s2.CellFromCellID(lattice.GeoLeaf(lattice.LL(lat, lng)).Parent(level))
				var la, ln [4]float64
				top := 0
				for k := 0; k < 4; k++ {
					la[k], ln[k] = lattice.GeoLatLng(cell.Vertex(k))
					if la[k] > la[top] {
						top = k
					}
				}
				_, lnC := lattice.GeoLatLng(cell.Center())
				prev, next, opp := (top+3)%4, (top+1)%4, (top+2)%4
				dPrev, dNext := ln[prev]-ln[top], ln[next]-ln[top]
				if math.Abs(dPrev) > 0.5 || math.Abs(dNext) > 0.5 || dPrev*dNext >= 0 {
					continue // not a diamond with V between its neighbours in longitude (or across the antimeridian)
				}
				w := 0.2 * math.Min(math.Abs(dPrev), math.Abs(dNext))
				if math.Abs(lnC-ln[top]) <= 2*w || math.Abs(ln[opp]-ln[top]) <= 2*w {
					continue
				}
				sPrev, sNext := (la[top]-la[prev])/math.Abs(dPrev), (la[top]-la[next])/math.Abs(dNext)
				if sPrev <= 0 || sNext <= 0 {
					continue
				}
				h := 0.5 * w * math.Min(sPrev, sNext)
				// vertex order: edge (top -> next) is tested before edge (prev -> top) iff top < prev in the
				// loop i = 0..3 over edges (i, i+1); the edge to the EAST of V must come first
				eastIsNext := dNext > 0
				firstIsNext := top < prev // edge index of (top->next) is top, of (prev->top) is prev
				if top == 0 {
					firstIsNext = true // edges 0 (top->next) ... 3 (prev->top)
				}
				if eastIsNext != firstIsNext {
					continue
				}
				// no other edge may be tested before it: edges with a smaller index than the first of the two
				first := top
				if !firstIsNext {
					first = prev
				}
				if first != 0 {
					// edges 0..first-1 must not reach the strip's longitudes
					clear := true
					for i := 0; i < first; i++ {
						lo, hi := math.Min(ln[i], ln[i+1]), math.Max(ln[i], ln[i+1])
						if hi >= ln[top]-w && lo <= ln[top]+w {
							clear = false
						}
					}
					if !clear {
						continue
					}
				}
				out = append(out, s2.Rect{Lat: r1.Interval{Lo: -80 * math.Pi / 180, Hi: la[top] - h}, Lng: s1.Interval{Lo: ln[top] - w, Hi: ln[top] + w}})
				cells = append(cells, cell.ID())
				break
			}
		}
	}
	return out, cells
}

type c05covPileSpec struct {
	name  string
	cells []s2.CellID
}

func c05covPiles(c *core.Ctx) []c05covPileSpec {
	var out []c05covPileSpec
	gen := lattice.GeoLeaf(lattice.LL(37.3, -122.1))
	qs := core.Pick(c, []int{2, 5}, []int{1, 2, 3, 5, 8})
	for _, q := range qs {
		base := gen.Parent(q)
		for m := 1; m <= core.Pick(c, 2, 3); m++ {
			if q+2*m > 30 {
				continue
			}
			full := c05covDescendants(base, q+m)
			for _, k := range core.Pick(c, []int{1, 2}, []int{1, 2, 3}) {
				// the last k descendants are each replaced by the first and the last of their own descendants
				pile := append([]s2.CellID(nil), full[:len(full)-k]...)
				for _, d := range full[len(full)-k:] {
					pile = append(pile, d.ChildBeginAtLevel(q+2*m), d.ChildEndAtLevel(q+2*m).Prev())
				}
				// "not sorted, may have redundancies": reverse the order and repeat a cell
				for i, j := 0, len(pile)-1; i < j; i, j = i+1, j-1 {
					pile[i], pile[j] = pile[j], pile[i]
				}
				pile = append(pile, pile[0])
				out = append(out, c05covPileSpec{fmt.Sprintf("cov-pile(descendants of L%d at +%d, last %d replaced by two of their own)", q, m, k), pile})
			}
		}
	}
	// a run of consecutive cells: a covering large enough for the "very large covering" branch
	for _, n := range core.Pick(c, []int{150}, []int{110, 150, 400}) {
		var run []s2.CellID
		id := gen.Parent(10)
		for i := 0; i < n; i++ {
			run = append(run, id)
			id = id.Next()
		}
		out = append(out, c05covPileSpec{fmt.Sprintf("cov-pile(%d consecutive level-10 cells)", n), run})
	}
	// a coarse cell on one face (split into many cells by MinLevel) and two small cells close together
	// on another: many cells, and two of them replaceable by an ancestor above MinLevel
	other := lattice.GeoLeaf(lattice.LL(-20, 100))
	out = append(out, c05covPileSpec{"cov-pile(level-1 cell and two level-12 cousins on another face)", []s2.CellID{gen.Parent(1), other.Parent(12), other.Parent(10).ChildEndAtLevel(12).Prev()}})
	out = append(out, c05covPileSpec{"cov-pile(face cell, a cell it contains, two level-9 cousins)", []s2.CellID{s2.CellIDFromFace(gen.Face()), gen.Parent(4), other.Parent(9), other.Parent(7).ChildBeginAtLevel(9)}})
	// a deep cell under the first child and the last child itself: with LevelMod 2 and MinLevel of the
	// base's parity the child is replaced by the base, which then contains the cell before it
	b5 := gen.Parent(5)
	out = append(out, c05covPileSpec{"cov-pile(level-7 cell under the first child of a level-5 cell and its last child)", []s2.CellID{b5.ChildBeginAtLevel(7), b5.Children()[3]}})
	out = append(out, c05covPileSpec{"cov-pile(level-8 cell under the first child of a level-5 cell, its third and last child)", []s2.CellID{b5.ChildBeginAtLevel(8), b5.Children()[2], b5.Children()[3]}})
	// leaf cells: a leaf cell is the only cell whose id equals the first id of an ancestor's range
	lp := gen.Parent(29).Children()
	out = append(out, c05covPileSpec{"cov-pile(first and third leaf cell of a level-29 cell)", []s2.CellID{lp[0], lp[2]}})
	out = append(out, c05covPileSpec{"cov-pile(second and fourth leaf cell of a level-29 cell)", []s2.CellID{lp[1], lp[3]}})
	out = append(out, c05covPileSpec{"cov-pile(leaf cells of one level-27 cell, every third)", c05covEvery(c05covDescendants(gen.Parent(27), 30), 3)})
	if !c.Quick() {
		out = append(out, c05covPileSpec{"cov-pile(level-2 cell and eight level-15 cells under one level-9 cell)", append([]s2.CellID{gen.Parent(2)}, c05covSpread(other.Parent(9), 15, 8)...)})
		out = append(out, c05covPileSpec{"cov-pile(leaf cells of one level-26 cell, every fifth, and the level-26 cell after it)", append(c05covEvery(c05covDescendants(gen.Parent(26), 30), 5), gen.Parent(26).Next())})
	}
	return out
}

func c05covSpread(base s2.CellID, level, n int) []s2.CellID {
	all := int64(1) << uint(2*(level-base.Level()))
	var out []s2.CellID
	for k := 0; k < n; k++ {
		out = append(out, base.ChildBeginAtLevel(level).Advance(int64(k)*(all-1)/int64(n-1)))
	}
	return out
}

func c05covEvery(ids []s2.CellID, step int) []s2.CellID {
	var out []s2.CellID
	for i := 0; i < len(ids); i += step {
		out = append(out, ids[i])
	}
	return out
}

// c05covAlongSuffix marks the violations of finding D56: a point of a polyline is lost (by a covering,
// or by IntersectsCell = false) and every edge of the polyline joins two vertices of one cell, i.e.
// runs along a cell edge (known from the construction of the lattice element, not from library
// output).  Polyline.IntersectsCell tests the unpadded cell, so for such an edge a cell can answer
// false while one of its descendants answers true, and the coverer prunes the branch.  Only the
// descriptors about lost points get the suffix; structure and level descriptors stay plain.
const c05covAlongText = " [polyline edge running along a cell edge: Polyline.IntersectsCell tests the unpadded cell and is not monotone in the hierarchy]"

func c05covAlongSuffix(e c05covExtra, desc string) string {
	if e.along && (strings.Contains(desc, "misses a point the region contains") || strings.Contains(desc, "misses the centre of a neighbouring cell") || strings.Contains(desc, "is false for a cell with a point inside the region")) {
		return desc + c05covAlongText
	}
	return desc
}

// ---- liveness guard --------------------------------------------------------------------------------------

// c05covWatch is the liveness guard of the covering calls (same idea as in c05.go): the coverer
// contains loops whose termination depends on the data, so a call that is still inside the library
// c05covStuck after it started is reported as non-termination, with its inputs, instead of hanging
// the check.  Not a speed oracle: the calls take micro- to milliseconds.
const c05covStuck = 120 * time.Second

type c05covCall struct {
	start  time.Time
	sub    string
	cas    []int
	what   string
	detail func() any
}

type c05covWatch struct {
	inflight sync.Map
	next     atomic.Int64
	stop     chan struct{}
}

func c05covStartWatch(c *core.Ctx) *c05covWatch {
	w := &c05covWatch{stop: make(chan struct{})}
	go func() {
		tick := time.NewTicker(5 * time.Second)
		defer tick.Stop()
		for {
			select {
			case <-w.stop:
				return
			case <-tick.C:
				w.inflight.Range(func(k, v any) bool {
					cl := v.(*c05covCall)
					if time.Since(cl.start) > c05covStuck {
						c.Violate(cl.sub, "nontermination", cl.what+" has not returned after 120 s", cl.cas, cl.detail())
						c.CapHit(cl.sub + ": abandoned because a library call does not return")
						os.Exit(c.Finish())
					}
					return true
				})
			}
		}
	}()
	return w
}

// do runs one library call under the guard.
func (w *c05covWatch) do(sub string, cas []int, what string, detail func() any, f func()) {
	k := w.next.Add(1)
	w.inflight.Store(k, &c05covCall{time.Now(), sub, cas, what, detail})
	defer w.inflight.Delete(k)
	f()
}

// ---- option grids ------------------------------------------------------------------------------------

func c05covGrid(c *core.Ctx, pile bool) []c05Cfg {
	mins := core.Pick(c, []int{0, 1, 4}, []int{0, 1, 2, 3, 4, 7})
	offs := core.Pick(c, []int{1, 2, 5, 30}, []int{0, 1, 2, 3, 5, 8, 30})
	cells := core.Pick(c, []int{1, 3, 4, 8}, []int{1, 2, 3, 4, 5, 8, 20})
	if pile {
		mins = core.Pick(c, []int{0, 1, 2, 3, 4}, []int{0, 1, 2, 3, 4, 5, 6, 9})
		offs = core.Pick(c, []int{2, 5, 30}, []int{0, 1, 2, 3, 5, 9, 30})
		cells = core.Pick(c, []int{1, 2, 3, 4, 8}, []int{0, 1, 2, 3, 4, 5, 8, 16, 100})
	}
	var out []c05Cfg
	for _, lo := range mins {
		seen := map[int]bool{}
		for _, off := range offs {
			hi := lo + off
			if hi > 30 {
				hi = 30
			}
			if seen[hi] {
				continue
			}
			seen[hi] = true
			for mod := 1; mod <= 3; mod++ {
				for _, mc := range cells {
					out = append(out, c05Cfg{lo, hi, mod, mc})
				}
			}
		}
	}
	return out
}

// ---- driver of the region sub-checks -------------------------------------------------------------------

type c05covStats struct {
	predCells, predContained, predDisjoint, predMixed, predProbes, idModel, unionLaw, boundProbes atomic.Int64
	coverings, nontrivial, skippedMin, skippedInterior, empty, canonicalOwn                       atomic.Int64
	pileCalls, pileCoarser, pileLarge, pileNontrivial                                             atomic.Int64
	floodCalls, floodCells, floodProbes, floodModel, floodModelCells, floodSkipped, floodNontriv  atomic.Int64
	defaults                                                                                      atomic.Int64
}

func c05covRegions(c *core.Ctx) {
	subs := []string{"cov-region-predicates", "cov-region-coverings", "cov-normalize", "cov-flood-fill", "cov-default-coverer"}
	wanted := false
	for _, s := range subs {
		wanted = wanted || c05covWanted(c, s)
	}
	if !wanted {
		return
	}
	regions, extra := c05covCatalogue(c)
	structural := lattice.PStruct(core.Pick(c, 2, 3))
	c.ParallelFor(len(regions), func(i int) { regions[i].prepare(structural) })
	bounds := make([][]s2.CellID, len(regions))
	for i, r := range regions {
		c.Guard("cov-region-coverings", []int{i}, func() any { return r.desc }, func() { bounds[i] = r.reg.CellUnionBound() })
		c.Guard("cov-region-coverings", []int{i}, func() any { return r.desc }, func() { r.reg.ContainsCell(s2.CellFromCellID(s2.CellIDFromFace(0))) })
	}
	kinds := map[string]int64{}
	for _, r := range regions {
		kinds[r.kind]++
	}
	for k, n := range kinds {
		c.Count("cov-regions/"+k, n)
	}
	st := &c05covStats{}
	cst := &c05covCanonStats{}
	depth := core.Pick(c, 2, 3)
	w := c05covStartWatch(c)
	defer close(w.stop)

	if c05covWanted(c, "cov-region-predicates") {
		top := c05AllCells(core.Pick(c, 1, 2))
		levels := core.Pick(c, []int{4, 10, 20, 30}, []int{2, 4, 6, 9, 10, 12, 20, 29, 30})
		c.ParallelFor(len(regions), func(ri int) {
			if c.Expired() {
				return
			}
			c05covCheckPredicates(c, ri, regions[ri], extra[ri], c05covPredicateCells(regions[ri], extra[ri], top, levels), st, depth)
			c05covCheckBounds(c, ri, regions[ri], st)
		})
		c.Eval(int(st.predCells.Load()))
		c.Nontrivial(int(st.predContained.Load() + st.predDisjoint.Load()))
		c.Count("cov-region-predicates/cells", st.predCells.Load())
		c.Count("cov-region-predicates/ContainsCell_true", st.predContained.Load())
		c.Count("cov-region-predicates/IntersectsCell_false", st.predDisjoint.Load())
		c.Count("cov-region-predicates/undecided_by_one_sided_claims", st.predMixed.Load())
		c.Count("cov-region-predicates/cell_probes", st.predProbes.Load())
		c.Count("cov-region-predicates/decided_two_sidedly_by_the_id_range_model", st.idModel.Load())
		c.Count("cov-region-predicates/RegionUnion_law_cases", st.unionLaw.Load())
		c.Count("cov-region-predicates/RectBound_CapBound_probes", st.boundProbes.Load())
		if c.OnlySub == "" && !c.Expired() && (st.predContained.Load() == 0 || st.predDisjoint.Load() == 0 || st.idModel.Load() == 0 || st.unionLaw.Load() == 0) {
			panic(core.HarnessError("cov-region-predicates is vacuous"))
		}
	}

	// coverings: (region, configuration) jobs; piles have their own grid and sub-check name
	grid := c05covGrid(c, false)
	pgrid := c05covGrid(c, true)
	type job struct{ ri, ci int }
	var jobs []job
	for ri := range regions {
		g := grid
		if extra[ri].pile {
			g = pgrid
		}
		for ci := range g {
			jobs = append(jobs, job{ri, ci})
		}
	}
	sort.SliceStable(jobs, func(a, b int) bool { return jobs[a].ci < jobs[b].ci })
	var cut atomic.Bool
	if c05covWanted(c, "cov-region-coverings") || c05covWanted(c, "cov-normalize") {
		c.ParallelFor(len(jobs), func(j int) {
			jb := jobs[j]
			sub, g := "cov-region-coverings", grid
			if extra[jb.ri].pile {
				sub, g = "cov-normalize", pgrid
			}
			if c.Skip(sub, jb.ri, jb.ci) {
				return
			}
			if c.Expired() {
				cut.Store(true)
				return
			}
			c05covCheckCovering(c, w, sub, jb.ri, jb.ci, regions[jb.ri], extra[jb.ri], g[jb.ci], bounds[jb.ri], st, cst, depth)
		})
		if cut.Load() {
			c.CapHit("cov-region-coverings / cov-normalize: wall budget reached")
		}
		c.Eval(int(st.coverings.Load()))
		c.Nontrivial(int(st.nontrivial.Load()))
		c.Count("cov-region-coverings/option_grid_size", int64(len(grid)))
		c.Count("cov-normalize/option_grid_size", int64(len(pgrid)))
		c.Count("cov-region-coverings/computed(with cov-normalize)", st.coverings.Load())
		c.Count("cov-region-coverings/nontrivial(with cov-normalize)", st.nontrivial.Load())
		c.Count("cov-region-coverings/skipped_MinLevel_too_high_for_region", st.skippedMin.Load())
		c.Count("cov-region-coverings/skipped_interior_of_zero_area_line_at_deep_level", st.skippedInterior.Load())
		c.Count("cov-region-coverings/empty_results", st.empty.Load())
		c.Count("cov-region-coverings/results_canonical_under_their_own_parameters(reference)", st.canonicalOwn.Load())
		c.Count("cov-region-coverings/IsCanonical_comparisons_on_coverer_output", cst.cases.Load())
		c05covCanonCounters(c, "cov-region-coverings/IsCanonical", cst)
		c.Count("cov-normalize/FastCovering_calls", st.pileCalls.Load())
		c.Count("cov-normalize/results_with_fewer_cells_than_the_normalized_bound(cells merged into ancestors)", st.pileCoarser.Load())
		c.Count("cov-normalize/calls_with_a_bound_of_more_than_100_cells_after_MinLevel_split", st.pileLarge.Load())
		c.Count("cov-normalize/nontrivial", st.pileNontrivial.Load())
		if c.OnlySub == "" && !cut.Load() && (st.nontrivial.Load() == 0 || st.pileCoarser.Load() == 0 || st.pileLarge.Load() == 0 || cst.canonical.Load() == 0 || cst.cases.Load() == cst.canonical.Load()) {
			panic(core.HarnessError("cov-region-coverings / cov-normalize is vacuous"))
		}
		for i, r := range regions {
			if i%9 == 0 {
				c.Sample(map[string]any{"sub": "cov-region-coverings", "region": r.name, "kind": r.kind, "contained_probes": len(r.inPts)})
			}
		}
	}

	if c05covWanted(c, "cov-flood-fill") {
		c05covFloodFill(c, w, regions, extra, st)
	}
	if c05covWanted(c, "cov-default-coverer") {
		c05covDefaults(c, w, regions, extra, bounds, st, depth)
	}
}

// c05covPredicateCells: the cells of c05PredicateCells plus, for cells and cell unions, the
// hierarchy around every member: all ancestors, the first / last descendants three levels down, the
// neighbours of the member and of its parent, the Hilbert-curve predecessor and successor.
func c05covPredicateCells(r *c05Region, e c05covExtra, top []s2.CellID, levels []int) []s2.CellID {
	out := c05PredicateCells(r, top, levels)
	seen := map[s2.CellID]bool{}
	for _, id := range out {
		seen[id] = true
	}
	put := func(id s2.CellID) {
		if id.IsValid() && !seen[id] {
			seen[id] = true
			out = append(out, id)
		}
	}
	for _, id := range e.cells {
		put(id)
		for _, nb := range id.AllNeighbors(id.Level()) {
			put(nb)
		}
	}
	for k, id := range e.ids {
		if k >= 12 {
			break
		}
		l := id.Level()
		for a := 0; a <= l; a++ {
			put(id.Parent(a))
		}
		for d := 1; d <= 3 && l+d <= 30; d++ {
			put(id.ChildBeginAtLevel(l + d))
			put(id.ChildEndAtLevel(l + d).Prev())
		}
		for _, nb := range id.AllNeighbors(l) {
			put(nb)
		}
		if l > 0 {
			for _, nb := range id.Parent(l - 1).AllNeighbors(l - 1) {
				put(nb)
			}
		}
		put(id.NextWrap())
		put(id.PrevWrap())
	}
	return out
}

func c05covCheckPredicates(c *core.Ctx, ri int, r *c05Region, e c05covExtra, cells []s2.CellID, st *c05covStats, depth int) {
	const sub = "cov-region-predicates"
	for k, id := range cells {
		if c.Skip(sub, ri, k) {
			continue
		}
		cell := s2.CellFromCellID(id)
		var cont, inter bool
		ok := false
		cas := []int{ri, k}
		detail := func() any {
			return map[string]any{"region": r.name, "region_data": r.desc, "cell": id.ToToken(), "level": id.Level(), "ContainsCell": cont, "IntersectsCell": inter}
		}
		c.Guard(sub, cas, detail, func() {
			cont = r.reg.ContainsCell(cell)
			inter = r.reg.IntersectsCell(cell)
			ok = true
		})
		if !ok {
			continue
		}
		st.predCells.Add(1)
		// exact models
		if e.ids != nil {
			wantC, wantI := false, false
			for _, m := range e.ids {
				if m.RangeMin() <= id.RangeMin() && id.RangeMax() <= m.RangeMax() {
					wantC = true
				}
				if m.RangeMin() <= id.RangeMax() && id.RangeMin() <= m.RangeMax() {
					wantI = true
				}
			}
			st.idModel.Add(1)
			if cont != wantC || inter != wantI {
				d := detail().(map[string]any)
				d["expected_ContainsCell"], d["expected_IntersectsCell"] = wantC, wantI
				c.Violate(sub, "wrong-answer", fmt.Sprintf("ContainsCell / IntersectsCell of a %s differs from the containment / overlap of the cell id ranges", r.kind), cas, d)
			}
		}
		if e.members != nil {
			wantC, wantI := false, false
			for _, m := range e.members {
				wantC = wantC || m.ContainsCell(cell)
				wantI = wantI || m.IntersectsCell(cell)
			}
			st.unionLaw.Add(1)
			if cont != wantC || inter != wantI {
				d := detail().(map[string]any)
				d["some_member_ContainsCell"], d["some_member_IntersectsCell"] = wantC, wantI
				c.Violate(sub, "wrong-answer", "RegionUnion.ContainsCell / IntersectsCell is not \"one of the regions contains / intersects the cell\"", cas, d)
			}
		}
		if r.kind == "polyline" || r.kind == "point" {
			if cont {
				c.Violate(sub, "wrong-answer", fmt.Sprintf("ContainsCell of a %s is true (documented: always false)", r.kind), cas, detail())
			}
		}
		if !cont && inter {
			st.predMixed.Add(1)
			continue
		}
		probes := lattice.GeoCellProbes(id, depth)
		st.predProbes.Add(int64(len(probes)))
		if cont {
			st.predContained.Add(1)
			if p, found := c05WitnessOutside(r, cell, probes); found {
				d := detail().(map[string]any)
				d["point"] = lattice.GeoPt(p)
				d["distance_to_region_boundary"] = r.bdist(p)
				d["distance_to_cell_boundary"] = lattice.GeoCellBoundaryDist(p, cell)
				c.Violate(sub, "wrong-answer", fmt.Sprintf("ContainsCell of a %s is true for a cell with a point outside the region", r.kind), cas, d)
			}
		}
		if !inter {
			st.predDisjoint.Add(1)
			if p, found := c05WitnessInside(r, cell, probes); found {
				d := detail().(map[string]any)
				d["point"] = lattice.GeoPt(p)
				d["distance_to_region_boundary"] = r.bdist(p)
				d["distance_to_cell_boundary"] = lattice.GeoCellBoundaryDist(p, cell)
				c.Violate(sub, "wrong-answer", c05covAlongSuffix(e, fmt.Sprintf("IntersectsCell of a %s is false for a cell with a point inside the region", r.kind)), cas, d)
			}
		}
	}
}

// c05covCheckBounds: RectBound / CapBound of a RegionUnion contain the region (Region interface), and
// its ContainsPoint is "one of the regions contains the point".
func c05covCheckBounds(c *core.Ctx, ri int, r *c05Region, st *c05covStats) {
	const sub = "cov-region-predicates"
	ru, isUnion := r.reg.(s2.RegionUnion)
	if !isUnion || c.OnlySub != "" {
		return
	}
	cas := []int{ri, -1}
	c.Guard(sub, cas, func() any { return r.desc }, func() {
		rb, cb := ru.RectBound(), ru.CapBound()
		h := cb.Height()
		theta := math.Pi
		if !cb.IsFull() && h >= 0 {
			theta = 2 * math.Asin(math.Sqrt(math.Min(1, h/2)))
		}
		for _, p := range r.inPts {
			st.boundProbes.Add(1)
			if !rb.ContainsPoint(p) && c05RectBoundaryDist(rb, p) > c05Tau {
				c.Violate(sub, "wrong-answer", "RegionUnion.RectBound does not contain a point of the region", cas, map[string]any{"region": r.name, "region_data": r.desc, "point": lattice.GeoPt(p)})
				return
			}
			if !cb.ContainsPoint(p) && (cb.IsEmpty() || lattice.GeoAngle(cb.Center(), p) > theta+c05Tau) {
				c.Violate(sub, "wrong-answer", "RegionUnion.CapBound does not contain a point of the region", cas, map[string]any{"region": r.name, "region_data": r.desc, "point": lattice.GeoPt(p)})
				return
			}
		}
		for _, p := range r.probes {
			want := false
			for _, m := range ru {
				want = want || m.ContainsPoint(p)
			}
			if ru.ContainsPoint(p) != want {
				c.Violate(sub, "wrong-answer", "RegionUnion.ContainsPoint is not \"one of the regions contains the point\"", cas, map[string]any{"region": r.name, "region_data": r.desc, "point": lattice.GeoPt(p)})
				return
			}
		}
	})
}

// c05covCheckCovering: one (region, configuration) case over the covering methods, judged by the C05
// claims (c05hJudge: structure, levels, every contained probe covered, interior cells inside).
func c05covCheckCovering(c *core.Ctx, w *c05covWatch, sub string, ri, ci int, r *c05Region, e c05covExtra, cfg c05Cfg, bound []s2.CellID, st *c05covStats, cst *c05covCanonStats, depth int) {
	est := c05Estimate(bound, cfg)
	if est > 30000 {
		st.skippedMin.Add(1)
		return
	}
	skipInterior := r.extent > 0 && r.extent/s2.MinWidthMetric.Value(cfg.maxL) > 2000
	rc := &s2.RegionCoverer{MinLevel: cfg.minL, MaxLevel: cfg.maxL, LevelMod: cfg.mod, MaxCells: cfg.maxCells}
	cas := []int{ri, ci}
	for mi, method := range c05Methods {
		if e.pile && mi != 4 && !(mi == 0 && (ci%5 == 0 || len(bound) <= 4)) {
			continue // piles: FastCovering (and Covering, whose initial candidates come from it: small piles, and a fifth of the grid for the others)
		}
		if (mi == 2 || mi == 3) && skipInterior {
			st.skippedInterior.Add(1)
			continue
		}
		var cu s2.CellUnion
		ok := false
		c.Guard(sub, cas, func() any { return c05CfgDetail(r, cfg, method) }, func() {
			w.do(sub, cas, method+" of a "+r.kind, func() any { return c05CfgDetail(r, cfg, method) }, func() { cu = c05hCall(rc, mi, c05covReg(r, e)) })
			ok = true
		})
		if !ok {
			continue
		}
		st.coverings.Add(1)
		if len(cu) == 0 {
			st.empty.Add(1)
		} else if len(r.inPts) > 0 {
			st.nontrivial.Add(1)
		}
		if desc, extra := c05hJudge(r, cfg, mi, cu, depth); desc != "" {
			d := c05CfgDetail(r, cfg, method)
			d["covering"] = c05Tokens(cu)
			for k, v := range extra {
				d[k] = v
			}
			c.Violate(sub, "wrong-answer", c05covAlongSuffix(e, desc), cas, d)
			continue
		}
		if e.pile && mi == 4 {
			st.pileCalls.Add(1)
			nb := s2.CellUnion(append([]s2.CellID(nil), bound...))
			nb.Normalize()
			if len(cu) < len(nb) && len(nb) > cfg.maxCells {
				st.pileCoarser.Add(1)
			}
			if est > 100 {
				st.pileLarge.Add(1)
			}
			if len(cu) > 0 {
				st.pileNontrivial.Add(1)
			}
		}
		if mi == 0 || mi == 2 || mi == 4 {
			// IsCanonical on what the coverer produced: its own parameters and one-step alterations
			if want, _ := c05covCanonicalRef(cfg, cu); want {
				st.canonicalOwn.Add(1)
			}
			maxLvl := 0
			for _, id := range cu {
				if id.Level() > maxLvl {
					maxLvl = id.Level()
				}
			}
			alts := []c05Cfg{cfg, {cfg.minL, cfg.maxL, cfg.mod, len(cu) - 1}, {cfg.minL, cfg.maxL, cfg.mod%3 + 1, cfg.maxCells}}
			if cfg.minL < cfg.maxL {
				alts = append(alts, c05Cfg{cfg.minL + 1, cfg.maxL, cfg.mod, cfg.maxCells})
			}
			if maxLvl > cfg.minL {
				alts = append(alts, c05Cfg{cfg.minL, maxLvl - 1, cfg.mod, cfg.maxCells})
			}
			if len(cu) <= 400 {
				for _, a := range alts {
					c05covCompareCanonical(c, sub, cas, a, cu, method+" of "+r.name, cst)
				}
			}
		}
	}
}

// ---- cov-flood-fill -----------------------------------------------------------------------------------

// c05covAdjacency returns, for all cells of a level, the lists of edge-adjacent cells: two cells are
// edge-adjacent when they share two vertices (vertices of different cells are matched within 1e-12;
// the vertices of one level are at least 1e-3 apart for the levels used here).
func c05covAdjacency(level int) (cells []s2.CellID, index map[s2.CellID]int, adj [][]int) {
	for f := 0; f < 6; f++ {
		cells = append(cells, c05covDescendants(s2.CellIDFromFace(f), level)...)
	}
	index = map[s2.CellID]int{}
	for i, id := range cells {
		index[id] = i
	}
	const bucket = 1e-4
	type key [3]int64
	kOf := func(p s2.Point, dx, dy, dz int64) key {
		return key{int64(math.Floor(p.X/bucket)) + dx, int64(math.Floor(p.Y/bucket)) + dy, int64(math.Floor(p.Z/bucket)) + dz}
	}
	type vtx struct {
		p  s2.Point
		id int
	}
	grid := map[key][]vtx{}
	nv := 0
	vid := make([][4]int, len(cells))
	for i, id := range cells {
		cell := s2.CellFromCellID(id)
		for k := 0; k < 4; k++ {
			p := cell.Vertex(k)
			found := -1
			for dx := int64(-1); dx <= 1 && found < 0; dx++ {
				for dy := int64(-1); dy <= 1 && found < 0; dy++ {
					for dz := int64(-1); dz <= 1 && found < 0; dz++ {
						for _, v := range grid[kOf(p, dx, dy, dz)] {
							if v.p.Sub(p.Vector).Norm() < 1e-12 {
								found = v.id
								break
							}
						}
					}
				}
			}
			if found < 0 {
				found = nv
				nv++
				grid[kOf(p, 0, 0, 0)] = append(grid[kOf(p, 0, 0, 0)], vtx{p, found})
			}
			vid[i][k] = found
		}
	}
	byV := make([][]int, nv)
	for i := range cells {
		for k := 0; k < 4; k++ {
			byV[vid[i][k]] = append(byV[vid[i][k]], i)
		}
	}
	adj = make([][]int, len(cells))
	for i := range cells {
		shared := map[int]int{}
		for k := 0; k < 4; k++ {
			for _, j := range byV[vid[i][k]] {
				if j != i {
					shared[j]++
				}
			}
		}
		for j, n := range shared {
			if n == 2 {
				adj[i] = append(adj[i], j)
			}
		}
		if len(adj[i]) != 4 {
			panic(core.HarnessError(fmt.Sprintf("cov-flood-fill: the vertex-sharing adjacency gives cell %s %d edge neighbours", cells[i].ToToken(), len(adj[i]))))
		}
	}
	return cells, index, adj
}

func c05covFloodFill(c *core.Ctx, w *c05covWatch, regions []*c05Region, extra []c05covExtra, st *c05covStats) {
	const sub = "cov-flood-fill"
	modelMax := core.Pick(c, 3, 5)
	type adjT struct {
		cells []s2.CellID
		index map[s2.CellID]int
		adj   [][]int
	}
	adjs := make([]adjT, modelMax+1)
	c.ParallelFor(modelMax+1, func(l int) {
		a, b, d := c05covAdjacency(l)
		adjs[l] = adjT{a, b, d}
	})
	levels := core.Pick(c, []int{0, 1, 3, 5, 8, 12, 20, 30}, []int{0, 1, 2, 3, 4, 5, 6, 8, 10, 12, 16, 20, 25, 29, 30})
	maxCells := core.Pick(c, 1500.0, 6000.0)
	type job struct{ ri, li int }
	var jobs []job
	for ri := range regions {
		if !extra[ri].conn || len(regions[ri].inPts) == 0 {
			continue
		}
		for li := range levels {
			jobs = append(jobs, job{ri, li})
		}
	}
	var cut atomic.Bool
	c.ParallelFor(len(jobs), func(j int) {
		jb := jobs[j]
		r := regions[jb.ri]
		level := levels[jb.li]
		if c.Expired() {
			cut.Store(true)
			return
		}
		// size filter (lattice sizing only): the cells of this level needed for the region's bounding cap
		var rad float64
		c.Guard(sub, []int{jb.ri, jb.li}, func() any { return r.desc }, func() { rad = float64(r.reg.CapBound().Radius()) })
		width := s2.MinWidthMetric.Value(level)
		need := math.Pow(2*rad/width+2, 2)
		if r.extent > 0 {
			need = 3 * (r.extent/width + 2)
		}
		if need > maxCells && level > modelMax {
			st.floodSkipped.Add(1)
			return
		}
		// starting points: contained probes that are in the region beyond rounding noise, or sit inside
		// their cell beyond it (a start on the boundary is allowed by the documentation)
		var starts []s2.Point
		stride := 1 + len(r.inPts)/3
		for k := 0; k < len(r.inPts); k += stride {
			p := r.inPts[k]
			cell := s2.CellFromCellID(r.inLeaf[k].Parent(level))
			if r.bdist(p) > c05Tau || lattice.GeoCellBoundaryDist(p, cell) > c05Tau {
				starts = append(starts, p)
			}
		}
		for si, start := range starts {
			for fn := 0; fn < 2; fn++ {
				cas := []int{jb.ri, jb.li, si, fn}
				if c.Skip(sub, cas...) {
					continue
				}
				name := []string{"SimpleRegionCovering", "FloodFillRegionCovering"}[fn]
				startCell := lattice.GeoLeaf(start).Parent(level)
				var got []s2.CellID
				ok := false
				detail := func() map[string]any {
					return map[string]any{"function": name, "region": r.name, "region_data": r.desc, "level": level, "start": lattice.GeoPt(start), "start_cell": startCell.ToToken(), "cells_returned": len(got)}
				}
				c.Guard(sub, cas, func() any { return detail() }, func() {
					w.do(sub, cas, name+" of a "+r.kind, func() any { return detail() }, func() {
						if fn == 0 {
							got = s2.SimpleRegionCovering(r.reg, start, level)
						} else {
							got = s2.FloodFillRegionCovering(r.reg, startCell)
						}
					})
					ok = true
				})
				if !ok {
					continue
				}
				st.floodCalls.Add(1)
				st.floodCells.Add(int64(len(got)))
				sorted := append([]s2.CellID(nil), got...)
				sort.Slice(sorted, func(a, b int) bool { return sorted[a] < sorted[b] })
				bad := false
				for i, id := range sorted {
					if !id.IsValid() || id.Level() != level {
						d := detail()
						d["cell"] = fmt.Sprintf("%#x", uint64(id))
						c.Violate(sub, "wrong-answer", name+" returns a cell that is not at the requested level", cas, d)
						bad = true
						break
					}
					if i > 0 && sorted[i-1] == id {
						d := detail()
						d["cell"] = id.ToToken()
						c.Violate(sub, "wrong-answer", name+" returns the same cell twice", cas, d)
						bad = true
						break
					}
				}
				if bad {
					continue
				}
				if len(got) > 1 {
					st.floodNontriv.Add(1)
				}
				// every contained probe of the connected region lies in a returned cell
				cst := &c05Stats{}
				for k, p := range r.inPts {
					st.floodProbes.Add(1)
					if !c05Covered(sorted, p, r.inLeaf[k], cst) {
						d := detail()
						d["point"] = lattice.GeoPt(p)
						d["distance_to_region_boundary"] = r.bdist(p)
						c.Violate(sub, "wrong-answer", c05covAlongSuffix(extra[jb.ri], fmt.Sprintf("%s of a connected %s misses a point the region contains", name, r.kind)), cas, d)
						break
					}
				}
				// definitional model at coarse levels
				if level <= modelMax {
					a := adjs[level]
					inter := make([]bool, len(a.cells))
					for i, id := range a.cells {
						inter[i] = r.reg.IntersectsCell(s2.CellFromCellID(id))
					}
					want := map[s2.CellID]bool{}
					if s0, okc := a.index[startCell]; okc && inter[s0] {
						stack := []int{s0}
						want[startCell] = true
						for len(stack) > 0 {
							i := stack[len(stack)-1]
							stack = stack[:len(stack)-1]
							for _, n := range a.adj[i] {
								if inter[n] && !want[a.cells[n]] {
									want[a.cells[n]] = true
									stack = append(stack, n)
								}
							}
						}
					}
					st.floodModel.Add(1)
					st.floodModelCells.Add(int64(len(want)))
					same := len(want) == len(sorted)
					for _, id := range sorted {
						same = same && want[id]
					}
					if !same {
						d := detail()
						var w []string
						for id := range want {
							w = append(w, id.ToToken())
						}
						sort.Strings(w)
						d["expected_cells"] = w
						d["returned_cells"] = c05Tokens(sorted)
						c.Violate(sub, "wrong-answer", name+" differs from the set of all edge-connected cells of the level that intersect the region", cas, d)
					}
				}
			}
		}
	})
	if cut.Load() {
		c.CapHit("cov-flood-fill: wall budget reached")
	}
	c.Eval(int(st.floodCalls.Load()))
	c.Nontrivial(int(st.floodNontriv.Load()))
	c.Count(sub+"/(region,level)_pairs", int64(len(jobs)))
	c.Count(sub+"/pairs_skipped(more cells than the lattice bound)", st.floodSkipped.Load())
	c.Count(sub+"/calls", st.floodCalls.Load())
	c.Count(sub+"/calls_returning_more_than_one_cell", st.floodNontriv.Load())
	c.Count(sub+"/cells_returned", st.floodCells.Load())
	c.Count(sub+"/contained_probes_judged", st.floodProbes.Load())
	c.Count(sub+"/calls_compared_with_the_connected_component_model", st.floodModel.Load())
	c.Count(sub+"/cells_in_the_model_components", st.floodModelCells.Load())
	c.Sample(map[string]any{"sub": sub, "levels": levels, "model_up_to_level": modelMax})
	if c.OnlySub == "" && !cut.Load() && (st.floodNontriv.Load() == 0 || st.floodModel.Load() == 0) {
		panic(core.HarnessError("cov-flood-fill is vacuous"))
	}
}

// ---- cov-default-coverer -------------------------------------------------------------------------------

func c05covDefaults(c *core.Ctx, w *c05covWatch, regions []*c05Region, extra []c05covExtra, bounds [][]s2.CellID, st *c05covStats, depth int) {
	const sub = "cov-default-coverer"
	rc := s2.NewRegionCoverer()
	cfg := c05Cfg{rc.MinLevel, rc.MaxLevel, rc.LevelMod, rc.MaxCells}
	c.Note("cov-default-coverer/NewRegionCoverer", map[string]int{"MinLevel": rc.MinLevel, "MaxLevel": rc.MaxLevel, "LevelMod": rc.LevelMod, "MaxCells": rc.MaxCells})
	if !(0 <= rc.MinLevel && rc.MinLevel <= rc.MaxLevel && rc.MaxLevel <= 30 && rc.LevelMod >= 1 && rc.LevelMod <= 3 && rc.MaxCells >= 1) {
		c.Violate(sub, "wrong-answer", "NewRegionCoverer does not return valid covering parameters", []int{-1}, cfg)
		return
	}
	c.ParallelFor(len(regions), func(ri int) {
		r := regions[ri]
		if c.Expired() || c05Estimate(bounds[ri], cfg) > 30000 {
			return
		}
		for mi, method := range c05Methods {
			cas := []int{ri, mi}
			if c.Skip(sub, cas...) {
				continue
			}
			if (mi == 2 || mi == 3) && r.extent > 0 && r.extent/s2.MinWidthMetric.Value(cfg.maxL) > 2000 {
				continue
			}
			var cu s2.CellUnion
			ok := false
			c.Guard(sub, cas, func() any { return c05CfgDetail(r, cfg, method) }, func() {
				w.do(sub, cas, "NewRegionCoverer()."+method+" of a "+r.kind, func() any { return c05CfgDetail(r, cfg, method) }, func() { cu = c05hCall(s2.NewRegionCoverer(), mi, c05covReg(r, extra[ri])) })
				ok = true
			})
			if !ok {
				continue
			}
			st.defaults.Add(1)
			if desc, ex := c05hJudge(r, cfg, mi, cu, depth); desc != "" {
				d := c05CfgDetail(r, cfg, method)
				d["covering"] = c05Tokens(cu)
				for k, v := range ex {
					d[k] = v
				}
				c.Violate(sub, "wrong-answer", "NewRegionCoverer: "+c05covAlongSuffix(extra[ri], desc), cas, d)
			}
		}
	})
	c.Eval(int(st.defaults.Load()))
	c.Count(sub+"/coverings_judged", st.defaults.Load())
}
