package checks

import (
	"fmt"
	"math/bits"
	"sort"
	"sync/atomic"

	"github.com/golang/geo/s2"

	"verif/mc/core"
	"verif/mc/lattice"
	"verif/mc/refmodel"
)

// Coverage-guided extension of C04 (statement coverage showed library code behind the property
// that no lattice element executed, or executed without its result being judged):
//
//	cov-vertex-query   ContainsVertexQuery.ContainsVertex on every cyclic configuration of 1..6 rays
//	                   (the ray lattice of the "vertex rule" sub-check) with in / out / matched
//	                   directions, edges added in many orders, several evaluations per query
//	cov-shape-ref      referencePointForShape / referencePointAtVertex / containsBruteForce on every
//	                   dimension-2 shape type over a catalogue with holes, shared vertices, sibling
//	                   pairs, degenerate edges, full / empty shapes
//	cov-nesting        PolygonFromLoops (ContainsNested, findVertex) on nested / touching loop
//	                   families given in every order and rotation; point containment, hierarchy and
//	                   polygon relations against the exact nesting model
func init() {
	ck := Registry["C04"]
	run := ck.Run
	ck.Run = func(c *core.Ctx) {
		run(c)
		c.Rule += "; (cov-vertex-query) every subset of 1..6 of the 10 exactly ordered rays around 6 centres x every assignment of {outgoing, incoming, matched pair(, outgoing+pair, incoming+pair)} x insertion orders x 3 evaluations: ContainsVertex must equal the documented vertex rule (exact AngleContainsVertex over the interior wedges; 0 iff all edges matched) and must not depend on insertion / map order; (cov-shape-ref) every shape of the catalogue (Loop, Polygon, LaxLoop, LaxPolygon; nested, touching, inverted, with sibling pairs / degenerate edges / spikes in every chain rotation, full, empty): ReferencePoint().Contained, containsBruteForce and the indexed query must equal the exact crossing parity of the undecorated loops at every probe; (cov-nesting) every order and vertex rotation of 3-4 nested / disjoint / vertex-sharing loops: Polygon.ContainsPoint = parity of exactly enclosing loops, hierarchy and relations = the exact nesting model"
		c04CovVertexQuery(c)
		fams := c04covFamilies(c)
		c04CovShapes(c, fams)
		c04CovNesting(c, fams)
	}
}

// ---------------------------------------------------------------------------------------------
// cov-vertex-query
// ---------------------------------------------------------------------------------------------

// c04covRays returns the ray lattice of the vertex-rule sub-check around b (8 directions at
// multiples of 45 degrees from the reference direction, the reference direction itself and two of
// its 1-ulp neighbours), ordered CCW around b starting at the reference direction with the exact
// predicate.  rays[0] is exactly Ortho(b).
func c04covRays(b s2.Point) []s2.Point {
	ref := s2.Ortho(b)
	frame := s2.Point{Vector: b.Cross(ref.Vector).Normalize()}
	var rays []s2.Point
	for k := 0; k < 8; k++ {
		ang := float64(k) * 3.141592653589793 / 4
		dir := ref.Mul(cosf(ang)).Add(frame.Mul(sinf(ang)))
		rays = append(rays, s2.Point{Vector: b.Add(dir.Mul(0.1)).Normalize()})
	}
	rays[0] = ref
	rays = append(rays, lattice.PUlp(ref, 1)[0], lattice.PUlp(ref, 1)[26])
	rest := rays[1:]
	sort.SliceStable(rest, func(i, j int) bool {
		return rest[i] != rest[j] && refmodel.OrderedCCW(rays[0], rest[i], rest[j], b)
	})
	for i := 0; i < len(rays); i++ {
		for j := i + 1; j < len(rays); j++ {
			if rays[i] == rays[j] {
				panic(core.HarnessError("cov-vertex-query: duplicate rays in the lattice"))
			}
			for k := j + 1; k < len(rays); k++ {
				if !refmodel.OrderedCCW(rays[i], rays[j], rays[k], b) {
					panic(core.HarnessError("cov-vertex-query: the exact cyclic order of the ray lattice is not consistent"))
				}
			}
		}
	}
	return rays
}

func c04covPerms(n int) [][]int {
	var out [][]int
	p := make([]int, n)
	for i := range p {
		p[i] = i
	}
	var rec func(k int)
	rec = func(k int) {
		if k == n {
			out = append(out, append([]int(nil), p...))
			return
		}
		for i := k; i < n; i++ {
			p[k], p[i] = p[i], p[k]
			rec(k + 1)
			p[k], p[i] = p[i], p[k]
		}
	}
	rec(0)
	return out
}

// rotations and reversed rotations
func c04covReducedPerms(n int) [][]int {
	var out [][]int
	for r := 0; r < n; r++ {
		a := make([]int, n)
		b := make([]int, n)
		for i := 0; i < n; i++ {
			a[i] = (i + r) % n
			b[i] = (r - i + 2*n) % n
		}
		out = append(out, a)
		if n > 2 {
			out = append(out, b)
		}
	}
	return out
}

func c04covEvery(p [][]int, step int) [][]int {
	var out [][]int
	for i := 0; i < len(p); i += step {
		out = append(out, p[i])
	}
	return out
}

// direction sequences added for one ray in state s, and the net direction
var c04covStateAdds = [][]int{{1}, {-1}, {1, -1}, {1, -1, 1}, {-1, 1, -1}}
var c04covStateNet = []int{1, -1, 0, 1, -1}
var c04covStateName = []string{"out", "in", "matched", "out+pair", "in+pair"}

func c04CovVertexQuery(c *core.Ctx) {
	const sub = "cov-vertex-query"
	cm := lattice.Centres()
	var names []string
	for k := range cm {
		names = append(names, k)
	}
	sort.Strings(names)
	type centre struct {
		name string
		b    s2.Point
		rays []s2.Point
		w    [][]bool // w[i][j]: the wedge from ray i CCW to ray j contains b (exact AngleContainsVertex(rays[j], b, rays[i]))
	}
	cs := make([]*centre, len(names))
	c.ParallelFor(len(names), func(ci int) {
		ce := &centre{name: names[ci], b: cm[names[ci]]}
		ce.rays = c04covRays(ce.b)
		n := len(ce.rays)
		ce.w = make([][]bool, n)
		for i := 0; i < n; i++ {
			ce.w[i] = make([]bool, n)
			for j := 0; j < n; j++ {
				if i == j {
					continue
				}
				ce.w[i][j] = refmodel.AngleContainsVertex(ce.rays[j], ce.b, ce.rays[i])
				if got := s2.AngleContainsVertex(ce.rays[j], ce.b, ce.rays[i]); got != ce.w[i][j] {
					c.Violate(sub, "wrong-answer", "AngleContainsVertex differs from the exact documented vertex rule", []int{-1, ci, i, j}, map[string]any{"centre": ce.name, "a": ptStr(ce.rays[j]), "b": ptStr(ce.b), "c": ptStr(ce.rays[i])})
				}
			}
		}
		cs[ci] = ce
	})
	full := make([][][]int, 7)
	reduced := make([][][]int, 7)
	every8, every12, every16, every120 := make([][][]int, 7), make([][][]int, 7), make([][][]int, 7), make([][][]int, 7)
	for n := 1; n <= 6; n++ {
		full[n] = c04covPerms(n)
		reduced[n] = c04covReducedPerms(n)
		every8[n], every12[n], every16[n], every120[n] = c04covEvery(full[n], 8), c04covEvery(full[n], 12), c04covEvery(full[n], 16), c04covEvery(full[n], 120)
	}
	quick := c.Quick()
	type task struct{ ci, mask int }
	var tasks []task
	nr := len(cs[0].rays)
	for ci := range cs {
		for mask := 1; mask < 1<<uint(nr); mask++ {
			if k := bits.OnesCount(uint(mask)); k >= 1 && k <= 6 {
				tasks = append(tasks, task{ci, mask})
			}
		}
	}
	const reps = 2 // evaluations of the same query (each one iterates the map from a fresh random position)
	c.ParallelFor(len(tasks), func(ti int) {
		if c.Expired() {
			return
		}
		ce := cs[tasks[ti].ci]
		var idx []int // ray indices in CCW order from the reference direction
		for k := 0; k < nr; k++ {
			if tasks[ti].mask&(1<<uint(k)) != 0 {
				idx = append(idx, k)
			}
		}
		n := len(idx)
		// thorough: outgoing / incoming edges may also carry an extra sibling pair (configurations that
		// are a polygon vertex, up to 5 rays)
		nstates := 3
		if !quick && n <= 5 {
			nstates = 5
		}
		total := 1
		for i := 0; i < n; i++ {
			total *= nstates
		}
		var nValid, nInvalid, nEval, nPlus, nMinus, nZero, nMatchedSkipped, nRefRay int64
		st := make([]int, n)
		for code := 0; code < total; code++ {
			if c.Skip(sub, ti, code) {
				continue
			}
			x := code
			for i := 0; i < n; i++ {
				st[i] = x % nstates
				x /= nstates
			}
			// unmatched rays in CCW order
			var um []int // positions in idx
			hasMatched := false
			for i := 0; i < n; i++ {
				if c04covStateNet[st[i]] != 0 {
					um = append(um, i)
				} else {
					hasMatched = true
				}
			}
			valid := len(um)%2 == 0
			for t := 0; valid && t < len(um); t++ {
				if c04covStateNet[st[um[t]]] == c04covStateNet[st[um[(t+1)%len(um)]]] {
					valid = false
				}
			}
			want := 0
			cas := []int{ti, code}
			detail := func(order []int) func() any {
				return func() any {
					var rs, ds []string
					for i := 0; i < n; i++ {
						rs = append(rs, ptStr(ce.rays[idx[i]]))
						ds = append(ds, c04covStateName[st[i]])
					}
					return map[string]any{"centre": ce.name, "target": ptStr(ce.b), "rays_ccw_from_reference_direction": rs, "directions": ds, "insertion_order": order}
				}
			}
			if valid && len(um) > 0 {
				inWedges, outWedges := 0, 0
				for t := range um {
					a, b := idx[um[t]], idx[um[(t+1)%len(um)]]
					if ce.w[a][b] {
						if c04covStateNet[st[um[t]]] > 0 {
							inWedges++ // from an outgoing ray CCW to an incoming ray: interior
						} else {
							outWedges++
						}
					}
				}
				last := c04covStateNet[st[um[len(um)-1]]]
				if inWedges+outWedges != 1 || (inWedges == 1) != (last > 0) {
					c.Violate("reference", "wrong-answer", "harness: the exact wedges around a vertex are not contained exactly once / disagree with the direction of the last unmatched edge before the reference direction", cas, detail(nil)())
					continue
				}
				want = -1
				if inWedges == 1 {
					want = 1
				}
			}
			if !valid {
				wide := false
				for i := 0; i < n; i++ {
					wide = wide || st[i] >= 3
				}
				if wide {
					continue
				}
			}
			var orders [][]int
			switch {
			case valid && n <= 4:
				orders = full[n]
			case valid && n == 5 && quick:
				orders = every16[n]
			case valid && n == 5:
				orders = every8[n]
			case valid && quick:
				orders = every120[n]
			case valid:
				orders = every12[n]
			case n <= 3 || (!quick && n == 4):
				orders = full[n]
			case quick && n <= 5:
				orders = reduced[n][:2]
			case quick:
				continue
			case n == 5:
				orders = reduced[n]
			default:
				orders = reduced[n][:4]
			}
			if valid {
				nValid++
				if hasMatched && len(um) > 0 {
					nMatchedSkipped++
				}
				if idx[0] == 0 && c04covStateNet[st[0]] != 0 {
					nRefRay++
				}
				switch want {
				case 1:
					nPlus++
				case -1:
					nMinus++
				default:
					nZero++
				}
			} else {
				nInvalid++
			}
			first, haveFirst := 0, false
			bad := false
			for oi, order := range orders {
				if bad {
					break
				}
				nEval++
				c.Guard(sub, cas, detail(order), func() {
					q := s2.NewContainsVertexQuery(ce.b)
					for _, k := range order {
						adds := c04covStateAdds[st[k]]
						if oi&1 == 1 && len(adds) == 2 {
							q.AddEdge(ce.rays[idx[k]], adds[1])
							q.AddEdge(ce.rays[idx[k]], adds[0])
							continue
						}
						for _, d := range adds {
							q.AddEdge(ce.rays[idx[k]], d)
						}
					}
					for r := 0; r < reps; r++ {
						got := q.ContainsVertex()
						if valid && got != want {
							c.Violate(sub, "wrong-answer", "ContainsVertexQuery.ContainsVertex differs from the documented vertex rule (+1 iff an interior wedge contains the vertex by the exact AngleContainsVertex, -1 otherwise, 0 iff all edges are matched)", cas, map[string]any{"case": detail(order)(), "want": want, "got": got})
							bad = true
							return
						}
						if !haveFirst {
							first, haveFirst = got, true
						} else if got != first {
							c.Violate(sub, "wrong-answer", "ContainsVertexQuery.ContainsVertex depends on the order in which the edges were added or on the map iteration order", cas, map[string]any{"case": detail(order)(), "first": first, "got": got})
							bad = true
							return
						}
					}
				})
			}
		}
		c.Eval(int(nEval))
		c.Nontrivial(int(nValid))
		c.Count(sub+"/configurations_valid", nValid)
		c.Count(sub+"/configurations_not_a_polygon_vertex(order-independence_only)", nInvalid)
		c.Count(sub+"/query_evaluations", nEval*reps)
		c.Count(sub+"/want_contained", nPlus)
		c.Count(sub+"/want_not_contained", nMinus)
		c.Count(sub+"/want_all_matched", nZero)
		c.Count(sub+"/valid_with_matched_and_unmatched_edges", nMatchedSkipped)
		c.Count(sub+"/valid_with_unmatched_edge_exactly_in_reference_direction", nRefRay)
	})
	if c.Expired() {
		c.CapHit("cov-vertex-query: wall budget reached")
	}
	c.Count(sub+"/ray_subsets", int64(len(tasks)))
	c.Sample(map[string]any{"sub": sub, "centre": cs[0].name, "rays": ptsStr(cs[0].rays[:3]), "directions": "out,in,matched"})
}

// ---------------------------------------------------------------------------------------------
// loop families shared by cov-shape-ref and cov-nesting
// ---------------------------------------------------------------------------------------------

// c04covFamily is a set of loops that forms a valid polygon: every loop is CCW around the smaller
// region it bounds, no two loops cross or share an edge (they may share vertices).
type c04covFamily struct {
	name     string
	ctr      s2.Point
	loops    [][]s2.Point
	ref      []*refmodel.Loop
	contains [][]bool // contains[i][j]: loop i contains loop j (exact)
	depth    []int
	parent   []int
	probes   []s2.Point
	sig      []uint // per probe: bit k set iff loop k contains the probe (exact)
	deco     c04covDeco
	shared   int // number of vertices that belong to more than one loop
}

type c04covDeco struct {
	xOut, xIn, x1, far1, far2, in1, in2 s2.Point
}

func c04covReg(ctr s2.Point, rdeg float64, n int) []s2.Point {
	return append([]s2.Point(nil), s2.RegularLoop(ctr, lattice.Deg(rdeg), n).Vertices()...)
}

func c04covRot(v []s2.Point, r int) []s2.Point {
	n := len(v)
	out := make([]s2.Point, n)
	for i := range out {
		out[i] = v[((i+r)%n+n)%n]
	}
	return out
}

func c04covRev(v []s2.Point) []s2.Point {
	out := make([]s2.Point, len(v))
	for i := range v {
		out[len(v)-1-i] = v[i]
	}
	return out
}

// c04covTouch returns a near-regular m-gon that lies beyond v as seen from ctr and has v as a vertex
// (placed at index 1): its centre is ctr + t*(v-ctr), its circumcircle passes through v.
func c04covTouch(ctr, v s2.Point, t float64, m int) []s2.Point {
	c2 := s2.Point{Vector: ctr.Add(v.Sub(ctr.Vector).Mul(t)).Normalize()}
	k := append([]s2.Point(nil), s2.RegularLoop(c2, c2.Distance(v), m).Vertices()...)
	best := 0
	for i := range k {
		if k[i].Distance(v) < k[best].Distance(v) {
			best = i
		}
	}
	k[best] = v
	return c04covRot(k, best-1)
}

func c04covOffset(p, towards s2.Point, f float64) s2.Point {
	return s2.Point{Vector: p.Add(towards.Sub(p.Vector).Mul(f)).Normalize()}
}

// c04covValidate checks the polygon requirements exactly; "" when they hold.
func c04covValidate(loops [][]s2.Point) string {
	for li, l := range loops {
		n := len(l)
		if n < 3 {
			return fmt.Sprintf("loop %d has fewer than 3 vertices", li)
		}
		for i := 0; i < n; i++ {
			for j := i + 1; j < n; j++ {
				if l[i] == l[j] {
					return fmt.Sprintf("loop %d has a duplicate vertex", li)
				}
				if refmodel.CrossingSign(l[i], l[(i+1)%n], l[j], l[(j+1)%n]) == refmodel.Cross {
					return fmt.Sprintf("loop %d crosses itself", li)
				}
			}
		}
	}
	for a := range loops {
		for b := a + 1; b < len(loops); b++ {
			la, lb := loops[a], loops[b]
			for i := range la {
				a0, a1 := la[i], la[(i+1)%len(la)]
				for j := range lb {
					b0, b1 := lb[j], lb[(j+1)%len(lb)]
					if (a0 == b0 && a1 == b1) || (a0 == b1 && a1 == b0) {
						return fmt.Sprintf("loops %d and %d share an edge", a, b)
					}
					if refmodel.CrossingSign(a0, a1, b0, b1) == refmodel.Cross {
						return fmt.Sprintf("loops %d and %d cross", a, b)
					}
				}
			}
		}
	}
	return ""
}

func c04covHas(l []s2.Point, p s2.Point) bool {
	for _, v := range l {
		if v == p {
			return true
		}
	}
	return false
}

// c04covNewFamily validates the loops and derives the exact nesting model; nil when the loops do not
// form a valid polygon (the reason is returned).
func c04covNewFamily(name string, ctr s2.Point, loops [][]s2.Point) (*c04covFamily, string) {
	if why := c04covValidate(loops); why != "" {
		return nil, why
	}
	f := &c04covFamily{name: name, ctr: ctr, loops: loops}
	k := len(loops)
	for _, l := range loops {
		f.ref = append(f.ref, refmodel.NewLoop(append([]s2.Point(nil), l...)))
	}
	f.contains = make([][]bool, k)
	f.depth = make([]int, k)
	f.parent = make([]int, k)
	for i := 0; i < k; i++ {
		f.contains[i] = make([]bool, k)
		for j := 0; j < k; j++ {
			if i == j {
				continue
			}
			seen, in, out := false, false, false
			for _, w := range loops[j] {
				if c04covHas(loops[i], w) {
					continue
				}
				seen = true
				if f.ref[i].Contains(w) {
					in = true
				} else {
					out = true
				}
			}
			if !seen || (in && out) {
				return nil, fmt.Sprintf("loops %d and %d cross at a shared vertex or coincide", i, j)
			}
			f.contains[i][j] = in
		}
	}
	for j := 0; j < k; j++ {
		for i := 0; i < k; i++ {
			if f.contains[i][j] {
				f.depth[j]++
				if f.contains[j][i] {
					return nil, "two loops contain each other (not nestable)"
				}
			}
		}
	}
	for j := 0; j < k; j++ {
		f.parent[j] = -1
		for i := 0; i < k; i++ {
			if f.contains[i][j] && f.depth[i] == f.depth[j]-1 {
				if f.parent[j] != -1 {
					return nil, "a loop has two parents"
				}
				f.parent[j] = i
			}
		}
		if (f.parent[j] == -1) != (f.depth[j] == 0) {
			return nil, "inconsistent nesting"
		}
	}
	// decoration points: relative to vertex 0 / 1 of loop 0 and to the centre
	v0, v1 := loops[0][0], loops[0][1]
	orth := s2.Ortho(ctr)
	anti := s2.Point{Vector: ctr.Mul(-1)}
	f.deco = c04covDeco{
		xOut: c04covOffset(v0, ctr, -0.05), xIn: c04covOffset(v0, ctr, 0.05), x1: c04covOffset(v1, ctr, -0.05),
		far1: c04covOffset(anti, orth, 0.02), far2: c04covOffset(anti, orth, -0.02),
		in1: ctr, in2: c04covOffset(ctr, orth, 0.003),
	}
	// probes
	sharedSet := map[s2.Point]int{}
	for _, l := range loops {
		for _, v := range l {
			sharedSet[v]++
		}
	}
	var probes []s2.Point
	nShared := 0
	for _, l := range loops {
		n := len(l)
		for i := 0; i < n; i++ {
			a, b := l[i], l[(i+1)%n]
			probes = append(probes, a, s2.Interpolate(0.5, a, b), s2.Interpolate(1.0/3, a, b))
		}
	}
	for _, l := range loops {
		for _, v := range l {
			if sharedSet[v] > 1 && nShared < 3 {
				sharedSet[v] = -1
				nShared++
				probes = append(probes, lattice.PUlp(v, 1)...)
			}
		}
	}
	for _, n := range sharedSet {
		if n != 1 {
			f.shared++
		}
	}
	probes = append(probes, lattice.PUlp(v0, 1)...)
	d := f.deco
	probes = append(probes, d.xOut, d.xIn, d.x1, d.far1, d.far2, d.in1, d.in2,
		s2.Interpolate(0.5, v0, d.xOut), s2.Interpolate(0.5, v0, d.xIn), s2.Interpolate(0.5, v1, d.x1), s2.Interpolate(0.5, d.far1, d.far2), s2.Interpolate(0.5, d.in1, d.in2),
		s2.OriginPoint(), anti)
	st := lattice.PStruct(1)
	for i := 0; i < len(st); i += 7 {
		probes = append(probes, st[i])
	}
	f.probes = lattice.Dedup(probes)
	f.sig = make([]uint, len(f.probes))
	for pi, p := range f.probes {
		for li := range loops {
			if f.ref[li].Contains(p) {
				f.sig[pi] |= 1 << uint(li)
			}
		}
	}
	return f, ""
}

// wantAt: exact containment of probe pi in the polygon made of the loops in set (bit mask), XOR inverted.
func (f *c04covFamily) wantAt(pi int, set uint, inverted bool) bool {
	return (bits.OnesCount(f.sig[pi]&set)%2 == 1) != inverted
}

func (f *c04covFamily) wantPoint(p s2.Point, inverted bool) bool {
	in := inverted
	for _, r := range f.ref {
		if r.Contains(p) {
			in = !in
		}
	}
	return in
}

func c04covFamilies(c *core.Ctx) []*c04covFamily {
	cm := lattice.Centres()
	centres := core.Pick(c, []string{"face-centre", "cube-corner", "generic"}, []string{"face-centre", "face-edge", "cube-corner", "north-pole", "generic", "south-ish"})
	ns := core.Pick(c, []int{3, 5, 12}, []int{3, 4, 5, 6, 9, 10, 12, 16})
	scales := core.Pick(c, []float64{1}, []float64{1, 0.01})
	type spec struct {
		name  string
		loops [][]s2.Point
	}
	var specs []struct {
		name  string
		ctr   s2.Point
		loops [][]s2.Point
	}
	for _, cn := range centres {
		ctr := cm[cn]
		for _, n := range ns {
			for _, s := range scales {
				reg := func(r float64) []s2.Point { return c04covReg(ctr, r*s, n) }
				with := func(l []s2.Point, i int, v s2.Point) []s2.Point { l[i%len(l)] = v; return l }
				var fs []spec
				fs = append(fs, spec{"concentric", [][]s2.Point{reg(20), reg(15), reg(10), reg(5)}})
				{
					a := reg(20)
					fs = append(fs, spec{"nested-all-sharing-one-vertex", [][]s2.Point{a, c04covRot(with(reg(15), 0, a[0]), -1), c04covRot(with(reg(10), 0, a[0]), -1), reg(5)}})
				}
				{
					a := reg(20)
					b := with(reg(15), 0, a[0])
					cc := with(reg(10), 2, b[2%n])
					d := with(reg(5), 1, cc[1])
					fs = append(fs, spec{"nested-chain-of-shared-vertices", [][]s2.Point{a, c04covRot(b, -1), c04covRot(cc, 1), d}})
				}
				{
					a := reg(10)
					far := c04covReg(s2.Point{Vector: ctr.Mul(-1)}, 8*s, n)
					fs = append(fs, spec{"shell-with-touching-sibling-and-touching-hole", [][]s2.Point{a, c04covTouch(ctr, a[1], 2, n), c04covRot(with(reg(5), 0, a[0]), -1), far}})
				}
				{
					h1 := reg(3)
					fs = append(fs, spec{"shell-with-two-holes-touching-each-other", [][]s2.Point{reg(30), h1, c04covTouch(ctr, h1[1], 2, n)}})
				}
				{
					a := reg(6)
					fs = append(fs, spec{"two-shells-touching", [][]s2.Point{c04covRot(a, 1), c04covTouch(ctr, a[1], 2, n)}})
				}
				fs = append(fs, spec{"single", [][]s2.Point{reg(10)}})
				for _, f := range fs {
					specs = append(specs, struct {
						name  string
						ctr   s2.Point
						loops [][]s2.Point
					}{fmt.Sprintf("%s(n=%d,centre=%s,scale=%g)", f.name, n, cn, s), ctr, f.loops})
				}
			}
		}
	}
	out := make([]*c04covFamily, len(specs))
	why := make([]string, len(specs))
	c.ParallelFor(len(specs), func(i int) {
		out[i], why[i] = c04covNewFamily(specs[i].name, specs[i].ctr, specs[i].loops)
	})
	var fams []*c04covFamily
	for i, f := range out {
		if f == nil {
			c.Count("cov-families/rejected_by_the_exact_validity_filter", 1)
			c.Note("cov-families/rejected/"+specs[i].name, why[i])
			continue
		}
		fams = append(fams, f)
	}
	c.Count("cov-families/valid", int64(len(fams)))
	if len(fams)*10 < len(specs)*9 {
		panic(core.HarnessError("cov-families: more than 10% of the loop families fail the exact validity filter"))
	}
	return fams
}

// ---------------------------------------------------------------------------------------------
// cov-shape-ref
// ---------------------------------------------------------------------------------------------

type c04covShapeCase struct {
	name     string
	chains   [][]s2.Point
	plain    bool // no decoration: the s2.Polygon / s2.Loop forms are built too
	inverted bool
	set      uint // loops of the family that are present
}

// orientedChains: the loops of the family oriented so that the interior is on the left.
func (f *c04covFamily) orientedChains(inverted bool) [][]s2.Point {
	var out [][]s2.Point
	for i, l := range f.loops {
		if (f.depth[i]%2 == 1) != inverted {
			out = append(out, c04covRev(l))
		} else {
			out = append(out, append([]s2.Point(nil), l...))
		}
	}
	return out
}

// decoration edges must not properly cross an edge of the family
func (f *c04covFamily) decoOK(pts ...s2.Point) bool {
	for i := 0; i+1 < len(pts); i++ {
		for _, l := range f.loops {
			for j := range l {
				if refmodel.CrossingSign(pts[i], pts[i+1], l[j], l[(j+1)%len(l)]) == refmodel.Cross {
					return false
				}
			}
		}
	}
	return true
}

func c04covCopyChains(ch [][]s2.Point) [][]s2.Point {
	out := make([][]s2.Point, len(ch))
	for i := range ch {
		out[i] = append([]s2.Point(nil), ch[i]...)
	}
	return out
}

func (f *c04covFamily) shapeCases(inverted bool) (cases []c04covShapeCase, filtered int) {
	base := f.orientedChains(inverted)
	all := uint(1)<<uint(len(f.loops)) - 1
	add := func(name string, chains [][]s2.Point, plain bool) {
		cases = append(cases, c04covShapeCase{name: name, chains: chains, plain: plain, inverted: inverted, set: all})
	}
	n0 := len(base[0])
	// plain: every rotation of chain 0, every cyclic shift of the chain order
	for r := 0; r < n0; r += 1 + n0/8 {
		ch := c04covCopyChains(base)
		ch[0] = c04covRot(ch[0], r)
		add(fmt.Sprintf("plain/rot%d", r), ch, true)
	}
	for s := 1; s < len(base); s++ {
		var ch [][]s2.Point
		for i := range base {
			ch = append(ch, base[(i+s)%len(base)])
		}
		add(fmt.Sprintf("plain/chain-shift%d", s), c04covCopyChains(ch), true)
	}
	d := f.deco
	v0, v1 := f.loops[0][0], f.loops[0][1]
	pre := func(name string, chain []s2.Point, closing ...s2.Point) {
		if !f.decoOK(append(append([]s2.Point(nil), chain...), closing...)...) {
			filtered++
			return
		}
		add(name+"/first", append([][]s2.Point{chain}, c04covCopyChains(base)...), false)
		add(name+"/last", append(c04covCopyChains(base), chain), false)
	}
	pre("sibling-pair(v0,beyond-v0)", []s2.Point{v0, d.xOut})
	pre("sibling-pair(beyond-v0,v0)", []s2.Point{d.xOut, v0})
	pre("sibling-pair(far)", []s2.Point{d.far1, d.far2})
	pre("sibling-pair(centre)", []s2.Point{d.in1, d.in2})
	pre("degenerate-edge(beyond-v0)", []s2.Point{d.xOut})
	pre("degenerate-edge(v0)", []s2.Point{v0})
	pre("degenerate-edge(centre)", []s2.Point{d.in1})
	pre("degenerate-loop(v0,beyond-v0,inside-v0)", []s2.Point{v0, d.xOut, v0, d.xIn})
	// spikes in chain 0: the chain visits v, x, v
	idxOf := func(chain []s2.Point, v s2.Point) int {
		for i, w := range chain {
			if w == v {
				return i
			}
		}
		return -1
	}
	spike := func(name string, v, x s2.Point) {
		if !f.decoOK(v, x) {
			filtered++
			return
		}
		i := idxOf(base[0], v)
		var withSpike []s2.Point
		withSpike = append(withSpike, base[0][:i+1]...)
		withSpike = append(withSpike, x, v)
		withSpike = append(withSpike, base[0][i+1:]...)
		for r := 0; r < len(withSpike); r += 1 + len(withSpike)/8 {
			ch := c04covCopyChains(base)
			ch[0] = c04covRot(withSpike, r)
			add(fmt.Sprintf("%s/rot%d", name, r), ch, false)
		}
	}
	spike("spike-outwards-at-v0", v0, d.xOut)
	spike("spike-inwards-at-v0", v0, d.xIn)
	spike("spike-outwards-at-v1", v1, d.x1)
	// two loops that share a vertex merged into one chain (ABCADE)
	for a := 0; a < len(base); a++ {
		for b := a + 1; b < len(base); b++ {
			for _, v := range base[a] {
				j := idxOf(base[b], v)
				if j < 0 {
					continue
				}
				i := idxOf(base[a], v)
				merged := append(c04covRot(base[a], i), c04covRot(base[b], j)...)
				for r := 0; r < len(merged); r += 1 + len(merged)/6 {
					ch := [][]s2.Point{c04covRot(merged, r)}
					for k := range base {
						if k != a && k != b {
							ch = append(ch, append([]s2.Point(nil), base[k]...))
						}
					}
					add(fmt.Sprintf("merged-at-shared-vertex(%d,%d)/rot%d", a, b, r), ch, false)
				}
			}
		}
	}
	return cases, filtered
}

type c04covNamedShape struct {
	typ string
	s   s2.Shape
}

func c04covLoopsOf(chains [][]s2.Point) []*s2.Loop {
	var ls []*s2.Loop
	for _, ch := range chains {
		ls = append(ls, s2.LoopFromPoints(append([]s2.Point(nil), ch...)))
	}
	return ls
}

func (f *c04covFamily) shapesOf(sc c04covShapeCase) []c04covNamedShape {
	out := []c04covNamedShape{{"LaxPolygon", s2.LaxPolygonFromPoints(c04covCopyChains(sc.chains))}}
	if len(sc.chains) == 1 {
		out = append(out, c04covNamedShape{"LaxLoop", s2.LaxLoopFromPoints(sc.chains[0])})
	}
	if !sc.plain {
		return out
	}
	out = append(out, c04covNamedShape{"PolygonFromOrientedLoops", s2.PolygonFromOrientedLoops(c04covLoopsOf(sc.chains))})
	var norm [][]s2.Point
	for _, ch := range sc.chains { // undo the orientation: all loops CCW
		for i, l := range f.loops {
			if c04covHas(l, ch[0]) && c04covHas(l, ch[1]) && c04covHas(l, ch[2]) {
				if (f.depth[i]%2 == 1) != sc.inverted {
					norm = append(norm, c04covRev(ch))
				} else {
					norm = append(norm, ch)
				}
				break
			}
		}
	}
	p := s2.PolygonFromLoops(c04covLoopsOf(norm))
	if sc.inverted {
		p.Invert()
	}
	out = append(out, c04covNamedShape{"PolygonFromLoops(+Invert)", p})
	out = append(out, c04covNamedShape{"LaxPolygonFromPolygon", s2.LaxPolygonFromPolygon(p)})
	if len(sc.chains) == 1 {
		l := s2.LoopFromPoints(append([]s2.Point(nil), sc.chains[0]...))
		out = append(out, c04covNamedShape{"Loop", l}, c04covNamedShape{"LaxLoopFromLoop", s2.LaxLoopFromLoop(l)})
	}
	return out
}

// c04covBalance: from the definitional edge list of a shape, whether the start of edge 0 has only
// matched edges (forces the search for another vertex) and whether every edge is matched (the "full
// or empty" branch).
func c04covBalance(s s2.Shape) (firstBalanced, allBalanced bool) {
	net := map[[2]s2.Point]int{}
	for e := 0; e < s.NumEdges(); e++ {
		ed := s.Edge(e)
		if ed.V0 == ed.V1 {
			continue
		}
		net[[2]s2.Point{ed.V0, ed.V1}]++
		net[[2]s2.Point{ed.V1, ed.V0}]--
	}
	allBalanced, firstBalanced = true, true
	var first s2.Point
	if s.NumEdges() > 0 {
		first = s.Edge(0).V0
	}
	for k, v := range net {
		if v != 0 {
			allBalanced = false
			if k[0] == first || k[1] == first {
				firstBalanced = false
			}
		}
	}
	return firstBalanced && s.NumEdges() > 0, allBalanced
}

func c04CovShapes(c *core.Ctx, fams []*c04covFamily) {
	const sub = "cov-shape-ref"
	var nFirstBalanced, nAllBalanced, nAtVertex atomic.Int64
	judge := func(cas []int, name string, ns c04covNamedShape, probes []s2.Point, want func(pi int) bool, wantPoint func(p s2.Point) bool) (evals, nontriv int64) {
		detail := func(p s2.Point) func() any {
			return func() any {
				return map[string]any{"shape": name, "type": ns.typ, "chains": c04covChainsStr(ns.s), "p": ptStr(p)}
			}
		}
		c.Guard(sub, cas, detail(s2.Point{}), func() {
			fb, ab := c04covBalance(ns.s)
			if fb && !ab {
				nFirstBalanced.Add(1)
			}
			if ab {
				nAllBalanced.Add(1)
			}
			rp := ns.s.ReferencePoint()
			if rp.Point != s2.OriginPoint() {
				nAtVertex.Add(1)
			}
			if rp.Contained != wantPoint(rp.Point) {
				c.Violate(sub, "wrong-answer", fmt.Sprintf("%s: ReferencePoint().Contained differs from the exact crossing parity at ReferencePoint().Point", c04covTypeClass(ns.typ)), cas, map[string]any{"case": detail(rp.Point)(), "contained": rp.Contained})
			}
			ix := s2.NewShapeIndex()
			ix.Add(ns.s)
			q := s2.NewContainsPointQuery(ix, s2.VertexModelSemiOpen)
			for pi, p := range probes {
				w := want(pi)
				evals++
				if got := s2.VerifContainsBruteForce(ns.s, p); got != w {
					c.Violate(sub, "wrong-answer", fmt.Sprintf("%s: containsBruteForce differs from the exact crossing parity of the undecorated loops", c04covTypeClass(ns.typ)), cas, map[string]any{"case": detail(p)(), "want": w})
				}
				if got := q.Contains(p); got != w {
					c.Violate(sub, "wrong-answer", fmt.Sprintf("%s: ContainsPointQuery(SemiOpen) on the indexed shape differs from the exact crossing parity of the undecorated loops", c04covTypeClass(ns.typ)), cas, map[string]any{"case": detail(p)(), "want": w})
				}
			}
		})
		return evals, evals
	}
	// (1) shapes derived from the loop families
	type job struct {
		fi  int
		inv bool
	}
	var jobs []job
	for fi := range fams {
		jobs = append(jobs, job{fi, false}, job{fi, true})
	}
	c.ParallelFor(len(jobs), func(ji int) {
		if c.Expired() {
			return
		}
		f := fams[jobs[ji].fi]
		inv := jobs[ji].inv
		cases, filtered := f.shapeCases(inv)
		c.Count(sub+"/decorations_rejected_by_the_exact_crossing_filter", int64(filtered))
		var ev, nt int64
		for ci, sc := range cases {
			var shapes []c04covNamedShape
			c.Guard(sub, []int{ji, ci, -1}, func() any {
				return map[string]any{"family": f.name, "inverted": inv, "case": sc.name, "chains": c04covLoopsStr(sc.chains), "step": "construction of the shapes"}
			}, func() { shapes = f.shapesOf(sc) })
			for si, ns := range shapes {
				sc := sc
				if c.Skip(sub, ji, ci, si) {
					continue
				}
				e, n := judge([]int{ji, ci, si}, f.name+"/"+fmt.Sprintf("inverted=%v/", inv)+sc.name, ns, f.probes,
					func(pi int) bool { return f.wantAt(pi, sc.set, inv) },
					func(p s2.Point) bool { return f.wantPoint(p, inv) })
				ev += e
				nt += n
				c.Count(sub+"/shapes", 1)
				c.Count(sub+"/shapes/"+ns.typ, 1)
			}
		}
		if ji == 0 {
			c.Sample(map[string]any{"sub": sub, "family": f.name, "case": cases[len(cases)-1].name, "chains": c04covChainsStr(s2.LaxPolygonFromPoints(cases[len(cases)-1].chains))})
		}
		c.Eval(int(ev))
		c.Nontrivial(int(nt))
	})
	if c.Expired() {
		c.CapHit("cov-shape-ref: wall budget reached")
	}
	// (2) shapes without any unmatched edge: full or empty
	a, b, cc := lattice.LL(10, 20), lattice.LL(12, 23), lattice.LL(14, 19)
	type degen struct {
		name   string
		chains [][]s2.Point
		full   bool
	}
	e := []s2.Point{}
	dg := []degen{
		{"no-chains", nil, false},
		{"{}", [][]s2.Point{e}, true},
		{"{A,B}", [][]s2.Point{{a, b}}, false},
		{"{A,B},{}", [][]s2.Point{{a, b}, e}, true},
		{"{},{A,B}", [][]s2.Point{e, {a, b}}, true},
		{"{A}", [][]s2.Point{{a}}, false},
		{"{A},{}", [][]s2.Point{{a}, e}, true},
		{"{},{A}", [][]s2.Point{e, {a}}, true},
		{"{A,B,C,B}", [][]s2.Point{{a, b, cc, b}}, false},
		{"{B,C,B,A}", [][]s2.Point{{b, cc, b, a}}, false},
		{"{A,B,C,B},{}", [][]s2.Point{{a, b, cc, b}, e}, true},
		{"{A,B},{B,A}", [][]s2.Point{{a, b}, {b, a}}, false},
		{"{A,B},{A,B}", [][]s2.Point{{a, b}, {a, b}}, false},
		{"{A,B,C},{C,B,A}", [][]s2.Point{{a, b, cc}, {cc, b, a}}, false},
		{"{A,B,C},{A,C,B},{}", [][]s2.Point{{a, b, cc}, {a, cc, b}, e}, true},
		{"{A,B},{B,C},{C,A},{A}", [][]s2.Point{{a, b}, {b, cc}, {cc, a}, {a}}, false},
		{"{A,B,A,C}", [][]s2.Point{{a, b, a, cc}}, false},
	}
	probes := []s2.Point{a, b, cc, s2.Interpolate(0.5, a, b), s2.Interpolate(0.5, b, cc), s2.Interpolate(0.3, cc, a), s2.OriginPoint(), lattice.LL(12, 21), lattice.LL(-40, 170)}
	probes = append(probes, lattice.PUlp(a, 1)...)
	probes = append(probes, lattice.PUlp(b, 1)...)
	probes = lattice.Dedup(probes)
	var ev int64
	for di, d := range dg {
		var shapes []c04covNamedShape
		c.Guard(sub, []int{-1, di, -1}, func() any {
			return map[string]any{"shape": "only-matched-edges/" + d.name, "step": "construction of the shapes"}
		}, func() {
			shapes = c04covDegenerateShapes(d.name, d.chains)
		})
		for si, ns := range shapes {
			if c.Skip(sub, -1, di, si) {
				continue
			}
			full := d.full
			n, _ := judge([]int{-1, di, si}, "only-matched-edges/"+d.name, ns, probes, func(int) bool { return full }, func(s2.Point) bool { return full })
			ev += n
			c.Count(sub+"/shapes", 1)
			c.Count(sub+"/shapes/"+ns.typ, 1)
		}
	}
	c.Eval(int(ev))
	c.Nontrivial(int(ev))
	c.Count(sub+"/shapes_whose_first_vertex_is_balanced(search_for_another_vertex)", nFirstBalanced.Load())
	c.Count(sub+"/shapes_with_only_matched_edges(full_or_empty_branch)", nAllBalanced.Load())
	c.Count(sub+"/reference_point_at_a_vertex", nAtVertex.Load())
	if c.OnlySub == "" && !c.Expired() && (nFirstBalanced.Load() == 0 || nAllBalanced.Load() == 0 || nAtVertex.Load() == 0) {
		panic(core.HarnessError("cov-shape-ref: no shape took the search-for-another-vertex / full-or-empty / reference-point-at-a-vertex path"))
	}
}

func c04covDegenerateShapes(name string, chains [][]s2.Point) []c04covNamedShape {
	shapes := []c04covNamedShape{{"LaxPolygon", s2.LaxPolygonFromPoints(c04covCopyChains(chains))}}
	if len(chains) == 1 && len(chains[0]) > 0 {
		shapes = append(shapes, c04covNamedShape{"LaxLoop", s2.LaxLoopFromPoints(chains[0])})
	}
	switch name {
	case "no-chains":
		shapes = append(shapes, c04covNamedShape{"LaxLoop", s2.LaxLoopFromPoints(nil)}, c04covNamedShape{"Loop", s2.EmptyLoop()},
			c04covNamedShape{"PolygonFromLoops(+Invert)", s2.PolygonFromLoops(nil)}, c04covNamedShape{"PolygonFromLoops(+Invert)", s2.PolygonFromLoops([]*s2.Loop{s2.EmptyLoop()})},
			c04covNamedShape{"LaxLoopFromLoop", s2.LaxLoopFromLoop(s2.EmptyLoop())}, c04covNamedShape{"LaxPolygonFromPolygon", s2.LaxPolygonFromPolygon(s2.PolygonFromLoops(nil))})
	case "{}":
		fp := s2.PolygonFromLoops(nil)
		fp.Invert()
		shapes = append(shapes, c04covNamedShape{"Loop", s2.FullLoop()}, c04covNamedShape{"PolygonFromLoops(+Invert)", s2.FullPolygon()}, c04covNamedShape{"PolygonFromLoops(+Invert)", fp},
			c04covNamedShape{"PolygonFromLoops(+Invert)", s2.PolygonFromLoops([]*s2.Loop{s2.FullLoop()})}, c04covNamedShape{"LaxPolygonFromPolygon", s2.LaxPolygonFromPolygon(s2.FullPolygon())})
	}
	return shapes
}

func c04covTypeClass(typ string) string {
	switch typ {
	case "LaxPolygon", "LaxPolygonFromPolygon":
		return "LaxPolygon"
	case "LaxLoop", "LaxLoopFromLoop":
		return "LaxLoop"
	case "Loop":
		return "Loop"
	}
	return "Polygon"
}

func c04covChainsStr(s s2.Shape) [][]string {
	var out [][]string
	for _, l := range polyLoops(s) {
		out = append(out, ptsStr(l))
	}
	return out
}

// ---------------------------------------------------------------------------------------------
// cov-nesting
// ---------------------------------------------------------------------------------------------

func c04CovNesting(c *core.Ctx, fams []*c04covFamily) {
	const sub = "cov-nesting"
	var totSharedV1 atomic.Int64
	permsOf := map[int][][]int{}
	for k := 1; k <= 4; k++ {
		permsOf[k] = c04covPerms(k)
	}
	c.ParallelFor(len(fams), func(fi int) {
		if c.Expired() {
			return
		}
		f := fams[fi]
		k := len(f.loops)
		if k < 2 {
			return
		}
		all := uint(1)<<uint(k) - 1
		// rotation variants: rot[v][j] = rotation of loop j
		var rots [][]int
		var allPerms []bool
		rots = append(rots, make([]int, k))
		allPerms = append(allPerms, true)
		maxN := 0
		for _, l := range f.loops {
			if len(l) > maxN {
				maxN = len(l)
			}
		}
		for r := 1; r < maxN; r++ {
			v := make([]int, k)
			for j := range v {
				v[j] = r
			}
			rots = append(rots, v)
			allPerms = append(allPerms, true)
		}
		for j := 0; j < k; j++ {
			for r := 1; r < len(f.loops[j]); r++ {
				v := make([]int, k)
				v[j] = r
				rots = append(rots, v)
				allPerms = append(allPerms, maxN <= 6)
			}
		}
		var ev, nt, nPoly, nSharedV1, nRel int64
		for vi, rot := range rots {
			perms := permsOf[k]
			if !allPerms[vi] {
				perms = [][]int{perms[0], perms[len(perms)-1]}
			}
			for pi, perm := range perms {
				if c.Skip(sub, fi, vi, pi) {
					continue
				}
				cas := []int{fi, vi, pi}
				detail := func() any {
					return map[string]any{"family": f.name, "loop_order": perm, "rotations": rot, "loops": c04covLoopsStr(f.loops)}
				}
				c.Guard(sub, cas, detail, func() {
					objs := make([]*s2.Loop, k)
					id := map[*s2.Loop]int{}
					var in []*s2.Loop
					for _, j := range perm {
						objs[j] = s2.LoopFromPoints(c04covRot(f.loops[j], rot[j]))
						id[objs[j]] = j
						in = append(in, objs[j])
						for i := 0; i < k; i++ {
							if i != j && c04covHas(f.loops[i], objs[j].Vertex(1)) {
								nSharedV1++
							}
						}
					}
					p := s2.PolygonFromLoops(in)
					nPoly++
					if p.NumLoops() != k {
						c.Violate(sub, "wrong-answer", "PolygonFromLoops changed the number of loops", cas, detail())
						return
					}
					// hierarchy: pre-order, descendants, shells / holes
					for i := 0; i < k; i++ {
						j, ok := id[p.Loop(i)]
						if !ok {
							c.Violate(sub, "wrong-answer", "PolygonFromLoops returned a loop that was not given", cas, detail())
							return
						}
						if p.Loop(i).IsHole() != (f.depth[j]%2 == 1) {
							c.Violate(sub, "wrong-answer", "PolygonFromLoops: a loop's shell/hole status differs from the parity of the number of loops that exactly contain it", cas, map[string]any{"case": detail(), "loop": j, "exact_depth": f.depth[j], "is_hole": p.Loop(i).IsHole()})
						}
						wantParent := -1
						for d := 0; d < k; d++ {
							if id[p.Loop(d)] == f.parent[j] && f.parent[j] >= 0 {
								wantParent = d
							}
						}
						if gp, ok := p.Parent(i); gp != wantParent || ok != (wantParent >= 0) {
							c.Violate(sub, "wrong-answer", "Polygon.Parent is not the innermost loop that exactly contains the loop", cas, map[string]any{"case": detail(), "loop": j, "parent_got": gp, "ok": ok, "parent_want": wantParent})
						}
						last := p.LastDescendant(i)
						var got uint
						for d := i + 1; d <= last && d < k; d++ {
							got |= 1 << uint(id[p.Loop(d)])
						}
						var want uint
						for d := 0; d < k; d++ {
							if f.contains[j][d] {
								want |= 1 << uint(d)
							}
						}
						if got != want {
							c.Violate(sub, "wrong-answer", "PolygonFromLoops: the loops between a loop and its LastDescendant are not the loops it exactly contains", cas, map[string]any{"case": detail(), "loop": j, "descendants_got": got, "descendants_want": want})
						}
					}
					// point containment: parity of the exactly enclosing loops
					check := func(path string, contains func(q s2.Point) bool) {
						for qi, q := range f.probes {
							ev++
							if contains(q) != f.wantAt(qi, all, false) {
								c.Violate(sub, "wrong-answer", path+" differs from the parity of the loops that exactly contain the point", cas, map[string]any{"case": detail(), "p": ptStr(q), "want": f.wantAt(qi, all, false)})
								return
							}
						}
					}
					check("Polygon.ContainsPoint (loops given in some order / rotation)", p.ContainsPoint)
					if vi == 0 || pi == 0 {
						check("containsBruteForce(polygon)", func(q s2.Point) bool { return s2.VerifContainsBruteForce(p, q) })
						p.VerifIndex().Build()
						check("Polygon.ContainsPoint (index built)", p.ContainsPoint)
						p.Invert()
						for qi, q := range f.probes {
							ev++
							if p.ContainsPoint(q) == f.wantAt(qi, all, false) {
								c.Violate(sub, "wrong-answer", "a polygon and its complement (Invert) do not contain a point exactly once", cas, map[string]any{"case": detail(), "p": ptStr(q)})
								break
							}
						}
					}
				})
			}
			// relations between the polygons made of disjoint subsets of the loops (same rotation, first rows only)
			if vi >= maxN {
				continue
			}
			full, empty := all+1, all+2 // sentinels: the full and the empty polygon
			mk := func(set uint) *s2.Polygon {
				if set == full {
					return s2.FullPolygon()
				}
				if set == empty {
					return s2.PolygonFromLoops(nil)
				}
				var in []*s2.Loop
				for j := 0; j < k; j++ {
					if set&(1<<uint(j)) != 0 {
						in = append(in, s2.LoopFromPoints(c04covRot(f.loops[j], rot[j])))
					}
				}
				return s2.PolygonFromLoops(in)
			}
			// atomic regions: outside all loops, and inside loop x but outside its children
			var regions []uint
			regions = append(regions, 0)
			for x := 0; x < k; x++ {
				s := uint(1) << uint(x)
				for y := 0; y < k; y++ {
					if f.contains[y][x] {
						s |= 1 << uint(y)
					}
				}
				regions = append(regions, s)
			}
			inSet := func(region, set uint) bool {
				if set > all {
					return set == full
				}
				return bits.OnesCount(region&set)%2 == 1
			}
			for s := uint(1); s <= empty; s++ {
				for t := uint(1); t <= empty; t++ {
					if (s <= all && t <= all && s&t != 0) || ((s > all || t > all) && vi != 0) {
						continue
					}
					if c.Skip(sub, fi, vi, -int(s*32+t)) {
						continue
					}
					cas := []int{fi, vi, -int(s*32 + t)}
					detail := func() any {
						return map[string]any{"family": f.name, "rotations": rot, "loops": c04covLoopsStr(f.loops), "A_loops(bit_mask;all+1=full,all+2=empty)": s, "B_loops": t}
					}
					c.Guard(sub, cas, detail, func() {
						wantContains, wantIntersects := true, false
						for _, r := range regions {
							if inSet(r, t) && !inSet(r, s) {
								wantContains = false
							}
							if inSet(r, t) && inSet(r, s) {
								wantIntersects = true
							}
						}
						a, b := mk(s), mk(t)
						nRel++
						if got := a.Contains(b); got != wantContains {
							c.Violate(sub, "wrong-answer", "Polygon.Contains differs from the exact nesting model (regions between non-crossing loops that share no edge)", cas, map[string]any{"case": detail(), "want": wantContains})
						}
						if got := a.Intersects(b); got != wantIntersects {
							c.Violate(sub, "wrong-answer", "Polygon.Intersects differs from the exact nesting model (regions between non-crossing loops that share no edge)", cas, map[string]any{"case": detail(), "want": wantIntersects})
						}
					})
				}
			}
		}
		nt = ev
		c.Eval(int(ev))
		c.Nontrivial(int(nt))
		c.Count(sub+"/polygons_built", nPoly)
		c.Count(sub+"/loops_whose_vertex_1_is_shared_with_another_loop", nSharedV1)
		totSharedV1.Add(nSharedV1)
		c.Count(sub+"/relation_pairs", nRel)
		c.Count(sub+"/families", 1)
		if f.shared > 0 {
			c.Count(sub+"/families_with_shared_vertices", 1)
		}
	})
	if c.Expired() {
		c.CapHit("cov-nesting: wall budget reached")
	} else if c.OnlySub == "" && totSharedV1.Load() == 0 {
		panic(core.HarnessError("cov-nesting: no polygon was built from a loop whose vertex 1 is shared with another loop"))
	}
	// two top-level shells with exactly the same turning angle and different vertex counts: the
	// complement must not depend on the order in which the loops were given
	c04covEqualAreaShells(c)
}

func c04covLoopsStr(loops [][]s2.Point) [][]string {
	var out [][]string
	for _, l := range loops {
		out = append(out, ptsStr(l))
	}
	return out
}

// c04covEqualAreaShells: Polygon.Invert chooses the shell to invert by turning angle and documents
// that ties are broken so that the output does not depend on the input order of the loops.
func c04covEqualAreaShells(c *core.Ctx) {
	const sub = "cov-nesting"
	P := func(x, y, z float64) s2.Point { return s2.PointFromCoords(x, y, z) }
	type pair struct {
		name string
		a, b []s2.Point
	}
	pairs := []pair{
		{"octant(+,+,+) and octant(-,-,-) with an extra vertex on one edge", []s2.Point{P(1, 0, 0), P(0, 1, 0), P(0, 0, 1)}, []s2.Point{P(-1, 0, 0), P(0, 0, -1), P(0, -1, 0), P(-1, -1, 0)}},
		{"octant(+,+,+) and octant(-,-,-)", []s2.Point{P(1, 0, 0), P(0, 1, 0), P(0, 0, 1)}, []s2.Point{P(-1, 0, 0), P(0, 0, -1), P(0, -1, 0)}},
		{"octant(+,-,+) and octant(-,+,-)", []s2.Point{P(1, 0, 0), P(0, 0, 1), P(0, -1, 0)}, []s2.Point{P(-1, 0, 0), P(0, 1, 0), P(0, 0, -1)}},
	}
	ties := 0
	for pi, pr := range pairs {
		if why := c04covValidate([][]s2.Point{pr.a, pr.b}); why != "" {
			panic(core.HarnessError("cov-nesting: equal-area pair is not valid: " + why))
		}
		ra, rb := refmodel.NewLoop(pr.a), refmodel.NewLoop(pr.b)
		if s2.LoopFromPoints(pr.a).TurningAngle() == s2.LoopFromPoints(pr.b).TurningAngle() {
			ties++
		}
		probes := append(append([]s2.Point(nil), pr.a...), pr.b...)
		for _, l := range [][]s2.Point{pr.a, pr.b} {
			for i := range l {
				probes = append(probes, s2.Interpolate(0.5, l[i], l[(i+1)%len(l)]))
			}
		}
		probes = append(probes, lattice.PStruct(1)...)
		var firstInverted string
		for ord := 0; ord < 2; ord++ {
			for ra0 := 0; ra0 < len(pr.a); ra0++ {
				la, lb := s2.LoopFromPoints(c04covRot(pr.a, ra0)), s2.LoopFromPoints(c04covRot(pr.b, ra0))
				in := []*s2.Loop{la, lb}
				if ord == 1 {
					in = []*s2.Loop{lb, la}
				}
				if c.Skip(sub, -2, pi, ord, ra0) {
					continue
				}
				cas := []int{-2, pi, ord, ra0}
				detail := func() any { return map[string]any{"pair": pr.name, "order": ord, "rotation": ra0} }
				c.Guard(sub, cas, detail, func() {
					p := s2.PolygonFromLoops(in)
					p.Invert()
					for _, q := range probes {
						c.Eval(1)
						want := !(ra.Contains(q) != rb.Contains(q))
						if p.ContainsPoint(q) != want {
							c.Violate(sub, "wrong-answer", "a polygon and its complement (Invert) do not contain a point exactly once", cas, map[string]any{"case": detail(), "p": ptStr(q)})
							break
						}
					}
					// which loop became the outer (inverted) loop: identify by vertex count / first vertex set
					which := "a"
					if c04covHas(pr.b, p.Loop(0).Vertex(0)) {
						which = "b"
					}
					if firstInverted == "" {
						firstInverted = which
					} else if which != firstInverted {
						c.Violate(sub, "wrong-answer", "Polygon.Invert of two shells with exactly equal turning angles inverts a different loop depending on the order (or vertex rotation) in which the loops were given, although ties are documented to be broken independently of the input order", cas, detail())
					}
				})
			}
		}
	}
	c.Count(sub+"/equal_turning_angle_shell_pairs", int64(ties))
	if ties == 0 {
		panic(core.HarnessError("cov-nesting: no pair of shells with exactly equal turning angles"))
	}
}
