package checks

import (
	"fmt"
	"math"
	"sort"
	"sync/atomic"

	"github.com/golang/geo/s1"
	"github.com/golang/geo/s2"

	"verif/mc/core"
)

// C08 — closest and furthest edge queries equal an exhaustive scan.
//
// Files: c08.go (driver and oracle), c08_catalogue.go (index catalogue, target catalogue, option grid),
// c08_dispatch.go (calls into the unexported distanceTarget interface by concrete type).

func init() {
	Registry["C08"] = &Check{Level: "exploration", QuickBudget: 420, ThoroughBudget: 2400, Run: runC08}
}

// c08Tol is the documented error of the library's point/edge distance primitive at distance d (squared
// chord units), doubled: the search calls the primitive with a running limit, the scan without one, and
// the two may legitimately round differently within that error.
func c08Tol(d float64) float64 {
	if d > 4 {
		d = 4
	}
	if d < 0 {
		d = 0
	}
	return 2*s2.VerifMinUpdateDistanceMaxError(s1.ChordAngle(d)) + 4*2.220446049250313e-16*d
}

func c08Near(a, b float64) bool {
	m := a
	if b > m {
		m = b
	}
	return math.Abs(a-b) <= c08Tol(m)
}

func nextUp(x float64) float64   { return math.Nextafter(x, math.Inf(1)) }
func nextDown(x float64) float64 { return math.Nextafter(x, math.Inf(-1)) }

type c08Res struct {
	dist  float64
	shape int32
	edge  int32
}

// classes of "the interior of polygon P" with respect to a target
const (
	c08Forbidden = iota // the target does not intersect P: an interior result for P is wrong
	c08Optional         // the target touches / crosses the boundary of P (distance to an edge is already zero), or undecided
	c08Mandatory        // a connected component of the target lies inside P and no edge of P is at distance zero
)

// thresholds below which "distance zero" (closest) / "distance pi" (furthest) to the boundary is considered possible
const (
	c08EpsNear = 1e-20 // squared chord
	c08EpsFar  = 1e-12 // 4 - squared chord
)

type c08Stats struct {
	queries, predictedOptimized, predictedBrute, predictedNoSearch                   int64
	optInfinite, optFinite, optMaxResults1, optConservative, optAvoidDup             int64
	bruteByOption, bruteByThreshold, noSearchZeroLimit, noSearchInterior             int64
	intMandatory, intOptionalReported, intOptionalSilent, intForbiddenSilent         int64
	atLimitExcluded, withinUlpIncluded, differential, exactCellBrute, thresholdCalls int64
	resultsTotal, truncatedByMaxResults, emptyAnswers, tieOrderChecked               int64
	targetInterior                                                                   int64
}

func (s *c08Stats) add(p *int64, n int64) { atomic.AddInt64(p, n) }

func runC08(c *core.Ctx) {
	c.Rule = "every index of a catalogue (empty / one point / edge-less shapes / full polygon / sphere minus a cap; polygons with holes, nested shells, overlapping polygons; s2.Polygon, Polyline, PointVector, LaxPolygon, LaxPolyline, LaxLoop; 24..32 edges around the brute-force thresholds 25/26 and 30/31 as one and as three shapes; clusters of 9/10/11 edges per index cell around the enqueue threshold; concentric shapes from 40 deg to 1e-7 deg; piles of 12 coincident points that force leaf (level-30) index cells in each child position of a level-29 cell and at the first / last leaf of a face; 1..6 cube faces; up to 400 (quick) / 2000 (thorough) edges) x every target of a catalogue (points, edges incl. degenerate / 175 deg / nearly antipodal, cells of levels 0,1,5,15,30, other indexes incl. empty / full / containing polygons, and per index: vertices, midpoints, 1-ulp neighbours, antipodes, points / edges / cells inside, outside, across and around every polygon loop) x the option grid MaxResults {1,2,3,5,n-1,n,n+1,unlimited} x DistanceLimit {none, nothing-qualifies, fixed angles, and exactly / next float above / next float below the 1st, 2nd, median and last true distance of that very query} x MaxError {0, 1e-15, 0.02, 1, pi rad} x IncludeInteriors x UseBruteForce, closest and furthest, for FindEdges, Distance, IsDistanceLess/Greater and the conservative threshold tests; plus every operation sequence of length <= 3 (quick) / 4 (thorough) over {FindEdges with a point / cell / index target, Distance + predicates, ix.Add + q.Reset, ix.Reset + Add + q.Reset, q.Reset, change options, bare ix.Add} on ONE long-lived closest and furthest query x 4 option sets x prebuilt / unbuilt index, every step compared with the scan and with a fresh query on a fresh index; oracle = a scan over every edge with the target's own per-edge distance + exact reference containment of representative points for interiors; non-trivial = queries answered by the optimized search (path counter hook)"
	c.Assume = []string{
		"per-edge distances are taken from the target's own updateDistanceToEdge (their accuracy is the business of C12/C17); what is checked is which edges the search selects",
		"ties are compared as distances, not as edge ids; the order of the reported list is checked against the documented (distance, shape, edge) order",
		"completeness at a distance limit is asserted up to the documented error of the distance primitive; that every reported distance is strictly within the limit is asserted exactly; for cell targets under brute force (per-edge distance provably independent of the running limit) membership is asserted exactly",
		"interiors: (P,-1) is demanded when every representative point of one connected component of the target (antipode for furthest) is inside P by the exact reference and no edge of P is at distance zero, forbidden when no representative point is inside and no edge is at distance zero, optional otherwise; point targets are decided by containment alone",
	}
	indexes := c08Indexes(c)
	base := c08BaseTargets(c)
	targetsFor := make([][]c08Target, len(indexes))
	nDerived := 0
	for ii, idx := range indexes {
		d := c08DerivedTargets(c, ii, idx)
		nDerived += len(d)
		targetsFor[ii] = append(append([]c08Target(nil), base...), d...)
	}
	c.Note("indexes", len(indexes))
	c.Note("base_targets", len(base))
	c.Note("targets_from_own_geometry", nDerived)
	type job struct{ ii, ti int }
	var jobsA, jobsB []job // A: point / edge / cell targets; B: index targets (their nested searches share the path counters)
	for ii := range indexes {
		for ti, tg := range targetsFor[ii] {
			if tg.kind == 'i' {
				jobsB = append(jobsB, job{ii, ti})
			} else {
				jobsA = append(jobsA, job{ii, ti})
			}
		}
	}
	c.Note("index_target_pairs", len(jobsA)+len(jobsB))
	// static description of the catalogue indexes: cells by population relative to the enqueue threshold, level span
	for _, idx := range indexes {
		ix := s2.NewShapeIndex()
		n := 0
		for _, sh := range idx.shapes {
			s := sh.mk()
			n += s.NumEdges()
			ix.Add(s)
		}
		ix.Build()
		var lt, eq, gt int64
		minL, maxL := 31, -1
		for _, cell := range ix.VerifIndexDump().Cells {
			k := 0
			for _, cs := range cell.Shapes {
				k += len(cs.Edges)
			}
			switch {
			case k < 10:
				lt++
			case k == 10:
				eq++
			default:
				gt++
			}
			if cell.ID.Level() == 30 {
				pos := cell.ID.ChildPosition(30)
				c.Count(fmt.Sprintf("leaf_index_cells(level 30)/child-position-%d-with-%d-edges", pos, k), 1)
				if cell.ID == cell.ID.Parent(0).RangeMin() || cell.ID == cell.ID.Parent(0).RangeMax() {
					c.Count("leaf_index_cells(level 30)/first-or-last-leaf-of-a-face", 1)
				}
			}
			if l := cell.ID.Level(); l < minL {
				minL = l
			}
			if l := cell.ID.Level(); l > maxL {
				maxL = l
			}
		}
		c.Count("index_cells_with_fewer_than_10_edges", lt)
		c.Count("index_cells_with_exactly_10_edges", eq)
		c.Count("index_cells_with_more_than_10_edges", gt)
		if maxL-minL >= 15 {
			c.Count("indexes_whose_cells_span_15_or_more_levels", 1)
		}
		c.Count("index_edges_total", int64(n))
	}
	var st c08Stats
	run := func(jobs []job) {
		c.ParallelFor(len(jobs), func(j int) {
			if c.Expired() {
				return
			}
			c08Job(c, &st, indexes, targetsFor, jobs[j].ii, jobs[j].ti)
			if j%97 == 0 {
				c.Sample(map[string]any{"index": indexes[jobs[j].ii].name, "target": targetsFor[jobs[j].ii][jobs[j].ti].name})
			}
		})
	}
	// the operation histories first (cheap), so that a wall-budget cut of the sweep below cannot remove them
	c08Histories(c)
	opt0, brute0 := atomic.LoadInt64(&s2.VerifEdgeQueryPaths.Optimized), atomic.LoadInt64(&s2.VerifEdgeQueryPaths.BruteForce)
	run(jobsA)
	optA, bruteA := atomic.LoadInt64(&s2.VerifEdgeQueryPaths.Optimized)-opt0, atomic.LoadInt64(&s2.VerifEdgeQueryPaths.BruteForce)-brute0
	predOptA, predBruteA, thrCallsA := st.predictedOptimized, st.predictedBrute, st.thresholdCalls
	run(jobsB)
	optAll, bruteAll := atomic.LoadInt64(&s2.VerifEdgeQueryPaths.Optimized)-opt0, atomic.LoadInt64(&s2.VerifEdgeQueryPaths.BruteForce)-brute0
	if c.Expired() {
		c.CapHit("index x target sweep: wall budget reached")
	}
	// the path counter hook is the measurement; the prediction (from the thresholds written in the target files) only
	// splits the measured number by branch, and is itself compared with the hook for the targets without nested searches
	c.Count("hook/optimized_search_ran(point,edge,cell targets)", optA)
	c.Count("hook/brute_force_ran(point,edge,cell targets)", bruteA)
	c.Count("hook/optimized_search_ran(index targets, incl. their nested searches)", optAll-optA)
	c.Count("hook/brute_force_ran(index targets, incl. their nested searches)", bruteAll-bruteA)
	c.Count("queries_answered_by_optimized_search", optAll)
	c.Count("queries_answered_by_brute_force", bruteAll)
	// every FindEdges call is predicted; the Distance / predicate calls (one search each, or none when an interior or a
	// nothing-qualifies limit ends them early) are not, so the hook must lie between the prediction and prediction + calls
	thrA := thrCallsA
	c.Note("path_prediction_vs_hook(point,edge,cell targets)", map[string]any{
		"predicted_optimized(FindEdges)": predOptA, "predicted_brute_force(FindEdges)": predBruteA, "distance_and_predicate_calls(not predicted)": thrA,
		"hook_optimized": optA, "hook_brute_force": bruteA,
		"consistent": predOptA <= optA && predBruteA <= bruteA && optA+bruteA <= predOptA+predBruteA+thrA})
	c.Count("queries(top level)", st.queries)
	c.Count("branch/optimized", st.predictedOptimized)
	c.Count("branch/optimized/no-limit(index covering)", st.optInfinite)
	c.Count("branch/optimized/finite-limit(search-disc covering)", st.optFinite)
	c.Count("branch/optimized/MaxResults=1(initial-cell shortcut)", st.optMaxResults1)
	c.Count("branch/optimized/conservative-cell-distance(index target, MaxError)", st.optConservative)
	c.Count("branch/optimized/explicit-duplicate-avoidance(index target, MaxError, MaxResults>1)", st.optAvoidDup)
	c.Count("branch/brute-force/by-option", st.bruteByOption)
	c.Count("branch/brute-force/index-below-threshold", st.bruteByThreshold)
	c.Count("branch/no-search/nothing-qualifies-limit", st.noSearchZeroLimit)
	c.Count("branch/no-search/interior-found-with-MaxResults=1", st.noSearchInterior)
	c.Count("interiors/mandatory(component inside polygon)", st.intMandatory)
	c.Count("interiors/optional-reported", st.intOptionalReported)
	c.Count("interiors/optional-not-reported", st.intOptionalSilent)
	c.Count("interiors/forbidden(checked absent)", st.intForbiddenSilent)
	c.Count("limit/edges-exactly-at-the-limit-and-excluded", st.atLimitExcluded)
	c.Count("limit/edges-one-ulp-within-the-limit-and-included", st.withinUlpIncluded)
	c.Count("differential/brute-force-vs-optimized-pairs", st.differential)
	c.Count("exact-membership(cell target, brute force)", st.exactCellBrute)
	c.Count("threshold-and-distance-calls", st.thresholdCalls)
	c.Count("index-target-interiors/edges-inside-a-target-polygon-checked", st.targetInterior)
	c.Count("results/total", st.resultsTotal)
	c.Count("results/lists-truncated-by-MaxResults", st.truncatedByMaxResults)
	c.Count("results/empty-lists", st.emptyAnswers)
	c.Count("results/tie-order-pairs-checked", st.tieOrderChecked)
	c.Nontrivial(int(optAll))
	if optAll == 0 && c.OnlySub == "" {
		panic(core.HarnessError("vacuous: no query was answered by the optimized search"))
	}
}

// c08Job runs every option of the grid, for closest and furthest, for one (index, target).
func c08Job(c *core.Ctx, st *c08Stats, indexes []c08Index, targetsFor [][]c08Target, ii, ti int) {
	idx, tg := indexes[ii], &targetsFor[ii][ti]
	ix := s2.NewShapeIndex()
	var shapes []s2.Shape
	var off []int // flat edge numbering
	n := 0
	has2D := false
	for _, sh := range idx.shapes {
		s := sh.mk()
		shapes = append(shapes, s)
		off = append(off, n)
		n += s.NumEdges()
		ix.Add(s)
		if sh.dim == 2 {
			has2D = true
		}
	}
	ix.Build()
	level := 2
	if c.Quick() {
		level = 1
	}
	if n > 150 && c.Quick() || n > 500 {
		level = 0
	}
	for dir := 0; dir < 2; dir++ {
		furthest := dir == 1
		zero := 0.0
		if furthest {
			zero = 4
		}
		better := func(a, b float64) bool {
			if furthest {
				return a > b
			}
			return a < b
		}
		mk := func() any {
			if furthest {
				return tg.max()
			}
			return tg.min()
		}
		// exhaustive scan with the target's own per-edge distance
		scanT := mk()
		dist := make([]float64, n)
		has := make([]bool, n)
		var order []int
		for si, s := range shapes {
			for e := 0; e < s.NumEdges(); e++ {
				if dd, ok := s2.VerifTargetDistanceToEdge(scanT, s.Edge(e)); ok {
					dist[off[si]+e] = float64(dd)
					has[off[si]+e] = true
					order = append(order, off[si]+e)
				}
			}
		}
		c08TargetInteriors(c, st, idx, tg, ii, ti, dir, shapes, off, dist, has)
		sort.SliceStable(order, func(a, b int) bool { return better(dist[order[a]], dist[order[b]]) })
		D := make([]float64, len(order))
		for i, fi := range order {
			D[i] = dist[fi]
		}
		// interiors: class of every polygon of the index with respect to this target
		class := make([]int, len(shapes))
		nMand := 0
		var anyOptional bool
		for si, sh := range idx.shapes {
			if sh.dim != 2 {
				continue
			}
			class[si] = c08Classify(tg, &idx.shapes[si], furthest, shapes[si].NumEdges(), dist[off[si]:off[si]+shapes[si].NumEdges()], has[off[si]:off[si]+shapes[si].NumEdges()])
			switch class[si] {
			case c08Mandatory:
				nMand++
			case c08Optional:
				anyOptional = true
			}
		}
		gl := level
		if tg.kind == 'i' && level > 0 {
			gl = level - 1 // index targets (every per-edge distance is a nested search): one grid level down
		}
		grid := c08Grid(gl, n, D, furthest, has2D, idx.extraK, idx.extraLimDeg)
		var prev []c08Res // answer of the same options without brute force
		// (shape, edge) sets as generation stamps over the flat edge numbering; interiors of shape s at n+s
		seenStamp := make([]int32, n+len(shapes))
		prevStamp := make([]int32, n+len(shapes))
		var gen int32
		slot := func(r c08Res) int {
			if r.edge < 0 {
				return n + int(r.shape)
			}
			return off[r.shape] + int(r.edge)
		}
		sure := make([]float64, 0, n)
		for gi, o := range grid {
			if c.Skip("find-edges", ii, ti, dir, gi) {
				continue
			}
			cas := []int{ii, ti, dir, gi}
			det := func(extra map[string]any) map[string]any {
				m := map[string]any{"index": idx.name, "target": tg.name, "furthest": furthest, "options": o.String(), "edges_in_index": n}
				for k, v := range extra {
					m[k] = v
				}
				return m
			}
			c.Guard("find-edges", cas, func() any { return det(nil) }, func() {
				c.Eval(1)
				var opts *s2.EdgeQueryOptions
				if furthest {
					opts = s2.NewFurthestEdgeQueryOptions()
				} else {
					opts = s2.NewClosestEdgeQueryOptions()
				}
				if o.maxResults > 0 {
					opts.MaxResults(o.maxResults)
				}
				if o.hasLimit {
					opts.DistanceLimit(o.limit)
				}
				opts.MaxError(o.maxError).IncludeInteriors(o.interiors).UseBruteForce(o.brute)
				var q *s2.EdgeQuery
				if furthest {
					q = s2.NewFurthestEdgeQuery(ix, opts)
				} else {
					q = s2.NewClosestEdgeQuery(ix, opts)
				}
				got := c08Find(q, mk())
				lim := float64(o.limit)
				nothing := o.hasLimit && lim == zero // "edges whose distance is equal are not returned": nothing can qualify
				bad := func(msg string, extra map[string]any) {
					e := map[string]any{"got_first": fmt.Sprint(got[:minI(len(got), 6)]), "got_len": len(got), "best_true_distances": fmt.Sprint(D[:minI(len(D), 6)]), "mandatory_interiors": nMand}
					for k, v := range extra {
						e[k] = v
					}
					c.Violate("find-edges", "wrong-answer", msg, cas, det(e))
				}
				// ---- structure: documented order (distance, shape, edge), duplicate-free, within MaxResults ----
				gen++
				interiorsReported, optionalReported := 0, 0
				usesME := o.maxError > 0
				for i, r := range got {
					if r.shape < 0 || int(r.shape) >= len(shapes) {
						bad("FindEdges reported a shape id that is not in the index", nil)
						return
					}
					if i > 0 {
						p := got[i-1]
						if r.dist != p.dist {
							if better(r.dist, p.dist) {
								bad("results are not sorted by distance", nil)
							}
						} else {
							st.add(&st.tieOrderChecked, 1)
							if r.shape < p.shape || (r.shape == p.shape && r.edge < p.edge) {
								bad("results of equal distance are not ordered by (shape, edge) as documented for EdgeQueryResult.Less", nil)
							}
						}
					}
					if r.edge < -1 {
						bad("a result has an edge id below -1", nil)
						return
					}
					if r.edge >= 0 && int(r.edge) >= shapes[r.shape].NumEdges() {
						bad("FindEdges reported an edge id that the shape does not have", nil)
						return
					}
					if seenStamp[slot(r)] == gen {
						bad("results contain the same (shape, edge) twice", nil)
					}
					seenStamp[slot(r)] = gen
					if o.hasLimit && !better(r.dist, lim) {
						bad("a reported distance is not strictly within the DistanceLimit (edges whose distance is equal must not be returned)", map[string]any{"reported": r.dist, "limit": lim})
					}
					if r.edge < 0 {
						switch {
						case !o.interiors:
							bad("an interior result (edge id -1) was reported although IncludeInteriors is off", nil)
						case idx.shapes[r.shape].dim != 2:
							bad("an interior result (edge id -1) was reported for a shape that is not a polygon", nil)
						case class[r.shape] == c08Forbidden:
							bad("an interior result (edge id -1) was reported for a polygon that the target does not intersect", map[string]any{"shape": r.shape})
						case r.dist != zero:
							bad("an interior result (edge id -1) has a distance other than zero (closest) / pi (furthest)", map[string]any{"shape": r.shape, "reported": r.dist})
						}
						interiorsReported++
						if class[r.shape] == c08Optional {
							optionalReported++
						}
						continue
					}
					fi := off[r.shape] + int(r.edge)
					d := dist[fi]
					if !has[fi] {
						bad("an edge was reported although the target reports no distance for it", nil)
						continue
					}
					if o.hasLimit && !better(d, lim) && !c08Near(d, lim) {
						bad("a reported edge is not within the DistanceLimit according to the scan", map[string]any{"shape": r.shape, "edge": r.edge, "scan": d, "limit": lim})
					}
					if tg.usesMaxError() && usesME {
						// a target that takes advantage of MaxError may report a distance up to MaxError
						// beyond the true per-edge distance (documented in distanceTarget.setMaxError)
						lo, hi := d, float64(s1.ChordAngle(d).Add(o.maxError))
						if furthest {
							lo, hi = float64(s1.ChordAngle(d).Sub(o.maxError)), d
						}
						if (r.dist < lo && !c08Near(r.dist, lo)) || (r.dist > hi && !c08Near(r.dist, hi)) {
							bad("a reported distance is not within MaxError of the distance of that edge (target using MaxError)", map[string]any{"shape": r.shape, "edge": r.edge, "reported": r.dist, "scan": d})
						}
					} else if !c08Near(d, r.dist) {
						bad("a reported distance differs from the distance of that edge by more than the documented error of the distance primitive", map[string]any{"shape": r.shape, "edge": r.edge, "reported": r.dist, "scan": d})
					}
				}
				if o.maxResults > 0 && len(got) > o.maxResults {
					bad("more results than MaxResults", nil)
				}
				// ---- completeness and optimality against the scan ----
				// sure = must be found; maybe = within the documented error of the limit (either answer is acceptable)
				z := 0
				if o.interiors && !nothing {
					z = nMand + optionalReported
				}
				sure = sure[:0]
				nMaybe, nAtLimit, nUlpInside := 0, 0, 0
				if !nothing {
					for _, fi := range order {
						d := dist[fi]
						switch {
						case !o.hasLimit:
							sure = append(sure, d)
						case c08Near(d, lim):
							nMaybe++
							if d == lim {
								nAtLimit++
							} else if nextUp(d) == lim || nextDown(d) == lim {
								if better(d, lim) {
									nUlpInside++
								}
							}
						case better(d, lim):
							sure = append(sure, d)
						}
					}
				}
				kcap := math.MaxInt32
				if o.maxResults > 0 {
					kcap = o.maxResults
				}
				lo, hi := minI(kcap, z+len(sure)), minI(kcap, z+len(sure)+nMaybe)
				if len(got) < lo || len(got) > hi {
					bad("the number of results differs from the number of edges (and polygon interiors) of the exhaustive scan that satisfy the options", map[string]any{"want_at_least": lo, "want_at_most": hi})
				} else {
					for i := 0; i < lo && i < len(got); i++ {
						exp := zero
						if i >= z {
							exp = sure[i-z]
						}
						allowed := exp
						if usesME {
							// MaxError is an angle: add / subtract as chord angles
							allowed = float64(s1.ChordAngle(exp).Add(o.maxError))
							if furthest {
								allowed = float64(s1.ChordAngle(exp).Sub(o.maxError))
							}
						}
						if better(allowed, got[i].dist) && !c08Near(allowed, got[i].dist) {
							if usesME {
								bad("with MaxError a reported distance is further than MaxError from the i-th optimum", map[string]any{"i": i, "ith_optimum": exp})
							} else {
								bad("the i-th reported distance differs from the i-th best distance of the exhaustive scan by more than the documented error of the distance primitive", map[string]any{"i": i, "ith_optimum": exp})
							}
							break
						}
					}
				}
				// ---- exact membership where the per-edge distance provably does not depend on the running limit ----
				if tg.exact() && o.brute && o.maxResults != 1 && !nothing {
					want := 0
					for _, fi := range order {
						if !o.hasLimit || better(dist[fi], lim) {
							want++
						}
					}
					if want+interiorsReported <= kcap {
						st.add(&st.exactCellBrute, 1)
						edgesGot := len(got) - interiorsReported
						if edgesGot != want {
							bad("brute force with a cell target: the set of reported edges is not exactly the set of edges whose distance is strictly within the limit", map[string]any{"want_edges": want, "got_edges": edgesGot})
						}
						for _, r := range got {
							if r.edge >= 0 && r.dist != dist[off[r.shape]+int(r.edge)] {
								bad("brute force with a cell target: a reported distance is not the cell's distance to that edge", nil)
								break
							}
						}
					}
				}
				// ---- differential: the same options with and without UseBruteForce ----
				if o.brute && gi > 0 && !grid[gi-1].brute && prev != nil {
					noTrunc := len(got) < kcap && len(prev) < kcap
					meEffect := usesME && (o.maxResults == 1 || tg.usesMaxError())
					if noTrunc && !meEffect {
						st.add(&st.differential, 1)
						for _, r := range prev {
							prevStamp[slot(r)] = gen
						}
						diff := func(r c08Res, which string) {
							if r.edge < 0 {
								bad("brute force and the optimized search report different polygon interiors", map[string]any{"only_in": which, "shape": r.shape})
							} else if d := dist[off[r.shape]+int(r.edge)]; !(o.hasLimit && c08Near(d, lim)) {
								bad("brute force and the optimized search report different edges (not explained by the error of the distance primitive at the limit)", map[string]any{"only_in": which, "shape": r.shape, "edge": r.edge, "scan": d})
							}
						}
						for _, r := range got {
							if prevStamp[slot(r)] != gen {
								diff(r, "brute force")
							}
						}
						for _, r := range prev {
							if seenStamp[slot(r)] != gen {
								diff(r, "optimized")
							}
						}
					}
				}
				if !o.brute {
					prev = got
					if prev == nil {
						prev = []c08Res{}
					}
				}
				// ---- bookkeeping for the evidence ----
				st.add(&st.queries, 1)
				st.add(&st.resultsTotal, int64(len(got)))
				if len(got) == 0 {
					st.add(&st.emptyAnswers, 1)
				}
				if len(got) == kcap {
					st.add(&st.truncatedByMaxResults, 1)
				}
				st.add(&st.atLimitExcluded, int64(nAtLimit))
				st.add(&st.withinUlpIncluded, int64(nUlpInside))
				if o.interiors && !nothing {
					st.add(&st.intMandatory, int64(nMand))
					st.add(&st.intOptionalReported, int64(optionalReported))
					for si := range class {
						if idx.shapes[si].dim == 2 && seenStamp[n+si] != gen {
							if class[si] == c08Optional {
								st.add(&st.intOptionalSilent, 1)
							} else if class[si] == c08Forbidden {
								st.add(&st.intForbiddenSilent, 1)
							}
						}
					}
				}
				switch {
				case nothing:
					st.add(&st.noSearchZeroLimit, 1)
					st.add(&st.predictedNoSearch, 1)
				case o.maxResults == 1 && interiorsReported > 0:
					st.add(&st.noSearchInterior, 1)
					st.add(&st.predictedNoSearch, 1)
				case o.brute:
					st.add(&st.bruteByOption, 1)
					st.add(&st.predictedBrute, 1)
				case n <= tg.bruteMax(furthest):
					st.add(&st.bruteByThreshold, 1)
					st.add(&st.predictedBrute, 1)
				default:
					st.add(&st.predictedOptimized, 1)
					if o.hasLimit {
						st.add(&st.optFinite, 1)
					} else {
						st.add(&st.optInfinite, 1)
					}
					if o.maxResults == 1 {
						st.add(&st.optMaxResults1, 1)
					}
					if tg.usesMaxError() && usesME {
						if o.maxResults != 1 {
							st.add(&st.optAvoidDup, 1)
						}
						var rest s1.ChordAngle
						if furthest {
							rest = s1.StraightChordAngle - o.limit.Add(o.maxError)
						} else {
							rest = o.limit.Sub(o.maxError)
						}
						if !o.hasLimit || rest > 0 {
							st.add(&st.optConservative, 1)
						}
					}
				}
			})
		}
		c08Thresholds(c, st, ix, idx, tg, ii, ti, dir, n, D, nMand, anyOptional, has2D)
	}
}

// c08TargetInteriors: the interior of the TARGET index.  A ShapeIndex target measures with its own EdgeQuery, whose
// options are the documented defaults (IncludeInteriors: "The default value is true", "polygons that contain the
// target should have a distance of zero").  So an indexed edge that lies inside a polygon Q of the target index
// (endpoints and midpoint inside Q by the exact reference, and away from Q's boundary by the edge-pair distance) must
// be at distance exactly zero; for furthest, an edge whose antipode lies inside Q must be at distance exactly pi.
func c08TargetInteriors(c *core.Ctx, st *c08Stats, idx c08Index, tg *c08Target, ii, ti, dir int, shapes []s2.Shape, off []int, dist []float64, has []bool) {
	if tg.kind != 'i' || c.Skip("index-target-interiors", ii, ti, dir) {
		return
	}
	furthest := dir == 1
	for qi := range tg.tshapes {
		q := &tg.tshapes[qi]
		if q.dim != 2 {
			continue
		}
		qs := q.mk()
		for si, s := range shapes {
			for e := 0; e < s.NumEdges(); e++ {
				ed := s.Edge(e)
				rep := []s2.Point{ed.V0, ed.V1, {Vector: ed.V0.Add(ed.V1.Vector).Normalize()}}
				inside := true
				for _, p := range rep {
					if furthest {
						p = c08Anti(p)
					}
					if !q.contains(p) {
						inside = false
						break
					}
				}
				if !inside {
					continue
				}
				clear := true
				for k := 0; k < qs.NumEdges() && clear; k++ {
					if furthest {
						d, ok := s2.VerifTargetDistanceToEdge(s2.NewMaxDistanceToEdgeTarget(ed), qs.Edge(k))
						clear = ok && 4-float64(d) > c08EpsFar
					} else {
						d, ok := s2.VerifTargetDistanceToEdge(s2.NewMinDistanceToEdgeTarget(ed), qs.Edge(k))
						clear = ok && float64(d) > c08EpsNear
					}
				}
				if !clear {
					continue
				}
				st.add(&st.targetInterior, 1)
				want := 0.0
				if furthest {
					want = 4
				}
				if fi := off[si] + e; !has[fi] || dist[fi] != want {
					c.Violate("index-target-interiors", "wrong-answer", "a ShapeIndex target does not report distance zero (closest) / pi (furthest) for an edge (or its antipode) inside one of the target's polygons", []int{ii, ti, dir},
						map[string]any{"index": idx.name, "target": tg.name, "furthest": furthest, "shape": si, "edge": e, "reported": dist[fi], "has": has[fi]})
				}
			}
		}
	}
}

// c08Classify decides the class of the interior of one polygon of the index with respect to the target.
// edgeDist / has are the scan's distances of the polygon's own edges.
func c08Classify(tg *c08Target, sh *c08Shape, furthest bool, nEdges int, edgeDist []float64, has []bool) int {
	if len(tg.comps) == 0 {
		return c08Forbidden // empty target
	}
	anyInside, anyAllInside := false, false
	for _, comp := range tg.comps {
		all := true
		for _, p := range comp {
			if furthest {
				p = c08Anti(p)
			}
			if sh.contains(p) {
				anyInside = true
			} else {
				all = false
			}
		}
		if all {
			anyAllInside = true
		}
	}
	if tg.kind == 'p' {
		// a point is its own component: contained (semi-open vertex model) or not
		if anyInside {
			return c08Mandatory
		}
		return c08Forbidden
	}
	gap := true
	for e := 0; e < nEdges; e++ {
		if !has[e] {
			continue
		}
		if furthest {
			if 4-edgeDist[e] <= c08EpsFar {
				gap = false
			}
		} else if edgeDist[e] <= c08EpsNear {
			gap = false
		}
	}
	switch {
	case anyAllInside && gap:
		return c08Mandatory
	case !anyInside && gap:
		return c08Forbidden
	}
	return c08Optional
}

// c08Thresholds checks Distance and the threshold predicates on fresh queries, with and without interiors and
// brute force.
func c08Thresholds(c *core.Ctx, st *c08Stats, ix *s2.ShapeIndex, idx c08Index, tg *c08Target, ii, ti, dir, n int, D []float64, nMand int, anyOptional, has2D bool) {
	furthest := dir == 1
	zero := 0.0
	if furthest {
		zero = 4
	}
	ins := []bool{true, false}
	if !has2D {
		ins = []bool{true}
	}
	for vi, variant := range [][2]bool{{true, false}, {true, true}, {false, false}, {false, true}} {
		interiors, brute := variant[0], variant[1]
		if !interiors && len(ins) == 1 {
			continue
		}
		if c.Skip("thresholds", ii, ti, dir, vi) {
			continue
		}
		cas := []int{ii, ti, dir, vi}
		c.Guard("thresholds", cas, func() any {
			return map[string]any{"index": idx.name, "target": tg.name, "furthest": furthest, "interiors": interiors, "brute": brute}
		}, func() {
			have := len(D) > 0
			best := 0.0
			if have {
				best = D[0]
			}
			if interiors && nMand > 0 {
				best, have = zero, true
			}
			// with an optional interior the optimum is zero either way (an edge is at distance ~zero)
			ambiguous := interiors && anyOptional
			mkq := func() (*s2.EdgeQuery, any) {
				if furthest {
					return s2.NewFurthestEdgeQuery(ix, s2.NewFurthestEdgeQueryOptions().IncludeInteriors(interiors).UseBruteForce(brute)), tg.max()
				}
				return s2.NewClosestEdgeQuery(ix, s2.NewClosestEdgeQueryOptions().IncludeInteriors(interiors).UseBruteForce(brute)), tg.min()
			}
			viol := func(msg string, extra map[string]any) {
				m := map[string]any{"index": idx.name, "target": tg.name, "furthest": furthest, "interiors": interiors, "brute": brute, "optimum": best, "has_optimum": have, "edges_in_index": n}
				for k, v := range extra {
					m[k] = v
				}
				c.Violate("thresholds", "wrong-answer", msg, cas, m)
			}
			q, t := mkq()
			c.Eval(1)
			st.add(&st.thresholdCalls, 1)
			gotD := c08Distance(q, t)
			if !have {
				// "If the index or target is empty, returns the EdgeQuery's maximal sentinel"
				if furthest && gotD >= 0 || !furthest && !gotD.IsInfinity() {
					viol("Distance on an empty index / with an empty target is not the sentinel (infinity for closest, negative for furthest)", map[string]any{"got": float64(gotD)})
				}
			} else if !c08Near(float64(gotD), best) {
				viol("Distance differs from the optimum of the exhaustive scan", map[string]any{"got": float64(gotD)})
			}
			lims := []float64{0, 4}
			if have {
				lims = append(lims, best, nextUp(best), nextDown(best), best*0.5, best*1.5+1e-9)
				if len(D) > 1 {
					lims = append(lims, D[1], D[len(D)-1], nextUp(D[len(D)-1]), nextDown(D[len(D)-1]))
				}
			}
			for _, lim := range lims {
				if lim < 0 || lim > 4 {
					continue
				}
				c.Eval(1)
				st.add(&st.thresholdCalls, 2)
				q, t := mkq()
				q2, t2 := mkq()
				exact := tg.exact() && !ambiguous
				if furthest {
					got := c08Greater(q, t, s1.ChordAngle(lim))
					want := have && best > lim
					if got != want && !(have && c08Near(best, lim)) {
						viol("IsDistanceGreater differs from comparing the scan's optimum with the limit", map[string]any{"limit": lim, "got": got})
					} else if exact && got && !want {
						viol("IsDistanceGreater (cell target) is true although no distance is strictly greater than the limit", map[string]any{"limit": lim})
					} else if exact && brute && !got && want {
						viol("IsDistanceGreater (cell target, brute force) is false although a distance is strictly greater than the limit", map[string]any{"limit": lim})
					}
					if have && best >= lim && !c08ConsGE(q2, t2, s1.ChordAngle(lim)) {
						viol("IsConservativeDistanceGreaterOrEqual is false although the optimum is at or beyond the limit", map[string]any{"limit": lim})
					}
				} else {
					got := c08Less(q, t, s1.ChordAngle(lim))
					want := have && best < lim
					if got != want && !(have && c08Near(best, lim)) {
						viol("IsDistanceLess differs from comparing the scan's optimum with the limit", map[string]any{"limit": lim, "got": got})
					} else if exact && got && !want {
						viol("IsDistanceLess (cell target) is true although no distance is strictly less than the limit", map[string]any{"limit": lim})
					} else if exact && brute && !got && want {
						viol("IsDistanceLess (cell target, brute force) is false although a distance is strictly less than the limit", map[string]any{"limit": lim})
					}
					gotC := c08ConsLE(q2, t2, s1.ChordAngle(lim))
					if have && best <= lim && !gotC {
						viol("IsConservativeDistanceLessOrEqual is false although the optimum is within the limit", map[string]any{"limit": lim})
					}
					limE := lim + s2.VerifMinUpdateDistanceMaxError(s1.ChordAngle(lim))
					if gotC && !(have && (best < limE || c08Near(best, limE))) {
						viol("IsConservativeDistanceLessOrEqual is true although the optimum is beyond the limit expanded by the documented error", map[string]any{"limit": lim})
					}
				}
			}
		})
	}
}

func b2i(b bool) int {
	if b {
		return 1
	}
	return 0
}

func minI(a, b int) int {
	if a < b {
		return a
	}
	return b
}
