package checks

import (
	"fmt"
	"math"
	"sort"

	"github.com/golang/geo/s1"
	"github.com/golang/geo/s2"

	"verif/mc/core"
	"verif/mc/lattice"
	"verif/mc/refmodel"
)

// C08 — closest and furthest edge queries equal an exhaustive scan.

func init() {
	Registry["C08"] = &Check{Level: "exploration", QuickBudget: 240, ThoroughBudget: 1500, Run: runC08}
}

type c08Index struct {
	name   string
	shapes []func() s2.Shape
}

func c08Indexes(c *core.Ctx) []c08Index {
	d := lattice.Deg
	poly := func(p s2.Point, r float64, n int) func() s2.Shape {
		return func() s2.Shape { return s2.PolygonFromLoops([]*s2.Loop{s2.RegularLoop(p, d(r), n)}) }
	}
	line := func(lat0, lng0, dlat, dlng float64, n int) func() s2.Shape {
		return func() s2.Shape {
			var pl s2.Polyline
			for i := 0; i < n; i++ {
				pl = append(pl, lattice.LL(lat0+dlat*float64(i), lng0+dlng*float64(i)))
			}
			return &pl
		}
	}
	pts := func(ps ...s2.Point) func() s2.Shape {
		return func() s2.Shape { pv := s2.PointVector(ps); return &pv }
	}
	f0 := lattice.LL(0, 0)
	out := []c08Index{
		{"1-face/8-edges(brute force)", []func() s2.Shape{poly(f0, 5, 8)}},
		{"1-face/28-edges", []func() s2.Shape{poly(f0, 5, 20), line(-3, -8, 0.7, 2.1, 9)}},
		{"1-face/100-edges", []func() s2.Shape{poly(f0, 10, 60), poly(lattice.LL(3, 4), 2, 30), line(-12, -14, 2.5, 3, 10), pts(lattice.LL(1, 1), lattice.LL(-20, 20))}},
		{"2-faces/60-edges", []func() s2.Shape{poly(lattice.LL(0, 45), 12, 40), line(-10, 20, 1, 3, 21)}},
		{"3-faces/cube-corner/80-edges", []func() s2.Shape{poly(lattice.LL(35.26, 45), 15, 50), line(20, 30, 1, 1, 31)}},
		{"3-faces/separate-shapes", []func() s2.Shape{poly(lattice.LL(0, 0), 6, 20), poly(lattice.LL(0, 90), 6, 20), poly(lattice.LL(80, 10), 6, 20)}},
		{"4-faces/equator-band", []func() s2.Shape{line(5, -170, 0, 7, 49)}},
		{"6-faces", []func() s2.Shape{poly(lattice.LL(0, 0), 4, 12), poly(lattice.LL(0, 90), 4, 12), poly(lattice.LL(0, 180), 4, 12), poly(lattice.LL(0, -90), 4, 12), poly(lattice.LL(88, 0), 4, 12), poly(lattice.LL(-88, 0), 4, 12)}},
		{"points-only/40", []func() s2.Shape{func() s2.Shape {
			var pv s2.PointVector
			for i := 0; i < 40; i++ {
				pv = append(pv, lattice.LL(-60+3*float64(i), -170+8.5*float64(i)))
			}
			return &pv
		}}},
	}
	if !c.Quick() {
		out = append(out,
			c08Index{"5-faces/200-edges", []func() s2.Shape{poly(lattice.LL(10, 10), 80, 100), line(-80, -170, 1.6, 3.4, 100)}},
			c08Index{"1-face/deep/300-edges", []func() s2.Shape{poly(lattice.LL(10, 10), 0.01, 100), poly(lattice.LL(10.001, 10.001), 0.002, 100), line(9.99, 9.99, 0.0002, 0.0002, 100)}},
			c08Index{"2-faces/31-edges(threshold)", []func() s2.Shape{poly(lattice.LL(0, 44), 5, 31)}},
			c08Index{"2-faces/26-edges(threshold)", []func() s2.Shape{poly(lattice.LL(0, 44), 5, 26)}},
		)
	}
	return out
}

type c08Target struct {
	name string
	// mk returns fresh min and max targets
	min func() any
	max func() any
	// point is set for point targets (used for the interiors rule)
	point *s2.Point
}

func c08Targets(c *core.Ctx) []c08Target {
	var ts []c08Target
	addPoint := func(name string, p s2.Point) {
		ts = append(ts, c08Target{"point:" + name, func() any { return s2.NewMinDistanceToPointTarget(p) }, func() any { return s2.NewMaxDistanceToPointTarget(p) }, &p})
	}
	addPoint("inside-polygon(0,0)", lattice.LL(0, 0))
	addPoint("near(2,3)", lattice.LL(2, 3))
	addPoint("cube-corner", lattice.LL(35.26, 45))
	addPoint("far(-40,120)", lattice.LL(-40, 120))
	addPoint("pole", lattice.LL(90, 0))
	addEdge := func(name string, a, b s2.Point) {
		e := s2.Edge{V0: a, V1: b}
		ts = append(ts, c08Target{"edge:" + name, func() any { return s2.NewMinDistanceToEdgeTarget(e) }, func() any { return s2.NewMaxDistanceToEdgeTarget(e) }, nil})
	}
	addEdge("crossing", lattice.LL(-8, -8), lattice.LL(9, 7))
	addEdge("far", lattice.LL(50, 100), lattice.LL(60, 130))
	for _, lv := range core.Pick(c, []int{0, 10}, []int{0, 3, 10, 30}) {
		cell := s2.CellFromCellID(s2.CellFromPoint(lattice.LL(4, 4.5)).ID().Parent(lv))
		ts = append(ts, c08Target{fmt.Sprintf("cell:level-%d", lv), func() any { return s2.NewMinDistanceToCellTarget(cell) }, func() any { return s2.NewMaxDistanceToCellTarget(cell) }, nil})
	}
	// a second (small) index as target: polyline + points (no interiors)
	mkIx := func() *s2.ShapeIndex {
		ix := s2.NewShapeIndex()
		pl := s2.Polyline{lattice.LL(-20, -30), lattice.LL(-5, -6), lattice.LL(7, 12), lattice.LL(30, 60)}
		ix.Add(&pl)
		pv := s2.PointVector{lattice.LL(0, 91), lattice.LL(-70, 10)}
		ix.Add(&pv)
		return ix
	}
	ts = append(ts, c08Target{"index:polyline+points", func() any { return s2.NewMinDistanceToShapeIndexTarget(mkIx()) }, func() any { return s2.NewMaxDistanceToShapeIndexTarget(mkIx()) }, nil})
	return ts
}

type c08Opts struct {
	maxResults int // 0 = unlimited
	limit      s1.ChordAngle
	hasLimit   bool
	maxError   s1.ChordAngle
	interiors  bool
	brute      bool
}

func (o c08Opts) String() string {
	return fmt.Sprintf("MaxResults=%d limit=%v(%v) MaxError=%v interiors=%v brute=%v", o.maxResults, float64(o.limit), o.hasLimit, float64(o.maxError), o.interiors, o.brute)
}

// c08Tol is the documented error of the library's point/edge distance primitive at distance d (squared
// chord units), doubled: the search calls the primitive with a running limit, the scan without one, and
// the two may legitimately round differently within that error.
func c08Tol(d float64) float64 {
	if d > 4 {
		d = 4
	}
	if d < 0 {
		d = 0
	}
	return 2*s2.VerifMinUpdateDistanceMaxError(s1.ChordAngle(d)) + 4*2.220446049250313e-16*d
}

func c08Near(a, b float64) bool {
	m := a
	if b > m {
		m = b
	}
	return math.Abs(a-b) <= c08Tol(m)
}

type c08Res struct {
	dist  float64
	shape int32
	edge  int32
}

func runC08(c *core.Ctx) {
	c.Rule = "every index of a catalogue (1..6 cube faces spanned, 8..300 edges below and above the brute-force thresholds, polygons / polylines / points) x every target (points inside, near, far, at a cube corner and a pole; edges; cells of several levels; a second index) x the option grid MaxResults {1,2,3,unlimited} x DistanceLimit {none, mid, tiny} x MaxError {0, 0.02 rad} x IncludeInteriors x UseBruteForce, for closest and furthest queries and for FindEdges, Distance, IsDistanceLess/Greater and the conservative threshold tests; oracle = a scan over every edge with the target's own per-edge distance; non-trivial = queries answered by the optimized search (path counter hook)"
	c.Assume = []string{
		"per-edge distances are taken from the target's own updateDistanceToEdge (their accuracy is the business of C12/C17); what is checked is which edges the search selects",
		"ties are compared as distances, not as edge ids",
	}
	indexes := c08Indexes(c)
	targets := c08Targets(c)
	var grid []c08Opts
	mid := s1.ChordAngleFromAngle(lattice.Deg(9))
	tiny := s1.ChordAngleFromAngle(lattice.Deg(0.5))
	for _, k := range []int{1, 2, 3, 0} {
		for li, lim := range []s1.ChordAngle{0, mid, tiny} {
			for _, me := range []s1.ChordAngle{0, s1.ChordAngleFromAngle(0.02)} {
				for _, in := range []bool{true, false} {
					grid = append(grid, c08Opts{k, lim, li > 0, me, in, false})
				}
			}
		}
	}
	grid = append(grid, c08Opts{2, 0, false, 0, true, true}, c08Opts{0, mid, true, 0, false, true})
	c.Note("indexes", len(indexes))
	c.Note("targets", len(targets))
	c.Note("option_grid", len(grid))
	opt0, brute0 := s2.VerifEdgeQueryPaths.Optimized, s2.VerifEdgeQueryPaths.BruteForce

	// per-index targets derived from the index's own geometry: vertices, edge midpoints,
	// 1-ulp neighbours of a vertex, antipodes (decisive for furthest-edge queries)
	baseTargets := len(targets)
	perIndex := make([][]int, len(indexes))
	for ii, idx := range indexes {
		var pts []s2.Point
		for _, mk := range idx.shapes {
			s := mk()
			n := s.NumEdges()
			step := n/core.Pick(c, 3, 8) + 1
			for e := 0; e < n; e += step {
				ed := s.Edge(e)
				pts = append(pts, ed.V0, s2.Point{Vector: ed.V0.Mul(-1)})
				if ed.V0 != ed.V1 {
					pts = append(pts, s2.Interpolate(0.5, ed.V0, ed.V1))
				}
			}
			if n > 0 {
				pts = append(pts, lattice.PUlp(s.Edge(0).V1, 1)[5], lattice.PUlp(s.Edge(0).V1, 1)[20])
			}
		}
		pts = lattice.Dedup(pts)
		for k, p := range pts {
			p := p
			targets = append(targets, c08Target{fmt.Sprintf("point:own-geometry-%d-of-index-%d", k, ii), func() any { return s2.NewMinDistanceToPointTarget(p) }, func() any { return s2.NewMaxDistanceToPointTarget(p) }, &p})
			perIndex[ii] = append(perIndex[ii], len(targets)-1)
		}
	}
	c.Note("targets_from_own_geometry", len(targets)-baseTargets)
	type job struct{ ii, ti int }
	var jobs []job
	for ii := range indexes {
		for ti := 0; ti < baseTargets; ti++ {
			jobs = append(jobs, job{ii, ti})
		}
		for _, ti := range perIndex[ii] {
			jobs = append(jobs, job{ii, ti})
		}
	}
	c.ParallelFor(len(jobs), func(j int) {
		if c.Expired() {
			return
		}
		ii, ti := jobs[j].ii, jobs[j].ti
		idx, tg := indexes[ii], targets[ti]
		// build the index once per job
		ix := s2.NewShapeIndex()
		var shapes []s2.Shape
		for _, mk := range idx.shapes {
			s := mk()
			shapes = append(shapes, s)
			ix.Add(s)
		}
		ix.Build()
		for _, furthest := range []bool{false, true} {
			// exhaustive scan with the target's own per-edge distance
			var tgt any
			if furthest {
				tgt = tg.max()
			} else {
				tgt = tg.min()
			}
			var all []c08Res
			for si, s := range shapes {
				for e := 0; e < s.NumEdges(); e++ {
					if dd, ok := s2.VerifTargetDistanceToEdge(tgt, s.Edge(e)); ok {
						all = append(all, c08Res{float64(dd), int32(si), int32(e)})
					}
				}
			}
			// interiors: closest point target inside an indexed polygon is at distance zero
			var interior []c08Res
			if !furthest && tg.point != nil {
				for si, s := range shapes {
					if s.Dimension() == 2 {
						var rl []*refmodel.Loop
						for _, v := range polyLoops(s) {
							rl = append(rl, refmodel.NewLoop(v))
						}
						if refmodel.PolygonContains(rl, *tg.point) {
							interior = append(interior, c08Res{0, int32(si), -1})
						}
					}
				}
			}
			better := func(a, b float64) bool {
				if furthest {
					return a > b
				}
				return a < b
			}
			for gi, o := range grid {
				if c.Skip("find-edges", ii, ti, b2i(furthest), gi) {
					continue
				}
				if (furthest || tg.point == nil) && o.interiors {
					// the interiors rule is exercised for closest point targets only
					o.interiors = false
				}
				cas := []int{ii, ti, b2i(furthest), gi}
				detail := func() any {
					return map[string]any{"index": idx.name, "target": tg.name, "furthest": furthest, "options": o.String()}
				}
				c.Guard("find-edges", cas, detail, func() {
					c.Eval(1)
					var opts *s2.EdgeQueryOptions
					if furthest {
						opts = s2.NewFurthestEdgeQueryOptions()
					} else {
						opts = s2.NewClosestEdgeQueryOptions()
					}
					if o.maxResults > 0 {
						opts.MaxResults(o.maxResults)
					}
					if o.hasLimit {
						opts.DistanceLimit(o.limit)
					}
					opts.MaxError(o.maxError).IncludeInteriors(o.interiors).UseBruteForce(o.brute)
					var q *s2.EdgeQuery
					var t any
					if furthest {
						q = s2.NewFurthestEdgeQuery(ix, opts)
						t = tg.max()
					} else {
						q = s2.NewClosestEdgeQuery(ix, opts)
						t = tg.min()
					}
					got := c08Find(q, t)
					// expected candidate list: all edges within the limit (strict), plus interiors, best first
					var cand []c08Res
					if o.interiors {
						cand = append(cand, interior...)
					}
					for _, r := range all {
						if o.hasLimit && !better(r.dist, float64(o.limit)) {
							continue
						}
						cand = append(cand, r)
					}
					sort.SliceStable(cand, func(a, b int) bool { return better(cand[a].dist, cand[b].dist) })
					k := o.maxResults
					if k == 0 || k > len(cand) {
						k = len(cand)
					}
					// MaxError permits every reported distance to be up to MaxError worse than the
					// corresponding optimum (for any target: with MaxResults == 1 the running limit is
					// tightened by MaxError after the first hit)
					usesMaxError := o.maxError > 0
					bad := func(msg string) {
						c.Violate("find-edges", "wrong-answer", msg, cas, map[string]any{"index": idx.name, "target": tg.name, "furthest": furthest, "options": o.String(), "got": fmt.Sprint(got), "best_expected": fmt.Sprint(cand[:minI(k, 6)]), "candidates": len(cand)})
					}
					// structural: sorted, duplicate-free, within the result limit
					seen := map[[2]int32]bool{}
					for i, r := range got {
						if i > 0 && better(r.dist, got[i-1].dist) {
							bad("results are not sorted by distance")
						}
						key := [2]int32{r.shape, r.edge}
						if seen[key] {
							bad("results contain the same edge twice")
						}
						seen[key] = true
					}
					if o.maxResults > 0 && len(got) > o.maxResults {
						bad("more results than MaxResults")
					}
					// every reported result is a real candidate with its real distance
					index := map[[2]int32]float64{}
					for _, r := range cand {
						index[[2]int32{r.shape, r.edge}] = r.dist
					}
					for _, r := range got {
						d, ok := index[[2]int32{r.shape, r.edge}]
						if !ok {
							bad("a reported (shape, edge) is not within the distance limit according to the scan (or does not exist)")
						} else if tg.name == "index:polyline+points" && o.maxError > 0 {
							// a target that takes advantage of MaxError may report a distance up to MaxError
							// beyond the true per-edge distance (documented in distanceTarget.setMaxError)
							lo, hi := d, float64(s1.ChordAngle(d).Add(o.maxError))
							if furthest {
								lo, hi = float64(s1.ChordAngle(d).Sub(o.maxError)), d
							}
							if (r.dist < lo && !c08Near(r.dist, lo)) || (r.dist > hi && !c08Near(r.dist, hi)) {
								c.Violate("find-edges", "wrong-answer", "a reported distance is not within MaxError of the distance of that edge (target using MaxError)", cas, map[string]any{"index": idx.name, "target": tg.name, "furthest": furthest, "options": o.String(), "shape": r.shape, "edge": r.edge, "reported": r.dist, "scan": d})
							}
						} else if !c08Near(d, r.dist) {
							c.Violate("find-edges", "wrong-answer", "a reported distance differs from the distance of that edge by more than the documented error of the distance primitive", cas, map[string]any{"index": idx.name, "target": tg.name, "furthest": furthest, "options": o.String(), "shape": r.shape, "edge": r.edge, "reported": r.dist, "scan": d})
						}
					}
					if !usesMaxError {
						if len(got) != k {
							bad("the number of results differs from the number of edges of the exhaustive scan that satisfy the options")
						} else {
							for i := range got {
								if !c08Near(got[i].dist, cand[i].dist) {
									bad("the i-th reported distance differs from the i-th best distance of the exhaustive scan by more than the documented error of the distance primitive")
									break
								}
							}
						}
					} else {
						if len(got) > k || (k > 0 && len(got) == 0) {
							bad("with MaxError the search returned no results (or too many) although edges satisfy the options")
						}
						for i := range got {
							// MaxError is an angle: add / subtract as chord angles
							lim := float64(s1.ChordAngle(cand[i].dist).Add(o.maxError))
							if furthest {
								lim = float64(s1.ChordAngle(cand[i].dist).Sub(o.maxError))
							}
							if better(lim, got[i].dist) && !c08Near(lim, got[i].dist) {
								bad("with MaxError a reported distance is further than MaxError from the i-th optimum")
								break
							}
						}
					}
				})
			}
			// threshold methods and Distance on fresh queries
			if c.Skip("thresholds", ii, ti, b2i(furthest)) {
				continue
			}
			c.Guard("thresholds", []int{ii, ti, b2i(furthest)}, nil, func() {
				var bestAll []c08Res
				bestAll = append(bestAll, all...)
				if !furthest {
					bestAll = append(bestAll, interior...)
				}
				if len(bestAll) == 0 {
					return
				}
				best := bestAll[0].dist
				for _, r := range bestAll {
					if better(r.dist, best) {
						best = r.dist
					}
				}
				// interiors are part of the oracle only for closest point targets
				withInteriors := !furthest && tg.point != nil
				mkq := func() (*s2.EdgeQuery, any) {
					if furthest {
						return s2.NewFurthestEdgeQuery(ix, s2.NewFurthestEdgeQueryOptions().IncludeInteriors(withInteriors)), tg.max()
					}
					return s2.NewClosestEdgeQuery(ix, s2.NewClosestEdgeQueryOptions().IncludeInteriors(withInteriors)), tg.min()
				}
				q, t := mkq()
				c.Eval(1)
				if got := float64(c08Distance(q, t)); !c08Near(got, best) {
					c.Violate("thresholds", "wrong-answer", "Distance differs from the optimum of the exhaustive scan", []int{ii, ti, b2i(furthest)}, map[string]any{"index": idx.name, "target": tg.name, "furthest": furthest, "got": got, "want": best})
				}
				for _, lim := range []float64{best, math.Nextafter(best, 5), math.Nextafter(best, -1), best * 0.5, best*1.5 + 1e-9, 0, 4} {
					if lim < 0 || lim > 4 {
						continue
					}
					c.Eval(1)
					q, t := mkq()
					if furthest {
						got := c08Greater(q, t, s1.ChordAngle(lim))
						if want := best > lim; got != want && !c08Near(best, lim) {
							c.Violate("thresholds", "wrong-answer", "IsDistanceGreater differs from comparing the scan's optimum with the limit", []int{ii, ti, 1}, map[string]any{"index": idx.name, "target": tg.name, "limit": lim, "optimum": best, "got": got})
						}
					} else {
						got := c08Less(q, t, s1.ChordAngle(lim))
						if want := best < lim; got != want && !c08Near(best, lim) {
							c.Violate("thresholds", "wrong-answer", "IsDistanceLess differs from comparing the scan's optimum with the limit", []int{ii, ti, 0}, map[string]any{"index": idx.name, "target": tg.name, "limit": lim, "optimum": best, "got": got})
						}
						q2, t2 := mkq()
						if best <= lim && !c08ConsLE(q2, t2, s1.ChordAngle(lim)) {
							c.Violate("thresholds", "wrong-answer", "IsConservativeDistanceLessOrEqual is false although the optimum is within the limit", []int{ii, ti, 0}, map[string]any{"index": idx.name, "target": tg.name, "limit": lim, "optimum": best})
						}
					}
				}
			})
		}
		if j%11 == 0 {
			c.Sample(map[string]any{"index": idx.name, "target": tg.name, "options_example": grid[j%len(grid)].String()})
		}
	})
	if c.Expired() {
		c.CapHit("index x target sweep: wall budget reached")
	}
	opt := s2.VerifEdgeQueryPaths.Optimized - opt0
	brute := s2.VerifEdgeQueryPaths.BruteForce - brute0
	c.Count("queries_answered_by_optimized_search", opt)
	c.Count("queries_answered_by_brute_force", brute)
	c.Nontrivial(int(opt))
	if opt == 0 {
		panic(core.HarnessError("vacuous: no query was answered by the optimized search"))
	}
}

func b2i(b bool) int {
	if b {
		return 1
	}
	return 0
}

func minI(a, b int) int {
	if a < b {
		return a
	}
	return b
}

// The distance target types are unexported interfaces; dispatch on the concrete constructors' types.
func c08Find(q *s2.EdgeQuery, t any) []c08Res {
	var rs []s2.EdgeQueryResult
	switch x := t.(type) {
	case *s2.MinDistanceToPointTarget:
		rs = q.FindEdges(x)
	case *s2.MaxDistanceToPointTarget:
		rs = q.FindEdges(x)
	case *s2.MinDistanceToEdgeTarget:
		rs = q.FindEdges(x)
	case *s2.MaxDistanceToEdgeTarget:
		rs = q.FindEdges(x)
	case *s2.MinDistanceToCellTarget:
		rs = q.FindEdges(x)
	case *s2.MaxDistanceToCellTarget:
		rs = q.FindEdges(x)
	case *s2.MinDistanceToShapeIndexTarget:
		rs = q.FindEdges(x)
	case *s2.MaxDistanceToShapeIndexTarget:
		rs = q.FindEdges(x)
	default:
		panic(core.HarnessError(fmt.Sprintf("unknown target type %T", t)))
	}
	var out []c08Res
	for _, r := range rs {
		out = append(out, c08Res{float64(r.Distance()), r.ShapeID(), r.EdgeID()})
	}
	return out
}

func c08Distance(q *s2.EdgeQuery, t any) s1.ChordAngle {
	switch x := t.(type) {
	case *s2.MinDistanceToPointTarget:
		return q.Distance(x)
	case *s2.MaxDistanceToPointTarget:
		return q.Distance(x)
	case *s2.MinDistanceToEdgeTarget:
		return q.Distance(x)
	case *s2.MaxDistanceToEdgeTarget:
		return q.Distance(x)
	case *s2.MinDistanceToCellTarget:
		return q.Distance(x)
	case *s2.MaxDistanceToCellTarget:
		return q.Distance(x)
	case *s2.MinDistanceToShapeIndexTarget:
		return q.Distance(x)
	case *s2.MaxDistanceToShapeIndexTarget:
		return q.Distance(x)
	}
	panic(core.HarnessError("unknown target type"))
}

func c08Less(q *s2.EdgeQuery, t any, lim s1.ChordAngle) bool {
	switch x := t.(type) {
	case *s2.MinDistanceToPointTarget:
		return q.IsDistanceLess(x, lim)
	case *s2.MinDistanceToEdgeTarget:
		return q.IsDistanceLess(x, lim)
	case *s2.MinDistanceToCellTarget:
		return q.IsDistanceLess(x, lim)
	case *s2.MinDistanceToShapeIndexTarget:
		return q.IsDistanceLess(x, lim)
	}
	panic(core.HarnessError("unknown target type"))
}

func c08ConsLE(q *s2.EdgeQuery, t any, lim s1.ChordAngle) bool {
	switch x := t.(type) {
	case *s2.MinDistanceToPointTarget:
		return q.IsConservativeDistanceLessOrEqual(x, lim)
	case *s2.MinDistanceToEdgeTarget:
		return q.IsConservativeDistanceLessOrEqual(x, lim)
	case *s2.MinDistanceToCellTarget:
		return q.IsConservativeDistanceLessOrEqual(x, lim)
	case *s2.MinDistanceToShapeIndexTarget:
		return q.IsConservativeDistanceLessOrEqual(x, lim)
	}
	panic(core.HarnessError("unknown target type"))
}

func c08Greater(q *s2.EdgeQuery, t any, lim s1.ChordAngle) bool {
	switch x := t.(type) {
	case *s2.MaxDistanceToPointTarget:
		return q.IsDistanceGreater(x, lim)
	case *s2.MaxDistanceToEdgeTarget:
		return q.IsDistanceGreater(x, lim)
	case *s2.MaxDistanceToCellTarget:
		return q.IsDistanceGreater(x, lim)
	case *s2.MaxDistanceToShapeIndexTarget:
		return q.IsDistanceGreater(x, lim)
	}
	panic(core.HarnessError("unknown target type"))
}
