package checks

import (
	"fmt"
	"math"

	"github.com/golang/geo/s1"
	"github.com/golang/geo/s2"

	"verif/mc/core"
	"verif/mc/lattice"
)

// c05CapGrid: caps on a grid of centres x a radius alphabet that is dense around the hemisphere (where
// Cap.intersects switches strategy) against the coarse cells (levels 0-2): the configuration in which a
// large cap contains none of a cell's vertices, the cell does not contain the cap's centre, and the
// cap's boundary bulges across the middle of an edge.  Membership is the cap's own definition
// (angle to the centre <= radius) evaluated on probes that are at least 1e-9 rad away from the cap's
// boundary; cell membership is "strictly inside the cell by construction" (probes are interior points
// of the cell's edges' neighbourhoods taken from descendant cell centres).
func c05CapGrid(c *core.Ctx) {
	const sub = "cap-grid"
	var centres []s2.Point
	step := core.Pick(c, 10.0, 5.0)
	for lat := -90.0; lat <= 90; lat += step {
		for lng := -180.0; lng < 180; lng += step {
			centres = append(centres, lattice.LL(lat, lng))
			if lat == -90 || lat == 90 {
				break
			}
		}
	}
	for _, p := range lattice.Centres() {
		centres = append(centres, p)
	}
	radiiDeg := []float64{1, 20, 45, 60, 70, 73, 76, 79.5, 83, 86, 89, 89.99, 90, 90.01, 91, 94, 97, 100.5, 104, 107, 110, 120, 150, 179}
	var cells []s2.Cell
	var probes [][]s2.Point // strictly interior points of each cell: centres of its descendants 3 and 5 levels down along the boundary ring
	for f := 0; f < 6; f++ {
		root := s2.CellIDFromFace(f)
		for lv := 0; lv <= core.Pick(c, 1, 2); lv++ {
			for id := root.ChildBeginAtLevel(lv); id != root.ChildEndAtLevel(lv); id = id.Next() {
				cells = append(cells, s2.CellFromCellID(id))
				var ps []s2.Point
				d := lv + 5
				for ch := id.ChildBeginAtLevel(d); ch != id.ChildEndAtLevel(d); ch = ch.Next() {
					ps = append(ps, ch.Point())
				}
				probes = append(probes, ps)
			}
		}
	}
	c.Count(sub+"/caps", int64(len(centres)*len(radiiDeg)))
	c.Count(sub+"/cells", int64(len(cells)))
	c.ParallelFor(len(centres), func(ci int) {
		ctr := centres[ci]
		var evals, nontriv int64
		for ri, rd := range radiiDeg {
			cp := s2.CapFromCenterAngle(ctr, s1.Angle(rd)*s1.Degree)
			theta := rd * math.Pi / 180
			for ki, cell := range cells {
				if c.Skip(sub, ci, ri, ki) {
					continue
				}
				evals++
				cas := []int{ci, ri, ki}
				detail := func() any {
					return map[string]any{"centre": ptStr(ctr), "radius_deg": rd, "cell": cell.ID().String()}
				}
				c.Guard(sub, cas, detail, func() {
					contains, intersects := cp.ContainsCell(cell), cp.IntersectsCell(cell)
					if !contains && intersects {
						return // the two one-sided claims say nothing here
					}
					nontriv++
					for _, p := range probes[ki] {
						a := float64(ctr.Angle(p.Vector))
						if contains && a > theta+1e-9 {
							c.Violate(sub, "wrong-answer", "Cap.ContainsCell is true for a cell with an interior point outside the cap", cas, map[string]any{"centre": ptStr(ctr), "radius_deg": rd, "cell": cell.ID().String(), "p": ptStr(p)})
							return
						}
						if !intersects && a < theta-1e-9 {
							c.Violate(sub, "wrong-answer", "Cap.IntersectsCell is false for a cell with an interior point inside the cap", cas, map[string]any{"centre": ptStr(ctr), "radius_deg": rd, "cell": cell.ID().String(), "p": ptStr(p)})
							return
						}
					}
				})
			}
			// and the coverings of the same cap at coarse levels
			for _, ml := range []int{0, 1, 3} {
				if c.Skip(sub+"-covering", ci, ri, ml) {
					continue
				}
				evals++
				rc := &s2.RegionCoverer{MaxLevel: ml, MaxCells: 500}
				cas := []int{ci, ri, ml}
				c.Guard(sub+"-covering", cas, nil, func() {
					cov := rc.Covering(cp)
					inter := rc.InteriorCovering(cp)
					for ki, cell := range cells {
						if cell.Level() != 1 && cell.Level() != 0 {
							continue
						}
						for _, p := range probes[ki] {
							a := float64(ctr.Angle(p.Vector))
							if a < theta-1e-9 && !cov.ContainsPoint(p) {
								c.Violate(sub+"-covering", "wrong-answer", "Covering of a cap misses a point of the cap (coarse levels)", cas, map[string]any{"centre": ptStr(ctr), "radius_deg": rd, "max_level": ml, "p": ptStr(p)})
								return
							}
							if a > theta+1e-9 && inter.ContainsPoint(p) {
								c.Violate(sub+"-covering", "wrong-answer", "InteriorCovering of a cap contains a point outside the cap (coarse levels)", cas, map[string]any{"centre": ptStr(ctr), "radius_deg": rd, "max_level": ml, "p": ptStr(p)})
								return
							}
						}
					}
				})
			}
		}
		c.Eval(int(evals))
		c.Nontrivial(int(nontriv))
	})
	_ = fmt.Sprint
}
