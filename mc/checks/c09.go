package checks

import (
	"bytes"
	"fmt"
	"io"
	"math"
	"reflect"
	"sync/atomic"
	"time"

	"github.com/golang/geo/r3"
	"github.com/golang/geo/s2"

	"verif/mc/core"
	"verif/mc/lattice"
)

// C09 — encoding is lossless.
//
// Engine E3 (bounded-exhaustive inputs).  The oracle is the identity: the value
// decoded from an encoding must have bit-identical state (every float64 compared
// with math.Float64bits, every integer and flag compared exactly, vertex and loop
// order preserved), must answer a query panel identically, and re-encoding it must
// give the same bytes; encoding one value twice must give the same bytes.  The
// oracle never looks at the byte format, so it is independent of the coders it
// judges.  golang/geo is used on the input side only (to name the cells whose
// centres become vertices); what the encoder then believes about each vertex is
// measured through the exported hook s2.VerifXYZToFaceSiTi and reported as
// counters, never asserted.

func init() {
	Registry["C09"] = &Check{Level: "exploration", QuickBudget: 90, ThoroughBudget: 720, Run: runC09}
}

// ---------------------------------------------------------------------------
// bit-exact state comparison (reflect reads unexported fields; it never calls
// golang/geo code)

// c09StateDiff returns "" when a and b hold bit-identical state, else the path of
// the first difference.  Pointers are followed except *ShapeIndex (derived,
// lazily built state: only nil-ness is compared).  A nil slice equals an empty one.
// Fields named in skip are ignored at any depth.
func c09StateDiff(a, b reflect.Value, path string, skip map[string]bool) string {
	if a.Kind() != b.Kind() {
		return path + ": kind"
	}
	switch a.Kind() {
	case reflect.Float64, reflect.Float32:
		if math.Float64bits(a.Float()) != math.Float64bits(b.Float()) {
			return fmt.Sprintf("%s: float bits differ", path)
		}
	case reflect.Int, reflect.Int8, reflect.Int16, reflect.Int32, reflect.Int64:
		if a.Int() != b.Int() {
			return path + ": int differs"
		}
	case reflect.Uint, reflect.Uint8, reflect.Uint16, reflect.Uint32, reflect.Uint64:
		if a.Uint() != b.Uint() {
			return path + ": uint differs"
		}
	case reflect.Bool:
		if a.Bool() != b.Bool() {
			return path + ": bool differs"
		}
	case reflect.Slice, reflect.Array:
		if a.Len() != b.Len() {
			return path + ": length differs"
		}
		for i := 0; i < a.Len(); i++ {
			if d := c09StateDiff(a.Index(i), b.Index(i), path+"[]", skip); d != "" {
				return d
			}
		}
	case reflect.Struct:
		known := c09KnownFields[a.Type().String()]
		for i := 0; i < a.NumField(); i++ {
			name := a.Type().Field(i).Name
			if skip[name] {
				continue
			}
			if known != nil && !known[name] {
				// a field that does not exist on the pinned tree: whether it is part of the value or a
				// derived cache cannot be known here, so it is left to the behavioural comparisons
				// (query panel, re-encoding, encode-after-mutation histories) and only counted
				c09UnknownFields.Add(1)
				continue
			}
			if d := c09StateDiff(a.Field(i), b.Field(i), path+"."+name, skip); d != "" {
				return d
			}
		}
	case reflect.Ptr:
		if a.IsNil() != b.IsNil() {
			return path + ": nil-ness differs"
		}
		if a.IsNil() || a.Type().Elem().Name() == "ShapeIndex" {
			return ""
		}
		return c09StateDiff(a.Elem(), b.Elem(), path, skip)
	default:
		// maps, channels, funcs, interfaces: none in the encodable state.
	}
	return ""
}

// c09KnownFields lists, per type, the fields that make up the encodable value on the pinned tree.
var c09KnownFields = map[string]map[string]bool{
	"s2.Loop":     {"vertices": true, "originInside": true, "depth": true, "bound": true, "subregionBound": true, "index": true},
	"s2.Polygon":  {"loops": true, "index": true, "hasHoles": true, "numVertices": true, "numEdges": true, "bound": true, "subregionBound": true, "cumulativeEdges": true},
	"s2.Cap":      {"center": true, "radius": true},
	"s2.Rect":     {"Lat": true, "Lng": true},
	"s2.Cell":     {"face": true, "level": true, "orientation": true, "id": true, "uv": true},
	"s2.Point":    {"Vector": true},
	"r3.Vector":   {"X": true, "Y": true, "Z": true},
	"r1.Interval": {"Lo": true, "Hi": true},
	"s1.Interval": {"Lo": true, "Hi": true},
	"s2.LatLng":   {"Lat": true, "Lng": true},
}

var c09UnknownFields atomic.Int64

func c09Diff(a, b any, skip ...string) string {
	m := map[string]bool{}
	for _, s := range skip {
		m[s] = true
	}
	return c09StateDiff(reflect.ValueOf(a), reflect.ValueOf(b), "", m)
}

// c09ZeroSignOnly reports whether two equally long point lists differ only in the
// sign of zero coordinates (and do differ).
func c09ZeroSignOnly(a, b []s2.Point) bool {
	if len(a) != len(b) {
		return false
	}
	diff := false
	for i := range a {
		av, bv := [3]float64{a[i].X, a[i].Y, a[i].Z}, [3]float64{b[i].X, b[i].Y, b[i].Z}
		for k := 0; k < 3; k++ {
			if math.Float64bits(av[k]) != math.Float64bits(bv[k]) {
				if av[k] == 0 && bv[k] == 0 {
					diff = true
				} else {
					return false
				}
			}
		}
	}
	return diff
}

func c09Enc(f func(io.Writer) error) ([]byte, error) {
	var buf bytes.Buffer
	err := f(&buf)
	return buf.Bytes(), err
}

// ---------------------------------------------------------------------------
// independent cell-centre construction

func c09StToUV(s float64) float64 {
	if s >= 0.5 {
		return (1 / 3.) * (4*s*s - 1)
	}
	return (1 / 3.) * (1 - 4*(1-s)*(1-s))
}

func c09FaceUV(face int, u, v float64) r3.Vector {
	switch face {
	case 0:
		return r3.Vector{X: 1, Y: u, Z: v}
	case 1:
		return r3.Vector{X: -u, Y: 1, Z: v}
	case 2:
		return r3.Vector{X: -u, Y: -v, Z: 1}
	case 3:
		return r3.Vector{X: -1, Y: -v, Z: -u}
	case 4:
		return r3.Vector{X: v, Y: -1, Z: -u}
	}
	return r3.Vector{X: v, Y: u, Z: -1}
}

// c09Cell names the level-L cell that contains the point of face f with cell
// coordinates (i,j); i and j may lie one cell outside [0,2^L) in which case the
// cell is on a neighbouring face (found by extending the face's st→uv map
// and asking golang/geo which cell contains that point: input generation only).
func c09Cell(f, L int, i, j int64) s2.CellID {
	n := float64(int64(1) << uint(L))
	s := (float64(i) + 0.5) / n
	t := (float64(j) + 0.5) / n
	p := s2.Point{Vector: c09FaceUV(f, c09StToUV(s), c09StToUV(t)).Normalize()}
	return s2.VerifCellIDFromPoint(p).Parent(L)
}

// c09Vertex is the 3-D position of the level-L cell vertex (vi,vj) of face f.
func c09Vertex(f, L int, vi, vj int64) s2.Point {
	n := float64(int64(1) << uint(L))
	return s2.Point{Vector: c09FaceUV(f, c09StToUV(float64(vi)/n), c09StToUV(float64(vj)/n)).Normalize()}
}

// c09Around returns, in counter-clockwise order, the level-L cells that meet at
// vertex (vi,vj) of face f (four, or three at a cube corner).
func c09Around(f, L int, vi, vj int64) []s2.CellID {
	n := int64(1) << uint(L)
	var out []s2.CellID
	for _, d := range [4][2]int64{{-1, -1}, {0, -1}, {0, 0}, {-1, 0}} {
		i, j := vi+d[0], vj+d[1]
		if (i < 0 || i >= n) && (j < 0 || j >= n) {
			continue // diagonal across a cube corner: no such cell
		}
		id := c09Cell(f, L, i, j)
		dup := false
		for _, o := range out {
			dup = dup || o == id
		}
		if !dup {
			out = append(out, id)
		}
	}
	return out
}

func c09Nudge(p s2.Point, kind int) s2.Point {
	switch kind % 3 {
	case 0:
		p.X = lattice.Ulp(p.X, 1)
	case 1:
		p.Z = lattice.Ulp(p.Z, -1)
	default:
		p.Y = lattice.Ulp(p.Y, 2)
	}
	return p
}

// c09VertexFor returns the vertex that replacement kind k puts in place of the
// centre of cell id: 0 centre@L, 1 centre@L+1 (child nearest to pivot), 2
// centre@L-1, 3 off-centre (1-ulp nudge).  ok=false when the kind does not exist
// at this level.
func c09VertexFor(id s2.CellID, k int, pivot s2.Point, nudge int) (s2.Point, bool) {
	switch k {
	case 0:
		return id.Point(), true
	case 1:
		if id.Level() == s2.MaxLevel {
			return s2.Point{}, false
		}
		best, bd := s2.Point{}, math.Inf(1)
		for _, ch := range id.Children() {
			q := ch.Point()
			if d := q.Sub(pivot.Vector).Norm2(); d < bd {
				best, bd = q, d
			}
		}
		return best, true
	case 2:
		if id.Level() == 0 {
			return s2.Point{}, false
		}
		return id.Parent(id.Level() - 1).Point(), true
	}
	return c09Nudge(id.Point(), nudge), true
}

// ---------------------------------------------------------------------------
// polygon / loop round trips

type c09Stats struct {
	compressed, lossless int64
	offCentre            int64
	levels               [32]int64 // snap level chosen by the compressed format (index level, 31 = n/a)
	vertLevels           [32]int64 // encoder's view of each vertex: level+1 (0 = not a centre)
	boundEncoded         int64
	panels               int64
	invalid              int64
	buildPanics          int64
	subBoundDiff         int64
	histories            int64
	distinct             *c09Distinct
}

func (s *c09Stats) flush(c *core.Ctx, sub string) {
	c.Count(sub+"/format_compressed", s.compressed)
	c.Count(sub+"/format_lossless", s.lossless)
	c.Count(sub+"/offcentre_entries", s.offCentre)
	c.Count(sub+"/loops_with_encoded_bound", s.boundEncoded)
	c.Count(sub+"/query_panels_run", s.panels)
	c.Count(sub+"/encode_invert_encode_histories", s.histories)
	c.Count(sub+"/inputs_not_valid_polygons(state+bytes compared only)", s.invalid)
	c.Count(sub+"/inputs_whose_construction_panicked(skipped)", s.buildPanics)
	nl, nv := int64(0), int64(0)
	for i := 0; i < 31; i++ {
		if s.levels[i] > 0 {
			nl++
		}
		if s.vertLevels[i+1] > 0 {
			nv++
		}
	}
	c.Count(sub+"/distinct_snap_levels_chosen", nl)
	c.Count(sub+"/distinct_vertex_centre_levels_seen", nv)
	c.Count(sub+"/vertices_not_cell_centres", s.vertLevels[0])
}

func (s *c09Stats) add(o *c09Stats) {
	s.compressed += o.compressed
	s.lossless += o.lossless
	s.offCentre += o.offCentre
	s.boundEncoded += o.boundEncoded
	s.panels += o.panels
	s.invalid += o.invalid
	s.buildPanics += o.buildPanics
	s.subBoundDiff += o.subBoundDiff
	s.histories += o.histories
	for i := range s.levels {
		s.levels[i] += o.levels[i]
		s.vertLevels[i] += o.vertLevels[i]
	}
}

func c09Pts(ps []s2.Point) [][3]float64 {
	out := make([][3]float64, len(ps))
	for i, p := range ps {
		out[i] = [3]float64{p.X, p.Y, p.Z}
	}
	return out
}

func c09PolyDetail(loops [][]s2.Point, extra map[string]any) map[string]any {
	d := map[string]any{}
	var ls [][][3]float64
	var hex [][]string
	for _, l := range loops {
		ls = append(ls, c09Pts(l))
		var h []string
		for _, p := range l {
			h = append(h, fmt.Sprintf("%016x %016x %016x", math.Float64bits(p.X), math.Float64bits(p.Y), math.Float64bits(p.Z)))
		}
		hex = append(hex, h)
	}
	d["loops"] = ls
	d["loops_float64bits"] = hex
	for k, v := range extra {
		d[k] = v
	}
	return d
}

// c09Panel is the observable behaviour of a polygon on a fixed probe set.
func c09Panel(p *s2.Polygon, probes []s2.Point, cells []s2.Cell) string {
	var b bytes.Buffer
	fmt.Fprintf(&b, "n=%d e=%d v=%d empty=%v full=%v ", p.NumLoops(), p.NumEdges(), p.NumChains(), p.IsEmpty(), p.IsFull())
	rb := p.RectBound()
	cb := p.CapBound()
	fmt.Fprintf(&b, "rb=%x,%x,%x,%x cb=%x,%x,%x,%x ", math.Float64bits(rb.Lat.Lo), math.Float64bits(rb.Lat.Hi), math.Float64bits(rb.Lng.Lo), math.Float64bits(rb.Lng.Hi),
		math.Float64bits(cb.Center().X), math.Float64bits(cb.Center().Y), math.Float64bits(cb.Center().Z), math.Float64bits(float64(cb.Radius())))
	for _, q := range probes {
		if p.ContainsPoint(q) {
			b.WriteByte('1')
		} else {
			b.WriteByte('0')
		}
	}
	for _, cl := range cells {
		fmt.Fprintf(&b, " %v%v", p.ContainsCell(cl), p.IntersectsCell(cl))
	}
	for e := 0; e < p.NumEdges(); e++ {
		ed := p.Edge(e)
		cp := p.ChainPosition(e)
		fmt.Fprintf(&b, " %x:%x:%d.%d", math.Float64bits(ed.V0.X)^math.Float64bits(ed.V0.Z), math.Float64bits(ed.V1.Y), cp.ChainID, cp.Offset)
	}
	for k := 0; k < p.NumLoops(); k++ {
		par, ok := p.Parent(k)
		l := p.Loop(k)
		fmt.Fprintf(&b, " L%d:%d%v%d h%v o%v s%d a%x t%x", k, par, ok, p.LastDescendant(k), l.IsHole(), l.ContainsOrigin(), l.Sign(), math.Float64bits(l.Area()), math.Float64bits(l.TurningAngle()))
	}
	fmt.Fprintf(&b, " A%x", math.Float64bits(p.Area()))
	return b.String()
}

// c09CheckPolygon round-trips one polygon given by its loops' vertex lists.  mode
// selects the constructor: 0 PolygonFromLoops, 1 the same followed by Invert.
func c09CheckPolygon(c *core.Ctx, sub string, idx []int, loops [][]s2.Point, mode int, probes []s2.Point, cells []s2.Cell, st *c09Stats, extra map[string]any) {
	detail := func() any { return c09PolyDetail(loops, extra) }
	var p *s2.Polygon
	built := func() (ok bool) {
		defer func() {
			if r := recover(); r != nil {
				ok = false
			}
		}()
		ls := make([]*s2.Loop, len(loops))
		for i, v := range loops {
			ls[i] = s2.LoopFromPoints(append([]s2.Point(nil), v...))
		}
		p = s2.PolygonFromLoops(ls)
		if mode == 1 {
			p.Invert()
		}
		return true
	}()
	if !built {
		st.buildPanics++
		return
	}
	c09RoundTripPolygon(c, sub, idx, p, probes, cells, st, detail)
}

func c09RoundTripPolygon(c *core.Ctx, sub string, idx []int, p *s2.Polygon, probes []s2.Point, cells []s2.Cell, st *c09Stats, detail func() any) {
	c.Guard(sub, idx, detail, func() {
		// the encoder's own view of the vertices, for the counters only
		for _, l := range p.Loops() {
			for _, v := range l.Vertices() {
				_, _, _, lv := s2.VerifXYZToFaceSiTi(v)
				st.vertLevels[lv+1]++
			}
		}
		b1, err := c09Enc(p.Encode)
		if err != nil {
			c.Violate(sub, "wrong-answer", "Polygon.Encode returns an error for an encodable polygon", idx, detail())
			return
		}
		st.distinct.add(b1)
		compressed := false
		switch {
		case len(b1) > 0 && b1[0] == 4:
			compressed = true
			st.compressed++
			if len(b1) > 1 && b1[1] <= 30 {
				st.levels[b1[1]]++
				for _, l := range p.Loops() {
					for _, v := range l.Vertices() {
						if _, _, _, lv := s2.VerifXYZToFaceSiTi(v); lv != int(b1[1]) {
							st.offCentre++
						}
					}
				}
			}
		case len(b1) > 0 && b1[0] == 1:
			st.lossless++
		}
		for _, l := range p.Loops() {
			if compressed && l.NumVertices() >= 64 {
				st.boundEncoded++
			}
		}
		valid := p.Validate() == nil
		var panelBefore string
		if valid {
			panelBefore = c09Panel(p, probes, cells)
			st.panels++
		} else {
			st.invalid++
		}
		// encoding is a pure function of the value (also after the index was used)
		b2, _ := c09Enc(p.Encode)
		if !bytes.Equal(b1, b2) {
			c.Violate(sub, "wrong-answer", "Polygon.Encode of one value gives different bytes the second time", idx, detail())
			return
		}
		q := new(s2.Polygon)
		if err := q.Decode(bytes.NewReader(b1)); err != nil {
			c.Violate(sub, "wrong-answer", fmt.Sprintf("Polygon.Decode rejects Polygon.Encode's own output (compressed=%v)", compressed), idx, detail())
			return
		}
		fmtName := "lossless"
		if compressed {
			fmtName = "compressed"
		}
		// vertices first: the most specific descriptor
		if q.NumLoops() != p.NumLoops() {
			c.Violate(sub, "wrong-answer", "Polygon decode("+fmtName+"): number of loops differs", idx, detail())
			return
		}
		for k := 0; k < p.NumLoops(); k++ {
			a, b := p.Loop(k).Vertices(), q.Loop(k).Vertices()
			if d := c09Diff(a, b); d != "" {
				if c09ZeroSignOnly(a, b) {
					c.Violate(sub, "wrong-answer", "Polygon decode("+fmtName+"): a vertex comes back with the sign of a zero coordinate changed (cell-centre test uses ==, which equates -0 and +0)", idx, detail())
				} else {
					c.Violate(sub, "wrong-answer", "Polygon decode("+fmtName+"): vertex coordinates not bit-identical", idx, detail())
				}
				return
			}
		}
		if d := c09Diff(p, q); d != "" {
			c.Violate(sub, "wrong-answer", "Polygon decode("+fmtName+"): state differs at "+d, idx, detail())
			return
		}
		if valid {
			if pa := c09Panel(q, probes, cells); pa != panelBefore {
				c.Violate(sub, "wrong-answer", "Polygon decode("+fmtName+"): decoded polygon answers the query panel differently", idx, detail())
				return
			}
			for k := 0; k < p.NumLoops(); k++ {
				if l := p.Loop(k); l.NumVertices() >= 3 && (l.Contains(l) != q.Loop(k).Contains(l) || l.Intersects(l) != l.Intersects(q.Loop(k))) {
					c.Violate(sub, "wrong-answer", "Polygon decode("+fmtName+"): a decoded loop's Contains/Intersects against the original loop differ", idx, detail())
					return
				}
			}
			if p.NumLoops() > 0 && !p.IsFull() {
				if p.Contains(p) != q.Contains(p) || p.Contains(p) != p.Contains(q) || p.Intersects(p) != q.Intersects(p) {
					c.Violate(sub, "wrong-answer", "Polygon decode("+fmtName+"): Contains/Intersects against the original differ", idx, detail())
					return
				}
			}
		}
		b3, _ := c09Enc(q.Encode)
		if !bytes.Equal(b1, b3) {
			c.Violate(sub, "wrong-answer", "Polygon encode(decode(encode(v))) differs from encode(v) ("+fmtName+")", idx, detail())
			return
		}
		// every loop on its own, in the loop format, with the depth the polygon gave it
		for k := 0; k < p.NumLoops(); k++ {
			l := p.Loop(k)
			lb, err := c09Enc(l.Encode)
			if err != nil {
				c.Violate(sub, "wrong-answer", "Loop.Encode returns an error", idx, detail())
				return
			}
			lb2, _ := c09Enc(l.Encode)
			m := new(s2.Loop)
			if err := m.Decode(bytes.NewReader(lb)); err != nil {
				c.Violate(sub, "wrong-answer", "Loop.Decode rejects Loop.Encode's own output", idx, detail())
				return
			}
			if d := c09Diff(l, m); d != "" {
				c.Violate(sub, "wrong-answer", "Loop decode: state differs at "+d, idx, detail())
				return
			}
			lb3, _ := c09Enc(m.Encode)
			if !bytes.Equal(lb, lb2) || !bytes.Equal(lb, lb3) {
				c.Violate(sub, "wrong-answer", "Loop encoding not reproducible", idx, detail())
				return
			}
			if valid && l.NumVertices() >= 3 {
				for _, pr := range probes {
					if l.ContainsPoint(pr) != m.ContainsPoint(pr) {
						c.Violate(sub, "wrong-answer", "Loop decode: ContainsPoint differs", idx, detail())
						return
					}
				}
				if l.RectBound() != m.RectBound() || l.Contains(l) != m.Contains(l) || l.Contains(m) != l.Contains(l) {
					c.Violate(sub, "wrong-answer", "Loop decode: bound or Contains differs", idx, detail())
					return
				}
			}
		}
		// histories: a value that has already been encoded is modified and encoded again; the second
		// encoding must describe the value as it is now (an encoder-side cache that survives the
		// modification would describe the old one)
		if valid && p.NumLoops() > 0 && !p.IsFull() {
			st.histories++
			for step := 1; step <= 2; step++ {
				p.Invert()
				hb, err := c09Enc(p.Encode)
				if err != nil {
					c.Violate(sub, "wrong-answer", "Polygon.Encode returns an error after Invert", idx, detail())
					return
				}
				h := new(s2.Polygon)
				if err := h.Decode(bytes.NewReader(hb)); err != nil {
					c.Violate(sub, "wrong-answer", "Polygon.Decode rejects the encoding made after encode; Invert", idx, detail())
					return
				}
				if d := c09Diff(p, h); d != "" {
					c.Violate(sub, "wrong-answer", fmt.Sprintf("Polygon encoded, inverted (%dx) and encoded again: the decoded value differs from the current value at %s", step, d), idx, detail())
					return
				}
				if pa, ha := c09Panel(p, probes, cells), c09Panel(h, probes, cells); pa != ha {
					c.Violate(sub, "wrong-answer", fmt.Sprintf("Polygon encoded, inverted (%dx) and encoded again: the decoded value answers the query panel differently from the current value", step), idx, detail())
					return
				}
			}
			// single loops: encode, Invert, encode
			for k := 0; k < p.NumLoops() && k < 3; k++ {
				l := s2.LoopFromPoints(append([]s2.Point(nil), p.Loop(k).Vertices()...))
				if l.NumVertices() < 3 {
					continue
				}
				if _, err := c09Enc(l.Encode); err != nil {
					continue
				}
				l.Invert()
				lb, _ := c09Enc(l.Encode)
				m := new(s2.Loop)
				if err := m.Decode(bytes.NewReader(lb)); err != nil {
					c.Violate(sub, "wrong-answer", "Loop.Decode rejects the encoding made after encode; Invert", idx, detail())
					return
				}
				if d := c09Diff(l, m); d != "" {
					c.Violate(sub, "wrong-answer", "Loop encoded, inverted and encoded again: the decoded value differs from the current value at "+d, idx, detail())
					return
				}
			}
		}
	})
}

// ---------------------------------------------------------------------------

func runC09(c *core.Ctx) {
	c.Rule = "every value of the finite catalogues below is encoded, decoded and compared bit for bit (state read by reflection, query panel, re-encoding); polygons: for every level 0..30 x face x structural vertex position (face centre, face-edge midpoint, cube corner, ...) the loop through the centres of the 3-4 cells meeting there, under every replacement mask {centre@L, centre@L+1, centre@L-1, 1-ulp off-centre}^4; all 3- and 4-vertex sequences over a 9-value boundary alphabet of cell coordinates (delta-coder extremes) and over face x {0,max}; 63..130-vertex snapped n-gons; 0-3 loop and 13-loop polygons; simple types on the structural point/cell lattices.  A case is non-trivial when its encoding carries at least one coordinate (distinct byte strings are counted)"
	c.Assume = []string{
		"reflection reads the private fields of s2.Loop/s2.Polygon/s2.Cap/s2.Cell faithfully",
		"golang/geo's CellID.Point/Parent/Children are used to name input vertices only; the oracle (bit identity) does not depend on them",
		"s2.VerifXYZToFaceSiTi reports the encoder's cell-centre classification (counters only)",
	}
	distinct := newC09Distinct()
	t0 := time.Now()
	lap := func(name string) {
		c.Note("wall_s/"+name, math.Round(time.Since(t0).Seconds()*10)/10)
		t0 = time.Now()
	}
	c09Simple(c, distinct)
	lap("simple")
	c09Quads(c, distinct)
	lap("polygon-cell-quads")
	c09Sequences(c, distinct)
	lap("polygon-coder-sequences")
	c09BigLoops(c, distinct)
	lap("polygon-many-vertices")
	c09Multi(c, distinct)
	lap("polygon-multi-loop")
	c09FaceEdgeVertices(c, distinct)
	lap("polygon-face-edge-vertices")
	c.Nontrivial(distinct.n())
}
