package checks

import (
	"fmt"
	"math"

	"github.com/golang/geo/r3"
	"github.com/golang/geo/s2"

	"verif/mc/core"
	"verif/mc/lattice"
	"verif/mc/refmodel"
)

// Sub-check "t-junctions": one endpoint of CD within rounding noise of the great circle through AB
// (a point interpolated onto AB, and its one-ulp neighbours), the other endpoint clearly off AB, on
// either side, near and far.  The four orientation determinants of such a quadruple are of wildly
// different size — one is pure rounding noise — which no quadruple of the degenerate alphabet (exactly
// on the circle) or of the general-position alphabet (all determinants large) has.  Oracle: the exact
// four-orientation criterion; every entry point (stateless, crosser restarted and chained) and every
// argument order must give its answer.
func init() {
	ck := Registry["C03"]
	run := ck.Run
	ck.Run = func(c *core.Ctx) {
		run(c)
		c03TJunctions(c)
	}
}

func c03TJunctions(c *core.Ctx) {
	sub := "t-junctions"
	all := lattice.PGeneric(false)
	var gen []s2.Point
	for i := 0; i < len(all); i += core.Pick(c, 6, 3) {
		gen = append(gen, all[i])
	}
	crossName := map[int]string{-1: "DoNotCross", 0: "MaybeCross", 1: "Cross"}
	ts := core.Pick(c, []float64{0.5, 0.123, 0.9}, []float64{0.5, 0.01, 0.123, 0.3, 0.77, 0.9, 0.999})
	offs := core.Pick(c, []float64{1e-3, 0.3}, []float64{1e-9, 1e-3, 0.05, 0.3, 1.2})
	var evals, cross, noise int64
	type job struct{ ai, bi int }
	var jobs []job
	for ai := range gen {
		for bi := range gen {
			if ai != bi && !antipodal(gen[ai], gen[bi]) {
				jobs = append(jobs, job{ai, bi})
			}
		}
	}
	for ji, jb := range jobs {
		a, b := gen[jb.ai], gen[jb.bi]
		nrm := a.Cross(b.Vector)
		if nrm.Norm() < 1e-3 {
			continue
		}
		nrm = nrm.Normalize()
		for ti, t := range ts {
			on := s2.Interpolate(t, a, b)
			cs := []s2.Point{on}
			for _, u := range []r3.Vector{{X: 1}, {Y: 1}, {Z: 1}, {X: -1}, {Y: -1}, {Z: -1}} {
				p := on
				p.X = math.Nextafter(p.X, p.X+u.X)
				p.Y = math.Nextafter(p.Y, p.Y+u.Y)
				p.Z = math.Nextafter(p.Z, p.Z+u.Z)
				cs = append(cs, p)
			}
			for ci, cc := range cs {
				for oi, off := range offs {
					for side := 0; side < 2; side++ {
						cas := []int{ji, ti, ci, oi*2 + side}
						if c.Skip(sub, cas...) {
							continue
						}
						sg := 1.0
						if side == 1 {
							sg = -1
						}
						d := s2.Point{Vector: on.Mul(math.Cos(off)).Add(nrm.Mul(sg * math.Sin(off))).Normalize()}
						detail := func() any {
							return map[string]any{"a": ptStr(a), "b": ptStr(b), "c": ptStr(cc), "d": ptStr(d)}
						}
						c.Guard(sub, cas, detail, func() {
							evals++
							want := refmodel.CrossingSign(a, b, cc, d)
							if want == refmodel.Cross {
								cross++
							}
							if math.Abs(nrm.Dot(cc.Vector)) < 1e-15 {
								noise++
							}
							check := func(name string, got int, w int) bool {
								if got != w {
									c.Violate(sub, "wrong-answer", fmt.Sprintf("%s returned %s for an edge with one endpoint within rounding noise of the other edge's great circle; the exact four-orientation criterion gives %s", name, crossName[got], crossName[w]), cas, detail())
									return false
								}
								return true
							}
							ok := check("CrossingSign(a,b,c,d)", crossInt(s2.CrossingSign(a, b, cc, d)), want) &&
								check("CrossingSign(a,b,d,c)", crossInt(s2.CrossingSign(a, b, d, cc)), want) &&
								check("CrossingSign(b,a,c,d)", crossInt(s2.CrossingSign(b, a, cc, d)), want) &&
								check("CrossingSign(c,d,a,b)", crossInt(s2.CrossingSign(cc, d, a, b)), want) &&
								check("CrossingSign(d,c,b,a)", crossInt(s2.CrossingSign(d, cc, b, a)), want)
							if !ok {
								return
							}
							cr := s2.NewChainEdgeCrosser(a, b, cc)
							if !check("EdgeCrosser.ChainCrossingSign", crossInt(cr.ChainCrossingSign(d)), want) {
								return
							}
							cr2 := s2.NewEdgeCrosser(cc, d)
							if !check("EdgeCrosser(c,d).CrossingSign(a,b)", crossInt(cr2.CrossingSign(a, b)), want) {
								return
							}
							if got, w := s2.EdgeOrVertexCrossing(a, b, cc, d), refmodel.EdgeOrVertexCrossing(a, b, cc, d); got != w {
								c.Violate(sub, "wrong-answer", "EdgeOrVertexCrossing differs from the exact reference for an edge with one endpoint within rounding noise of the other edge's great circle", cas, detail())
							}
						})
					}
				}
			}
		}
	}
	c.Eval(int(evals))
	c.Nontrivial(int(cross))
	c.Count(sub+"/quadruples", evals)
	c.Count(sub+"/reference_says_cross", cross)
	c.Count(sub+"/third_point_within_1e-15_of_the_great_circle", noise)
}
