package checks

import (
	"crypto/sha256"
	"encoding/binary"
	"encoding/hex"
	"hash"
	"math"
	"reflect"
	"sort"
)

// deepKey returns a hash of the complete object graph reachable from the roots: every field,
// exported or not, of every struct, every element of every slice / array / map, through every
// pointer and interface.  It is what the explicit-state searches merge states on, in addition to
// their hand-written keys: a key assembled by hand from "the fields that matter" silently hides a
// defect as soon as the implementation reads a field the author did not think of (seeds C04-r3 and
// C13-r3 escaped for exactly that reason); a key that covers all memory of the objects cannot.
//
// Canonical form: addresses never enter the hash; a pointer or map is numbered by the order of its
// first visit and a second visit emits only that number (so sharing and cycles are part of the key
// and the walk terminates); map entries are ordered by the encoding of their keys; floats enter by
// bit pattern; func and chan values enter by nil-ness only.  The key is over-fine (iterator
// positions, spare scratch space), which can only cost search time, never hide a state.
func deepKey(roots ...any) string {
	d := &deepEnc{h: sha256.New(), seen: map[uintptr]int{}}
	for _, r := range roots {
		d.value(reflect.ValueOf(r))
		d.tag('|')
	}
	return hex.EncodeToString(d.h.Sum(nil)[:12])
}

type deepEnc struct {
	h     hash.Hash
	seen  map[uintptr]int
	buf   [9]byte
	nodes int64
}

func (d *deepEnc) tag(b byte) { d.buf[0] = b; d.h.Write(d.buf[:1]) }
func (d *deepEnc) u64(b byte, v uint64) {
	d.buf[0] = b
	binary.LittleEndian.PutUint64(d.buf[1:], v)
	d.h.Write(d.buf[:9])
}

func (d *deepEnc) value(v reflect.Value) {
	d.nodes++
	if !v.IsValid() {
		d.tag('0')
		return
	}
	switch v.Kind() {
	case reflect.Bool:
		if v.Bool() {
			d.tag('T')
		} else {
			d.tag('F')
		}
	case reflect.Int, reflect.Int8, reflect.Int16, reflect.Int32, reflect.Int64:
		d.u64('i', uint64(v.Int()))
	case reflect.Uint, reflect.Uint8, reflect.Uint16, reflect.Uint32, reflect.Uint64, reflect.Uintptr:
		d.u64('u', v.Uint())
	case reflect.Float32, reflect.Float64:
		d.u64('f', math.Float64bits(v.Float()))
	case reflect.Complex64, reflect.Complex128:
		c := v.Complex()
		d.u64('c', math.Float64bits(real(c)))
		d.u64('c', math.Float64bits(imag(c)))
	case reflect.String:
		s := v.String()
		d.u64('s', uint64(len(s)))
		d.h.Write([]byte(s))
	case reflect.Array:
		d.u64('a', uint64(v.Len()))
		for i := 0; i < v.Len(); i++ {
			d.value(v.Index(i))
		}
	case reflect.Slice:
		if v.IsNil() {
			d.tag('n')
			return
		}
		d.u64('l', uint64(v.Len()))
		for i := 0; i < v.Len(); i++ {
			d.value(v.Index(i))
		}
	case reflect.Struct:
		d.u64('{', uint64(v.NumField()))
		for i := 0; i < v.NumField(); i++ {
			d.value(v.Field(i))
		}
	case reflect.Ptr:
		if v.IsNil() {
			d.tag('n')
			return
		}
		p := v.Pointer()
		if k, ok := d.seen[p]; ok && v.Type().Elem().Size() > 0 {
			d.u64('r', uint64(k))
			return
		}
		d.seen[p] = len(d.seen)
		d.u64('p', uint64(d.seen[p]))
		d.value(v.Elem())
	case reflect.Interface:
		if v.IsNil() {
			d.tag('n')
			return
		}
		e := v.Elem()
		t := e.Type().String()
		d.u64('I', uint64(len(t)))
		d.h.Write([]byte(t))
		d.value(e)
	case reflect.Map:
		if v.IsNil() {
			d.tag('n')
			return
		}
		p := v.Pointer()
		if k, ok := d.seen[p]; ok {
			d.u64('r', uint64(k))
			return
		}
		d.seen[p] = len(d.seen)
		d.u64('m', uint64(v.Len()))
		type kv struct {
			k string
			v reflect.Value
		}
		var ents []kv
		it := v.MapRange()
		for it.Next() {
			// keys are encoded on their own (keys holding pointers are numbered within the key only)
			sub := &deepEnc{h: sha256.New(), seen: map[uintptr]int{}}
			sub.value(it.Key())
			ents = append(ents, kv{string(sub.h.Sum(nil)), it.Value()})
		}
		sort.SliceStable(ents, func(i, j int) bool {
			if ents[i].k != ents[j].k {
				return ents[i].k < ents[j].k
			}
			// equal keys by content (two distinct but identical objects): order by the value's content
			a := &deepEnc{h: sha256.New(), seen: map[uintptr]int{}}
			b := &deepEnc{h: sha256.New(), seen: map[uintptr]int{}}
			a.value(ents[i].v)
			b.value(ents[j].v)
			return string(a.h.Sum(nil)) < string(b.h.Sum(nil))
		})
		for _, e := range ents {
			d.h.Write([]byte(e.k))
			d.value(e.v)
		}
	case reflect.Func, reflect.Chan, reflect.UnsafePointer:
		if v.IsNil() {
			d.tag('n')
		} else {
			d.tag('x')
		}
	default:
		d.tag('?')
	}
}
