package checks

import (
	"math"

	"github.com/golang/geo/r3"
	"github.com/golang/geo/s2"

	"verif/mc/core"
)

// Lattice "tiny-at-endpoint": a tiny edge b (half-length 1e-130 .. 1e-175, only representable next to an
// axis point) crossing a much longer edge a within about b's own length of a's endpoint.  There the
// stable method's error bound is still small enough to accept while the squared length of its
// un-normalised result falls into the subnormal range: the guard on that squared length is what keeps
// the result a unit vector (seed C16-r6).  The lattice "tiny" only crosses edges at their midpoints,
// where the stable method gives up long before.
func c16TinyAtEndpoint(c *core.Ctx, st *c16State) {
	const sub = "tiny-at-endpoint"
	axes := []r3.Vector{{X: 1}, {Y: 1}, {Z: 1}, {X: -1}, {Y: -1}, {Z: -1}}
	var hbs []float64
	for k := 130; k <= 175; k += core.Pick(c, 3, 1) {
		hbs = append(hbs, math.Pow(10, -float64(k)))
	}
	long := core.Pick(c, []float64{1e-10, 1e-3, 0.5, 2.5}, []float64{1e-12, 1e-10, 1e-6, 1e-3, 0.1, 0.5, 1.5, 2.5})
	offs := []float64{0.25, 0.5, 1, 2, 8} // distance of the crossing from a's endpoint, in units of hb
	c.Note(sub+"/lattice", map[string]int{"axis_points": 6, "frames": 2, "half_length_b": len(hbs), "length_a": len(long), "offsets": len(offs)})
	c.ParallelFor(len(axes), func(i int) {
		var t c16Tally
		defer st.merge(sub, &t)
		x := axes[i]
		j := 0
		for fr := 0; fr < 2; fr++ {
			u := axes[(i+1+fr)%3]
			v := x.Cross(u)
			for _, la := range long {
				a0 := s2.Point{Vector: x}
				a1 := s2.Point{Vector: x.Mul(math.Cos(la)).Add(u.Mul(math.Sin(la)))}
				for _, hb := range hbs {
					for _, of := range offs {
						for _, tilt := range []float64{0, 0.5} {
							j++
							if c.Skip(sub, i, j) {
								continue
							}
							// b is centred on a, "of*hb" inside a's first endpoint, perpendicular to a (or tilted)
							ctr := x.Add(u.Mul(of * hb))
							w := v.Mul(hb).Add(u.Mul(tilt * hb * of))
							b0 := s2.Point{Vector: ctr.Sub(w)}
							b1 := s2.Point{Vector: ctr.Add(w)}
							st.eval(sub, []int{i, j}, a0, a1, b0, b1, &t)
							st.eval(sub, []int{i, -j}, a1, a0, b1, b0, &t)
						}
					}
				}
			}
		}
	})
}
