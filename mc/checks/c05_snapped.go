package checks

import (
	"fmt"

	"github.com/golang/geo/s2"

	"verif/mc/core"
	"verif/mc/exact"
	"verif/mc/refmodel"
)

// Sub-check "snapped-polygons": polygons whose vertices are cell centres (the result of snapping to
// S2 cells), with one vertex exactly at the centre of the cell that contains all the polygon's edges —
// the cell the polygon's ShapeIndex uses, so that the segment "index-cell centre -> query point" that
// Polygon.ContainsCell / IntersectsCell count crossings along starts ON a polygon vertex.  Generic
// coordinates never put a vertex there.  Oracle: C05's one-sided claims for ContainsCell / IntersectsCell
// on the descendants of that cell, and Covering / InteriorCovering, against exact crossing parity.
func init() {
	ck := Registry["C05"]
	run := ck.Run
	ck.Run = func(c *core.Ctx) {
		run(c)
		c05SnappedPolygons(c)
	}
}

// c05ExactlySimple reports, in exact arithmetic, that no vertex of the loop lies on a non-incident edge
// and no two non-adjacent edges cross.
func c05ExactlySimple(v []s2.Point) bool {
	n := len(v)
	for i := 0; i < n; i++ {
		a, b := v[i], v[(i+1)%n]
		ea, eb := exact.FromVector(a.Vector), exact.FromVector(b.Vector)
		nrm := ea.Cross(eb)
		if nrm.IsZero() {
			return false
		}
		for k := 0; k < n; k++ {
			if k == i || k == (i+1)%n {
				continue
			}
			ep := exact.FromVector(v[k].Vector)
			if nrm.Dot(ep).Sign() == 0 && ea.Cross(ep).Dot(nrm).Sign() >= 0 && ep.Cross(eb).Dot(nrm).Sign() >= 0 {
				return false
			}
		}
		for j := i + 2; j < n; j++ {
			if i == 0 && j == n-1 {
				continue
			}
			if refmodel.CrossingSign(a, b, v[j], v[(j+1)%n]) == refmodel.Cross {
				return false
			}
		}
	}
	return true
}

func c05SnappedPolygons(c *core.Ctx) {
	sub := "snapped-polygons"
	var roots []s2.CellID
	for _, f := range core.Pick(c, []int{0, 2, 5}, []int{0, 1, 2, 3, 4, 5}) {
		for _, lv := range core.Pick(c, []int{1, 4, 9}, []int{0, 1, 2, 4, 6, 9, 14, 20}) {
			roots = append(roots, s2.CellIDFromFacePosLevel(f, 0x0a5a5a5a5a5a5a5a>>4, lv))
		}
	}
	var polys, cellsJudged, containedCells, disjointCells, centreIsIndexCell int64
	for ri, root := range roots {
		ch := root.Children()
		for combo := 0; combo < 4; combo++ { // which child is left out
			for gj := 0; gj < 4; gj += core.Pick(c, 2, 1) {
				for shape := 0; shape < 2; shape++ { // with / without the centre vertex as a reflex vertex
					cas := []int{ri, combo, gj, shape}
					if c.Skip(sub, cas...) {
						continue
					}
					detail := func() any {
						return map[string]any{"root_cell": root.ToToken(), "child_left_out": combo, "grandchild": gj, "shape": shape}
					}
					c.Guard(sub, cas, detail, func() {
						var pts []s2.Point
						for k := 0; k < 4; k++ {
							if k == combo {
								continue
							}
							g := ch[k].Children()[(gj+k)%4]
							if shape == 1 {
								g = g.Children()[gj]
							}
							pts = append(pts, g.Point())
						}
						// children are in Hilbert order; order the three outer vertices and insert the centre so
						// that the loop is simple: try the permutations and keep the valid ones
						perms := [][3]int{{0, 1, 2}, {0, 2, 1}}
						for pi, pm := range perms {
							for pos := 0; pos < 3; pos++ {
								v := []s2.Point{pts[pm[0]], pts[pm[1]], pts[pm[2]]}
								v = append(v[:pos], append([]s2.Point{root.Point()}, v[pos:]...)...)
								if !c05ExactlySimple(v) {
									continue // a vertex on another edge, or crossing edges (cell centres are often exactly collinear)
								}
								l := s2.LoopFromPoints(append([]s2.Point(nil), v...))
								if l.Validate() != nil {
									continue
								}
								l.Normalize()
								pg := s2.PolygonFromLoops([]*s2.Loop{l})
								rl := []*refmodel.Loop{refmodel.NewLoop(append([]s2.Point(nil), l.Vertices()...))}
								polys++
								if it := pg.VerifIndex().Iterator(); !it.Done() && it.CellID().Point() == root.Point() {
									centreIsIndexCell++
								}
								sub2 := []int{ri, combo, gj, shape*100 + pi*10 + pos}
								inside := func(cell s2.Cell) (all, none bool) {
									all, none = true, true
									ctr := cell.Center()
									ps := []s2.Point{ctr}
									for k := 0; k < 4; k++ {
										ps = append(ps, s2.Point{Vector: ctr.Mul(0.15).Add(cell.Vertex(k).Mul(0.85)).Normalize()},
											s2.Point{Vector: ctr.Mul(0.5).Add(cell.Vertex(k).Mul(0.25)).Add(cell.Vertex((k + 1) % 4).Mul(0.25)).Normalize()})
									}
									for _, q := range ps {
										if refmodel.PolygonContains(rl, q) {
											none = false
										} else {
											all = false
										}
									}
									return
								}
								var cells []s2.CellID
								for lv := root.Level(); lv <= root.Level()+3 && lv <= 30; lv++ {
									for id := root.ChildBeginAtLevel(lv); id != root.ChildEndAtLevel(lv); id = id.Next() {
										cells = append(cells, id)
									}
								}
								for _, id := range cells {
									cell := s2.CellFromCellID(id)
									all, none := inside(cell)
									cellsJudged++
									if pg.ContainsCell(cell) {
										containedCells++
										if !all {
											c.Violate(sub, "wrong-answer", "Polygon.ContainsCell is true for a cell with a point outside the polygon (polygon vertex at the centre of its index cell)", sub2,
												map[string]any{"loop": ptsStr(l.Vertices()), "cell": id.ToToken()})
											return
										}
									}
									if !pg.IntersectsCell(cell) {
										disjointCells++
										if !none {
											c.Violate(sub, "wrong-answer", "Polygon.IntersectsCell is false for a cell with a point inside the polygon (polygon vertex at the centre of its index cell)", sub2,
												map[string]any{"loop": ptsStr(l.Vertices()), "cell": id.ToToken()})
											return
										}
									}
								}
								rc := &s2.RegionCoverer{MinLevel: 0, MaxLevel: root.Level() + 4, LevelMod: 1, MaxCells: 16}
								if rc.MaxLevel > 30 {
									rc.MaxLevel = 30
								}
								cov := rc.Covering(pg)
								for _, id := range cells {
									ctr := s2.CellFromCellID(id).Center()
									if refmodel.PolygonContains(rl, ctr) && !cov.ContainsPoint(ctr) {
										c.Violate(sub, "wrong-answer", "Covering of a polygon with a vertex at the centre of its index cell misses a point the polygon contains", sub2,
											map[string]any{"loop": ptsStr(l.Vertices()), "missed": ptStr(ctr), "covering": fmt.Sprint(cov)})
										return
									}
								}
								for _, id := range rc.InteriorCovering(pg) {
									if all, _ := inside(s2.CellFromCellID(id)); !all {
										c.Violate(sub, "wrong-answer", "InteriorCovering of a polygon with a vertex at the centre of its index cell returns a cell that is not inside the polygon", sub2,
											map[string]any{"loop": ptsStr(l.Vertices()), "cell": id.ToToken()})
										return
									}
								}
							}
						}
					})
				}
			}
		}
	}
	c.Eval(int(cellsJudged))
	c.Nontrivial(int(containedCells + disjointCells))
	c.Count(sub+"/polygons", polys)
	c.Count(sub+"/polygons_whose_index_cell_centre_is_a_vertex", centreIsIndexCell)
	c.Count(sub+"/cells_judged", cellsJudged)
	c.Count(sub+"/ContainsCell_true", containedCells)
	c.Count(sub+"/IntersectsCell_false", disjointCells)
	if c.OnlySub == "" && c.CapsHit() == 0 && (centreIsIndexCell == 0 || containedCells == 0 || disjointCells == 0) {
		panic(core.HarnessError(fmt.Sprintf("snapped-polygons is vacuous: index-cell-centre vertices %d, contained cells %d, disjoint cells %d", centreIsIndexCell, containedCells, disjointCells)))
	}
}
