package checks

import (
	"math"
	"math/big"

	"github.com/golang/geo/s2"

	"verif/mc/exact"
	"verif/mc/refmodel"
)

// High-precision reference arithmetic of check C18 (big.Float, 384 bits).  The
// inputs are the exact float64 coordinates of the vertices; determinants, dot
// and cross products are exact integers (package exact); square roots use
// big.Float.Sqrt and the arc tangent is a reduced Taylor series.  The absolute
// error of every angle returned here is below 2^-340.

const c18Prec = 384

func c18f(x float64) *big.Float { return new(big.Float).SetPrec(c18Prec).SetFloat64(x) }
func c18new() *big.Float        { return new(big.Float).SetPrec(c18Prec) }

var (
	c18Pi     *big.Float
	c18TwoPi  *big.Float
	c18FourPi *big.Float
)

func init() {
	// pi = 16 atan(1/5) - 4 atan(1/239) (Machin), with the plain series.
	a := c18atanSmall(c18new().Quo(c18f(1), c18f(5)))
	b := c18atanSmall(c18new().Quo(c18f(1), c18f(239)))
	c18Pi = c18new().Sub(c18new().Mul(c18f(16), a), c18new().Mul(c18f(4), b))
	c18TwoPi = c18new().Mul(c18f(2), c18Pi)
	c18FourPi = c18new().Mul(c18f(4), c18Pi)
}

// c18atanSmall is the Taylor series of atan for |x| <= 1/4.
func c18atanSmall(x *big.Float) *big.Float {
	x2 := c18new().Mul(x, x)
	term := c18new().Set(x) // x^(2k+1)
	sum := c18new().Set(x)
	for k := 1; k < 2000; k++ {
		term.Mul(term, x2)
		t := c18new().Quo(term, c18f(float64(2*k+1)))
		if t.Sign() == 0 || t.MantExp(nil) < sum.MantExp(nil)-int(c18Prec)-8 {
			break
		}
		if k%2 == 1 {
			sum.Sub(sum, t)
		} else {
			sum.Add(sum, t)
		}
	}
	return sum
}

// c18atanPos returns atan(y/x) for y >= 0, x > 0 ... in [0, pi/2).
func c18atanPos(y, x *big.Float) *big.Float {
	if y.Sign() == 0 {
		return c18new()
	}
	// atan(y/x) with y <= x after a swap.
	swap := y.Cmp(x) > 0
	num, den := y, x
	if swap {
		num, den = x, y
	}
	t := c18new().Quo(num, den) // in [0,1]
	// halve the angle 10 times: t <- t / (1 + sqrt(1+t^2))
	const halvings = 10
	one := c18f(1)
	for i := 0; i < halvings; i++ {
		s := c18new().Mul(t, t)
		s.Add(s, one)
		s.Sqrt(s)
		s.Add(s, one)
		t.Quo(t, s)
	}
	r := c18atanSmall(t)
	r.Mul(r, c18f(float64(int(1)<<halvings)))
	if swap {
		h := c18new().Quo(c18Pi, c18f(2))
		r = h.Sub(h, r)
	}
	return r
}

// c18atan2 is atan2(y, x) in (-pi, pi]; atan2(0,0) = 0.
func c18atan2(y, x *big.Float) *big.Float {
	ys, xs := y.Sign(), x.Sign()
	if ys == 0 {
		if xs >= 0 {
			return c18new()
		}
		return c18new().Set(c18Pi)
	}
	ay := c18new().Abs(y)
	var r *big.Float
	switch {
	case xs == 0:
		r = c18new().Quo(c18Pi, c18f(2))
	case xs > 0:
		r = c18atanPos(ay, x)
	default:
		r = c18atanPos(ay, c18new().Abs(x))
		r = c18new().Sub(c18Pi, r)
	}
	if ys < 0 {
		r.Neg(r)
	}
	return r
}

func c18sqrtS(s exact.S) *big.Float {
	b := s.Big(c18Prec)
	if b.Sign() <= 0 {
		return c18new()
	}
	return b.Sqrt(b)
}

// c18RefTurn is the reference total turning angle of the closed vertex chain v:
// at every vertex the exterior angle between the exact planes of the incoming
// and outgoing edge, signed by the exact orientation of (prev, vertex, next)
// under the documented symbolic perturbation.  ok is false when an edge joins
// two points with exactly the same direction (zero exact cross product); the
// caller then has to use a rule for that case.
func c18RefTurn(v []s2.Point) (turn *big.Float, ok bool) {
	n := len(v)
	ev := make([]exact.V, n)
	for i, p := range v {
		ev[i] = exact.FromVector(p.Vector)
	}
	nrm := make([]exact.V, n) // nrm[i] = v[i] x v[i+1]
	for i := 0; i < n; i++ {
		nrm[i] = ev[i].Cross(ev[(i+1)%n])
		if nrm[i].IsZero() {
			return nil, false
		}
	}
	sum := c18new()
	for i := 0; i < n; i++ {
		a := nrm[(i+n-1)%n]
		b := nrm[i]
		cr := a.Cross(b)
		y := c18sqrtS(cr.Norm2())
		x := a.Dot(b).Big(c18Prec)
		ang := c18atan2(y, x) // in [0, pi]
		if refmodel.SoSSign(v[(i+n-1)%n], v[i], v[(i+1)%n]) < 0 {
			ang.Neg(ang)
		}
		sum.Add(sum, ang)
	}
	return sum, true
}

// c18RefTriArea is the signed area (solid angle) of the spherical triangle of the
// directions a, b, c: 2 atan2(det, |a||b||c| + (a.b)|c| + (b.c)|a| + (c.a)|b|),
// in (-2pi, 2pi].
func c18RefTriArea(a, b, c exact.V) *big.Float {
	det := exact.Det3(a, b, c).Big(c18Prec)
	na, nb, nc := c18sqrtS(a.Norm2()), c18sqrtS(b.Norm2()), c18sqrtS(c.Norm2())
	den := c18new().Mul(na, nb)
	den.Mul(den, nc)
	den.Add(den, c18new().Mul(a.Dot(b).Big(c18Prec), nc))
	den.Add(den, c18new().Mul(b.Dot(c).Big(c18Prec), na))
	den.Add(den, c18new().Mul(c.Dot(a).Big(c18Prec), nb))
	r := c18atan2(det, den)
	return r.Mul(r, c18f(2))
}

// c18RefFanArea is the signed fan sum from vertex o, reduced to [0, 4pi).
func c18RefFanArea(v []s2.Point, o int) *big.Float {
	n := len(v)
	ev := make([]exact.V, n)
	for i, p := range v {
		ev[i] = exact.FromVector(p.Vector)
	}
	sum := c18new()
	for k := 1; k+1 < n; k++ {
		sum.Add(sum, c18RefTriArea(ev[o], ev[(o+k)%n], ev[(o+k+1)%n]))
	}
	return c18Mod4Pi(sum)
}

// c18Mod4Pi reduces x to [0, 4pi).
func c18Mod4Pi(x *big.Float) *big.Float {
	r := c18new().Set(x)
	for r.Sign() < 0 {
		r.Add(r, c18FourPi)
	}
	for r.Cmp(c18FourPi) >= 0 {
		r.Sub(r, c18FourPi)
	}
	return r
}

// c18CircDist4Pi is the distance of x and y on the circle R / 4pi.
func c18CircDist4Pi(x, y float64) float64 {
	d := math.Mod(math.Abs(x-y), 4*math.Pi)
	if d > 2*math.Pi {
		d = 4*math.Pi - d
	}
	return d
}

func c18Float(x *big.Float) float64 {
	f, _ := x.Float64()
	return f
}

// c18DiffF returns |f - x| as a float64, computed in high precision.
func c18DiffF(f float64, x *big.Float) float64 {
	d := c18new().Sub(c18f(f), x)
	d.Abs(d)
	return c18Float(d)
}
