package checks

import (
	"fmt"

	"github.com/golang/geo/s2"

	"verif/mc/core"
	"verif/mc/lattice"
	"verif/mc/refmodel"
)

// C07 — loop and polygon containment / intersection obey point-set semantics.

func init() {
	Registry["C07"] = &Check{Level: "exploration", QuickBudget: 240, ThoroughBudget: 1500, Run: runC07}
}

func c07Loops(c *core.Ctx) []lattice.NamedLoop {
	g := lattice.LL(20, 30)
	mk := func(name string, f func() *s2.Loop) lattice.NamedLoop { return lattice.NamedLoop{Name: name, Make: f} }
	reg := func(lat, lng, rdeg float64, n int) lattice.NamedLoop {
		return mk(fmt.Sprintf("regular(%g,%g,r=%gdeg,n=%d)", lat, lng, rdeg, n), func() *s2.Loop { return s2.RegularLoop(lattice.LL(lat, lng), lattice.Deg(rdeg), n) })
	}
	inv := func(l lattice.NamedLoop) lattice.NamedLoop {
		return mk("inverse-of-"+l.Name, func() *s2.Loop { x := l.Make(); x.Invert(); return x })
	}
	base := []lattice.NamedLoop{
		reg(20, 30, 10, 4), reg(20, 30, 10, 40), reg(20, 30, 10, 100), // same disc, different vertex counts
		reg(20, 30, 4, 8), reg(20, 30, 4, 33), // nested inside
		reg(22, 38, 6, 36), reg(22, 38, 6, 5), // crossing the first disc
		reg(-50, -120, 7, 40), reg(-50, -120, 7, 6), reg(-52, -118, 2, 100), // far away (other faces), nested pair
		reg(20, 30, 95, 40), reg(20, 30, 95, 7), // more than a hemisphere
		reg(90, 0, 30, 50), // polar cap
		mk("empty", s2.EmptyLoop), mk("full", s2.FullLoop),
	}
	// loops sharing edges and vertices: adjacent cells and a parent cell; adjacent meridian wedges
	f := s2.CellIDFromFace(0)
	for _, id := range []s2.CellID{f.Children()[0], f.Children()[1], f.Children()[0].Children()[2], f} {
		id := id
		base = append(base, mk("cell("+id.String()+")", func() *s2.Loop { return s2.LoopFromCell(s2.CellFromCellID(id)) }))
	}
	w := lattice.Wedges(5, 20)
	base = append(base, w[0], w[1], w[3])
	// shared vertices only: the same 40-gon and the 8-gon through every 5th vertex of it
	base = append(base, mk("octagon-inscribed-in-40gon", func() *s2.Loop {
		l := s2.RegularLoop(g, lattice.Deg(10), 40)
		var v []s2.Point
		for i := 0; i < 40; i += 5 {
			v = append(v, l.Vertex(i))
		}
		return s2.LoopFromPoints(v)
	}))
	if !c.Quick() {
		base = append(base, reg(20, 30, 10, 33), reg(20.5, 30.5, 10, 64), reg(0, 0, 89.9, 64), reg(-20, -150, 45, 33), reg(45, 45, 3, 64), reg(35.2, 45, 8, 40), lattice.Wedges(3, 20)[0], lattice.Wedges(3, 20)[1])
	}
	out := append([]lattice.NamedLoop(nil), base...)
	for _, l := range base {
		if l.Name != "empty" && l.Name != "full" {
			out = append(out, inv(l))
		}
	}
	return out
}

func runC07(c *core.Ctx) {
	c.Rule = "all ordered pairs over a loop catalogue (the same disc with 4/40/100 vertices, nested, crossing, far apart on other faces, more than a hemisphere, polar, cells sharing edges and vertices, adjacent meridian wedges, an inscribed polygon sharing vertices, empty, full, and the inverse of each) and over a polygon catalogue; algebraic laws (symmetry, reflexivity, complement duality, polygon==loop) need no reference; point-set soundness uses the exact reference containment on all vertices and edge points of both operands; the hole rule on every subset of a nested family in every input order; non-trivial = pairs in which both loops have multi-cell indexes (>= 33 vertices) or share a vertex"
	c.Assume = []string{
		"both operands are valid loops / polygons by construction",
		"reference containment = exact crossing parity (refmodel)",
	}
	cat := c07Loops(c)
	n := len(cat)
	c.Note("loop_catalogue", n)
	// Relations build the loops' indexes lazily; build one object per catalogue entry and force its index
	// once so that the pair sweep can run concurrently on shared, fully built (read-only) loops.
	loops := make([]*s2.Loop, n)
	invs := make([]*s2.Loop, n)
	refs := make([]*refmodel.Loop, n)
	polys := make([]*s2.Polygon, n)
	probes := make([][]s2.Point, n)
	for i, nl := range cat {
		loops[i] = nl.Make()
		invs[i] = nl.Make()
		invs[i].Invert()
		loops[i].VerifIndex().Build()
		invs[i].VerifIndex().Build()
		refs[i] = refmodel.LoopOf(loops[i])
		polys[i] = s2.PolygonFromLoops([]*s2.Loop{nl.Make()})
		polys[i].VerifIndex().Build()
		for _, l := range polys[i].Loops() {
			l.VerifIndex().Build()
		}
		if loops[i].NumVertices() >= 3 {
			p := lattice.LoopProbes(loops[i], 0)
			if len(p) > 90 {
				var q []s2.Point
				for k := 0; k < len(p); k += len(p)/90 + 1 {
					q = append(q, p[k])
				}
				p = q
			}
			probes[i] = p
		}
	}
	extra := lattice.PStruct(1)
	// one global probe list; exact membership of every probe in every loop is computed once
	var allProbes []s2.Point
	for i := range probes {
		allProbes = append(allProbes, probes[i]...)
	}
	allProbes = lattice.Dedup(append(allProbes, extra...))
	member := make([][]bool, n)
	c.ParallelFor(n, func(i int) {
		m := make([]bool, len(allProbes))
		for k, p := range allProbes {
			m[k] = refs[i].Contains(p)
		}
		member[i] = m
	})
	c.Note("probes", len(allProbes))
	type pair struct{ a, b int }
	var pairs []pair
	for a := 0; a < n; a++ {
		for b := 0; b < n; b++ {
			pairs = append(pairs, pair{a, b})
		}
	}
	c.ParallelFor(len(pairs), func(k int) {
		if c.Expired() {
			return
		}
		ai, bi := pairs[k].a, pairs[k].b
		if c.Skip("loop-pairs", ai, bi) {
			return
		}
		A, B := loops[ai], loops[bi]
		cas := []int{ai, bi}
		detail := func() any { return map[string]any{"A": cat[ai].Name, "B": cat[bi].Name} }
		c.Guard("loop-pairs", cas, detail, func() {
			c.Eval(1)
			if A.NumVertices() >= 33 && B.NumVertices() >= 33 {
				c.Nontrivial(1)
			}
			contains := A.Contains(B)
			intersects := A.Intersects(B)
			if intersects != B.Intersects(A) {
				c.Violate("loop-laws", "wrong-answer", "Loop.Intersects is not symmetric", cas, detail())
			}
			if ai == bi {
				if !contains {
					c.Violate("loop-laws", "wrong-answer", "a loop does not contain itself", cas, detail())
				}
				if !intersects && !A.IsEmpty() {
					c.Violate("loop-laws", "wrong-answer", "a non-empty loop does not intersect itself", cas, detail())
				}
			}
			// A intersects B  iff  complement(A) does not contain B
			if got := invs[ai].Contains(B); intersects == got {
				c.Violate("loop-laws", "wrong-answer", "A.Intersects(B) == complement(A).Contains(B): the complement law 'A intersects B iff the complement of A does not contain B' is violated", cas, detail())
			}
			// A contains B  iff  complement(B) contains complement(A)
			if got := invs[bi].Contains(invs[ai]); contains != got {
				c.Violate("loop-laws", "wrong-answer", "A.Contains(B) != complement(B).Contains(complement(A))", cas, detail())
			}
			// the one-loop polygon answers equal the loop answers
			if pc, pi := polys[ai].Contains(polys[bi]), polys[ai].Intersects(polys[bi]); pc != contains || pi != intersects {
				c.Violate("loop-laws", "wrong-answer", "single-loop polygon Contains/Intersects differ from the loop answers", cas, map[string]any{"A": cat[ai].Name, "B": cat[bi].Name, "loop": []bool{contains, intersects}, "polygon": []bool{pc, pi}})
			}
			if contains && !intersects && !B.IsEmpty() {
				c.Violate("loop-laws", "wrong-answer", "A contains a non-empty B but does not intersect it", cas, detail())
			}
			// point-set soundness on every probe (exact membership, precomputed)
			for k, p := range allProbes {
				inA, inB := member[ai][k], member[bi][k]
				if contains && inB && !inA {
					c.Violate("loop-point-sets", "wrong-answer", "A.Contains(B) is true but a point of B lies outside A", cas, map[string]any{"A": cat[ai].Name, "B": cat[bi].Name, "p": ptStr(p)})
					return
				}
				if !intersects && inA && inB {
					c.Violate("loop-point-sets", "wrong-answer", "A.Intersects(B) is false but a point lies in both", cas, map[string]any{"A": cat[ai].Name, "B": cat[bi].Name, "p": ptStr(p)})
					return
				}
			}
		})
	})
	if c.Expired() {
		c.CapHit("loop pair sweep: wall budget reached")
	}
	c.Sample(map[string]any{"sub": "loop-pairs", "A": cat[1].Name, "B": cat[len(cat)-1].Name})
	c07BoundaryWalk(c)
	c07Polygons(c)
	c07Holes(c)
}

// c07BoundaryWalk relates a multi-cell loop A to small loops B placed at every vertex of A, along
// every edge of A, and at the centres of A's own index cells and of their children: this moves the
// only crossings / shared vertices / nesting of the pair through every index cell of A and every
// quadrant of it, which is what the parallel walk of the two indexes (seekTo, seekBeyond, the
// early exits on cell centres) is sensitive to.
func c07BoundaryWalk(c *core.Ctx) {
	type big struct {
		name string
		mk   func() *s2.Loop
	}
	bigs := []big{
		{"regular(20,30,r=10deg,n=40)", func() *s2.Loop { return s2.RegularLoop(lattice.LL(20, 30), lattice.Deg(10), 40) }},
		{"pentagon-across-faces-0-1", func() *s2.Loop {
			return s2.LoopFromPoints([]s2.Point{lattice.LL(-10, 20), lattice.LL(-8, 62), lattice.LL(12, 70), lattice.LL(25, 44), lattice.LL(9, 15)})
		}},
		{"regular(35.26,45,r=20deg,n=64)@cube-corner", func() *s2.Loop { return s2.RegularLoop(lattice.LL(35.26, 45), lattice.Deg(20), 64) }},
	}
	if !c.Quick() {
		bigs = append(bigs, big{"regular(-50,-120,r=7deg,n=100)", func() *s2.Loop { return s2.RegularLoop(lattice.LL(-50, -120), lattice.Deg(7), 100) }},
			big{"wedge(1/5,m=20)", lattice.Wedges(5, 20)[1].Make}, big{"regular(0,0,r=95deg,n=40)", func() *s2.Loop { return s2.RegularLoop(lattice.LL(0, 0), lattice.Deg(95), 40) }})
	}
	radii := core.Pick(c, []float64{0.3, 0.004}, []float64{1.1, 0.3, 0.02, 0.0004})
	for bi, bg := range bigs {
		A := bg.mk()
		Ainv := bg.mk()
		Ainv.Invert()
		A.VerifIndex().Build()
		Ainv.VerifIndex().Build()
		refA := refmodel.LoopOf(A)
		var pos []s2.Point
		n := A.NumVertices()
		for i := 0; i < n; i++ {
			pos = append(pos, A.Vertex(i))
			for _, f := range core.Pick(c, []float64{0.25, 0.5, 0.75}, []float64{0.125, 0.25, 0.375, 0.5, 0.625, 0.75, 0.875}) {
				pos = append(pos, s2.Interpolate(f, A.Vertex(i), A.Vertex(i+1)))
			}
		}
		for _, cell := range A.VerifIndex().VerifIndexDump().Cells {
			pos = append(pos, cell.ID.Point())
			if cell.ID.Level() < 28 {
				for _, ch := range cell.ID.Children() {
					pos = append(pos, ch.Point())
				}
			}
		}
		pos = lattice.Dedup(pos)
		c.Count("boundary_walk/positions", int64(len(pos)))
		c.ParallelFor(len(pos), func(pi int) {
			for ri, r := range radii {
				for nv, nB := range []int{4, 36} {
					if c.Skip("boundary-walk", bi, pi, ri, nv) {
						continue
					}
					cas := []int{bi, pi, ri, nv}
					detail := func() any {
						return map[string]any{"A": bg.name, "B": fmt.Sprintf("regular %d-gon, radius %g deg, centred at %s", nB, r, ptStr(pos[pi]))}
					}
					c.Guard("boundary-walk", cas, detail, func() {
						c.Eval(1)
						c.Nontrivial(1)
						B := s2.RegularLoop(pos[pi], lattice.Deg(r), nB)
						Binv := s2.RegularLoop(pos[pi], lattice.Deg(r), nB)
						Binv.Invert()
						refB := refmodel.LoopOf(B)
						ab, ba := A.Contains(B), B.Contains(A)
						iab, iba := A.Intersects(B), B.Intersects(A)
						if iab != iba {
							c.Violate("boundary-walk", "wrong-answer", "Loop.Intersects is not symmetric (large loop vs small loop placed on its boundary / index cells)", cas, detail())
						}
						if Ainv.Contains(B) == iab {
							c.Violate("boundary-walk", "wrong-answer", "'A intersects B iff the complement of A does not contain B' is violated (large loop vs small loop placed on its boundary / index cells)", cas, detail())
						}
						if Binv.Contains(Ainv) != ab {
							c.Violate("boundary-walk", "wrong-answer", "A.Contains(B) != complement(B).Contains(complement(A)) (large loop vs small loop placed on its boundary / index cells)", cas, detail())
						}
						if Binv.Contains(A) == iba {
							c.Violate("boundary-walk", "wrong-answer", "'B intersects A iff the complement of B does not contain A' is violated (large loop vs small loop placed on its boundary / index cells)", cas, detail())
						}
						// probes: B's vertices, points strictly inside B, B's centre
						var probes []s2.Point
						for i := 0; i < B.NumVertices(); i += B.NumVertices() / 4 {
							probes = append(probes, B.Vertex(i), s2.Interpolate(0.5, pos[pi], B.Vertex(i)))
						}
						probes = append(probes, pos[pi])
						for _, p := range probes {
							inA, inB := refA.Contains(p), refB.Contains(p)
							if ab && inB && !inA {
								c.Violate("boundary-walk", "wrong-answer", "A.Contains(B) is true but a point of B lies outside A (small loop placed on A's boundary / index cells)", cas, detail())
								break
							}
							if ba && inA && !inB {
								c.Violate("boundary-walk", "wrong-answer", "B.Contains(A) is true but a point of A lies outside B (small loop placed on A's boundary / index cells)", cas, detail())
								break
							}
							if !iab && inA && inB {
								c.Violate("boundary-walk", "wrong-answer", "A.Intersects(B) is false but a point lies in both (small loop placed on A's boundary / index cells)", cas, detail())
								break
							}
						}
					})
				}
			}
		})
	}
}

func c07Polygons(c *core.Ctx) {
	type np struct {
		name string
		mk   func() *s2.Polygon
	}
	g := lattice.LL(20, 30)
	d := lattice.Deg
	ring := func(n int, outer, inner float64) func() *s2.Polygon {
		return func() *s2.Polygon {
			return s2.PolygonFromLoops([]*s2.Loop{s2.RegularLoop(g, d(outer), n), s2.RegularLoop(g, d(inner), n)})
		}
	}
	cat := []np{
		{"ring(40,10,4)", ring(40, 10, 4)},
		{"ring(8,10,4)", ring(8, 10, 4)},
		{"disc-in-hole(36,3)", func() *s2.Polygon { return s2.PolygonFromLoops([]*s2.Loop{s2.RegularLoop(g, d(3), 36)}) }},
		{"disc-in-ring(40,7)", func() *s2.Polygon {
			return s2.PolygonFromLoops([]*s2.Loop{s2.RegularLoop(lattice.LL(20, 37), d(1.5), 40)})
		}},
		{"disc-crossing-ring(33)", func() *s2.Polygon {
			return s2.PolygonFromLoops([]*s2.Loop{s2.RegularLoop(lattice.LL(20, 35), d(3), 33)})
		}},
		{"nested-4(40)", func() *s2.Polygon {
			return s2.PolygonFromLoops([]*s2.Loop{s2.RegularLoop(g, d(12), 40), s2.RegularLoop(g, d(9), 40), s2.RegularLoop(g, d(6), 40), s2.RegularLoop(g, d(2), 40)})
		}},
		{"two-shells(40)", func() *s2.Polygon {
			return s2.PolygonFromLoops([]*s2.Loop{s2.RegularLoop(g, d(5), 40), s2.RegularLoop(lattice.LL(-50, -120), d(7), 40)})
		}},
		{"far-shell(40)", func() *s2.Polygon {
			return s2.PolygonFromLoops([]*s2.Loop{s2.RegularLoop(lattice.LL(-50, -120), d(7), 40)})
		}},
		{"big(40,95)", func() *s2.Polygon { return s2.PolygonFromLoops([]*s2.Loop{s2.RegularLoop(g, d(95), 40)}) }},
		{"cells-sharing-corner", func() *s2.Polygon {
			f := s2.CellIDFromFace(2)
			return s2.PolygonFromLoops([]*s2.Loop{s2.LoopFromCell(s2.CellFromCellID(f.Children()[0])), s2.LoopFromCell(s2.CellFromCellID(f.Children()[2]))})
		}},
		{"empty", func() *s2.Polygon { return s2.PolygonFromLoops(nil) }},
		{"full", s2.FullPolygon},
	}
	n := len(cat)
	ps := make([]*s2.Polygon, n)
	comps := make([]*s2.Polygon, n)
	refs := make([][]*refmodel.Loop, n)
	probes := make([][]s2.Point, n)
	for i := range cat {
		ps[i] = cat[i].mk()
		comps[i] = cat[i].mk()
		comps[i].Invert()
		for _, pg := range []*s2.Polygon{ps[i], comps[i]} {
			if ix := pg.VerifIndex(); ix != nil {
				ix.Build()
			}
			for _, l := range pg.Loops() {
				l.VerifIndex().Build()
			}
		}
		for _, l := range ps[i].Loops() {
			refs[i] = append(refs[i], refmodel.LoopOf(l))
			if l.NumVertices() >= 3 {
				probes[i] = append(probes[i], lattice.LoopProbes(l, 0)...)
			}
		}
	}
	extra := lattice.PStruct(1)
	in := func(i int, p s2.Point) bool {
		if ps[i].IsFull() {
			return true
		}
		return refmodel.PolygonContains(refs[i], p)
	}
	var allProbes []s2.Point
	for i := range probes {
		pp := probes[i]
		if len(pp) > 150 {
			var q []s2.Point
			for k := 0; k < len(pp); k += len(pp)/150 + 1 {
				q = append(q, pp[k])
			}
			pp = q
		}
		allProbes = append(allProbes, pp...)
	}
	allProbes = lattice.Dedup(append(allProbes, extra...))
	member := make([][]bool, n)
	c.ParallelFor(n, func(i int) {
		m := make([]bool, len(allProbes))
		for k, p := range allProbes {
			m[k] = in(i, p)
		}
		member[i] = m
	})
	c.ParallelFor(n*n, func(k int) {
		ai, bi := k/n, k%n
		if c.Skip("polygon-pairs", ai, bi) {
			return
		}
		cas := []int{ai, bi}
		detail := func() any { return map[string]any{"A": cat[ai].name, "B": cat[bi].name} }
		c.Guard("polygon-pairs", cas, detail, func() {
			c.Eval(1)
			c.Nontrivial(1)
			A, B := ps[ai], ps[bi]
			contains, intersects := A.Contains(B), A.Intersects(B)
			if intersects != B.Intersects(A) {
				c.Violate("polygon-laws", "wrong-answer", "Polygon.Intersects is not symmetric", cas, detail())
			}
			if ai == bi && (!contains || (!intersects && !A.IsEmpty())) {
				c.Violate("polygon-laws", "wrong-answer", "a polygon does not contain / intersect itself", cas, detail())
			}
			if got := comps[ai].Contains(B); intersects == got {
				c.Violate("polygon-laws", "wrong-answer", "polygons: 'A intersects B iff the complement of A does not contain B' is violated", cas, detail())
			}
			if got := comps[bi].Contains(comps[ai]); contains != got {
				c.Violate("polygon-laws", "wrong-answer", "polygons: A.Contains(B) != complement(B).Contains(complement(A))", cas, detail())
			}
			for k, p := range allProbes {
				inA, inB := member[ai][k], member[bi][k]
				if contains && inB && !inA {
					c.Violate("polygon-point-sets", "wrong-answer", "Polygon A.Contains(B) is true but a point of B lies outside A", cas, map[string]any{"A": cat[ai].name, "B": cat[bi].name, "p": ptStr(p)})
					return
				}
				if !intersects && inA && inB {
					c.Violate("polygon-point-sets", "wrong-answer", "Polygon A.Intersects(B) is false but a point lies in both", cas, map[string]any{"A": cat[ai].name, "B": cat[bi].name, "p": ptStr(p)})
					return
				}
			}
		})
	})
	c.Count("polygon_pairs", int64(n*n))
}

// c07Holes: PolygonFromLoops on every subset of a nested family in every input order.
func c07Holes(c *core.Ctx) {
	g := lattice.LL(-10, 70)
	type fam struct {
		name  string
		mk    []func() *s2.Loop
		depth func(subset []int, i int) int // number of other loops of the subset that contain loop i
	}
	conc := func(n int) fam {
		radii := []float64{25, 18, 11, 4}
		f := fam{name: fmt.Sprintf("concentric(n=%d)+island", n)}
		for _, r := range radii {
			r := r
			f.mk = append(f.mk, func() *s2.Loop { return s2.RegularLoop(g, lattice.Deg(r), n) })
		}
		f.mk = append(f.mk, func() *s2.Loop { return s2.RegularLoop(lattice.LL(50, -100), lattice.Deg(6), n) })
		f.depth = func(subset []int, i int) int {
			if i == 4 {
				return 0
			}
			d := 0
			for _, j := range subset {
				if j < i && j != 4 {
					d++
				}
			}
			return d
		}
		return f
	}
	fams := []fam{conc(6), conc(40)}
	var total int64
	for _, f := range fams {
		m := len(f.mk)
		for mask := 1; mask < 1<<uint(m); mask++ {
			var subset []int
			for i := 0; i < m; i++ {
				if mask&(1<<uint(i)) != 0 {
					subset = append(subset, i)
				}
			}
			permute(subset, func(order []int) {
				total++
				var ls []*s2.Loop
				first := map[s2.Point]int{}
				for _, i := range order {
					l := f.mk[i]()
					first[l.Vertex(0)] = i
					ls = append(ls, l)
				}
				c.Guard("hole-rule", nil, func() any { return map[string]any{"family": f.name, "order": order} }, func() {
					pg := s2.PolygonFromLoops(ls)
					if pg.NumLoops() != len(order) {
						c.Violate("hole-rule", "wrong-answer", "PolygonFromLoops changed the number of loops", nil, map[string]any{"family": f.name, "order": order})
						return
					}
					for _, l := range pg.Loops() {
						// identify the loop by its vertex set (PolygonFromLoops may reorder but not modify vertices of normalized loops)
						id := -1
						for k := 0; k < l.NumVertices(); k++ {
							if x, ok := first[l.Vertex(k)]; ok {
								id = x
							}
						}
						if id < 0 {
							c.Violate("hole-rule", "wrong-answer", "a loop of the assembled polygon is not one of the input loops", nil, map[string]any{"family": f.name, "order": order})
							return
						}
						want := f.depth(subset, id)%2 == 1
						if l.IsHole() != want {
							c.Violate("hole-rule", "wrong-answer", "IsHole differs from the parity of the number of other loops that enclose the loop", nil, map[string]any{"family": f.name, "input_order": order, "loop": id, "is_hole": l.IsHole(), "enclosing_loops": f.depth(subset, id)})
						}
					}
				})
			})
		}
	}
	c.Eval(int(total))
	c.Nontrivial(int(total))
	c.Count("hole_rule/subset_orders", total)
}

func permute(a []int, f func([]int)) {
	var rec func(k int)
	b := append([]int(nil), a...)
	rec = func(k int) {
		if k == len(b) {
			f(append([]int(nil), b...))
			return
		}
		for i := k; i < len(b); i++ {
			b[k], b[i] = b[i], b[k]
			rec(k + 1)
			b[k], b[i] = b[i], b[k]
		}
	}
	rec(0)
}
