package checks

import (
	"bytes"
	"fmt"
	"math"

	"github.com/golang/geo/s1"
	"github.com/golang/geo/s2"

	"verif/mc/core"
)

// Sub-check "loop-reuse-histories": polygons assembled from Loop OBJECTS that have a history — a loop
// that was a hole (depth 1) or an island (depth 2) of another polygon, a loop decoded from the encoding
// of such a loop (the loop format stores the depth), a loop of a polygon that was inverted — instead of
// from freshly made loops.  Area, centroid, hole flags and containment of the new polygon must be those
// of a polygon built from fresh copies of the same vertices (C18: "polygon area and centroid are the
// signed sums over shells and holes", consistent with containment).  Every evaluation of the C18
// catalogue so far used fresh loops, so state carried by a loop object was invisible (seed C18-r6).
func init() {
	ck := Registry["C18"]
	run := ck.Run
	ck.Run = func(c *core.Ctx) {
		run(c)
		c18LoopReuseHistories(c)
	}
}

func c18LoopReuseHistories(c *core.Ctx) {
	sub := "loop-reuse-histories"
	ll := func(lat, lng float64) s2.Point { return s2.PointFromLatLng(s2.LatLngFromDegrees(lat, lng)) }
	type fam struct {
		name string
		mk   func() []*s2.Loop // shell, hole, island (nested), sibling shell
	}
	var fams []fam
	for _, ctr := range [][2]float64{{20, 30}, {-75, 100}, {89, 0}, {0, 179}} {
		for _, n := range core.Pick(c, []int{5, 40}, []int{3, 5, 12, 40, 100}) {
			ctr, n := ctr, n
			fams = append(fams, fam{fmt.Sprintf("concentric %d-gons at %v", n, ctr), func() []*s2.Loop {
				p := ll(ctr[0], ctr[1])
				return []*s2.Loop{s2.RegularLoop(p, 10*s1.Degree, n), s2.RegularLoop(p, 6*s1.Degree, n+1), s2.RegularLoop(p, 2*s1.Degree, n+2),
					s2.RegularLoop(s2.Point{Vector: p.Add(s2.Ortho(p).Mul(0.5)).Normalize()}, 3*s1.Degree, n)}
			}})
		}
	}
	probesFor := func(ls []*s2.Loop) []s2.Point {
		var ps []s2.Point
		for _, l := range ls {
			ps = append(ps, l.Vertex(0), s2.Point{Vector: l.Vertex(0).Add(l.Vertex(1).Vector).Normalize()})
		}
		c0 := ls[0].Centroid()
		if c0.Norm2() > 0 {
			ps = append(ps, s2.Point{Vector: c0.Normalize()}, s2.Point{Vector: c0.Mul(-1).Normalize()})
		}
		return ps
	}
	describe := func(p *s2.Polygon, probes []s2.Point) string {
		var sb bytes.Buffer
		ctr := p.Centroid()
		fmt.Fprintf(&sb, "area=%x centroid=%x,%x,%x loops=%d valid=%v|", math.Float64bits(p.Area()), math.Float64bits(ctr.X), math.Float64bits(ctr.Y), math.Float64bits(ctr.Z), p.NumLoops(), p.Validate() == nil)
		for i := 0; i < p.NumLoops(); i++ {
			fmt.Fprintf(&sb, "hole=%v;", p.Loop(i).IsHole())
		}
		for _, q := range probes {
			fmt.Fprintf(&sb, "%v", p.ContainsPoint(q))
		}
		return sb.String()
	}
	fresh := func(ls []*s2.Loop, oriented bool) *s2.Polygon {
		var cp []*s2.Loop
		for _, l := range ls {
			cp = append(cp, s2.LoopFromPoints(append([]s2.Point(nil), l.Vertices()...)))
		}
		if oriented {
			return s2.PolygonFromOrientedLoops(cp)
		}
		return s2.PolygonFromLoops(cp)
	}
	var histories, odd int64
	for fi, fm := range fams {
		// sources of loop objects with a history
		type source struct {
			name string
			get  func() []*s2.Loop
		}
		sources := []source{
			{"loops of a shell+hole+island+sibling polygon", func() []*s2.Loop {
				return s2.PolygonFromLoops(fm.mk()).Loops()
			}},
			{"loops of that polygon after Invert", func() []*s2.Loop {
				p := s2.PolygonFromLoops(fm.mk())
				p.Invert()
				return p.Loops()
			}},
			{"loops decoded from the loop encodings of that polygon's loops", func() []*s2.Loop {
				var out []*s2.Loop
				for _, l := range s2.PolygonFromLoops(fm.mk()).Loops() {
					var buf bytes.Buffer
					if l.Encode(&buf) != nil {
						return nil
					}
					var d s2.Loop
					if d.Decode(bytes.NewReader(buf.Bytes())) != nil {
						return nil
					}
					out = append(out, &d)
				}
				return out
			}},
		}
		for si, src := range sources {
			n := len(src.get())
			// every non-empty subset of the source's loops that forms a valid polygon on its own is
			// judged; subsets are tried in the order given and reversed
			for mask := 1; mask < 1<<uint(n); mask++ {
				for _, oriented := range []bool{false, true} {
					oi := 0
					if oriented {
						oi = 1
					}
					cas := []int{fi, si, mask, oi}
					if c.Skip(sub, cas...) {
						continue
					}
					detail := func() any {
						return map[string]any{"family": fm.name, "source": src.name, "subset_mask": mask, "oriented_constructor": oriented}
					}
					c.Guard(sub, cas, detail, func() {
						ls := src.get()
						var pick []*s2.Loop
						for k := 0; k < n; k++ {
							if mask>>uint(k)&1 == 1 {
								pick = append(pick, ls[k])
							}
						}
						for _, l := range pick {
							if l.IsHole() {
								odd++
								break
							}
						}
						ref := fresh(pick, oriented)
						if ref.Validate() != nil {
							return // the subset is not a valid polygon (e.g. loops that are not nested properly once oriented)
						}
						probes := probesFor(pick)
						want := describe(ref, probes)
						var got *s2.Polygon
						if oriented {
							got = s2.PolygonFromOrientedLoops(pick)
						} else {
							got = s2.PolygonFromLoops(pick)
						}
						histories++
						if g := describe(got, probes); g != want {
							c.Violate(sub, "wrong-answer", "a polygon built from loop objects that were part of another polygon (or decoded from such a loop) differs in area / centroid / hole flags / validity / containment from the polygon built from fresh copies of the same vertices", cas,
								map[string]any{"family": fm.name, "source": src.name, "subset_mask": mask, "oriented_constructor": oriented, "got": trunc(g, 300), "want": trunc(want, 300), "first_difference_at_byte": firstDiff(g, want)})
						}
					})
				}
			}
		}
	}
	c.Eval(int(histories))
	c.Nontrivial(int(odd))
	c.Count(sub+"/polygons_built_from_used_loops", histories)
	c.Count(sub+"/with_a_loop_that_was_a_hole", odd)
	if c.OnlySub == "" && odd == 0 && c.CapsHit() == 0 {
		panic(core.HarnessError("loop-reuse-histories is vacuous: no reused loop had been a hole"))
	}
}
