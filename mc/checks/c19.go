package checks

import (
	"fmt"
	"math"
	"sort"

	"github.com/golang/geo/r1"
	"github.com/golang/geo/s1"

	"verif/mc/core"
)

// C19 — interval, rectangle and cap algebra is sound with respect to point membership.
//
// Reference model: membership of probe points, evaluated by the check's own
// definition of each type (closed interval on the line; closed arc on the circle
// with the documented inverted / empty / full representations; products for
// rectangles; exact squared chord distance for caps).  For the one-dimensional
// types the probe set is complete: every value of the endpoint alphabet and one
// abstract point inside every gap between consecutive alphabet values (so a gap
// of one ulp, which contains no float, still has a probe).  A gap probe is
// inside / outside an interval only when the whole open gap is; results whose
// endpoints fall strictly inside a gap make the probe "undetermined" and no
// assertion is made for it.
//
// Sub-checks: R1 (r1.Interval), S1 (s1.Interval), R2 (r2.Rect), LL (s2.Rect),
// CAP (s2.Cap), CHORD (s1.ChordAngle arithmetic used by caps).

func init() {
	Registry["C19"] = &Check{Level: "exploration", QuickBudget: 150, ThoroughBudget: 900, Run: runC19}
}

func c19Ulp(x float64, n int) float64 {
	for ; n > 0; n-- {
		x = math.Nextafter(x, math.Inf(1))
	}
	for ; n < 0; n++ {
		x = math.Nextafter(x, math.Inf(-1))
	}
	return x
}

func c19F(x float64) string {
	if x == 0 && math.Signbit(x) {
		return "-0"
	}
	return fmt.Sprintf("%v(%016x)", x, math.Float64bits(x))
}

// c19Vals returns the distinct real values of a float alphabet in ascending order
// (-0 and +0 are one real value).
func c19Vals(fs []float64) []float64 {
	v := append([]float64(nil), fs...)
	sort.Float64s(v)
	out := v[:0]
	for _, x := range v {
		if len(out) == 0 || out[len(out)-1] != x {
			if x == 0 {
				x = 0 // +0
			}
			out = append(out, x)
		}
	}
	return out
}

// ---- line model -------------------------------------------------------------------------

// c19Line is the probe set of the real line: position 2k+1 is the value vals[k],
// position 2k is a point of the open gap below vals[k] (2n: above the last value).
type c19Line struct{ vals []float64 }

func (l c19Line) npos() int { return 2*len(l.vals) + 1 }

func (l c19Line) all() uint64 { return uint64(1)<<uint(l.npos()) - 1 }

func (l c19Line) gap(k int) (float64, float64) {
	g1, g2 := math.Inf(-1), math.Inf(1)
	if k > 0 {
		g1 = l.vals[k-1]
	}
	if k < len(l.vals) {
		g2 = l.vals[k]
	}
	return g1, g2
}

// memb returns the probes certainly inside and certainly outside [lo,hi] (open=false)
// or (lo,hi) (open=true).
func (l c19Line) memb(lo, hi float64, open bool) (in, out uint64) {
	empty := lo > hi || (open && lo >= hi)
	for p := 0; p < l.npos(); p++ {
		bit := uint64(1) << uint(p)
		if empty {
			out |= bit
			continue
		}
		if p&1 == 1 {
			v := l.vals[p/2]
			if (!open && lo <= v && v <= hi) || (open && lo < v && v < hi) {
				in |= bit
			} else {
				out |= bit
			}
			continue
		}
		g1, g2 := l.gap(p / 2)
		if lo <= g1 && g2 <= hi {
			in |= bit
		} else if hi <= g1 || lo >= g2 {
			out |= bit
		}
	}
	return
}

// hull fills the positions between the lowest and highest set bit.
func c19Hull(m uint64) uint64 {
	if m == 0 {
		return 0
	}
	lo, hi := 0, 63
	for m>>uint(lo)&1 == 0 {
		lo++
	}
	for m>>uint(hi)&1 == 0 {
		hi--
	}
	var h uint64
	for p := lo; p <= hi; p++ {
		h |= 1 << uint(p)
	}
	return h
}

type c19Stats struct {
	evals, nontriv int64
}

// ---- R1: r1.Interval ----------------------------------------------------------------------------

func c19R1Alphabets(c *core.Ctx) [][]float64 {
	negZero := math.Copysign(0, -1)
	a := []float64{-2, c19Ulp(-2, 1), c19Ulp(-1, -1), -1, c19Ulp(-1, 1), -5e-324, negZero, 0, 5e-324, 0.5, c19Ulp(1, -1), 1, c19Ulp(1, 1), c19Ulp(2, -1), 2, c19Ulp(2, 1)}
	if !c19Big() {
		return [][]float64{a}
	}
	b := []float64{-1e300, -2, c19Ulp(-2, -1), c19Ulp(-2, 1), -1, -1e-300, c19Ulp(0, -2), -5e-324, negZero, 0, 5e-324, c19Ulp(0, 2), 1e-300, 2.220446049250313e-16, 1e-15, 2e-15,
		c19Ulp(1, -2), c19Ulp(1, -1), 1, c19Ulp(1, 1), c19Ulp(1, 2), 1 + 1e-15, 1 + 2e-15, 1.5, 2, 3, 1e300, math.MaxFloat64, -math.MaxFloat64}
	return [][]float64{a, b}
}

func c19RunR1(c *core.Ctx, al int, fs []float64) {
	const sub = "R1-r1.Interval"
	line := c19Line{c19Vals(fs)}
	type iv struct {
		v        r1.Interval
		in, intr uint64
	}
	var ivs []iv
	for _, lo := range fs {
		for _, hi := range fs {
			x := iv{v: r1.Interval{Lo: lo, Hi: hi}}
			var out uint64
			x.in, out = line.memb(lo, hi, false)
			if x.in|out != line.all() {
				panic(core.HarnessError("C19 R1: undetermined probe for an alphabet interval"))
			}
			x.intr, _ = line.memb(lo, hi, true)
			ivs = append(ivs, x)
		}
	}
	ivs = append(ivs, iv{v: r1.EmptyInterval()})
	str := func(i r1.Interval) string { return "[" + c19F(i.Lo) + "," + c19F(i.Hi) + "]" }
	var st c19Stats
	// unary
	margins := []float64{0, 5e-324, c19Ulp(1, 1) - 1, 0.5, 1, 3, -5e-324, -0.5, -1, -3}
	for ai, A := range ivs {
		if c.Skip(sub, c19TF, al, ai, -1) {
			continue
		}
		cas := []int{c19TF, al, ai, -1}
		det := func(extra ...any) any {
			return map[string]any{"a": str(A.v), "more": fmt.Sprint(extra...)}
		}
		c.Guard(sub, cas, func() any { return det() }, func() {
			a := A.v
			st.evals++
			if a.IsEmpty() != (A.in == 0) {
				c.Violate(sub, "wrong-answer", "r1 IsEmpty disagrees with membership", cas, det())
			}
			for k, v := range line.vals {
				bit := uint64(1) << uint(2*k+1)
				for _, p := range []float64{v, -v} {
					if p != v && v != 0 {
						continue // only the two zeros are distinct floats with one real value
					}
					if a.Contains(p) != (A.in&bit != 0) {
						c.Violate(sub, "wrong-answer", "r1 Contains(point) disagrees with lo <= p <= hi", cas, det("p=", c19F(p)))
					}
					if a.InteriorContains(p) != (A.intr&bit != 0) {
						c.Violate(sub, "wrong-answer", "r1 InteriorContains(point) disagrees with lo < p < hi", cas, det("p=", c19F(p)))
					}
					r := a.AddPoint(p)
					rin, rout := line.memb(r.Lo, r.Hi, false)
					want := c19Hull(A.in | bit)
					if rin != want || rin|rout != line.all() {
						c.Violate(sub, "wrong-answer", "r1 AddPoint is not the smallest interval containing the interval and the point", cas, det("p=", c19F(p), " got=", str(r)))
					}
					if !a.IsEmpty() {
						q := a.ClampPoint(p)
						want := p
						if p < a.Lo {
							want = a.Lo
						} else if p > a.Hi {
							want = a.Hi
						}
						if !(a.Lo <= q && q <= a.Hi) {
							c.Violate(sub, "wrong-answer", "r1 ClampPoint lands outside the interval", cas, det("p=", c19F(p), " got=", c19F(q)))
						} else if q != want {
							c.Violate(sub, "wrong-answer", "r1 ClampPoint is not the closest point of the interval", cas, det("p=", c19F(p), " got=", c19F(q)))
						}
					}
					st.evals += 4
				}
			}
			for _, m := range margins {
				r := a.Expanded(m)
				rin, rout := line.memb(r.Lo, r.Hi, false)
				switch {
				case a.IsEmpty():
					if !r.IsEmpty() {
						c.Violate(sub, "wrong-answer", "r1 Expanded of an empty interval is not empty", cas, det("margin=", m, " got=", str(r)))
					}
				case m >= 0:
					if A.in&rout != 0 {
						c.Violate(sub, "wrong-answer", "r1 Expanded(margin >= 0) loses a point of the interval", cas, det("margin=", m, " got=", str(r)))
					}
				default:
					if rin&^A.in != 0 {
						c.Violate(sub, "wrong-answer", "r1 Expanded(margin < 0) contains a point outside the interval", cas, det("margin=", m, " got=", str(r)))
					}
				}
				st.evals++
			}
			if !a.ApproxEqual(a) || !a.Equal(a) {
				c.Violate(sub, "wrong-answer", "r1 ApproxEqual/Equal is not reflexive", cas, det())
			}
		})
	}
	// binary
	for ai, A := range ivs {
		for bi, B := range ivs {
			if c.Skip(sub, c19TF, al, ai, bi) {
				continue
			}
			cas := []int{c19TF, al, ai, bi}
			det := func(extra ...any) any {
				return map[string]any{"a": str(A.v), "b": str(B.v), "more": fmt.Sprint(extra...)}
			}
			st.evals++
			if A.in != 0 && B.in != 0 && A.in&B.in != 0 && A.in&^B.in != 0 && B.in&^A.in != 0 {
				st.nontriv++
			}
			c.Guard(sub, cas, func() any { return det() }, func() {
				a, b := A.v, B.v
				if got, want := a.ContainsInterval(b), B.in&^A.in == 0; got != want {
					c.Violate(sub, "wrong-answer", fmt.Sprintf("r1 ContainsInterval=%v but membership says %v", got, want), cas, det())
				}
				if got, want := a.InteriorContainsInterval(b), B.in&^A.intr == 0; got != want {
					c.Violate(sub, "wrong-answer", fmt.Sprintf("r1 InteriorContainsInterval=%v but membership says %v", got, want), cas, det())
				}
				if got, want := a.Intersects(b), A.in&B.in != 0; got != want {
					c.Violate(sub, "wrong-answer", fmt.Sprintf("r1 Intersects=%v but membership says %v", got, want), cas, det())
				}
				if got, want := a.InteriorIntersects(b), A.intr&B.in != 0; got != want {
					c.Violate(sub, "wrong-answer", fmt.Sprintf("r1 InteriorIntersects=%v but membership says %v", got, want), cas, det())
				}
				if got, want := a.Equal(b), A.in == B.in; got != want {
					c.Violate(sub, "wrong-answer", fmt.Sprintf("r1 Equal=%v but the intervals contain the same points=%v", got, want), cas, det())
				}
				u := a.Union(b)
				uin, uout := line.memb(u.Lo, u.Hi, false)
				if (A.in|B.in)&uout != 0 {
					c.Violate(sub, "wrong-answer", "r1 Union misses a point of an operand", cas, det("got=", str(u)))
				} else if uin != c19Hull(A.in|B.in) {
					c.Violate(sub, "wrong-answer", "r1 Union is not the smallest interval containing both operands", cas, det("got=", str(u)))
				}
				x := a.Intersection(b)
				xin, xout := line.memb(x.Lo, x.Hi, false)
				if (A.in&B.in)&xout != 0 {
					c.Violate(sub, "wrong-answer", "r1 Intersection misses a common point", cas, det("got=", str(x)))
				} else if xin&^(A.in&B.in) != 0 {
					c.Violate(sub, "wrong-answer", "r1 Intersection contains a point that is not common to both operands", cas, det("got=", str(x)))
				}
				if a.ApproxEqual(b) != b.ApproxEqual(a) {
					c.Violate(sub, "wrong-answer", "r1 ApproxEqual is not symmetric", cas, det())
				}
				// directed Hausdorff distance: 0 iff contained; attained at an endpoint of a
				d := a.DirectedHausdorffDistance(b)
				switch {
				case a.IsEmpty():
					if d != 0 {
						c.Violate(sub, "wrong-answer", "r1 DirectedHausdorffDistance of an empty interval is not 0", cas, det("got=", d))
					}
				case b.IsEmpty():
					if !math.IsInf(d, 1) {
						c.Violate(sub, "wrong-answer", "r1 DirectedHausdorffDistance to an empty interval is not +Inf", cas, det("got=", d))
					}
				default:
					dist := func(p float64) float64 { return math.Max(0, math.Max(b.Lo-p, p-b.Hi)) }
					want := math.Max(dist(a.Lo), dist(a.Hi))
					if d != want || (d == 0) != (B.in&^A.in == 0 && A.in&^B.in == 0 || A.in&^B.in == 0) {
						c.Violate(sub, "wrong-answer", "r1 DirectedHausdorffDistance differs from the largest distance of an endpoint of a to b", cas, det("got=", d, " want=", want))
					}
				}
				st.evals += 9
			})
		}
	}
	c.Sample(map[string]any{"sub": sub, "a": str(ivs[len(ivs)/3].v), "b": str(ivs[len(ivs)/2+1].v), "probe_positions": line.npos()})
	c.Eval(int(st.evals))
	c.Nontrivial(int(st.nontriv))
	c.Count("R1/intervals", int64(len(ivs)))
	c.Count("R1/ordered_pairs", int64(len(ivs)*len(ivs)))
	c.Count("R1/pairs_partially_overlapping", st.nontriv)
	c.Count("R1/probe_positions", int64(line.npos()))
}

// ---- circle model -----------------------------------------------------------------------------

// c19Circle is the probe set of the circle: vals are distinct values in (-π,π]
// ascending, the last one being π (which also stands for -π).  Position 2k+1 is
// vals[k]; position 2k is a point of the open arc between vals[k-1] and vals[k]
// (k = 0: between -π and vals[0]).
type c19Circle struct{ vals []float64 }

func (l c19Circle) npos() int { return 2 * len(l.vals) }

func (l c19Circle) all() uint64 { return uint64(1)<<uint(l.npos()) - 1 }

func c19S1Empty(lo, hi float64) bool { return lo == math.Pi && hi == -math.Pi }
func c19S1Full(lo, hi float64) bool  { return lo == -math.Pi && hi == math.Pi }

// c19S1Valid is the documented validity rule of s1.Interval.
func c19S1Valid(lo, hi float64) bool {
	if math.Abs(lo) > math.Pi || math.Abs(hi) > math.Pi {
		return false
	}
	if lo == -math.Pi && hi != math.Pi {
		return false
	}
	if hi == -math.Pi && lo != math.Pi {
		return false
	}
	return true
}

func (l c19Circle) memb(lo, hi float64, open bool) (in, out uint64) {
	all := l.all()
	if c19S1Empty(lo, hi) {
		return 0, all
	}
	if c19S1Full(lo, hi) {
		return all, 0
	}
	if open && lo == hi {
		return 0, all
	}
	inv := lo > hi
	for p := 0; p < l.npos(); p++ {
		bit := uint64(1) << uint(p)
		if p&1 == 1 {
			v := l.vals[p/2]
			var m bool
			switch {
			case !inv && !open:
				m = lo <= v && v <= hi
			case !inv && open:
				m = lo < v && v < hi
			case inv && !open:
				m = v >= lo || v <= hi
			default:
				m = v > lo || v < hi
			}
			if m {
				in |= bit
			} else {
				out |= bit
			}
			continue
		}
		g1, g2 := -math.Pi, l.vals[p/2]
		if p > 0 {
			g1 = l.vals[p/2-1]
		}
		if !inv {
			if lo <= g1 && g2 <= hi {
				in |= bit
			} else if hi <= g1 || lo >= g2 {
				out |= bit
			}
		} else {
			if g2 <= hi || lo <= g1 {
				in |= bit
			} else if lo >= g2 && hi <= g1 {
				out |= bit
			}
		}
	}
	return
}

func c19S1Alphabets(c *core.Ctx) [][]float64 {
	pi := math.Pi
	negZero := math.Copysign(0, -1)
	a := []float64{-pi, c19Ulp(-pi, 1), c19Ulp(-pi, 2), -3, -pi / 2, c19Ulp(-pi/2, 1), c19Ulp(-pi/2, -1), -1, -5e-324, negZero, 0, 5e-324, 1e-300, 2.220446049e-16, 0.5, 1,
		c19Ulp(pi/2, -1), pi / 2, c19Ulp(pi/2, 1), 2, 3, 3.1, c19Ulp(pi, -2), c19Ulp(pi, -1), pi}
	if !c19Big() {
		return [][]float64{a}
	}
	// around the wrap and around zero, at rounding-unit resolution
	b := []float64{-pi, c19Ulp(-pi, 1), c19Ulp(-pi, 2), c19Ulp(-pi, 3), -pi + 1e-15, -pi + 2e-15, -pi + 1e-8, -3.1, -1e-15, c19Ulp(0, -2), -5e-324, negZero, 0, 5e-324, c19Ulp(0, 2),
		2.220446049e-16, 1e-15, 2e-15, 1e-8, 3.1, pi - 1e-8, pi - 2e-15, pi - 1e-15, c19Ulp(pi, -3), c19Ulp(pi, -2), c19Ulp(pi, -1), pi}
	// quarter points and generic values
	d := []float64{-pi, -3, -2.5, c19Ulp(-pi/2, -2), c19Ulp(-pi/2, -1), -pi / 2, c19Ulp(-pi/2, 1), c19Ulp(-pi/2, 2), -1, -pi / 4, -0.1, 0, 0.1, pi / 4, 1, c19Ulp(pi/2, -2),
		c19Ulp(pi/2, -1), pi / 2, c19Ulp(pi/2, 1), c19Ulp(pi/2, 2), 2, 2.5, 3, pi - 0.1, c19Ulp(pi, -1), pi}
	return [][]float64{a, b, d}
}

type c19S1iv struct {
	v        s1.Interval
	in, intr uint64
}

func c19S1Str(i s1.Interval) string { return "[" + c19F(i.Lo) + "," + c19F(i.Hi) + "]" }

func c19S1Intervals(c *core.Ctx, fs []float64, circ c19Circle) []c19S1iv {
	seen := map[[2]uint64]bool{}
	var ivs []c19S1iv
	add := func(v s1.Interval, how string) {
		if (!c19S1Valid(v.Lo, v.Hi) || !v.IsValid()) && c.OnlySub == "" {
			c.Violate("S1-s1.Interval", "wrong-answer", how+" returns an invalid interval (or IsValid rejects a valid one)", nil, map[string]any{"interval": c19S1Str(v)})
			return
		}
		if !c19S1Valid(v.Lo, v.Hi) || !v.IsValid() {
			return
		}
		k := [2]uint64{math.Float64bits(v.Lo), math.Float64bits(v.Hi)}
		if seen[k] {
			return
		}
		seen[k] = true
		x := c19S1iv{v: v}
		var out uint64
		x.in, out = circ.memb(v.Lo, v.Hi, false)
		if x.in|out != circ.all() {
			panic(core.HarnessError("C19 S1: undetermined probe for an alphabet interval"))
		}
		x.intr, _ = circ.memb(v.Lo, v.Hi, true)
		ivs = append(ivs, x)
	}
	add(s1.EmptyInterval(), "EmptyInterval")
	add(s1.FullInterval(), "FullInterval")
	for _, lo := range fs {
		for _, hi := range fs {
			add(s1.IntervalFromEndpoints(lo, hi), "IntervalFromEndpoints")
		}
	}
	return ivs
}

// c19Arc is the counter-clockwise distance from a to b on the circle, in [0,2π).
func c19Arc(a, b float64) float64 {
	d := b - a
	if d < 0 {
		d += 2 * math.Pi
	}
	return d
}

func c19RunS1(c *core.Ctx, al int, fs []float64) {
	const sub = "S1-s1.Interval"
	var inRange []float64
	for _, f := range fs {
		if f != -math.Pi {
			inRange = append(inRange, f)
		}
	}
	circ := c19Circle{c19Vals(inRange)}
	if circ.vals[len(circ.vals)-1] != math.Pi || circ.npos() > 64 {
		panic(core.HarnessError("C19 S1: alphabet"))
	}
	ivs := c19S1Intervals(c, fs, circ)
	all := circ.all()
	posOf := func(p float64) uint64 {
		if p == -math.Pi {
			p = math.Pi
		}
		for k, v := range circ.vals {
			if v == p {
				return uint64(1) << uint(2*k+1)
			}
		}
		panic(core.HarnessError("C19 S1: probe not in alphabet"))
	}
	var st c19Stats
	var supersetConnected, supersetTwice, exactInter, shrinkOutside int64
	var supersetSample any
	margins := []float64{0, 5e-324, 1e-15, 0.5, math.Pi / 2, math.Pi, c19Ulp(math.Pi, -1), 4, 7, -5e-324, -1e-15, -0.5, -math.Pi / 2, -math.Pi, -4}
	// unary
	for ai, A := range ivs {
		if c.Skip(sub, c19TF, al, ai, -1) {
			continue
		}
		cas := []int{c19TF, al, ai, -1}
		det := func(extra ...any) any { return map[string]any{"a": c19S1Str(A.v), "more": fmt.Sprint(extra...)} }
		c.Guard(sub, cas, func() any { return det() }, func() {
			a := A.v
			st.evals++
			if a.IsEmpty() != (A.in == 0) || a.IsFull() != (A.in == all) {
				c.Violate(sub, "wrong-answer", "s1 IsEmpty/IsFull disagrees with membership", cas, det())
			}
			for _, p := range fs {
				bit := posOf(p)
				if a.Contains(p) != (A.in&bit != 0) {
					c.Violate(sub, "wrong-answer", "s1 Contains(point) disagrees with the documented closed-arc membership", cas, det("p=", c19F(p)))
				}
				if a.InteriorContains(p) != (A.intr&bit != 0) {
					c.Violate(sub, "wrong-answer", "s1 InteriorContains(point) disagrees with open-arc membership", cas, det("p=", c19F(p)))
				}
				r := a.AddPoint(p)
				rin, rout := circ.memb(r.Lo, r.Hi, false)
				if !c19S1Valid(r.Lo, r.Hi) || !r.IsValid() {
					c.Violate(sub, "wrong-answer", "s1 AddPoint returns an invalid interval", cas, det("p=", c19F(p), " got=", c19S1Str(r)))
				} else if (A.in|bit)&rout != 0 {
					c.Violate(sub, "wrong-answer", "s1 AddPoint loses the point or a point of the interval", cas, det("p=", c19F(p), " got=", c19S1Str(r)))
				} else if A.in&bit != 0 && rin != A.in {
					c.Violate(sub, "wrong-answer", "s1 AddPoint of a contained point changes the interval", cas, det("p=", c19F(p), " got=", c19S1Str(r)))
				} else if A.in&bit == 0 && r.Length() > math.Min(c19Arc(a.Lo, p), c19Arc(p, a.Hi))+1e-14 && A.in != 0 {
					c.Violate(sub, "wrong-answer", "s1 AddPoint does not expand by the minimum amount", cas, det("p=", c19F(p), " got=", c19S1Str(r)))
				}
				if A.in != 0 {
					q := a.Project(p)
					pn := p
					if pn == -math.Pi {
						pn = math.Pi
					}
					if math.Abs(q) > math.Pi || !a.Contains(q) {
						c.Violate(sub, "wrong-answer", "s1 Project lands outside the interval", cas, det("p=", c19F(p), " got=", c19F(q)))
					} else if A.in&bit != 0 && q != pn {
						c.Violate(sub, "wrong-answer", "s1 Project moves a point that is inside the interval", cas, det("p=", c19F(p), " got=", c19F(q)))
					} else if A.in&bit == 0 {
						dq := math.Min(c19Arc(q, pn), c19Arc(pn, q))
						best := math.Min(math.Min(c19Arc(a.Lo, pn), c19Arc(pn, a.Lo)), math.Min(c19Arc(a.Hi, pn), c19Arc(pn, a.Hi)))
						if dq > best+1e-14 {
							c.Violate(sub, "wrong-answer", "s1 Project is not the closest point of the interval", cas, det("p=", c19F(p), " got=", c19F(q)))
						}
					}
				}
				st.evals += 4
			}
			for _, m := range margins {
				r := a.Expanded(m)
				rin, rout := circ.memb(r.Lo, r.Hi, false)
				switch {
				case !c19S1Valid(r.Lo, r.Hi) || !r.IsValid():
					c.Violate(sub, "wrong-answer", "s1 Expanded returns an invalid interval", cas, det("margin=", m, " got=", c19S1Str(r)))
				case m >= 0 && a.IsEmpty() && !r.IsEmpty():
					c.Violate(sub, "wrong-answer", "s1 Expanded of an empty interval is not empty", cas, det("margin=", m, " got=", c19S1Str(r)))
				case a.IsFull() && !r.IsFull():
					c.Violate(sub, "wrong-answer", "s1 Expanded of the full interval is not full", cas, det("margin=", m, " got=", c19S1Str(r)))
				case m >= 0 && A.in&rout != 0:
					family := ""
					if a.Lo > a.Hi && !a.IsEmpty() && (a.Hi-a.Lo)+2*math.Pi <= 0 {
						family = " [inverted interval across ±π shorter than the rounding unit of 2π]"
					}
					c.Violate(sub, "wrong-answer", "s1 Expanded(margin >= 0) loses a point of the interval"+family, cas, det("margin=", m, " got=", c19S1Str(r), " Length()=", a.Length()))
				case m < 0 && rin&^A.in != 0:
					// Shrinking is only promised by the doc comment, not by the property (which
					// speaks of expansion keeping points): counted, not asserted.  Observed on
					// the pinned tree: [2.22e-16, -π+ulp].Expanded(-π/2) is an almost full interval.
					shrinkOutside++
				}
				st.evals++
			}
			cm := a.Complement()
			cin, cout := circ.memb(cm.Lo, cm.Hi, false)
			if !c19S1Valid(cm.Lo, cm.Hi) || !cm.IsValid() {
				c.Violate(sub, "wrong-answer", "s1 Complement returns an invalid interval", cas, det("got=", c19S1Str(cm)))
			} else if (cin|A.in) != all || cin|cout != all {
				c.Violate(sub, "wrong-answer", "s1 interval and its Complement do not cover the circle", cas, det("got=", c19S1Str(cm)))
			} else if cin != all&^A.intr {
				c.Violate(sub, "wrong-answer", "s1 Complement is not the complement of the interior", cas, det("got=", c19S1Str(cm)))
			}
			if !a.ApproxEqual(a) {
				c.Violate(sub, "wrong-answer", "s1 ApproxEqual is not reflexive", cas, det())
			}
			st.evals += 2
		})
	}
	// point pairs
	for i, p := range fs {
		for j, q := range fs {
			if c.Skip(sub, c19TF, al, -2-i, j) {
				continue
			}
			r := s1.IntervalFromPointPair(p, q)
			_, rout := circ.memb(r.Lo, r.Hi, false)
			st.evals++
			if !c19S1Valid(r.Lo, r.Hi) || !r.IsValid() || (posOf(p)|posOf(q))&rout != 0 || r.Length() > math.Pi+1e-15 {
				c.Violate(sub, "wrong-answer", "s1 IntervalFromPointPair is not a valid interval of length <= π containing both points", []int{c19TF, al, -2 - i, j},
					map[string]any{"p": c19F(p), "q": c19F(q), "got": c19S1Str(r)})
			}
		}
	}
	// binary
	lock := make(chan struct{}, 1)
	lock <- struct{}{}
	c.ParallelFor(len(ivs), func(ai int) {
		A := ivs[ai]
		var ev, nt, sc, stw, ex int64
		var smp any
		for bi, B := range ivs {
			if c.Skip(sub, c19TF, al, ai, bi) {
				continue
			}
			cas := []int{c19TF, al, ai, bi}
			det := func(extra ...any) any {
				return map[string]any{"a": c19S1Str(A.v), "b": c19S1Str(B.v), "more": fmt.Sprint(extra...)}
			}
			ev += 9
			if A.in&B.in != 0 && A.in&^B.in != 0 && B.in&^A.in != 0 {
				nt++
			}
			c.Guard(sub, cas, func() any { return det() }, func() {
				a, b := A.v, B.v
				if got, want := a.ContainsInterval(b), B.in&^A.in == 0; got != want {
					c.Violate(sub, "wrong-answer", fmt.Sprintf("s1 ContainsInterval=%v but membership says %v", got, want), cas, det())
				}
				if got, want := a.InteriorContainsInterval(b), B.in&^A.intr == 0; got != want {
					c.Violate(sub, "wrong-answer", fmt.Sprintf("s1 InteriorContainsInterval=%v but membership says %v", got, want), cas, det())
				}
				if got, want := a.Intersects(b), A.in&B.in != 0; got != want {
					c.Violate(sub, "wrong-answer", fmt.Sprintf("s1 Intersects=%v but membership says %v", got, want), cas, det())
				}
				if got, want := a.InteriorIntersects(b), A.intr&B.in != 0; got != want {
					c.Violate(sub, "wrong-answer", fmt.Sprintf("s1 InteriorIntersects=%v but membership says %v", got, want), cas, det())
				}
				u := a.Union(b)
				uin, uout := circ.memb(u.Lo, u.Hi, false)
				if !c19S1Valid(u.Lo, u.Hi) || !u.IsValid() {
					c.Violate(sub, "wrong-answer", "s1 Union returns an invalid interval", cas, det("got=", c19S1Str(u)))
				} else if (A.in|B.in)&uout != 0 {
					c.Violate(sub, "wrong-answer", "s1 Union misses a point of an operand", cas, det("got=", c19S1Str(u)))
				} else if uin|uout == all {
					// smallest: no candidate arc made of operand endpoints that contains both is shorter
					best := 2 * math.Pi
					for _, cand := range []s1.Interval{a, b, {Lo: a.Lo, Hi: b.Hi}, {Lo: b.Lo, Hi: a.Hi}} {
						if !c19S1Valid(cand.Lo, cand.Hi) {
							continue
						}
						cin, co := circ.memb(cand.Lo, cand.Hi, false)
						if cin|co == all && (A.in|B.in)&^cin == 0 {
							if l := c19Arc(cand.Lo, cand.Hi); cin != 0 && cin != all && l < best {
								best = l
							}
						}
					}
					if ul := u.Length(); ul > best+1e-14 {
						c.Violate(sub, "wrong-answer", "s1 Union is not the smallest interval containing both operands", cas, det("got=", c19S1Str(u), " length=", ul, " candidate=", best))
					}
				}
				x := a.Intersection(b)
				xin, xout := circ.memb(x.Lo, x.Hi, false)
				common := A.in & B.in
				switch {
				case !c19S1Valid(x.Lo, x.Hi) || !x.IsValid():
					c.Violate(sub, "wrong-answer", "s1 Intersection returns an invalid interval", cas, det("got=", c19S1Str(x)))
				case common&xout != 0:
					c.Violate(sub, "wrong-answer", "s1 Intersection misses a common point", cas, det("got=", c19S1Str(x)))
				case xin&^(A.in|B.in) != 0:
					c.Violate(sub, "wrong-answer", "s1 Intersection contains a point that lies in neither operand", cas, det("got=", c19S1Str(x)))
				case xin == common:
					ex++
				default:
					// a superset of the common points: documented when the operands meet twice
					pieces := 0
					for p := 0; p < circ.npos(); p++ {
						prev := (p + circ.npos() - 1) % circ.npos()
						if common>>uint(p)&1 == 1 && common>>uint(prev)&1 == 0 {
							pieces++
						}
					}
					if pieces >= 2 {
						stw++
					} else {
						sc++
						if smp == nil {
							smp = det("got=", c19S1Str(x))
						}
						// the common part is one arc: the documented result is that arc; allow only a
						// rounding-size excess (Length() comparisons inside Intersection round)
						for _, cand := range []s1.Interval{a, b, {Lo: b.Lo, Hi: a.Hi}, {Lo: a.Lo, Hi: b.Hi}} {
							if !c19S1Valid(cand.Lo, cand.Hi) {
								continue
							}
							if cin, co := circ.memb(cand.Lo, cand.Hi, false); cin == common && cin|co == all {
								if x.Length() > c19Arc(cand.Lo, cand.Hi)+1e-14 {
									c.Violate(sub, "wrong-answer", "s1 Intersection is larger than the single arc common to both operands by more than rounding", cas, det("got=", c19S1Str(x), " common=", c19S1Str(cand)))
								}
								break
							}
						}
					}
				}
				if a.ApproxEqual(b) != b.ApproxEqual(a) {
					c.Violate(sub, "wrong-answer", "s1 ApproxEqual is not symmetric", cas, det())
				}
				// directed Hausdorff distance: 0 when contained, π to the empty interval, and at
				// least the distance of every probe point of a to b
				d := float64(a.DirectedHausdorffDistance(b))
				switch {
				case A.in&^B.in == 0:
					if d != 0 {
						c.Violate(sub, "wrong-answer", "s1 DirectedHausdorffDistance to a containing interval is not 0", cas, det("got=", d))
					}
				case B.in == 0:
					if d != math.Pi {
						c.Violate(sub, "wrong-answer", "s1 DirectedHausdorffDistance to the empty interval is not π", cas, det("got=", d))
					}
				default:
					lower := 0.0
					for k, v := range circ.vals {
						bit := uint64(1) << uint(2*k+1)
						if A.in&bit == 0 || B.in&bit != 0 {
							continue
						}
						dv := math.Min(c19Arc(v, b.Lo), c19Arc(b.Hi, v))
						if b.Lo == -math.Pi {
							dv = 0
						}
						lower = math.Max(lower, dv)
					}
					if d < lower-1e-14 || d > math.Pi+1e-15 || d < 0 {
						c.Violate(sub, "wrong-answer", "s1 DirectedHausdorffDistance is below the distance of a point of a to b, negative, or above π", cas, det("got=", d, " lower_bound=", lower))
					}
				}
			})
		}
		<-lock
		st.evals += ev
		st.nontriv += nt
		supersetConnected += sc
		supersetTwice += stw
		exactInter += ex
		if supersetSample == nil && smp != nil {
			supersetSample = smp
		}
		lock <- struct{}{}
	})
	c.Sample(map[string]any{"sub": sub, "a": c19S1Str(ivs[len(ivs)/3].v), "b": c19S1Str(ivs[len(ivs)/2+1].v), "probe_positions": circ.npos()})
	c.Eval(int(st.evals))
	c.Nontrivial(int(st.nontriv))
	c.Count("S1/intervals", int64(len(ivs)))
	c.Count("S1/ordered_pairs", int64(len(ivs)*len(ivs)))
	c.Count("S1/pairs_partially_overlapping", st.nontriv)
	c.Count("S1/probe_positions", int64(circ.npos()))
	c.Count("S1/intersection_exact", exactInter)
	c.Count("S1/intersection_superset_operands_meet_twice(documented)", supersetTwice)
	c.Count("S1/intersection_superset_of_a_one-arc_common_part_by_at_most_1e-14(Length_rounding;excess_asserted<=1e-14)", supersetConnected)
	c.Count("S1/expanded_negative_margin_result_not_inside_the_interval(doc comment only, not asserted)", shrinkOutside)
	if supersetSample != nil {
		c.Note("s1_intersection_not_smallest_example", supersetSample)
	}
}

// c19TF is the tier coordinate (0 quick, 1 thorough) that leads every case index.
var c19TF int

func c19Big() bool { return c19TF == 1 }

func runC19(c *core.Ctx) {
	c19TF = 0
	if !c.Quick() {
		c19TF = 1
	}
	if c.OnlySub != "" && len(c.OnlyCase) > 0 {
		c19TF = c.OnlyCase[0]
	}
	c.Rule = "R1/S1: every interval over the endpoint alphabet (all ordered endpoint pairs: normal, empty, inverted, singleton, full), every ordered pair of intervals for the binary operations, every alphabet value as point argument; probes = every alphabet value and one point in every gap between consecutive values. R2/LL: rectangles as products of such intervals, every ordered pair, probes = product of the one-dimensional probe sets. CAP: every ordered pair of caps over centres x radii (plus empty/full), probes placed on rays from each centre at distances r/2, r-m, r+m and classified with exact arithmetic. Non-trivial = ordered pairs whose operands overlap partially (common points and points in only one of them)"
	c.Assume = []string{
		"membership of a point in a value is the check's own evaluation of the documented definition of the type (closed interval; closed arc with inverted/empty/full forms; product; squared chord distance computed exactly)",
		"s1 and s2.Rect intersections are asserted in the two sound directions only (every common point; no point in neither operand); a superset of a one-arc intersection is counted, not asserted",
		"cap assertions use probes at least m = 1e-9 rad away from every boundary involved and formula thresholds with the same margin; differences below that margin are invisible",
		"Cap.Expanded is called with non-negative distances only (C++ precondition); s1.Interval arguments are in [-π,π] as documented",
	}
	for al, fs := range c19R1Alphabets(c) {
		c19RunR1(c, al, fs)
	}
	for al, fs := range c19S1Alphabets(c) {
		c19RunS1(c, al, fs)
	}
	c19RunR2(c)
	c19RunLL(c)
	c19RunCap(c)
	c19RunChord(c)
	c19RunExpandNearFull(c)
}
