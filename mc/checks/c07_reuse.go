package checks

import (
	"bytes"
	"fmt"

	"github.com/golang/geo/s2"

	"verif/mc/core"
)

// Sub-check "loop-reuse-relations": polygons assembled from Loop OBJECTS with a history (a loop that
// was a hole or an island of another polygon, a loop decoded from such a loop's encoding, a loop of an
// inverted polygon) must relate to other polygons exactly as polygons assembled from fresh copies of
// the same vertices do: Contains / Intersects in both argument orders against every polygon of a small
// partner set (multi-loop polygons, polygons with holes, single loops), symmetry of Intersects, and
// the complement law after Invert.  Every relation evaluated so far used freshly made loops.
func init() {
	ck := Registry["C07"]
	run := ck.Run
	ck.Run = func(c *core.Ctx) {
		run(c)
		c07LoopReuseRelations(c)
	}
}

func c07LoopReuseRelations(c *core.Ctx) {
	sub := "loop-reuse-relations"
	fams := nestedFamilies(core.Pick(c, []int{4, 12}, []int{3, 4, 12, 36}))
	copyLoops := func(ls []*s2.Loop) []*s2.Loop {
		var out []*s2.Loop
		for _, l := range ls {
			out = append(out, s2.LoopFromPoints(append([]s2.Point(nil), l.Vertices()...)))
		}
		return out
	}
	var judged, fromHole int64
	for fi, fm := range fams {
		k := len(fm.Loops())
		sources := []struct {
			name string
			get  func() []*s2.Loop
		}{
			{"loops of the assembled polygon", func() []*s2.Loop { return s2.PolygonFromLoops(fm.Loops()).Loops() }},
			{"loops of the polygon after Invert", func() []*s2.Loop {
				p := s2.PolygonFromLoops(fm.Loops())
				p.Invert()
				return p.Loops()
			}},
			{"loops decoded from the loop encodings of the polygon's loops", func() []*s2.Loop {
				var out []*s2.Loop
				for _, l := range s2.PolygonFromLoops(fm.Loops()).Loops() {
					var buf bytes.Buffer
					if l.Encode(&buf) != nil {
						return nil
					}
					d := new(s2.Loop)
					if d.Decode(bytes.NewReader(buf.Bytes())) != nil {
						return nil
					}
					out = append(out, d)
				}
				return out
			}},
		}
		// partners: the whole family, every single loop of it, and shell+hole pairs
		mkPartners := func() []*s2.Polygon {
			ps := []*s2.Polygon{s2.PolygonFromLoops(fm.Loops())}
			for i := 0; i < k; i++ {
				ps = append(ps, s2.PolygonFromLoops(copyLoops(fm.Loops()[i:i+1])))
			}
			return ps
		}
		for si, src := range sources {
			n := len(src.get())
			for pick := 0; pick < n; pick++ {
				cas := []int{fi, si, pick}
				if c.Skip(sub, cas...) {
					continue
				}
				detail := func() any { return map[string]any{"family": fm.Name, "source": src.name, "loop": pick} }
				c.Guard(sub, cas, detail, func() {
					used := src.get()[pick]
					if used.IsHole() {
						fromHole++
					}
					freshP := s2.PolygonFromLoops(copyLoops([]*s2.Loop{used}))
					if freshP.Validate() != nil {
						return
					}
					q := s2.PolygonFromLoops([]*s2.Loop{used})
					describe := func(x *s2.Polygon) string {
						var sb bytes.Buffer
						fmt.Fprintf(&sb, "valid=%v hole0=%v|", x.Validate() == nil, x.NumLoops() > 0 && x.Loop(0).IsHole())
						for _, r := range mkPartners() {
							fmt.Fprint(&sb, x.Contains(r), r.Contains(x), x.Intersects(r), r.Intersects(x), ";")
						}
						return sb.String()
					}
					judged++
					want, got := describe(freshP), describe(q)
					if got != want {
						c.Violate(sub, "wrong-answer", "a single-loop polygon built from a loop object that was part of another polygon (or decoded from such a loop) relates to other polygons differently from the polygon built from a fresh copy of the same vertices", cas,
							map[string]any{"family": fm.Name, "source": src.name, "loop": pick, "got": trunc(got, 300), "want": trunc(want, 300), "first_difference_at_byte": firstDiff(got, want)})
						return
					}
					// Intersects is symmetric, and the complement law holds, for the reused polygon
					for ri, r := range mkPartners() {
						if q.Intersects(r) != r.Intersects(q) {
							c.Violate(sub, "wrong-answer", "Intersects is not symmetric for a polygon built from a reused loop object", cas, map[string]any{"family": fm.Name, "source": src.name, "loop": pick, "partner": ri})
							return
						}
					}
					freshP.Invert()
					q.Invert()
					if g, w := describe(q), describe(freshP); g != w {
						c.Violate(sub, "wrong-answer", "the complement of a single-loop polygon built from a reused loop object relates to other polygons differently from the complement of the polygon built from a fresh copy", cas,
							map[string]any{"family": fm.Name, "source": src.name, "loop": pick, "got": trunc(g, 300), "want": trunc(w, 300)})
					}
				})
			}
		}
	}
	c.Eval(int(judged))
	c.Nontrivial(int(fromHole))
	c.Count(sub+"/polygons_from_reused_loops", judged)
	c.Count(sub+"/from_a_loop_that_was_a_hole", fromHole)
	if c.OnlySub == "" && fromHole == 0 && c.CapsHit() == 0 {
		panic(core.HarnessError("loop-reuse-relations is vacuous: no reused loop had been a hole"))
	}
}
