package checks

import (
	"math"

	"github.com/golang/geo/r3"
	"github.com/golang/geo/s2"
	"verif/mc/core"
	"verif/mc/lattice"
	"verif/mc/refmodel"
)

// float-sign-reversal: the plain floating-point orientation test s2.Sign documents exactly one
// guarantee that survives rounding: "If Sign(a,b,c), then !Sign(c,b,a) for all a,b,c" (it holds
// because the reversed call evaluates the bit-for-bit negated expression).  The deciding inputs are
// triples whose determinant is rounding noise: c a rounded linear combination of a and b in general
// position, with its ulp neighbourhood.  Also: where the exact determinant is far above any rounding
// error (|det| > 1e-13) Sign must be the exact sign.
func c02FloatSign(c *core.Ctx) {
	const sub = "float-sign-reversal"
	gen := lattice.PGeneric(!c.Quick())
	type pr struct{ i, j int }
	var prs []pr
	for i := range gen {
		for j := range gen {
			if i != j {
				prs = append(prs, pr{i, j})
			}
		}
	}
	combos := [][2]float64{{1, 1}, {1, -1}, {0.3, 2.1}, {-0.7, 1}, {1, -0.4}, {2.9, 0.17}, {-1.3, -0.6}, {1, 1e-9}, {1e-15, 1}}
	K := core.Pick(c, 1, 2)
	ulps := func(x float64, k int) float64 {
		for ; k > 0; k-- {
			x = math.Nextafter(x, math.Inf(1))
		}
		for ; k < 0; k++ {
			x = math.Nextafter(x, math.Inf(-1))
		}
		return x
	}
	c.ParallelFor(len(prs), func(k int) {
		if c.Expired() {
			return
		}
		a, b := gen[prs[k].i], gen[prs[k].j]
		var ev, noise, bothFalse int64
		for ci, co := range combos {
			base := s2.Point{Vector: a.Mul(co[0]).Add(b.Mul(co[1])).Normalize()}
			for dx := -K; dx <= K; dx++ {
				for dy := -K; dy <= K; dy++ {
					if c.Skip(sub, prs[k].i, prs[k].j, ci, dx, dy) {
						continue
					}
					cc := s2.Point{Vector: r3.Vector{X: ulps(base.X, dx), Y: ulps(base.Y, dy), Z: base.Z}}
					cas := []int{prs[k].i, prs[k].j, ci, dx, dy}
					detail := func() any { return map[string]any{"a": ptStr(a), "b": ptStr(b), "c": ptStr(cc)} }
					c.Guard(sub, cas, detail, func() {
						perm := [3][3]s2.Point{{a, b, cc}, {b, cc, a}, {cc, a, b}}
						for pi, p := range perm {
							ev++
							f, r := s2.Sign(p[0], p[1], p[2]), s2.Sign(p[2], p[1], p[0])
							if f && r {
								c.Violate(sub, "wrong-answer", "Sign(a,b,c) and Sign(c,b,a) are both true (documented guarantee: If Sign(a,b,c), then !Sign(c,b,a))", append(cas, pi), detail())
							}
							if !f && !r {
								bothFalse++
							}
						}
						fd := a.Dot(b.Cross(cc.Vector))
						if math.Abs(fd) < 1e-15 {
							noise++
						} else if math.Abs(fd) > 1e-13 {
							if want := refmodel.ExactDetSign(a, b, cc); s2.Sign(a, b, cc) != (want > 0) {
								c.Violate(sub, "wrong-answer", "Sign differs from the exact sign of a determinant larger than 1e-13", cas, detail())
							}
						}
					})
				}
			}
		}
		c.Eval(int(ev))
		c.Nontrivial(int(noise))
		c.Count("float-sign/evaluations", ev)
		c.Count("float-sign/triples_whose_determinant_is_rounding_noise", noise)
		c.Count("float-sign/call_pairs_both_false", bothFalse)
	})
	// the degenerate alphabet as well: every ordered triple
	pts := lattice.PDeg(!c.Quick())
	var ev int64
	for i, a := range pts {
		for j, b := range pts {
			for k, cc := range pts {
				if c.Skip(sub, -1, i, j, k) {
					continue
				}
				ev++
				if s2.Sign(a, b, cc) && s2.Sign(cc, b, a) {
					c.Violate(sub, "wrong-answer", "Sign(a,b,c) and Sign(c,b,a) are both true (documented guarantee: If Sign(a,b,c), then !Sign(c,b,a))", []int{-1, i, j, k}, map[string]any{"a": ptStr(a), "b": ptStr(b), "c": ptStr(cc)})
				}
			}
		}
	}
	c.Eval(int(ev))
	c.Count("float-sign/degenerate_alphabet_triples", ev)
}

func init() {
	ck := Registry["C02"]
	prev := ck.Run
	ck.Run = func(c *core.Ctx) {
		prev(c)
		c02FloatSign(c)
	}
}
