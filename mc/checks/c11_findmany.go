package checks

import (
	"fmt"
	"sort"

	"github.com/golang/geo/s2"
	"github.com/golang/geo/s2/s2intersect"

	"verif/mc/core"
)

// c11FindManyUnions: s2intersect.Find with many inputs.  For every number of unions N of the list
// (around 64 and 128, where index sets stop fitting in a machine word) and every position t of one
// distinguished union: unions 0 and 1 share the cells c0 and c1, union t additionally covers c1, every
// other union covers its own private cell, and one cell is covered by all unions.  The expected
// result is computed from the leaf-set definition: every leaf is reported under exactly the set of
// indices of the unions that cover it.
func c11FindManyUnions(c *core.Ctx) {
	const sub = "S5-find-many-unions"
	face := s2.CellIDFromFace(3)
	base := face.ChildBeginAtLevel(6)
	cell := func(k int) s2.CellID {
		id := base
		for i := 0; i < k; i++ {
			id = id.Next()
		}
		return id
	}
	ns := core.Pick(c, []int{2, 3, 5, 63, 64, 65, 66, 130}, []int{2, 3, 4, 5, 9, 31, 32, 33, 62, 63, 64, 65, 66, 67, 127, 128, 129, 130, 200})
	var calls int64
	for _, n := range ns {
		// cells: 0 -> c0, 1 -> c1, 2 -> common to all, 3+k -> private cell of union k
		for t := 2; t < n || t == 2; t++ {
			if c.Skip(sub, n, t) {
				continue
			}
			cus := make([]s2.CellUnion, n)
			cover := map[s2.CellID][]int{}
			add := func(u int, id s2.CellID) {
				cus[u] = append(cus[u], id)
				cover[id] = append(cover[id], u)
			}
			for u := 0; u < n; u++ {
				if u < 2 {
					add(u, cell(0))
					add(u, cell(1))
				}
				if u == t && t < n {
					add(u, cell(1))
				}
				add(u, cell(2))
				if u >= 2 {
					add(u, cell(3+u))
				}
			}
			for u := range cus {
				cus[u].Normalize()
			}
			calls++
			cas := []int{n, t}
			detail := func() any { return map[string]any{"unions": n, "distinguished_union": t} }
			c.Guard(sub, cas, detail, func() {
				res := s2intersect.Find(cus)
				got := map[s2.CellID]string{}
				seenSets := map[string]bool{}
				for _, r := range res {
					key := fmt.Sprint(r.Indices)
					if seenSets[key] {
						c.Violate(sub, "wrong-answer", "Find reports the same index set twice", cas, detail())
					}
					seenSets[key] = true
					for _, id := range r.Intersection {
						if _, dup := got[id]; dup {
							c.Violate(sub, "wrong-answer", "Find reports a cell under two index sets", cas, detail())
						}
						got[id] = key
					}
				}
				for id, us := range cover {
					sort.Ints(us)
					if len(us) < 2 {
						if _, ok := got[id]; ok {
							c.Violate(sub, "wrong-answer", "Find reports a cell that only one union covers", cas, detail())
						}
						continue
					}
					if g, ok := got[id]; !ok || g != fmt.Sprint(us) {
						c.Violate(sub, "wrong-answer", "Find reports a cell under an index set that is not exactly the set of unions covering it (many unions)", cas, map[string]any{"unions": n, "distinguished_union": t, "cell": id.String(), "reported": g, "covering": fmt.Sprint(us)})
					}
				}
			})
		}
	}
	c.Eval(int(calls))
	c.Nontrivial(int(calls))
	c.MC(calls, calls, calls)
	c.Count(sub+"/calls", calls)
}
