package checks

import (
	"fmt"
	"math"
	"sort"
	"strings"
	"sync"
	"sync/atomic"

	"github.com/golang/geo/s2"

	"verif/mc/core"
	"verif/mc/lattice"
	"verif/mc/refmodel"
)

// C06 sub-check "index-histories".
//
// Every other part of the C06 check builds an index once and asks once.  Here ONE index (and one set
// of long-lived query objects) lives through a whole history of operations, and the answers at the
// end of the history are judged.  The space is finite and explicit: all legal words up to a depth
// over the alphabet
//
//	Add(k) k=0..4   add catalogue shape k (legal when k is not in the index)
//	Build           ShapeIndex.Build
//	Reset           ShapeIndex.Reset (the shapes can be added again afterwards, same objects)
//	Fresh           ask the panel with query objects constructed now
//	Long            ask the panel with the long-lived query objects, which are created at their
//	                first use and then kept (legal when no update is pending: at the start,
//	                after Build, Reset, Fresh or Long)
//
// started from two states: the empty index, and the index that went through "Add(Polygon40); Build;
// Long" (built, queried, long-lived objects in existence), so that "use, grow, use again" is inside
// the depth bound of the quick tier as well (adding the cluster then splits a cell of that index).
//
// Panel = ContainsPointQuery in the three vertex models (Contains, ShapeContains of every shape in
// the index, ContainingShapes) on a fixed probe set, CrossingEdgeQuery (Crossings of every shape and
// CrossingsEdgeMap, both crossing types) on a fixed set of query edges, and a ShapeIndexIterator
// (full walk, LocatePoint of every probe, LocateCellID of a fixed target set).
//
// Oracle at the end of every history (the last answer of every object is judged):
//
//	(b) reference: the documented vertex model evaluated with exact crossing parity, the exact
//	    crossing test on every edge (both tabulated once per catalogue shape: the answer for a
//	    state is assembled from the shapes that are in the index), the index-structure invariants
//	    of the C06 check (c06Structure) on a dump of the index, the iterator against that dump;
//	(a) fresh objects: the long-lived objects against query objects constructed at the end on the
//	    same index, and those against query objects on a NEW index built directly from new shape
//	    objects in the final state (answers only: the cell structure of an incrementally updated
//	    index is not required to equal that of a directly built one).
//
// No state merging.  Two pure computations are memoised on their complete input: the verdict of
// c06Structure on (shape list, complete dump) and the answers of the directly built index on the
// shape list.

const (
	c06hSub   = "index-histories"
	c06hK     = 5 // catalogue size
	c06hBuild = c06hK
	c06hReset = c06hK + 1
	c06hFresh = c06hK + 2
	c06hLong  = c06hK + 3
	c06hNOps  = c06hK + 4
)

var c06hModelName = [3]string{"Open", "SemiOpen", "Closed"}
var c06hModels = [3]s2.VertexModel{s2.VertexModelOpen, s2.VertexModelSemiOpen, s2.VertexModelClosed}
var c06hTypes = [2]s2.CrossingType{s2.CrossingTypeInterior, s2.CrossingTypeAll}
var c06hTypeName = [2]string{"CrossingTypeInterior", "CrossingTypeAll"}

type c06hStructV struct {
	kind, desc string
	detail     any
}

type c06hWorld struct {
	name    string
	cat     []c06Shape
	table   []s2.Shape // one instance per catalogue entry: geometry for the reference tables only
	refs    [][]*refmodel.Loop
	nEdges  []int
	dim     []int
	probes  []s2.Point
	leaf    []s2.CellID // leaf cell of every probe
	qedges  [][2]s2.Point
	targets []s2.CellID
	isV     [][]bool     // [k][probe]
	inside  [][]bool     // [k][probe], dimension 2 only: exact containment
	wantX   [][][2][]int // [k][query edge][crossing type] sorted edge ids
	touches int          // (query edge, shape edge) pairs that share a vertex / touch
	hotP    []int        // probes whose answer changes when shapes are added: every panel of the long-lived objects ends at one of them and the next one starts there
	hotQ    []int        // query edges used the same way
	onVert  int          // (shape, probe) pairs where the probe is a vertex of the shape

	mu         sync.Mutex
	direct     map[string]*c06hAnswer
	structMemo map[string][]c06hStructV
}

type c06hAnswer struct {
	contains      [3][]bool
	containing    [3][]uint8 // bit k = catalogue shape k; bit 7 = a shape that is not in the index
	shapeContains [3][]uint8
	cross         [2][][][]int // [type][query edge][k]
	emap          [2][][][]int
	emapForeign   [2][]int // entries of the edge map keyed by a shape that is not in the index
	pseq, qseq    []int    // the probes / query edges in the order asked: one hot one, all, one hot one
	// iterator
	cells    []s2.CellID
	cellNil  []bool
	cellKeys []string // deepKey of every index cell (only in judged panels)
	overrun  bool
	locP     []s2.CellID // 0 = LocatePoint returned false
	locC     []int
	locCPos  []s2.CellID // 0 for Disjoint
}

func c06hRad(deg float64) float64 { return deg * math.Pi / 180 }

func c06hNewWorld(name string, ctr s2.Point, big bool) *c06hWorld {
	w := &c06hWorld{name: name, direct: map[string]*c06hAnswer{}, structMemo: map[string][]c06hStructV{}}
	d := lattice.Deg
	cp := func(v []s2.Point) []s2.Point { return append([]s2.Point(nil), v...) }
	pv := cp(s2.RegularLoop(ctr, d(8), 40).Vertices())
	line := []s2.Point{
		lattice.GeoCirclePoint(ctr, c06hRad(12), 0.3), lattice.GeoCirclePoint(ctr, c06hRad(4), 0.3), ctr,
		lattice.GeoCirclePoint(ctr, c06hRad(4), 3.6), lattice.GeoCirclePoint(ctr, c06hRad(12), 3.5), lattice.GeoCirclePoint(ctr, c06hRad(12), 2.0),
	}
	anti := s2.Point{Vector: ctr.Mul(-1)}
	points := []s2.Point{pv[0], ctr, pv[7], lattice.GeoCirclePoint(ctr, c06hRad(5), 1.0), anti}
	ctr3 := lattice.GeoCirclePoint(ctr, c06hRad(6), 1.2)
	outer := cp(s2.RegularLoop(ctr3, d(9), 12).Vertices())
	hole := lattice.GeoReverse(cp(s2.RegularLoop(ctr3, d(3), 7).Vertices()))
	// 30 short edges zig-zagging across polygon edge 3 inside 1/10 of its length
	var cluster []s2.Point
	n := pv[3].Cross(pv[4].Vector).Normalize()
	for i := 0; i <= 30; i++ {
		m := s2.Interpolate(0.45+0.1*float64(i)/30, pv[3], pv[4])
		sgn := 1e-4
		if i%2 == 1 {
			sgn = -1e-4
		}
		cluster = append(cluster, s2.Point{Vector: m.Add(n.Mul(sgn)).Normalize()})
	}
	w.cat = []c06Shape{
		{"Polygon40", func() s2.Shape { return s2.PolygonFromLoops([]*s2.Loop{s2.RegularLoop(ctr, d(8), 40)}) }, polyLoops, false},
		{"Polyline5", func() s2.Shape { pl := s2.Polyline(cp(line)); return &pl }, nil, false},
		{"PointVector5", func() s2.Shape { p := s2.PointVector(cp(points)); return &p }, nil, false},
		{"LaxPolygonWithHole", func() s2.Shape { return s2.LaxPolygonFromPoints([][]s2.Point{cp(outer), cp(hole)}) }, polyLoops, true},
		{"Cluster30", func() s2.Shape { pl := s2.Polyline(cp(cluster)); return &pl }, nil, false},
	}
	for _, sd := range w.cat {
		s := sd.mk()
		w.table = append(w.table, s)
		w.nEdges = append(w.nEdges, s.NumEdges())
		w.dim = append(w.dim, s.Dimension())
		var rl []*refmodel.Loop
		if sd.loops != nil {
			for _, v := range sd.loops(s) {
				rl = append(rl, refmodel.NewLoop(v))
			}
		}
		w.refs = append(w.refs, rl)
	}
	// probes: vertices, edge midpoints, centres and corners of cells of three indexes, far points
	var probes []s2.Point
	step := func(q, t int) int {
		if big {
			return t
		}
		return q
	}
	for i := 0; i < len(pv); i += step(4, 1) {
		probes = append(probes, pv[i])
	}
	probes = append(probes, pv[3], pv[4], pv[7])
	probes = append(probes, line...)
	probes = append(probes, points...)
	probes = append(probes, outer...)
	probes = append(probes, hole...)
	for i := 0; i < len(cluster); i += step(5, 1) {
		probes = append(probes, cluster[i])
	}
	probes = append(probes, s2.Interpolate(0.5, pv[0], pv[1]), s2.Interpolate(0.5, pv[3], pv[4]), s2.Interpolate(0.5, pv[10], pv[11]),
		s2.Interpolate(0.5, outer[0], outer[1]), s2.Interpolate(0.5, hole[0], hole[1]), s2.Interpolate(0.5, cluster[14], cluster[15]))
	cellsOf := func(ks ...int) []s2.CellID {
		ix := s2.NewShapeIndex()
		for _, k := range ks {
			ix.Add(w.cat[k].mk())
		}
		ix.Build()
		var out []s2.CellID
		for _, cl := range ix.VerifIndexDump().Cells {
			out = append(out, cl.ID)
		}
		return out
	}
	all, onlyCluster, onlyPolygon, polygonAndCluster := cellsOf(0, 1, 2, 3, 4), cellsOf(4), cellsOf(0), cellsOf(0, 4)
	for i, id := range all {
		if i%step(5, 2) == 0 {
			probes = append(probes, id.Point())
		}
		if i%step(16, 6) == 0 {
			cl := s2.CellFromCellID(id)
			probes = append(probes, cl.Vertex(0), cl.Vertex(2))
		}
	}
	for i, id := range onlyCluster {
		if i%step(3, 1) == 0 {
			probes = append(probes, id.Point())
		}
	}
	for i, id := range onlyPolygon {
		if i%step(6, 2) == 0 {
			probes = append(probes, id.Point())
		}
	}
	probes = append(probes, lattice.LL(-33, 77), s2.OriginPoint())
	w.probes = lattice.Dedup(probes)
	for _, p := range w.probes {
		w.leaf = append(w.leaf, s2.CellFromPoint(p).ID())
	}
	// vacuity of the catalogue: the cluster must force subdivision, and adding the cluster to an
	// index that holds the polygon must replace existing cells (an existing index cell is split)
	if len(onlyCluster) < 4 {
		panic(core.HarnessError(fmt.Sprintf("index-histories: the 30-edge cluster is indexed in %d cells only (no forced subdivision)", len(onlyCluster))))
	}
	inSecond := map[s2.CellID]bool{}
	for _, id := range polygonAndCluster {
		inSecond[id] = true
	}
	replaced := 0
	for _, id := range onlyPolygon {
		if !inSecond[id] {
			replaced++
		}
	}
	if replaced == 0 {
		panic(core.HarnessError("index-histories: adding the cluster to the index of the polygon replaces no index cell"))
	}
	// query edges
	alpha := []s2.Point{pv[0], pv[20], ctr, cluster[0], cluster[30], outer[0], hole[3], line[0], lattice.LL(5, 170)}
	if big {
		alpha = append(alpha, pv[4], s2.Interpolate(0.5, cluster[14], cluster[15]), anti)
	}
	for i := range alpha {
		for j := i + 1; j < len(alpha); j++ {
			if antipodal(alpha[i], alpha[j]) || alpha[i] == alpha[j] {
				continue
			}
			w.qedges = append(w.qedges, [2]s2.Point{alpha[i], alpha[j]})
			if big || (i+j)%4 == 0 {
				w.qedges = append(w.qedges, [2]s2.Point{alpha[j], alpha[i]})
			}
		}
	}
	// hot probes and query edges: the last question of a long-lived panel is the first question of
	// the next one, and it is one whose answer depends on which shapes are in the index (a vertex of
	// the cluster inside a polygon cell that the cluster splits; the centre, which is a vertex of the
	// polyline and of the point vector, inside the polygon and inside the ring of the lax polygon; a
	// polygon vertex that is also a point of the point vector)
	for _, h := range []s2.Point{cluster[15], ctr, pv[0]} {
		for pi, p := range w.probes {
			if p == h {
				w.hotP = append(w.hotP, pi)
			}
		}
	}
	for _, h := range [][2]s2.Point{{cluster[0], cluster[30]}, {pv[0], pv[20]}, {ctr, outer[0]}} {
		for qi, q := range w.qedges {
			if q == h {
				w.hotQ = append(w.hotQ, qi)
			}
		}
	}
	if len(w.hotP) != 3 || len(w.hotQ) != 3 {
		panic(core.HarnessError("index-histories: hot probes / query edges not found in the alphabets"))
	}
	// LocateCellID targets: face cells, and ancestors / leaves of some probes
	seen := map[s2.CellID]bool{}
	addT := func(id s2.CellID) {
		if !seen[id] {
			seen[id] = true
			w.targets = append(w.targets, id)
		}
	}
	for f := 0; f < 6; f++ {
		addT(s2.CellIDFromFace(f))
	}
	for i, lf := range w.leaf {
		if i%step(6, 2) != 0 {
			continue
		}
		for _, lv := range []int{2, 5, 8, 11, 14, 18, 30} {
			addT(lf.Parent(lv))
		}
	}
	for i, id := range all {
		if i%step(9, 3) == 0 {
			addT(id)
			if id.Level() > 0 {
				addT(id.Parent(id.Level() - 1))
			}
			if !id.IsLeaf() {
				addT(id.Children()[2])
			}
		}
	}
	// reference tables
	w.isV = make([][]bool, c06hK)
	w.inside = make([][]bool, c06hK)
	w.wantX = make([][][2][]int, c06hK)
	for k, s := range w.table {
		w.isV[k] = make([]bool, len(w.probes))
		w.inside[k] = make([]bool, len(w.probes))
		for pi, p := range w.probes {
			w.isV[k][pi] = isVertexOf(s, p)
			if w.isV[k][pi] {
				w.onVert++
			}
			if w.dim[k] == 2 {
				w.inside[k][pi] = refmodel.PolygonContains(w.refs[k], p) != w.cat[k].flip
			}
		}
		w.wantX[k] = make([][2][]int, len(w.qedges))
		for qi, q := range w.qedges {
			for e := 0; e < s.NumEdges(); e++ {
				ed := s.Edge(e)
				switch refmodel.CrossingSign(q[0], q[1], ed.V0, ed.V1) {
				case refmodel.Cross:
					w.wantX[k][qi][0] = append(w.wantX[k][qi][0], e)
					w.wantX[k][qi][1] = append(w.wantX[k][qi][1], e)
				case refmodel.MaybeCross:
					w.wantX[k][qi][1] = append(w.wantX[k][qi][1], e)
					w.touches++
				}
			}
		}
	}
	return w
}

// want is the documented vertex model evaluated on the reference tables.
func (w *c06hWorld) want(k, model, pi int) bool {
	isV := w.isV[k][pi]
	switch {
	case w.dim[k] < 2:
		return model == 2 && isV
	case isV && model == 0:
		return false
	case isV && model == 2:
		return true
	}
	return w.inside[k][pi]
}

// c06hAsk asks the whole panel.  inst[k] is the shape object of catalogue entry k, present the
// catalogue numbers of the shapes in the index in id order.
func c06hAsk(w *c06hWorld, inst []s2.Shape, present []int, cpq [3]*s2.ContainsPointQuery, ceq *s2.CrossingEdgeQuery, it *s2.ShapeIndexIterator, rewind, keys bool, first, last int) *c06hAnswer {
	a := &c06hAnswer{}
	a.pseq = append(a.pseq, w.hotP[first%len(w.hotP)])
	for pi := range w.probes {
		a.pseq = append(a.pseq, pi)
	}
	a.pseq = append(a.pseq, w.hotP[last%len(w.hotP)])
	a.qseq = append(a.qseq, w.hotQ[first%len(w.hotQ)])
	for qi := range w.qedges {
		a.qseq = append(a.qseq, qi)
	}
	a.qseq = append(a.qseq, w.hotQ[last%len(w.hotQ)])
	bitOf := func(s s2.Shape) uint8 {
		for _, k := range present {
			if inst[k] == s {
				return 1 << uint(k)
			}
		}
		return 1 << 7
	}
	np := len(w.probes)
	for mi := range cpq {
		q := cpq[mi]
		a.contains[mi] = make([]bool, len(a.pseq))
		a.containing[mi] = make([]uint8, len(a.pseq))
		a.shapeContains[mi] = make([]uint8, len(a.pseq))
		for pi, px := range a.pseq {
			p := w.probes[px]
			a.contains[mi][pi] = q.Contains(p)
			for _, s := range q.ContainingShapes(p) {
				a.containing[mi][pi] |= bitOf(s)
			}
			for _, k := range present {
				if q.ShapeContains(inst[k], p) {
					a.shapeContains[mi][pi] |= 1 << uint(k)
				}
			}
		}
	}
	for ti, ct := range c06hTypes {
		a.cross[ti] = make([][][]int, len(a.qseq))
		a.emap[ti] = make([][][]int, len(a.qseq))
		a.emapForeign[ti] = make([]int, len(a.qseq))
		for qi, qx := range a.qseq {
			q := w.qedges[qx]
			a.cross[ti][qi] = make([][]int, c06hK)
			a.emap[ti][qi] = make([][]int, c06hK)
			em := ceq.CrossingsEdgeMap(q[0], q[1], ct)
			for s, edges := range em {
				b := bitOf(s)
				if b == 1<<7 {
					a.emapForeign[ti][qi]++
					continue
				}
				for k := 0; k < c06hK; k++ {
					if b == 1<<uint(k) {
						g := append([]int(nil), edges...)
						sort.Ints(g)
						a.emap[ti][qi][k] = g
					}
				}
			}
			for _, k := range present {
				g := append([]int(nil), ceq.Crossings(q[0], q[1], inst[k], ct)...)
				sort.Ints(g)
				a.cross[ti][qi][k] = g
			}
		}
	}
	// iterator
	if rewind {
		it.Begin()
	}
	for steps := 0; !it.Done(); it.Next() {
		if steps++; steps > 100000 {
			a.overrun = true
			break
		}
		a.cells = append(a.cells, it.CellID())
		cell := it.IndexCell()
		a.cellNil = append(a.cellNil, cell == nil)
		if keys {
			a.cellKeys = append(a.cellKeys, deepKey(cell))
		}
	}
	a.locP = make([]s2.CellID, np)
	for pi, p := range w.probes {
		if it.LocatePoint(p) {
			a.locP[pi] = it.CellID()
		}
	}
	a.locC = make([]int, len(w.targets))
	a.locCPos = make([]s2.CellID, len(w.targets))
	for ti, t := range w.targets {
		rel := it.LocateCellID(t)
		a.locC[ti] = int(rel)
		if rel != s2.Disjoint {
			a.locCPos[ti] = it.CellID()
		}
	}
	return a
}

func c06hEqInts(a, b []int) bool {
	if len(a) != len(b) {
		return false
	}
	for i := range a {
		if a[i] != b[i] {
			return false
		}
	}
	return true
}

// c06hPos names the position of a question in a panel.
func c06hPos(i, n int) string {
	switch i {
	case 0:
		return "first question of the panel (the last question of the previous panel of these objects)"
	case n - 1:
		return "last question of the panel"
	}
	return fmt.Sprintf("question %d of the panel", i)
}

type c06hDiff struct {
	fn     string
	detail map[string]any
}

func c06hNames(w *c06hWorld, mask uint8) []string {
	var out []string
	for k := 0; k < c06hK; k++ {
		if mask&(1<<uint(k)) != 0 {
			out = append(out, w.cat[k].name)
		}
	}
	if mask&(1<<7) != 0 {
		out = append(out, "<a shape that is not in the index>")
	}
	return out
}

// c06hDiffRef compares the query answers with the reference tables: first difference per function.
func c06hDiffRef(w *c06hWorld, present []int, a *c06hAnswer) []c06hDiff {
	var out []c06hDiff
	for mi := 0; mi < 3; mi++ {
		var dC, dS, dL bool
		for pi, px := range a.pseq {
			var wantMask uint8
			for _, k := range present {
				if w.want(k, mi, px) {
					wantMask |= 1 << uint(k)
				}
			}
			if !dC && a.contains[mi][pi] != (wantMask != 0) {
				dC = true
				out = append(out, c06hDiff{fmt.Sprintf("ContainsPointQuery.Contains (%s model)", c06hModelName[mi]), map[string]any{"p": ptStr(w.probes[px]), "question": c06hPos(pi, len(a.pseq)), "got": a.contains[mi][pi], "want": wantMask != 0}})
			}
			if !dS && a.shapeContains[mi][pi] != wantMask {
				dS = true
				out = append(out, c06hDiff{fmt.Sprintf("ContainsPointQuery.ShapeContains (%s model)", c06hModelName[mi]), map[string]any{"p": ptStr(w.probes[px]), "question": c06hPos(pi, len(a.pseq)), "got": c06hNames(w, a.shapeContains[mi][pi]), "want": c06hNames(w, wantMask)}})
			}
			if !dL && a.containing[mi][pi] != wantMask {
				dL = true
				out = append(out, c06hDiff{fmt.Sprintf("ContainsPointQuery.ContainingShapes (%s model)", c06hModelName[mi]), map[string]any{"p": ptStr(w.probes[px]), "question": c06hPos(pi, len(a.pseq)), "got": c06hNames(w, a.containing[mi][pi]), "want": c06hNames(w, wantMask)}})
			}
		}
	}
	in := make([]bool, c06hK)
	for _, k := range present {
		in[k] = true
	}
	for ti := 0; ti < 2; ti++ {
		var dX, dM bool
		for qi, qx := range a.qseq {
			q := w.qedges[qx]
			if !dM && a.emapForeign[ti][qi] != 0 {
				dM = true
				out = append(out, c06hDiff{fmt.Sprintf("CrossingEdgeQuery.CrossingsEdgeMap (%s)", c06hTypeName[ti]), map[string]any{"a": ptStr(q[0]), "b": ptStr(q[1]), "question": c06hPos(qi, len(a.qseq)), "got": "an entry for a shape that is not in the index"}})
			}
			for k := 0; k < c06hK; k++ {
				var want []int
				if in[k] {
					want = w.wantX[k][qx][ti]
				}
				if !dX && !c06hEqInts(a.cross[ti][qi][k], want) {
					dX = true
					out = append(out, c06hDiff{fmt.Sprintf("CrossingEdgeQuery.Crossings (%s)", c06hTypeName[ti]), map[string]any{"a": ptStr(q[0]), "b": ptStr(q[1]), "question": c06hPos(qi, len(a.qseq)), "shape": w.cat[k].name, "got": a.cross[ti][qi][k], "want": want}})
				}
				if !dM && !c06hEqInts(a.emap[ti][qi][k], want) {
					dM = true
					out = append(out, c06hDiff{fmt.Sprintf("CrossingEdgeQuery.CrossingsEdgeMap (%s)", c06hTypeName[ti]), map[string]any{"a": ptStr(q[0]), "b": ptStr(q[1]), "question": c06hPos(qi, len(a.qseq)), "shape": w.cat[k].name, "got": a.emap[ti][qi][k], "want": want}})
				}
			}
		}
	}
	return out
}

// c06hDiffAns compares two panels: the query answers, and (iter) the iterator answers as well.
func c06hDiffAns(w *c06hWorld, a, b *c06hAnswer, iter bool) []c06hDiff {
	var out []c06hDiff
	for mi := 0; mi < 3; mi++ {
		var dC, dS, dL bool
		for pi := 1; pi <= len(w.probes); pi++ { // the questions that both panels asked in the same place
			px := a.pseq[pi]
			if !dC && a.contains[mi][pi] != b.contains[mi][pi] {
				dC = true
				out = append(out, c06hDiff{fmt.Sprintf("ContainsPointQuery.Contains (%s model)", c06hModelName[mi]), map[string]any{"p": ptStr(w.probes[px]), "got": a.contains[mi][pi], "other": b.contains[mi][pi]}})
			}
			if !dS && a.shapeContains[mi][pi] != b.shapeContains[mi][pi] {
				dS = true
				out = append(out, c06hDiff{fmt.Sprintf("ContainsPointQuery.ShapeContains (%s model)", c06hModelName[mi]), map[string]any{"p": ptStr(w.probes[px]), "got": c06hNames(w, a.shapeContains[mi][pi]), "other": c06hNames(w, b.shapeContains[mi][pi])}})
			}
			if !dL && a.containing[mi][pi] != b.containing[mi][pi] {
				dL = true
				out = append(out, c06hDiff{fmt.Sprintf("ContainsPointQuery.ContainingShapes (%s model)", c06hModelName[mi]), map[string]any{"p": ptStr(w.probes[px]), "got": c06hNames(w, a.containing[mi][pi]), "other": c06hNames(w, b.containing[mi][pi])}})
			}
		}
	}
	for ti := 0; ti < 2; ti++ {
		var dX, dM bool
		for qi := 1; qi <= len(w.qedges); qi++ {
			q := w.qedges[a.qseq[qi]]
			if !dM && a.emapForeign[ti][qi] != b.emapForeign[ti][qi] {
				dM = true
				out = append(out, c06hDiff{fmt.Sprintf("CrossingEdgeQuery.CrossingsEdgeMap (%s)", c06hTypeName[ti]), map[string]any{"a": ptStr(q[0]), "b": ptStr(q[1]), "got": "entries for shapes that are not in the index"}})
			}
			for k := 0; k < c06hK; k++ {
				if !dX && !c06hEqInts(a.cross[ti][qi][k], b.cross[ti][qi][k]) {
					dX = true
					out = append(out, c06hDiff{fmt.Sprintf("CrossingEdgeQuery.Crossings (%s)", c06hTypeName[ti]), map[string]any{"a": ptStr(q[0]), "b": ptStr(q[1]), "shape": w.cat[k].name, "got": a.cross[ti][qi][k], "other": b.cross[ti][qi][k]}})
				}
				if !dM && !c06hEqInts(a.emap[ti][qi][k], b.emap[ti][qi][k]) {
					dM = true
					out = append(out, c06hDiff{fmt.Sprintf("CrossingEdgeQuery.CrossingsEdgeMap (%s)", c06hTypeName[ti]), map[string]any{"a": ptStr(q[0]), "b": ptStr(q[1]), "shape": w.cat[k].name, "got": a.emap[ti][qi][k], "other": b.emap[ti][qi][k]}})
				}
			}
		}
	}
	if !iter {
		return out
	}
	same := len(a.cells) == len(b.cells) && a.overrun == b.overrun
	for i := 0; same && i < len(a.cells); i++ {
		same = a.cells[i] == b.cells[i] && a.cellNil[i] == b.cellNil[i]
		if same && len(a.cellKeys) > 0 && len(b.cellKeys) > 0 {
			same = a.cellKeys[i] == b.cellKeys[i]
		}
	}
	if !same {
		out = append(out, c06hDiff{"ShapeIndexIterator walk (cell ids and cell contents)", map[string]any{"cells": len(a.cells), "other_cells": len(b.cells)}})
	}
	for pi := range w.probes {
		if a.locP[pi] != b.locP[pi] {
			out = append(out, c06hDiff{"ShapeIndexIterator.LocatePoint", map[string]any{"p": ptStr(w.probes[pi]), "got": a.locP[pi].String(), "other": b.locP[pi].String()}})
			break
		}
	}
	for ti := range w.targets {
		if a.locC[ti] != b.locC[ti] || a.locCPos[ti] != b.locCPos[ti] {
			out = append(out, c06hDiff{"ShapeIndexIterator.LocateCellID", map[string]any{"target": w.targets[ti].String(), "got": fmt.Sprint(a.locC[ti], " ", a.locCPos[ti].String()), "other": fmt.Sprint(b.locC[ti], " ", b.locCPos[ti].String())}})
			break
		}
	}
	return out
}

// c06hDiffIter compares the iterator answers with the dump of the index (brute force over its cells).
func c06hDiffIter(w *c06hWorld, dump s2.VerifIndexState, a *c06hAnswer) []c06hDiff {
	var out []c06hDiff
	same := len(a.cells) == len(dump.Cells) && !a.overrun
	for i := 0; same && i < len(a.cells); i++ {
		same = a.cells[i] == dump.Cells[i].ID && a.cellNil[i] == !dump.Cells[i].InMap
	}
	if !same {
		out = append(out, c06hDiff{"ShapeIndexIterator walk", map[string]any{"cells_walked": len(a.cells), "cells_in_index": len(dump.Cells), "overrun": a.overrun}})
	}
	for pi := range w.probes {
		var want s2.CellID
		for _, cl := range dump.Cells {
			if cl.ID.Contains(w.leaf[pi]) {
				want = cl.ID
				break
			}
		}
		if a.locP[pi] != want {
			out = append(out, c06hDiff{"ShapeIndexIterator.LocatePoint", map[string]any{"p": ptStr(w.probes[pi]), "got": a.locP[pi].String(), "want": want.String()}})
			break
		}
	}
	for ti, t := range w.targets {
		rel, pos := int(s2.Disjoint), s2.CellID(0)
		for _, cl := range dump.Cells {
			if cl.ID.Contains(t) {
				rel, pos = int(s2.Indexed), cl.ID
				break
			}
		}
		if rel == int(s2.Disjoint) {
			for _, cl := range dump.Cells {
				if t.Contains(cl.ID) && (pos == 0 || cl.ID < pos) {
					rel, pos = int(s2.Subdivided), cl.ID
				}
			}
		}
		if a.locC[ti] != rel || a.locCPos[ti] != pos {
			out = append(out, c06hDiff{"ShapeIndexIterator.LocateCellID", map[string]any{"target": t.String(), "got": fmt.Sprint(a.locC[ti], " ", a.locCPos[ti].String()), "want": fmt.Sprint(rel, " ", pos.String())}})
			break
		}
	}
	return out
}

// c06hStructure is the memoised verdict of c06Structure on (shape list, complete dump).
func c06hStructure(c *core.Ctx, w *c06hWorld, present []int, dump s2.VerifIndexState, computed *int64) []c06hStructV {
	key := fmt.Sprint(present) + "|" + dumpKey(dump)
	w.mu.Lock()
	v, ok := w.structMemo[key]
	w.mu.Unlock()
	if ok {
		return v
	}
	co := c06Coll{name: "state " + c06hPresentNames(w, present)}
	var shapes []s2.Shape
	var refs [][]*refmodel.Loop
	var flips []bool
	for _, k := range present {
		co.shapes = append(co.shapes, w.cat[k])
		shapes = append(shapes, w.table[k])
		refs = append(refs, w.refs[k])
		flips = append(flips, w.cat[k].flip)
	}
	scratch := core.NewCtx("C06", c.Tier, "exploration", 0)
	c06Structure(scratch, 0, co, shapes, refs, flips, dump)
	exp := scratch.Export()
	v = []c06hStructV{}
	for _, x := range exp.Violations {
		v = append(v, c06hStructV{x.Kind, x.Desc, x.Detail})
	}
	atomic.AddInt64(computed, 1)
	w.mu.Lock()
	w.structMemo[key] = v
	w.mu.Unlock()
	return v
}

func c06hPresentNames(w *c06hWorld, present []int) string {
	var s []string
	for _, k := range present {
		s = append(s, w.cat[k].name)
	}
	return "[" + strings.Join(s, " ") + "]"
}

// c06hDirect: the answers of fresh query objects on a new index built directly from new shape
// objects in the given state (memoised on the shape list).
func c06hDirect(w *c06hWorld, present []int) *c06hAnswer {
	key := fmt.Sprint(present)
	w.mu.Lock()
	a, ok := w.direct[key]
	w.mu.Unlock()
	if ok {
		return a
	}
	ix := s2.NewShapeIndex()
	inst := make([]s2.Shape, c06hK)
	for _, k := range present {
		inst[k] = w.cat[k].mk()
		ix.Add(inst[k])
	}
	var cpq [3]*s2.ContainsPointQuery
	for mi, m := range c06hModels {
		cpq[mi] = s2.NewContainsPointQuery(ix, m)
	}
	a = c06hAsk(w, inst, present, cpq, s2.NewCrossingEdgeQuery(ix), ix.Iterator(), false, false, 0, 0)
	w.mu.Lock()
	w.direct[key] = a
	w.mu.Unlock()
	return a
}

func c06hOpName(w *c06hWorld, op uint8) string {
	switch {
	case op < c06hK:
		return "Add(" + w.cat[op].name + ")"
	case op == c06hBuild:
		return "Build"
	case op == c06hReset:
		return "Reset"
	case op == c06hFresh:
		return "Fresh"
	}
	return "Long"
}

func c06hHistoryString(w *c06hWorld, ops []uint8) string {
	var s []string
	for _, op := range ops {
		s = append(s, c06hOpName(w, op))
	}
	return strings.Join(s, "; ")
}

// c06hEnumerate lists every legal word of length <= depth after the prefix.
func c06hEnumerate(prefix []uint8, depth int) [][]uint8 {
	var out [][]uint8
	var present uint8
	fresh := true
	step := func(op uint8, present uint8, fresh bool) (uint8, bool, bool) {
		switch {
		case op < c06hK:
			if present&(1<<op) != 0 {
				return 0, false, false
			}
			return present | 1<<op, false, true
		case op == c06hReset:
			return 0, true, true
		case op == c06hLong:
			return present, fresh, fresh
		}
		return present, true, true // Build, Fresh
	}
	for _, op := range prefix {
		var ok bool
		if present, fresh, ok = step(op, present, fresh); !ok {
			panic(core.HarnessError("index-histories: illegal prefix"))
		}
	}
	var rec func(word []uint8, present uint8, fresh bool)
	rec = func(word []uint8, present uint8, fresh bool) {
		out = append(out, append(append([]uint8(nil), prefix...), word...))
		if len(word) == depth {
			return
		}
		for op := uint8(0); op < c06hNOps; op++ {
			if p, f, ok := step(op, present, fresh); ok {
				rec(append(word, op), p, f)
			}
		}
	}
	rec(nil, present, fresh)
	return out
}

type c06hStats struct {
	histories, useModifyUse, longAcrossGrowth, resetReadd, longAfterReset int64
	panelsFresh, panelsLong, structComputed, builds                       int64
}

func c06IndexHistories(c *core.Ctx) {
	depth0, depth1 := core.Pick(c, 3, 5), core.Pick(c, 3, 4)
	c.Rule += "; (6) index-histories: ONE index and one set of long-lived query objects live through every legal operation word up to depth " +
		fmt.Sprint(depth0) + " (after the empty start, " + fmt.Sprint(depth1) + " after the start 'Add(Polygon40); Build; Long'; one depth less in the second and third world of the thorough tier) over {Add(k) for 5 catalogue shapes straddling maxEdgesPerCell=10 and the 27-edge brute-force threshold of CrossingEdgeQuery, Build, Reset, panel with fresh query objects, panel with long-lived query objects}; after every history the last answer of the fresh and of the long-lived ContainsPointQuery (3 models) / CrossingEdgeQuery (2 crossing types) / ShapeIndexIterator must equal the exact reference assembled from per-shape tables, the answers of fresh objects, and the answers of an index built directly in the final state; the index dump must satisfy the structural invariants; non-trivial = histories that use an object, modify the index and use the object again"
	c.Assume = append(c.Assume, "a query object or iterator created earlier may be used again whenever no update of the index is pending (after Build, Reset, or a query through newly constructed objects); an iterator is re-positioned (Begin / Locate*) before it is read")
	if c.Expired() {
		c.CapHit("index-histories: wall budget reached before the sub-check started")
		return
	}
	cs := lattice.Centres()
	type job struct {
		wi  int
		ops []uint8
		pre int
	}
	var worlds []*c06hWorld
	var jobs []job
	prefix := []uint8{0, c06hBuild, c06hLong}
	for wi, pos := range core.Pick(c, []string{"face-edge"}, []string{"face-edge", "cube-corner", "generic"}) {
		w := c06hNewWorld(pos, cs[pos], !c.Quick() && wi == 0)
		worlds = append(worlds, w)
		d0, d1 := depth0, depth1
		if wi > 0 {
			d0, d1 = depth0-1, depth1-1
		}
		for _, h := range c06hEnumerate(nil, d0) {
			jobs = append(jobs, job{wi, h, 0})
		}
		for _, h := range c06hEnumerate(prefix, d1) {
			jobs = append(jobs, job{wi, h, len(prefix)})
		}
		c.Note("index-histories/"+pos, map[string]any{"probes": len(w.probes), "query_edges": len(w.qedges), "locate_targets": len(w.targets),
			"edges_per_shape": w.nEdges, "probe_is_vertex_pairs": w.onVert, "touching_query_edge_pairs": w.touches, "depth_from_empty": d0, "depth_after_prefix": d1})
	}
	var st c06hStats
	var states sync.Map
	var capped, illegal atomic.Bool
	c.ParallelFor(len(jobs), func(ji int) {
		j := jobs[ji]
		if c.Skip(c06hSub, j.wi, ji) {
			return
		}
		if c.Expired() {
			capped.Store(true)
			return
		}
		w := worlds[j.wi]
		cas := []int{j.wi, ji}
		atomic.AddInt64(&st.histories, 1)
		var present []int
		detail := func() any {
			return map[string]any{"world": w.name, "history": c06hHistoryString(w, j.ops), "shapes_in_index_at_the_end": c06hPresentNames(w, present)}
		}
		violate := func(kind, desc string, extra map[string]any) {
			d := detail().(map[string]any)
			for k, v := range extra {
				d[k] = v
			}
			c.Violate(c06hSub, kind, desc, cas, d)
		}
		c.Guard(c06hSub, cas, detail, func() {
			ix := s2.NewShapeIndex()
			inst := make([]s2.Shape, c06hK)
			fresh := true
			var lcpq [3]*s2.ContainsPointQuery
			var lceq *s2.CrossingEdgeQuery
			var lit *s2.ShapeIndexIterator
			haveLong := false
			nLong := 0
			askFresh := func(keys bool) *c06hAnswer {
				var cpq [3]*s2.ContainsPointQuery
				for mi, m := range c06hModels {
					cpq[mi] = s2.NewContainsPointQuery(ix, m)
				}
				atomic.AddInt64(&st.panelsFresh, 1)
				fresh = true
				return c06hAsk(w, inst, present, cpq, s2.NewCrossingEdgeQuery(ix), ix.Iterator(), false, keys, 0, 0)
			}
			askLong := func(keys bool) *c06hAnswer {
				if !haveLong {
					for mi, m := range c06hModels {
						lcpq[mi] = s2.NewContainsPointQuery(ix, m)
					}
					lceq = s2.NewCrossingEdgeQuery(ix)
					lit = ix.Iterator()
					haveLong = true
				}
				atomic.AddInt64(&st.panelsLong, 1)
				nLong++
				return c06hAsk(w, inst, present, lcpq, lceq, lit, true, keys, nLong+1, nLong+2) // starts where the previous one ended
			}
			// classification of the history
			var used, modifiedAfterUse, longAlive, grewAfterLong, resetSeen, resetReadd, resetAfterLong bool
			var last *c06hAnswer
			for oi, op := range j.ops {
				isLast := oi == len(j.ops)-1
				last = nil
				switch {
				case op < c06hK:
					if inst[op] == nil {
						inst[op] = w.cat[op].mk()
					}
					ix.Add(inst[op])
					present = append(present, int(op))
					fresh = false
					if used {
						modifiedAfterUse = true
					}
					if longAlive {
						grewAfterLong = true
					}
					if resetSeen {
						resetReadd = true
					}
				case op == c06hBuild:
					ix.Build()
					fresh = true
					atomic.AddInt64(&st.builds, 1)
				case op == c06hReset:
					ix.Reset()
					present = nil
					fresh = true
					resetSeen = true
					if used {
						modifiedAfterUse = true
					}
					if longAlive {
						resetAfterLong = true
					}
				case op == c06hFresh:
					last = askFresh(isLast)
					used = true
				case op == c06hLong:
					if !fresh {
						illegal.Store(true) // the enumeration is broken: reported as a harness error below
						return
					}
					last = askLong(isLast)
					used, longAlive = true, true
				}
				if got := ix.IsFresh(); got != fresh {
					violate("wrong-answer", "ShapeIndex.IsFresh differs from 'no update is pending' during a history", map[string]any{"after_operation": oi, "got": got, "want": fresh})
				}
			}
			// the judged panels
			var aF, aL *c06hAnswer
			lastOp := uint8(255)
			if len(j.ops) > 0 {
				lastOp = j.ops[len(j.ops)-1]
			}
			switch lastOp {
			case c06hLong:
				aL = last
				aF = askFresh(true)
			case c06hFresh:
				aF = last
				if haveLong {
					aL = askLong(true)
				}
			default:
				aF = askFresh(true)
				if haveLong {
					aL = askLong(true)
				}
			}
			c.Eval(1)
			if modifiedAfterUse {
				atomic.AddInt64(&st.useModifyUse, 1)
				c.Nontrivial(1)
			}
			if grewAfterLong && len(present) > 0 {
				atomic.AddInt64(&st.longAcrossGrowth, 1)
			}
			if resetReadd {
				atomic.AddInt64(&st.resetReadd, 1)
			}
			if resetAfterLong {
				atomic.AddInt64(&st.longAfterReset, 1)
			}
			states.Store(fmt.Sprint(j.wi, present), true)
			// bookkeeping of the index
			if !ix.IsFresh() {
				violate("wrong-answer", "ShapeIndex.IsFresh is false after a query through newly constructed objects", nil)
			}
			wantEdges := 0
			for _, k := range present {
				wantEdges += w.nEdges[k]
			}
			if ix.Len() != len(present) || ix.NumEdges() != wantEdges {
				violate("wrong-answer", "ShapeIndex.Len / NumEdges differ from the shapes added since the last Reset", map[string]any{"len": ix.Len(), "num_edges": ix.NumEdges(), "want_len": len(present), "want_edges": wantEdges})
			}
			for id, k := range present {
				if ix.Shape(int32(id)) != inst[k] {
					violate("wrong-answer", "ShapeIndex.Shape(id) is not the shape that Add returned this id for", map[string]any{"id": id})
				}
			}
			dump := ix.VerifIndexDump()
			for _, v := range c06hStructure(c, w, present, dump, &st.structComputed) {
				violate(v.kind, "index structure after a history: "+v.desc, map[string]any{"structure": v.detail})
			}
			judge := func(who string, a *c06hAnswer) {
				for _, d := range c06hDiffRef(w, present, a) {
					violate("wrong-answer", who+" "+d.fn+" after a history differs from brute force over all edges of the shapes in the index", d.detail)
				}
				for _, d := range c06hDiffIter(w, dump, a) {
					violate("wrong-answer", who+" "+d.fn+" after a history differs from brute force over the cells of the index", d.detail)
				}
			}
			judge("fresh", aF)
			for _, d := range c06hDiffAns(w, aF, c06hDirect(w, present), false) {
				violate("wrong-answer", "fresh "+d.fn+" after a history differs from the same query on an index built directly in the final state", d.detail)
			}
			if aL != nil {
				judge("long-lived", aL)
				for _, d := range c06hDiffAns(w, aL, aF, true) {
					violate("wrong-answer", "long-lived "+d.fn+" differs from a newly constructed object on the same index", d.detail)
				}
			}
			if ji%997 == 0 {
				c.Sample(map[string]any{"world": w.name, "history": c06hHistoryString(w, j.ops), "shapes_at_the_end": c06hPresentNames(w, present), "index_cells": len(dump.Cells), "long_lived_objects": haveLong})
			}
		})
	})
	if illegal.Load() {
		panic(core.HarnessError("index-histories: Long scheduled while an update is pending"))
	}
	if capped.Load() {
		c.CapHit("index-histories: wall budget reached")
	}
	nStates := 0
	states.Range(func(_, _ any) bool { nStates++; return true })
	c.Count("index-histories/histories", st.histories)
	c.Count("index-histories/use_modify_use", st.useModifyUse)
	c.Count("index-histories/long_lived_asked_after_growth", st.longAcrossGrowth)
	c.Count("index-histories/long_lived_asked_after_reset", st.longAfterReset)
	c.Count("index-histories/reset_then_add", st.resetReadd)
	c.Count("index-histories/panels_fresh", st.panelsFresh)
	c.Count("index-histories/panels_long_lived", st.panelsLong)
	c.Count("index-histories/distinct_final_states", int64(nStates))
	c.Count("index-histories/structure_verdicts_computed", st.structComputed)
	if c.OnlySub == "" && !capped.Load() {
		if int(st.histories) != len(jobs) {
			panic(core.HarnessError(fmt.Sprintf("index-histories: %d of %d histories evaluated", st.histories, len(jobs))))
		}
		if st.longAcrossGrowth == 0 || st.resetReadd == 0 || st.longAfterReset == 0 || st.useModifyUse == 0 {
			panic(core.HarnessError("index-histories: no history asks a long-lived object after growth / after Reset, or re-adds after Reset"))
		}
	}
}
