package checks

import (
	"math"

	"github.com/golang/geo/r3"
	"github.com/golang/geo/s2"
	"verif/mc/core"
	"verif/mc/refmodel"
)

// sign-underflow: two unit points that differ only in one tiny coordinate (so that they are
// 2^-1074 .. 2^-500 apart: the regime where the squared edge length, the error bound of
// stableSign, or the determinant itself underflow) against third points that lie on, or a few
// ulps beside, the great circle through them.  The exact determinant of such a triple is of the
// order of the separation times one rounding error, i.e. exactly as large as the rounding noise of
// the float determinant, so a stage that trusts a float determinant without a usable error bound
// answers with the sign of noise.  Every triple is asked in all six argument orders.
func init() {
	ck := Registry["C02"]
	prev := ck.Run
	ck.Run = func(c *core.Ctx) {
		prev(c)
		c02Underflow(c)
	}
}

func c02Underflow(c *core.Ctx) {
	const sub = "sign-underflow"
	exps := []int{-1074, -1022, -1000, -800, -600, -540, -537, -520}
	if !c.Quick() {
		exps = []int{-1074, -1073, -1060, -1022, -1010, -1000, -990, -900, -800, -700, -600, -560, -545, -540, -538, -537, -536, -530, -520, -500}
	}
	tiny := []float64{0}
	for _, e := range exps {
		tiny = append(tiny, math.Ldexp(1, e), -math.Ldexp(1, e))
		if !c.Quick() {
			tiny = append(tiny, math.Ldexp(1.5, e))
		}
	}
	// unit bases in the plane of the two large coordinates (u, v); the third coordinate is the tiny one
	type uv struct{ u, v float64 }
	bases := []uv{{1, 0}, {1, math.Ldexp(5918820729833917, -142)}, {0.6, 0.8}, {1, math.Ldexp(1, -30)}}
	{
		p := s2.PointFromCoords(0.3, 0.5, 0)
		bases = append(bases, uv{p.X, p.Y})
		q := s2.PointFromCoords(1, 2, 0)
		bases = append(bases, uv{q.X, q.Y})
	}
	if c.Quick() {
		bases = bases[:5]
	}
	// third points: s*(u,v) + t*e_tiny, normalized, then moved by whole ulps in u and v
	st := [][2]float64{{1, 1}, {-1, 0.0625}, {0.3, -2}, {-1, 1e-5}}
	if !c.Quick() {
		st = append(st, [2]float64{1, -1e-100}, [2]float64{-0.25, 3}, [2]float64{1, 1e-170})
	}
	K := core.Pick(c, 1, 2)
	mk := func(coord int, u, v, w float64) s2.Point {
		switch coord {
		case 0:
			return s2.Point{Vector: r3.Vector{X: w, Y: u, Z: v}}
		case 1:
			return s2.Point{Vector: r3.Vector{X: v, Y: w, Z: u}}
		}
		return s2.Point{Vector: r3.Vector{X: u, Y: v, Z: w}}
	}
	ulps := func(x float64, k int) float64 {
		for ; k > 0; k-- {
			x = math.Nextafter(x, math.Inf(1))
		}
		for ; k < 0; k++ {
			x = math.Nextafter(x, math.Inf(-1))
		}
		return x
	}
	type job struct{ coord, bi, i, j int }
	var jobs []job
	for coord := 0; coord < 3; coord++ {
		for bi := range bases {
			for i := range tiny {
				for j := i + 1; j < len(tiny); j++ {
					jobs = append(jobs, job{coord, bi, i, j})
				}
			}
		}
	}
	c.ParallelFor(len(jobs), func(k int) {
		if c.Expired() {
			return
		}
		jb := jobs[k]
		bs := bases[jb.bi]
		a := mk(jb.coord, bs.u, bs.v, tiny[jb.i])
		cc := mk(jb.coord, bs.u, bs.v, tiny[jb.j])
		var evals, noisy, stableDecided int64
		for si, s := range st {
			bb := s2.PointFromCoords(s[0]*bs.u, s[0]*bs.v, s[1])
			for du := -K; du <= K; du++ {
				for dv := -K; dv <= K; dv++ {
					if c.Skip(sub, jb.coord, jb.bi, jb.i, jb.j, si, du, dv) {
						continue
					}
					b := mk(jb.coord, ulps(bb.X, du), ulps(bb.Y, dv), bb.Z)
					cas := []int{jb.coord, jb.bi, jb.i, jb.j, si, du, dv}
					detail := func() any { return map[string]any{"a": ptStr(a), "b": ptStr(b), "c": ptStr(cc)} }
					c.Guard(sub, cas, detail, func() {
						want := refmodel.SoSSign(a, b, cc)
						ex := refmodel.ExactDetSign(a, b, cc)
						if ex != 0 {
							noisy++
						}
						perm := [6][3]s2.Point{{a, b, cc}, {b, cc, a}, {cc, a, b}, {cc, b, a}, {b, a, cc}, {a, cc, b}}
						for pi, p := range perm {
							w := want
							if pi >= 3 {
								w = -want
							}
							evals++
							if got := int(s2.RobustSign(p[0], p[1], p[2])); got != w {
								c.Violate(sub, "wrong-answer", "RobustSign differs from the exact sign for two points separated by an amount whose square underflows", append(cas, pi), detail())
							}
							if ss := int(s2.VerifStableSign(p[0], p[1], p[2])); ss != 0 {
								stableDecided++
								e := ex
								if pi >= 3 {
									e = -ex
								}
								if ss != e {
									c.Violate(sub, "wrong-answer", "stableSign returned a non-zero sign that is not the sign of the exact determinant (underflow regime)", append(cas, pi), detail())
								}
							}
						}
					})
				}
			}
		}
		c.Eval(int(evals))
		c.Nontrivial(int(evals))
		c.Count("underflow/evaluations", evals)
		c.Count("underflow/triples_with_non-zero_exact_determinant", noisy)
		c.Count("underflow/decided_by_stableSign", stableDecided)
	})
	if c.Expired() {
		c.CapHit(sub + ": wall budget reached")
	}
}
