package checks

import (
	"fmt"
	"math"

	"github.com/golang/geo/r3"
	"github.com/golang/geo/s2"

	"verif/mc/core"
	"verif/mc/exact"
	"verif/mc/lattice"
	"verif/mc/refmodel"
)

// The loop catalogue of check C18 (DESIGN §4 "Loops", restricted to what the
// property needs).  Every entry is a vertex list; nothing here uses math/rand.

type c18Loop struct {
	name  string
	class string
	v     []s2.Point
}

func c18unit(x, y, z float64) s2.Point {
	return s2.Point{Vector: r3.Vector{X: x, Y: y, Z: z}.Normalize()}
}

// c18Frame returns unit vectors u, w with u x w = c (right-handed frame around c),
// computed without golang/geo's frame code.
func c18Frame(c s2.Point) (u, w r3.Vector) {
	ax := r3.Vector{X: 1}
	if math.Abs(c.Y) < math.Abs(c.X) && math.Abs(c.Y) <= math.Abs(c.Z) {
		ax = r3.Vector{Y: 1}
	} else if math.Abs(c.Z) < math.Abs(c.X) && math.Abs(c.Z) < math.Abs(c.Y) {
		ax = r3.Vector{Z: 1}
	}
	u = c.Cross(ax).Normalize()
	w = c.Cross(u).Normalize()
	return u, w
}

// c18Ngon is the regular n-gon of angular radius r around c, counter-clockwise
// around c (so its interior contains c when r < pi/2).
func c18Ngon(c s2.Point, r float64, n int) []s2.Point {
	u, w := c18Frame(c)
	out := make([]s2.Point, n)
	for i := 0; i < n; i++ {
		th := 2 * math.Pi * float64(i) / float64(n)
		d := u.Mul(math.Cos(th)).Add(w.Mul(math.Sin(th)))
		out[i] = s2.Point{Vector: c.Mul(math.Cos(r)).Add(d.Mul(math.Sin(r))).Normalize()}
	}
	return out
}

type c18Centre struct {
	name string
	p    s2.Point
}

// c18Centres: the 6 face centres (two of them are the poles), the 12 face-edge
// midpoints, the 8 cube corners; in the thorough tier also samples of P-struct
// and the fixed origin point of the containment test.
func c18Centres(big bool) []c18Centre { return c18CentresLevel(map[bool]int{false: 1, true: 2}[big]) }

// c18CentresLevel: level 0 = 3 face centres (one pole), 3 edge midpoints, 2 cube
// corners; level 1 = all 26; level 2 = additionally P-struct samples and the origin.
func c18CentresLevel(level int) []c18Centre {
	big := level >= 2
	var out []c18Centre
	seen := map[r3.Vector]bool{}
	quickKeep := map[string]bool{"face0": true, "face2/pole": true, "face4": true, "edge0": true, "edge4": true, "edge11": true, "corner1": true, "corner6": true}
	add := func(name string, p s2.Point) {
		if level == 0 && !quickKeep[name] {
			return
		}
		if !seen[p.Vector] {
			seen[p.Vector] = true
			out = append(out, c18Centre{name, p})
		}
	}
	axes := []r3.Vector{{X: 1}, {Y: 1}, {Z: 1}, {X: -1}, {Y: -1}, {Z: -1}}
	for i, a := range axes {
		nm := fmt.Sprintf("face%d", i)
		if a.Z != 0 {
			nm += "/pole"
		}
		add(nm, s2.Point{Vector: a})
	}
	k := 0
	for _, sx := range []float64{1, -1} {
		for _, sy := range []float64{1, -1} {
			add(fmt.Sprintf("edge%d", k), c18unit(sx, sy, 0))
			add(fmt.Sprintf("edge%d", k+1), c18unit(sx, 0, sy))
			add(fmt.Sprintf("edge%d", k+2), c18unit(0, sx, sy))
			k += 3
		}
	}
	k = 0
	for _, sx := range []float64{1, -1} {
		for _, sy := range []float64{1, -1} {
			for _, sz := range []float64{1, -1} {
				add(fmt.Sprintf("corner%d", k), c18unit(sx, sy, sz))
				k++
			}
		}
	}
	if big {
		ps := lattice.PStruct(2)
		for i := 5; i < len(ps); i += 97 {
			add(fmt.Sprintf("pstruct%d", i), ps[i])
		}
		add("origin", s2.OriginPoint())
	}
	return out
}

var c18NgonSizes = []int{3, 4, 8, 31, 32, 33, 40, 64, 100}
var c18NgonRadii = []float64{1e-7, 1e-3, 0.1, 1, math.Pi/2 - 1e-3, math.Pi / 2, 2}

func c18NgonCatalogue(big bool) []c18Loop {
	var out []c18Loop
	radii, sizes := c18NgonRadii, c18NgonSizes
	if big {
		radii = []float64{1e-7, 1e-5, 1e-3, 0.01, 0.1, 0.5, 1, 1.5, math.Pi/2 - 1e-3, math.Pi/2 - 1e-6, math.Pi / 2, math.Pi/2 + 1e-6, 2, 3, math.Pi - 1e-3}
		sizes = []int{3, 4, 5, 6, 7, 8, 16, 31, 32, 33, 40, 63, 64, 65, 100, 128}
	}
	for _, ce := range c18CentresLevel(map[bool]int{false: 1, true: 2}[big]) {
		for _, r := range radii {
			for _, n := range sizes {
				out = append(out, c18Loop{
					name:  fmt.Sprintf("%d-gon r=%g at %s", n, r, ce.name),
					class: "ngon", v: c18Ngon(ce.p, r, n)})
			}
		}
	}
	return out
}

// c18CellCatalogue: the four vertices of all cells of level <= 2 and of cells of
// levels up to 30 at face corners, next to the face centre and at a generic place.
func c18CellCatalogue(big bool) []c18Loop {
	var out []c18Loop
	add := func(id s2.CellID) {
		cell := s2.CellFromCellID(id)
		v := []s2.Point{cell.Vertex(0), cell.Vertex(1), cell.Vertex(2), cell.Vertex(3)}
		out = append(out, c18Loop{name: "cell " + id.ToToken(), class: "cell", v: v})
	}
	maxLevel := 2
	if big {
		maxLevel = 3
	}
	for f := 0; f < 6; f++ {
		for lvl := 0; lvl <= maxLevel; lvl++ {
			id := s2.CellIDFromFace(f)
			for c := id.ChildBeginAtLevel(lvl); c != id.ChildEndAtLevel(lvl); c = c.Next() {
				add(c)
			}
		}
	}
	levels := []int{5, 10, 15, 20, 24, 27, 30}
	if big {
		levels = nil
		for l := 4; l <= 30; l++ {
			levels = append(levels, l)
		}
	}
	for f := 0; f < 6; f++ {
		face := s2.CellIDFromFace(f)
		generic := s2.VerifCellIDFromPoint(lattice.LL(10+13*float64(f), -170+57*float64(f)))
		for _, l := range levels {
			add(face.ChildBeginAtLevel(l))                           // face corner
			add(face.ChildEndAtLevel(l).Prev())                      // last cell of the face
			add(s2.VerifCellIDFromPoint(face.Point()).Parent(l))     // next to the face centre
			add(generic.Parent(l))                                   // generic
			add(face.ChildBeginAtLevel(l).Next().Next())             // along a face edge
			add(s2.CellIDFromFacePosLevel(f, 0x0555555555555555, l)) // diagonal pattern
		}
	}
	// dedup by name
	seen := map[string]bool{}
	var ded []c18Loop
	for _, l := range out {
		if !seen[l.name] {
			seen[l.name] = true
			ded = append(ded, l)
		}
	}
	return ded
}

type c18Placement struct {
	name string
	p, t r3.Vector // base point and unit tangent
}

func c18Placements(big bool) []c18Placement {
	mk := func(name string, p, t r3.Vector) c18Placement {
		p = p.Normalize()
		t = t.Sub(p.Mul(t.Dot(p))).Normalize()
		return c18Placement{name, p, t}
	}
	out := []c18Placement{
		mk("equator", r3.Vector{X: 1}, r3.Vector{Y: 1}),
		mk("meridian", r3.Vector{X: 1}, r3.Vector{Z: 1}),
		mk("from-pole", r3.Vector{Z: 1}, r3.Vector{X: 1}),
		mk("face-edge", r3.Vector{X: 1, Y: 1}, r3.Vector{X: -1, Y: 1}),
		mk("cube-corner", r3.Vector{X: 1, Y: 1, Z: 1}, r3.Vector{X: 1, Y: -1}),
		mk("generic", r3.Vector{X: 0.3, Y: -0.5, Z: 0.81}, r3.Vector{X: 0.7, Y: 0.2, Z: -0.1}),
	}
	if big {
		out = append(out,
			mk("across-edge", r3.Vector{X: 1, Y: 1}, r3.Vector{Z: 1}),
			mk("to-pole", r3.Vector{Y: -1}, r3.Vector{Z: 1}),
			mk("origin", s2.OriginPoint().Vector, r3.Vector{X: 1}),
			mk("generic2", r3.Vector{X: -0.6, Y: 0.1, Z: -0.79}, r3.Vector{X: 0.1, Y: 0.9, Z: 0.3}),
		)
	}
	return out
}

func c18Arc(pl c18Placement, s float64) r3.Vector {
	return pl.p.Mul(math.Cos(s)).Add(pl.t.Mul(math.Sin(s)))
}

// c18SliverCatalogue: thin triangles, thin quadrilaterals and thin 22-vertex
// strips along an arc of length ell, of width h (both sides of the arc).
func c18SliverCatalogue(big bool) []c18Loop {
	ells := []float64{1e-6, 1e-3, 0.1, 1, 2, 3, math.Pi - 1e-3}
	hs := []float64{1e-15, 1e-14, -1, 1e-12, 1e-9} // -1: width that makes the area ~1e-14
	if big {
		ells = []float64{1e-7, 1e-6, 1e-4, 1e-3, 1e-2, 0.1, 0.5, 1, 1.5, 2, 2.5, 3, 3.1, math.Pi - 1e-3}
		hs = []float64{1e-15, 3e-15, 1e-14, -1, 1e-13, 1e-12, 1e-10, 1e-9, 1e-6}
	}
	var out []c18Loop
	for _, pl := range c18Placements(big) {
		nrm := pl.p.Cross(pl.t)
		for _, ell := range ells {
			for _, h0 := range hs {
				for _, side := range []float64{1, -1} {
					h := h0
					if h < 0 {
						h = 2e-14 / ell
					}
					if h > ell/4 {
						continue
					}
					off := nrm.Mul(side * h)
					up := func(x r3.Vector) s2.Point { return s2.Point{Vector: x.Add(off).Normalize()} }
					a := s2.Point{Vector: c18Arc(pl, 0).Normalize()}
					b := s2.Point{Vector: c18Arc(pl, ell).Normalize()}
					tag := fmt.Sprintf("%s ell=%g h=%g side=%g", pl.name, ell, h, side)
					out = append(out, c18Loop{"sliver-tri " + tag, "sliver", []s2.Point{a, b, up(c18Arc(pl, ell/2))}})
					out = append(out, c18Loop{"sliver-quad " + tag, "sliver", []s2.Point{a, b, up(c18Arc(pl, ell)), up(c18Arc(pl, 0))}})
					const m = 10
					var strip []s2.Point
					for j := 0; j <= m; j++ {
						strip = append(strip, s2.Point{Vector: c18Arc(pl, ell*float64(j)/m).Normalize()})
					}
					for j := m; j >= 0; j-- {
						strip = append(strip, up(c18Arc(pl, ell*float64(j)/m)))
					}
					out = append(out, c18Loop{"sliver-strip " + tag, "sliver", strip})
				}
			}
		}
	}
	return out
}

// c18LongEdgeCatalogue: triangles with one edge of length pi - eps, and the
// four- and five-vertex loops that drive every branch of the origin switching of
// the triangle fan (the documented example of four points on the equator, and a
// loop with v0/v2 and fan-origin/v3 antipodal pairs).
func c18LongEdgeCatalogue(big bool) []c18Loop {
	epss := []float64{1e-1, 1e-2, 1e-4, 2e-5, 1.1e-5, 0.9e-5, 5e-6, 1e-6, 1e-9, 1e-12, 1e-15}
	phis := []float64{1e-9, 1e-3, 0.5, math.Pi/2 - 1e-3}
	if big {
		epss = append(epss, 0.5, 3e-2, 1e-3, 3e-5, 1.01e-5, 0.99e-5, 1e-7, 1e-8, 1e-10, 1e-13, 1e-14, 3e-16)
		phis = append(phis, 1e-12, 1e-6, 0.1, 1, 1.5)
	}
	var out []c18Loop
	for _, pl := range c18Placements(big) {
		nrm := pl.p.Cross(pl.t)
		for _, eps := range epss {
			for _, phi := range phis {
				for _, side := range []float64{1, -1} {
					a := s2.Point{Vector: pl.p.Normalize()}
					b := s2.Point{Vector: pl.p.Mul(-math.Cos(eps)).Add(pl.t.Mul(math.Sin(eps))).Normalize()}
					c := s2.Point{Vector: pl.t.Mul(math.Cos(phi)).Add(nrm.Mul(side * math.Sin(phi))).Normalize()}
					out = append(out, c18Loop{fmt.Sprintf("long-edge-tri %s eps=%g phi=%g side=%g", pl.name, eps, phi, side),
						"longedge", []s2.Point{a, b, c}})
				}
			}
		}
	}
	// frames for the special loops: cyclic permutations of the axes and one generic frame
	type frame struct{ x, y, z r3.Vector }
	frames := []frame{
		{r3.Vector{X: 1}, r3.Vector{Y: 1}, r3.Vector{Z: 1}},
		{r3.Vector{Y: 1}, r3.Vector{Z: 1}, r3.Vector{X: 1}},
		{r3.Vector{Z: 1}, r3.Vector{X: 1}, r3.Vector{Y: 1}},
	}
	{
		p := r3.Vector{X: 0.3, Y: -0.5, Z: 0.81}.Normalize()
		u, w := c18Frame(s2.Point{Vector: p})
		frames = append(frames, frame{u, w, p})
	}
	ds := []float64{0, 1e-15, -1e-15, 1e-6, -1e-6, 2e-5, -2e-5}
	if big {
		ds = append(ds, 1e-12, -1e-12, 1e-9, -1e-9, 0.9e-5, -0.9e-5, 1.1e-5, -1.1e-5, 1e-3, -1e-3)
	}
	for fi, fr := range frames {
		pt := func(x, y, z float64) s2.Point {
			return s2.Point{Vector: fr.x.Mul(x).Add(fr.y.Mul(y)).Add(fr.z.Mul(z)).Normalize()}
		}
		for _, d1 := range ds {
			for _, d2 := range ds {
				// four points around a great circle (the documented example), v2 and v3 lifted
				out = append(out, c18Loop{fmt.Sprintf("equator-square frame%d d=%g,%g", fi, d1, d2), "longedge",
					[]s2.Point{pt(1, 0, 0), pt(0, 1, 0), pt(-1, 0, d1), pt(0, -1, d2)}})
				// half equator + half meridian: v0/v2 antipodal, and v3 antipodal to the first moved fan origin
				out = append(out, c18Loop{fmt.Sprintf("bent-lune frame%d d=%g,%g", fi, d1, d2), "longedge",
					[]s2.Point{pt(1, 0, 0), pt(0, 1, 0), pt(-1, 0, d1), pt(0, d2, -1)}})
				// six points: the fan origin moves away and back
				out = append(out, c18Loop{fmt.Sprintf("hexa frame%d d=%g,%g", fi, d1, d2), "longedge",
					[]s2.Point{pt(1, 0, 0), pt(0.5, 0.8, 0), pt(-0.5, 0.8, 0), pt(-1, 0, d1), pt(-0.5, -0.8, d2), pt(0.5, -0.8, 0.3)}})
			}
		}
	}
	return out
}

// c18PDegTriples returns the index triples (i<j<k and i<k<j: one representative
// per cyclic class and orientation) of pairwise non-antipodal points of P-deg.
// Cyclic rotations of each triple are enumerated by the rotation sub-check, so
// all ordered triples are covered.
func c18PDegPoints(big bool) []s2.Point { return lattice.PDeg(big) }

// c18DirRelation classifies two distinct points: +1 same direction, -1
// antipodal directions, 0 otherwise (exact).
func c18DirRelation(a, b s2.Point) int {
	ea, eb := exact.FromVector(a.Vector), exact.FromVector(b.Vector)
	if !ea.Cross(eb).IsZero() {
		return 0
	}
	return ea.Dot(eb).Sign()
}

// c18ValidLoop applies the documented preconditions of a loop to a catalogue
// entry: unit-length distinct vertices, no edge between antipodal directions,
// and (when checkSimple) no crossing between non-adjacent edges according to the
// exact reference predicate.  It returns "" or the reason for rejection.
func c18ValidLoop(v []s2.Point, checkSimple bool) string {
	n := len(v)
	if n < 3 {
		return "fewer than 3 vertices"
	}
	seen := map[r3.Vector]bool{}
	for _, p := range v {
		if !p.IsUnit() {
			return "vertex not unit length"
		}
		if seen[p.Vector] {
			return "duplicate vertex"
		}
		seen[p.Vector] = true
	}
	for i := 0; i < n; i++ {
		if c18DirRelation(v[i], v[(i+1)%n]) < 0 {
			return "antipodal edge"
		}
	}
	if checkSimple {
		for i := 0; i < n; i++ {
			for j := i + 2; j < n; j++ {
				if i == 0 && j == n-1 {
					continue
				}
				if refmodel.CrossingSign(v[i], v[(i+1)%n], v[j], v[(j+1)%n]) == refmodel.Cross {
					return "edges cross"
				}
			}
		}
	}
	return ""
}

// c18Filter keeps the valid entries and counts the rejected ones.
func c18Filter(c *core.Ctx, in []c18Loop, checkSimple bool) []c18Loop {
	var out []c18Loop
	for _, l := range in {
		if why := c18ValidLoop(l.v, checkSimple); why != "" {
			c.Count("catalogue_rejected:"+l.class+":"+why, 1)
			continue
		}
		out = append(out, l)
	}
	return out
}

// c18BandCatalogue: loops that are larger than a hemisphere although they contain neither pole and
// do not span all longitudes: the band between two latitudes with a gap of longitudes removed (and
// the same shape tilted into a generic frame).  Their longitude span lies strictly between 180 and
// 360 degrees, the regime in which a bounding rectangle says nothing about the loop's size.
func c18BandCatalogue(big bool) []c18Loop {
	type frame struct{ x, y, z r3.Vector }
	frames := []frame{{r3.Vector{X: 1}, r3.Vector{Y: 1}, r3.Vector{Z: 1}}}
	{
		p := r3.Vector{X: 0.3, Y: -0.5, Z: 0.81}.Normalize()
		u, w := c18Frame(s2.Point{Vector: p})
		frames = append(frames, frame{u, w, p})
	}
	gaps := []float64{40, 150}
	lats := []float64{80, 30}
	if big {
		gaps = append(gaps, 10, 90, 170)
		lats = append(lats, 60, 5)
	}
	var out []c18Loop
	for fi, fr := range frames {
		for _, lat := range lats {
			for _, gap := range gaps {
				for _, gc := range []float64{180, 37} { // where the removed longitudes are centred
					pt := func(la, lo float64) s2.Point {
						q := s2.PointFromLatLng(s2.LatLngFromDegrees(la, lo))
						return s2.Point{Vector: fr.x.Mul(q.X).Add(fr.y.Mul(q.Y)).Add(fr.z.Mul(q.Z)).Normalize()}
					}
					lo0, lo1 := gc+gap/2, gc+360-gap/2 // the band runs from lo0 eastwards to lo1
					steps := 9
					var v []s2.Point
					// north side westwards (interior to the left = south), then south side eastwards
					for i := steps; i >= 0; i-- {
						v = append(v, pt(lat, lo0+(lo1-lo0)*float64(i)/float64(steps)))
					}
					for i := 0; i <= steps; i++ {
						v = append(v, pt(-lat, lo0+(lo1-lo0)*float64(i)/float64(steps)))
					}
					out = append(out, c18Loop{fmt.Sprintf("band frame%d |lat|<%g gap=%g at %g", fi, lat, gap, gc), "band", v})
				}
			}
		}
	}
	return out
}
