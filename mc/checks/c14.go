package checks

import (
	"bufio"
	"encoding/json"
	"fmt"
	"os"
	"os/exec"
	"regexp"
	"runtime"
	"sort"
	"strconv"
	"strings"
	"sync"
	"time"

	"github.com/golang/geo/s1"
	"github.com/golang/geo/s2"
	"github.com/golang/geo/verifshim/vsched"

	"verif/mc/core"
	"verif/mc/sched"
)

// C14 — concurrent read-only queries are safe and serial-equivalent (engine E1).

func init() {
	Registry["C14"] = &Check{Level: "model_checking", QuickBudget: 150, ThoroughBudget: 1500, Run: runC14}
	workers["c14"] = c14Worker
	workers["c14race"] = c14RaceWorker
	workers["c14replay"] = c14ReplayWorker
}

// c14Op is one read-only query issued by one goroutine.
type c14Op struct {
	Name string
	Run  func(sh any) string
}

type c14Scenario struct {
	Name     string
	Mk       func() any // fresh shared geometry (index not yet built)
	Prebuilt bool       // the index is forced before the threads start (control: no writes expected)
	Index    func(sh any) []*s2.ShapeIndex
	Ops      []c14Op
}

func c14Loop(n int) *s2.Loop {
	return s2.RegularLoop(s2.PointFromLatLng(s2.LatLngFromDegrees(20, 30)), s1.Degree*10, n)
}

func c14Points() (in, nearOut, far s2.Point) {
	in = s2.PointFromLatLng(s2.LatLngFromDegrees(20, 30))
	nearOut = s2.PointFromLatLng(s2.LatLngFromDegrees(28.4, 38.9)) // inside the lat-lng bound, outside the loop
	far = s2.PointFromLatLng(s2.LatLngFromDegrees(-40, -100))
	return
}

type c14Index struct {
	ix   *s2.ShapeIndex
	poly *s2.Polygon
	line *s2.Polyline
	pts  *s2.PointVector
}

type c14Pair struct{ a, b *s2.Loop }

type c14PolyPair struct{ a, b *s2.Polygon }

func c14Scenarios() []*c14Scenario {
	in, nearOut, far := c14Points()
	cellIn := s2.CellFromCellID(s2.CellFromPoint(in).ID().Parent(9))
	cellEdge := s2.CellFromCellID(s2.CellFromPoint(c14Loop(40).Vertex(3)).ID().Parent(7))
	loopOps := []c14Op{
		{"Loop.ContainsPoint(inside)", func(sh any) string { return fmt.Sprint(sh.(*s2.Loop).ContainsPoint(in)) }},
		{"Loop.ContainsPoint(in-bound,outside)", func(sh any) string { return fmt.Sprint(sh.(*s2.Loop).ContainsPoint(nearOut)) }},
		{"Loop.ContainsCell(interior cell)", func(sh any) string { return fmt.Sprint(sh.(*s2.Loop).ContainsCell(cellIn)) }},
	}
	mkPoly := func() *s2.Polygon {
		shell := c14Loop(40)
		hole := s2.RegularLoop(in, s1.Degree*3, 36)
		hole.Invert()
		return s2.PolygonFromLoops([]*s2.Loop{shell, hole})
	}
	ringPt := s2.PointFromLatLng(s2.LatLngFromDegrees(20, 36))
	mkIndex := func() any {
		x := &c14Index{ix: s2.NewShapeIndex()}
		x.poly = s2.PolygonFromLoops([]*s2.Loop{c14Loop(40)})
		var ll []s2.LatLng
		for i := 0; i < 12; i++ {
			ll = append(ll, s2.LatLngFromDegrees(8+2*float64(i), 18+2.2*float64(i)))
		}
		x.line = s2.PolylineFromLatLngs(ll)
		pv := s2.PointVector{in, nearOut, far}
		x.pts = &pv
		x.ix.Add(x.poly)
		x.ix.Add(x.line)
		x.ix.Add(x.pts)
		return x
	}
	ea := s2.PointFromLatLng(s2.LatLngFromDegrees(5, 25))
	eb := s2.PointFromLatLng(s2.LatLngFromDegrees(35, 33))
	resStr := func(rs []s2.EdgeQueryResult) string {
		var s []string
		for _, r := range rs {
			s = append(s, fmt.Sprintf("%d/%d@%v", r.ShapeID(), r.EdgeID(), float64(r.Distance())))
		}
		return strings.Join(s, ",")
	}
	indexOps := []c14Op{
		{"ContainsPointQuery.Contains", func(sh any) string {
			x := sh.(*c14Index)
			return fmt.Sprint(s2.NewContainsPointQuery(x.ix, s2.VertexModelSemiOpen).Contains(in))
		}},
		{"CrossingEdgeQuery.Crossings", func(sh any) string {
			x := sh.(*c14Index)
			return fmt.Sprint(s2.NewCrossingEdgeQuery(x.ix).Crossings(ea, eb, x.poly, s2.CrossingTypeAll))
		}},
		{"ClosestEdgeQuery.Distance", func(sh any) string {
			x := sh.(*c14Index)
			q := s2.NewClosestEdgeQuery(x.ix, s2.NewClosestEdgeQueryOptions().IncludeInteriors(false))
			return fmt.Sprint(float64(q.Distance(s2.NewMinDistanceToPointTarget(ringPt))))
		}},
	}
	indexOps2 := []c14Op{
		{"ClosestEdgeQuery.FindEdges(k=3)", func(sh any) string {
			x := sh.(*c14Index)
			q := s2.NewClosestEdgeQuery(x.ix, s2.NewClosestEdgeQueryOptions().MaxResults(3))
			return resStr(q.FindEdges(s2.NewMinDistanceToPointTarget(nearOut)))
		}},
		{"FurthestEdgeQuery.FindEdges(k=1)", func(sh any) string {
			x := sh.(*c14Index)
			q := s2.NewFurthestEdgeQuery(x.ix, s2.NewFurthestEdgeQueryOptions().MaxResults(1))
			return resStr(q.FindEdges(s2.NewMaxDistanceToPointTarget(in)))
		}},
		{"ContainsPointQuery.ContainingShapes", func(sh any) string {
			x := sh.(*c14Index)
			return fmt.Sprint(len(s2.NewContainsPointQuery(x.ix, s2.VertexModelClosed).ContainingShapes(in)))
		}},
	}
	mkPair := func() any {
		a := c14Loop(40)
		b := s2.RegularLoop(s2.PointFromLatLng(s2.LatLngFromDegrees(22, 34)), s1.Degree*4, 36)
		return &c14Pair{a, b}
	}
	return []*c14Scenario{
		{Name: "S1-loop40-unbuilt", Mk: func() any { return c14Loop(40) }, Ops: loopOps,
			Index: func(sh any) []*s2.ShapeIndex { return []*s2.ShapeIndex{sh.(*s2.Loop).VerifIndex()} }},
		{Name: "S1b-loop40-two-threads", Mk: func() any { return c14Loop(40) }, Ops: []c14Op{loopOps[0], {"Loop.IntersectsCell(boundary cell)", func(sh any) string { return fmt.Sprint(sh.(*s2.Loop).IntersectsCell(cellEdge)) }}},
			Index: func(sh any) []*s2.ShapeIndex { return []*s2.ShapeIndex{sh.(*s2.Loop).VerifIndex()} }},
		{Name: "S2-polygon-shell+hole", Mk: func() any { return mkPoly() }, Ops: []c14Op{
			{"Polygon.ContainsPoint(in hole)", func(sh any) string { return fmt.Sprint(sh.(*s2.Polygon).ContainsPoint(in)) }},
			{"Polygon.IntersectsCell", func(sh any) string { return fmt.Sprint(sh.(*s2.Polygon).IntersectsCell(cellEdge)) }},
			{"Polygon.ContainsPoint(in ring)", func(sh any) string { return fmt.Sprint(sh.(*s2.Polygon).ContainsPoint(ringPt)) }},
		}, Index: func(sh any) []*s2.ShapeIndex { return []*s2.ShapeIndex{sh.(*s2.Polygon).VerifIndex()} }},
		{Name: "S3-index-3-shapes", Mk: mkIndex, Ops: indexOps,
			Index: func(sh any) []*s2.ShapeIndex { return []*s2.ShapeIndex{sh.(*c14Index).ix} }},
		{Name: "S3b-index-edge-queries", Mk: mkIndex, Ops: indexOps2,
			Index: func(sh any) []*s2.ShapeIndex { return []*s2.ShapeIndex{sh.(*c14Index).ix} }},
		{Name: "S4-two-loops-relations", Mk: mkPair, Ops: []c14Op{
			{"A.Contains(B)", func(sh any) string { p := sh.(*c14Pair); return fmt.Sprint(p.a.Contains(p.b)) }},
			{"B.Intersects(A)", func(sh any) string { p := sh.(*c14Pair); return fmt.Sprint(p.b.Intersects(p.a)) }},
			{"A.ContainsPoint", func(sh any) string { p := sh.(*c14Pair); return fmt.Sprint(p.a.ContainsPoint(in)) }},
		}, Index: func(sh any) []*s2.ShapeIndex {
			p := sh.(*c14Pair)
			return []*s2.ShapeIndex{p.a.VerifIndex(), p.b.VerifIndex()}
		}},
		{Name: "S6-polygon-16-loops", Mk: func() any {
			// more than 12 loops: the polygon keeps its cumulative edge table and locates loops through it
			var ls []*s2.Loop
			for i := 0; i < 16; i++ {
				ls = append(ls, s2.RegularLoop(s2.PointFromLatLng(s2.LatLngFromDegrees(10+float64(i/4)*6, 20+float64(i%4)*6)), s1.Degree*2, 5))
			}
			return s2.PolygonFromLoops(ls)
		}, Ops: []c14Op{
			{"Polygon16.ContainsPoint(in loop 5)", func(sh any) string {
				return fmt.Sprint(sh.(*s2.Polygon).ContainsPoint(s2.PointFromLatLng(s2.LatLngFromDegrees(16, 26))))
			}},
			{"Polygon16.ContainsPoint(in loop 14)", func(sh any) string {
				return fmt.Sprint(sh.(*s2.Polygon).ContainsPoint(s2.PointFromLatLng(s2.LatLngFromDegrees(28, 32))))
			}},
			{"Polygon16.Edge sweep", func(sh any) string {
				p := sh.(*s2.Polygon)
				h := 0.0
				for e := p.NumEdges() - 1; e >= 0; e -= 7 {
					h += p.Edge(e).V0.X
				}
				return fmt.Sprint(h, p.IntersectsCell(s2.CellFromPoint(s2.PointFromLatLng(s2.LatLngFromDegrees(22, 38)))))
			}},
		}, Index: func(sh any) []*s2.ShapeIndex { return []*s2.ShapeIndex{sh.(*s2.Polygon).VerifIndex()} }},
		{Name: "S7-two-polygons-relations", Mk: func() any {
			b := s2.PolygonFromLoops([]*s2.Loop{s2.RegularLoop(ringPt, s1.Degree*1, 34)})
			return &c14PolyPair{mkPoly(), b}
		}, Ops: []c14Op{
			{"PolygonA.Contains(PolygonB)", func(sh any) string { p := sh.(*c14PolyPair); return fmt.Sprint(p.a.Contains(p.b)) }},
			{"PolygonB.Intersects(PolygonA)", func(sh any) string { p := sh.(*c14PolyPair); return fmt.Sprint(p.b.Intersects(p.a)) }},
			{"PolygonA.ContainsPoint + PolygonB.ContainsCell", func(sh any) string {
				p := sh.(*c14PolyPair)
				return fmt.Sprint(p.a.ContainsPoint(ringPt), p.b.ContainsCell(s2.CellFromCellID(s2.CellFromPoint(ringPt).ID().Parent(14))))
			}},
		}, Index: func(sh any) []*s2.ShapeIndex {
			p := sh.(*c14PolyPair)
			out := []*s2.ShapeIndex{p.a.VerifIndex(), p.b.VerifIndex()}
			for _, l := range append(append([]*s2.Loop(nil), p.a.Loops()...), p.b.Loops()...) {
				out = append(out, l.VerifIndex())
			}
			return out
		}},
		{Name: "S5-loop40-prebuilt", Prebuilt: true, Mk: func() any { l := c14Loop(40); l.VerifIndex().Build(); return l }, Ops: loopOps,
			Index: func(sh any) []*s2.ShapeIndex { return []*s2.ShapeIndex{sh.(*s2.Loop).VerifIndex()} }},
	}
}

// c14CurrentIndexes are the shared indexes of the execution being run (for the state hash).
var c14CurrentIndexes []*s2.ShapeIndex

// buildSched turns a c14 scenario (restricted to the first nThreads ops) into an E1 scenario.
func (s *c14Scenario) buildSched(nThreads int) (*sched.Scenario, []string) {
	ops := s.Ops
	if nThreads < len(ops) {
		ops = ops[:nThreads]
	}
	// Sequential reference: each op on its own fresh geometry, single-threaded.
	expected := make([]string, len(ops))
	for i, op := range ops {
		expected[i] = op.Run(s.Mk())
	}
	// Reference final index state: all ops run sequentially on fresh geometry.
	ref := s.Mk()
	for _, op := range ops {
		op.Run(ref)
	}
	var refDump []string
	for _, ix := range s.Index(ref) {
		refDump = append(refDump, dumpKey(ix.VerifIndexDump()))
	}
	sc := &sched.Scenario{Name: s.Name}
	sc.Make = func() ([]func(), func(r *vsched.Result) []sched.Finding) {
		sh := s.Mk()
		c14CurrentIndexes = s.Index(sh)
		answers := make([]string, len(ops))
		h := &c14Harness{reached: make([]bool, len(ops)), wrote: make([]bool, len(ops))}
		c14H = h
		bodies := make([]func(), len(ops))
		for i := range ops {
			i := i
			bodies[i] = func() { answers[i] = ops[i].Run(sh) }
		}
		check := func(r *vsched.Result) []sched.Finding {
			var fs []sched.Finding
			for i := range ops {
				if answers[i] != expected[i] {
					fs = append(fs, sched.Finding{Kind: "wrong-answer", Desc: fmt.Sprintf("%s returned %s, serial answer is %s", ops[i].Name, answers[i], expected[i])})
				}
			}
			for k, ix := range s.Index(sh) {
				if d := dumpKey(ix.VerifIndexDump()); d != refDump[k] {
					fs = append(fs, sched.Finding{Kind: "wrong-answer", Desc: fmt.Sprintf("final index state differs from a sequentially built index (index %d)", k)})
				}
			}
			if s.Prebuilt && h.writes > 0 {
				fs = append(fs, sched.Finding{Kind: "race", Desc: "queries on an already built index wrote shared index state"})
			}
			return fs
		}
		return bodies, check
	}
	return sc, expected
}

type c14WorkerOut struct {
	Scenario   string           `json:"scenario"`
	Threads    int              `json:"threads"`
	Bound      int              `json:"bound"`
	Shard      int              `json:"shard"`
	Executions int64            `json:"executions"`
	Points     int64            `json:"points"`
	MaxPoints  int              `json:"max_points"`
	Truncated  bool             `json:"truncated"`
	States     int64            `json:"states"`
	MemChecked int64            `json:"mem_accesses_checked"`
	Outcomes   map[string]int64 `json:"outcomes"`
	Builders   map[string]int64 `json:"builders"`
	Reached    []int64          `json:"reached"`
	Failures   []c14Failure     `json:"failures"`
	Expected   []string         `json:"expected"`
}

type c14Failure struct {
	Kind    string   `json:"kind"`
	Desc    string   `json:"desc"`
	Choices []int    `json:"choices"`
	Count   int      `json:"count"`
	Stable  bool     `json:"stable"`
	Trace   []string `json:"trace,omitempty"`
}

// c14InstallStateFns installs the shared-state hashes used by state-caching exploration.
func c14InstallStateFns() {
	// state-caching exploration: the shared state of these scenarios is the build progress of the
	// scenario's indexes (the builder is deterministic, cells are only ever appended during the one
	// build), read through a hook without synchronisation
	vsched.StateFn = func() uint64 {
		h := uint64(1469598103934665603)
		for _, ix := range c14CurrentIndexes {
			st, pend, nc, nm := ix.VerifProgress()
			for _, v := range []uint64{uint64(uint32(st)), uint64(uint32(pend)), uint64(nc), uint64(nm)} {
				h = (h ^ v) * 1099511628211
			}
		}
		return h
	}
	// what a read of one hooked location of one index can observe
	vsched.LocStateFn = func(obj any, loc int) uint64 {
		ix, ok := obj.(*s2.ShapeIndex)
		if !ok || ix == nil {
			return vsched.StateFn()
		}
		_, pend, nc, nm := ix.VerifProgress()
		switch loc {
		case 0: // cells / cellMap
			return uint64(nc)<<32 | uint64(nm)
		case 1: // shapes: never written while queries run (Add is not a query)
			return 0
		default: // pendingAdditionsPos
			return uint64(uint32(pend))
		}
	}
}

// c14Worker: vcheck worker c14 <scenario> <threads> <bound> <shard> <shards> <maxexec>
func c14Worker(args []string) int {
	if len(args) < 6 {
		return 2
	}
	name := args[0]
	threads, _ := strconv.Atoi(args[1])
	bound, _ := strconv.Atoi(args[2])
	shard, _ := strconv.Atoi(args[3])
	shards, _ := strconv.Atoi(args[4])
	maxExec, _ := strconv.ParseInt(args[5], 10, 64)
	runtime.GOMAXPROCS(1)
	installAccessHook()
	var s *c14Scenario
	for _, x := range c14Scenarios() {
		if x.Name == name {
			s = x
		}
	}
	if s == nil {
		fmt.Println("unknown scenario", name)
		return 2
	}
	sc, expected := s.buildSched(threads)
	if bound < 0 {
		c14InstallStateFns()
	}
	out := &c14WorkerOut{Scenario: name, Threads: threads, Bound: bound, Shard: shard, Builders: map[string]int64{}, Reached: make([]int64, threads), Expected: expected}
	fails := map[string]*c14Failure{}
	ex := &sched.Explorer{Sc: sc, Bound: bound, Shard: shard, Shards: shards, MaxExec: maxExec, Unbounded: bound < 0}
	ex.Outcome = func(r *vsched.Result) string {
		h := c14H
		b := "none"
		for i, w := range h.wrote {
			if w {
				if b == "none" {
					b = fmt.Sprintf("T%d", i)
				} else {
					b += fmt.Sprintf("+T%d", i)
				}
			}
		}
		out.Builders[b]++
		for i, r := range h.reached {
			if r {
				out.Reached[i]++
			}
		}
		return fmt.Sprintf("builder=%s races=%d dead=%v", b, len(r.Races), r.Deadlock)
	}
	ex.OnFail = func(choices []int, f sched.Finding, r *vsched.Result) {
		key := f.Kind + "|" + canonDesc(f.Kind, f.Desc)
		if x, ok := fails[key]; ok {
			x.Count++
			return
		}
		fl := &c14Failure{Kind: f.Kind, Desc: canonDesc(f.Kind, f.Desc), Choices: append([]int(nil), choices...), Count: 1, Stable: true}
		// Re-run the recorded schedule 5 times: identical findings are required.
		for k := 0; k < 5; k++ {
			r2, fs2 := sched.RunOnce(sc, choices, k == 0)
			found := false
			for _, g := range fs2 {
				if g.Kind+"|"+canonDesc(g.Kind, g.Desc) == key {
					found = true
				}
			}
			if !found || len(r2.Choices) != len(choices) {
				fl.Stable = false
			}
			if k == 0 {
				ev := r2.Events
				if len(ev) > 120 {
					ev = ev[len(ev)-120:]
				}
				fl.Trace = ev
			}
		}
		fails[key] = fl
	}
	ex.Explore()
	out.Executions = ex.Stats.Executions
	out.Points = ex.Stats.Points
	out.MaxPoints = ex.Stats.MaxPoints
	out.Truncated = ex.Stats.Truncated
	out.States = ex.Stats.StatesSeen
	out.States = ex.Stats.StatesSeen
	out.Outcomes = ex.Stats.Outcomes
	out.MemChecked = vsched.MemAccesses
	for _, f := range fails {
		out.Failures = append(out.Failures, *f)
	}
	b, _ := json.Marshal(out)
	fmt.Println("C14OUT " + string(b))
	return 0
}

type c14Job struct {
	sc      *c14Scenario
	threads int
	bound   int
	shards  int
}

type c14Res struct {
	j    c14Job
	outs []*c14WorkerOut
	err  string
}

func runC14(c *core.Ctx) {
	c.Rule = "every schedule (choice sequence at sync operations, atomic accesses and hooked shared-state accesses) of 2-3 goroutines issuing real read-only queries on fresh shared geometry, explored depth-first up to the stated preemption bound per scenario; non-trivial = executions in which a thread other than the first one performed (part of) the index build or observed the index mid-build"
	c.Assume = []string{
		"sequentially consistent interleavings at sync/atomic operations and verifAccess hooks; weak-memory reorderings are represented by the happens-before race check, not explored",
		"shared memory of package s2 without a hook is covered by the full-memory pass (same exploration, preemption bound 1-3, in a binary whose every access to pointer-reachable or package-level memory of s2 reports to the happens-before check); memory touched only inside other packages (math/big, r3.PreciseVector) and whole-slice operations (copy, append into spare capacity) are covered only by the separate free-running -race pass of the same bodies",
	}
	scs := c14Scenarios()
	if c.OnlySub == "F-first-use" {
		freshReplay(c, "F-first-use")
		return
	}
	if c.OnlySub != "" {
		c14Replay(c, scs)
		return
	}
	var jobs, memJobs []c14Job
	for _, s := range scs {
		if only := os.Getenv("C14_SCENARIO"); only != "" && !strings.HasPrefix(s.Name, only) {
			continue
		}
		maxB3 := core.Pick(c, 2, 3)
		maxB2 := core.Pick(c, 2, 5)
		heavy := strings.HasPrefix(s.Name, "S3b") || strings.HasPrefix(s.Name, "S4") || strings.HasPrefix(s.Name, "S2") || strings.HasPrefix(s.Name, "S7")
		if heavy && c.Quick() {
			maxB3 = 1
		}
		veryHeavy := strings.HasPrefix(s.Name, "S7") // two polygons + their loops: six indexes
		if veryHeavy {
			maxB2, maxB3 = core.Pick(c, 1, 2), core.Pick(c, 1, 1)
		}
		if os.Getenv("C14_UNBOUNDED_ONLY") == "" {
			jobs = append(jobs, c14Job{s, 2, maxB2, core.Pick(c, 1, 4)})
			if len(s.Ops) >= 3 {
				jobs = append(jobs, c14Job{s, 3, maxB3, core.Pick(c, 4, 16)})
			}
		}
		// all interleavings, with state caching (bound -1): two threads always, three threads in the
		// thorough tier
		// two threads: in both tiers; three threads: thorough tier, with a cap on executions for the
		// scenarios whose state space is too large (reported as truncated, i.e. not exhaustive)
		if !(veryHeavy && c.Quick()) {
			jobs = append(jobs, c14Job{s, 2, -1, 1})
		}
		// full-memory race pass (the happens-before check does not need the two accesses to be
		// interleaved, so small bounds already expose every race on a path the threads execute)
		mb2, mb3 := core.Pick(c, 1, 3), core.Pick(c, 1, 2)
		if veryHeavy {
			mb2, mb3 = core.Pick(c, 1, 2), 1 // every execution of S7 checks about a million memory accesses
		}
		memJobs = append(memJobs, c14Job{s, 2, mb2, core.Pick(c, 1, 4)})
		if len(s.Ops) >= 3 {
			memJobs = append(memJobs, c14Job{s, 3, mb3, core.Pick(c, 2, 16)})
		}
		if len(s.Ops) >= 3 && (!c.Quick() || os.Getenv("C14_UNBOUNDED_ONLY") != "") && os.Getenv("C14_TWO_ONLY") == "" {
			jobs = append(jobs, c14Job{s, 3, -1, 1})
		}
	}
	table := c14RunJobs(c, "", jobs)
	c.Note("scenarios", table)
	c.Note("states_definition", "states = distinct outcome classes (builder set, race count, deadlock) summed over scenarios; transitions = scheduling points executed; traces = complete executions, all of them on the implementation itself")
	c14MemPass(c, memJobs)
	if os.Getenv("C14_SCENARIO") == "" || strings.HasPrefix("F-first-use", os.Getenv("C14_SCENARIO")) {
		c14FirstUse(c)
	}
	c14FreeRunningRace(c)
}

// c14MemPass runs the bounded exploration again in the binary whose s2 package is instrumented on
// every access to memory another goroutine could reach (vinstr -mem): the happens-before race check
// then covers all of golang/geo's shared memory, not only the hooked index state.
func c14MemPass(c *core.Ctx, jobs []c14Job) {
	bin := os.Getenv("VERIF_MEM_BIN")
	if bin == "" {
		c.Note("full_memory_race_pass", "skipped: no memory-instrumented binary ("+os.Getenv("VERIF_MEM_SKIPPED")+")")
		return
	}
	table := c14RunJobs(c, bin, jobs)
	c.Note("full_memory_race_pass", table)
}

// c14RunJobs explores every job in worker processes of the given binary ("" = this one) and reports.
func c14RunJobs(c *core.Ctx, bin string, jobs []c14Job) []map[string]any {
	results := make([]c14Res, len(jobs))
	sem := make(chan struct{}, c.Workers)
	var wg sync.WaitGroup
	for ji, j := range jobs {
		results[ji].j = j
		results[ji].outs = make([]*c14WorkerOut, j.shards)
		for sh := 0; sh < j.shards; sh++ {
			wg.Add(1)
			go func(ji, sh int, j c14Job) {
				defer wg.Done()
				sem <- struct{}{}
				defer func() { <-sem }()
				maxExec := strconv.Itoa(core.Pick(c, 0, 1500000)) // per shard; a truncated job is reported, not hidden
				if j.bound < 0 {
					maxExec = strconv.Itoa(core.Pick(c, 60000, 400000))
				}
				so, se, err := runWorkerBin(bin, "c14", j.sc.Name, strconv.Itoa(j.threads), strconv.Itoa(j.bound), strconv.Itoa(sh), strconv.Itoa(j.shards), maxExec)
				var out *c14WorkerOut
				scan := bufio.NewScanner(strings.NewReader(so))
				scan.Buffer(make([]byte, 1<<20), 1<<28)
				for scan.Scan() {
					if strings.HasPrefix(scan.Text(), "C14OUT ") {
						out = &c14WorkerOut{}
						if json.Unmarshal([]byte(scan.Text()[7:]), out) != nil {
							out = nil
						}
					}
				}
				if out == nil {
					results[ji].err = fmt.Sprintf("worker failed: %v\n%s\n%s", err, tail(so, 2000), tail(se, 4000))
					return
				}
				results[ji].outs[sh] = out
			}(ji, sh, j)
		}
	}
	wg.Wait()
	var table []map[string]any
	for _, r := range results {
		if r.err != "" {
			panic(core.HarnessError(r.err))
		}
		var ex, pts, states, memAcc int64
		outcomes := map[string]int64{}
		builders := map[string]int64{}
		reached := make([]int64, r.j.threads)
		maxPts := 0
		for _, o := range r.outs {
			ex += o.Executions
			pts += o.Points
			states += o.States
			memAcc += o.MemChecked
			if o.MaxPoints > maxPts {
				maxPts = o.MaxPoints
			}
			for k, v := range o.Outcomes {
				outcomes[k] += v
			}
			for k, v := range o.Builders {
				builders[k] += v
			}
			for i, v := range o.Reached {
				reached[i] += v
			}
			if o.Truncated {
				c.CapHit(fmt.Sprintf("%s, %d threads, bound %d (-1 = unbounded): exploration truncated after %d executions in one shard", r.j.sc.Name, r.j.threads, r.j.bound, o.Executions))
			}
			for _, f := range o.Failures {
				sub := fmt.Sprintf("%s/threads=%d", r.j.sc.Name, r.j.threads)
				if !f.Stable {
					panic(core.HarnessError(fmt.Sprintf("schedule %v of %s did not reproduce its finding on replay (nondeterminism not owned): %s", f.Choices, sub, f.Desc)))
				}
				c.Violate(r.j.sc.Name, f.Kind, f.Desc, nil, map[string]any{"scenario": r.j.sc.Name, "threads": r.j.threads, "choices": f.Choices, "executions_with_this_failure_in_shard": f.Count, "trace_tail": f.Trace, "memory_instrumented": bin != ""})
			}
		}
		// Vacuity: every thread must reach the shared index in some execution, and
		// (for unbuilt scenarios) more than one thread must have been the builder.
		nontriv := int64(0)
		for k, v := range builders {
			if k != "T0" && k != "none" {
				nontriv += v
			}
		}
		for i, v := range reached {
			if v == 0 {
				c14Vacuity(fmt.Sprintf("scenario %s is vacuous: thread %d never reached the shared index", r.j.sc.Name, i))
			}
		}
		if !r.j.sc.Prebuilt && len(builders) < 2 && r.j.bound != 0 {
			c14Vacuity(fmt.Sprintf("scenario %s is vacuous: only one builder ever (%v)", r.j.sc.Name, builders))
		}
		if bin != "" && memAcc == 0 {
			c14Vacuity("full-memory pass is vacuous: no instrumented access was checked in " + r.j.sc.Name)
		}
		c.Eval(int(ex))
		c.Nontrivial(int(nontriv))
		c.MC(int64(len(outcomes)), pts, ex)
		boundDesc := any(r.j.bound)
		if r.j.bound < 0 {
			boundDesc = "unbounded (all interleavings, state caching)"
			c.MC(states, 0, 0)
		}
		table = append(table, map[string]any{"scenario": r.j.sc.Name, "threads": r.j.threads, "preemption_bound_completed": boundDesc, "distinct_state_choice_pairs": states,
			"executions": ex, "memory_accesses_race_checked": memAcc, "scheduling_points": pts, "max_points_per_execution": maxPts, "distinct_outcomes": len(outcomes), "builders": builders, "threads_reaching_index": reached})
		if len(table) <= 3 {
			c.Sample(map[string]any{"scenario": r.j.sc.Name, "threads": r.j.threads, "ops": opNames(r.j.sc, r.j.threads), "serial_answers": r.outs[0].Expected, "outcome_classes": outcomes})
		}
	}
	return table
}

func opNames(s *c14Scenario, n int) []string {
	var out []string
	for i, o := range s.Ops {
		if i < n {
			out = append(out, o.Name)
		}
	}
	return out
}

func c14Replay(c *core.Ctx, scs []*c14Scenario) {
	installAccessHook()
	d, _ := c.ReplayDetail.(map[string]any)
	if d == nil {
		panic(core.HarnessError("replay file has no detail"))
	}
	name, _ := d["scenario"].(string)
	threads := int(d["threads"].(float64))
	if mi, _ := d["memory_instrumented"].(bool); mi && len(vsched.MemSites) == 0 {
		// found by the full-memory pass: replay in the memory-instrumented binary
		bin := os.Getenv("VERIF_MEM_BIN")
		if bin == "" {
			panic(core.HarnessError("replay needs the memory-instrumented binary (VERIF_MEM_BIN unset)"))
		}
		cj, _ := json.Marshal(d["choices"])
		so, se, err := runWorkerBin(bin, "c14replay", name, strconv.Itoa(threads), string(cj))
		n := 0
		for _, l := range strings.Split(so, "\n") {
			if strings.HasPrefix(l, "C14REPLAY ") {
				parts := strings.SplitN(l[10:], "|", 2)
				if len(parts) == 2 {
					c.Violate(name, parts[0], parts[1], nil, nil)
					n++
				}
			} else if l != "" {
				fmt.Println(l)
			}
		}
		if err != nil || !strings.Contains(so, "C14REPLAY-DONE") {
			panic(core.HarnessError(fmt.Sprintf("replay worker failed: %v\n%s", err, tail(se, 3000))))
		}
		return
	}
	var choices []int
	for _, x := range d["choices"].([]any) {
		choices = append(choices, int(x.(float64)))
	}
	for _, s := range scs {
		if s.Name != name {
			continue
		}
		sc, _ := s.buildSched(threads)
		var first string
		for k := 0; k < 5; k++ {
			r, fs := sched.RunOnce(sc, choices, k == 0)
			var ds []string
			for _, f := range fs {
				ds = append(ds, f.Kind+": "+canonDesc(f.Kind, f.Desc))
			}
			sort.Strings(ds)
			sig := strings.Join(ds, " || ")
			if k == 0 {
				first = sig
				for _, e := range r.Events {
					fmt.Println("   ", e)
				}
				for _, f := range fs {
					c.Violate(s.Name, f.Kind, canonDesc(f.Kind, f.Desc), nil, nil)
				}
			} else if sig != first {
				panic(core.HarnessError("replay is not deterministic: " + first + " vs " + sig))
			}
		}
		fmt.Println("replayed 5x with identical observations:", first)
	}
}

// c14ReplayWorker: vcheck worker c14replay <scenario> <threads> <choices-json>; re-runs one schedule five
// times in this binary and prints its findings.
func c14ReplayWorker(args []string) int {
	if len(args) < 3 {
		return 2
	}
	installAccessHook()
	threads, _ := strconv.Atoi(args[1])
	var choices []int
	if json.Unmarshal([]byte(args[2]), &choices) != nil {
		return 2
	}
	for _, s := range c14Scenarios() {
		if s.Name != args[0] {
			continue
		}
		sc, _ := s.buildSched(threads)
		var first string
		for k := 0; k < 5; k++ {
			_, fs := sched.RunOnce(sc, choices, false)
			var ds []string
			for _, f := range fs {
				ds = append(ds, f.Kind+"|"+canonDesc(f.Kind, f.Desc))
			}
			sort.Strings(ds)
			sig := strings.Join(ds, "\n")
			if k == 0 {
				first = sig
				for _, d := range ds {
					fmt.Println("C14REPLAY " + strings.ReplaceAll(d, "\n", " "))
				}
			} else if sig != first {
				fmt.Println("replay is not deterministic")
				return 2
			}
		}
		fmt.Println("replayed 5x with identical observations")
		fmt.Println("C14REPLAY-DONE")
		return 0
	}
	return 2
}

// ---- free-running pass under the Go race detector ---------------------------

// c14RaceWorker runs the same bodies on real goroutines (real sync, -race build).
func c14RaceWorker(args []string) int {
	iters, _ := strconv.Atoi(args[0])
	for _, s := range c14Scenarios() {
		for it := 0; it < iters; it++ {
			sh := s.Mk()
			var wg sync.WaitGroup
			start := make(chan struct{})
			for i, op := range s.Ops {
				wg.Add(1)
				go func(i int, op c14Op) {
					defer wg.Done()
					<-start
					// enumerated (not random) start jitter
					for k := 0; k < (it/(1+i*3))%7; k++ {
						runtime.Gosched()
					}
					op.Run(sh)
				}(i, op)
			}
			close(start)
			wg.Wait()
		}
	}
	fmt.Println("C14RACE-DONE")
	return 0
}

var reRaceFrame = regexp.MustCompile(`github.com/golang/geo/s2\.([A-Za-z0-9_.()*]+)`)

func c14FreeRunningRace(c *core.Ctx) {
	bin := os.Getenv("VERIF_RACE_BIN")
	if bin == "" {
		c.Note("free_running_race_pass", "skipped: no -race binary (VERIF_RACE_BIN unset)")
		return
	}
	iters := core.Pick(c, 150, 1500)
	cmd := exec.Command(bin, "worker", "c14race", strconv.Itoa(iters))
	cmd.Env = append(os.Environ(), "GORACE=halt_on_error=0 exitcode=0")
	var so, se strings.Builder
	cmd.Stdout = &so
	cmd.Stderr = &se
	// The pass runs on real goroutines with the real sync package: a deadlock of the library hangs
	// it for ever.  Deadlocks are decided by the controlled scheduler, not here, so the pass gets a
	// generous horizon and a run that exceeds it is reported as cut short, never waited for.
	horizon := time.Duration(core.Pick(c, 600, 1800)) * time.Second
	var err error
	if e := cmd.Start(); e != nil {
		err = e
	} else {
		done := make(chan error, 1)
		go func() { done <- cmd.Wait() }()
		select {
		case err = <-done:
		case <-time.After(horizon):
			cmd.Process.Kill()
			<-done
			c.CapHit(fmt.Sprintf("free-running -race pass did not finish within %v (killed); hooked and instrumented state is decided by the controlled scheduler", horizon))
			c.Note("free_running_race_pass", "killed after its horizon")
			return
		}
	}
	if !strings.Contains(so.String(), "C14RACE-DONE") {
		// the pass did not finish: a panic or fatal error of golang/geo under real concurrency is a
		// violation in its own right; anything else is a harness problem
		txt := se.String()
		i := strings.Index(txt, "panic: ")
		if i < 0 {
			i = strings.Index(txt, "fatal error: ")
		}
		if i >= 0 && strings.Contains(txt[i:], "github.com/golang/geo/s2.") {
			first := txt[i:]
			if j := strings.Index(first, "\n"); j > 0 {
				first = first[:j]
			}
			c.Violate("free-running-race", "panic", "concurrent read-only queries crashed the process: "+first+" at "+core.GeoFrame(txt[i:]), nil, map[string]any{"stderr_tail": tail(txt, 3000)})
		} else if !strings.Contains(txt, "WARNING: DATA RACE") {
			panic(core.HarnessError(fmt.Sprintf("free-running race pass failed: %v\n%s", err, tail(txt, 3000))))
		}
	}
	reports := strings.Split(se.String(), "WARNING: DATA RACE")
	n := 0
	for _, rep := range reports[1:] {
		n++
		var fr []string
		for _, m := range reRaceFrame.FindAllStringSubmatch(rep, -1) {
			if len(fr) < 12 && !strings.HasPrefix(m[1], "Verif") {
				fr = append(fr, m[1])
			}
		}
		// first frame of each of the two stacks
		desc := "go race detector: " + summarizeRace(rep)
		c.Violate("free-running-race", "race", desc, nil, map[string]any{"report": tail(rep, 3000)})
	}
	c.Note("free_running_race_pass", map[string]any{"iterations_per_scenario": iters, "scenarios": len(c14Scenarios()), "race_reports": n})
}

func summarizeRace(rep string) string {
	// "Write at ... by goroutine N:\n  func()\n ...  Previous read at ... by goroutine M:\n  func()"
	lines := strings.Split(rep, "\n")
	var heads []string
	for i, l := range lines {
		t := strings.TrimSpace(l)
		if (strings.HasPrefix(t, "Write at") || strings.HasPrefix(t, "Read at") || strings.HasPrefix(t, "Previous write at") || strings.HasPrefix(t, "Previous read at")) && i+1 < len(lines) {
			kind := strings.Fields(t)[0]
			if kind == "Previous" {
				kind = "previous " + strings.Fields(t)[1]
			}
			var fns []string
			for j := i + 1; j < len(lines) && j < i+14 && len(fns) < 3; j++ {
				if m := reRaceFrame.FindStringSubmatch(lines[j]); m != nil {
					fns = append(fns, m[1])
				}
				if strings.TrimSpace(lines[j]) == "" {
					break
				}
			}
			heads = append(heads, strings.ToLower(kind)+" in "+strings.Join(fns, "<"))
		}
	}
	return strings.Join(heads, " vs ")
}
