package checks

import (
	"fmt"

	"github.com/golang/geo/s2"

	"verif/mc/core"
	"verif/mc/refmodel"
)

// Sub-check "nested-complements": a polygon and its complement (Invert) contain every point exactly
// once, and each agrees with the exact parity of enclosing loops, for multi-shell polygons in which
// shells other than the largest have holes and islands (util_nested.go), given in several loop
// orders, below and above the 32-vertex brute-force threshold, inverted once, twice and three times.
func init() {
	ck := Registry["C04"]
	run := ck.Run
	ck.Run = func(c *core.Ctx) {
		run(c)
		c04NestedComplements(c)
	}
}

func c04NestedComplements(c *core.Ctx) {
	sub := "nested-complements"
	fams := nestedFamilies(core.Pick(c, []int{4, 12}, []int{3, 4, 8, 12, 36}))
	var polys, probesJudged int64
	for fi, fm := range fams {
		k := len(fm.Loops())
		for oi, ord := range loopOrders(k) {
			cas := []int{fi, oi}
			if c.Skip(sub, cas...) {
				continue
			}
			detail := func() any { return map[string]any{"family": fm.Name, "loop_order": ord} }
			c.Guard(sub, cas, detail, func() {
				base := fm.Loops()
				var in []*s2.Loop
				var rl []*refmodel.Loop
				for _, i := range ord {
					in = append(in, base[i])
				}
				for _, l := range base {
					rl = append(rl, refmodel.NewLoop(append([]s2.Point(nil), l.Vertices()...)))
				}
				var probes []s2.Point
				for _, l := range base {
					ctr := l.Centroid()
					probes = append(probes, s2.Point{Vector: ctr.Normalize()})
					for i := 0; i < l.NumVertices(); i++ {
						probes = append(probes, l.Vertex(i), s2.Point{Vector: l.Vertex(i).Add(l.Vertex(i + 1).Vector).Normalize()},
							s2.Point{Vector: l.Vertex(i).Mul(0.7).Add(ctr.Normalize().Mul(0.3)).Normalize()},
							s2.Point{Vector: l.Vertex(i).Mul(1.3).Sub(ctr.Normalize().Mul(0.3)).Normalize()})
					}
				}
				probes = append(probes, s2.PointFromLatLng(s2.LatLngFromDegrees(-80, -100)), s2.PointFromLatLng(s2.LatLngFromDegrees(85, 5)))
				p := s2.PolygonFromLoops(in)
				polys++
				want := make([]bool, len(probes))
				for i, q := range probes {
					want[i] = refmodel.PolygonContains(rl, q)
				}
				for inv := 0; inv <= 3; inv++ {
					if inv > 0 {
						p.Invert()
					}
					if inv == 1 && p.NumLoops() != k {
						c.Violate(sub, "wrong-answer", fmt.Sprintf("the complement of a polygon with %d loops has %d loops", k, p.NumLoops()), cas, detail())
						return
					}
					for i, q := range probes {
						probesJudged++
						exp := want[i] != (inv%2 == 1)
						if got := p.ContainsPoint(q); got != exp {
							c.Violate(sub, "wrong-answer", fmt.Sprintf("after %d inversion(s) a multi-shell polygon with nested loops under a smaller shell contains a point that the exact parity of enclosing loops says it does not (or misses one it does): polygon and complement do not partition the sphere", inv), cas,
								map[string]any{"family": fm.Name, "loop_order": ord, "inversions": inv, "probe": ptStr(q), "got": got, "want": exp})
							return
						}
					}
				}
			})
		}
	}
	c.Eval(int(probesJudged))
	c.Count(sub+"/polygons", polys)
	c.Count(sub+"/probes_judged", probesJudged)
}
