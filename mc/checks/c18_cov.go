package checks

import (
	"fmt"
	"math"
	"math/big"
	"sort"
	"strings"
	"sync"
	"sync/atomic"
	"time"

	"github.com/golang/geo/r1"
	"github.com/golang/geo/r3"
	"github.com/golang/geo/s1"
	"github.com/golang/geo/s2"

	"verif/mc/core"
	"verif/mc/exact"
)

// Coverage extension of check C18.  A statement-coverage measurement showed
// library code behind the property that no lattice element executed:
//
//   s2/centroids.go   EdgeTrueCentroid, PlanarCentroid
//   s2/polyline.go    Polyline.Centroid
//   s2/loop.go        surfaceIntegralFloat64 / surfaceIntegralPoint: the branch
//                     that moves the fan origin BACK to vertex 0; Invert of the
//                     empty / full loop; LoopFromCell
//   s2/polygon.go     PolygonFromCell
//   s2/cap.go         Cap.Area, Cap.Centroid
//   s2/rect.go        Rect.Area, Rect.Centroid
//   s2/cell.go        Cell.ExactArea / ApproxArea / AverageArea
//   s2/cellunion.go   CellUnion.ExactArea / ApproxArea / AverageArea / LeafCellsCovered
//
// Every sub-check below enumerates a finite lattice and judges the result with
// an oracle that does not call the code it judges: 384-bit reference values
// computed from the exact float64 inputs (package exact + c18_bigmath.go, plus
// the Taylor series of sin/cos below), the definitional formulas quoted in the
// doc comments, and containment of a fixed probe set.  Where the documentation
// gives an error bound (PointArea: "about 5e-15"; ApproxArea: 3% / 0.1%;
// AverageArea: "within a factor of 1.7") that bound is asserted; where it gives
// none, the tolerance is a stated multiple of the rounding error of the
// documented formula.

func init() {
	ck := Registry["C18"]
	run := ck.Run
	ck.Run = func(c *core.Ctx) {
		run(c)
		runC18Cov(c)
	}
}

func runC18Cov(c *core.Ctx) {
	thorough := !c.Quick()
	c.Rule += " COVERAGE EXTENSION (c18_cov.go): (1) all ordered pairs / triples of P-deg plus arcs of length 1e-15..pi-1e-9 at six placements for EdgeTrueCentroid, PlanarCentroid and Polyline.Centroid, and every n-gon of the loop catalogue as an open and as a closed polyline; " +
		"(2) five- and six-vertex loops v0, v1, ~-v0, v3, ~-(v0 x v1)[, v5] in four frames x perturbations {0, +-1e-15, +-1e-6, 2e-5}^2 that make the triangle fan leave vertex 0 and come back, through the complete loop oracle (all rotations, reversal) plus Loop.Centroid; the empty and the full loop; " +
		"(3) caps: 26 centres x {heights, angles, areas} including empty, singleton, hemisphere, full; rectangles: all valid products of a 9-value latitude and a 9-value longitude alphabet (inverted, degenerate, polar, full); " +
		"(4) cells of the cell catalogue with their children, and cell unions (faces, sibling quadruples, staircases over levels 1..30, singletons, empty). " +
		"Non-trivial here: an edge shorter than 1e-8, longer than pi-1e-3 or between two floats of the same direction; a loop whose fan origin is predicted to return to vertex 0; a cap that is empty, a singleton, full or within 1e-9 of those; a rectangle that is inverted, touches a pole or has a degenerate side; a cell of level 0 or >= 20; a union with more than one level."
	r := &c18Run{c: c, m: &c18Metrics{worst: map[string]float64{}, where: map[string]string{}}, probes: c18MakeProbes(200)}
	wall := map[string]float64{}
	timed := func(name string, f func()) {
		t0 := time.Now()
		f()
		wall[name] = math.Round(time.Since(t0).Seconds()*10) / 10
	}
	timed("cov-edge-centroid", func() { c18covEdgeCentroids(c, r, thorough) })
	timed("cov-polyline-centroid", func() { c18covPolylines(c, r, thorough) })
	timed("cov-fan-revert", func() { c18covFanRevert(c, r, thorough) })
	timed("cov-special-loops", func() { c18covSpecialLoops(c) })
	timed("cov-cap", func() { c18covCaps(c, r, thorough) })
	timed("cov-rect", func() { c18covRects(c, r, thorough) })
	timed("cov-cell-area", func() { c18covCells(c, r, thorough) })
	timed("cov-cellunion-area", func() { c18covCellUnions(c, r, thorough) })
	c.Note("cov_wall_seconds_per_sub_check", wall)

	var names []string
	for k := range r.m.worst {
		names = append(names, k)
	}
	sort.Strings(names)
	worst := map[string]any{}
	for _, k := range names {
		worst[k] = map[string]any{"observed_over_allowed": fmt.Sprintf("%.4g", r.m.worst[k]), "at": r.m.where[k]}
	}
	c.Note("cov_worst_observed_error_over_allowed", worst)
}

// ---------------------------------------------------------------- big sin / cos

// c18covSinCos returns sin(x) and cos(x) by their Taylor series (|x| <= 8; the
// largest term is below 2^9, so at most 9 of the 384 bits are lost).
func c18covSinCos(x *big.Float) (s, co *big.Float) {
	s, co = c18new(), c18f(1)
	term := c18f(1) // x^k / k!
	for k := 1; k < 400; k++ {
		term.Mul(term, x)
		term.Quo(term, c18f(float64(k)))
		if term.Sign() == 0 || term.MantExp(nil) < -int(c18Prec)-16 {
			break
		}
		switch k % 4 {
		case 1:
			s.Add(s, term)
		case 2:
			co.Sub(co, term)
		case 3:
			s.Sub(s, term)
		case 0:
			co.Add(co, term)
		}
	}
	return s, co
}

func c18covVec(p s2.Point) [3]float64 { return [3]float64{p.X, p.Y, p.Z} }

func c18covExpiredOnce(c *core.Ctx, once *sync.Once, what string) bool {
	if c.Expired() {
		once.Do(func() { c.CapHit(what + ": cut short by the budget") })
		return true
	}
	return false
}

// ---------------------------------------------------------------- edges

// c18covEdgeReference: the integral of position along the geodesic between the
// directions of a and b, i.e. (m / |m|) * |d| with m = a^ + b^, d = a^ - b^
// (|d| = 2 sin(theta/2)); a^ = a/|a| in 384-bit arithmetic.  The tolerance is the
// rounding error of the documented formula (a + b) * sqrt(|a-b|^2 / |a+b|^2)
// (about 12 dblEpsilon for a result of norm <= 2) plus the effect of the inputs
// being unit vectors only up to 2.5 dblEpsilon: that changes the direction of
// a + b by at most 5 dblEpsilon / |a+b| and |a-b| by 5 dblEpsilon.
func c18covEdgeReference(a, b s2.Point) (ref [3]*big.Float, tol float64, ok bool) {
	ea, eb := exact.FromVector(a.Vector), exact.FromVector(b.Vector)
	na, nb := c18sqrtS(ea.Norm2()), c18sqrtS(eb.Norm2())
	var m, d [3]*big.Float
	m2, d2 := c18new(), c18new()
	for k := 0; k < 3; k++ {
		ua := c18new().Quo(ea.Comp(k).Big(c18Prec), na)
		ub := c18new().Quo(eb.Comp(k).Big(c18Prec), nb)
		m[k] = c18new().Add(ua, ub)
		d[k] = c18new().Sub(ua, ub)
		m2.Add(m2, c18new().Mul(m[k], m[k]))
		d2.Add(d2, c18new().Mul(d[k], d[k]))
	}
	if m2.Sign() == 0 {
		return ref, 0, false
	}
	nm := c18new().Sqrt(m2)
	f := c18new().Quo(c18new().Sqrt(d2), nm)
	for k := 0; k < 3; k++ {
		ref[k] = c18new().Mul(m[k], f)
	}
	nmf := c18Float(nm)
	if nmf < 1e-300 {
		return ref, 0, false
	}
	return ref, 24*c18Eps + 12*c18Eps/nmf, true
}

func c18covVecErr(got r3.Vector, ref [3]*big.Float) float64 { return c18CentroidErr(got, ref, 1) }

type c18covEdge struct {
	name string
	a, b s2.Point
}

// c18covArcEdges: arcs of the given lengths from the base point of every placement.
func c18covArcEdges(thorough bool) []c18covEdge {
	ells := []float64{1e-15, 1e-9, 1e-6, 1e-3, 0.1, 1, math.Pi / 2, 2, 3, math.Pi - 1e-3, math.Pi - 1e-6, math.Pi - 1e-9}
	if thorough {
		ells = append(ells, 3e-16, 1e-12, 1e-4, 0.5, 1.5, 2.5, 3.1, math.Pi-1e-4, math.Pi-1e-7, math.Pi-1e-8)
	}
	var out []c18covEdge
	for _, pl := range c18Placements(thorough) {
		for _, ell := range ells {
			a := s2.Point{Vector: c18Arc(pl, 0).Normalize()}
			b := s2.Point{Vector: c18Arc(pl, ell).Normalize()}
			if a == b {
				continue
			}
			out = append(out, c18covEdge{fmt.Sprintf("arc %s ell=%g", pl.name, ell), a, b})
		}
	}
	return out
}

func c18covEdgeCentroids(c *core.Ctx, r *c18Run, thorough bool) {
	const subE, subP, subL = "cov-edge-centroid", "cov-planar-centroid", "cov-polyline-triples"
	pd := c18PDegPoints(thorough)
	n := len(pd)
	rel := make([][]int, n)
	type eref struct {
		ref [3]*big.Float
		tol float64
		ok  bool
		lib r3.Vector
	}
	cache := make([][]eref, n)
	var nShort, nLong, nSame, nAnti atomic.Int64
	var once sync.Once

	judgeEdge := func(sub string, idx []int, name string, a, b s2.Point, judge bool) (lib r3.Vector, ref [3]*big.Float, tol float64, ok bool) {
		detail := func() any { return map[string]any{"edge": name, "a": c18covVec(a), "b": c18covVec(b)} }
		c.Guard(sub, idx, detail, func() {
			lib = s2.EdgeTrueCentroid(a, b).Vector
			ref, tol, ok = c18covEdgeReference(a, b)
			if !ok || !judge {
				return
			}
			c.Eval(1)
			err := c18covVecErr(lib, ref)
			r.m.obs("EdgeTrueCentroid_vs_reference", err/tol, name)
			if !(err <= tol) {
				c.Violate(sub, "wrong-answer", "EdgeTrueCentroid(a,b) is not the true centroid of the edge times its length ((a+b)/|a+b| * 2 sin(angle/2))", idx,
					map[string]any{"edge": name, "a": c18covVec(a), "b": c18covVec(b), "got": [3]float64{lib.X, lib.Y, lib.Z},
						"reference": [3]float64{c18Float(ref[0]), c18Float(ref[1]), c18Float(ref[2])}, "error": err, "tolerance": tol})
			}
			ang := c18Angle(a.Vector, b.Vector)
			switch {
			case ang < 1e-8:
				nShort.Add(1)
				c.Nontrivial(1)
			case ang > math.Pi-1e-3:
				nLong.Add(1)
				c.Nontrivial(1)
			}
		})
		return lib, ref, tol, ok
	}

	// --- P-deg ordered pairs (the diagonal is the degenerate edge a == a)
	for i := range pd {
		rel[i] = make([]int, n)
		cache[i] = make([]eref, n)
		for j := range pd {
			if i != j {
				rel[i][j] = c18DirRelation(pd[i], pd[j])
			}
		}
	}
	c.ParallelFor(n, func(i int) {
		for j := 0; j < n; j++ {
			a, b := pd[i], pd[j]
			if c.Skip(subE, 0, i, j) {
				// replay of another sub-check: only the cache of edge references is needed
				if i != j && rel[i][j] >= 0 {
					lib, ref, tol, ok := judgeEdge(subE, []int{0, i, j}, "", a, b, false)
					cache[i][j] = eref{ref, tol, ok, lib}
				}
				continue
			}
			if i == j {
				c.Guard(subE, []int{0, i, j}, nil, func() {
					if g := s2.EdgeTrueCentroid(a, a).Vector; g != (r3.Vector{}) {
						c.Violate(subE, "wrong-answer", "EdgeTrueCentroid(a,a) of a degenerate edge is not Point(0,0,0)", []int{0, i, j}, map[string]any{"a": c18covVec(a), "got": [3]float64{g.X, g.Y, g.Z}})
					}
					c.Eval(1)
					c.Count("cov_edges:degenerate_a_equals_a", 1)
				})
				continue
			}
			if rel[i][j] < 0 {
				// antipodal directions: the geodesic is not defined (nothing documented); only "no panic"
				c.Guard(subE, []int{0, i, j}, nil, func() { _ = s2.EdgeTrueCentroid(a, b) })
				nAnti.Add(1)
				continue
			}
			lib, ref, tol, ok := judgeEdge(subE, []int{0, i, j}, fmt.Sprintf("pdeg(%d,%d)", i, j), a, b, true)
			cache[i][j] = eref{ref, tol, ok, lib}
			if rel[i][j] > 0 {
				nSame.Add(1)
				c.Nontrivial(1)
			}
			c.Count("cov_edges:pdeg_pairs", 1)
		}
	})
	// --- arcs
	arcs := c18covArcEdges(thorough)
	c.ParallelFor(len(arcs), func(i int) {
		if c.Skip(subE, 1, i, 0) {
			return
		}
		e := arcs[i]
		if c18DirRelation(e.a, e.b) < 0 {
			return
		}
		judgeEdge(subE, []int{1, i, 0}, e.name, e.a, e.b, true)
		judgeEdge(subE, []int{1, i, 0}, e.name+" (reversed)", e.b, e.a, true)
		c.Count("cov_edges:arcs", 2)
		if i%(len(arcs)/2+1) == 0 {
			c.Sample(map[string]any{"sub_check": subE, "edge": e.name, "a": c18covVec(e.a), "b": c18covVec(e.b)})
		}
	})
	c.Count("cov_edges:shorter_than_1e-8", nShort.Load())
	c.Count("cov_edges:longer_than_pi-1e-3", nLong.Load())
	c.Count("cov_edges:same_direction_different_floats", nSame.Load())
	c.Count("cov_edges:antipodal_directions (no oracle, no panic)", nAnti.Load())

	// --- all ordered triples: PlanarCentroid, and the polyline (a,b,c)
	pb := make([][3]*big.Float, n)
	for i, p := range pd {
		pb[i] = [3]*big.Float{c18f(p.X), c18f(p.Y), c18f(p.Z)}
	}
	three := c18f(3)
	c.ParallelFor(n, func(i int) {
		for j := 0; j < n; j++ {
			if j == i {
				continue
			}
			if c18covExpiredOnce(c, &once, subP) {
				return
			}
			for k := 0; k < n; k++ {
				if k == i || k == j {
					continue
				}
				a, b, cc := pd[i], pd[j], pd[k]
				if !c.Skip(subP, i, j, k) {
					c.Guard(subP, []int{i, j, k}, nil, func() {
						g := s2.PlanarCentroid(a, b, cc).Vector
						c.Eval(1)
						var ref [3]*big.Float
						for q := 0; q < 3; q++ {
							s := c18new().Add(pb[i][q], pb[j][q])
							s.Add(s, pb[k][q])
							ref[q] = s.Quo(s, three)
						}
						// (a+b), (+c), (*1/3 rounded): each at most half an ulp of a value <= 3
						const tol = 4 * c18Eps
						err := c18covVecErr(g, ref)
						r.m.obs("PlanarCentroid_vs_exact", err/tol, fmt.Sprintf("pdeg(%d,%d,%d)", i, j, k))
						if !(err <= tol) {
							c.Violate(subP, "wrong-answer", "PlanarCentroid(a,b,c) is not (a+b+c)/3", []int{i, j, k},
								map[string]any{"a": c18covVec(a), "b": c18covVec(b), "c": c18covVec(cc), "got": [3]float64{g.X, g.Y, g.Z}, "error": err})
						}
					})
					c.Count("cov_planar_centroid_triples", 1)
				}
				// polyline a,b,c: adjacent vertices must not be identical or antipodal
				if rel[i][j] < 0 || rel[j][k] < 0 || !cache[i][j].ok || !cache[j][k].ok {
					continue
				}
				if c.Skip(subL, i, j, k) {
					continue
				}
				c.Guard(subL, []int{i, j, k}, nil, func() {
					pl := s2.Polyline{a, b, cc}
					g := pl.Centroid().Vector
					c.Eval(1)
					e1, e2 := cache[i][j], cache[j][k]
					var ref [3]*big.Float
					for q := 0; q < 3; q++ {
						ref[q] = c18new().Add(e1.ref[q], e2.ref[q])
					}
					tol := e1.tol + e2.tol + 4*c18Eps
					err := c18covVecErr(g, ref)
					r.m.obs("Polyline.Centroid_vs_reference (3 vertices)", err/tol, fmt.Sprintf("pdeg(%d,%d,%d)", i, j, k))
					if !(err <= tol) {
						c.Violate(subL, "wrong-answer", "Polyline.Centroid is not the sum over its edges of (true centroid of the edge) * (edge length)", []int{i, j, k},
							map[string]any{"vertices": [][3]float64{c18covVec(a), c18covVec(b), c18covVec(cc)}, "got": [3]float64{g.X, g.Y, g.Z},
								"reference": [3]float64{c18Float(ref[0]), c18Float(ref[1]), c18Float(ref[2])}, "error": err, "tolerance": tol})
					}
					// ... and of the library's own per-edge function
					s := e1.lib.Add(e2.lib)
					if d := g.Sub(s).Norm(); !(d <= 8*c18Eps) {
						c.Violate(subL, "wrong-answer", "Polyline.Centroid differs from the sum of EdgeTrueCentroid over its edges", []int{i, j, k},
							map[string]any{"vertices": [][3]float64{c18covVec(a), c18covVec(b), c18covVec(cc)}, "got": [3]float64{g.X, g.Y, g.Z}, "edge_sum": [3]float64{s.X, s.Y, s.Z}})
					}
				})
				c.Count("cov_polyline_triples", 1)
			}
		}
	})
	if c.OnlySub == "" && !c.Expired() {
		if nShort.Load() == 0 || nLong.Load() == 0 || nSame.Load() == 0 {
			panic(core.HarnessError("C18 cov vacuous: no short / long / same-direction edge for EdgeTrueCentroid"))
		}
	}
}

// c18covPolylines: every n-gon of the loop catalogue as an open polyline and as
// a closed one (first vertex repeated), and the trivial polylines.
func c18covPolylines(c *core.Ctx, r *c18Run, thorough bool) {
	const sub = "cov-polyline-centroid"
	cat := c18Filter(c, c18NgonCatalogue(thorough), false)
	var once sync.Once
	c.ParallelFor(len(cat), func(i int) {
		if c.Skip(sub, i) || c18covExpiredOnce(c, &once, sub) {
			return
		}
		L := cat[i]
		if c.Quick() && len(L.v) > 64 {
			return
		}
		for variant := 0; variant < 2; variant++ {
			v := c18Clone(L.v)
			tag := "open"
			if variant == 1 {
				v = append(v, L.v[0])
				tag = "closed"
			}
			bad := false
			for k := 1; k < len(v); k++ {
				if v[k] == v[k-1] || c18DirRelation(v[k-1], v[k]) < 0 {
					bad = true
				}
			}
			if bad {
				c.Count("cov_polylines_rejected (adjacent vertices identical or antipodal)", 1)
				continue
			}
			c.Guard(sub, []int{i}, func() any { return map[string]any{"polyline": L.name + " " + tag, "vertices": c18Verts(v)} }, func() {
				pl := s2.Polyline(c18Clone(v))
				g := pl.Centroid().Vector
				c.Eval(1)
				ref := [3]*big.Float{c18new(), c18new(), c18new()}
				tol := 0.0
				var libSum r3.Vector
				for k := 1; k < len(v); k++ {
					er, et, ok := c18covEdgeReference(v[k-1], v[k])
					if !ok {
						return
					}
					for q := 0; q < 3; q++ {
						ref[q].Add(ref[q], er[q])
					}
					tol += et + 2*c18Eps
					libSum = libSum.Add(s2.EdgeTrueCentroid(v[k-1], v[k]).Vector)
				}
				err := c18covVecErr(g, ref)
				r.m.obs("Polyline.Centroid_vs_reference (n-gons)", err/tol, L.name+" "+tag)
				if !(err <= tol) {
					c.Violate(sub, "wrong-answer", "Polyline.Centroid is not the sum over its edges of (true centroid of the edge) * (edge length)", []int{i},
						map[string]any{"polyline": L.name + " " + tag, "vertices": c18Verts(v), "got": [3]float64{g.X, g.Y, g.Z},
							"reference": [3]float64{c18Float(ref[0]), c18Float(ref[1]), c18Float(ref[2])}, "error": err, "tolerance": tol})
				}
				if d := g.Sub(libSum).Norm(); !(d <= float64(len(v))*8*c18Eps) {
					c.Violate(sub, "wrong-answer", "Polyline.Centroid differs from the sum of EdgeTrueCentroid over its edges", []int{i},
						map[string]any{"polyline": L.name + " " + tag, "got": [3]float64{g.X, g.Y, g.Z}, "edge_sum": [3]float64{libSum.X, libSum.Y, libSum.Z}})
				}
				c.Count("cov_polylines:"+tag, 1)
			})
		}
		if i%(len(cat)/2+1) == 0 {
			c.Sample(map[string]any{"sub_check": sub, "polyline": L.name, "vertices": len(L.v)})
		}
	})
	// trivial polylines: the line integral over nothing is zero
	if !c.Skip(sub, len(cat)) {
		c.Guard(sub, []int{len(cat)}, nil, func() {
			for _, pl := range []s2.Polyline{{}, {c18unit(1, 2, 3)}} {
				pl := pl
				if g := pl.Centroid().Vector; g != (r3.Vector{}) {
					c.Violate(sub, "wrong-answer", "Polyline.Centroid of a polyline without edges is not Point(0,0,0)", []int{len(cat)}, map[string]any{"vertices": len(pl), "got": [3]float64{g.X, g.Y, g.Z}})
				}
				c.Eval(1)
			}
		})
	}
}

// ---------------------------------------------------------------- fan origin

// c18covFanTrace predicts, with the documented rule (a fan diagonal longer than
// pi - 1e-5 is never created), which way the fan origin moves for the vertex
// order v: away from v0, back to v0, on to the third perpendicular.
func c18covFanTrace(v []s2.Point) (moved, reverted, perp int) {
	const maxLength = math.Pi - 1e-5
	origin := v[0].Vector
	atV0 := true
	for i := 1; i+1 < len(v); i++ {
		if c18Angle(v[i+1].Vector, origin) > maxLength {
			switch {
			case atV0:
				origin = v[0].Cross(v[i].Vector).Normalize()
				atV0 = false
				moved++
			case c18Angle(v[i].Vector, v[0].Vector) < maxLength:
				origin = v[0].Vector
				atV0 = true
				reverted++
			default:
				origin = v[0].Cross(origin)
				perp++
			}
		}
	}
	return
}

func c18covFanRevertCatalogue(thorough bool) []c18Loop {
	type frame struct{ x, y, z r3.Vector }
	frames := []frame{
		{r3.Vector{X: 1}, r3.Vector{Y: 1}, r3.Vector{Z: 1}},
		{r3.Vector{Y: 1}, r3.Vector{Z: 1}, r3.Vector{X: 1}},
		{r3.Vector{Z: 1}, r3.Vector{X: 1}, r3.Vector{Y: 1}},
	}
	gen := []r3.Vector{{X: 0.3, Y: -0.5, Z: 0.81}}
	if thorough {
		gen = append(gen, r3.Vector{X: -0.6, Y: 0.1, Z: -0.79}, r3.Vector{X: 1, Y: 1, Z: 1}, s2.OriginPoint().Vector)
	}
	for _, g := range gen {
		p := g.Normalize()
		u, w := c18Frame(s2.Point{Vector: p})
		frames = append(frames, frame{u, w, p})
	}
	ds := []float64{0, 1e-15, -1e-15, 1e-6, -1e-6, 2e-5}
	zs := []float64{-0.5}
	if thorough {
		ds = append(ds, -2e-5, 1e-9, -1e-9, 1e-12, 0.9e-5, -0.9e-5, 1.1e-5, -1.1e-5, 1e-3)
		zs = []float64{-0.1, -0.5, -2}
	}
	var out []c18Loop
	for fi, fr := range frames {
		pt := func(x, y, z float64) s2.Point {
			return s2.Point{Vector: fr.x.Mul(x).Add(fr.y.Mul(y)).Add(fr.z.Mul(z)).Normalize()}
		}
		for _, d1 := range ds {
			for _, d2 := range ds {
				for _, z3 := range zs {
					// half the equator to ~-v0 (the fan leaves v0 for v0 x v1), then down to
					// ~-(v0 x v1) through a vertex that is far from -v0 (the fan returns to v0)
					v := []s2.Point{pt(1, 0, 0), pt(0, 1, 0), pt(-1, 0, d1), pt(0, -1, z3), pt(0, d2, -1)}
					out = append(out, c18Loop{fmt.Sprintf("fan-return-5 frame%d d=%g,%g z3=%g", fi, d1, d2, z3), "fanrevert", v})
					v6 := append(c18Clone(v), pt(0.6, -0.1, -0.8))
					out = append(out, c18Loop{fmt.Sprintf("fan-return-6 frame%d d=%g,%g z3=%g", fi, d1, d2, z3), "fanrevert", v6})
				}
			}
		}
	}
	return out
}

func c18covFanRevert(c *core.Ctx, r *c18Run, thorough bool) {
	const sub = "cov-fan-revert"
	cat := c18Filter(c, c18covFanRevertCatalogue(thorough), true)
	var nRev, nMoved, nPerp atomic.Int64
	var once sync.Once
	c.ParallelFor(len(cat), func(i int) {
		if c.Skip(sub, i) || c18covExpiredOnce(c, &once, sub) {
			return
		}
		L := cat[i]
		// the complete loop oracle of the property: area / turning angle against the
		// reference, inversion, all rotations, library fans, containment
		nt := r.checkLoop(sub, i, L, c18Opts{rotations: true, containment: true, libFan: true})
		// predicted branches over all vertex orders
		mv, rv, pp := 0, 0, 0
		for _, src := range [][]s2.Point{L.v, c18Reverse(L.v)} {
			for k := 0; k < len(src); k++ {
				a, b, d := c18covFanTrace(c18Rotate(src, k))
				mv, rv, pp = mv+a, rv+b, pp+d
			}
		}
		nMoved.Add(int64(mv))
		nRev.Add(int64(rv))
		nPerp.Add(int64(pp))
		if rv > 0 {
			c.Count("cov_fan:loops_with_a_vertex_order_whose_fan_origin_returns_to_vertex_0", 1)
			nt = true
		}
		if nt {
			c.Nontrivial(1)
		}
		c.Count("cov_fan:catalogue_loops", 1)

		// Loop.Centroid of every vertex order against the reference integral of
		// position.  No error bound is documented; all edges here are about pi/2 long
		// and the moved fan origin keeps every triangle well conditioned, so 1e-9 (the
		// bound the polygon sub-check uses) is a sanity bound, ~6 orders above rounding.
		rc := c18RefCentroid(L.v)
		for dir, src := range [][]s2.Point{L.v, c18Reverse(L.v)} {
			sign := 1.0
			if dir == 1 {
				sign = -1
			}
			for k := 0; k < len(src); k++ {
				rot := c18Rotate(src, k)
				c.Guard(sub, []int{i}, func() any { return map[string]any{"loop": L.name, "op": "Centroid", "vertices": c18Verts(rot)} }, func() {
					g := s2.LoopFromPoints(rot).Centroid().Vector
					c.Eval(1)
					err := c18CentroidErr(g, rc, sign)
					r.m.obs("Loop.Centroid_vs_reference (fan-return loops, allowed 1e-9)", err/1e-9, fmt.Sprintf("%s rot %d rev %v", L.name, k, dir == 1))
					if !(err <= 1e-9) {
						c.Violate(sub, "wrong-answer", "Loop.Centroid is not the integral of position over the loop interior (loop whose triangle fan moves its origin)", []int{i},
							map[string]any{"loop": L.name, "rotation": k, "reversed": dir == 1, "vertices": c18Verts(rot), "got": [3]float64{g.X, g.Y, g.Z},
								"reference": [3]float64{sign * c18Float(rc[0]), sign * c18Float(rc[1]), sign * c18Float(rc[2])}, "error": err})
					}
				})
			}
		}
		if i%(len(cat)/2+1) == 0 {
			c.Sample(map[string]any{"sub_check": sub, "loop": L.name, "vertices": c18Verts(L.v)})
		}
	})
	c.Count("cov_fan:predicted_origin_moves_away_from_vertex_0", nMoved.Load())
	c.Count("cov_fan:predicted_origin_returns_to_vertex_0", nRev.Load())
	c.Count("cov_fan:predicted_origin_moves_to_third_perpendicular", nPerp.Load())
	if c.OnlySub == "" && !c.Expired() && nRev.Load() == 0 {
		panic(core.HarnessError("C18 cov vacuous: no vertex order makes the triangle fan return to vertex 0"))
	}
}

// ---------------------------------------------------------------- special loops

func c18covSpecialLoops(c *core.Ctx) {
	const sub = "cov-special-loops"
	if c.Skip(sub, 0) {
		return
	}
	bad := func(desc string, d map[string]any) { c.Violate(sub, "wrong-answer", desc, []int{0}, d) }
	c.Guard(sub, []int{0}, nil, func() {
		type want struct {
			name        string
			l           *s2.Loop
			full        bool
			area, turn  float64
			normalized  bool
			afterInvert string
		}
		for _, w := range []want{
			{"EmptyLoop", s2.EmptyLoop(), false, 0, 2 * math.Pi, true, "full"},
			{"FullLoop", s2.FullLoop(), true, 4 * math.Pi, -2 * math.Pi, false, "empty"},
		} {
			l := w.l
			d := map[string]any{"loop": w.name, "area": l.Area(), "turning_angle": l.TurningAngle(), "is_normalized": l.IsNormalized(), "num_edges": l.NumEdges(), "centroid": c18covVec(l.Centroid())}
			if l.IsFull() != w.full || l.IsEmpty() == w.full {
				bad(w.name+": IsEmpty / IsFull wrong", d)
			}
			if l.Area() != w.area {
				bad(w.name+": Area is not 0 (empty) / 4*pi (full)", d)
			}
			if l.TurningAngle() != w.turn {
				bad(w.name+": TurningAngle is not the documented limit value +2*pi (empty) / -2*pi (full)", d)
			}
			if l.IsNormalized() != w.normalized {
				bad(w.name+": IsNormalized is not (area <= 2*pi)", d)
			}
			if l.NumEdges() != 0 {
				bad(w.name+": the special loops have no edges", d)
			}
			if l.Centroid().Vector != (r3.Vector{}) {
				bad(w.name+": Centroid (integral of position over nothing / over the whole sphere) is not the zero vector", d)
			}
			// Invert: the complement
			t0 := l.TurningAngle()
			l.Invert()
			d2 := map[string]any{"loop": w.name + " inverted", "area": l.Area(), "turning_angle": l.TurningAngle(), "is_full": l.IsFull(), "is_empty": l.IsEmpty()}
			if l.IsFull() == w.full || l.IsEmpty() != w.full {
				bad("Invert of the "+w.name+" is not the "+w.afterInvert+" loop", d2)
			}
			if l.Area() != 4*math.Pi-w.area {
				bad("Area(L) + Area(inverse L) != 4*pi for the "+w.name, d2)
			}
			if l.TurningAngle() != -t0 {
				bad("TurningAngle is not exactly negated by Invert for the "+w.name, d2)
			}
			if l.Centroid().Vector != (r3.Vector{}) {
				bad("Centroid of the inverted "+w.name+" is not the zero vector", d2)
			}
			// Normalize: area <= 2*pi afterwards
			l.Normalize()
			if !l.IsNormalized() || !l.IsEmpty() || l.Area() != 0 {
				bad("Normalize of the inverted "+w.name+" does not give the empty loop", map[string]any{"area": l.Area(), "is_empty": l.IsEmpty()})
			}
			l.Invert()
			l.Invert()
			if !l.IsEmpty() || l.Area() != 0 || l.TurningAngle() != 2*math.Pi {
				bad("Invert twice does not give back the empty loop", map[string]any{"area": l.Area(), "is_empty": l.IsEmpty()})
			}
			c.Eval(12)
			c.Nontrivial(1)
			c.Count("cov_special_loops", 1)
		}
		// polygons of the special loops: the signed sums
		for _, p := range []*s2.Polygon{s2.FullPolygon(), s2.PolygonFromLoops([]*s2.Loop{s2.EmptyLoop()}), s2.PolygonFromLoops(nil)} {
			if g := p.Centroid().Vector; g != (r3.Vector{}) {
				bad("Polygon.Centroid of the empty / full polygon is not the zero vector", map[string]any{"got": [3]float64{g.X, g.Y, g.Z}, "is_full": p.IsFull()})
			}
			want := 0.0
			if p.IsFull() {
				want = 4 * math.Pi
			}
			if a := p.Area(); a != want {
				bad("Polygon.Area of the empty / full polygon is not 0 / 4*pi", map[string]any{"area": a, "is_full": p.IsFull()})
			}
			c.Eval(2)
		}
	})
	// "Don't crash even if the loop is not well-defined" (comment in TurningAngle)
	c.Guard(sub, []int{0}, func() any { return "TurningAngle of a two-vertex chain" }, func() {
		l := s2.LoopFromPoints([]s2.Point{c18unit(1, 0, 0), c18unit(0, 1, 0)})
		_ = l.TurningAngle()
		c.Eval(1)
		c.Count("cov_special_loops:two_vertex_chain_no_panic", 1)
	})
}

// ---------------------------------------------------------------- caps

type c18covCap struct {
	name   string
	cap    s2.Cap
	centre s2.Point
	h      *big.Float // reference height in [0,2], or nil when empty
	hTol   float64    // relative error of the stored radius with respect to h
	kind   string
}

func c18covCapLattice(thorough bool) []c18covCap {
	heights := []float64{-1, 0, 5e-324, 1e-300, 1e-30, 1e-16, 1e-9, 1e-3, 0.1, 0.5, 1 - c18Eps, 1, 1 + c18Eps, 1.5, 1.9, 2 - 4*c18Eps, 2, 2.5}
	angles := []float64{-0.1, 0, 1e-9, 1e-3, 0.5, 1, math.Pi / 2, 2, 3, math.Pi - 1e-9, math.Pi, 4}
	areas := []float64{-1, 0, 1e-14, 1e-6, 1, 2 * math.Pi, 4*math.Pi - 1e-9, 4 * math.Pi, 13}
	if thorough {
		heights = append(heights, 1e-100, 1e-12, 1e-6, 0.01, 0.25, 0.75, 1.25, 1.75, 1.99, 2-1e-9)
		angles = append(angles, 1e-12, 1e-6, 0.1, 1.5, 2.5, math.Pi-1e-3, math.Pi-1e-6)
		areas = append(areas, 1e-10, 1e-3, 0.1, 3, 10, 12, 4*math.Pi-1e-3)
	}
	var out []c18covCap
	two := c18f(2)
	clampH := func(h *big.Float) *big.Float {
		if h.Sign() < 0 {
			return nil
		}
		if h.Cmp(two) > 0 {
			return c18new().Set(two)
		}
		return h
	}
	for _, ce := range c18CentresLevel(map[bool]int{false: 1, true: 2}[thorough]) {
		for _, h := range heights {
			// "A negative height yields an empty cap; a height of 2 or more yields a full cap."
			out = append(out, c18covCap{fmt.Sprintf("height %g at %s", h, ce.name), s2.CapFromCenterHeight(ce.p, h), ce.p, clampH(c18f(h)), 4 * c18Eps, "height"})
		}
		for _, a := range angles {
			// height = 1 - cos(angle) = 2 sin^2(angle/2); angles beyond pi are the full cap,
			// negative angles the empty cap (s1.ChordAngleFromAngle)
			var h *big.Float
			switch {
			case a < 0:
				h = nil
			case a >= math.Pi:
				h = c18new().Set(two)
			default:
				s, _ := c18covSinCos(c18new().Quo(c18f(a), two))
				h = c18new().Mul(s, s)
				h.Mul(h, two)
			}
			out = append(out, c18covCap{fmt.Sprintf("angle %g at %s", a, ce.name), s2.CapFromCenterAngle(ce.p, s1.Angle(a)), ce.p, h, 8 * c18Eps, "angle"})
		}
		for _, a := range areas {
			// "A negative area yields an empty cap; an area of 4*pi or more yields a full cap."
			h := c18new().Quo(c18f(a), c18TwoPi)
			out = append(out, c18covCap{fmt.Sprintf("area %g at %s", a, ce.name), s2.CapFromCenterArea(ce.p, a), ce.p, clampH(h), 8 * c18Eps, "area"})
		}
		out = append(out, c18covCap{"singleton at " + ce.name, s2.CapFromPoint(ce.p), ce.p, c18new(), 0, "point"})
	}
	out = append(out, c18covCap{"EmptyCap", s2.EmptyCap(), s2.EmptyCap().Center(), nil, 0, "empty"})
	out = append(out, c18covCap{"FullCap", s2.FullCap(), s2.FullCap().Center(), c18new().Set(two), 0, "full"})
	return out
}

func c18covCaps(c *core.Ctx, r *c18Run, thorough bool) {
	const sub, subPair = "cov-cap", "cov-cap-pairs"
	lat := c18covCapLattice(thorough)
	areas := make([]float64, len(lat))
	cens := make([]r3.Vector, len(lat))
	var once sync.Once
	c.ParallelFor(len(lat), func(i int) {
		if c.Skip(sub, i) {
			return
		}
		K := lat[i]
		detail := func(kv ...any) map[string]any {
			d := map[string]any{"cap": K.name, "centre": c18covVec(K.centre), "height": K.cap.Height(), "is_empty": K.cap.IsEmpty(), "is_full": K.cap.IsFull()}
			for q := 0; q+1 < len(kv); q += 2 {
				d[kv[q].(string)] = kv[q+1]
			}
			return d
		}
		c.Guard(sub, []int{i}, func() any { return detail() }, func() {
			area := K.cap.Area()
			cen := K.cap.Centroid().Vector
			areas[i], cens[i] = area, cen
			c.Eval(2)
			if !(area >= 0 && area <= 4*math.Pi) {
				c.Violate(sub, "wrong-answer", "Cap.Area outside [0, 4*pi]", []int{i}, detail("area", area))
			}
			// reference from the constructor's documented meaning
			refA := c18new()
			refC := [3]*big.Float{c18new(), c18new(), c18new()}
			hf := 0.0
			if K.h != nil {
				hf = c18Float(K.h)
				refA.Mul(c18TwoPi, K.h)
				// centroid * area = centre * (1 - h/2) * 2*pi*h = centre * pi * h * (2 - h)
				f := c18new().Sub(c18f(2), K.h)
				f.Mul(f, K.h)
				f.Mul(f, c18Pi)
				for q, x := range c18covVec(K.centre) {
					refC[q].Mul(f, c18f(x))
				}
			}
			refAf := c18Float(refA)
			tolA := K.hTol*refAf + 4*c18Eps*refAf + 1e-300
			errA := c18DiffF(area, refA)
			r.m.obs("Cap.Area_vs_2pi*height/"+K.kind, errA/tolA, K.name)
			if !(errA <= tolA) {
				c.Violate(sub, "wrong-answer", "Cap.Area is not 2*pi*height of the cap the constructor documents ("+K.kind+")", []int{i}, detail("area", area, "reference_area", refAf, "error", errA, "tolerance", tolA))
			}
			// d/dh [pi h (2-h)] = 2 pi (1-h): an error hTol*h of the height moves the centroid by at most 2*pi*hTol*h
			tolC := 2*math.Pi*K.hTol*hf + 8*c18Eps*math.Pi*hf*(2-hf) + 1e-300
			errC := c18covVecErr(cen, refC)
			r.m.obs("Cap.Centroid_vs_reference/"+K.kind, errC/tolC, K.name)
			if !(errC <= tolC) {
				c.Violate(sub, "wrong-answer", "Cap.Centroid is not centre * (1 - height/2) * area ("+K.kind+")", []int{i},
					detail("centroid", [3]float64{cen.X, cen.Y, cen.Z}, "reference", [3]float64{c18Float(refC[0]), c18Float(refC[1]), c18Float(refC[2])}, "error", errC, "tolerance", tolC))
			}
			// from the library's own height: Area = 2*pi*Height(), Centroid = centre*(1-Height()/2)*Area
			if !K.cap.IsEmpty() {
				h := K.cap.Height()
				wantA := c18new().Mul(c18TwoPi, c18f(h))
				if e := c18DiffF(area, wantA); !(e <= 4*c18Eps*c18Float(wantA)) {
					c.Violate(sub, "wrong-answer", "Cap.Area != 2*pi*Cap.Height()", []int{i}, detail("area", area))
				}
				if K.cap.Radius() == 0 && cen != (r3.Vector{}) {
					c.Violate(sub, "wrong-answer", "Cap.Centroid of a zero-radius cap is not the origin (0,0,0)", []int{i}, detail("centroid", [3]float64{cen.X, cen.Y, cen.Z}))
				}
			} else if area != 0 || cen != (r3.Vector{}) {
				c.Violate(sub, "wrong-answer", "Cap.Area / Cap.Centroid of an empty cap are not 0 / (0,0,0)", []int{i}, detail("area", area, "centroid", [3]float64{cen.X, cen.Y, cen.Z}))
			}
			if K.cap.IsFull() && area != 4*math.Pi {
				c.Violate(sub, "wrong-answer", "Cap.Area of a full cap is not 4*pi", []int{i}, detail("area", area))
			}
			// complement: same boundary, disjoint interiors
			co := K.cap.Complement()
			ca, cc := co.Area(), co.Centroid().Vector
			c.Eval(2)
			if e := math.Abs((area - 2*math.Pi) + (ca - 2*math.Pi)); !(e <= 64*c18Eps) {
				c.Violate(sub, "bound-exceeded", "Cap.Area(c) + Cap.Area(c.Complement()) != 4*pi", []int{i}, detail("area", area, "area_complement", ca, "error", e))
			}
			if e := cen.Add(cc).Norm(); !(e <= 64*c18Eps) {
				c.Violate(sub, "bound-exceeded", "Cap.Centroid(c) + Cap.Centroid(c.Complement()) != 0 (the integral of position over the sphere)", []int{i},
					detail("centroid", [3]float64{cen.X, cen.Y, cen.Z}, "centroid_complement", [3]float64{cc.X, cc.Y, cc.Z}, "error", e))
			}
			// containment: discs around probes inside / outside the cap by a margin
			if K.h != nil {
				rho := math.Acos(math.Max(-1, 1-hf))
				kin, kout := 0, 0
				for _, p := range r.probes.p {
					a := c18Angle(p.Vector, K.centre.Vector)
					if a+r.probes.d+1e-6 < rho {
						kin++
					} else if a-r.probes.d-1e-6 > rho {
						kout++
					}
				}
				c.Eval(len(r.probes.p))
				lower, upper := float64(kin)*r.probes.capA, 4*math.Pi-float64(kout)*r.probes.capA
				if kin > 0 && kout > 0 {
					c.Count("cov_caps:with_probe_discs_inside_and_outside", 1)
				}
				if area < lower-1e-12 || area > upper+1e-12 {
					c.Violate(sub, "wrong-answer", "Cap.Area is inconsistent with the points the cap contains", []int{i}, detail("area", area, "probe_discs_inside", kin, "probe_discs_outside", kout, "area_lower_bound", lower, "area_upper_bound", upper))
				}
			}
			if K.h == nil || hf == 0 || hf == 2 || hf < 1e-9 || hf > 2-1e-9 {
				c.Nontrivial(1)
				c.Count("cov_caps:empty_singleton_full_or_within_1e-9", 1)
			}
			c.Count("cov_caps:"+K.kind, 1)
		})
		if i%(len(lat)/2+1) == 0 {
			c.Sample(map[string]any{"sub_check": sub, "cap": K.name, "height": K.cap.Height()})
		}
	})
	// pairs: area is monotone under containment, and additive under disjointness
	if c.OnlySub == "" || c.OnlySub == subPair {
		var nCont, nDisj atomic.Int64
		c.ParallelFor(len(lat), func(i int) {
			if c18covExpiredOnce(c, &once, subPair) {
				return
			}
			A := lat[i]
			for j, B := range lat {
				if c.Skip(subPair, i, j) {
					continue
				}
				c.Guard(subPair, []int{i, j}, func() any { return map[string]any{"a": A.name, "b": B.name} }, func() {
					c.Eval(1)
					if A.cap.Contains(B.cap) {
						nCont.Add(1)
						if !(areas[i] >= areas[j]) {
							c.Violate(subPair, "wrong-answer", "Cap a contains cap b but Area(a) < Area(b)", []int{i, j}, map[string]any{"a": A.name, "b": B.name, "area_a": areas[i], "area_b": areas[j]})
						}
					}
					if !A.cap.Intersects(B.cap) {
						nDisj.Add(1)
						if !(areas[i]+areas[j] <= 4*math.Pi+64*c18Eps) {
							c.Violate(subPair, "wrong-answer", "Caps a and b are disjoint but Area(a) + Area(b) > 4*pi", []int{i, j}, map[string]any{"a": A.name, "b": B.name, "area_a": areas[i], "area_b": areas[j]})
						}
					}
				})
			}
		})
		c.Count("cov_cap_pairs:a_contains_b", nCont.Load())
		c.Count("cov_cap_pairs:disjoint", nDisj.Load())
	}
}

// ---------------------------------------------------------------- rectangles

type c18covRect struct {
	name           string
	r              s2.Rect
	latLo, latHi   float64
	lngLo, lngHi   float64
	inverted, full bool
}

func c18covRectLattice(thorough bool) []c18covRect {
	lats := []float64{-math.Pi / 2, -1.2, -0.5, -1e-9, 0, 1e-9, 0.5, 1.2, math.Pi / 2}
	lngs := []float64{-math.Pi, -3, -math.Pi / 2, -1e-9, 0, 1e-9, math.Pi / 2, 3, math.Pi}
	if thorough {
		lats = []float64{-math.Pi / 2, -math.Pi/2 + 1e-9, -1.2, -0.5, -1e-3, -1e-9, 0, 1e-9, 1e-3, 0.5, 1.2, math.Pi/2 - 1e-9, math.Pi / 2}
		lngs = []float64{-math.Pi, -math.Pi + 1e-9, -3, -math.Pi / 2, -1, -1e-9, 0, 1e-9, 1, math.Pi / 2, 3, math.Pi - 1e-9, math.Pi}
	}
	var out []c18covRect
	for _, lo := range lats {
		for _, hi := range lats {
			if lo > hi {
				continue
			}
			for _, a := range lngs {
				for _, b := range lngs {
					iv := s1.IntervalFromEndpoints(a, b)
					rc := s2.Rect{Lat: r1.Interval{Lo: lo, Hi: hi}, Lng: iv}
					if !rc.IsValid() || rc.IsEmpty() {
						continue
					}
					out = append(out, c18covRect{fmt.Sprintf("lat [%g,%g] lng [%g,%g]", lo, hi, iv.Lo, iv.Hi), rc, lo, hi, iv.Lo, iv.Hi, iv.Lo > iv.Hi, iv.IsFull()})
				}
			}
		}
	}
	out = append(out, c18covRect{"FullRect", s2.FullRect(), -math.Pi / 2, math.Pi / 2, -math.Pi, math.Pi, false, true})
	return out
}

// c18covRectReference: area = (lng length) * (sin hi - sin lo); centroid * area =
// the integral of (cos t cos p, cos t sin p, sin t) cos t dt dp over the rectangle
// (the formulas of the doc comment of Rect.Centroid).  The float64 endpoints +-pi
// stand for the mathematical +-pi.
func c18covRectReference(R c18covRect) (area *big.Float, cen [3]*big.Float) {
	half := c18f(0.5)
	length := c18new().Sub(c18f(R.lngHi), c18f(R.lngLo))
	centre := c18new().Add(c18f(R.lngHi), c18f(R.lngLo))
	centre.Mul(centre, half)
	switch {
	case R.full:
		length.Set(c18TwoPi)
	case R.inverted:
		length.Add(length, c18TwoPi)
		centre.Add(centre, c18Pi)
	default:
		if R.lngHi == math.Pi {
			length.Add(length, c18new().Sub(c18Pi, c18f(math.Pi)))
		}
		if R.lngLo == -math.Pi {
			length.Add(length, c18new().Sub(c18Pi, c18f(math.Pi)))
		}
	}
	lo, hi := c18f(R.latLo), c18f(R.latHi)
	if R.latLo == -math.Pi/2 {
		lo = c18new().Quo(c18Pi, c18f(-2))
	}
	if R.latHi == math.Pi/2 {
		hi = c18new().Quo(c18Pi, c18f(2))
	}
	s1v, c1v := c18covSinCos(lo)
	s2v, c2v := c18covSinCos(hi)
	dz := c18new().Sub(s2v, s1v)
	area = c18new().Mul(length, dz)
	alpha := c18new().Mul(length, half)
	sa, _ := c18covSinCos(alpha)
	sc, cc := c18covSinCos(centre)
	// integral of cos^2 over [lo,hi] = (hi - lo + sin hi cos hi - sin lo cos lo)/2
	A := c18new().Sub(hi, lo)
	A.Add(A, c18new().Mul(s2v, c2v))
	A.Sub(A, c18new().Mul(s1v, c1v))
	A.Mul(A, half)
	rad := c18new().Mul(A, sa)
	rad.Mul(rad, c18f(2))
	cen[0] = c18new().Mul(rad, cc)
	cen[1] = c18new().Mul(rad, sc)
	z := c18new().Add(s2v, s1v)
	z.Mul(z, dz)
	z.Mul(z, alpha) // alpha * (z2^2 - z1^2)
	cen[2] = z
	return area, cen
}

func c18covRects(c *core.Ctx, r *c18Run, thorough bool) {
	const sub, subPair = "cov-rect", "cov-rect-pairs"
	lat := c18covRectLattice(thorough)
	areas := make([]float64, len(lat))
	// rounding of the documented formula: two sines (abs error <= 1 ulp of 1 each),
	// their difference, the length (<= 2*pi, using the float64 pi) and the product
	const tolAbs = 32 * c18Eps
	var nPole, nInv, nDeg atomic.Int64
	c.ParallelFor(len(lat), func(i int) {
		if c.Skip(sub, i) {
			return
		}
		R := lat[i]
		detail := func(kv ...any) map[string]any {
			d := map[string]any{"rect": R.name, "lat": [2]float64{R.latLo, R.latHi}, "lng": [2]float64{R.lngLo, R.lngHi}}
			for q := 0; q+1 < len(kv); q += 2 {
				d[kv[q].(string)] = kv[q+1]
			}
			return d
		}
		c.Guard(sub, []int{i}, func() any { return detail() }, func() {
			area := R.r.Area()
			cen := R.r.Centroid().Vector
			areas[i] = area
			c.Eval(2)
			refA, refC := c18covRectReference(R)
			refAf := c18Float(refA)
			tolA := tolAbs + 8*c18Eps*refAf
			errA := c18DiffF(area, refA)
			r.m.obs("Rect.Area_vs_reference", errA/tolA, R.name)
			if !(errA <= tolA) {
				c.Violate(sub, "wrong-answer", "Rect.Area is not (longitude length) * (sin lat.hi - sin lat.lo)", []int{i}, detail("area", area, "reference_area", refAf, "error", errA, "tolerance", tolA))
			}
			if !(area >= 0 && area <= 4*math.Pi+tolAbs) {
				c.Violate(sub, "wrong-answer", "Rect.Area outside [0, 4*pi]", []int{i}, detail("area", area))
			}
			tolC := 64 * c18Eps
			errC := c18covVecErr(cen, refC)
			r.m.obs("Rect.Centroid_vs_reference", errC/tolC, R.name)
			if !(errC <= tolC) {
				c.Violate(sub, "wrong-answer", "Rect.Centroid is not the integral of position over the rectangle (true centroid * area)", []int{i},
					detail("centroid", [3]float64{cen.X, cen.Y, cen.Z}, "reference", [3]float64{c18Float(refC[0]), c18Float(refC[1]), c18Float(refC[2])}, "error", errC, "tolerance", tolC))
			}
			// containment: discs around probes inside / outside the rectangle by a margin
			d := r.probes.d + 1e-6
			kin, kout := 0, 0
			for _, p := range r.probes.p {
				plat := math.Atan2(p.Z, math.Hypot(p.X, p.Y))
				plng := math.Atan2(p.Y, p.X)
				// latitude range and longitude half-width of the disc of radius d around p
				lo, hi := plat-d, plat+d
				w := math.Pi
				if hi < math.Pi/2 && lo > -math.Pi/2 {
					w = math.Asin(math.Min(1, math.Sin(d)/math.Cos(plat))) + 1e-6
				}
				latIn := lo >= R.latLo && hi <= R.latHi
				latOut := lo > R.latHi || hi < R.latLo
				// longitude: offset of p from the centre of the interval, on the circle
				length := R.lngHi - R.lngLo
				centre := 0.5 * (R.lngHi + R.lngLo)
				if R.inverted {
					length += 2 * math.Pi
					centre += math.Pi
				}
				off := math.Abs(math.Remainder(plng-centre, 2*math.Pi))
				lngIn := R.full || (w < math.Pi && off+w <= length/2)
				lngOut := !R.full && w < math.Pi && off-w > length/2
				if latIn && lngIn {
					kin++
				} else if latOut || lngOut {
					kout++
				}
			}
			c.Eval(len(r.probes.p))
			lower, upper := float64(kin)*r.probes.capA, 4*math.Pi-float64(kout)*r.probes.capA
			if kin > 0 && kout > 0 {
				c.Count("cov_rects:with_probe_discs_inside_and_outside", 1)
			}
			if area < lower-1e-12 || area > upper+1e-12 {
				c.Violate(sub, "wrong-answer", "Rect.Area is inconsistent with the points the rectangle contains", []int{i}, detail("area", area, "probe_discs_inside", kin, "probe_discs_outside", kout, "area_lower_bound", lower, "area_upper_bound", upper))
			}
			nt := false
			if R.inverted {
				nInv.Add(1)
				nt = true
			}
			if R.latLo == -math.Pi/2 || R.latHi == math.Pi/2 {
				nPole.Add(1)
				nt = true
			}
			if R.latLo == R.latHi || R.lngLo == R.lngHi {
				nDeg.Add(1)
				nt = true
			}
			if nt {
				c.Nontrivial(1)
			}
			c.Count("cov_rects", 1)
		})
		if i%(len(lat)/2+1) == 0 {
			c.Sample(map[string]any{"sub_check": sub, "rect": R.name})
		}
	})
	c.Count("cov_rects:inverted_longitude", nInv.Load())
	c.Count("cov_rects:touching_a_pole", nPole.Load())
	c.Count("cov_rects:degenerate_side", nDeg.Load())
	// the empty rectangle
	if !c.Skip(sub, len(lat)) {
		c.Guard(sub, []int{len(lat)}, nil, func() {
			e := s2.EmptyRect()
			if a, g := e.Area(), e.Centroid().Vector; a != 0 || g != (r3.Vector{}) {
				c.Violate(sub, "wrong-answer", "Rect.Area / Rect.Centroid of the empty rectangle are not 0 / (0,0,0)", []int{len(lat)}, map[string]any{"area": a, "centroid": [3]float64{g.X, g.Y, g.Z}})
			}
			c.Eval(2)
		})
	}
	// pairs: monotone under containment, additive under disjointness
	if c.OnlySub == "" || c.OnlySub == subPair {
		var once sync.Once
		var nCont, nDisj atomic.Int64
		c.ParallelFor(len(lat), func(i int) {
			if c18covExpiredOnce(c, &once, subPair) {
				return
			}
			A := lat[i]
			for j, B := range lat {
				if c.Skip(subPair, i, j) {
					continue
				}
				if A.r.Contains(B.r) {
					nCont.Add(1)
					if !(areas[i] >= areas[j]-2*tolAbs) {
						c.Violate(subPair, "wrong-answer", "Rect a contains rect b but Area(a) < Area(b)", []int{i, j}, map[string]any{"a": A.name, "b": B.name, "area_a": areas[i], "area_b": areas[j]})
					}
				}
				if !A.r.Intersects(B.r) {
					nDisj.Add(1)
					if !(areas[i]+areas[j] <= 4*math.Pi+2*tolAbs) {
						c.Violate(subPair, "wrong-answer", "Rects a and b are disjoint but Area(a) + Area(b) > 4*pi", []int{i, j}, map[string]any{"a": A.name, "b": B.name, "area_a": areas[i], "area_b": areas[j]})
					}
				}
			}
			c.Eval(len(lat))
		})
		c.Count("cov_rect_pairs:a_contains_b", nCont.Load())
		c.Count("cov_rect_pairs:disjoint", nDisj.Load())
	}
}

// ---------------------------------------------------------------- cells

// PointArea documents a maximum error of "about 5e-15" and, for triangles that
// are not long and skinny, a relative error of about 1e-16 * s / min(s-a,s-b,s-c)
// (about 6e-16 for the two triangles of a cell).  Asserted: 5e-15 per triangle
// and a relative error of 1e-12 (three orders above the documented estimate).
const (
	c18covPointAreaAbs = 5e-15
	c18covPointAreaRel = 1e-12
)

func c18covCellVerts(cell s2.Cell) []s2.Point {
	return []s2.Point{cell.Vertex(0), cell.Vertex(1), cell.Vertex(2), cell.Vertex(3)}
}

// c18covAvgArea: 4*pi / (6 * 4^level), the average area of the cells of a level.
func c18covAvgArea(level int) *big.Float {
	a := c18new().Quo(c18FourPi, c18f(6))
	return a.SetMantExp(a, -2*level)
}

func c18covCellIDs(thorough bool) []s2.CellID {
	var out []s2.CellID
	for _, L := range c18CellCatalogue(thorough) {
		out = append(out, s2.CellIDFromToken(strings.TrimPrefix(L.name, "cell ")))
	}
	return out
}

type c18covCellFacts struct {
	ref            *big.Float
	refF           float64
	exact, approx  float64
	avg            float64
	level          int
	ok             bool
	tolExact       float64
	relExactErr    float64
	approxRelError float64
}

// c18covJudgeCell evaluates the three area functions of one cell against the
// 384-bit area of the quadrilateral of its four float64 vertices.
func c18covJudgeCell(c *core.Ctx, r *c18Run, sub string, idx []int, id s2.CellID) (f c18covCellFacts) {
	var cell s2.Cell
	var v []s2.Point
	c.Guard(sub, idx, func() any { return map[string]any{"cell": id.ToToken()} }, func() {
		cell = s2.CellFromCellID(id)
		v = c18covCellVerts(cell)
	})
	if v == nil {
		return f
	}
	ref := c18Reference(v) // outside Guard: a panic here is a harness error
	c.Guard(sub, idx, func() any { return map[string]any{"cell": id.ToToken()} }, func() {
		f.ref, f.refF, f.level = ref.area, ref.areaF, id.Level()
		f.exact, f.approx, f.avg = cell.ExactArea(), cell.ApproxArea(), cell.AverageArea()
		c.Eval(3)
		detail := func(kv ...any) map[string]any {
			d := map[string]any{"cell": id.ToToken(), "level": f.level, "vertices": c18Verts(v), "exact_area": f.exact, "approx_area": f.approx, "average_area": f.avg, "reference_area": f.refF}
			for q := 0; q+1 < len(kv); q += 2 {
				d[kv[q].(string)] = kv[q+1]
			}
			return d
		}
		// ExactArea = PointArea(v0,v1,v2) + PointArea(v0,v2,v3)
		err := c18DiffF(f.exact, ref.area)
		f.tolExact = math.Min(2*c18covPointAreaAbs, c18covPointAreaRel*f.refF)
		f.relExactErr = err / f.refF
		r.m.obs("Cell.ExactArea_vs_reference (allowed: min(1e-14, 1e-12 relative))", err/f.tolExact, "cell "+id.ToToken())
		if !(err <= f.tolExact) {
			c.Violate(sub, "bound-exceeded", "Cell.ExactArea differs from the exact area of the cell's quadrilateral by more than the documented error of PointArea", idx, detail("error", err, "tolerance", f.tolExact))
		}
		// AverageArea = 4*pi/(6*4^level), "accurate to within a factor of 1.7"
		avg := c18covAvgArea(f.level)
		if e := c18DiffF(f.avg, avg); !(e <= 4*c18Eps*c18Float(avg)) {
			c.Violate(sub, "wrong-answer", "Cell.AverageArea is not 4*pi / (6 * 4^level)", idx, detail("reference_average", c18Float(avg)))
		}
		ratio := f.avg / f.refF
		r.m.obs("Cell.AverageArea / exact area: |log ratio| / log 1.7", math.Abs(math.Log(ratio))/math.Log(1.7), "cell "+id.ToToken())
		if !(ratio <= 1.7 && ratio >= 1/1.7) {
			c.Violate(sub, "bound-exceeded", "Cell.AverageArea is not within the documented factor of 1.7 of the cell's area", idx, detail("ratio", ratio))
		}
		// ApproxArea: "accurate to within 3% for all cell sizes and accurate to within 0.1% for cells at level 5 or higher"
		lim := 0.03
		if f.level >= 5 {
			lim = 0.001
		}
		f.approxRelError = math.Abs(f.approx-f.refF) / f.refF
		r.m.obs(fmt.Sprintf("Cell.ApproxArea relative error / documented %g", lim), f.approxRelError/lim, "cell "+id.ToToken())
		if !(f.approxRelError <= lim) {
			c.Violate(sub, "bound-exceeded", fmt.Sprintf("Cell.ApproxArea is not within the documented %g%% of the cell's area", lim*100), idx, detail("relative_error", f.approxRelError))
		}
		// LoopFromCell / PolygonFromCell: the same region
		l := s2.LoopFromCell(cell)
		same := l.NumVertices() == 4
		for q := 0; same && q < 4; q++ {
			same = l.Vertex(q) == v[q]
		}
		if !same {
			c.Violate(sub, "wrong-answer", "LoopFromCell does not have the cell's four vertices in order", idx, detail())
		}
		la := l.Area()
		tolL := c18AreaTol(l)
		if e := c18DiffF(la, ref.area); !(e <= tolL) {
			c.Violate(sub, "bound-exceeded", "Loop.Area of LoopFromCell(cell) differs from the exact area by more than the documented error", idx, detail("loop_area", la, "error", e, "tolerance", tolL))
		}
		if e := math.Abs(la - f.exact); !(e <= tolL+2*c18covPointAreaAbs) {
			c.Violate(sub, "bound-exceeded", "Loop.Area of LoopFromCell(cell) differs from Cell.ExactArea by more than the documented errors", idx, detail("loop_area", la, "error", e))
		}
		r.m.obs("LoopFromCell.Area vs Cell.ExactArea, relative (recorded only)", math.Abs(la-f.exact)/f.refF, "cell "+id.ToToken())
		p := s2.PolygonFromCell(cell)
		if pa := p.Area(); pa != la {
			c.Violate(sub, "wrong-answer", "Polygon.Area of PolygonFromCell(cell) is not the area of its single loop LoopFromCell(cell)", idx, detail("polygon_area", pa, "loop_area", la))
		}
		if pc, lc := p.Centroid().Vector, l.Centroid().Vector; pc != lc {
			c.Violate(sub, "wrong-answer", "Polygon.Centroid of PolygonFromCell(cell) is not the centroid of its single loop", idx, detail("polygon_centroid", [3]float64{pc.X, pc.Y, pc.Z}, "loop_centroid", [3]float64{lc.X, lc.Y, lc.Z}))
		}
		rc := c18RefCentroid(v)
		ce := c18CentroidErr(l.Centroid().Vector, rc, 1)
		r.m.obs("LoopFromCell.Centroid abs error vs reference (recorded only)", ce, "cell "+id.ToToken())
		c.Eval(5)
		f.ok = true
	})
	return f
}

func c18covCells(c *core.Ctx, r *c18Run, thorough bool) {
	const sub, subKids = "cov-cell-area", "cov-cell-children"
	ids := c18covCellIDs(thorough)
	facts := make([]c18covCellFacts, len(ids))
	var once sync.Once
	c.ParallelFor(len(ids), func(i int) {
		if c18covExpiredOnce(c, &once, sub) {
			return
		}
		id := ids[i]
		if !c.Skip(sub, i) {
			facts[i] = c18covJudgeCell(c, r, sub, []int{i}, id)
			c.Count("cov_cells", 1)
			if id.Level() == 0 || id.Level() >= 20 {
				c.Nontrivial(1)
				c.Count("cov_cells:level_0_or_at_least_20", 1)
			}
			if i%(len(ids)/2+1) == 0 {
				c.Sample(map[string]any{"sub_check": sub, "cell": id.ToToken(), "level": id.Level(), "exact_area": facts[i].exact})
			}
		}
		// children: they tile the parent
		if id.IsLeaf() || c.Skip(subKids, i) {
			return
		}
		pf := facts[i]
		if !pf.ok {
			pf = c18covJudgeCell(c, r, sub, []int{i}, id)
			if !pf.ok {
				return
			}
		}
		var sumLib float64
		sumRef := c18new()
		good := true
		for _, ch := range id.Children() {
			cf := c18covJudgeCell(c, r, subKids, []int{i}, ch)
			if !cf.ok {
				good = false
				break
			}
			sumLib += cf.exact
			sumRef.Add(sumRef, cf.ref)
			if !(cf.exact > 0 && cf.exact < pf.exact) {
				c.Violate(subKids, "wrong-answer", "a child cell's ExactArea is not strictly between 0 and its parent's", []int{i}, map[string]any{"parent": id.ToToken(), "child": ch.ToToken(), "child_area": cf.exact, "parent_area": pf.exact})
			}
		}
		if !good {
			return
		}
		// the four child quadrilaterals tile the parent's only up to the rounding of the
		// shared edge midpoints, which are not on the parent's edges exactly: recorded
		gap := c18Float(c18new().Abs(c18new().Sub(pf.ref, sumRef)))
		r.m.obs("children tile the parent: relative gap of the exact areas (recorded only)", gap/pf.refF, "cell "+id.ToToken())
		tol := math.Min(10*c18covPointAreaAbs, 5*c18covPointAreaRel*pf.refF) + gap + 4*c18Eps*pf.refF
		e := math.Abs(sumLib - pf.exact)
		r.m.obs("sum of the children's ExactArea vs the parent's", e/tol, "cell "+id.ToToken())
		if !(e <= tol) {
			c.Violate(subKids, "bound-exceeded", "the ExactArea of the four children does not sum to the parent's within the documented error", []int{i},
				map[string]any{"parent": id.ToToken(), "level": id.Level(), "parent_area": pf.exact, "children_sum": sumLib, "error": e, "tolerance": tol})
		}
		c.Eval(1)
		c.Count("cov_cells:parents_with_children_sum", 1)
	})
	// the six face cells cover the sphere
	if !c.Skip(sub, len(ids)) {
		c.Guard(sub, []int{len(ids)}, nil, func() {
			var sum, sumApprox, sumAvg float64
			for f := 0; f < 6; f++ {
				cell := s2.CellFromCellID(s2.CellIDFromFace(f))
				sum += cell.ExactArea()
				sumApprox += cell.ApproxArea()
				sumAvg += cell.AverageArea()
			}
			c.Eval(3)
			if e := math.Abs(sum - 4*math.Pi); !(e <= 12*c18covPointAreaAbs+c18UlpFourPi) {
				c.Violate(sub, "bound-exceeded", "the ExactArea of the six face cells does not sum to 4*pi within the documented error", []int{len(ids)}, map[string]any{"sum": sum, "error": e})
			}
			if e := math.Abs(sumAvg - 4*math.Pi); !(e <= 2*c18UlpFourPi) {
				c.Violate(sub, "wrong-answer", "the AverageArea of the six face cells does not sum to 4*pi", []int{len(ids)}, map[string]any{"sum": sumAvg, "error": e})
			}
			if e := math.Abs(sumApprox-4*math.Pi) / (4 * math.Pi); !(e <= 0.03) {
				c.Violate(sub, "bound-exceeded", "the ApproxArea of the six face cells is not within 3% of 4*pi", []int{len(ids)}, map[string]any{"sum": sumApprox})
			}
		})
	}
}

// ---------------------------------------------------------------- cell unions

type c18covUnion struct {
	name string
	ids  []s2.CellID
}

func c18covUnionLattice(thorough bool) []c18covUnion {
	var out []c18covUnion
	add := func(name string, ids []s2.CellID) {
		ids = append([]s2.CellID(nil), ids...)
		sort.Slice(ids, func(i, j int) bool { return ids[i] < ids[j] })
		out = append(out, c18covUnion{name, ids})
	}
	add("empty", nil)
	var faces []s2.CellID
	for f := 0; f < 6; f++ {
		faces = append(faces, s2.CellIDFromFace(f))
		add(fmt.Sprintf("face %d", f), faces[f:])
		add(fmt.Sprintf("faces 0..%d", f), faces)
	}
	for _, id := range c18covCellIDs(thorough) {
		add("single "+id.ToToken(), []s2.CellID{id})
		if !id.IsLeaf() {
			ch := id.Children()
			add("children of "+id.ToToken(), ch[:])
			add("children 0,2 of "+id.ToToken(), []s2.CellID{ch[0], ch[2]})
		}
	}
	// staircases: one cell per level along a descending path; three siblings per level
	depth := 12
	if thorough {
		depth = 30
	}
	for f := 0; f < 6; f++ {
		for _, pos := range []int{0, 1, 2, 3} {
			var one, three []s2.CellID
			id := s2.CellIDFromFace(f)
			for l := 1; l <= depth; l++ {
				ch := id.Children()
				k := (pos + l) % 4
				for q := 0; q < 4; q++ {
					if q == k {
						continue
					}
					three = append(three, ch[q])
				}
				one = append(one, ch[(k+1)%4])
				id = ch[k]
			}
			add(fmt.Sprintf("staircase face %d start %d, one cell per level 1..%d", f, pos, depth), one)
			// three siblings per level plus the last cell itself: exactly the face
			add(fmt.Sprintf("staircase face %d start %d, face decomposed over levels 1..%d", f, pos, depth), append(three, id))
		}
	}
	return out
}

func c18covCellUnions(c *core.Ctx, r *c18Run, thorough bool) {
	const sub = "cov-cellunion-area"
	lat := c18covUnionLattice(thorough)
	var once sync.Once
	var nMulti atomic.Int64
	c.ParallelFor(len(lat), func(i int) {
		if c.Skip(sub, i) || c18covExpiredOnce(c, &once, sub) {
			return
		}
		U := lat[i]
		detail := func(kv ...any) map[string]any {
			var toks []string
			for _, id := range U.ids {
				toks = append(toks, id.ToToken())
			}
			d := map[string]any{"union": U.name, "cells": toks}
			for q := 0; q+1 < len(kv); q += 2 {
				d[kv[q].(string)] = kv[q+1]
			}
			return d
		}
		refs := make([]*c18Ref, len(U.ids)) // outside Guard: a panic here is a harness error
		for q, id := range U.ids {
			refs[q] = c18Reference(c18covCellVerts(s2.CellFromCellID(id)))
		}
		if cu := s2.CellUnion(U.ids); !cu.IsValid() {
			panic(core.HarnessError("C18 cov: invalid cell union in the lattice: " + U.name))
		}
		c.Guard(sub, []int{i}, func() any { return detail() }, func() {
			cu := s2.CellUnion(append([]s2.CellID(nil), U.ids...))
			exactA, approxA, avgA, leaves := cu.ExactArea(), cu.ApproxArea(), cu.AverageArea(), cu.LeafCellsCovered()
			c.Eval(4)
			refExact, refAvg := c18new(), c18new()
			var sumExact, sumApprox, tolExact float64
			wantLeaves := new(big.Int)
			minLevel, maxLevel := 31, -1
			for q, id := range U.ids {
				cell := s2.CellFromCellID(id)
				ref := refs[q]
				refExact.Add(refExact, ref.area)
				tolExact += math.Min(2*c18covPointAreaAbs, c18covPointAreaRel*ref.areaF)
				refAvg.Add(refAvg, c18covAvgArea(id.Level()))
				sumExact += cell.ExactArea()
				sumApprox += cell.ApproxArea()
				wantLeaves.Add(wantLeaves, new(big.Int).Lsh(big.NewInt(1), uint(2*(30-id.Level()))))
				if id.Level() < minLevel {
					minLevel = id.Level()
				}
				if id.Level() > maxLevel {
					maxLevel = id.Level()
				}
			}
			n := float64(len(U.ids))
			refF := c18Float(refExact)
			// "the number of leaf cells covered by this cell union"
			if wantLeaves.Cmp(big.NewInt(leaves)) != 0 {
				c.Violate(sub, "wrong-answer", "CellUnion.LeafCellsCovered is not the sum over the cells of 4^(30-level)", []int{i}, detail("got", leaves, "want", wantLeaves.String()))
			}
			// ExactArea: the sum over the cells
			if e := c18DiffF(exactA, refExact); !(e <= tolExact+n*c18Eps*refF) {
				c.Violate(sub, "bound-exceeded", "CellUnion.ExactArea differs from the sum of the exact areas of its cells by more than the documented error of PointArea", []int{i}, detail("exact_area", exactA, "reference", refF, "error", e, "tolerance", tolExact+n*c18Eps*refF))
			}
			if e := math.Abs(exactA - sumExact); !(e <= n*c18Eps*refF) {
				c.Violate(sub, "wrong-answer", "CellUnion.ExactArea is not the sum of Cell.ExactArea over its cells", []int{i}, detail("exact_area", exactA, "cell_sum", sumExact))
			}
			if e := math.Abs(approxA - sumApprox); !(e <= n*c18Eps*sumApprox) {
				c.Violate(sub, "wrong-answer", "CellUnion.ApproxArea is not the sum of Cell.ApproxArea over its cells", []int{i}, detail("approx_area", approxA, "cell_sum", sumApprox))
			}
			if len(U.ids) > 0 {
				lim := 0.03
				if minLevel >= 5 {
					lim = 0.001
				}
				rel := math.Abs(approxA-refF) / refF
				r.m.obs(fmt.Sprintf("CellUnion.ApproxArea relative error / documented %g", lim), rel/lim, U.name)
				if !(rel <= lim) {
					c.Violate(sub, "bound-exceeded", fmt.Sprintf("CellUnion.ApproxArea is not within the documented %g%% of the union's area", lim*100), []int{i}, detail("approx_area", approxA, "reference", refF, "relative_error", rel))
				}
				ratio := avgA / refF
				if !(ratio <= 1.7 && ratio >= 1/1.7) {
					c.Violate(sub, "bound-exceeded", "CellUnion.AverageArea is not within the documented factor of 1.7 of the union's area", []int{i}, detail("average_area", avgA, "reference", refF, "ratio", ratio))
				}
			} else if exactA != 0 || approxA != 0 || avgA != 0 || leaves != 0 {
				c.Violate(sub, "wrong-answer", "the areas / leaf count of the empty CellUnion are not 0", []int{i}, detail("exact_area", exactA, "approx_area", approxA, "average_area", avgA, "leaves", leaves))
			}
			// AverageArea = (number of leaf cells) * (average leaf area) = sum of the cells' average areas
			ra := c18Float(refAvg)
			if e := c18DiffF(avgA, refAvg); !(e <= 4*c18Eps*ra) {
				c.Violate(sub, "wrong-answer", "CellUnion.AverageArea is not LeafCellsCovered * 4*pi/(6*4^30)", []int{i}, detail("average_area", avgA, "reference", ra, "error", e))
			}
			if maxLevel > minLevel {
				nMulti.Add(1)
				c.Nontrivial(1)
			}
			c.Count("cov_cellunions", 1)
		})
		if i%(len(lat)/2+1) == 0 {
			c.Sample(map[string]any{"sub_check": sub, "union": U.name, "cells": len(U.ids)})
		}
	})
	c.Count("cov_cellunions:more_than_one_level", nMulti.Load())
	// a decomposed face has the face's area
	if !c.Skip(sub, len(lat)) {
		c.Guard(sub, []int{len(lat)}, nil, func() {
			for _, U := range lat {
				if !strings.Contains(U.name, "face decomposed") {
					continue
				}
				cu := s2.CellUnion(append([]s2.CellID(nil), U.ids...))
				face := s2.CellUnion{U.ids[0].Parent(0)}
				c.Eval(2)
				if cu.LeafCellsCovered() != face.LeafCellsCovered() {
					c.Violate(sub, "wrong-answer", "a face decomposed into cells of many levels does not cover the face's number of leaf cells", []int{len(lat)}, map[string]any{"union": U.name})
				}
				if e := math.Abs(cu.AverageArea() - face.AverageArea()); !(e <= 8*c18Eps*face.AverageArea()) {
					c.Violate(sub, "wrong-answer", "a face decomposed into cells of many levels does not have the face's AverageArea", []int{len(lat)}, map[string]any{"union": U.name, "got": cu.AverageArea(), "want": face.AverageArea()})
				}
				c.Count("cov_cellunions:decomposed_faces", 1)
			}
		})
	}
}
