package checks

import (
	"fmt"
	"math"
	"math/big"
	"sync"

	"github.com/golang/geo/r3"
	"github.com/golang/geo/s2"

	"verif/mc/core"
	"verif/mc/exact"
)

// Polygon part of check C18: Polygon.Area and Polygon.Centroid are the signed
// sums over shells and holes.

type c18Poly struct {
	name  string
	loops [][]s2.Point // every loop counter-clockwise around its own interior; nesting decides shells/holes
}

// c18RefCentroid is the reference "centroid times area" of a loop: the integral
// of position over the interior, which by Stokes' theorem is
// 1/2 * sum over edges of (edge length) * (unit normal of the edge plane).
func c18RefCentroid(v []s2.Point) [3]*big.Float {
	n := len(v)
	sum := [3]*big.Float{c18new(), c18new(), c18new()}
	for i := 0; i < n; i++ {
		a, b := exact.FromVector(v[i].Vector), exact.FromVector(v[(i+1)%n].Vector)
		cr := a.Cross(b)
		if cr.IsZero() {
			continue
		}
		nn := c18sqrtS(cr.Norm2())
		theta := c18atan2(nn, a.Dot(b).Big(c18Prec))
		f := c18new().Quo(theta, nn)
		f.Quo(f, c18f(2))
		for k := 0; k < 3; k++ {
			sum[k].Add(sum[k], c18new().Mul(f, cr.Comp(k).Big(c18Prec)))
		}
	}
	return sum
}

func c18CentroidErr(got r3.Vector, ref [3]*big.Float, sign float64) float64 {
	g := [3]float64{got.X, got.Y, got.Z}
	var s float64
	for k := 0; k < 3; k++ {
		d := c18Float(ref[k])*sign - g[k]
		// high-precision difference for small values
		dd := c18new().Sub(c18new().Mul(ref[k], c18f(sign)), c18f(g[k]))
		d = c18Float(dd)
		s += d * d
	}
	return math.Sqrt(s)
}

func c18PolygonCatalogue(thorough bool) []c18Poly {
	var out []c18Poly
	type cen struct {
		name string
		p    s2.Point
	}
	cens := []cen{{"face0", c18unit(1, 0, 0)}, {"corner", c18unit(1, 1, 1)}, {"pole", c18unit(0, 0, 1)}}
	sizes := []int{4, 31, 33}
	if thorough {
		cens = append(cens, cen{"generic", c18unit(0.3, -0.5, 0.81)}, cen{"edge", c18unit(1, 1, 0)}, cen{"south", c18unit(0, 0, -1)})
		sizes = []int{3, 4, 8, 31, 32, 33, 64, 100}
	}
	radSets := [][]float64{{1.0, 0.7, 0.4, 0.2}, {2, 1.0, 0.4, 0.2}, {math.Pi / 2, 1.0, 0.5, 1e-3}, {1e-3, 7e-4, 4e-4, 1e-7}}
	for _, ce := range cens {
		u, _ := c18Frame(ce.p)
		for _, n := range sizes {
			for ri, rs := range radSets {
				for k := 1; k <= 4; k++ {
					var ls [][]s2.Point
					for _, r := range rs[:k] {
						ls = append(ls, c18Ngon(ce.p, r, n))
					}
					out = append(out, c18Poly{fmt.Sprintf("concentric depth %d radii-set %d %d-gons at %s", k, ri, n, ce.name), ls})
				}
			}
			// shell + two holes
			h1 := s2.Point{Vector: ce.p.Mul(math.Cos(0.4)).Add(u.Mul(math.Sin(0.4))).Normalize()}
			h2 := s2.Point{Vector: ce.p.Mul(math.Cos(0.4)).Sub(u.Mul(math.Sin(0.4))).Normalize()}
			out = append(out, c18Poly{fmt.Sprintf("shell + 2 holes %d-gons at %s", n, ce.name),
				[][]s2.Point{c18Ngon(ce.p, 1.0, n), c18Ngon(h1, 0.1, n), c18Ngon(h2, 0.1, n)}})
			// shell + hole + island in the hole + separate island
			far := s2.Point{Vector: ce.p.Mul(-1)}
			out = append(out, c18Poly{fmt.Sprintf("shell/hole/island + antipodal island %d-gons at %s", n, ce.name),
				[][]s2.Point{c18Ngon(ce.p, 1.2, n), c18Ngon(h1, 0.3, n), c18Ngon(h1, 0.1, n), c18Ngon(far, 0.5, n)}})
		}
	}
	for _, n := range sizes {
		// side-by-side islands
		out = append(out, c18Poly{fmt.Sprintf("2 islands %d-gons", n), [][]s2.Point{c18Ngon(c18unit(1, 0, 0), 0.3, n), c18Ngon(c18unit(0, 1, 0), 0.3, n)}})
		out = append(out, c18Poly{fmt.Sprintf("3 islands %d-gons", n), [][]s2.Point{c18Ngon(c18unit(1, 0, 0), 0.3, n), c18Ngon(c18unit(0, 1, 0), 0.3, n), c18Ngon(c18unit(0, 0, 1), 0.3, n)}})
		// 13 islands (more than maxLinearSearchLoops)
		var ls [][]s2.Point
		cs := c18Centres(false)
		for i := 0; i < len(cs) && len(ls) < 13; i += 2 {
			ls = append(ls, c18Ngon(cs[i].p, 0.05, n))
		}
		out = append(out, c18Poly{fmt.Sprintf("13 islands %d-gons", n), ls})
		// the 13 islands inside a big shell, as holes
		ls2 := append([][]s2.Point{c18Ngon(c18unit(0.2, 0.1, 1), 3.0, n)}, ls...)
		out = append(out, c18Poly{fmt.Sprintf("13 holes in a shell of radius 3, %d-gons", n), ls2})
	}
	// cells: diagonal children share exactly one vertex
	cellLoop := func(id s2.CellID) []s2.Point {
		cell := s2.CellFromCellID(id)
		return []s2.Point{cell.Vertex(0), cell.Vertex(1), cell.Vertex(2), cell.Vertex(3)}
	}
	for f := 0; f < 6; f++ {
		for _, lvl := range []int{0, 5, 20, 28} {
			id := s2.CellIDFromFace(f).ChildBeginAtLevel(lvl).Next()
			if lvl == 0 {
				id = s2.CellIDFromFace(f)
			}
			ch := id.Children()
			out = append(out, c18Poly{fmt.Sprintf("diagonal children 0,2 of cell %s", id.ToToken()), [][]s2.Point{cellLoop(ch[0]), cellLoop(ch[2])}})
			out = append(out, c18Poly{fmt.Sprintf("cell %s with hole grandchild", id.ToToken()), [][]s2.Point{cellLoop(id), cellLoop(s2.VerifCellIDFromPoint(id.Point()).Parent(lvl + 2))}})
		}
	}
	// slivers as islands
	pls := c18Placements(false)
	mkSliver := func(pl c18Placement, ell, h float64) []s2.Point {
		nrm := pl.p.Cross(pl.t)
		return []s2.Point{{Vector: c18Arc(pl, 0).Normalize()}, {Vector: c18Arc(pl, ell).Normalize()}, {Vector: c18Arc(pl, ell/2).Add(nrm.Mul(h)).Normalize()}}
	}
	for _, h := range []float64{1e-15, 1e-14, 1e-9} {
		out = append(out, c18Poly{fmt.Sprintf("3 sliver islands h=%g", h), [][]s2.Point{mkSliver(pls[0], 0.1, h), mkSliver(pls[2], 0.1, h), mkSliver(pls[5], 0.1, h)}})
		out = append(out, c18Poly{fmt.Sprintf("sliver hole in a 31-gon h=%g", h), [][]s2.Point{c18Ngon(c18unit(1, 0, 0), 1, 31), mkSliver(pls[0], 0.1, h)}})
	}
	return out
}

func c18PolyDetail(P c18Poly) map[string]any {
	var vs [][][3]float64
	for _, l := range P.loops {
		vs = append(vs, c18Verts(l))
	}
	return map[string]any{"polygon": P.name, "loops": vs}
}

func runC18Polygons(c *core.Ctx, r *c18Run, thorough bool) {
	const sub = "polygon"
	cat := c18PolygonCatalogue(thorough)
	// every loop must satisfy the loop preconditions
	var ok []c18Poly
	for _, P := range cat {
		good := true
		for _, l := range P.loops {
			if why := c18ValidLoop(l, len(l) <= 8); why != "" {
				c.Count("catalogue_rejected:polygon:"+why, 1)
				good = false
			}
		}
		if good {
			ok = append(ok, P)
		}
	}
	cat = ok
	var cutOnce sync.Once
	c.ParallelFor(len(cat), func(i int) {
		if c.Skip(sub, i) {
			return
		}
		if c.Expired() {
			cutOnce.Do(func() { c.CapHit("sub-check polygon cut short by the budget") })
			return
		}
		P := cat[i]
		c18CheckPolygon(c, r, sub, i, P)
		c.Count("catalogue_polygons", 1)
		if len(P.loops) > 1 {
			c.Nontrivial(1)
		}
		if i%(len(cat)/3+1) == 0 {
			c.Sample(map[string]any{"sub_check": sub, "polygon": P.name, "loops": len(P.loops)})
		}
	})

	// empty and full polygons
	if !c.Skip(sub, len(cat)) {
		c.Guard(sub, []int{len(cat)}, nil, func() {
			e := s2.PolygonFromLoops([]*s2.Loop{s2.EmptyLoop()})
			f := s2.FullPolygon()
			if a := e.Area(); a != 0 {
				c.Violate(sub, "wrong-answer", "Polygon.Area of the empty polygon is not 0", []int{len(cat)}, map[string]any{"area": a})
			}
			if a := f.Area(); a != 4*math.Pi {
				c.Violate(sub, "wrong-answer", "Polygon.Area of the full polygon is not 4*pi", []int{len(cat)}, map[string]any{"area": a})
			}
			if ce := e.Centroid(); ce.Vector != (r3.Vector{}) {
				c.Violate(sub, "wrong-answer", "Polygon.Centroid of the empty polygon is not the zero vector", []int{len(cat)}, map[string]any{"centroid": ce})
			}
			e.Invert()
			f.Invert()
			if a := e.Area(); a != 4*math.Pi {
				c.Violate(sub, "wrong-answer", "Polygon.Area of the inverted empty polygon is not 4*pi", []int{len(cat)}, map[string]any{"area": a})
			}
			if a := f.Area(); a != 0 {
				c.Violate(sub, "wrong-answer", "Polygon.Area of the inverted full polygon is not 0", []int{len(cat)}, map[string]any{"area": a})
			}
			// the special loops
			if a, t := s2.EmptyLoop().Area(), s2.EmptyLoop().TurningAngle(); a != 0 || t != 2*math.Pi {
				c.Violate(sub, "wrong-answer", "EmptyLoop: Area/TurningAngle are not 0 / 2*pi", []int{len(cat)}, map[string]any{"area": a, "turning": t})
			}
			if a, t := s2.FullLoop().Area(), s2.FullLoop().TurningAngle(); a != 4*math.Pi || t != -2*math.Pi {
				c.Violate(sub, "wrong-answer", "FullLoop: Area/TurningAngle are not 4*pi / -2*pi", []int{len(cat)}, map[string]any{"area": a, "turning": t})
			}
			c.Eval(6)
		})
	}
}

func c18CheckPolygon(c *core.Ctx, r *c18Run, sub string, idx int, P c18Poly) {
	detail := func(kv ...any) map[string]any {
		d := c18PolyDetail(P)
		for i := 0; i+1 < len(kv); i += 2 {
			d[kv[i].(string)] = kv[i+1]
		}
		return d
	}
	nl := len(P.loops)

	// reference: nesting depth by exact containment of an interior point of each
	// (convex) loop in the other loops; reference area and centroid as signed sums
	refLoops := make([]*c18RefLoop, nl)
	for i, l := range P.loops {
		refLoops[i] = c18NewRefLoop(l)
	}
	polyContains := func(p s2.Point) bool {
		in := false
		for _, rl := range refLoops {
			if rl.contains(p) {
				in = !in
			}
		}
		return in
	}
	// nesting depth of loop i: the number of other loops that contain a vertex of
	// loop i which is not also a vertex of that other loop (polygon loops may
	// share vertices but do not cross)
	depthOf := func(i int) int {
		depth := 0
		for j := range P.loops {
			if j == i {
				continue
			}
			for _, p := range P.loops[i] {
				shared := false
				for _, q := range P.loops[j] {
					if p == q {
						shared = true
					}
				}
				if !shared {
					if refLoops[j].contains(p) {
						depth++
					}
					break
				}
			}
		}
		return depth
	}
	refArea := c18new()
	refCen := [3]*big.Float{c18new(), c18new(), c18new()}
	holes := 0
	for i, l := range P.loops {
		depth := depthOf(i)
		ref := c18Reference(l)
		cen := c18RefCentroid(l)
		if depth%2 == 1 {
			holes++
			refArea.Sub(refArea, ref.area)
			for k := 0; k < 3; k++ {
				refCen[k].Sub(refCen[k], cen[k])
			}
		} else {
			refArea.Add(refArea, ref.area)
			for k := 0; k < 3; k++ {
				refCen[k].Add(refCen[k], cen[k])
			}
		}
	}
	if holes > 0 {
		c.Count("polygons_with_holes", 1)
	}

	build := func(oriented bool) *s2.Polygon {
		var ls []*s2.Loop
		for i, l := range P.loops {
			src := c18Clone(l)
			if oriented {
				// holes clockwise, as PolygonFromOrientedLoops expects
				if depthOf(i)%2 == 1 {
					src = c18Reverse(src)
				}
			}
			ls = append(ls, s2.LoopFromPoints(src))
		}
		if oriented {
			return s2.PolygonFromOrientedLoops(ls)
		}
		return s2.PolygonFromLoops(ls)
	}

	identity := func(p *s2.Polygon, what string) (area float64, cen r3.Vector, tol float64) {
		var a float64
		var u r3.Vector
		for _, l := range p.Loops() {
			la := l.Area()
			lc := l.Centroid().Vector
			a += float64(l.Sign()) * la
			if l.Sign() < 0 {
				u = u.Sub(lc)
			} else {
				u = u.Add(lc)
			}
			tol += c18AreaTol(l)
		}
		area = p.Area()
		cen = p.Centroid().Vector
		c.Eval(2)
		if math.Float64bits(area) != math.Float64bits(a) {
			c.Violate(sub, "wrong-answer", "Polygon.Area is not the signed sum of its loops' areas (+ shells, - holes, in loop order)", []int{idx}, detail("variant", what, "polygon_area", area, "signed_sum", a))
		}
		if cen != u {
			c.Violate(sub, "wrong-answer", "Polygon.Centroid is not the signed sum of its loops' centroids (+ shells, - holes, in loop order)", []int{idx}, detail("variant", what, "polygon_centroid", cen, "signed_sum", u))
		}
		return area, cen, tol
	}

	c.Guard(sub, []int{idx}, func() any { return c18PolyDetail(P) }, func() {
		p := build(false)
		area, cen, tol := identity(p, "PolygonFromLoops")
		tol += float64(nl) * c18UlpFourPi

		// number of holes the implementation found
		ih := 0
		for _, l := range p.Loops() {
			if l.IsHole() {
				ih++
			}
		}
		if ih != holes {
			c.Violate(sub, "wrong-answer", "Polygon nesting: number of holes differs from the exact containment model", []int{idx}, detail("holes", ih, "reference_holes", holes))
		}

		// against the reference signed sum
		dA := c18DiffF(area, refArea)
		r.m.obs("polygon_area_vs_reference", dA/tol, P.name)
		if dA > tol {
			c.Violate(sub, "bound-exceeded", "Polygon.Area differs from the exact signed sum over shells and holes by more than the loops' documented errors", []int{idx}, detail("area", area, "reference_area", c18Float(refArea), "tolerance", tol))
		}
		if area < -tol || area > 4*math.Pi+tol {
			c.Violate(sub, "wrong-answer", "Polygon.Area outside the documented range [0, 4*pi]", []int{idx}, detail("area", area))
		}
		dC := c18CentroidErr(cen, refCen, 1)
		r.m.obs("polygon_centroid_abs_error_vs_reference (no documented bound; asserted only below 1e-9)", dC, P.name)
		if dC > 1e-9 {
			c.Violate(sub, "wrong-answer", "Polygon.Centroid is not the integral of position over the polygon (signed sum over shells and holes)", []int{idx}, detail("centroid", cen,
				"reference_centroid", [3]float64{c18Float(refCen[0]), c18Float(refCen[1]), c18Float(refCen[2])}, "error", dC))
		}

		// containment: discs around far probes
		far := r.probes.farProbes(P.loops...)
		if len(far) > 0 {
			k := 0
			for _, pi := range far {
				if polyContains(r.probes.p[pi]) {
					k++
				}
			}
			m := len(far)
			c.Eval(m)
			lower := float64(k) * r.probes.capA
			upper := 4*math.Pi - float64(m-k)*r.probes.capA
			if area < lower-tol || area > upper+tol {
				c.Violate(sub, "wrong-answer", "Polygon.Area is inconsistent with the points the polygon contains (exact reference containment)", []int{idx},
					detail("area", area, "far_probes", m, "far_probes_contained", k, "area_lower_bound", lower, "area_upper_bound", upper))
			}
		}

		// complement
		q := build(false)
		q.Invert()
		qa, qc, qtol := identity(q, "after Invert")
		qtol += float64(nl) * c18UlpFourPi
		dS := math.Abs((area - 2*math.Pi) + (qa - 2*math.Pi))
		r.m.obs("polygon_area_plus_complement", dS/(tol+qtol), P.name)
		if dS > tol+qtol {
			c.Violate(sub, "bound-exceeded", "Polygon.Area(P) + Polygon.Area(complement of P) differs from 4*pi by more than the loops' documented errors", []int{idx}, detail("area", area, "area_complement", qa, "tolerance", tol+qtol))
		}
		dQ := c18CentroidErr(qc, refCen, -1)
		r.m.obs("polygon_centroid_abs_error_vs_reference (no documented bound; asserted only below 1e-9)", dQ, P.name+" (complement)")
		if dQ > 1e-9 {
			c.Violate(sub, "wrong-answer", "Polygon.Centroid of the complement is not the negated integral of position", []int{idx}, detail("centroid_complement", qc, "error", dQ))
		}

		// the same polygon from oriented loops (holes clockwise): Normalize/IsNormalized decide
		o := build(true)
		oa, _, otol := identity(o, "PolygonFromOrientedLoops")
		otol += float64(nl) * c18UlpFourPi
		dO := c18DiffF(oa, refArea)
		if dO > otol {
			c.Violate(sub, "bound-exceeded", "Polygon.Area of the polygon built from oriented loops differs from the exact signed sum by more than the loops' documented errors", []int{idx}, detail("area", oa, "reference_area", c18Float(refArea), "tolerance", otol))
		}
	})
}
