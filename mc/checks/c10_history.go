package checks

// C10 sub-check "bound-histories": bounds after operation HISTORIES.
//
// Every other C10 sub-check builds an object, asks once and throws it away.  A bound that is
// cached, or state that an earlier call leaves behind (an index that is not reset, a scratch
// slice that was permuted, a "first point" flag), only shows when an object is USED, then
// MODIFIED (or extended, or asked something else), then USED AGAIN.  This sub-check enumerates
// ALL operation sequences up to a depth over a small alphabet, on a few small objects whose sizes
// straddle the library's thresholds (Loop: 32 vertices for brute-force containment; ShapeIndex:
// 10 edges per cell; Polygon: 32 vertices for brute force, 12 loops for the linear edge search):
//
//   loops      8, 40 and 100 vertices x {around the north pole, around the south pole, across the
//              antimeridian, larger than a hemisphere}:
//              RectBound, CapBound, CellUnionBound, ContainsPoint(centre / north pole / south pole),
//              Invert, Normalize
//   polygons   shell+hole (16 vertices), polar shell+hole (41), two shells across the
//              antimeridian (45), 14 shells (56):
//              RectBound, CapBound, CellUnionBound, ContainsPoint(2 points), Invert
//   polylines  2, 3, 14 and 40 vertices: RectBound, CapBound, CellUnionBound, Reverse
//   bounder    one RectBounder: AddPoint(5 points: generic, exactly 180 degrees of longitude away,
//              1e-9 from the pole, southern, exact antipode of the first), RectBound
//   hull       one ConvexHullQuery: AddPoint(6 points: three exactly collinear, an interior one,
//              one that makes the input span more than 180 degrees of longitude), AddLoop(8-gon), ConvexHull, CapBound
//
// Oracle after every history (nothing is sampled, nothing is merged: every history is run on an
// object of its own):
//   (a) the answer of the history's last operation, and then every answer of a full round of
//       questions, equals the answer of a FRESH object built directly in the final state
//       (regions: from the current vertices; bounder / hull query: the same additions without
//       the reads in between), each fresh answer coming from an object that is asked once;
//   (b) the property's own reference: every probe the CURRENT region contains (exact crossing
//       parity on the current vertices, the reference of region-bounds) is inside the rectangle
//       (strictly, as the computed LatLngFromPoint), inside the cap (beyond rounding: the unpadded
//       cap bound is recorded finding D24 of region-bounds, and (a) ties the history's cap
//       bit-for-bit to the fresh cap that region-bounds judges strictly) and inside a cell of the
//       cell-union bound; ContainsPoint equals the exact reference; the hull is convex (exact turn
//       signs) and contains or has as a vertex every input point; the bounder's rectangle contains
//       every vertex added so far and a pole that is exactly on an edge.

import (
	"fmt"
	"math"
	"strings"
	"sync"
	"sync/atomic"
	"time"

	"github.com/golang/geo/r3"
	"github.com/golang/geo/s2"

	"verif/mc/core"
	"verif/mc/lattice"
)

const c10HSub = "bound-histories"

type c10HStats struct {
	histories, nontrivial, lastJudged, rounds atomic.Int64
	stateChanged, normalizeInverted           atomic.Int64
	boundsVerified, probesJudged              atomic.Int64
	hullFull, hullJudged, bounderFull         atomic.Int64
	perFamily                                 sync.Map // family -> *atomic.Int64
}

func (s *c10HStats) fam(name string) *atomic.Int64 {
	v, _ := s.perFamily.LoadOrStore(name, &atomic.Int64{})
	return v.(*atomic.Int64)
}

// c10HTarget is one object together with its operation alphabet.
type c10HTarget interface {
	family() string
	name() string
	ops() []string
	run(c *core.Ctx, h *c10HRun)
}

// c10HRun is one history.
type c10HRun struct {
	cas   []int
	hist  []int
	names []string
	st    *c10HStats
}

func (h *c10HRun) histNames() []string {
	out := make([]string, len(h.hist))
	for i, op := range h.hist {
		out[i] = h.names[op]
	}
	return out
}

// c10HMiss is a bound that loses a contained probe.
type c10HMiss struct {
	desc   string
	detail map[string]any
}

// ---- regions (loop, polygon, polyline) --------------------------------------------------------

// c10HRegion is a region object: reads are the s2.Region bounds and ContainsPoint on the
// letter points, mutators are named closures.
type c10HRegion struct {
	fam, nm  string
	kind     string // loop | polygon | polyline (for the descriptors)
	pts      []s2.Point
	obs      []s2.Point // points asked in the closing round (superset of pts)
	mutNames []string
	build    func() s2.Region
	mutate   func(obj s2.Region, m int)
	snapshot func(obj s2.Region) [][]s2.Point
	fresh    func(snap [][]s2.Point) s2.Region
	entry    func(snap [][]s2.Point, extra []s2.Point) *c10Bounded
	extra    []s2.Point

	mu     sync.Mutex
	states map[string]*c10HRegionState
}

type c10HRegionState struct {
	snap      [][]s2.Point
	contained []s2.Point
	latlngs   []s2.LatLng
	nProbes   int
	rect      s2.Rect
	capb      s2.Cap
	cells     []s2.CellID
	freshIn   []bool
	refIn     []bool
	bad       string // a panic while building the fresh objects

	mu      sync.Mutex
	rectOK  map[s2.Rect]*c10HMiss
	capOK   map[s2.Cap]*c10HMiss
	cellsOK map[string]*c10HMiss
}

func (o *c10HRegion) family() string { return o.fam }
func (o *c10HRegion) name() string   { return o.nm }
func (o *c10HRegion) ops() []string {
	out := []string{"RectBound", "CapBound", "CellUnionBound"}
	for k := range o.pts {
		out = append(out, fmt.Sprintf("ContainsPoint(p%d)", k))
	}
	return append(out, o.mutNames...)
}

func c10HCopy(snap [][]s2.Point) [][]s2.Point {
	out := make([][]s2.Point, len(snap))
	for i, v := range snap {
		out[i] = append([]s2.Point(nil), v...)
	}
	return out
}

func c10HTokens(ids []s2.CellID) string {
	var sb strings.Builder
	for _, id := range ids {
		sb.WriteString(id.ToToken())
		sb.WriteByte(' ')
	}
	return sb.String()
}

// state returns the reference data of the region described by snap: contained probes, the
// answers of fresh objects (one object per answer), the exact containment of the closing points.
func (o *c10HRegion) state(snap [][]s2.Point) *c10HRegionState {
	key := deepKey(snap)
	o.mu.Lock()
	defer o.mu.Unlock()
	if s, ok := o.states[key]; ok {
		return s
	}
	s := &c10HRegionState{snap: c10HCopy(snap), rectOK: map[s2.Rect]*c10HMiss{}, capOK: map[s2.Cap]*c10HMiss{}, cellsOK: map[string]*c10HMiss{}}
	b := o.entry(c10HCopy(snap), o.extra)
	probes := c10Unit(lattice.Dedup(b.probes))
	s.nProbes = len(probes)
	for _, p := range probes {
		if b.in(p) {
			s.contained = append(s.contained, p)
			s.latlngs = append(s.latlngs, s2.LatLngFromPoint(p))
		}
	}
	func() {
		defer func() {
			if r := recover(); r != nil {
				s.bad = fmt.Sprint(r)
			}
		}()
		s.rect = o.fresh(c10HCopy(snap)).RectBound()
		s.capb = o.fresh(c10HCopy(snap)).CapBound()
		s.cells = o.fresh(c10HCopy(snap)).CellUnionBound()
		for _, p := range o.obs {
			s.freshIn = append(s.freshIn, o.fresh(c10HCopy(snap)).ContainsPoint(p))
			s.refIn = append(s.refIn, b.in(p))
		}
	}()
	o.states[key] = s
	return s
}

func (s *c10HRegionState) checkRect(kind string, rb s2.Rect, st *c10HStats) *c10HMiss {
	s.mu.Lock()
	defer s.mu.Unlock()
	if m, ok := s.rectOK[rb]; ok {
		return m
	}
	st.boundsVerified.Add(1)
	st.probesJudged.Add(int64(len(s.contained)))
	var miss *c10HMiss
	for i, ll := range s.latlngs {
		if !rb.ContainsLatLng(ll) {
			miss = &c10HMiss{c10RectDesc("RectBound of a "+kind+" after a history of operations", rb, ll),
				map[string]any{"point": lattice.GeoPt(s.contained[i]), "point_lat_lng": []float64{ll.Lat.Radians(), ll.Lng.Radians()}, "excess_rad": c10RectExcess(rb, ll)}}
			break
		}
	}
	s.rectOK[rb] = miss
	return miss
}

func (s *c10HRegionState) checkCap(kind string, cb s2.Cap, st *c10HStats) *c10HMiss {
	s.mu.Lock()
	defer s.mu.Unlock()
	if m, ok := s.capOK[cb]; ok {
		return m
	}
	st.boundsVerified.Add(1)
	st.probesJudged.Add(int64(len(s.contained)))
	var miss *c10HMiss
	for _, p := range s.contained {
		if !cb.ContainsPoint(p) && c10CapGross(cb, p) {
			miss = &c10HMiss{"bound too small by more than rounding (over 4e-15 in chord length): CapBound of a " + kind + " after a history of operations misses a contained point",
				map[string]any{"point": lattice.GeoPt(p), "inside_cap_in_exact_arithmetic": c10CapContainsExact(cb, p)}}
			break
		}
	}
	s.capOK[cb] = miss
	return miss
}

func (s *c10HRegionState) checkCells(kind string, cub []s2.CellID, st *c10HStats) *c10HMiss {
	key := c10HTokens(cub)
	s.mu.Lock()
	defer s.mu.Unlock()
	if m, ok := s.cellsOK[key]; ok {
		return m
	}
	st.boundsVerified.Add(1)
	st.probesJudged.Add(int64(len(s.contained)))
	cells := make([]s2.Cell, len(cub))
	for k, id := range cub {
		cells[k] = s2.CellFromCellID(id)
	}
	var miss *c10HMiss
	for _, p := range s.contained {
		found := false
		for _, cl := range cells {
			if cl.ContainsPoint(p) {
				found = true
				break
			}
		}
		if !found {
			miss = &c10HMiss{"CellUnionBound of a " + kind + " after a history of operations does not cover a contained point", map[string]any{"point": lattice.GeoPt(p)}}
			break
		}
	}
	s.cellsOK[key] = miss
	return miss
}

func c10HRectStr(r s2.Rect) map[string]any {
	return map[string]any{"lat": []float64{r.Lat.Lo, r.Lat.Hi}, "lng": []float64{r.Lng.Lo, r.Lng.Hi}}
}

func c10HSameCells(a, b []s2.CellID) bool {
	if len(a) != len(b) {
		return false
	}
	for i := range a {
		if a[i] != b[i] {
			return false
		}
	}
	return true
}

func (o *c10HRegion) run(c *core.Ctx, h *c10HRun) {
	nP := len(o.pts)
	firstMut := 3 + nP
	type answer struct {
		op    int
		rect  s2.Rect
		capb  s2.Cap
		cells []s2.CellID
		in    bool
	}
	var obj s2.Region
	var last *answer
	lastMut := "none"
	used, useModify := false, false
	changed := false
	var snap [][]s2.Point
	var rb s2.Rect
	var cb s2.Cap
	var cub []s2.CellID
	var ins []bool
	ok := false
	detail := func(extra map[string]any) map[string]any {
		d := map[string]any{"object": o.nm, "history": h.histNames(), "then": "RectBound, CapBound, CellUnionBound, ContainsPoint(closing points)"}
		if snap != nil {
			var vs [][][3]float64
			for _, v := range snap {
				vs = append(vs, lattice.GeoPts(v))
			}
			d["current_vertices"] = vs
		}
		for k, v := range extra {
			d[k] = v
		}
		return d
	}
	c.Guard(c10HSub, h.cas, func() any { return detail(nil) }, func() {
		obj = o.build()
		for _, op := range h.hist {
			switch {
			case op == 0:
				last = &answer{op: op, rect: obj.RectBound()}
			case op == 1:
				last = &answer{op: op, capb: obj.CapBound()}
			case op == 2:
				last = &answer{op: op, cells: obj.CellUnionBound()}
			case op < firstMut:
				last = &answer{op: op, in: obj.ContainsPoint(o.pts[op-3])}
			default:
				before := deepKey(o.snapshot(obj))
				o.mutate(obj, op-firstMut)
				last = nil
				if deepKey(o.snapshot(obj)) != before {
					changed = true
					lastMut = h.names[op]
					if used {
						useModify = true
					}
					if strings.HasPrefix(h.names[op], "Normalize") {
						h.st.normalizeInverted.Add(1)
					}
				}
				continue
			}
			used = true
		}
		snap = c10HCopy(o.snapshot(obj))
		// the closing round of questions
		rb, cb, cub = obj.RectBound(), obj.CapBound(), obj.CellUnionBound()
		for _, p := range o.obs {
			ins = append(ins, obj.ContainsPoint(p))
		}
		ok = true
	})
	if !ok {
		return
	}
	if changed {
		h.st.stateChanged.Add(1)
	}
	if useModify {
		h.st.nontrivial.Add(1)
	}
	s := o.state(snap)
	if s.bad != "" {
		c.Violate(c10HSub, "panic", "panic while building a fresh "+o.kind+" from the vertices an object has after a history of operations", h.cas, detail(map[string]any{"panic": s.bad}))
		return
	}
	after := " (last operation that changed the " + o.kind + ": " + lastMut + ")"
	judgeRect := func(when string, r s2.Rect) {
		if r != s.rect {
			c.Violate(c10HSub, "wrong-answer", "RectBound of a "+o.kind+" "+when+" differs from the RectBound of a fresh "+o.kind+" with the same vertices"+after, h.cas,
				detail(map[string]any{"got": c10HRectStr(r), "fresh": c10HRectStr(s.rect)}))
		}
		if m := s.checkRect(o.kind, r, h.st); m != nil {
			d := detail(m.detail)
			d["rect_bound"] = c10HRectStr(r)
			c.Violate(c10HSub, "wrong-answer", m.desc+after, h.cas, d)
		}
	}
	judgeCap := func(when string, cp s2.Cap) {
		if cp != s.capb {
			c.Violate(c10HSub, "wrong-answer", "CapBound of a "+o.kind+" "+when+" differs from the CapBound of a fresh "+o.kind+" with the same vertices"+after, h.cas,
				detail(map[string]any{"got": cp.String(), "fresh": s.capb.String()}))
		}
		if m := s.checkCap(o.kind, cp, h.st); m != nil {
			d := detail(m.detail)
			d["cap_bound"] = cp.String()
			c.Violate(c10HSub, "wrong-answer", m.desc+after, h.cas, d)
		}
	}
	judgeCells := func(when string, ids []s2.CellID) {
		if !c10HSameCells(ids, s.cells) {
			c.Violate(c10HSub, "wrong-answer", "CellUnionBound of a "+o.kind+" "+when+" differs from the CellUnionBound of a fresh "+o.kind+" with the same vertices"+after, h.cas,
				detail(map[string]any{"got": c10HTokens(ids), "fresh": c10HTokens(s.cells)}))
		}
		if m := s.checkCells(o.kind, ids, h.st); m != nil {
			d := detail(m.detail)
			d["cell_union_bound"] = c10HTokens(ids)
			c.Violate(c10HSub, "wrong-answer", m.desc+after, h.cas, d)
		}
	}
	judgeIn := func(when string, k int, got bool) {
		if got != s.refIn[k] {
			c.Violate(c10HSub, "wrong-answer", "ContainsPoint of a "+o.kind+" "+when+" differs from the exact containment in the current vertices"+after, h.cas,
				detail(map[string]any{"point": lattice.GeoPt(o.obs[k]), "got": got, "exact": s.refIn[k], "fresh": s.freshIn[k]}))
		} else if got != s.freshIn[k] {
			c.Violate(c10HSub, "wrong-answer", "ContainsPoint of a "+o.kind+" "+when+" differs from ContainsPoint of a fresh "+o.kind+" with the same vertices"+after, h.cas,
				detail(map[string]any{"point": lattice.GeoPt(o.obs[k]), "got": got, "exact": s.refIn[k], "fresh": s.freshIn[k]}))
		}
	}
	if last != nil {
		h.st.lastJudged.Add(1)
		const when = "returned by the last operation of a history"
		switch {
		case last.op == 0:
			judgeRect(when, last.rect)
		case last.op == 1:
			judgeCap(when, last.capb)
		case last.op == 2:
			judgeCells(when, last.cells)
		default:
			judgeIn(when, last.op-3, last.in) // obs starts with pts
		}
	}
	h.st.rounds.Add(1)
	const when = "asked after a history"
	judgeRect(when, rb)
	judgeCap(when, cb)
	judgeCells(when, cub)
	for k, got := range ins {
		judgeIn(when, k, got)
	}
}

// c10HObsPoints: the letter points followed by points well inside and well outside a regular
// polygon of circumradius rad about ctr (0.5 and 1.5 radii away) and the antipode of the centre.
func c10HObsPoints(pts []s2.Point, ctr s2.Point, rad float64) []s2.Point {
	out := append([]s2.Point(nil), pts...)
	out = append(out, s2.Point{Vector: ctr.Mul(-1)})
	for k := 0; k < 4; k++ {
		out = append(out, lattice.GeoCirclePoint(ctr, 0.5*rad, 0.4+float64(k)*math.Pi/2))
		if 1.5*rad < math.Pi {
			out = append(out, lattice.GeoCirclePoint(ctr, 1.5*rad, 0.9+float64(k)*math.Pi/2))
		}
	}
	return out
}

func c10HLoopTarget(nm string, ctr s2.Point, rad float64, n int, perEdge int) *c10HRegion {
	v := lattice.GeoRegular(ctr, rad, n, 0.1)
	north, south := s2.PointFromCoords(0, 0, 1), s2.PointFromCoords(0, 0, -1)
	pts := []s2.Point{ctr, north, south}
	obs := c10HObsPoints(pts, ctr, rad)
	return &c10HRegion{
		fam: "loops", nm: nm, kind: "loop", pts: pts, obs: obs, mutNames: []string{"Invert", "Normalize"},
		build: func() s2.Region { return s2.LoopFromPoints(append([]s2.Point(nil), v...)) },
		mutate: func(obj s2.Region, m int) {
			if m == 0 {
				obj.(*s2.Loop).Invert()
			} else {
				obj.(*s2.Loop).Normalize()
			}
		},
		snapshot: func(obj s2.Region) [][]s2.Point { return [][]s2.Point{obj.(*s2.Loop).Vertices()} },
		fresh:    func(snap [][]s2.Point) s2.Region { return s2.LoopFromPoints(snap[0]) },
		entry: func(snap [][]s2.Point, extra []s2.Point) *c10Bounded {
			return c10LoopEntry(nm, snap[0], perEdge, extra)
		},
		extra:  append(append([]s2.Point(nil), obs...), lattice.PStruct(1)...),
		states: map[string]*c10HRegionState{},
	}
}

func c10HPolygonTarget(nm string, loops [][]s2.Point, pts []s2.Point, perEdge int) *c10HRegion {
	mk := func(ls [][]s2.Point) s2.Region {
		var out []*s2.Loop
		for _, v := range ls {
			out = append(out, s2.LoopFromPoints(append([]s2.Point(nil), v...)))
		}
		return s2.PolygonFromLoops(out)
	}
	north, south := s2.PointFromCoords(0, 0, 1), s2.PointFromCoords(0, 0, -1)
	obs := append(append([]s2.Point(nil), pts...), north, south, s2.Point{Vector: pts[0].Mul(-1)})
	for _, v := range loops {
		// the centroid direction of every loop and a point just outside its first vertex
		var sum r3.Vector
		for _, p := range v {
			sum = sum.Add(p.Vector)
		}
		ctr := s2.Point{Vector: sum.Normalize()}
		obs = append(obs, ctr, lattice.GeoSlerp(ctr, v[0], 1.3))
	}
	obs = c10Unit(lattice.Dedup(obs))
	return &c10HRegion{
		fam: "polygons", nm: nm, kind: "polygon", pts: pts, obs: obs, mutNames: []string{"Invert"},
		build:  func() s2.Region { return mk(loops) },
		mutate: func(obj s2.Region, m int) { obj.(*s2.Polygon).Invert() },
		snapshot: func(obj s2.Region) [][]s2.Point {
			var out [][]s2.Point
			for _, l := range obj.(*s2.Polygon).Loops() {
				out = append(out, l.Vertices())
			}
			return out
		},
		fresh: mk,
		entry: func(snap [][]s2.Point, extra []s2.Point) *c10Bounded {
			return c10PolygonEntry(nm, snap, perEdge, extra)
		},
		extra:  append(append([]s2.Point(nil), obs...), lattice.PStruct(1)...),
		states: map[string]*c10HRegionState{},
	}
}

func c10HPolylineTarget(nm string, v []s2.Point, extra []s2.Point) *c10HRegion {
	return &c10HRegion{
		fam: "polylines", nm: nm, kind: "polyline", mutNames: []string{"Reverse"},
		build: func() s2.Region {
			pl := s2.Polyline(append([]s2.Point(nil), v...))
			return &pl
		},
		mutate:   func(obj s2.Region, m int) { obj.(*s2.Polyline).Reverse() },
		snapshot: func(obj s2.Region) [][]s2.Point { return [][]s2.Point{[]s2.Point(*obj.(*s2.Polyline))} },
		fresh: func(snap [][]s2.Point) s2.Region {
			pl := s2.Polyline(snap[0])
			return &pl
		},
		entry: func(snap [][]s2.Point, extra []s2.Point) *c10Bounded {
			return c10PolylineEntry(nm, snap[0], extra)
		},
		extra:  extra,
		states: map[string]*c10HRegionState{},
	}
}

// ---- RectBounder ----------------------------------------------------------------------------------

type c10HBounder struct {
	pts   []s2.Point
	names []string
}

func (o *c10HBounder) family() string { return "bounder" }
func (o *c10HBounder) name() string   { return "RectBounder" }
func (o *c10HBounder) ops() []string {
	out := []string{"RectBound"}
	for k := range o.pts {
		out = append(out, fmt.Sprintf("AddPoint(%s)", o.names[k]))
	}
	return out
}

func (o *c10HBounder) run(c *core.Ctx, h *c10HRun) {
	var added []s2.Point
	var last *s2.Rect
	var lastAdded int
	var closing s2.Rect
	used, useModify := false, false
	ok := false
	detail := func(extra map[string]any) map[string]any {
		d := map[string]any{"object": "one RectBounder", "history": h.histNames(), "then": "RectBound", "points_added": lattice.GeoPts(added)}
		for k, v := range extra {
			d[k] = v
		}
		return d
	}
	c.Guard(c10HSub, h.cas, func() any { return detail(nil) }, func() {
		rbd := s2.NewRectBounder()
		for _, op := range h.hist {
			if op == 0 {
				r := rbd.RectBound()
				last, lastAdded = &r, len(added)
				used = true
				continue
			}
			rbd.AddPoint(o.pts[op-1])
			added = append(added, o.pts[op-1])
			last = nil
			if used {
				useModify = true
			}
		}
		closing = rbd.RectBound()
		ok = true
	})
	if !ok {
		return
	}
	if useModify {
		h.st.nontrivial.Add(1)
	}
	fresh := func(n int) (r s2.Rect) {
		f := s2.NewRectBounder()
		for _, p := range added[:n] {
			f.AddPoint(p)
		}
		return f.RectBound()
	}
	judge := func(when string, got s2.Rect, n int) {
		var fr s2.Rect
		okf := false
		c.Guard(c10HSub, h.cas, func() any { return detail(nil) }, func() { fr = fresh(n); okf = true })
		if !okf {
			return
		}
		if got != fr {
			c.Violate(c10HSub, "wrong-answer", "RectBound of a RectBounder that was read and then extended differs from the RectBound of a new RectBounder given the same points ("+when+")", h.cas,
				detail(map[string]any{"got": c10HRectStr(got), "fresh": c10HRectStr(fr), "points_counted": n}))
		}
		if got.IsFull() {
			h.st.bounderFull.Add(1)
		}
		// the bound contains every vertex of the chain, and a pole that is exactly on an edge
		ps := append([]s2.Point(nil), added[:n]...)
		for i := 0; i+1 < n; i++ {
			if antipodal(added[i], added[i+1]) {
				continue
			}
			for _, pole := range []s2.Point{s2.PointFromCoords(0, 0, 1), s2.PointFromCoords(0, 0, -1)} {
				if c10OnChain(added[i:i+2], pole) {
					ps = append(ps, pole)
				}
			}
		}
		for _, p := range ps {
			if ll := s2.LatLngFromPoint(p); !got.ContainsLatLng(ll) {
				desc := "RectBound of a RectBounder that was read and then extended does not contain a vertex of its chain (" + when + ")"
				if c10RectExcess(got, ll) > c10RectUlpLevel {
					desc = "bound too small by more than rounding (over 4e-15 rad): " + desc
				}
				c.Violate(c10HSub, "wrong-answer", desc, h.cas, detail(map[string]any{"got": c10HRectStr(got), "point": lattice.GeoPt(p), "point_lat_lng": []float64{ll.Lat.Radians(), ll.Lng.Radians()}}))
				break
			}
		}
	}
	if last != nil {
		h.st.lastJudged.Add(1)
		judge("answer of the last operation", *last, lastAdded)
	}
	h.st.rounds.Add(1)
	judge("asked after the history", closing, len(added))
}

// ---- ConvexHullQuery -------------------------------------------------------------------------------

type c10HHull struct {
	pts    []s2.Point
	names  []string
	loop   []s2.Point
	hstats *c10Stats
}

func (o *c10HHull) family() string { return "hull" }
func (o *c10HHull) name() string   { return "ConvexHullQuery" }
func (o *c10HHull) ops() []string {
	out := []string{"ConvexHull", "CapBound"}
	for k := range o.pts {
		out = append(out, fmt.Sprintf("AddPoint(%s)", o.names[k]))
	}
	return append(out, "AddLoop(8-gon)")
}

func (o *c10HHull) apply(q *s2.ConvexHullQuery, op int) []s2.Point {
	if op-2 < len(o.pts) {
		q.AddPoint(o.pts[op-2])
		return []s2.Point{o.pts[op-2]}
	}
	q.AddLoop(s2.LoopFromPoints(append([]s2.Point(nil), o.loop...)))
	return o.loop
}

func (o *c10HHull) run(c *core.Ctx, h *c10HRun) {
	var adds []int // the additions so far, as operation numbers
	var input []s2.Point
	type answer struct {
		hull  []s2.Point
		capb  s2.Cap
		isCap bool
		nAdds int
		nIn   int
	}
	var last *answer
	var closing, again, capA answer
	used, useModify := false, false
	ok := false
	detail := func(extra map[string]any) map[string]any {
		d := map[string]any{"object": "one ConvexHullQuery", "history": h.histNames(), "then": "ConvexHull, CapBound, ConvexHull", "input_points": lattice.GeoPts(input)}
		for k, v := range extra {
			d[k] = v
		}
		return d
	}
	verts := func(l *s2.Loop) []s2.Point { return append([]s2.Point(nil), l.Vertices()...) }
	c.Guard(c10HSub, h.cas, func() any { return detail(nil) }, func() {
		q := s2.NewConvexHullQuery()
		for _, op := range h.hist {
			switch op {
			case 0:
				last = &answer{hull: verts(q.ConvexHull()), nAdds: len(adds), nIn: len(input)}
				used = true
			case 1:
				last = &answer{capb: q.CapBound(), isCap: true, nAdds: len(adds), nIn: len(input)}
				used = true
			default:
				input = append(input, o.apply(q, op)...)
				adds = append(adds, op)
				last = nil
				if used {
					useModify = true
				}
			}
		}
		closing = answer{hull: verts(q.ConvexHull()), nAdds: len(adds), nIn: len(input)}
		capA = answer{capb: q.CapBound(), isCap: true, nAdds: len(adds), nIn: len(input)}
		again = answer{hull: verts(q.ConvexHull()), nAdds: len(adds), nIn: len(input)}
		ok = true
	})
	if !ok {
		return
	}
	if useModify {
		h.st.nontrivial.Add(1)
	}
	freshQ := func(n int) *s2.ConvexHullQuery {
		q := s2.NewConvexHullQuery()
		for _, op := range adds[:n] {
			o.apply(q, op)
		}
		return q
	}
	same := func(a, b []s2.Point) bool {
		if len(a) != len(b) {
			return false
		}
		for i := range a {
			if a[i] != b[i] {
				return false
			}
		}
		return true
	}
	judge := func(when string, a answer) {
		in := input[:a.nIn]
		if a.isCap {
			var fc s2.Cap
			okf := false
			c.Guard(c10HSub, h.cas, func() any { return detail(nil) }, func() { fc = freshQ(a.nAdds).CapBound(); okf = true })
			if okf && a.capb != fc {
				c.Violate(c10HSub, "wrong-answer", "CapBound of a ConvexHullQuery that was asked and then extended differs from the CapBound of a new query given the same geometry ("+when+")", h.cas,
					detail(map[string]any{"got": a.capb.String(), "fresh": fc.String(), "additions_counted": a.nAdds}))
			}
			for _, p := range in {
				if !a.capb.ContainsPoint(p) && c10CapGross(a.capb, p) {
					c.Violate(c10HSub, "wrong-answer", "bound too small by more than rounding (over 4e-15 in chord length): CapBound of a ConvexHullQuery that was asked and then extended misses an input point ("+when+")", h.cas,
						detail(map[string]any{"got": a.capb.String(), "point": lattice.GeoPt(p)}))
					break
				}
			}
			return
		}
		var fh []s2.Point
		okf := false
		c.Guard(c10HSub, h.cas, func() any { return detail(nil) }, func() { fh = verts(freshQ(a.nAdds).ConvexHull()); okf = true })
		if okf && !same(a.hull, fh) {
			c.Violate(c10HSub, "wrong-answer", "ConvexHull of a ConvexHullQuery that was asked and then extended differs from the ConvexHull of a new query given the same geometry ("+when+")", h.cas,
				detail(map[string]any{"got": lattice.GeoPts(a.hull), "fresh": lattice.GeoPts(fh), "additions_counted": a.nAdds}))
		}
		var hl *s2.Loop
		c.Guard(c10HSub, h.cas, func() any { return detail(nil) }, func() { hl = s2.LoopFromPoints(append([]s2.Point(nil), a.hull...)) })
		if hl == nil {
			return
		}
		h.st.hullJudged.Add(1)
		if hl.IsFull() {
			h.st.hullFull.Add(1)
		}
		c10CheckHull(c, c10HSub, h.cas, append([]s2.Point(nil), in...), hl, o.hstats, "history "+strings.Join(h.histNames(), ", ")+" ("+when+")")
	}
	if last != nil {
		h.st.lastJudged.Add(1)
		judge("answer of the last operation", *last)
	}
	h.st.rounds.Add(1)
	judge("asked after the history", closing)
	judge("asked after the history", capA)
	judge("asked again after the history", again)
}

// ---- driver ------------------------------------------------------------------------------------------

func c10HTargets(c *core.Ctx) (targets []c10HTarget, depth map[string]int) {
	const pe = 8
	depth = map[string]int{
		"loops":     core.Pick(c, 4, 5),
		"polygons":  core.Pick(c, 4, 5),
		"polylines": core.Pick(c, 5, 6),
		"bounder":   core.Pick(c, 5, 6),
		"hull":      core.Pick(c, 4, 5),
	}
	type pos struct {
		name string
		ctr  s2.Point
		rad  float64
	}
	for _, p := range []pos{
		{"containing the north pole", lattice.GeoPtLL(math.Pi/2-0.05, 0.7), 0.3},
		{"containing the south pole", lattice.GeoPtLL(-math.Pi/2+0.05, -2), 0.3},
		{"across the antimeridian", lattice.LL(10, 180), 0.2},
		{"larger than a hemisphere", lattice.LL(37.3, -122.1), 2},
	} {
		for _, n := range []int{8, 40, 100} {
			targets = append(targets, c10HLoopTarget(fmt.Sprintf("loop(%d vertices, %s)", n, p.name), p.ctr, p.rad, n, pe))
		}
	}
	cc := s2.PointFromCoords(1, 1, 1)
	pole := s2.PointFromCoords(0, 0, 1)
	targets = append(targets, c10HPolygonTarget("polygon(shell+hole, 8+8 vertices)",
		[][]s2.Point{lattice.GeoRegular(cc, 0.2, 8, 0), lattice.GeoRegular(cc, 0.08, 8, 0.3)},
		[]s2.Point{lattice.GeoCirclePoint(cc, 0.14, 1), cc}, pe))
	targets = append(targets, c10HPolygonTarget("polygon(polar shell+hole, 36+5 vertices)",
		[][]s2.Point{lattice.GeoRegular(pole, 0.5, 36, 0), lattice.GeoRegular(pole, 0.1, 5, 0.3)},
		[]s2.Point{lattice.GeoCirclePoint(pole, 0.3, 2), pole}, pe))
	targets = append(targets, c10HPolygonTarget("polygon(two shells across the antimeridian, 40+5 vertices)",
		[][]s2.Point{lattice.GeoRegular(lattice.LL(10, 175), 0.05, 40, 0), lattice.GeoRegular(lattice.LL(-5, -175), 0.06, 5, 0)},
		[]s2.Point{lattice.LL(10, 175), lattice.LL(0, 180)}, pe))
	var many [][]s2.Point
	ring := lattice.LL(75, -40)
	for k := 0; k < 14; k++ {
		many = append(many, lattice.GeoRegular(lattice.GeoCirclePoint(ring, 0.3, 2*math.Pi*float64(k)/14), 0.02+0.002*float64(k), 4, 0.2))
	}
	targets = append(targets, c10HPolygonTarget("polygon(14 shells of 4 vertices)", many,
		[]s2.Point{lattice.GeoCirclePoint(ring, 0.3, 2*math.Pi*3/14), ring}, pe))

	n1 := func(x, y, z float64) s2.Point {
		n := r3.Vector{X: x, Y: y, Z: z}.Norm()
		return s2.Point{Vector: r3.Vector{X: x / n, Y: y / n, Z: z / n}}
	}
	targets = append(targets, c10HPolylineTarget("polyline(2 vertices, meridian plane y=0 through the pole)", []s2.Point{n1(1, 0, 2), n1(-1, 0, 3)}, []s2.Point{n1(0, 0, 1), n1(1, 0, 5), n1(-1, 0, 7), n1(1, 0, 1)}))
	targets = append(targets, c10HPolylineTarget("polyline(3 vertices, plane x=y)", []s2.Point{n1(1, 1, -1), n1(1, 1, 3), n1(-1, -1, 8)}, []s2.Point{n1(1, 1, 0), n1(1, 1, 1), n1(0, 0, 1), n1(-1, -1, 20)}))
	var spiral, zig []s2.Point
	for i := 0; i < 14; i++ {
		spiral = append(spiral, lattice.LL(60+2.5*float64(i), -170+27*float64(i)))
	}
	for i := 0; i < 40; i++ {
		zig = append(zig, lattice.LL(-30+20*float64(i%2)+0.7*float64(i), 150+1.9*float64(i)))
	}
	targets = append(targets, c10HPolylineTarget("polyline(14 vertices, spiral to the pole)", spiral, nil))
	targets = append(targets, c10HPolylineTarget("polyline(40 vertices, zigzag across the antimeridian)", zig, nil))

	a0 := lattice.LL(20, 0)
	targets = append(targets, &c10HBounder{
		pts:   []s2.Point{a0, lattice.LL(50, 180), {Vector: r3.Vector{X: 1e-9, Y: 0, Z: 1}}, lattice.LL(-60, -170), {Vector: a0.Mul(-1)}},
		names: []string{"20N 0E", "50N 180E", "1e-9 from the north pole", "60S 170W", "antipode of 20N 0E"},
	})
	targets = append(targets, &c10HHull{
		pts: []s2.Point{{Vector: r3.Vector{X: 1}}, n1(1, 0.2, 0), n1(1, 0.1, 0), n1(1, 0.15, -0.2), n1(1, 0.12, 0.03), n1(-1, -0.1, 0.05)},
		names: []string{"(1,0,0)", "(1,0.2,0)", "(1,0.1,0) collinear with the first two", "(1,0.15,-0.2)", "(1,0.12,0.03)",
			"(-1,-0.1,0.05) more than 180 degrees of longitude from (1,0.2,0)"},
		loop:   lattice.GeoRegular(n1(1, 0.1, 0.1), 0.05, 8, 0.2),
		hstats: &c10Stats{},
	})
	return targets, depth
}

// c10BoundHistories runs the sub-check.
func c10BoundHistories(c *core.Ctx) {
	if c.OnlySub != "" && c.OnlySub != c10HSub {
		return
	}
	t0 := time.Now()
	c.Rule += "  bound-histories: every operation sequence of length 0..d (quick d = 4, polylines and RectBounder 5; thorough d = 5, polylines and RectBounder 6) over the alphabet of each of 12 loops (8/40/100 vertices around either pole, across the antimeridian, larger than a hemisphere: RectBound, CapBound, CellUnionBound, ContainsPoint of 3 points, Invert, Normalize), 4 polygons (RectBound, CapBound, CellUnionBound, ContainsPoint of 2 points, Invert), 4 polylines (the three bounds, Reverse), one RectBounder (RectBound, AddPoint of 5 points) and one ConvexHullQuery (ConvexHull, CapBound, AddPoint of 6 points, AddLoop); every history runs on an object of its own and is followed by a full round of questions; non-trivial = histories in which an answer was read, the object then changed (vertices reversed / geometry added) and was asked again."
	c.Assume = append(c.Assume, "bound-histories: the fresh object of a region is built from the vertices the used object reports (Vertices / Loops), in that order; of a RectBounder or ConvexHullQuery from the same additions in the same order without the reads in between")
	st := &c10HStats{}
	targets, depth := c10HTargets(c)
	type job struct {
		t, length, code int
	}
	var jobs []job
	for ti, t := range targets {
		a := len(t.ops())
		n := 1
		for l := 0; l <= depth[t.family()]; l++ {
			for code := 0; code < n; code++ {
				jobs = append(jobs, job{ti, l, code})
			}
			n *= a
		}
	}
	var cut atomic.Bool
	c.ParallelFor(len(jobs), func(j int) {
		jb := jobs[j]
		if c.Skip(c10HSub, jb.t, jb.length, jb.code) {
			return
		}
		if c.Expired() {
			cut.Store(true)
			return
		}
		t := targets[jb.t]
		names := t.ops()
		a := len(names)
		hist := make([]int, jb.length)
		for i, x := jb.length-1, jb.code; i >= 0; i-- {
			hist[i] = x % a
			x /= a
		}
		h := &c10HRun{cas: []int{jb.t, jb.length, jb.code}, hist: hist, names: names, st: st}
		t.run(c, h)
		st.histories.Add(1)
		st.fam(t.family()).Add(1)
		if j%9973 == 0 {
			c.Sample(map[string]any{"sub": c10HSub, "object": t.name(), "history": h.histNames()})
		}
	})
	if cut.Load() {
		c.CapHit("bound-histories: wall budget reached")
	}
	c.Eval(int(st.histories.Load()))
	c.Nontrivial(int(st.nontrivial.Load()))
	c.Count("bound-histories/histories", st.histories.Load())
	c.Count("bound-histories/objects", int64(len(targets)))
	for _, f := range []string{"loops", "polygons", "polylines", "bounder", "hull"} {
		c.Count("bound-histories/histories_"+f, st.fam(f).Load())
		c.Count("bound-histories/depth_"+f, int64(depth[f]))
	}
	c.Count("bound-histories/read_modified_read_again", st.nontrivial.Load())
	c.Count("bound-histories/region_histories_that_changed_the_vertices", st.stateChanged.Load())
	c.Count("bound-histories/Normalize_calls_that_inverted", st.normalizeInverted.Load())
	c.Count("bound-histories/last_answers_judged", st.lastJudged.Load())
	c.Count("bound-histories/closing_rounds_judged", st.rounds.Load())
	c.Count("bound-histories/distinct_bounds_verified_against_contained_probes", st.boundsVerified.Load())
	c.Count("bound-histories/contained_probes_judged", st.probesJudged.Load())
	c.Count("bound-histories/hulls_judged", st.hullJudged.Load())
	c.Count("bound-histories/hulls_full", st.hullFull.Load())
	c.Count("bound-histories/bounder_full_bounds", st.bounderFull.Load())
	nStates := 0
	for _, t := range targets {
		if r, ok := t.(*c10HRegion); ok {
			nStates += len(r.states)
		}
	}
	c.Count("bound-histories/distinct_region_states", int64(nStates))
	c.Note("bound_histories_wall_seconds", time.Since(t0).Seconds())
	if c.OnlySub == "" && !cut.Load() {
		if st.nontrivial.Load() == 0 || st.normalizeInverted.Load() == 0 || st.probesJudged.Load() == 0 || st.hullJudged.Load() == st.hullFull.Load() || st.hullFull.Load() == 0 || nStates < 2*20 {
			panic(core.HarnessError(fmt.Sprintf("C10 bound-histories: a family judged nothing (vacuous run): read-modified-read %d, Normalize inverted %d, probes judged %d, hulls %d of which full %d, region states %d",
				st.nontrivial.Load(), st.normalizeInverted.Load(), st.probesJudged.Load(), st.hullJudged.Load(), st.hullFull.Load(), nStates)))
		}
	}
}
