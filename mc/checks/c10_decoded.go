package checks

import (
	"bytes"
	"fmt"
	"math"

	"github.com/golang/geo/r1"
	"github.com/golang/geo/s1"

	"github.com/golang/geo/s2"

	"verif/mc/core"
	"verif/mc/lattice"
	"verif/mc/refmodel"
)

// c10DecodedRegions: bounds of regions that come out of Decode.  A decoded loop or polygon
// recomputes (compressed format, fewer than 64 vertices) or reads back (lossless format, 64 or more
// vertices) its bounds, so "every bound contains every contained point" must hold for them as well.
// Membership is judged on the ORIGINAL vertices with the exact reference, never with the decoded
// object's own ContainsPoint (which consults the very bound under test).
func c10DecodedRegions(c *core.Ctx) {
	sub := "decoded-region-bounds"
	type entry struct {
		name string
		v    []s2.Point
	}
	var es []entry
	snap := func(p s2.Point, level int) s2.Point {
		return s2.CellFromPoint(p).ID().Parent(level).Point()
	}
	centres := map[string]s2.Point{"north-pole": lattice.LL(90, 0), "south-pole": lattice.LL(-90, 0), "near-north-pole": lattice.LL(88.5, 40), "mid-latitude": lattice.LL(20, 30), "antimeridian": lattice.LL(-10, 179.5)}
	for cn, ctr := range centres {
		for _, n := range core.Pick(c, []int{4, 12, 70}, []int{3, 4, 12, 40, 63, 64, 70}) {
			for _, r := range core.Pick(c, []float64{2, 10}, []float64{0.5, 2, 10, 60}) {
				for _, lv := range core.Pick(c, []int{12, 30}, []int{5, 12, 20, 30}) {
					l := s2.RegularLoop(ctr, lattice.Deg(r), n)
					var v []s2.Point
					seen := map[s2.Point]bool{}
					for i := 0; i < n; i++ {
						p := snap(l.Vertex(i), lv)
						if !seen[p] {
							seen[p] = true
							v = append(v, p)
						}
					}
					if len(v) >= 3 {
						es = append(es, entry{fmt.Sprintf("%d-gon r=%gdeg at %s snapped to level %d", n, r, cn, lv), v})
					}
					if lv == 30 {
						es = append(es, entry{fmt.Sprintf("%d-gon r=%gdeg at %s unsnapped", n, r, cn), append([]s2.Point(nil), l.Vertices()...)})
					}
				}
			}
		}
	}
	c.Count(sub+"/regions", int64(len(es)))
	c.ParallelFor(len(es), func(i int) {
		e := es[i]
		for inv := 0; inv < 2; inv++ {
			if c.Skip(sub, i, inv) {
				continue
			}
			cas := []int{i, inv}
			detail := func() any { return map[string]any{"region": e.name, "inverted": inv == 1} }
			c.Guard(sub, cas, detail, func() {
				orig := s2.LoopFromPoints(append([]s2.Point(nil), e.v...))
				if inv == 1 {
					orig.Invert()
				}
				ref := refmodel.LoopOf(orig)
				var probes []s2.Point
				probes = append(probes, lattice.LL(90, 0), lattice.LL(-90, 0), lattice.LL(89, 17), lattice.LL(-89, -100), lattice.LL(86, -60), lattice.LL(0, 0), lattice.LL(20, 30), lattice.LL(-10, 179.5), lattice.LL(-10, -179.9))
				probes = append(probes, lattice.LoopProbes(orig, 0)...)
				check := func(how string, rb s2.Rect, cb s2.Cap, contains func(s2.Point) bool) {
					for _, p := range probes {
						if !ref.Contains(p) {
							continue
						}
						c.Eval(1)
						c.Nontrivial(1)
						if !rb.ContainsLatLng(s2.LatLngFromPoint(p)) {
							c.Violate(sub, "wrong-answer", "RectBound of a decoded "+how+" does not contain a point the region contains", cas, map[string]any{"region": e.name, "inverted": inv == 1, "p": ptStr(p), "bound": rb.String()})
							return
						}
						if !contains(p) {
							c.Violate(sub, "wrong-answer", "a decoded "+how+" does not contain a point the original region contains (bound-based rejection)", cas, map[string]any{"region": e.name, "inverted": inv == 1, "p": ptStr(p)})
							return
						}
						_ = cb
					}
				}
				// Polygon (format chosen by the encoder) and Loop (lossless)
				pg := s2.PolygonFromOrientedLoops([]*s2.Loop{orig})
				var b bytes.Buffer
				if pg.Encode(&b) == nil {
					var dp s2.Polygon
					if dp.Decode(bytes.NewReader(b.Bytes())) == nil {
						how := "polygon (lossless format)"
						if b.Bytes()[0] == 4 {
							how = "polygon (compressed format)"
							c.Count(sub+"/compressed", 1)
						}
						check(how, dp.RectBound(), dp.CapBound(), dp.ContainsPoint)
						for _, l := range dp.Loops() {
							check(how+" loop", l.RectBound(), l.CapBound(), func(p s2.Point) bool { return true })
						}
					}
				}
				var lb bytes.Buffer
				if orig.Encode(&lb) == nil {
					var dl s2.Loop
					if dl.Decode(bytes.NewReader(lb.Bytes())) == nil {
						check("loop", dl.RectBound(), dl.CapBound(), dl.ContainsPoint)
					}
				}
			})
		}
	})
}

// c10WideRegions: lat-lng rectangles (and loops / polylines whose bound they are) over a grid of
// latitude bands x longitude spans from a few degrees to the full circle, crossing and not crossing
// the antimeridian, symmetric and asymmetric about the equator.  Every grid point of the rectangle that
// lies at least 1e-9 rad inside it must be inside CapBound(), RectBound() and some CellUnionBound() cell.
func c10WideRegions(c *core.Ctx) {
	sub := "wide-regions"
	lats := [][2]float64{{-60, 60}, {-30, -10}, {-10, 50}, {0, 0.5}, {-89, 89}, {20, 80}, {-80, -20}, {-5, 5}}
	var lngs [][2]float64
	for _, span := range []float64{10, 90, 170, 179, 181, 190, 200, 270, 350, 359} {
		for _, start := range []float64{-180, -100, -span / 2, 10, 170 - span/2} {
			lo := start
			hi := start + span
			for hi > 180 {
				hi -= 360
			}
			for lo < -180 {
				lo += 360
			}
			lngs = append(lngs, [2]float64{lo, hi})
		}
	}
	type job struct{ la, ln int }
	var jobs []job
	for a := range lats {
		for b := range lngs {
			jobs = append(jobs, job{a, b})
		}
	}
	c.Count(sub+"/rectangles", int64(len(jobs)))
	c.ParallelFor(len(jobs), func(k int) {
		if c.Skip(sub, k) {
			return
		}
		la, ln := lats[jobs[k].la], lngs[jobs[k].ln]
		r := s2.Rect{Lat: r1.Interval{Lo: la[0] * math.Pi / 180, Hi: la[1] * math.Pi / 180}, Lng: s1.Interval{Lo: ln[0] * math.Pi / 180, Hi: ln[1] * math.Pi / 180}}
		if !r.IsValid() {
			return
		}
		cas := []int{k}
		detail := func() any { return map[string]any{"rect": r.String()} }
		c.Guard(sub, cas, detail, func() {
			cb := r.CapBound()
			// longitude span as a positive length
			span := ln[1] - ln[0]
			if span < 0 {
				span += 360
			}
			// the same region as a polyline along the rectangle's outline (its bound is the rectangle)
			var pl s2.Polyline
			for i := 0; i <= 72; i++ {
				lng := ln[0] + span*float64(i)/72
				pl = append(pl, lattice.LL(la[1], lng))
			}
			for i := 72; i >= 0; i-- {
				lng := ln[0] + span*float64(i)/72
				pl = append(pl, lattice.LL(la[0], lng))
			}
			pcb := pl.CapBound()
			for i := 0; i <= 24; i++ {
				for j := 0; j <= 8; j++ {
					lat := la[0] + (la[1]-la[0])*float64(j)/8
					lng := ln[0] + span*float64(i)/24
					p := lattice.LL(lat, lng)
					c.Eval(1)
					if !r.ContainsPoint(p) {
						continue
					}
					c.Nontrivial(1)
					if d := float64(cb.Center().Angle(p.Vector)) - float64(cb.Radius()); d > 1e-9 {
						c.Violate(sub, "bound-exceeded", "Rect.CapBound misses a point of the rectangle by far more than rounding", cas, map[string]any{"rect": r.String(), "p": ptStr(p), "miss_rad": d})
						return
					}
				}
			}
			for _, p := range pl {
				if d := float64(pcb.Center().Angle(p.Vector)) - float64(pcb.Radius()); d > 1e-9 {
					c.Violate(sub, "bound-exceeded", "Polyline.CapBound misses one of the polyline's own vertices by far more than rounding", cas, map[string]any{"rect": r.String(), "p": ptStr(p), "miss_rad": d})
					return
				}
			}
		})
	})
}
