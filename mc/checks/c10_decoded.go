package checks

import (
	"bytes"
	"fmt"

	"github.com/golang/geo/s2"

	"verif/mc/core"
	"verif/mc/lattice"
	"verif/mc/refmodel"
)

// c10DecodedRegions: bounds of regions that come out of Decode.  A decoded loop or polygon
// recomputes (compressed format, fewer than 64 vertices) or reads back (lossless format, 64 or more
// vertices) its bounds, so "every bound contains every contained point" must hold for them as well.
// Membership is judged on the ORIGINAL vertices with the exact reference, never with the decoded
// object's own ContainsPoint (which consults the very bound under test).
func c10DecodedRegions(c *core.Ctx) {
	sub := "decoded-region-bounds"
	type entry struct {
		name string
		v    []s2.Point
	}
	var es []entry
	snap := func(p s2.Point, level int) s2.Point {
		return s2.CellFromPoint(p).ID().Parent(level).Point()
	}
	centres := map[string]s2.Point{"north-pole": lattice.LL(90, 0), "south-pole": lattice.LL(-90, 0), "near-north-pole": lattice.LL(88.5, 40), "mid-latitude": lattice.LL(20, 30), "antimeridian": lattice.LL(-10, 179.5)}
	for cn, ctr := range centres {
		for _, n := range core.Pick(c, []int{4, 12, 70}, []int{3, 4, 12, 40, 63, 64, 70}) {
			for _, r := range core.Pick(c, []float64{2, 10}, []float64{0.5, 2, 10, 60}) {
				for _, lv := range core.Pick(c, []int{12, 30}, []int{5, 12, 20, 30}) {
					l := s2.RegularLoop(ctr, lattice.Deg(r), n)
					var v []s2.Point
					seen := map[s2.Point]bool{}
					for i := 0; i < n; i++ {
						p := snap(l.Vertex(i), lv)
						if !seen[p] {
							seen[p] = true
							v = append(v, p)
						}
					}
					if len(v) >= 3 {
						es = append(es, entry{fmt.Sprintf("%d-gon r=%gdeg at %s snapped to level %d", n, r, cn, lv), v})
					}
					if lv == 30 {
						es = append(es, entry{fmt.Sprintf("%d-gon r=%gdeg at %s unsnapped", n, r, cn), append([]s2.Point(nil), l.Vertices()...)})
					}
				}
			}
		}
	}
	c.Count(sub+"/regions", int64(len(es)))
	c.ParallelFor(len(es), func(i int) {
		e := es[i]
		for inv := 0; inv < 2; inv++ {
			if c.Skip(sub, i, inv) {
				continue
			}
			cas := []int{i, inv}
			detail := func() any { return map[string]any{"region": e.name, "inverted": inv == 1} }
			c.Guard(sub, cas, detail, func() {
				orig := s2.LoopFromPoints(append([]s2.Point(nil), e.v...))
				if inv == 1 {
					orig.Invert()
				}
				ref := refmodel.LoopOf(orig)
				var probes []s2.Point
				probes = append(probes, lattice.LL(90, 0), lattice.LL(-90, 0), lattice.LL(89, 17), lattice.LL(-89, -100), lattice.LL(86, -60), lattice.LL(0, 0), lattice.LL(20, 30), lattice.LL(-10, 179.5), lattice.LL(-10, -179.9))
				probes = append(probes, lattice.LoopProbes(orig, 0)...)
				check := func(how string, rb s2.Rect, cb s2.Cap, contains func(s2.Point) bool) {
					for _, p := range probes {
						if !ref.Contains(p) {
							continue
						}
						c.Eval(1)
						c.Nontrivial(1)
						if !rb.ContainsLatLng(s2.LatLngFromPoint(p)) {
							c.Violate(sub, "wrong-answer", "RectBound of a decoded "+how+" does not contain a point the region contains", cas, map[string]any{"region": e.name, "inverted": inv == 1, "p": ptStr(p), "bound": rb.String()})
							return
						}
						if !contains(p) {
							c.Violate(sub, "wrong-answer", "a decoded "+how+" does not contain a point the original region contains (bound-based rejection)", cas, map[string]any{"region": e.name, "inverted": inv == 1, "p": ptStr(p)})
							return
						}
						_ = cb
					}
				}
				// Polygon (format chosen by the encoder) and Loop (lossless)
				pg := s2.PolygonFromOrientedLoops([]*s2.Loop{orig})
				var b bytes.Buffer
				if pg.Encode(&b) == nil {
					var dp s2.Polygon
					if dp.Decode(bytes.NewReader(b.Bytes())) == nil {
						how := "polygon (lossless format)"
						if b.Bytes()[0] == 4 {
							how = "polygon (compressed format)"
							c.Count(sub+"/compressed", 1)
						}
						check(how, dp.RectBound(), dp.CapBound(), dp.ContainsPoint)
						for _, l := range dp.Loops() {
							check(how+" loop", l.RectBound(), l.CapBound(), func(p s2.Point) bool { return true })
						}
					}
				}
				var lb bytes.Buffer
				if orig.Encode(&lb) == nil {
					var dl s2.Loop
					if dl.Decode(bytes.NewReader(lb.Bytes())) == nil {
						check("loop", dl.RectBound(), dl.CapBound(), dl.ContainsPoint)
					}
				}
			})
		}
	})
}
