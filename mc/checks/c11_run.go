package checks

import (
	"fmt"
	"math/bits"
	"time"

	"github.com/golang/geo/s2"
	"github.com/golang/geo/s2/s2intersect"

	"verif/mc/core"
)

// ---- S5: s2intersect.Find ------------------------------------------------------------------

type c11In struct {
	cells []s2.CellID
	mask  uint64
}

func c11RunFind(c *core.Ctx, fi int, u *c11Univ, name string, inputs []c11In, arity int) {
	const sub = "S5-find"
	n := len(inputs)
	total := 1
	for i := 0; i < arity-1; i++ {
		total *= n
	}
	var tuples, nontriv, emptyRes int64
	lock := make(chan struct{}, 1)
	lock <- struct{}{}
	capped := false
	c.ParallelFor(n, func(first int) {
		var nt, nn, ne int64
		idx := make([]int, arity)
		idx[0] = first
		for rest := 0; rest < total; rest++ {
			if rest&1023 == 0 && c.Expired() {
				<-lock
				if !capped {
					capped = true
					c.CapHit(fmt.Sprintf("S5-find %s: wall budget reached", name))
				}
				lock <- struct{}{}
				break
			}
			v := rest
			for k := arity - 1; k >= 1; k-- {
				idx[k] = v % n
				v /= n
			}
			code := first*total + rest
			if c.Skip(sub, c11TF, fi, code) {
				continue
			}
			cas := []int{c11TF, fi, code}
			nt++
			detail := func() any {
				var in [][]string
				for _, k := range idx {
					in = append(in, c11Hex(inputs[k].cells))
				}
				return map[string]any{"universe": name, "unions": in}
			}
			c.Guard(sub, cas, detail, func() {
				cus := make([]s2.CellUnion, arity)
				for k, ii := range idx {
					// reversed copy: Find normalises (and sorts in place), so it never sees shared data
					src := inputs[ii].cells
					cu := make(s2.CellUnion, len(src))
					for t := range src {
						cu[t] = src[len(src)-1-t]
					}
					cus[k] = cu
				}
				res := s2intersect.Find(cus)
				var want [32]uint64
				for a := range u.segs {
					s := 0
					for k, ii := range idx {
						if inputs[ii].mask>>uint(a)&1 == 1 {
							s |= 1 << uint(k)
						}
					}
					if bits.OnesCount(uint(s)) >= 2 {
						want[s] |= 1 << uint(a)
					}
				}
				keys := 0
				for _, w := range want {
					if w != 0 {
						keys++
					}
				}
				if keys >= 2 {
					nn++
				}
				var seen [32]bool
				fail := func(desc string, r any) {
					d := detail().(map[string]any)
					d["result"] = fmt.Sprint(r)
					c.Violate(sub, "wrong-answer", desc, cas, d)
				}
				for _, in := range res {
					s, prev, okIdx := 0, -1, true
					for _, k := range in.Indices {
						if k <= prev || k >= arity {
							okIdx = false
							break
						}
						prev = k
						s |= 1 << uint(k)
					}
					if !okIdx || len(in.Indices) < 2 {
						fail("Find returns an intersection whose Indices are not >= 2 distinct ascending input positions", res)
						return
					}
					if seen[s] {
						fail("Find returns two intersections with the same index set", res)
						return
					}
					seen[s] = true
					var m uint64
					valid := true
					for t, id := range in.Intersection {
						cm, ok := u.maskOf(id)
						if !ok || cm&m != 0 || (t > 0 && in.Intersection[t-1] >= id) {
							valid = false
						}
						m |= cm
					}
					if len(in.Intersection) == 0 {
						ne++
					}
					if m != want[s] {
						fail("Find: the cells reported for an index set are not exactly the leaves covered by exactly those unions", res)
						return
					}
					if !valid {
						fail("Find: an intersection is not a sorted, non-overlapping union of cells inside the inputs", res)
						return
					}
				}
				for s, w := range want {
					if w != 0 && !seen[s] {
						fail("Find misses the region covered by exactly one particular set of >= 2 unions", res)
						return
					}
				}
			})
		}
		<-lock
		tuples += nt
		nontriv += nn
		emptyRes += ne
		lock <- struct{}{}
	})
	if n > 2 {
		c.Sample(map[string]any{"sub": sub, "universe": name, "arity": arity, "example_unions": [][]string{c11Hex(inputs[n/2].cells), c11Hex(inputs[n-1].cells), c11Hex(inputs[n/3].cells)}})
	}
	c.Eval(int(tuples))
	c.Nontrivial(int(nontriv))
	c.MC(tuples, tuples, tuples)
	c.Count("S5/tuples", tuples)
	c.Count("S5/tuples_with_two_or_more_distinct_index_sets", nontriv)
	c.Count("S5/intersections_returned_with_an_empty_cell_union(not asserted)", emptyRes)
}

func c11CanonInputs(u *c11Univ) []c11In {
	var out []c11In
	for m := uint64(0); m < 1<<uint(len(u.segs)); m++ {
		out = append(out, c11In{u.canonOfMask(m), m})
	}
	return out
}

func c11SubsetInputs(u *c11Univ) []c11In {
	var out []c11In
	for m := 0; m < 1<<uint(len(u.cells)); m++ {
		var in c11In
		for i, cell := range u.cells {
			if m>>uint(i)&1 == 1 {
				in.cells = append(in.cells, cell)
				in.mask |= u.mask[i]
			}
		}
		out = append(out, in)
	}
	return out
}

// ---- lattice definitions ------------------------------------------------------------------------

func c11Restricted(x s2.CellID, omit int) []s2.CellID {
	cells := []s2.CellID{x}
	for k := 0; k < 4; k++ {
		if k != omit {
			cells = append(cells, c11Subtree(c11Child(x, k), 1)...)
		}
	}
	return cells
}

func c11Chain(x s2.CellID, depth, child int) []s2.CellID {
	cells := []s2.CellID{x}
	for d := 0; d < depth; d++ {
		for k := 0; k < 4; k++ {
			cells = append(cells, c11Child(x, k))
		}
		x = c11Child(x, child)
	}
	return cells
}

func c11RunAll(c *core.Ctx) {
	thorough := c11TF == 1
	pickI := func(q, t int) int {
		if thorough {
			return t
		}
		return q
	}
	phase := map[string]float64{}
	t0 := time.Now()
	lap := func(name string) {
		phase[name] = float64(int(time.Since(t0).Seconds()*10)) / 10
		t0 = time.Now()
		c.Note("phase_seconds", phase)
	}
	face := func(f int) s2.CellID { return c11Path(f) }
	l28last := c11Path(5, c11Rep(3, 28)...)
	l28first := c11Path(0, c11Rep(0, 28)...)
	l28mid := c11Path(4, 1, 2, 0, 3, 1, 2, 2, 0, 1, 3, 0, 2, 1, 1, 0, 3, 2, 2, 1, 0, 3, 3, 0, 1, 2, 0, 2, 1)
	l13 := c11Path(3, 1, 2, 0, 3, 1, 2, 2, 0, 1, 3, 0, 2, 1)
	// sanity of the model's own cell construction against the documented accessors
	for _, x := range []s2.CellID{face(2), l28last, l28first, l28mid, l13} {
		if !x.IsValid() || x.Level() != c11Level(x) || uint64(x.RangeMin())>>1 != c11Ivl(x).a || uint64(x.RangeMax())>>1 != c11Ivl(x).b {
			panic(core.HarnessError("C11: the model's cell construction disagrees with CellID accessors"))
		}
	}
	if l28last.RangeMax().Next() != c11Leaf(c11EndG) {
		panic(core.HarnessError("C11: end sentinel"))
	}

	// ---- S1
	type s1u struct {
		u   *c11Univ
		dup bool
	}
	var s1 []s1u
	sixFaces := []s2.CellID{face(0), face(1), face(2), face(3), face(4), face(5)}
	facesU := append(append(append([]s2.CellID(nil), sixFaces...), c11Subtree(face(0), 1)[1:]...), c11Subtree(face(5), 1)[1:]...)
	s1 = append(s1, s1u{c11NewUniv("L28-last-cell-of-face5-depth2", c11Subtree(l28last, 2), c11Outside(l28last)), thorough})
	s1 = append(s1, s1u{c11NewUniv("six-faces+children-of-face0-and-face5", facesU, []s2.CellID{c11Path(0, 0, 0), c11Path(5, 3, 3), c11Leaf(0), c11Leaf(c11EndG - 1), c11Path(2, 1)}), true})
	// faces 0..3 differ only in the two bits that a sibling test looks at, so "three whole faces + the
	// four children of the fourth" is the one configuration in which a cascade can reach a face cell
	// that looks like the last of four siblings
	facesV := append(append(append([]s2.CellID(nil), sixFaces...), c11Subtree(face(3), 1)[1:]...), c11Subtree(face(4), 1)[1:]...)
	s1 = append(s1, s1u{c11NewUniv("six-faces+children-of-face3-and-face4", facesV, []s2.CellID{c11Path(3, 0, 0), c11Path(4, 3, 3), c11Path(2, 1)}), true})
	if thorough {
		s1 = append(s1, s1u{c11NewUniv("chain-depth5-along-child3-from-L1", c11Chain(c11Path(1, 2), 5, 3), c11Outside(c11Path(1, 2))), false})
		s1 = append(s1, s1u{c11NewUniv("face2-depth2", c11Subtree(face(2), 2), append(c11Outside(face(2)), c11Path(2, 1, 1, 1), c11Path(2, 3, 3, 3, 3))), false})
		s1 = append(s1, s1u{c11NewUniv("L13-cell-depth2", c11Subtree(l13, 2), c11Outside(l13)), false})
		s1 = append(s1, s1u{c11NewUniv("chain-depth5-along-child0-from-L25", c11Chain(c11Path(0, c11Rep(2, 25)...), 5, 0), c11Outside(c11Path(0, c11Rep(2, 25)...))), false})
	} else {
		s1 = append(s1, s1u{c11NewUniv("chain-depth4-along-child3-from-L1", c11Chain(c11Path(1, 2), 4, 3), c11Outside(c11Path(1, 2))), true})
	}
	for i, x := range s1 {
		c11RunSubsets(c, i, x.u, x.dup)
	}

	lap("S1")
	// ---- S2
	var s2u []*c11Univ
	s2u = append(s2u, c11NewUniv("L28-depth2-without-child2", c11Restricted(l28mid, 2), nil))
	{
		p, q := c11Path(2, 1, 0), c11Path(2, 1, 1)
		s2u = append(s2u, c11NewUniv("siblings+parent", append(append(c11Subtree(p, 1), c11Subtree(q, 1)...), c11Path(2, 1)), nil))
		p, q = c11Path(0, 3), c11Path(1, 0)
		s2u = append(s2u, c11NewUniv("adjacent-across-face0/1+faces", append(append(c11Subtree(p, 1), c11Subtree(q, 1)...), face(0), face(1)), nil))
		p, q = c11Path(0, 1), c11Path(5, 3)
		s2u = append(s2u, c11NewUniv("different-faces", append(c11Subtree(p, 1), c11Subtree(q, 1)...), nil))
		p = c11Path(3, 2)
		s2u = append(s2u, c11NewUniv("nested-3-levels", c11Chain(p, 3, 1), nil))
		s2u = append(s2u, c11NewUniv("six-faces+children-of-face5", append(append([]s2.CellID(nil), sixFaces...), c11Subtree(face(5), 1)[1:]...), nil))
		lp := c11Path(5, c11Rep(3, 29)...)
		s2u = append(s2u, c11NewUniv("last-8-leaves-of-face5", append(c11Subtree(lp, 1), c11Subtree(c11Path(5, append(c11Rep(3, 28), 2)...), 1)...), nil))
	}
	if thorough {
		for _, x := range []s2.CellID{l28mid, l13, face(1)} {
			for omit := 0; omit < 4; omit++ {
				if x == l28mid && omit == 2 {
					continue
				}
				s2u = append(s2u, c11NewUniv(fmt.Sprintf("%016x-depth2-without-child%d", uint64(x), omit), c11Restricted(x, omit), nil))
			}
		}
	}
	for i, u := range s2u {
		c11RunPairs(c, i, u)
	}

	lap("S2")
	// ---- S3
	w := pickI(64, 256)
	type win struct {
		name string
		g0   uint64
	}
	wins := []win{
		{"start-of-face0", 0},
		{"centre-of-face2", 2<<60 + 1<<59 - uint64(w)/2},
		{"unaligned-inside-face3", 3<<60 + 4*12345 + 1},
		{"across-face2/3", 3<<60 - uint64(w)/2},
		{"end-of-face5", c11EndG - uint64(w)},
	}
	if thorough {
		wins = append(wins, win{"across-face0/1-odd", 1<<60 - uint64(w)/2 - 1}, win{"quarter-of-face4", 4<<60 + 1<<58 - uint64(w)/2 + 3})
	}
	for i, x := range wins {
		c11RunRanges(c, i, x.name, x.g0, w)
	}

	lap("S3")
	// ---- S4
	{
		x := l28last
		ch := func(k ...int) s2.CellID {
			id := x
			for _, i := range k {
				id = c11Child(id, i)
			}
			return id
		}
		ops := []c11Op{
			{[]s2.CellID{x}, 0}, {[]s2.CellID{ch(0)}, 0}, {[]s2.CellID{ch(0)}, 1}, {[]s2.CellID{ch(3)}, 1},
			{[]s2.CellID{ch(3, 3)}, 0}, {[]s2.CellID{ch(3, 0)}, 2}, {[]s2.CellID{ch(1)}, 0}, {[]s2.CellID{face(5)}, 2},
			{[]s2.CellID{ch(0), ch(1), ch(2)}, 2}, {[]s2.CellID{ch(0, 0), ch(0, 3), ch(3)}, 0}, {[]s2.CellID{ch(1, 2)}, 1},
		}
		var seek []s2.CellID
		iv := c11Ivl(x)
		for g := iv.a - 2; g <= iv.b; g++ {
			seek = append(seek, c11Leaf(g))
		}
		seek = append(seek, c11Leaf(0), c11Leaf(1<<60), c11Leaf(5<<60))
		c11RunIndex(c, 0, "end-of-face5", ops, pickI(4, 5), seek)

		x = l28first
		ops = []c11Op{
			{[]s2.CellID{x}, 0}, {[]s2.CellID{ch(0)}, 1}, {[]s2.CellID{ch(0, 0)}, 0}, {[]s2.CellID{ch(0, 1)}, 1},
			{[]s2.CellID{ch(2)}, 0}, {[]s2.CellID{face(0)}, 1}, {[]s2.CellID{c11Path(3, 1)}, 0},
			{[]s2.CellID{ch(0, 0), ch(0, 2), ch(1), c11Path(3, 1, 1)}, 2}, {[]s2.CellID{face(5)}, 0},
		}
		seek = nil
		iv = c11Ivl(x)
		for g := iv.a; g <= iv.b+2; g++ {
			seek = append(seek, c11Leaf(g))
		}
		seek = append(seek, c11Leaf(c11EndG-1), c11Leaf(3<<60), c11Leaf(c11Ivl(c11Path(3, 1)).a-1))
		c11RunIndex(c, 1, "start-of-face0+face3+face5", ops, pickI(4, 6), seek)
	}

	lap("S4")
	// ---- S5
	{
		lp := c11Path(5, c11Rep(3, 29)...) // last level-29 cell: its children are real leaves
		lq := c11Path(5, append(c11Rep(3, 28), 2)...)
		u5 := c11NewUniv("L29-cell+4-leaves", c11Subtree(lp, 1), nil)
		c11RunFind(c, 0, u5, u5.name+" (all 32 subsets, overlapping and unsorted)", c11SubsetInputs(u5), 3)
		c11RunFind(c, 1, u5, u5.name+" (16 normalised unions)", c11CanonInputs(u5), pickI(4, 5))
		var cells []s2.CellID
		cells = append(cells, c11Subtree(lq, 1)...)
		cells = append(cells, c11Subtree(lp, 1)...)
		if !thorough {
			// six consecutive leaves: the four children of lq and the first two of lp
			cells = append(c11Subtree(lq, 1), c11Child(lp, 0), c11Child(lp, 1))
		}
		u8name := "6-consecutive-leaves"
		if thorough {
			u8name = "8-consecutive-leaves"
		}
		u8 := c11NewUniv(u8name, cells, nil)
		c11RunFind(c, 2, u8, u8.name+" (normalised unions of every leaf subset)", c11CanonInputs(u8), 3)
		uf := c11NewUniv("children-of-face5", c11Subtree(face(5), 1), nil)
		c11RunFind(c, 3, uf, uf.name+" (16 normalised unions)", c11CanonInputs(uf), 3)
	}
	lap("S5")
}
