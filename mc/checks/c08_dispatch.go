package checks

import (
	"fmt"

	"github.com/golang/geo/s1"
	"github.com/golang/geo/s2"

	"verif/mc/core"
)

// The distance target types implement an unexported interface; dispatch on the concrete constructors' types.

func c08Find(q *s2.EdgeQuery, t any) []c08Res {
	var rs []s2.EdgeQueryResult
	switch x := t.(type) {
	case *s2.MinDistanceToPointTarget:
		rs = q.FindEdges(x)
	case *s2.MaxDistanceToPointTarget:
		rs = q.FindEdges(x)
	case *s2.MinDistanceToEdgeTarget:
		rs = q.FindEdges(x)
	case *s2.MaxDistanceToEdgeTarget:
		rs = q.FindEdges(x)
	case *s2.MinDistanceToCellTarget:
		rs = q.FindEdges(x)
	case *s2.MaxDistanceToCellTarget:
		rs = q.FindEdges(x)
	case *s2.MinDistanceToShapeIndexTarget:
		rs = q.FindEdges(x)
	case *s2.MaxDistanceToShapeIndexTarget:
		rs = q.FindEdges(x)
	default:
		panic(core.HarnessError(fmt.Sprintf("unknown target type %T", t)))
	}
	out := make([]c08Res, 0, len(rs))
	for _, r := range rs {
		out = append(out, c08Res{float64(r.Distance()), r.ShapeID(), r.EdgeID()})
	}
	return out
}

func c08Distance(q *s2.EdgeQuery, t any) s1.ChordAngle {
	switch x := t.(type) {
	case *s2.MinDistanceToPointTarget:
		return q.Distance(x)
	case *s2.MaxDistanceToPointTarget:
		return q.Distance(x)
	case *s2.MinDistanceToEdgeTarget:
		return q.Distance(x)
	case *s2.MaxDistanceToEdgeTarget:
		return q.Distance(x)
	case *s2.MinDistanceToCellTarget:
		return q.Distance(x)
	case *s2.MaxDistanceToCellTarget:
		return q.Distance(x)
	case *s2.MinDistanceToShapeIndexTarget:
		return q.Distance(x)
	case *s2.MaxDistanceToShapeIndexTarget:
		return q.Distance(x)
	}
	panic(core.HarnessError("unknown target type"))
}

func c08Less(q *s2.EdgeQuery, t any, lim s1.ChordAngle) bool {
	switch x := t.(type) {
	case *s2.MinDistanceToPointTarget:
		return q.IsDistanceLess(x, lim)
	case *s2.MinDistanceToEdgeTarget:
		return q.IsDistanceLess(x, lim)
	case *s2.MinDistanceToCellTarget:
		return q.IsDistanceLess(x, lim)
	case *s2.MinDistanceToShapeIndexTarget:
		return q.IsDistanceLess(x, lim)
	}
	panic(core.HarnessError("unknown target type"))
}

func c08ConsLE(q *s2.EdgeQuery, t any, lim s1.ChordAngle) bool {
	switch x := t.(type) {
	case *s2.MinDistanceToPointTarget:
		return q.IsConservativeDistanceLessOrEqual(x, lim)
	case *s2.MinDistanceToEdgeTarget:
		return q.IsConservativeDistanceLessOrEqual(x, lim)
	case *s2.MinDistanceToCellTarget:
		return q.IsConservativeDistanceLessOrEqual(x, lim)
	case *s2.MinDistanceToShapeIndexTarget:
		return q.IsConservativeDistanceLessOrEqual(x, lim)
	}
	panic(core.HarnessError("unknown target type"))
}

func c08Greater(q *s2.EdgeQuery, t any, lim s1.ChordAngle) bool {
	switch x := t.(type) {
	case *s2.MaxDistanceToPointTarget:
		return q.IsDistanceGreater(x, lim)
	case *s2.MaxDistanceToEdgeTarget:
		return q.IsDistanceGreater(x, lim)
	case *s2.MaxDistanceToCellTarget:
		return q.IsDistanceGreater(x, lim)
	case *s2.MaxDistanceToShapeIndexTarget:
		return q.IsDistanceGreater(x, lim)
	}
	panic(core.HarnessError("unknown target type"))
}

func c08ConsGE(q *s2.EdgeQuery, t any, lim s1.ChordAngle) bool {
	switch x := t.(type) {
	case *s2.MaxDistanceToPointTarget:
		return q.IsConservativeDistanceGreaterOrEqual(x, lim)
	case *s2.MaxDistanceToEdgeTarget:
		return q.IsConservativeDistanceGreaterOrEqual(x, lim)
	case *s2.MaxDistanceToCellTarget:
		return q.IsConservativeDistanceGreaterOrEqual(x, lim)
	case *s2.MaxDistanceToShapeIndexTarget:
		return q.IsConservativeDistanceGreaterOrEqual(x, lim)
	}
	panic(core.HarnessError("unknown target type"))
}
