package checks

import (
	"bytes"
	"fmt"
	"math"
	"math/big"
	"sync"
	"sync/atomic"
	"time"

	"github.com/golang/geo/r3"
	"github.com/golang/geo/s1"
	"github.com/golang/geo/s2"

	"verif/mc/core"
	"verif/mc/exact"
	"verif/mc/refmodel"
)

// C12 coverage extension.  A statement-coverage measurement of golang/geo under the C12 lattice
// showed code behind the property that the check either never executed or executed only inside
// the concurrent-use panels (where nothing judges the value).  The sub-checks below walk the same
// cell lattice as c12.go (plus the stated extra families) and judge that code:
//
//   cell-relations  Cell.ContainsCell / IntersectsCell for ALL ordered pairs of the cell lattice and
//                   every (cell, cell target) pair, against the nested-squares relation of the cube model
//   cell-scalars    SizeIJ / SizeST / IsLeaf, UVCoordOfEdge / IJCoordOfEdge (k = 0..7, reduced mod 4),
//                   Edge / EdgeRaw against the exact normal of the model edge, CellFromLatLng,
//                   CellUnionBound (a covering: every grid point of the cell lies in one of its cells),
//                   Encode / Decode round trip
//   areas           ExactArea against the closed-form solid angle of the (u,v) rectangle evaluated at
//                   320 bits, children sum to the parent, every level sums to 4 pi, ApproxArea within the
//                   documented 3 % (0.1 % from level 5), AverageArea = 4 pi / (6 * 4^level) and within the
//                   documented factor 1.7, Min/MaxAreaMetric bracket the true area
//   edge-pairs      the edge-pair distance code of s2/edge_distances.go (updateEdgePairMinDistance /
//                   updateEdgePairMaxDistance through the Min/MaxDistanceToEdgeTarget, EdgePairClosestPoints)
//                   on all 7 x 7 pairs of {4 edges, 2 diagonals, a one-ulp-long edge} of a cell and {4 edges, 2 diagonals,
//                   a degenerate edge} of each of its cell targets, against the exact segment-to-segment distance
//   bounds-polar    RectBound / CapBound on the structured families of cells that touch the poles, the
//                   antimeridian, the face centres, face edges and cube corners, at every level
//
// Oracles assert only what the property or the doc comments state; tolerances are spelled out where used.

func init() {
	ck := Registry["C12"]
	if ck == nil {
		panic("c12_cov.go: C12 must be registered before its coverage extension")
	}
	run := ck.Run
	ck.Run = func(c *core.Ctx) {
		run(c)
		c12Cov(c)
	}
}

type c12CovStats struct {
	relPairs, relEqual, relAncestor, relDescendant, relTouchPoint, relTouchEdge, relApart                                                                 atomic.Int64
	scalarCells, latlngProbes, unionBoundCells, unionBoundProbes, codec, codecBad                                                                         atomic.Int64
	areaCells, areaDeep, areaApprox3, areaApprox01, areaChildSums, areaLevelSums                                                                          atomic.Int64
	epPairs, epCross, epAntiCross, epShared, epVertexVertex, epVertexInterior, epDegenerate, epTiny, epTinyAntipodal, epClosestJudged, epClosestNotJudged atomic.Int64
	epMaxBelowRight, epMaxAboveRight, epCellPairs, epCellDisjoint, epCellNotAntipodal                                                                     atomic.Int64
	pbCells, pbPole, pbAntimeridian, pbFullLng, pbInverted, pbProbes                                                                                      atomic.Int64
}

type c12CovRun struct {
	c      *core.Ctx
	st     c12CovStats
	capped sync.Once
	cut    atomic.Bool
}

func (r *c12CovRun) on(sub string) bool { return r.c.OnlySub == "" || r.c.OnlySub == sub }

// expired reports (and records once) that the wall budget is used up.
func (r *c12CovRun) expired(what string) bool {
	if !r.c.Expired() {
		return false
	}
	r.cut.Store(true)
	r.capped.Do(func() { r.c.CapHit("cov/" + what + ": wall budget reached") })
	return true
}

func (r *c12CovRun) bad(sub, desc string, i, j int, m refmodel.CubeCell, detail map[string]any) {
	if detail == nil {
		detail = map[string]any{}
	}
	detail["tier"] = c12Tier
	detail["cell"] = m.String()
	detail["cell_id"] = fmt.Sprintf("%#x", m.ID())
	r.c.Violate(sub, "wrong-answer", desc, []int{i, j}, detail)
}

func c12Lib(m refmodel.CubeCell) s2.Cell { return s2.CellFromCellID(s2.CellID(m.ID())) }

func c12Cov(c *core.Ctx) {
	big := !c.Quick()
	levels := core.Pick(c, []int{4, 9, 17, 24, 29, 30}, []int{3, 4, 5, 6, 8, 12, 16, 20, 24, 28, 29, 30})
	cells := c12Cells(core.Pick(c, 2, 3), core.Pick(c, 0, 1), levels)
	r := &c12CovRun{c: c}
	c.Rule += "; coverage extension: (cell-relations) all ordered pairs of the cell lattice and every (cell, cell target) pair, non-trivial when the cells are distinct; " +
		"(cell-scalars) every lattice cell x {sizes, 8 edge indices, 4 edge normals, 5 lat/lng probes, covering, codec round trip, decoding of truncated / non-id bytes}; " +
		"(areas) every cell of level <= 5 (thorough 7) on all faces plus the deep lattice cells, non-trivial when level >= 2 (ApproxArea no longer returns the average); " +
		"(edge-pairs) for every lattice cell and each of its cell targets all 7x7 pairs of {4 edges, 2 diagonals, a one-ulp-long edge} x {4 edges, 2 diagonals, a degenerate edge}, non-trivial when the two segments differ; " +
		"(bounds-polar) faces x levels x the (i,j) positions {0, size, mid-2size .. mid+size, max-size} (thorough adds quarter positions), every cell judged on a 9x9 grid, 32 boundary points, vertices, centre and the pole when the model says it is inside"
	c.Assume = append(c.Assume,
		"the solid angle of the (u,v) rectangle [u0,u1]x[v0,v1] on a cube face is F(u1,v1)-F(u0,v1)-F(u1,v0)+F(u0,v0) with F(u,v)=atan(uv/sqrt(1+u^2+v^2)) (self-tested: a face is 4 pi/6)",
		"ExactArea tolerance: 1e-13 relative (PointArea documents ~1e-16*s/dmin for l'Huilier) plus 2e-15 x perimeter (the vertices are only the nearest representable points to the corners)",
		"edge-pair reference: crossing decided by the exact orientation predicate whenever a float orientation is within 64 rounding units of zero, point-to-segment distances in float64 with the cancellation-free normal, one-ulp edges replaced by their endpoints (error granted: 3e-15), all on the very float vertices handed to the library; closest points must lie within 1e-14/cos(distance) of their segments and are not judged when the distance is within 1e-3 of pi/2 (projection of a point next to the pole of the edge is ill-conditioned; same rule as C17)")
	for _, s := range []struct {
		name string
		f    func()
	}{
		{"cell-relations", func() { c12CovRelations(r, cells, big) }},
		{"cell-scalars", func() { c12CovScalars(r, cells) }},
		{"areas", func() { c12CovAreas(r, cells) }},
		{"bounds-polar", func() { c12CovPolarBounds(r, big) }},
		{"edge-pairs", func() { c12CovEdgePairs(r, cells, big) }},
	} {
		if r.on(s.name) {
			t0 := time.Now()
			s.f()
			c.Note("cov/seconds/"+s.name, math.Round(time.Since(t0).Seconds()*10)/10) // reporting only, never an oracle
		}
	}
	st := &r.st
	ld := func(a *atomic.Int64) int64 { return a.Load() }
	ev := ld(&st.relPairs) + ld(&st.scalarCells)*20 + ld(&st.areaCells) + ld(&st.epPairs) + ld(&st.pbCells)
	nt := ld(&st.relPairs) - ld(&st.relEqual) + ld(&st.scalarCells) + ld(&st.areaApprox3) + ld(&st.areaApprox01) + ld(&st.epPairs) - ld(&st.epShared) + ld(&st.pbCells)
	c.Eval(int(ev))
	c.Nontrivial(int(nt))
	for _, kv := range []struct {
		n string
		v *atomic.Int64
	}{
		{"cov/cell-relations/pairs", &st.relPairs},
		{"cov/cell-relations/same_cell", &st.relEqual},
		{"cov/cell-relations/proper_ancestor_of_other", &st.relAncestor},
		{"cov/cell-relations/proper_descendant_of_other", &st.relDescendant},
		{"cov/cell-relations/disjoint_ids_sharing_a_corner", &st.relTouchPoint},
		{"cov/cell-relations/disjoint_ids_sharing_an_edge_piece", &st.relTouchEdge},
		{"cov/cell-relations/apart", &st.relApart},
		{"cov/cell-scalars/cells", &st.scalarCells},
		{"cov/cell-scalars/latlng_probes", &st.latlngProbes},
		{"cov/cell-scalars/union_bound_cells_returned", &st.unionBoundCells},
		{"cov/cell-scalars/union_bound_point_probes", &st.unionBoundProbes},
		{"cov/cell-scalars/codec_round_trips", &st.codec},
		{"cov/cell-scalars/decode_inputs_that_are_not_encodings", &st.codecBad},
		{"cov/areas/cells", &st.areaCells},
		{"cov/areas/deep_cells_beyond_the_full_levels", &st.areaDeep},
		{"cov/areas/approx_judged_at_3_percent", &st.areaApprox3},
		{"cov/areas/approx_judged_at_0.1_percent", &st.areaApprox01},
		{"cov/areas/children_sums", &st.areaChildSums},
		{"cov/areas/whole_level_sums_to_4pi", &st.areaLevelSums},
		{"cov/edge-pairs/cell_pairs", &st.epCellPairs},
		{"cov/edge-pairs/cell_pairs_disjoint_min_over_edges_judged", &st.epCellDisjoint},
		{"cov/edge-pairs/cell_pairs_max_over_edges_judged", &st.epCellNotAntipodal},
		{"cov/edge-pairs/segment_pairs", &st.epPairs},
		{"cov/edge-pairs/segments_cross", &st.epCross},
		{"cov/edge-pairs/segment_crosses_antipode_of_other", &st.epAntiCross},
		{"cov/edge-pairs/segments_share_a_vertex", &st.epShared},
		{"cov/edge-pairs/closest_is_vertex_vertex", &st.epVertexVertex},
		{"cov/edge-pairs/closest_is_vertex_edge_interior", &st.epVertexInterior},
		{"cov/edge-pairs/with_a_degenerate_segment", &st.epDegenerate},
		{"cov/edge-pairs/with_a_one_ulp_long_edge", &st.epTiny},
		{"cov/edge-pairs/one_ulp_long_edge_within_1e-6_of_the_antipode_of_the_other_segment", &st.epTinyAntipodal},
		{"cov/edge-pairs/closest_points_judged", &st.epClosestJudged},
		{"cov/edge-pairs/closest_points_not_judged_distance_within_1e-3_of_pi/2", &st.epClosestNotJudged},
		{"cov/edge-pairs/max_at_most_pi/2", &st.epMaxBelowRight},
		{"cov/edge-pairs/max_above_pi/2", &st.epMaxAboveRight},
		{"cov/bounds-polar/cells", &st.pbCells},
		{"cov/bounds-polar/cells_containing_a_pole", &st.pbPole},
		{"cov/bounds-polar/cells_with_a_vertex_on_the_antimeridian", &st.pbAntimeridian},
		{"cov/bounds-polar/rect_bound_full_longitude", &st.pbFullLng},
		{"cov/bounds-polar/rect_bound_inverted_longitude", &st.pbInverted},
		{"cov/bounds-polar/point_probes", &st.pbProbes},
	} {
		c.Count(kv.n, kv.v.Load())
	}
	// vacuity: the classes below are decided by the model / the reference, never by the library's answers
	if c.OnlySub == "" && !r.cut.Load() {
		for _, z := range []*atomic.Int64{&st.relAncestor, &st.relDescendant, &st.relTouchPoint, &st.relTouchEdge, &st.relApart, &st.areaApprox3, &st.areaApprox01,
			&st.areaChildSums, &st.epCross, &st.epAntiCross, &st.epVertexVertex, &st.epVertexInterior, &st.epDegenerate, &st.epTiny, &st.epTinyAntipodal, &st.epMaxBelowRight, &st.epMaxAboveRight,
			&st.epCellDisjoint, &st.pbPole, &st.pbAntimeridian, &st.unionBoundProbes, &st.latlngProbes} {
			if z.Load() == 0 {
				panic(core.HarnessError("C12 coverage extension: an advertised case class never occurred (see the cov/ counters)"))
			}
		}
	}
}

// ---- cell-relations ------------------------------------------------------------------------

func c12CovRelations(r *c12CovRun, cells []refmodel.CubeCell, big bool) {
	const sub = "cell-relations"
	c, st := r.c, &r.st
	lib := make([]s2.Cell, len(cells))
	for i, m := range cells {
		lib[i] = c12Lib(m)
	}
	c.ParallelFor(len(cells), func(i int) {
		if r.expired(sub) {
			return
		}
		if c.OnlySub != "" && len(c.OnlyCase) > 0 && c.OnlyCase[0] != i {
			return
		}
		a, A := cells[i], lib[i]
		c.Guard(sub, []int{i, -1}, func() any { return a.String() }, func() {
			judge := func(j int, b refmodel.CubeCell, B s2.Cell) {
				if c.Skip(sub, i, j) {
					return
				}
				st.relPairs.Add(1)
				wantC := a.ContainsCell(b)
				wantI := wantC || b.ContainsCell(a)
				dim, _ := refmodel.Relation(a, b)
				if (dim == 2) != wantI {
					panic(core.HarnessError("cube model: nested (i,j) squares and the box relation disagree for " + a.String() + " / " + b.String()))
				}
				switch {
				case a.ID() == b.ID():
					st.relEqual.Add(1)
				case wantC:
					st.relAncestor.Add(1)
				case wantI:
					st.relDescendant.Add(1)
				case dim == 1:
					st.relTouchEdge.Add(1)
				case dim == 0:
					st.relTouchPoint.Add(1)
				default:
					st.relApart.Add(1)
				}
				if got := A.ContainsCell(B); got != wantC {
					r.bad(sub, "Cell.ContainsCell(other) differs from the nesting of the two (i,j) squares", i, j, a, map[string]any{"other": b.String(), "got": got, "want": wantC})
				}
				if got := A.IntersectsCell(B); got != wantI {
					r.bad(sub, "Cell.IntersectsCell(other) differs from 'one id range contains the other' (nested (i,j) squares)", i, j, a, map[string]any{"other": b.String(), "got": got, "want": wantI, "relation_dim": dim})
				}
			}
			for j := range cells {
				judge(j, cells[j], lib[j])
			}
			k := &c12Case{c: c, ci: i, m: a}
			for t, b := range k.cellTargets(big) {
				judge(len(cells)+t, b, c12Lib(b))
			}
		})
	})
}

// ---- cell-scalars --------------------------------------------------------------------------

func c12CovScalars(r *c12CovRun, cells []refmodel.CubeCell) {
	const sub = "cell-scalars"
	c, st := r.c, &r.st
	c.ParallelFor(len(cells), func(i int) {
		if r.expired(sub) {
			return
		}
		m := cells[i]
		c.Guard(sub, []int{i, -1}, func() any { return m.String() }, func() {
			ref := refmodel.NewRefCell(m)
			cell := c12Lib(m)
			item := 0
			skip := func() bool { item++; return c.Skip(sub, i, item-1) }
			bad := func(desc string, d map[string]any) { r.bad(sub, desc, i, item-1, m, d) }
			st.scalarCells.Add(1)
			// 0: sizes
			if !skip() {
				if got := cell.SizeIJ(); got != m.Size() {
					bad("SizeIJ() is not 2^(30-level)", map[string]any{"got": got, "want": m.Size()})
				}
				if got, want := cell.SizeST(), math.Ldexp(float64(m.Size()), -30); got != want {
					bad("SizeST() is not 2^-level", map[string]any{"got": got, "want": want})
				}
				if got := cell.IsLeaf(); got != (m.Level == 30) {
					bad("IsLeaf() is not (level == 30)", map[string]any{"got": got})
				}
			}
			// 1..8: the coordinate that is constant along edge k, k reduced modulo 4
			uv := cell.BoundUV()
			for k := 0; k < 8; k++ {
				if skip() {
					continue
				}
				var wantUV, wantRef float64
				var wantIJ int
				switch k % 4 {
				case 0:
					wantUV, wantRef, wantIJ = uv.Y.Lo, ref.VLo, m.J0
				case 1:
					wantUV, wantRef, wantIJ = uv.X.Hi, ref.UHi, m.I0+m.Size()
				case 2:
					wantUV, wantRef, wantIJ = uv.Y.Hi, ref.VHi, m.J0+m.Size()
				default:
					wantUV, wantRef, wantIJ = uv.X.Lo, ref.ULo, m.I0
				}
				if got := cell.UVCoordOfEdge(k); got != wantUV || math.Abs(got-wantRef) > 1e-15 {
					bad("UVCoordOfEdge(k) is not the (u,v) coordinate that is constant along edge k mod 4", map[string]any{"k": k, "got": got, "bound_uv": wantUV, "exact": wantRef})
				}
				if got := cell.IJCoordOfEdge(k); got != wantIJ {
					bad("IJCoordOfEdge(k) is not the (i,j) coordinate that is constant along edge k mod 4 (unclamped)", map[string]any{"k": k, "got": got, "want": wantIJ})
				}
			}
			// 9..12: edge normals against the exact normal of the model edge
			for k := 0; k < 4; k++ {
				if skip() {
					continue
				}
				n := exact.FromVector(ref.V[k]).Cross(exact.FromVector(ref.V[(k+1)&3])).Float()
				raw := cell.EdgeRaw(k)
				if a := refmodel.AngleExact(raw.Vector, n); a > 2e-15 {
					bad("EdgeRaw(k) is not the inward normal of the model edge k within 2e-15", map[string]any{"k": k, "angle": a})
				}
				if raw.Norm2() > 2*(1+4*c12Eps) {
					bad("EdgeRaw(k) is longer than the documented sqrt(2)", map[string]any{"k": k, "norm2": raw.Norm2()})
				}
				e := cell.Edge(k)
				if a := refmodel.AngleExact(e.Vector, n); a > 2e-15 || math.Abs(e.Norm()-1) > 4*c12Eps {
					bad("Edge(k) is not the unit inward normal of the model edge k within 2e-15", map[string]any{"k": k, "angle": a, "norm": e.Norm()})
				}
			}
			// 13..17: CellFromLatLng of the centre and the four vertices
			for q := 0; q < 5; q++ {
				if skip() {
					continue
				}
				p := cell.Center()
				if q < 4 {
					p = cell.Vertex(q)
				}
				ll := s2.LatLngFromPoint(p)
				st.latlngProbes.Add(1)
				got := s2.CellFromLatLng(ll)
				gm, ok := refmodel.CubeCellFromID(uint64(got.ID()))
				lat, lng := ll.Lat.Radians(), ll.Lng.Radians()
				dir := r3.Vector{X: math.Cos(lat) * math.Cos(lng), Y: math.Cos(lat) * math.Sin(lng), Z: math.Sin(lat)}
				switch {
				case !ok || gm.Level != 30 || !got.IsLeaf() || got != c12Lib(gm):
					bad("CellFromLatLng does not return a well-formed leaf cell", map[string]any{"latlng": [2]float64{lat, lng}, "got": got.ID().String()})
				case !gm.ContainsWithin(dir, 8e-15):
					bad("the leaf cell returned by CellFromLatLng(ll) does not contain the direction of ll (8e-15 in (u,v))", map[string]any{"latlng": [2]float64{lat, lng}, "got": gm.String()})
				}
			}
			// 18: CellUnionBound is a covering of the cell
			if !skip() {
				ids := cell.CellUnionBound()
				st.unionBoundCells.Add(int64(len(ids)))
				var cover []refmodel.CubeCell
				for _, id := range ids {
					gm, ok := refmodel.CubeCellFromID(uint64(id))
					if !ok {
						bad("CellUnionBound returns an invalid cell id", map[string]any{"id": fmt.Sprintf("%#x", uint64(id))})
						continue
					}
					cover = append(cover, gm)
				}
				pts := append(ref.Grid(8), ref.Center)
				for _, g := range pts {
					st.unionBoundProbes.Add(1)
					in := false
					for _, gm := range cover {
						if gm.ContainsWithin(g, 4e-15) {
							in = true
							break
						}
					}
					if !in {
						bad("a point of the cell is in none of the cells of CellUnionBound()", map[string]any{"p": [3]float64{g.X, g.Y, g.Z}, "covering": fmt.Sprint(ids)})
						break
					}
				}
			}
			// 19: Encode / Decode
			if !skip() {
				st.codec.Add(1)
				var buf bytes.Buffer
				var back s2.Cell
				if err := cell.Encode(&buf); err != nil {
					bad("Cell.Encode fails", map[string]any{"err": err.Error()})
				} else if err := back.Decode(&buf); err != nil {
					bad("Cell.Decode rejects the encoding of a valid cell", map[string]any{"err": err.Error()})
				} else if back != cell {
					bad("Decode(Encode(cell)) differs from the cell (field by field)", map[string]any{"got": back.ID().String(), "got_uv": fmt.Sprint(back.BoundUV())})
				}
			}
			// 20: Decode of a truncated encoding or of bytes that do not denote a cell: an error, or else a well-formed cell
			if !skip() {
				var buf bytes.Buffer
				_ = cell.Encode(&buf)
				enc := buf.Bytes()
				inputs := [][]byte{}
				for n := 0; n < len(enc); n++ {
					inputs = append(inputs, enc[:n])
				}
				// the encodings of 64-bit values that are not cell ids: zero, face 7, a lone bit at an odd position,
				// the cell's id with its lowest set bit moved up by one position
				id := uint64(cell.ID())
				lsb := id & -id
				for _, badID := range []uint64{0, 0xe000000000000001 | id>>3, 2, id&^lsb | lsb<<1} {
					if _, ok := refmodel.CubeCellFromID(badID); ok {
						continue
					}
					var b bytes.Buffer
					if err := s2.CellID(badID).Encode(&b); err == nil {
						inputs = append(inputs, b.Bytes())
					}
				}
				for _, in := range inputs {
					st.codecBad.Add(1)
					var back s2.Cell
					err := back.Decode(bytes.NewReader(in))
					if err != nil {
						continue
					}
					gm, ok := refmodel.CubeCellFromID(uint64(back.ID()))
					if !ok || back != c12Lib(gm) {
						bad("Cell.Decode accepts bytes that do not denote a cell and returns a malformed Cell without an error", map[string]any{"input": fmt.Sprintf("%x", in), "got_id": fmt.Sprintf("%#x", uint64(back.ID()))})
					} else if len(in) < len(enc) {
						bad("Cell.Decode accepts a truncated encoding", map[string]any{"input": fmt.Sprintf("%x", in), "got_id": fmt.Sprintf("%#x", uint64(back.ID()))})
					}
				}
			}
		})
	})
}

// ---- areas -----------------------------------------------------------------------------------

// c12AreaRef evaluates the solid angle of (u,v) rectangles at 320 bits.
type c12AreaRef struct {
	mu sync.Mutex
	f  map[[2]float64]*big.Float
}

// corner returns F(u,v) = atan(u v / sqrt(1 + u^2 + v^2)) (odd in u and in v, symmetric).
func (a *c12AreaRef) corner(u, v float64) *big.Float {
	neg := (u < 0) != (v < 0)
	u, v = math.Abs(u), math.Abs(v)
	if u > v {
		u, v = v, u
	}
	key := [2]float64{u, v}
	a.mu.Lock()
	f, ok := a.f[key]
	a.mu.Unlock()
	if !ok {
		hu, hv := exact.HP(u), exact.HP(v)
		den := exact.HPSqrt(exact.HPAdd(exact.HPInt(1), exact.HPAdd(exact.HPMul(hu, hu), exact.HPMul(hv, hv))))
		f = exact.HPAtan2(exact.HPMul(hu, hv), den)
		a.mu.Lock()
		a.f[key] = f
		a.mu.Unlock()
	}
	if neg {
		return exact.HPNeg(f)
	}
	return f
}

func (a *c12AreaRef) area(r refmodel.RefCell) float64 {
	s := exact.HPSub(exact.HPAdd(a.corner(r.UHi, r.VHi), a.corner(r.ULo, r.VLo)), exact.HPAdd(a.corner(r.ULo, r.VHi), a.corner(r.UHi, r.VLo)))
	return exact.HPFloat64(s)
}

func c12Perimeter(r refmodel.RefCell) float64 {
	p := 0.0
	for k := 0; k < 4; k++ {
		p += refmodel.AngleFloat(r.V[k], r.V[(k+1)&3])
	}
	return p
}

func c12CovAreas(r *c12CovRun, lattice []refmodel.CubeCell) {
	const sub = "areas"
	c, st := r.c, &r.st
	ar := &c12AreaRef{f: map[[2]float64]*big.Float{}}
	if f0 := ar.area(refmodel.NewRefCell(refmodel.CubeCellFromIdx(0, 0, 0))); math.Abs(f0-4*math.Pi/6) > 1e-15 {
		panic(core.HarnessError(fmt.Sprintf("area reference self-test: a face cell has solid angle %v, not 4 pi / 6", f0)))
	}
	if q := ar.area(refmodel.NewRefCell(refmodel.CubeCellFromIdx(3, 1, 2))); math.Abs(q-4*math.Pi/24) > 1e-15 {
		panic(core.HarnessError(fmt.Sprintf("area reference self-test: a level-1 cell has solid angle %v, not 4 pi / 24", q)))
	}
	full := core.Pick(c, 5, 7)
	var cells []refmodel.CubeCell
	levelStart := make([]int, full+2)
	for l := 0; l <= full; l++ {
		levelStart[l] = len(cells)
		for f := 0; f < 6; f++ {
			for idx := uint64(0); idx < 1<<uint(2*l); idx++ {
				cells = append(cells, refmodel.CubeCellFromIdx(f, l, idx))
			}
		}
	}
	levelStart[full+1] = len(cells)
	for _, m := range lattice {
		if m.Level > full {
			cells = append(cells, m)
		}
	}
	var relMu sync.Mutex
	var relMax [3]float64 // largest relative error of ApproxArea at levels 2-4, at levels >= 5; largest ExactArea error / tolerance
	got := make([]float64, len(cells))
	tol := make([]float64, len(cells))
	done := make([]bool, len(cells))
	c.ParallelFor(len(cells), func(i int) {
		if r.expired(sub) {
			return
		}
		m := cells[i]
		c.Guard(sub, []int{i, -1}, func() any { return m.String() }, func() {
			if c.Skip(sub, i, 0) {
				return
			}
			st.areaCells.Add(1)
			if m.Level > full {
				st.areaDeep.Add(1)
			}
			ref := refmodel.NewRefCell(m)
			cell := c12Lib(m)
			want := ar.area(ref)
			per := c12Perimeter(ref)
			t := 1e-13*want + 2e-15*per
			ex := cell.ExactArea()
			got[i], tol[i], done[i] = ex, t, true
			det := func(extra ...any) map[string]any {
				d := map[string]any{"exact_area": ex, "reference_area": want, "level": m.Level}
				for x := 0; x+1 < len(extra); x += 2 {
					d[fmt.Sprint(extra[x])] = extra[x+1]
				}
				return d
			}
			if !(math.Abs(ex-want) <= t) {
				r.bad(sub, "ExactArea() differs from the solid angle of the cell's (u,v) rectangle beyond 1e-13 relative + 2e-15 x perimeter", i, 0, m, det("tolerance", t))
			}
			// ApproxArea: documented accurate to within 3 % for all cell sizes, 0.1 % from level 5
			ap := cell.ApproxArea()
			lim := 0.03
			if m.Level >= 5 {
				lim = 0.001
			}
			if m.Level >= 2 {
				if m.Level >= 5 {
					st.areaApprox01.Add(1)
				} else {
					st.areaApprox3.Add(1)
				}
			}
			if m.Level >= 2 {
				rel := math.Abs(ap-want) / want
				relMu.Lock()
				if m.Level >= 5 {
					relMax[1] = math.Max(relMax[1], rel)
				} else {
					relMax[0] = math.Max(relMax[0], rel)
				}
				relMax[2] = math.Max(relMax[2], math.Abs(ex-want)/t)
				relMu.Unlock()
			}
			if !(math.Abs(ap-want) <= lim*want+t) {
				r.bad(sub, "ApproxArea() is not within the documented relative error (3 %, 0.1 % from level 5) of the true area", i, 0, m, det("approx_area", ap, "relative_error", (ap-want)/want, "documented", lim))
			}
			// AverageArea: 4 pi / (6 * 4^level); documented accurate within a factor of 1.7
			avg := cell.AverageArea()
			wantAvg := math.Ldexp(4*math.Pi/6, -2*m.Level)
			if !(math.Abs(avg-wantAvg) <= 4*c12Eps*wantAvg) {
				r.bad(sub, "AverageArea() is not 4 pi / (6 * 4^level)", i, 0, m, det("average_area", avg, "want", wantAvg))
			}
			if !(want <= 1.7*avg && avg <= 1.7*want) {
				r.bad(sub, "AverageArea() is not within the documented factor 1.7 of the true area", i, 0, m, det("average_area", avg))
			}
			if mv := s2.AvgAreaMetric.Value(m.Level); mv != avg {
				r.bad(sub, "AverageArea() differs from AvgAreaMetric.Value(level)", i, 0, m, det("average_area", avg, "metric", mv))
			}
			// the documented bounds "valid for cells at all levels"
			// (the cell's float (u,v) bounds are each rounded by up to half an ulp of 1, which changes the area of a
			// deep cell by up to ~2e-16 / width relative to the ideal cell the metric talks about)
			slack := 1e-12 + 4*c12Eps/math.Min(ref.UHi-ref.ULo, ref.VHi-ref.VLo)
			if lo, hi := s2.MinAreaMetric.Value(m.Level), s2.MaxAreaMetric.Value(m.Level); !(lo*(1-slack) <= want && want <= hi*(1+slack)) {
				r.bad(sub, "the true area of the cell is outside [MinAreaMetric.Value(level), MaxAreaMetric.Value(level)]", i, 0, m, det("min", lo, "max", hi))
			}
			// the four children partition the cell
			if kids, ok := cell.Children(); ok {
				st.areaChildSums.Add(1)
				sum := 0.0
				for q := 0; q < 4; q++ {
					sum += kids[q].ExactArea()
				}
				if !(math.Abs(sum-ex) <= 2e-13*want+6e-15*per) {
					r.bad(sub, "the ExactArea of the four children does not sum to the parent's", i, 0, m, det("children_sum", sum, "tolerance", 2e-13*want+6e-15*per))
				}
			}
		})
	})
	c.Note("cov/areas/max_relative_error_of_ApproxArea_levels_2_to_4", relMax[0])
	c.Note("cov/areas/max_relative_error_of_ApproxArea_levels_5_up", relMax[1])
	c.Note("cov/areas/max_ExactArea_error_over_tolerance", relMax[2])
	// every fully enumerated level covers the sphere
	if c.OnlySub == "" && !r.cut.Load() {
		for l := 0; l <= full; l++ {
			sum, t := 0.0, 0.0
			for i := levelStart[l]; i < levelStart[l+1]; i++ {
				if !done[i] {
					panic(core.HarnessError("areas: a cell of a fully enumerated level was not evaluated"))
				}
				sum += got[i]
				t += tol[i]
			}
			st.areaLevelSums.Add(1)
			if !(math.Abs(sum-4*math.Pi) <= t+1e-13) {
				r.bad(sub, "the ExactArea of all cells of one level does not sum to 4 pi", levelStart[l], 1, cells[levelStart[l]], map[string]any{"level": l, "sum": sum, "tolerance": t + 1e-13})
			}
		}
	}
}

// ---- edge-pairs --------------------------------------------------------------------------------

type c12Seg struct {
	a, b s2.Point
	name string
}

// c12Segs: the four edges and the two diagonals of a cell on the library's own (normalised)
// vertices, plus one special segment: for the first cell of a pair an edge that is a single rounding
// unit long (vertex 0 and its neighbour one ulp further in the coordinate of largest magnitude), for the
// second cell the degenerate edge (vertex 2, vertex 2).
func c12Segs(cell s2.Cell, second bool) []c12Seg {
	var v [4]s2.Point
	for k := 0; k < 4; k++ {
		v[k] = cell.Vertex(k)
	}
	special := c12Seg{v[2], v[2], "point"}
	if !second {
		w := v[0]
		ax, ay, az := math.Abs(w.X), math.Abs(w.Y), math.Abs(w.Z)
		switch {
		case ax >= ay && ax >= az:
			w.X = math.Nextafter(w.X, 0)
		case ay >= az:
			w.Y = math.Nextafter(w.Y, 0)
		default:
			w.Z = math.Nextafter(w.Z, 0)
		}
		special = c12Seg{v[0], w, "one-ulp-edge"}
	}
	return []c12Seg{
		{v[0], v[1], "edge0"}, {v[1], v[2], "edge1"}, {v[2], v[3], "edge2"}, {v[3], v[0], "edge3"},
		{v[0], v[2], "diag02"}, {v[1], v[3], "diag13"}, special,
	}
}

// c12PointSeg: distance from direction p to segment ab, float64 reference.  For a segment shorter
// than 1e-15 radians the interior/endpoint decision of the float formula is pure rounding noise (it can
// answer "interior: 59 degrees" for a point that is 120 degrees from both endpoints); such a segment is
// within 1e-15 of either endpoint, so the smaller endpoint distance is the reference (error <= 1e-15).
func c12PointSeg(p, a, b r3.Vector) float64 {
	if a != b && a.Sub(b).Norm2() < 1e-30 {
		return math.Min(refmodel.AngleFloat(p, a), refmodel.AngleFloat(p, b))
	}
	// the closest point r of the great circle has p.r >= 0 and, if it lies on the segment, is a non-negative
	// combination of a and b: a point in the far hemisphere of both endpoints is never in the interior case.
	// (For a short edge the float interior test cannot see this: its second condition is ~ -|ab|^2.)
	if p.Dot(a) < 0 && p.Dot(b) < 0 {
		return math.Min(refmodel.AngleFloat(p, a), refmodel.AngleFloat(p, b))
	}
	return refmodel.DistPointEdgeFloat(p, a, b)
}

// c12SegCross decides whether two geodesic segments cross properly (the documented criterion: the four
// orientations acb, cbd, bda, dac are equal).  The orientations are evaluated in float64 against the
// cancellation-free normals (a-b)x(a+b) = 2 axb; whenever one of them is within 64 rounding units of zero
// and none of the clear ones already excludes a crossing, the exact predicate of refmodel decides.
func c12SegCross(a, b, c, d r3.Vector) bool {
	if a == c || a == d || b == c || b == d || a == b || c == d {
		return false
	}
	nab := a.Sub(b).Cross(a.Add(b))
	ncd := c.Sub(d).Cross(c.Add(d))
	tab, tcd := 64*c12Eps*nab.Norm(), 64*c12Eps*ncd.Norm()
	sgn := func(x, t float64) int {
		switch {
		case x > t:
			return 1
		case x < -t:
			return -1
		}
		return 0
	}
	acb, bda := -sgn(c.Dot(nab), tab), sgn(d.Dot(nab), tab)
	cbd, dac := -sgn(b.Dot(ncd), tcd), sgn(a.Dot(ncd), tcd)
	if acb*bda < 0 || cbd*dac < 0 || acb*cbd < 0 || acb*dac < 0 || bda*cbd < 0 || bda*dac < 0 {
		return false // two clear orientations differ
	}
	if acb != 0 && bda != 0 && cbd != 0 && dac != 0 {
		return true
	}
	return refmodel.CrossingSign(s2.Point{Vector: a}, s2.Point{Vector: b}, s2.Point{Vector: c}, s2.Point{Vector: d}) == refmodel.Cross
}

// c12SegDist: distance between two geodesic segments given by float vectors (either may be
// degenerate); crossing reports a proper crossing (decided exactly).  The point-to-segment distances
// are the float64 reference of refmodel (error a few 1e-16, granted to the library as 2e-15).
func c12SegDist(a0, a1, b0, b1 r3.Vector) (d float64, crossing bool) {
	if c12SegCross(a0, a1, b0, b1) {
		return 0, true
	}
	d = math.Min(math.Min(c12PointSeg(a0, b0, b1), c12PointSeg(a1, b0, b1)), math.Min(c12PointSeg(b0, a0, a1), c12PointSeg(b1, a0, a1)))
	return d, false
}

const c12RefErr = 3e-15 // error of the float64 segment reference (1e-15 of it: one-ulp edges replaced by their endpoints)

func c12CovEdgePairs(r *c12CovRun, cells []refmodel.CubeCell, big bool) {
	const sub = "edge-pairs"
	c, st := r.c, &r.st
	// self-test of the float crossing shortcut against the exact predicate
	{
		x, y, z := r3.Vector{X: 1}, r3.Vector{Y: 1}, r3.Vector{Z: 1}
		u := func(v r3.Vector) r3.Vector { return v.Normalize() }
		if !c12SegCross(u(x.Add(z.Mul(0.1))), u(y.Add(z.Mul(0.1))), u(x.Add(y).Sub(z)), u(x.Add(y).Add(z))) ||
			c12SegCross(x, y, u(x.Add(y).Add(z)), z) || c12SegCross(x, y, u(x.Add(y).Mul(-1).Sub(z)), u(x.Add(y).Mul(-1).Add(z))) {
			panic(core.HarnessError("edge-pairs: crossing shortcut self-test"))
		}
	}
	c.ParallelFor(len(cells), func(i int) {
		if r.expired(sub) {
			return
		}
		if c.OnlySub != "" && len(c.OnlyCase) > 0 && c.OnlyCase[0] != i {
			return
		}
		m := cells[i]
		c.Guard(sub, []int{i, -1}, func() any { return m.String() }, func() {
			cell := c12Lib(m)
			sa := c12Segs(cell, false)
			k := &c12Case{c: c, ci: i, m: m}
			for t, om := range k.cellTargets(big) {
				oc := c12Lib(om)
				sb := c12Segs(oc, true)
				st.epCellPairs.Add(1)
				wantMin, wantMax := math.Inf(1), math.Inf(-1)
				for x, A := range sa {
					for y, B := range sb {
						j := t*64 + x*8 + y
						if c.Skip(sub, i, j) {
							continue
						}
						w, wm := c12EdgePair(r, i, j, m, om, A, B)
						if x < 4 && y < 4 {
							wantMin, wantMax = math.Min(wantMin, w), math.Max(wantMax, wm)
						}
					}
				}
				if c.Skip(sub, i, t*64+63) {
					continue
				}
				// the distance between two disjoint cells is attained on the boundaries: it is the minimum over the
				// 16 edge pairs; likewise the maximum, unless one cell meets the antipodal image of the other
				if dim, _ := refmodel.Relation(m, om); dim < 0 {
					st.epCellDisjoint.Add(1)
					if g := c12Angle(cell.DistanceToCell(oc)); !(math.Abs(g-wantMin) <= refmodel.AngleTol(wantMin)+c12RefErr) {
						r.bad(sub, "DistanceToCell of two disjoint cells differs from the minimum distance between their 4x4 boundary edges", i, t*64+63, m,
							map[string]any{"other": om.String(), "reference": wantMin, "distance_to_cell": g})
					}
				}
				anti := refmodel.CubeCellFromIJ((om.Face+3)%6, om.Level, om.J0, om.I0)
				if dim, _ := refmodel.Relation(m, anti); dim < 0 {
					st.epCellNotAntipodal.Add(1)
					if g := c12Angle(cell.MaxDistanceToCell(oc)); !(math.Abs(g-wantMax) <= refmodel.AngleTol(wantMax)+c12RefErr) {
						r.bad(sub, "MaxDistanceToCell of two cells (neither meeting the antipodal image of the other) differs from the maximum distance between their 4x4 boundary edges", i, t*64+63, m,
							map[string]any{"other": om.String(), "reference": wantMax, "max_distance_to_cell": g})
					}
				}
			}
		})
	})
}

// c12EdgePair judges one pair of segments and returns the reference min and max distance (radians).
func c12EdgePair(r *c12CovRun, i, j int, m, om refmodel.CubeCell, A, B c12Seg) (want, wantMax float64) {
	const sub = "edge-pairs"
	st := &r.st
	st.epPairs.Add(1)
	a0, a1, b0, b1 := A.a.Vector, A.b.Vector, B.a.Vector, B.b.Vector
	want, cross := c12SegDist(a0, a1, b0, b1)
	wantAnti, antiCross := c12SegDist(a0, a1, b0.Mul(-1), b1.Mul(-1))
	wantMax = math.Pi - wantAnti
	det := func(extra ...any) map[string]any {
		d := map[string]any{"other": om.String(), "segment_a": A.name, "segment_b": B.name, "a0": c12Vec(A.a), "a1": c12Vec(A.b), "b0": c12Vec(B.a), "b1": c12Vec(B.b),
			"ref_min": want, "ref_max": wantMax, "ref_cross": cross, "ref_cross_antipode": antiCross}
		for x := 0; x+1 < len(extra); x += 2 {
			d[fmt.Sprint(extra[x])] = extra[x+1]
		}
		return d
	}
	shared := a0 == b0 || a0 == b1 || a1 == b0 || a1 == b1
	degenerate := a0 == a1 || b0 == b1
	switch {
	case cross:
		st.epCross.Add(1)
	case shared:
		st.epShared.Add(1)
	default:
		vv := math.Min(math.Min(refmodel.AngleFloat(a0, b0), refmodel.AngleFloat(a0, b1)), math.Min(refmodel.AngleFloat(a1, b0), refmodel.AngleFloat(a1, b1)))
		if vv-want > 1e-12 {
			st.epVertexInterior.Add(1)
		} else {
			st.epVertexVertex.Add(1)
		}
	}
	if antiCross {
		st.epAntiCross.Add(1)
	}
	if degenerate {
		st.epDegenerate.Add(1)
	}
	if A.name == "one-ulp-edge" {
		st.epTiny.Add(1)
		if wantAnti < 1e-6 {
			st.epTinyAntipodal.Add(1)
		}
	}
	if wantMax <= math.Pi/2 {
		st.epMaxBelowRight.Add(1)
	} else {
		st.epMaxAboveRight.Add(1)
	}
	ea, eb := s2.Edge{V0: A.a, V1: A.b}, s2.Edge{V0: B.a, V1: B.b}
	// minimum: updateEdgePairMinDistance starting from "no limit"
	dmin, ok := s2.VerifTargetDistanceToEdge(s2.NewMinDistanceToEdgeTarget(ea), eb)
	gmin := c12Angle(dmin)
	switch {
	case !ok:
		r.bad(sub, "the edge-pair minimum distance does not update an infinite limit", i, j, m, det())
	case math.IsNaN(gmin):
		r.bad(sub, "the edge-pair minimum distance is NaN or not a valid chord angle", i, j, m, det("raw", float64(dmin)))
	case cross && dmin != 0:
		r.bad(sub, "the edge-pair minimum distance of two crossing edges is not zero", i, j, m, det("got", gmin))
	case !(math.Abs(gmin-want) <= refmodel.AngleTol(want)+c12RefErr):
		r.bad(sub, "the edge-pair minimum distance differs from the reference distance between the two segments beyond the tolerance", i, j, m, det("got", gmin, "tol", refmodel.AngleTol(want)))
	}
	// maximum: updateEdgePairMaxDistance
	dmax, ok := s2.VerifTargetDistanceToEdge(s2.NewMaxDistanceToEdgeTarget(ea), eb)
	gmax := c12Angle(dmax)
	switch {
	case !ok:
		r.bad(sub, "the edge-pair maximum distance does not update an infinite (negative) limit", i, j, m, det())
	case math.IsNaN(gmax):
		r.bad(sub, "the edge-pair maximum distance is NaN or not a valid chord angle", i, j, m, det("raw", float64(dmax)))
	case antiCross && dmax != s1.StraightChordAngle:
		r.bad(sub, "the edge-pair maximum distance of an edge crossing the antipodal image of the other is not pi", i, j, m, det("got", gmax))
	case !(math.Abs(gmax-wantMax) <= refmodel.AngleTol(wantMax)+c12RefErr):
		r.bad(sub, "the edge-pair maximum distance differs from pi minus the reference distance to the antipodal segment beyond the tolerance", i, j, m, det("got", gmax, "tol", refmodel.AngleTol(wantMax)))
	}
	// closest points: on their segments, and at the minimum distance from each other.  The projection of a
	// vertex onto the other edge's great circle is ill-conditioned when the vertex is next to the pole of
	// that circle (every point of the circle is then equally far); like C17, pairs whose distance is within
	// 1e-3 of pi/2 are not judged for position, and the tolerance is 1e-14 / |cos(distance)|.  (A vertex is never
	// farther than pi/2 from a great circle, so beyond pi/2 + 1e-3 the closest points are two vertices.)
	pa, pb := s2.EdgePairClosestPoints(A.a, A.b, B.a, B.b)
	if math.Abs(pa.Norm()-1) > 4*c12Eps || math.Abs(pb.Norm()-1) > 4*c12Eps {
		r.bad(sub, "EdgePairClosestPoints returns a point that is not unit length", i, j, m, det("pa", c12Vec(pa), "pb", c12Vec(pb)))
	} else if math.Abs(want-math.Pi/2) <= 1e-3 {
		st.epClosestNotJudged.Add(1)
	} else {
		st.epClosestJudged.Add(1)
		tol := 1e-14 / math.Abs(math.Cos(want))
		onA, onB := c12PointSeg(pa.Vector, a0, a1), c12PointSeg(pb.Vector, b0, b1)
		dab := refmodel.AngleFloat(pa.Vector, pb.Vector)
		switch {
		case !(onA <= tol) || !(onB <= tol):
			r.bad(sub, "EdgePairClosestPoints returns a point that is not on its edge (1e-14 / cos(distance))", i, j, m, det("pa", c12Vec(pa), "pb", c12Vec(pb), "off_a", onA, "off_b", onB))
		case cross && pa != pb:
			r.bad(sub, "EdgePairClosestPoints of two crossing edges does not return the intersection point twice", i, j, m, det("pa", c12Vec(pa), "pb", c12Vec(pb)))
		case !(math.Abs(dab-want) <= refmodel.AngleTol(want)+2*tol):
			r.bad(sub, "the points returned by EdgePairClosestPoints are not at the minimum distance between the two edges", i, j, m, det("pa", c12Vec(pa), "pb", c12Vec(pb), "their_distance", dab))
		}
	}
	return want, wantMax
}

// ---- bounds-polar ----------------------------------------------------------------------------

func c12CovPolarBounds(r *c12CovRun, big bool) {
	const sub = "bounds-polar"
	c, st := r.c, &r.st
	const maxIJ = 1 << 30
	const mid = maxIJ / 2
	seen := map[uint64]bool{}
	var cells []refmodel.CubeCell
	for f := 0; f < 6; f++ {
		for l := 1; l <= 30; l++ {
			size := 1 << uint(30-l)
			pos := []int{0, size, mid - 2*size, mid - size, mid, mid + size, maxIJ - size}
			if big {
				pos = append(pos, mid/2-size, mid/2, mid+mid/2-size, mid+mid/2, maxIJ-2*size, mid+2*size)
			}
			for _, i := range pos {
				for _, j := range pos {
					if i < 0 || j < 0 || i >= maxIJ || j >= maxIJ {
						continue
					}
					m := refmodel.CubeCellFromIJ(f, l, i, j)
					if !seen[m.ID()] {
						seen[m.ID()] = true
						cells = append(cells, m)
					}
				}
			}
		}
	}
	c.Note("cov/bounds-polar/cells", len(cells))
	north, south := r3.Vector{Z: 1}, r3.Vector{Z: -1}
	c.ParallelFor(len(cells), func(i int) {
		if r.expired(sub) {
			return
		}
		m := cells[i]
		c.Guard(sub, []int{i, -1}, func() any { return m.String() }, func() {
			if c.Skip(sub, i, 0) {
				return
			}
			st.pbCells.Add(1)
			cell := c12Lib(m)
			ref := refmodel.NewRefCell(m)
			rb, cb := cell.RectBound(), cell.CapBound()
			if rb.Lng.IsFull() {
				st.pbFullLng.Add(1)
			} else if rb.Lng.IsInverted() {
				st.pbInverted.Add(1)
			}
			if !rb.IsValid() || rb.IsEmpty() {
				r.bad(sub, "RectBound() is empty or not a valid rectangle", i, 0, m, map[string]any{"rect": fmt.Sprint(rb)})
				return
			}
			// probes: a 9x9 grid over the library's own BoundUV (judged against the exact range in sub-check
			// geometry), 32 boundary points, the vertices, the centre
			uv := cell.BoundUV()
			const n = 8
			at := func(lo, hi float64, q int) float64 {
				if q == 0 {
					return lo
				}
				if q == n {
					return hi
				}
				return math.Max(lo, math.Min(hi, lo+(hi-lo)*float64(q)/float64(n)))
			}
			var probes []s2.Point
			for q := 0; q < (n+1)*(n+1); q++ {
				probes = append(probes, c12Unit(refmodel.FloatFromUVW(m.Face, at(uv.X.Lo, uv.X.Hi, q/(n+1)), at(uv.Y.Lo, uv.Y.Hi, q%(n+1)), 1)))
			}
			for q := 0; q < 4; q++ {
				probes = append(probes, cell.Vertex(q))
				if y := ref.V[q]; y.Y == 0 && y.X < 0 {
					st.pbAntimeridian.Add(1)
				}
			}
			probes = append(probes, cell.Center())
			for _, pole := range []r3.Vector{north, south} {
				if m.ContainsWithin(pole, 0) {
					st.pbPole.Add(1)
					probes = append(probes, s2.Point{Vector: pole})
				}
			}
			for q, p := range probes {
				st.pbProbes.Add(1)
				if !rb.ContainsLatLng(s2.LatLngFromPoint(p)) {
					r.bad(sub, "a point of the cell is outside RectBound()", i, 0, m, map[string]any{"probe": q, "p": c12Vec(p), "latlng": fmt.Sprint(s2.LatLngFromPoint(p)), "rect": fmt.Sprint(rb)})
					break
				}
				if !rb.ContainsPoint(p) {
					r.bad(sub, "a point of the cell is outside RectBound() (ContainsPoint)", i, 0, m, map[string]any{"probe": q, "p": c12Vec(p), "rect": fmt.Sprint(rb)})
					break
				}
				if !cb.ContainsPoint(p) {
					r.bad(sub, "a point of the cell is outside CapBound()", i, 0, m, map[string]any{"probe": q, "p": c12Vec(p), "cap": fmt.Sprint(cb)})
					break
				}
			}
		})
	})
}
