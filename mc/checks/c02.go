package checks

import (
	"math"

	"github.com/golang/geo/r3"
	"github.com/golang/geo/s1"
	"github.com/golang/geo/s2"

	"verif/mc/core"
	"verif/mc/exact"
	"verif/mc/lattice"
	"verif/mc/refmodel"
)

// C02 — orientation and distance predicates return the sign of the exact
// quantity (engine E3: every tuple over degenerate / ulp-neighbour point
// alphabets against exact integer arithmetic and an independent model of the
// documented symbolic perturbation).

func init() {
	Registry["C02"] = &Check{Level: "exploration", QuickBudget: 150, ThoroughBudget: 1200, Run: runC02}
}

func c02Alphabet(c *core.Ctx) []s2.Point {
	big := !c.Quick()
	pts := append([]s2.Point(nil), lattice.PDeg(big)...)
	pts = append(pts, lattice.PTiny(big)...)
	return lattice.Dedup(pts)
}

func runC02(c *core.Ctx) {
	c.Rule = "every ordered triple over the alphabet P-deg ∪ P-tiny (exactly coplanar, antipodal, same-direction and tiny-separation points); for every exactly coplanar base triple every P-ulp(K) perturbation of the third point; every 5-subset for the chirotope (Grassmann-Plücker) axiom; every triple/pair for the distance predicates with thresholds taken from the exact distances of the alphabet; non-trivial = triples whose exact determinant is zero or whose float determinant is below 8 eps (sign), exact ties or near ties (distances)"
	c.Assume = []string{
		"nothing is asserted off the lattice (the property is universal over float64 inputs; DESIGN L1)",
		"fused multiply-add cannot be exercised on amd64 (DESIGN L4)",
		"reference: exact big.Int determinant; symbolic perturbation recomputed from its definition (refmodel.SoSSign), not from the 13-row table",
	}
	pts := c02Alphabet(c)
	n := len(pts)
	c.Note("alphabet_size", n)

	// (a) all ordered triples: RobustSign vs model, stage soundness, rotation / swap laws.
	sign := make([]int8, n*n*n) // implementation's answers, reused by (c)
	idx := func(i, j, k int) int { return (i*n+j)*n + k }
	type coplanar struct{ i, j, k int }
	coplanarByI := make([][]coplanar, n)
	c.ParallelFor(n, func(i int) {
		var evals, nontriv, triage, stable, exactStage, zeroDet int64
		for j := 0; j < n; j++ {
			for k := 0; k < n; k++ {
				if c.Skip("sign-triples", i, j, k) {
					continue
				}
				a, b, cc := pts[i], pts[j], pts[k]
				evals++
				cas := []int{i, j, k}
				detail := func() any { return map[string]any{"a": ptStr(a), "b": ptStr(b), "c": ptStr(cc)} }
				c.Guard("sign-triples", cas, detail, func() {
					got := int(s2.RobustSign(a, b, cc))
					sign[idx(i, j, k)] = int8(got)
					det := refmodel.ExactDetSign(a, b, cc)
					want := refmodel.SoSSign(a, b, cc)
					if det != 0 && got != det {
						c.Violate("sign-triples", "wrong-answer", "RobustSign differs from the sign of the exact non-zero determinant", cas, detail())
					} else if got != want {
						if want == 0 {
							c.Violate("sign-triples", "wrong-answer", "RobustSign is non-zero although two arguments are identical", cas, detail())
						} else if got == 0 {
							c.Violate("sign-triples", "wrong-answer", "RobustSign is zero for three distinct points", cas, detail())
						} else {
							c.Violate("sign-triples", "wrong-answer", "RobustSign on an exactly degenerate triple differs from the documented symbolic perturbation", cas, detail())
						}
					}
					// stages
					ts := int(s2.VerifTriageSign(a, b, cc))
					if ts != 0 {
						triage++
						if ts != det {
							c.Violate("sign-triples", "wrong-answer", "triageSign returned a non-zero sign that is not the sign of the exact determinant", cas, detail())
						}
					}
					if a != b && b != cc && a != cc {
						ss := int(s2.VerifStableSign(a, b, cc))
						if ss != 0 {
							if ts == 0 {
								stable++
							}
							if ss != det {
								c.Violate("sign-triples", "wrong-answer", "stableSign returned a non-zero sign that is not the sign of the exact determinant", cas, detail())
							}
						} else if ts == 0 {
							exactStage++
						}
						if es := int(s2.VerifExactSign(a, b, cc, true)); es != want {
							c.Violate("sign-triples", "wrong-answer", "exactSign differs from the reference (exact determinant + symbolic perturbation)", cas, detail())
						}
					}
					if det == 0 && want != 0 {
						zeroDet++
						nontriv++
						if i < j && j < k {
							coplanarByI[i] = append(coplanarByI[i], coplanar{i, j, k})
						}
					} else {
						fd := a.Dot(b.Cross(cc.Vector))
						if math.Abs(fd) < 8*2.220446049250313e-16 {
							nontriv++
						}
					}
				})
			}
		}
		c.Eval(int(evals))
		c.Nontrivial(int(nontriv))
		c.Count("sign/decided_by_triage", triage)
		c.Count("sign/decided_by_stable", stable)
		c.Count("sign/decided_by_exact_or_symbolic", exactStage)
		c.Count("sign/exactly_degenerate_distinct_triples", zeroDet)
	})
	// rotation invariance and swap antisymmetry on every triple (table look-ups)
	var lawViol int64
	for i := 0; i < n; i++ {
		for j := 0; j < n; j++ {
			for k := 0; k < n; k++ {
				s := sign[idx(i, j, k)]
				if sign[idx(j, k, i)] != s || sign[idx(k, i, j)] != s {
					lawViol++
					c.Violate("sign-laws", "wrong-answer", "RobustSign changes under rotation of its arguments", []int{i, j, k}, map[string]any{"a": ptStr(pts[i]), "b": ptStr(pts[j]), "c": ptStr(pts[k])})
				}
				if sign[idx(j, i, k)] != -s {
					lawViol++
					c.Violate("sign-laws", "wrong-answer", "RobustSign is not negated by swapping two arguments", []int{i, j, k}, map[string]any{"a": ptStr(pts[i]), "b": ptStr(pts[j]), "c": ptStr(pts[k])})
				}
			}
		}
	}
	c.Eval(n * n * n)
	c.Sample(map[string]any{"sub": "sign-triples", "a": ptStr(pts[0]), "b": ptStr(pts[1]), "c": ptStr(pts[n-1])})

	// (b) ulp neighbourhoods of the third point of exactly coplanar triples
	var base []coplanar
	for _, l := range coplanarByI {
		base = append(base, l...)
	}
	maxBase := core.Pick(c, 6000, 40000)
	if len(base) > maxBase {
		// keep an evenly spread subset (deterministic)
		step := float64(len(base)) / float64(maxBase)
		var sel []coplanar
		for x := 0; x < maxBase; x++ {
			sel = append(sel, base[int(float64(x)*step)])
		}
		c.Note("ulp/base_triples_total", len(base))
		base = sel
	}
	K := core.Pick(c, 2, 3)
	c.Note("ulp/base_triples_used", len(base))
	c.Note("ulp/K", K)
	c.ParallelFor(len(base), func(bi int) {
		if c.Expired() {
			return
		}
		t := base[bi]
		a, b := pts[t.i], pts[t.j]
		var evals, nontriv int64
		for pi, p := range lattice.PUlp(pts[t.k], K) {
			if c.Skip("sign-ulp", bi, pi) {
				continue
			}
			evals++
			cas := []int{bi, pi}
			detail := func() any { return map[string]any{"a": ptStr(a), "b": ptStr(b), "c": ptStr(p)} }
			c.Guard("sign-ulp", cas, detail, func() {
				got := int(s2.RobustSign(a, b, p))
				want := refmodel.SoSSign(a, b, p)
				if got != want {
					c.Violate("sign-ulp", "wrong-answer", "RobustSign differs from the exact sign for a point within a few ulps of an exactly coplanar position", cas, detail())
				}
				if ts := int(s2.VerifTriageSign(a, b, p)); ts != 0 && ts != refmodel.ExactDetSign(a, b, p) {
					c.Violate("sign-ulp", "wrong-answer", "triageSign returned a non-zero sign that is not the sign of the exact determinant", cas, detail())
				}
				if a != b && a != p && b != p {
					if ss := int(s2.VerifStableSign(a, b, p)); ss != 0 && ss != refmodel.ExactDetSign(a, b, p) {
						c.Violate("sign-ulp", "wrong-answer", "stableSign returned a non-zero sign that is not the sign of the exact determinant", cas, detail())
					}
				}
				nontriv++
			})
		}
		c.Eval(int(evals))
		c.Nontrivial(int(nontriv))
		c.Count("ulp/evaluations", evals)
	})
	if c.Expired() {
		c.CapHit("sign-ulp: wall budget reached")
	}

	// (b') denormal separations: a point with a zero coordinate and its copies in which that
	// coordinate is one of the six smallest denormals, against every other alphabet point
	var dn int64
	for ai, a := range pts {
		for coord := 0; coord < 3; coord++ {
			v := [3]float64{a.X, a.Y, a.Z}
			if v[coord] != 0 {
				continue
			}
			for di, d := range []float64{5e-324, -5e-324, 1e-323, -1e-323, 1.5e-323, -1.5e-323} {
				w := v
				w[coord] = d
				cc := s2.Point{Vector: r3.Vector{X: w[0], Y: w[1], Z: w[2]}}
				for bi, b := range pts {
					if c.Skip("sign-denormal", ai, coord, di, bi) {
						continue
					}
					dn++
					cas := []int{ai, coord, di, bi}
					detail := func() any { return map[string]any{"a": ptStr(a), "b": ptStr(b), "c": ptStr(cc)} }
					c.Guard("sign-denormal", cas, detail, func() {
						want := refmodel.SoSSign(a, b, cc)
						if got := int(s2.RobustSign(a, b, cc)); got != want {
							c.Violate("sign-denormal", "wrong-answer", "RobustSign differs from the exact sign for two points separated by a denormal amount", cas, detail())
						}
						if a != b && b != cc {
							if ss := int(s2.VerifStableSign(a, b, cc)); ss != 0 && ss != refmodel.ExactDetSign(a, b, cc) {
								c.Violate("sign-denormal", "wrong-answer", "stableSign returned a non-zero sign that is not the sign of the exact determinant (denormal separation)", cas, detail())
							}
						}
					})
				}
			}
		}
	}
	c.Eval(int(dn))
	c.Nontrivial(int(dn))
	c.Count("sign/denormal_separation_triples", dn)

	// (b'') generic nearly coplanar triples: c is a rounded linear combination of two points in
	// general position (so the exact determinant is ~1e-17 and the float determinant is pure rounding
	// noise of maximal size), with its ulp neighbourhood.  Besides the exact sign, the fast path is held
	// to its documented error bound: triageSign must not report a definite sign when the float
	// determinant it computed lies inside the bound 1.8274 * 2^-52 derived in its documentation.
	gen := lattice.PGeneric(!c.Quick())
	type gpair struct{ i, j int }
	var gp []gpair
	for i := range gen {
		for j := i + 1; j < len(gen); j++ {
			gp = append(gp, gpair{i, j})
		}
	}
	combos := [][2]float64{{1, 1}, {1, -1}, {0.3, 2.1}, {-0.7, 1}, {1, -0.4}, {0.3, -0.4}, {-0.7, 2.1}, {2.9, 0.17}, {-1.3, -0.6}}
	const documentedTriageBound = 1.8274 * 2.220446049250313e-16
	KG := core.Pick(c, 1, 2)
	c.ParallelFor(len(gp), func(k int) {
		if c.Expired() {
			return
		}
		a, b := gen[gp[k].i], gen[gp[k].j]
		var evals, band, decidedInBand int64
		for ci, co := range combos {
			base := s2.Point{Vector: a.Mul(co[0]).Add(b.Mul(co[1])).Normalize()}
			for pi, p := range lattice.PUlp(base, KG) {
				if c.Skip("sign-generic", k, ci, pi) {
					continue
				}
				evals++
				cas := []int{k, ci, pi}
				detail := func() any { return map[string]any{"a": ptStr(a), "b": ptStr(b), "c": ptStr(p)} }
				c.Guard("sign-generic", cas, detail, func() {
					want := refmodel.SoSSign(a, b, p)
					for oi, o := range [][3]s2.Point{{a, b, p}, {b, a, p}, {p, a, b}} {
						w := want
						if oi == 1 {
							w = -want
						}
						if got := int(s2.RobustSign(o[0], o[1], o[2])); got != w {
							c.Violate("sign-generic", "wrong-answer", "RobustSign differs from the exact sign for a nearly coplanar triple of points in general position", cas, detail())
						}
						ts := int(s2.VerifTriageSign(o[0], o[1], o[2]))
						d := o[0].Cross(o[1].Vector).Dot(o[2].Vector)
						if math.Abs(d) <= documentedTriageBound {
							band++
							if ts != 0 {
								decidedInBand++
								c.Violate("sign-generic", "wrong-answer", "triageSign reports a definite sign although the float determinant lies inside its documented error bound (1.8274 * 2^-52)", cas, detail())
							}
						} else if ts != 0 && ts != w {
							c.Violate("sign-generic", "wrong-answer", "triageSign returned a non-zero sign that is not the sign of the exact determinant", cas, detail())
						}
					}
				})
			}
		}
		c.Eval(int(evals))
		c.Nontrivial(int(evals))
		c.Count("generic/triples", evals)
		c.Count("generic/float_determinant_inside_documented_bound", band)
	})
	if c.Expired() {
		c.CapHit("sign-generic: wall budget reached")
	}

	// (c) chirotope axiom on every 5-subset of the P-deg part (answers of the implementation)
	deg := lattice.PDeg(!c.Quick())
	m := len(deg)
	if m > n {
		m = n
	}
	// the first m alphabet entries are P-deg (c02Alphabet keeps order; Dedup keeps first occurrences)
	chi := func(i, j, k int) int { return int(sign[idx(i, j, k)]) }
	var tuples, gpViol int64
	c.ParallelFor(m, func(a int) {
		var cnt int64
		for b := 0; b < m; b++ {
			if b == a {
				continue
			}
			for cc := b + 1; cc < m; cc++ {
				if cc == a {
					continue
				}
				for d := cc + 1; d < m; d++ {
					if d == a {
						continue
					}
					for e := d + 1; e < m; e++ {
						if e == a {
							continue
						}
						cnt++
						t1 := chi(a, b, cc) * chi(a, d, e)
						t2 := -chi(a, b, d) * chi(a, cc, e)
						t3 := chi(a, b, e) * chi(a, cc, d)
						mn, mx := t1, t1
						for _, t := range []int{t2, t3} {
							if t < mn {
								mn = t
							}
							if t > mx {
								mx = t
							}
						}
						if (mn >= 0 && mx > 0) || (mx <= 0 && mn < 0) {
							c.Violate("chirotope", "wrong-answer", "the signs of five points violate the three-term Grassmann-Plücker relation: no real configuration has these orientations", []int{a, b, cc, d, e},
								map[string]any{"a": ptStr(pts[a]), "b": ptStr(pts[b]), "c": ptStr(pts[cc]), "d": ptStr(pts[d]), "e": ptStr(pts[e]), "terms": []int{t1, t2, t3}})
						}
					}
				}
			}
		}
		c.Eval(int(cnt))
		c.Count("chirotope/5-tuples", cnt)
	})
	_ = tuples
	_ = gpViol

	c02Distances(c, pts)
}

// exactCmpCos compares cos(angle(x,a)) with cos(angle(x,b)) exactly: returns the sign of cosXA - cosXB.
func exactCmpCos(x, a, b exact.V) int {
	p, q := x.Dot(a), x.Dot(b) // cosXA·|x||a|, cosXB·|x||b|
	na, nb := a.Norm2(), b.Norm2()
	sp, sq := p.Sign(), q.Sign()
	if sp != sq {
		if sp > sq {
			return 1
		}
		return -1
	}
	if sp == 0 {
		return 0
	}
	// same non-zero sign: compare p²·|b|² with q²·|a|²
	cmp := p.Mul(p).Mul(nb).Cmp(q.Mul(q).Mul(na))
	if sp > 0 {
		return cmp
	}
	return -cmp
}

func c02Distances(c *core.Ctx, pts []s2.Point) {
	// a smaller alphabet for the cubic distance sweep
	var dp []s2.Point
	step := 1
	if len(pts) > core.Pick(c, 40, 70) {
		step = len(pts)/core.Pick(c, 40, 70) + 1
	}
	for i := 0; i < len(pts); i += step {
		dp = append(dp, pts[i])
	}
	// plus ulp neighbours of a few of them
	for i := 0; i < 3 && i < len(pts); i++ {
		dp = append(dp, lattice.PUlp(pts[i*5%len(pts)], 1)[:9]...)
	}
	dp = lattice.Dedup(dp)
	n := len(dp)
	ex := make([]exact.V, n)
	for i, p := range dp {
		ex[i] = exact.FromVector(p.Vector)
	}
	c.Note("distance/alphabet_size", n)
	c.ParallelFor(n, func(xi int) {
		var evals, nontriv, ties int64
		x := dp[xi]
		for ai := 0; ai < n; ai++ {
			for bi := 0; bi < n; bi++ {
				if c.Skip("compare-distances", xi, ai, bi) {
					continue
				}
				a, b := dp[ai], dp[bi]
				if ex[xi].IsZero() {
					continue
				}
				evals++
				cas := []int{xi, ai, bi}
				detail := func() any { return map[string]any{"x": ptStr(x), "a": ptStr(a), "b": ptStr(b)} }
				c.Guard("compare-distances", cas, detail, func() {
					got := s2.CompareDistances(x, a, b)
					cc := exactCmpCos(ex[xi], ex[ai], ex[bi]) // >0: a closer
					want := -cc
					if cc != 0 {
						if got != want {
							c.Violate("compare-distances", "wrong-answer", "CompareDistances differs from the exact comparison of the two distances", cas, detail())
						}
					} else {
						ties++
						nontriv++
						if (a == b) != (got == 0) {
							c.Violate("compare-distances", "wrong-answer", "CompareDistances on an exact tie: zero iff a == b is violated", cas, detail())
						}
					}
					if back := s2.CompareDistances(x, b, a); back != -got {
						c.Violate("compare-distances", "wrong-answer", "CompareDistances is not antisymmetric", cas, detail())
					}
					if t := s2.VerifTriageCompareCosDistances(x, a, b); t != 0 && cc != 0 && t != want {
						c.Violate("compare-distances", "wrong-answer", "triageCompareCosDistances returned a wrong non-zero sign", cas, detail())
					}
					if cax := a.Dot(x.Vector); cc != 0 && (cax > 1/math.Sqrt2 || cax < -1/math.Sqrt2) {
						t := s2.VerifTriageCompareSin2Distances(x, a, b)
						if cax < 0 {
							t = -t
						}
						// the sin² stage is only used by the library when the cos stage was inconclusive
						if s2.VerifTriageCompareCosDistances(x, a, b) == 0 && t != 0 && t != want {
							c.Violate("compare-distances", "wrong-answer", "triageCompareSin2Distances returned a wrong non-zero sign where the library relies on it", cas, detail())
						}
					}
				})
			}
		}
		c.Eval(int(evals))
		c.Nontrivial(int(nontriv))
		c.Count("distance/CompareDistances_exact_ties", ties)
		c.Count("distance/CompareDistances_evaluations", evals)
	})

	// CompareDistance(x, y, r) with thresholds r = exact-ish squared chord distances of the lattice ± 1 ulp
	rset := map[float64]bool{0: true, 2 - math.Sqrt2: true, 2: true, 4: true, 1: true, 3: true}
	for i := 0; i < n && len(rset) < core.Pick(c, 60, 200); i++ {
		for j := i + 1; j < n && len(rset) < core.Pick(c, 60, 200); j += 3 {
			r := float64(s2.ChordAngleBetweenPoints(dp[i], dp[j]))
			if r >= 0 && r <= 4 {
				rset[r] = true
				rset[math.Nextafter(r, 5)] = true
				if r > 0 {
					rset[math.Nextafter(r, -1)] = true
				}
			}
		}
	}
	var rs []float64
	for r := range rset {
		if r >= 0 && r <= 4 {
			rs = append(rs, r)
		}
	}
	c.Note("distance/thresholds", len(rs))
	c.ParallelFor(n, func(xi int) {
		var evals, nontriv int64
		x := dp[xi]
		for yi := 0; yi < n; yi++ {
			y := dp[yi]
			if ex[xi].IsZero() || ex[yi].IsZero() {
				continue
			}
			dot := ex[xi].Dot(ex[yi])
			nn := ex[xi].Norm2().Mul(ex[yi].Norm2())
			for ri, r2 := range rs {
				if c.Skip("compare-distance", xi, yi, ri) {
					continue
				}
				evals++
				cas := []int{xi, yi, ri}
				detail := func() any { return map[string]any{"x": ptStr(x), "y": ptStr(y), "r2": r2} }
				c.Guard("compare-distance", cas, detail, func() {
					got := s2.CompareDistance(x, y, s1.ChordAngle(r2))
					// cos(XY) vs cosR = 1 - r2/2  (exact)
					cosR := exact.Int(1).Sub(exact.FromFloat(r2).Mul(exact.FromFloat(0.5)))
					// compare dot/sqrt(nn) with cosR
					var cmp int // sign of cosXY - cosR
					sd, sr := dot.Sign(), cosR.Sign()
					switch {
					case sd != sr:
						if sd > sr {
							cmp = 1
						} else {
							cmp = -1
						}
					case sd == 0:
						cmp = 0
					default:
						cmp = dot.Mul(dot).Cmp(cosR.Mul(cosR).Mul(nn))
						if sd < 0 {
							cmp = -cmp
						}
					}
					want := -cmp // larger cosine = smaller distance
					if got != want {
						c.Violate("compare-distance", "wrong-answer", "CompareDistance differs from the exact comparison of the distance with the threshold", cas, detail())
					}
					if cmp == 0 {
						nontriv++
					}
					if t := s2.VerifTriageCompareCosDistance(x, y, r2); t != 0 && t != want {
						c.Violate("compare-distance", "wrong-answer", "triageCompareCosDistance returned a wrong non-zero sign", cas, detail())
					}
				})
			}
			// SignDotProd
			if c.Skip("sign-dot-prod", xi, yi) {
				continue
			}
			evals++
			c.Guard("sign-dot-prod", []int{xi, yi}, nil, func() {
				got := s2.SignDotProd(x, y)
				if got != dot.Sign() {
					c.Violate("sign-dot-prod", "wrong-answer", "SignDotProd differs from the sign of the exact dot product", []int{xi, yi}, map[string]any{"a": ptStr(x), "b": ptStr(y)})
				}
				if t := s2.VerifTriageSignDotProd(x, y); t != 0 && t != dot.Sign() {
					c.Violate("sign-dot-prod", "wrong-answer", "triageSignDotProd returned a wrong non-zero sign", []int{xi, yi}, map[string]any{"a": ptStr(x), "b": ptStr(y)})
				}
				if dot.Sign() == 0 {
					nontriv++
				}
			})
		}
		c.Eval(int(evals))
		c.Nontrivial(int(nontriv))
		c.Count("distance/CompareDistance_and_SignDotProd_evaluations", evals)
	})
	c.Sample(map[string]any{"sub": "compare-distances", "x": ptStr(dp[0]), "a": ptStr(dp[1]), "b": ptStr(dp[2])})
}
