package checks

import (
	"sync"

	"verif/mc/core"
)

// Vacuity guards of C14 (a thread that never reaches the shared index, a single builder, a memory
// pass without accesses) are evaluated after ALL passes have run: a changed library can starve a
// guard's counter (e.g. by answering the first queries without the index) and still be caught by a
// later pass (full-memory race check, free-running -race pass).  On an otherwise silent run a
// starved guard is a harness error (exit 2), as before; after violations it is a note (main.go).
var (
	c14VacuousMu sync.Mutex
	c14Vacuous   []string
)

func c14Vacuity(msg string) {
	c14VacuousMu.Lock()
	c14Vacuous = append(c14Vacuous, msg)
	c14VacuousMu.Unlock()
}

func init() {
	ck := Registry["C14"]
	run := ck.Run
	ck.Run = func(c *core.Ctx) {
		run(c)
		c14VacuousMu.Lock()
		defer c14VacuousMu.Unlock()
		if len(c14Vacuous) > 0 {
			panic(core.HarnessError(c14Vacuous[0]))
		}
	}
}
