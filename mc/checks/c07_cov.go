package checks

// C07 coverage-guided extension.  A statement-coverage measurement showed library code behind
// property C07 that no check executed: WedgeRelation, Loop.Equal / BoundaryEqual, the shared-vertex
// branch of Loop.ContainsNested / findVertex / containsNonCrossingBoundary, Polygon.compareLoops,
// findLoopNestingError's error branches, LastDescendant, the cumulative-edge lookup of polygons with
// more than 12 loops, and Polyline.Intersects.  Every sub-check below walks a finite, explicitly stated
// lattice completely and judges the library against an independent reference (exact orientation signs,
// the definitional angular-interval / vertex-cycle / nesting-forest models, exact crossing parity).

import (
	"bytes"
	"encoding/binary"
	"fmt"
	"math"
	"sort"
	"sync/atomic"
	"time"

	"github.com/golang/geo/r3"
	"github.com/golang/geo/s2"

	"verif/mc/core"
	"verif/mc/exact"
	"verif/mc/lattice"
	"verif/mc/refmodel"
)

func init() {
	ck := Registry["C07"]
	run := ck.Run
	ck.Run = func(c *core.Ctx) {
		run(c)
		c07Cov(c)
	}
}

func c07Cov(c *core.Ctx) {
	c.Rule += "; coverage extension (c07_cov.go): all 5-tuples of wedge arms over alphabets of rays around a common vertex (incl. coincident, exactly collinear and opposite rays) against the exact angular-interval model; all pairs over a catalogue of vertex cycles (rotations, reversals, one-vertex changes) for Equal / BoundaryEqual; every rotation of every ordered pair of a family of loops that touch at vertices without crossing for ContainsNested against exact point-set containment; every subset in every input order of that family for PolygonFromLoops (hole parity, Parent, LastDescendant, Validate); every order and every depth assignment of decoded polygons for Validate against the definitional pre-order rule; polygons with 13..37 loops and holes touching shells for the polygon laws; congruent shells in every input order for Invert; all pairs of short polylines over a lat/lng grid with exactly collinear triples for Polyline.Intersects; non-trivial = cases with a shared vertex / coincident ray / exactly collinear triple / more than 12 loops"
	c.Assume = append(c.Assume,
		"exact orientation signs with the documented symbolic perturbation (refmodel.SoSSign) define the cyclic order of rays around a vertex",
		"a pair of catalogue loops is nestable iff the exact reference finds no crossing edge pair, no shared edge, no vertex on the other loop's edge interior, and the edge midpoints of each loop lie uniformly inside or outside the other")
	t0 := time.Now()
	lap := func(name string) { // informational only: no oracle looks at the clock
		c.Note("cov_seconds/"+name, math.Round(time.Since(t0).Seconds()*10)/10)
		t0 = time.Now()
	}
	c07covWedges(c)
	lap("wedge-relation")
	c07covBoundaryEqual(c)
	lap("boundary-equal")
	fams := c07covFamilies(c)
	lap("family-reference")
	c07covContainsNested(c, fams)
	lap("contains-nested")
	c07covAssembly(c, fams)
	lap("assembly")
	c07covValidate(c, fams)
	lap("validate")
	c07covPolygons(c, fams)
	lap("polygons")
	c07covInvertTies(c)
	lap("invert-ties")
	c07covPolylines(c)
	lap("polyline-intersects")
}

func c07covB2i(b bool) int {
	if b {
		return 1
	}
	return 0
}

// c07covIntPoint is (x,y,z)/|(x,y,z)| with one division per coordinate: exact zeros and exactly equal
// coordinates survive, so rays built from proportional (x,y) are exactly collinear as seen from (0,0,1).
func c07covIntPoint(x, y, z float64) s2.Point {
	n := math.Sqrt(x*x + y*y + z*z)
	return s2.Point{Vector: r3.Vector{X: x / n, Y: y / n, Z: z / n}}
}

// c07covLoopOf builds a loop from a private copy of v (Loop.Invert reverses the slice in place).
func c07covLoopOf(v []s2.Point) *s2.Loop {
	return s2.LoopFromPoints(append([]s2.Point(nil), v...))
}

func c07covRotate(v []s2.Point, r int) []s2.Point {
	n := len(v)
	out := make([]s2.Point, n)
	for i := range out {
		out[i] = v[((i+r)%n+n)%n]
	}
	return out
}

func c07covReverse(v []s2.Point) []s2.Point {
	n := len(v)
	out := make([]s2.Point, n)
	for i := range out {
		out[i] = v[n-1-i]
	}
	return out
}

// c07covOnArc: p lies on the closed minor arc ab (exact).
func c07covOnArc(a, b, p s2.Point) bool {
	A, B, P := exact.FromVector(a.Vector), exact.FromVector(b.Vector), exact.FromVector(p.Vector)
	n := A.Cross(B)
	if n.Dot(P).Sign() != 0 {
		return false
	}
	return A.Cross(P).Dot(n).Sign() >= 0 && P.Cross(B).Dot(n).Sign() >= 0
}

// ---------------------------------------------------------------------------------------------
// Sub-check "cov-wedge-relation".

type c07covWedgeSetting struct {
	name  string
	o     s2.Point
	pts   []s2.Point
	names []string
	ixy   [][2]int // integer (x,y) of the ray as seen from o (nil when not built from integers)
}

func c07covWedgeSettings(c *core.Ctx) []c07covWedgeSetting {
	type iv struct{ x, y, z int }
	ints := []iv{{1, 0, 8}, {2, 0, 5}, {1, 1, 8}, {0, 1, 8}, {-1, 1, 8}, {-1, 0, 8}, {-1, -1, 8}, {0, -1, 8}, {1, -1, 8}, {2, 2, 7}}
	if !c.Quick() {
		ints = append(ints, iv{-2, -2, 7}, iv{0, 2, 5}, iv{1, 2, 8}, iv{-2, 1, 8})
	}
	perm := func(p s2.Point, k int) s2.Point {
		switch k {
		case 1:
			return s2.Point{Vector: r3.Vector{X: p.Z, Y: p.X, Z: p.Y}}
		case 2:
			return s2.Point{Vector: r3.Vector{X: p.Y, Y: p.Z, Z: p.X}}
		}
		return p
	}
	var out []c07covWedgeSetting
	for _, k := range core.Pick(c, []int{0, 1}, []int{0, 1, 2}) {
		s := c07covWedgeSetting{name: fmt.Sprintf("integer rays around the axis point, coordinate rotation %d", k), o: perm(s2.Point{Vector: r3.Vector{Z: 1}}, k)}
		for _, v := range ints {
			s.pts = append(s.pts, perm(c07covIntPoint(float64(v.x), float64(v.y), float64(v.z)), k))
			s.names = append(s.names, fmt.Sprintf("(%d,%d,%d)/n", v.x, v.y, v.z))
			s.ixy = append(s.ixy, [2]int{v.x, v.y})
		}
		out = append(out, s)
	}
	centres := []s2.Point{lattice.LL(20, 30)}
	if !c.Quick() {
		centres = append(centres, lattice.LL(-67, -140), s2.Point{Vector: r3.Vector{X: 1, Y: 1, Z: 1}.Normalize()})
	}
	for ci, o := range centres {
		s := c07covWedgeSetting{name: fmt.Sprintf("two rings of rays around generic vertex %d", ci), o: o}
		in := s2.RegularLoop(o, lattice.Deg(5), 8)
		outer := s2.RegularLoop(o, lattice.Deg(9), 8)
		for i := 0; i < 8; i++ {
			s.pts = append(s.pts, in.Vertex(i))
			s.names = append(s.names, fmt.Sprintf("ring5deg[%d]", i))
		}
		for _, i := range core.Pick(c, []int{0, 4}, []int{0, 4, 2, 7}) {
			s.pts = append(s.pts, outer.Vertex(i))
			s.names = append(s.names, fmt.Sprintf("ring9deg[%d]", i))
		}
		out = append(out, s)
	}
	return out
}

// c07covCyclicOrder returns the position of every point in the CCW cyclic order of the rays o->p,
// computed from exact orientation signs only, and the sign table.
func c07covCyclicOrder(o s2.Point, pts []s2.Point) ([]int, [][]int) {
	n := len(pts)
	sg := make([][]int, n)
	for i := range sg {
		sg[i] = make([]int, n)
		for j := range sg[i] {
			if i != j {
				sg[i][j] = refmodel.SoSSign(o, pts[i], pts[j])
				if sg[i][j] == 0 {
					panic(core.HarnessError("cov-wedge-relation: alphabet points are not distinct"))
				}
			}
		}
	}
	half := func(i int) int {
		if i == 0 || sg[0][i] > 0 {
			return 0
		}
		return 1
	}
	idx := make([]int, 0, n)
	for i := 1; i < n; i++ {
		idx = append(idx, i)
	}
	sort.SliceStable(idx, func(x, y int) bool {
		i, j := idx[x], idx[y]
		if half(i) != half(j) {
			return half(i) < half(j)
		}
		return sg[i][j] > 0
	})
	idx = append([]int{0}, idx...)
	// the signs must describe one consistent cyclic order
	for x := 0; x < n; x++ {
		for y := x + 1; y < n; y++ {
			if half(idx[x]) == half(idx[y]) && x > 0 && sg[idx[x]][idx[y]] <= 0 {
				panic(core.HarnessError("cov-wedge-relation: the exact signs do not describe a cyclic order of the rays"))
			}
		}
	}
	pos := make([]int, n)
	for p, i := range idx {
		pos[i] = p
	}
	return pos, sg
}

// c07covWedgeModel: wedge (x0, o, x2) = rays from x0 (inclusive) clockwise to x2 (exclusive) = the
// half-open CCW arc (x2, x0].  The at most four arm positions cut the circle into half-open cells;
// both wedges are unions of cells.
func c07covWedgeModel(pos []int, a0, a2, b0, b2 int) (rel s2.WedgeRel, contains, intersects bool) {
	q := []int{pos[a0], pos[a2], pos[b0], pos[b2]}
	sort.Ints(q)
	var d []int
	for i, x := range q {
		if i == 0 || x != q[i-1] {
			d = append(d, x)
		}
	}
	m := len(d)
	at := func(p int) int {
		for i, x := range d {
			if x == p {
				return i
			}
		}
		return -1
	}
	mask := func(x0, x2 int) int {
		r := 0
		for k := at(pos[x2]); k != at(pos[x0]); k = (k + 1) % m {
			r |= 1 << uint(k)
		}
		return r
	}
	A, B := mask(a0, a2), mask(b0, b2)
	contains = A&B == B
	intersects = A&B != 0
	switch {
	case A == B:
		rel = s2.WedgeEquals
	case A&B == B:
		rel = s2.WedgeProperlyContains
	case A&B == A:
		rel = s2.WedgeIsProperlyContained
	case A&B == 0:
		rel = s2.WedgeIsDisjoint
	default:
		rel = s2.WedgeProperlyOverlaps
	}
	return
}

func c07covWedges(c *core.Ctx) {
	sub := "cov-wedge-relation"
	relName := []string{"equals", "properly_contains", "is_properly_contained", "properly_overlaps", "is_disjoint"}
	var seen [5]atomic.Int64
	var degenerate, sharedRay, collinear, total atomic.Int64
	for si, s := range c07covWedgeSettings(c) {
		si, s := si, s
		n := len(s.pts)
		pos, sg := c07covCyclicOrder(s.o, s.pts)
		isCol := make([][]bool, n)
		for i := range isCol {
			isCol[i] = make([]bool, n)
			for j := range isCol[i] {
				isCol[i][j] = i != j && refmodel.ExactDetSign(s.o, s.pts[i], s.pts[j]) == 0
				if s.ixy != nil && i != j {
					cr := s.ixy[i][0]*s.ixy[j][1] - s.ixy[i][1]*s.ixy[j][0]
					if (cr == 0) != isCol[i][j] || (cr > 0 && sg[i][j] != 1) || (cr < 0 && sg[i][j] != -1) {
						panic(core.HarnessError("cov-wedge-relation: the exact sign of an integer-built ray pair differs from its construction"))
					}
				}
			}
		}
		c.ParallelFor(n*n, func(k int) {
			a0, a2 := k/n, k%n
			for b0 := 0; b0 < n; b0++ {
				for b2 := 0; b2 < n; b2++ {
					if c.Skip(sub, si, a0, a2, b0, b2) {
						continue
					}
					cas := []int{si, a0, a2, b0, b2}
					detail := func() any {
						return map[string]any{"setting": s.name, "ab1": ptStr(s.o), "a0": s.names[a0] + " " + ptStr(s.pts[a0]), "a2": s.names[a2] + " " + ptStr(s.pts[a2]), "b0": s.names[b0] + " " + ptStr(s.pts[b0]), "b2": s.names[b2] + " " + ptStr(s.pts[b2])}
					}
					c.Guard(sub, cas, detail, func() {
						total.Add(1)
						rel := s2.WedgeRelation(s.pts[a0], s.o, s.pts[a2], s.pts[b0], s.pts[b2])
						wc := s2.WedgeContains(s.pts[a0], s.o, s.pts[a2], s.pts[b0], s.pts[b2])
						wi := s2.WedgeIntersects(s.pts[a0], s.o, s.pts[a2], s.pts[b0], s.pts[b2])
						if rel < s2.WedgeEquals || rel > s2.WedgeIsDisjoint {
							c.Violate(sub, "wrong-answer", "WedgeRelation returned a value outside the documented enumeration", cas, detail())
							return
						}
						if a0 == a2 || b0 == b2 {
							// (x, o, x) is the empty set of rays by the documented definition; the functions are
							// specified for non-empty wedges only: no panic, a value of the enumeration.
							degenerate.Add(1)
							return
						}
						want, wantC, wantI := c07covWedgeModel(pos, a0, a2, b0, b2)
						seen[want].Add(1)
						if a0 == b0 || a2 == b2 || a0 == b2 || a2 == b0 {
							sharedRay.Add(1)
						}
						if isCol[a0][a2] || isCol[a0][b0] || isCol[a0][b2] || isCol[a2][b0] || isCol[a2][b2] || isCol[b0][b2] {
							collinear.Add(1)
						}
						add := func() any {
							m := detail().(map[string]any)
							m["WedgeRelation"], m["model_relation"] = relName[rel], relName[want]
							m["WedgeContains"], m["model_contains"] = wc, wantC
							m["WedgeIntersects"], m["model_intersects"] = wi, wantI
							return m
						}
						if rel != want {
							c.Violate(sub, "wrong-answer", fmt.Sprintf("WedgeRelation answers %s where the exact angular-interval model of the two wedges says %s", relName[rel], relName[want]), cas, add())
						}
						if wc != wantC {
							c.Violate(sub, "wrong-answer", "WedgeContains differs from the exact angular-interval model of the two wedges", cas, add())
						}
						if wi != wantI {
							c.Violate(sub, "wrong-answer", "WedgeIntersects differs from the exact angular-interval model of the two wedges", cas, add())
						}
						if wc != (rel == s2.WedgeEquals || rel == s2.WedgeProperlyContains) {
							c.Violate(sub, "wrong-answer", "WedgeContains is not equivalent to WedgeRelation in {Equals, ProperlyContains}", cas, add())
						}
						if wi != (rel != s2.WedgeIsDisjoint) {
							c.Violate(sub, "wrong-answer", "WedgeIntersects is not equivalent to WedgeRelation != IsDisjoint", cas, add())
						}
						if rel == s2.WedgeEquals {
							if !s2.WedgeContains(s.pts[b0], s.o, s.pts[b2], s.pts[a0], s.pts[a2]) {
								c.Violate(sub, "wrong-answer", "WedgeRelation says Equals but B does not contain A", cas, add())
							}
						}
						if rel == s2.WedgeIsProperlyContained && !s2.WedgeContains(s.pts[b0], s.o, s.pts[b2], s.pts[a0], s.pts[a2]) {
							c.Violate(sub, "wrong-answer", "WedgeRelation says IsProperlyContained but WedgeContains(B, A) is false", cas, add())
						}
					})
				}
			}
		})
		if si == 0 {
			c.Sample(map[string]any{"sub": sub, "setting": s.name, "rays": s.names})
		}
	}
	c.Eval(int(total.Load()))
	c.Nontrivial(int(sharedRay.Load() + collinear.Load()))
	c.Count(sub+"/tuples", total.Load())
	c.Count(sub+"/degenerate_wedges_outside_the_documented_domain", degenerate.Load())
	c.Count(sub+"/tuples_with_a_coincident_arm", sharedRay.Load())
	c.Count(sub+"/tuples_with_exactly_collinear_arms", collinear.Load())
	for i := range seen {
		c.Count(sub+"/model_"+relName[i], seen[i].Load())
		if seen[i].Load() == 0 && c.OnlySub == "" {
			panic(core.HarnessError("cov-wedge-relation: relation " + relName[i] + " never occurs in the lattice"))
		}
	}
}

// ---------------------------------------------------------------------------------------------
// Sub-check "cov-boundary-equal": Loop.Equal is equality of the vertex sequences, BoundaryEqual is
// equality up to a cyclic rotation; the empty and the full loop have different boundaries.

func c07covBoundaryEqual(c *core.Ctx) {
	sub := "cov-boundary-equal"
	type nl struct {
		name string
		v    []s2.Point
	}
	var cat []nl
	g := lattice.LL(20, 30)
	bases := []nl{
		{"triangle", []s2.Point{lattice.LL(0, 0), lattice.LL(0, 10), lattice.LL(10, 5)}},
		{"quad", []s2.Point{lattice.LL(18, 28), lattice.LL(18, 33), lattice.LL(23, 31), lattice.LL(21, 27)}},
		{"pentagon", s2.RegularLoop(g, lattice.Deg(3), 5).Vertices()},
		{"12-gon", s2.RegularLoop(g, lattice.Deg(10), 12).Vertices()},
		{"40-gon", s2.RegularLoop(g, lattice.Deg(10), 40).Vertices()},
	}
	if !c.Quick() {
		bases = append(bases, nl{"100-gon", s2.RegularLoop(lattice.LL(-50, -120), lattice.Deg(7), 100).Vertices()}, nl{"cell", s2.LoopFromCell(s2.CellFromCellID(s2.CellIDFromFace(2).Children()[1])).Vertices()})
	}
	for _, b := range bases {
		n := len(b.v)
		rots := []int{}
		for r := 0; r < n; r++ {
			if n <= 12 || r < 2 || r == 7 || r == n-1 || !c.Quick() {
				rots = append(rots, r)
			}
		}
		for _, r := range rots {
			cat = append(cat, nl{fmt.Sprintf("%s rotated by %d", b.name, r), c07covRotate(b.v, r)})
			cat = append(cat, nl{fmt.Sprintf("%s reversed, rotated by %d", b.name, r), c07covRotate(c07covReverse(b.v), r)})
		}
		for _, k := range []int{0, 1, n - 1} {
			v := append([]s2.Point(nil), b.v...)
			v[k] = s2.Point{Vector: v[k].Add(r3.Vector{X: 1e-9, Y: -2e-9, Z: 1e-9}).Normalize()}
			cat = append(cat, nl{fmt.Sprintf("%s with vertex %d moved", b.name, k), v})
		}
	}
	cat = append(cat, nl{"empty", s2.EmptyLoop().Vertices()}, nl{"full", s2.FullLoop().Vertices()})
	loops := make([]*s2.Loop, len(cat))
	for i := range cat {
		loops[i] = c07covLoopOf(cat[i].v)
	}
	special := func(v []s2.Point) bool { return len(v) == 1 }
	var evals, eq, beq, rotOnly atomic.Int64
	n := len(cat)
	c.ParallelFor(n, func(i int) {
		for j := 0; j < n; j++ {
			if c.Skip(sub, i, j) {
				continue
			}
			cas := []int{i, j}
			detail := func() any { return map[string]any{"A": cat[i].name, "B": cat[j].name} }
			c.Guard(sub, cas, detail, func() {
				evals.Add(1)
				a, b := cat[i].v, cat[j].v
				wantEq := len(a) == len(b)
				if wantEq {
					for k := range a {
						if a[k] != b[k] {
							wantEq = false
						}
					}
				}
				wantB := false
				if len(a) == len(b) {
					if special(a) {
						wantB = a[0] == b[0] // both special: the same kind
					} else {
						for r := 0; r < len(a) && !wantB; r++ {
							ok := true
							for k := range b {
								if a[(k+r)%len(a)] != b[k] {
									ok = false
									break
								}
							}
							wantB = ok
						}
					}
				}
				if wantEq {
					eq.Add(1)
				}
				if wantB {
					beq.Add(1)
					if !wantEq {
						rotOnly.Add(1)
					}
				}
				if got := loops[i].Equal(loops[j]); got != wantEq {
					c.Violate(sub, "wrong-answer", "Loop.Equal differs from equality of the two vertex sequences", cas, map[string]any{"A": cat[i].name, "B": cat[j].name, "got": got, "want": wantEq})
				}
				if got := loops[i].BoundaryEqual(loops[j]); got != wantB {
					c.Violate(sub, "wrong-answer", "Loop.BoundaryEqual differs from equality of the two vertex cycles up to rotation", cas, map[string]any{"A": cat[i].name, "B": cat[j].name, "got": got, "want": wantB})
				}
			})
		}
	})
	c.Eval(int(evals.Load()))
	c.Nontrivial(int(rotOnly.Load()))
	c.Count(sub+"/pairs", evals.Load())
	c.Count(sub+"/equal_pairs", eq.Load())
	c.Count(sub+"/boundary_equal_pairs", beq.Load())
	c.Count(sub+"/boundary_equal_only_after_rotation", rotOnly.Load())
	if rotOnly.Load() == 0 && c.OnlySub == "" {
		panic(core.HarnessError("cov-boundary-equal: no pair is equal only up to rotation"))
	}
	c.Sample(map[string]any{"sub": sub, "A": cat[1].name, "B": cat[2].name})
}

// ---------------------------------------------------------------------------------------------
// A family of loops that touch each other at vertices without crossing, and the exact reference
// relation of every ordered pair.

const (
	c07covInvalid  = 0 // the pair violates the polygon requirements (or is not nestable)
	c07covContains = 1 // first strictly contains second
	c07covInside   = 2 // second strictly contains first
	c07covDisjoint = 3
)

type c07covLoop struct {
	name string
	v    []s2.Point
	ref  *refmodel.Loop
	mid  []s2.Point
}

type c07covFamily struct {
	name   string
	loops  []c07covLoop
	rel    [][]int
	shared [][]int
	byName map[string]int
}

func c07covNewLoop(name string, v []s2.Point) c07covLoop {
	l := c07covLoop{name: name, v: v, ref: refmodel.NewLoop(append([]s2.Point(nil), v...))}
	for i := range v {
		l.mid = append(l.mid, s2.Interpolate(0.5, v[i], v[(i+1)%len(v)]))
	}
	return l
}

// c07covClassify is the exact reference relation of two loops with >= 3 vertices.
func c07covClassify(A, B *c07covLoop) (rel int, shared int) {
	na, nb := len(A.v), len(B.v)
	inA := map[s2.Point]bool{}
	for _, p := range A.v {
		inA[p] = true
	}
	inB := map[s2.Point]bool{}
	for _, p := range B.v {
		inB[p] = true
		if inA[p] {
			shared++
		}
	}
	for i := 0; i < na; i++ {
		a0, a1 := A.v[i], A.v[(i+1)%na]
		for j := 0; j < nb; j++ {
			b0, b1 := B.v[j], B.v[(j+1)%nb]
			if (a0 == b0 && a1 == b1) || (a0 == b1 && a1 == b0) {
				return c07covInvalid, shared // shared edge
			}
			if refmodel.CrossingSign(a0, a1, b0, b1) == refmodel.Cross {
				return c07covInvalid, shared
			}
			if (!inA[b0] && c07covOnArc(a0, a1, b0)) || (!inB[a0] && c07covOnArc(b0, b1, a0)) {
				return c07covInvalid, shared // touching away from a common vertex
			}
		}
	}
	uniform := func(l *c07covLoop, pts []s2.Point) (in, ok bool) {
		for i, p := range pts {
			x := l.ref.Contains(p)
			if i == 0 {
				in = x
			} else if x != in {
				return false, false
			}
		}
		return in, true
	}
	bIn, ok1 := uniform(A, B.mid)
	aIn, ok2 := uniform(B, A.mid)
	switch {
	case !ok1 || !ok2:
		return c07covInvalid, shared // the boundaries cross at a common vertex
	case bIn && aIn:
		return c07covInvalid, shared // the union is the sphere: not nestable
	case bIn:
		return c07covContains, shared
	case aIn:
		return c07covInside, shared
	}
	return c07covDisjoint, shared
}

func c07covRelate(c *core.Ctx, f *c07covFamily) {
	n := len(f.loops)
	f.rel = make([][]int, n)
	f.shared = make([][]int, n)
	f.byName = map[string]int{}
	for i := range f.rel {
		f.rel[i] = make([]int, n)
		f.shared[i] = make([]int, n)
		f.byName[f.loops[i].name] = i
	}
	type pr struct{ i, j int }
	var prs []pr
	for i := 0; i < n; i++ {
		for j := i + 1; j < n; j++ {
			prs = append(prs, pr{i, j})
		}
	}
	c.ParallelFor(len(prs), func(k int) {
		i, j := prs[k].i, prs[k].j
		r, s := c07covClassify(&f.loops[i], &f.loops[j])
		f.rel[i][j], f.shared[i][j], f.shared[j][i] = r, s, s
		switch r {
		case c07covContains:
			f.rel[j][i] = c07covInside
		case c07covInside:
			f.rel[j][i] = c07covContains
		default:
			f.rel[j][i] = r
		}
	})
}

// c07covMakeFamily builds the family around centre g from three concentric regular n-gons
// (P radius 10 deg, W 15 deg, U 5 deg, T 2 deg) with the same azimuths.
func c07covMakeFamily(c *core.Ctx, name string, g s2.Point, n, step int, withCells bool) *c07covFamily {
	P := s2.RegularLoop(g, lattice.Deg(10), n).Vertices()
	W := s2.RegularLoop(g, lattice.Deg(15), n).Vertices()
	U := s2.RegularLoop(g, lattice.Deg(5), n).Vertices()
	T := s2.RegularLoop(g, lattice.Deg(2), n).Vertices()
	anti := s2.Point{Vector: g.Mul(-1)}
	f := &c07covFamily{name: name}
	add := func(nm string, v []s2.Point, fix bool) {
		if fix && refmodel.NewLoop(append([]s2.Point(nil), v...)).Contains(anti) {
			v = c07covReverse(v)
		}
		f.loops = append(f.loops, c07covNewLoop(nm, v))
	}
	every := func(src []s2.Point, k int) []s2.Point {
		var v []s2.Point
		for i := 0; i+k <= len(src) || i == 0; i += k { // the closing edge must not be an edge of src
			v = append(v, src[i])
		}
		return v
	}
	h := (step + 1) / 2
	var star, gear []s2.Point
	for i := 0; i < n; i += step {
		star = append(star, P[i], W[(i+h)%n])
		gear = append(gear, P[i], U[(i+h)%n])
	}
	add("P", P, true)
	add("inscribed", every(P, step), true)
	add("inscribed3", every(P, 3), true)
	add("triangle", []s2.Point{P[0], P[n/3], P[2*n/3]}, true)
	add("star", star, true)
	add("fan", []s2.Point{P[0], W[1], W[n-1]}, true)
	add("kite", []s2.Point{P[0], U[1], T[n/2], U[n-1]}, true)
	add("gear", gear, true)
	add("U", U, true)
	farC := s2.Point{Vector: r3.Vector{X: -g.Y, Y: g.X, Z: -g.Z}.Normalize()}
	add("far", s2.RegularLoop(farC, lattice.Deg(7), 12).Vertices(), false)
	// a 12-gon outside P that has P[n/2] as one of its vertices
	bc := s2.InterpolateAtDistance(lattice.Deg(13), g, P[n/2])
	blob := s2.RegularLoop(bc, lattice.Deg(3), 12).Vertices()
	best := 0
	for i := range blob {
		if blob[i].Distance(P[n/2]) < blob[best].Distance(P[n/2]) {
			best = i
		}
	}
	blob[best] = P[n/2]
	add("blob", blob, true)
	add("huge", c07covReverse(s2.RegularLoop(anti, lattice.Deg(60), 12).Vertices()), false)
	if withCells {
		id := s2.CellFromPoint(farC).ID().Parent(3)
		kids := id.Children()
		add("cell-a", s2.LoopFromCell(s2.CellFromCellID(kids[0])).Vertices(), false)
		add("cell-c", s2.LoopFromCell(s2.CellFromCellID(kids[2])).Vertices(), false)
		add("cell-parent-sibling", s2.LoopFromCell(s2.CellFromCellID(id.Next())).Vertices(), false)
	}
	c07covRelate(c, f)
	return f
}

func c07covFamilies(c *core.Ctx) []*c07covFamily {
	fams := []*c07covFamily{c07covMakeFamily(c, "40-gon family at (20,30)", lattice.LL(20, 30), 40, 5, true)}
	if !c.Quick() {
		fams = append(fams, c07covMakeFamily(c, "100-gon family at (-35,100)", lattice.LL(-35, 100), 100, 4, false))
	}
	relNames := []string{"invalid", "contains", "inside", "disjoint"}
	for _, f := range fams {
		cnt := map[string]int64{}
		touching := int64(0)
		for i := range f.loops {
			for j := range f.loops {
				if i != j {
					cnt[relNames[f.rel[i][j]]]++
					if f.rel[i][j] != c07covInvalid && f.shared[i][j] > 0 {
						touching++
					}
				}
			}
		}
		for k, v := range cnt {
			c.Count("cov-family/ordered_pairs_"+k, v)
		}
		c.Count("cov-family/valid_ordered_pairs_sharing_a_vertex", touching)
		// the constructions the other sub-checks rely on
		need := [][3]string{{"P", "inscribed", "contains"}, {"P", "gear", "contains"}, {"gear", "U", "contains"}, {"star", "P", "contains"}, {"P", "kite", "contains"},
			{"P", "fan", "disjoint"}, {"P", "blob", "disjoint"}, {"inscribed", "gear", "contains"}, {"huge", "star", "contains"}, {"P", "far", "disjoint"}, {"P", "triangle", "contains"}, {"P", "inscribed3", "contains"}, {"star", "inscribed3", "contains"}}
		for _, nd := range need {
			i, j := f.byName[nd[0]], f.byName[nd[1]]
			if relNames[f.rel[i][j]] != nd[2] || (nd[1] != "far" && nd[0] != "huge" && f.shared[i][j] == 0) {
				panic(core.HarnessError(fmt.Sprintf("cov-family %s: %s vs %s is %s with %d shared vertices, expected %s", f.name, nd[0], nd[1], relNames[f.rel[i][j]], f.shared[i][j], nd[2])))
			}
		}
	}
	return fams
}

// ---------------------------------------------------------------------------------------------
// Sub-check "cov-contains-nested": for every ordered pair (A, B) of the family that meets the
// documented precondition (no crossing, no shared edge, nestable) and every rotation of both vertex
// lists, A.ContainsNested(B) must equal exact point-set containment.

func c07covContainsNested(c *core.Ctx, fams []*c07covFamily) {
	sub := "cov-contains-nested"
	var evals, sharedV1, sharedIndexed, wantTrue, special atomic.Int64
	for fi, f := range fams {
		fi, f := fi, f
		n := len(f.loops)
		objs := make([][]*s2.Loop, n)
		for i := range f.loops {
			for r := range f.loops[i].v {
				l := c07covLoopOf(c07covRotate(f.loops[i].v, r))
				l.VerifIndex().Build()
				objs[i] = append(objs[i], l)
			}
		}
		c.ParallelFor(n*n, func(k int) {
			i, j := k/n, k%n
			if i == j || f.rel[i][j] == c07covInvalid {
				return
			}
			want := f.rel[i][j] == c07covContains
			inA := map[s2.Point]bool{}
			for _, p := range f.loops[i].v {
				inA[p] = true
			}
			for ra, A := range objs[i] {
				for rb, B := range objs[j] {
					if c.Skip(sub, fi, i, j, ra, rb) {
						continue
					}
					cas := []int{fi, i, j, ra, rb}
					detail := func() any {
						return map[string]any{"family": f.name, "A": f.loops[i].name, "A_rotation": ra, "B": f.loops[j].name, "B_rotation": rb, "B.Vertex(1)": ptStr(B.Vertex(1)), "shared_vertices": f.shared[i][j], "A_contains_B_exactly": want}
					}
					c.Guard(sub, cas, detail, func() {
						evals.Add(1)
						if want {
							wantTrue.Add(1)
						}
						if inA[B.Vertex(1)] {
							sharedV1.Add(1)
							if A.NumVertices() >= 10 {
								sharedIndexed.Add(1)
							}
						}
						if got := A.ContainsNested(B); got != want {
							d := "Loop.ContainsNested differs from exact point-set containment for loops that meet the polygon requirements"
							if inA[B.Vertex(1)] {
								d += " (B.Vertex(1) is a vertex of A)"
							}
							c.Violate(sub, "wrong-answer", d, cas, detail())
						}
					})
				}
			}
		})
		// the special loops
		specials := []struct {
			name string
			mk   func() *s2.Loop
		}{{"empty", s2.EmptyLoop}, {"full", s2.FullLoop}}
		for si, sp := range specials {
			for i := range f.loops {
				if c.Skip(sub+"-special", fi, si, i) {
					continue
				}
				cas := []int{fi, si, i}
				detail := func() any { return map[string]any{"family": f.name, "special": sp.name, "loop": f.loops[i].name} }
				c.Guard(sub+"-special", cas, detail, func() {
					special.Add(2)
					S, L := sp.mk(), objs[i][0]
					if got, want := S.ContainsNested(L), sp.name == "full"; got != want {
						c.Violate(sub, "wrong-answer", "ContainsNested of the "+sp.name+" loop and an ordinary loop differs from point-set containment", cas, detail())
					}
					if got, want := L.ContainsNested(S), sp.name == "empty"; got != want {
						c.Violate(sub, "wrong-answer", "ContainsNested of an ordinary loop and the "+sp.name+" loop differs from point-set containment", cas, detail())
					}
				})
			}
		}
	}
	c.Eval(int(evals.Load() + special.Load()))
	c.Nontrivial(int(sharedV1.Load()))
	c.Count(sub+"/cases", evals.Load())
	c.Count(sub+"/cases_expected_true", wantTrue.Load())
	c.Count(sub+"/cases_where_B_vertex1_is_shared", sharedV1.Load())
	c.Count(sub+"/cases_where_B_vertex1_is_shared_and_A_is_indexed", sharedIndexed.Load())
	c.Count(sub+"/special_loop_cases", special.Load())
	if (sharedIndexed.Load() == 0 || sharedV1.Load() == sharedIndexed.Load()) && c.OnlySub == "" {
		panic(core.HarnessError("cov-contains-nested: the shared-vertex branch was not reached through both vertex searches"))
	}
	c.Sample(map[string]any{"sub": sub, "A": "P", "B": "inscribed", "all rotations": true})
}

// ---------------------------------------------------------------------------------------------
// Sub-check "cov-assembly": PolygonFromLoops on every valid subset of the family in every input
// order.  A loop is a hole exactly when an odd number of the other loops enclose it; the loops come
// back in pre-order (every loop immediately followed by its descendants); Parent and LastDescendant
// describe that forest; Validate accepts the polygon.

func c07covSubsets(n, k int, f func([]int)) {
	var rec func(start int, cur []int)
	rec = func(start int, cur []int) {
		if len(cur) == k {
			f(append([]int(nil), cur...))
			return
		}
		for i := start; i < n; i++ {
			rec(i+1, append(cur, i))
		}
	}
	rec(0, nil)
}

func c07covAssembly(c *core.Ctx, fams []*c07covFamily) {
	sub := "cov-assembly"
	var evals, touching, depth2 atomic.Int64
	for fi, f := range fams {
		fi, f := fi, f
		n := len(f.loops)
		var subsets [][]int
		maxK := core.Pick(c, 3, 4)
		if fi > 0 {
			maxK = 3
		}
		for k := 2; k <= maxK; k++ {
			c07covSubsets(n, k, func(s []int) {
				for _, i := range s {
					for _, j := range s {
						if i != j && f.rel[i][j] == c07covInvalid {
							return
						}
					}
				}
				subsets = append(subsets, s)
			})
		}
		c.Count(sub+"/valid_subsets", int64(len(subsets)))
		c.ParallelFor(len(subsets), func(si int) {
			s := subsets[si]
			trueDepth := map[int]int{}
			touch := false
			for _, i := range s {
				for _, j := range s {
					if i != j && f.rel[j][i] == c07covContains {
						trueDepth[i]++
					}
					if i != j && f.shared[i][j] > 0 {
						touch = true
					}
				}
			}
			pi := 0
			permute(s, func(order []int) {
				pi++
				for rot := 0; rot < 2; rot++ {
					if c.Skip(sub, fi, si, pi, rot) {
						continue
					}
					cas := []int{fi, si, pi, rot}
					var names []string
					for _, i := range order {
						names = append(names, f.loops[i].name)
					}
					detail := func() any {
						return map[string]any{"family": f.name, "input_order": names, "every vertex list rotated by": -rot}
					}
					c.Guard(sub, cas, detail, func() {
						evals.Add(1)
						if touch {
							touching.Add(1)
						}
						id := map[*s2.Loop]int{}
						var ls []*s2.Loop
						for _, i := range order {
							l := c07covLoopOf(c07covRotate(f.loops[i].v, -rot))
							id[l] = i
							ls = append(ls, l)
						}
						pg := s2.PolygonFromLoops(ls)
						bad := func(desc string, extra map[string]any) {
							m := detail().(map[string]any)
							for k, v := range extra {
								m[k] = v
							}
							c.Violate(sub, "wrong-answer", desc, cas, m)
						}
						if pg.NumLoops() != len(order) {
							bad("PolygonFromLoops changed the number of loops", nil)
							return
						}
						at := make([]int, pg.NumLoops())
						for k, l := range pg.Loops() {
							i, ok := id[l]
							if !ok {
								bad("a loop of the assembled polygon is not one of the input loops", nil)
								return
							}
							at[k] = i
						}
						for k, l := range pg.Loops() {
							i := at[k]
							if trueDepth[i] >= 2 {
								depth2.Add(1)
							}
							if l.IsHole() != (trueDepth[i]%2 == 1) {
								bad("IsHole differs from the parity of the number of other loops that enclose the loop (loops touching at vertices)", map[string]any{"loop": f.loops[i].name, "is_hole": l.IsHole(), "enclosing_loops": trueDepth[i]})
							}
							// descendants must follow immediately
							var desc []int
							for _, j := range s {
								if j != i && f.rel[i][j] == c07covContains {
									desc = append(desc, j)
								}
							}
							last := pg.LastDescendant(k)
							if last-k != len(desc) {
								bad("LastDescendant(k)-k differs from the number of loops enclosed by loop k", map[string]any{"loop": f.loops[i].name, "k": k, "last_descendant": last, "enclosed_loops": len(desc)})
							} else {
								for q := k + 1; q <= last; q++ {
									if f.rel[i][at[q]] != c07covContains {
										bad("a loop in the range k+1..LastDescendant(k) is not enclosed by loop k", map[string]any{"loop": f.loops[i].name, "other": f.loops[at[q]].name})
									}
								}
							}
							par, ok := pg.Parent(k)
							if trueDepth[i] == 0 {
								if ok {
									bad("Parent reports a parent for a loop that no other loop encloses", map[string]any{"loop": f.loops[i].name})
								}
							} else if !ok || par < 0 || par >= len(at) || f.rel[at[par]][i] != c07covContains || trueDepth[at[par]] != trueDepth[i]-1 {
								bad("Parent(k) is not the innermost loop that encloses loop k", map[string]any{"loop": f.loops[i].name, "parent_index": par, "ok": ok})
							}
						}
						if pg.LastDescendant(-1) != pg.NumLoops()-1 {
							bad("LastDescendant(-1) is not the last loop", nil)
						}
						if err := pg.Validate(); err != nil {
							bad("Polygon.Validate rejects a polygon whose loops meet the polygon requirements (loops touching at vertices)", map[string]any{"error": err.Error()})
						}
					})
				}
			})
		})
	}
	c.Eval(int(evals.Load()))
	c.Nontrivial(int(touching.Load()))
	c.Count(sub+"/polygons_built", evals.Load())
	c.Count(sub+"/polygons_with_loops_touching_at_a_vertex", touching.Load())
	c.Count(sub+"/loops_at_depth_2_or_more", depth2.Load())
	if touching.Load() == 0 && c.OnlySub == "" {
		panic(core.HarnessError("cov-assembly: no polygon with touching loops"))
	}
}

// ---------------------------------------------------------------------------------------------
// Sub-check "cov-validate".
// (a) Polygons decoded from hand-made lossless encodings: every choice of 2..k loops, every order,
//     every depth assignment.  Validate must return nil exactly when the depths are the true nesting
//     depths and every loop is immediately followed by its descendants (the documented layout).
// (b) PolygonFromLoops on inputs that break the polygon requirements (crossing loops, duplicate
//     loops, shared edges): never a panic; duplicate loops must be reported by Validate.

func c07covEncodePolygon(loops [][]s2.Point, depths []int) []byte {
	var buf bytes.Buffer
	holes := byte(0)
	for _, d := range depths {
		if d%2 == 1 {
			holes = 1
		}
	}
	buf.Write([]byte{1, 1, holes})
	binary.Write(&buf, binary.LittleEndian, uint32(len(loops)))
	for i, v := range loops {
		var lb bytes.Buffer
		if err := c07covLoopOf(v).Encode(&lb); err != nil {
			panic(core.HarnessError("cov-validate: Loop.Encode failed: " + err.Error()))
		}
		b := lb.Bytes()
		off := 1 + 4 + 24*len(v) + 1
		binary.LittleEndian.PutUint32(b[off:], uint32(depths[i]))
		buf.Write(b)
	}
	if err := s2.FullRect().Encode(&buf); err != nil {
		panic(core.HarnessError("cov-validate: Rect.Encode failed"))
	}
	return buf.Bytes()
}

func c07covValidate(c *core.Ctx, fams []*c07covFamily) {
	sub := "cov-validate"
	var evals, validCases, invalidCases, wrongDepthOnly, wrongOrderOnly atomic.Int64
	// family of concentric 8-gons plus an island (no shared vertices, exhaustive vertex search)
	g := lattice.LL(-10, 70)
	conc := &c07covFamily{name: "concentric 8-gons + island"}
	for _, r := range []float64{25, 18, 11, 4} {
		conc.loops = append(conc.loops, c07covNewLoop(fmt.Sprintf("8-gon r=%g", r), s2.RegularLoop(g, lattice.Deg(r), 8).Vertices()))
	}
	conc.loops = append(conc.loops, c07covNewLoop("island", s2.RegularLoop(lattice.LL(50, -100), lattice.Deg(6), 8).Vertices()))
	c07covRelate(c, conc)
	type pool struct {
		f   *c07covFamily
		ids []int
	}
	f0 := fams[0]
	pools := []pool{{conc, []int{0, 1, 2, 3, 4}}, {f0, []int{f0.byName["P"], f0.byName["inscribed"], f0.byName["gear"], f0.byName["U"], f0.byName["fan"], f0.byName["star"]}}}
	maxK := core.Pick(c, 3, 4)
	depthVals := []int{0, 1, 2, 3}
	for pi, pl := range pools {
		pi, pl := pi, pl
		f := pl.f
		var subsets [][]int
		for k := 2; k <= maxK; k++ {
			c07covSubsets(len(pl.ids), k, func(s []int) {
				var t []int
				for _, x := range s {
					t = append(t, pl.ids[x])
				}
				for _, i := range t {
					for _, j := range t {
						if i != j && f.rel[i][j] == c07covInvalid {
							panic(core.HarnessError("cov-validate: pool loops are not nestable"))
						}
					}
				}
				subsets = append(subsets, t)
			})
		}
		c.ParallelFor(len(subsets), func(si int) {
			s := subsets[si]
			k := len(s)
			trueDepth := map[int]int{}
			for _, i := range s {
				for _, j := range s {
					if i != j && f.rel[j][i] == c07covContains {
						trueDepth[i]++
					}
				}
			}
			oi := 0
			permute(s, func(order []int) {
				oi++
				// is the order a pre-order (descendants contiguous after each loop)?
				preorder := true
				for p, i := range order {
					nd := 0
					for _, j := range order {
						if j != i && f.rel[i][j] == c07covContains {
							nd++
						}
					}
					for q := p + 1; q <= p+nd; q++ {
						if q >= k || f.rel[i][order[q]] != c07covContains {
							preorder = false
						}
					}
				}
				var vs [][]s2.Point
				var names []string
				for _, i := range order {
					vs = append(vs, f.loops[i].v)
					names = append(names, f.loops[i].name)
				}
				nd := 1
				for i := 0; i < k; i++ {
					nd *= len(depthVals)
				}
				for di := 0; di < nd; di++ {
					if c.Skip(sub+"-decoded", pi, si, oi, di) {
						continue
					}
					depths := make([]int, k)
					x := di
					depthsOK := true
					for p := 0; p < k; p++ {
						depths[p] = depthVals[x%len(depthVals)]
						x /= len(depthVals)
						if depths[p] != trueDepth[order[p]] {
							depthsOK = false
						}
					}
					want := depthsOK && preorder
					cas := []int{pi, si, oi, di}
					detail := func() any {
						return map[string]any{"family": f.name, "loop_order": names, "depths": depths, "layout_is_valid": want}
					}
					c.Guard(sub, cas, detail, func() {
						evals.Add(1)
						switch {
						case want:
							validCases.Add(1)
						case preorder:
							wrongDepthOnly.Add(1)
						case depthsOK:
							wrongOrderOnly.Add(1)
						}
						if !want {
							invalidCases.Add(1)
						}
						var pg s2.Polygon
						if err := pg.Decode(bytes.NewReader(c07covEncodePolygon(vs, depths))); err != nil {
							panic(core.HarnessError("cov-validate: the hand-made lossless encoding does not decode: " + err.Error()))
						}
						err := pg.Validate()
						if want && err != nil {
							c.Violate(sub, "wrong-answer", "Polygon.Validate rejects a decoded polygon whose loops are stored in pre-order with their true depths", cas, map[string]any{"family": f.name, "loop_order": names, "depths": depths, "error": err.Error()})
						}
						if !want && err == nil {
							d := "Polygon.Validate accepts a decoded polygon whose stored depths / loop order contradict the actual nesting of its loops"
							c.Violate(sub, "wrong-answer", d, cas, detail())
						}
					})
				}
			})
		})
	}
	c.Count(sub+"/decoded_layouts", evals.Load())
	c.Count(sub+"/decoded_layouts_valid", validCases.Load())
	c.Count(sub+"/decoded_layouts_invalid", invalidCases.Load())
	c.Count(sub+"/decoded_layouts_wrong_depth_in_preorder", wrongDepthOnly.Load())
	c.Count(sub+"/decoded_layouts_true_depths_wrong_order", wrongOrderOnly.Load())
	if (validCases.Load() == 0 || wrongDepthOnly.Load() == 0 || wrongOrderOnly.Load() == 0) && c.OnlySub == "" {
		panic(core.HarnessError("cov-validate: a class of layouts is missing"))
	}
	c.Eval(int(evals.Load()))
	c.Nontrivial(int(invalidCases.Load()))

	// (b) invalid geometry
	P := f0.loops[f0.byName["P"]].v
	U := f0.loops[f0.byName["U"]].v
	W := s2.RegularLoop(lattice.LL(20, 30), lattice.Deg(15), 40).Vertices()
	ins := f0.loops[f0.byName["inscribed"]].v
	face := s2.CellIDFromFace(3)
	cellV := func(id s2.CellID) []s2.Point { return s2.LoopFromCell(s2.CellFromCellID(id)).Vertices() }
	type bad struct {
		name      string
		class     string
		loops     [][]s2.Point
		mustError bool
	}
	bads := []bad{
		{"P and a 36-gon crossing it", "crossing", [][]s2.Point{P, s2.RegularLoop(lattice.LL(22, 38), lattice.Deg(6), 36).Vertices()}, false},
		{"P and a 5-gon crossing it", "crossing", [][]s2.Point{P, s2.RegularLoop(lattice.LL(22, 38), lattice.Deg(6), 5).Vertices()}, false},
		{"inscribed octagon and U crossing it", "crossing", [][]s2.Point{ins, s2.RegularLoop(lattice.LL(20, 36), lattice.Deg(5), 40).Vertices()}, false},
		{"P twice", "duplicate", [][]s2.Point{P, P}, true},
		{"P and P rotated by 7", "duplicate", [][]s2.Point{P, c07covRotate(P, 7)}, true},
		{"octagon twice", "duplicate", [][]s2.Point{ins, c07covRotate(ins, 3)}, true},
		{"P twice and U", "duplicate", [][]s2.Point{P, U, c07covRotate(P, 1)}, true},
		{"two adjacent cells", "shared-edge", [][]s2.Point{cellV(face.Children()[0]), cellV(face.Children()[1])}, false},
		{"P and a triangle inside on the edge P0 P1", "shared-edge", [][]s2.Point{P, {P[0], P[1], U[0]}}, false},
		{"P and a triangle outside on the edge P1 P0", "shared-edge", [][]s2.Point{P, {P[1], P[0], W[0]}}, false},
	}
	var bevals int64
	outcome := map[string]int64{}
	for bi, b := range bads {
		oi := 0
		idx := make([]int, len(b.loops))
		for i := range idx {
			idx[i] = i
		}
		permute(idx, func(order []int) {
			oi++
			if c.Skip(sub+"-geometry", bi, oi) {
				return
			}
			cas := []int{bi, oi}
			detail := func() any { return map[string]any{"input": b.name, "input_order": order} }
			c.Guard(sub, cas, detail, func() {
				bevals++
				var ls []*s2.Loop
				for _, i := range order {
					ls = append(ls, c07covLoopOf(b.loops[i]))
				}
				pg := s2.PolygonFromLoops(ls)
				err := pg.Validate()
				if err != nil {
					outcome[b.class+"_reported"]++
				} else {
					outcome[b.class+"_not_reported"]++
				}
				if b.mustError && err == nil {
					c.Violate(sub, "wrong-answer", "Polygon.Validate accepts a polygon that contains the same loop twice", cas, detail())
				}
				// the relations must not panic on it either
				pg.Contains(pg)
				pg.Intersects(pg)
			})
		})
	}
	c.Eval(int(bevals))
	for k, v := range outcome {
		c.Count(sub+"/invalid_geometry_"+k, v)
	}
	c.Sample(map[string]any{"sub": sub, "decoded": "P, inscribed, gear in every order with every depth in 0..3"})
}

// ---------------------------------------------------------------------------------------------
// Sub-check "cov-polygons": the polygon laws of the existing polygon sub-check on polygons with
// more than 12 loops (cumulative-edge lookup) and with holes that touch their shells at vertices.

type c07covPoly struct {
	name  string
	loops [][]s2.Point
}

func (p c07covPoly) mk() *s2.Polygon {
	if len(p.loops) == 1 && len(p.loops[0]) == 1 {
		if p.loops[0][0].Z < 0 {
			return s2.FullPolygon()
		}
		return s2.PolygonFromLoops(nil)
	}
	var ls []*s2.Loop
	for _, v := range p.loops {
		ls = append(ls, c07covLoopOf(v))
	}
	return s2.PolygonFromLoops(ls)
}

func c07covPolygonCatalogue(c *core.Ctx, fams []*c07covFamily) []c07covPoly {
	var cat []c07covPoly
	g := lattice.LL(20, 30)
	d := lattice.Deg
	grid := func(rows, cols int, lat0, lng0, step, r float64, nv int) [][]s2.Point {
		var out [][]s2.Point
		for i := 0; i < rows; i++ {
			for j := 0; j < cols; j++ {
				out = append(out, s2.RegularLoop(lattice.LL(lat0+step*float64(i), lng0+step*float64(j)), d(r), nv).Vertices())
			}
		}
		return out
	}
	f := fams[0]
	L := func(name string) []s2.Point { return f.loops[f.byName[name]].v }
	isl := grid(4, 4, 15, 25, 3.3, 0.8, 8)
	cat = append(cat, c07covPoly{"archipelago of 16 shells", isl})
	cat = append(cat, c07covPoly{"P with 13 of the 16 islands as holes", append([][]s2.Point{L("P")}, isl[:13]...)})
	cat = append(cat, c07covPoly{"P with all 16 islands as holes", append([][]s2.Point{L("P")}, isl...)})
	big := grid(2, 3, 17, 26, 4, 1.4, 8)
	small := grid(2, 3, 17, 26, 4, 0.5, 6)
	cat = append(cat, c07covPoly{"P with 6 holes and an island in each hole", append(append([][]s2.Point{L("P")}, big...), small...)})
	cat = append(cat, c07covPoly{"huge with the 16 islands as holes", append([][]s2.Point{L("huge")}, isl...)})
	touchSets := [][]string{{"P", "inscribed"}, {"star", "P"}, {"P", "gear"}, {"gear", "U"}, {"P", "kite"}, {"P", "fan"}, {"star", "inscribed3"}, {"star", "P", "gear", "U"},
		{"P", "blob", "fan"}, {"inscribed"}, {"P"}, {"gear"}, {"star"}, {"U"}, {"kite"}, {"fan"}, {"P", "triangle"}, {"huge", "star", "inscribed", "far"}}
	addTouch := func(f *c07covFamily, sets [][]string) {
		for _, s := range sets {
			var ls [][]s2.Point
			name := f.name + ":"
			for _, nm := range s {
				ls = append(ls, f.loops[f.byName[nm]].v)
				name += " " + nm
			}
			for _, a := range s {
				for _, b := range s {
					if a != b && f.rel[f.byName[a]][f.byName[b]] == c07covInvalid {
						panic(core.HarnessError("cov-polygons: catalogue polygon '" + name + "' is not valid"))
					}
				}
			}
			cat = append(cat, c07covPoly{name, ls})
		}
	}
	addTouch(f, touchSets)
	cat = append(cat, c07covPoly{"ring(40,10,4)", [][]s2.Point{L("P"), s2.RegularLoop(g, d(4), 40).Vertices()}})
	cat = append(cat, c07covPoly{"disc crossing P", [][]s2.Point{s2.RegularLoop(lattice.LL(20, 37), d(5), 33).Vertices()}})
	cat = append(cat, c07covPoly{"big(40,95)", [][]s2.Point{s2.RegularLoop(g, d(95), 40).Vertices()}})
	cat = append(cat, c07covPoly{"empty", [][]s2.Point{s2.EmptyLoop().Vertices()}}, c07covPoly{"full", [][]s2.Point{s2.FullLoop().Vertices()}})
	if !c.Quick() {
		isl36 := grid(6, 6, 14.5, 24.5, 2.2, 0.6, 7)
		cat = append(cat, c07covPoly{"archipelago of 36 shells", isl36})
		cat = append(cat, c07covPoly{"P with 36 islands as holes", append([][]s2.Point{L("P")}, isl36...)})
		cat = append(cat, c07covPoly{"star with P as hole and 16 islands inside P", append([][]s2.Point{L("star"), L("P")}, isl...)})
		addTouch(fams[1], touchSets[:9])
	}
	return cat
}

func c07covPolygons(c *core.Ctx, fams []*c07covFamily) {
	sub := "cov-polygons"
	cat := c07covPolygonCatalogue(c, fams)
	n := len(cat)
	ps := make([]*s2.Polygon, n)
	comps := make([]*s2.Polygon, n)
	refs := make([][]*refmodel.Loop, n)
	var allProbes []s2.Point
	many := 0
	for i := range cat {
		ps[i] = cat[i].mk()
		comps[i] = cat[i].mk()
		comps[i].Invert()
		if ps[i].NumLoops() > 12 {
			many++
		}
		for _, pg := range []*s2.Polygon{ps[i], comps[i]} {
			if ix := pg.VerifIndex(); ix != nil {
				ix.Build()
			}
			for _, l := range pg.Loops() {
				l.VerifIndex().Build()
			}
		}
		var pp []s2.Point
		for _, l := range ps[i].Loops() {
			refs[i] = append(refs[i], refmodel.LoopOf(l))
			if l.NumVertices() >= 3 {
				pp = append(pp, lattice.LoopProbes(l, 0)...)
			}
		}
		lim := core.Pick(c, 45, 90)
		if len(pp) > lim {
			var q []s2.Point
			for k := 0; k < len(pp); k += len(pp)/lim + 1 {
				q = append(q, pp[k])
			}
			pp = q
		}
		allProbes = append(allProbes, pp...)
	}
	allProbes = lattice.Dedup(append(allProbes, lattice.PStruct(1)...))
	c.Count(sub+"/polygons", int64(n))
	c.Count(sub+"/polygons_with_more_than_12_loops", int64(many))
	c.Count(sub+"/probes", int64(len(allProbes)))
	np := len(allProbes)
	member := make([][]bool, n)
	for i := range member {
		member[i] = make([]bool, np)
	}
	const chunk = 64
	nch := (np + chunk - 1) / chunk
	c.ParallelFor(n*nch, func(k int) {
		i, ch := k/nch, k%nch
		for q := ch * chunk; q < np && q < (ch+1)*chunk; q++ {
			if ps[i].IsFull() {
				member[i][q] = true
			} else {
				member[i][q] = refmodel.PolygonContains(refs[i], allProbes[q])
			}
		}
	})
	// per polygon: Validate, the shape contract of the cumulative-edge lookup, ContainsPoint
	var edgeChecks, pointChecks atomic.Int64
	c.ParallelFor(n, func(i int) {
		if c.Skip(sub+"-single", i) {
			return
		}
		cas := []int{i}
		detail := func() any { return map[string]any{"polygon": cat[i].name, "loops": ps[i].NumLoops()} }
		c.Guard(sub, cas, detail, func() {
			for which, pg := range []*s2.Polygon{ps[i], comps[i]} {
				if err := pg.Validate(); err != nil {
					c.Violate(sub, "wrong-answer", "Polygon.Validate rejects a valid catalogue polygon (or its complement)", cas, map[string]any{"polygon": cat[i].name, "complement": which == 1, "error": err.Error()})
				}
				if pg.IsFull() || pg.IsEmpty() {
					continue
				}
				if pg.NumChains() != pg.NumLoops() {
					c.Violate(sub, "wrong-answer", "Polygon.NumChains differs from NumLoops", cas, detail())
				}
				e := 0
				for li, l := range pg.Loops() {
					nv := l.NumVertices()
					if ch := pg.Chain(li); ch.Start != e || ch.Length != nv {
						c.Violate(sub, "wrong-answer", "Polygon.Chain(i) is not (sum of the earlier loops' edge counts, edge count of loop i)", cas, map[string]any{"polygon": cat[i].name, "complement": which == 1, "chain": li, "got": []int{ch.Start, ch.Length}, "want": []int{e, nv}})
					}
					for off := 0; off < nv; off++ {
						edgeChecks.Add(1)
						v0, v1 := l.Vertex(off), l.Vertex(off+1)
						if l.IsHole() {
							v0, v1 = l.Vertex(nv-1-off), l.Vertex((2*nv-2-off)%nv)
						}
						want := s2.Edge{V0: v0, V1: v1}
						if got := pg.Edge(e + off); got != want {
							c.Violate(sub, "wrong-answer", "Polygon.Edge(e) is not the edge of the loop and offset that e addresses (holes reversed)", cas, map[string]any{"polygon": cat[i].name, "complement": which == 1, "edge": e + off, "loop": li, "offset": off})
						}
						if got := pg.ChainEdge(li, off); got != want {
							c.Violate(sub, "wrong-answer", "Polygon.ChainEdge(i, j) is not edge j of loop i (holes reversed)", cas, map[string]any{"polygon": cat[i].name, "complement": which == 1, "loop": li, "offset": off})
						}
						if got := pg.ChainPosition(e + off); got.ChainID != li || got.Offset != off {
							c.Violate(sub, "wrong-answer", "Polygon.ChainPosition(e) is not (loop, offset) of edge e", cas, map[string]any{"polygon": cat[i].name, "complement": which == 1, "edge": e + off, "got": []int{got.ChainID, got.Offset}, "want": []int{li, off}})
						}
					}
					e += nv
				}
				if pg.NumEdges() != e {
					c.Violate(sub, "wrong-answer", "Polygon.NumEdges differs from the sum of the loops' vertex counts", cas, detail())
				}
				for q, p := range allProbes {
					pointChecks.Add(1)
					if got, want := pg.ContainsPoint(p), member[i][q] != (which == 1); got != want {
						c.Violate(sub, "wrong-answer", "Polygon.ContainsPoint differs from the exact crossing parity over all loops (polygon with many loops / touching holes, or its complement)", cas, map[string]any{"polygon": cat[i].name, "complement": which == 1, "p": ptStr(p), "got": got, "want": want})
						break
					}
				}
			}
		})
	})
	c.Count(sub+"/edges_checked_against_the_definition", edgeChecks.Load())
	c.Count(sub+"/contains_point_checks", pointChecks.Load())
	var pairs, nontriv atomic.Int64
	c.ParallelFor(n*n, func(k int) {
		ai, bi := k/n, k%n
		if c.Skip(sub, ai, bi) || c.Expired() {
			return
		}
		cas := []int{ai, bi}
		detail := func() any { return map[string]any{"A": cat[ai].name, "B": cat[bi].name} }
		c.Guard(sub, cas, detail, func() {
			pairs.Add(1)
			A, B := ps[ai], ps[bi]
			if A.NumLoops() > 1 || B.NumLoops() > 1 {
				nontriv.Add(1)
			}
			contains, intersects := A.Contains(B), A.Intersects(B)
			if intersects != B.Intersects(A) {
				c.Violate(sub, "wrong-answer", "Polygon.Intersects is not symmetric (many loops / touching holes)", cas, detail())
			}
			if ai == bi && (!contains || (!intersects && !A.IsEmpty())) {
				c.Violate(sub, "wrong-answer", "a polygon does not contain / intersect itself (many loops / touching holes)", cas, detail())
			}
			if got := comps[ai].Contains(B); intersects == got {
				c.Violate(sub, "wrong-answer", "polygons: 'A intersects B iff the complement of A does not contain B' is violated (many loops / touching holes)", cas, detail())
			}
			if got := comps[bi].Contains(comps[ai]); contains != got {
				c.Violate(sub, "wrong-answer", "polygons: A.Contains(B) != complement(B).Contains(complement(A)) (many loops / touching holes)", cas, detail())
			}
			if contains && !intersects && !B.IsEmpty() {
				c.Violate(sub, "wrong-answer", "polygon A contains a non-empty B but does not intersect it (many loops / touching holes)", cas, detail())
			}
			for q, p := range allProbes {
				inA, inB := member[ai][q], member[bi][q]
				if contains && inB && !inA {
					c.Violate(sub, "wrong-answer", "Polygon A.Contains(B) is true but a point of B lies outside A (many loops / touching holes)", cas, map[string]any{"A": cat[ai].name, "B": cat[bi].name, "p": ptStr(p)})
					return
				}
				if !intersects && inA && inB {
					c.Violate(sub, "wrong-answer", "Polygon A.Intersects(B) is false but a point lies in both (many loops / touching holes)", cas, map[string]any{"A": cat[ai].name, "B": cat[bi].name, "p": ptStr(p)})
					return
				}
			}
		})
	})
	if c.Expired() {
		c.CapHit("cov-polygons pair sweep: wall budget reached")
	}
	c.Eval(int(pairs.Load()) + n)
	c.Nontrivial(int(nontriv.Load()))
	c.Count(sub+"/ordered_pairs", pairs.Load())
	c.Count(sub+"/ordered_pairs_with_a_multi_loop_operand", nontriv.Load())
	if many < 3 {
		panic(core.HarnessError("cov-polygons: fewer than 3 polygons with more than 12 loops"))
	}
	c.Sample(map[string]any{"sub": sub, "A": cat[1].name, "B": cat[0].name})
}

// ---------------------------------------------------------------------------------------------
// Sub-check "cov-invert-ties": polygons whose shells are exact mirror / rotation images of one
// another (bit-identical turning angles), in every input order.  Invert must produce the complement
// (exact membership of every probe flips) and, as the comment in Invert promises, the result must not
// depend on the input order of the loops.

func c07covInvertTies(c *core.Ctx) {
	sub := "cov-invert-ties"
	type xf struct {
		name string
		f    func(r3.Vector) r3.Vector
	}
	xfs := []xf{
		{"identity", func(v r3.Vector) r3.Vector { return v }},
		{"rotation by 90 deg about z", func(v r3.Vector) r3.Vector { return r3.Vector{X: -v.Y, Y: v.X, Z: v.Z} }},
		{"rotation by 180 deg about z", func(v r3.Vector) r3.Vector { return r3.Vector{X: -v.X, Y: -v.Y, Z: v.Z} }},
		{"rotation by 270 deg about z", func(v r3.Vector) r3.Vector { return r3.Vector{X: v.Y, Y: -v.X, Z: v.Z} }},
		{"rotation by 180 deg about x", func(v r3.Vector) r3.Vector { return r3.Vector{X: v.X, Y: -v.Y, Z: -v.Z} }},
	}
	bases := []struct {
		name string
		v    []s2.Point
	}{
		{"regular pentagon r=3deg at (20,30)", s2.RegularLoop(lattice.LL(20, 30), lattice.Deg(3), 5).Vertices()},
		{"irregular quadrilateral near (20,30)", []s2.Point{lattice.LL(18, 28), lattice.LL(18, 33), lattice.LL(23, 31), lattice.LL(21, 27)}},
		{"regular 12-gon r=8deg at (35,40)", s2.RegularLoop(lattice.LL(35, 40), lattice.Deg(8), 12).Vertices()},
	}
	var evals, ties, orders int64
	for bi, b := range bases {
		fam := &c07covFamily{name: b.name}
		for _, x := range xfs {
			var v []s2.Point
			for _, p := range b.v {
				v = append(v, s2.Point{Vector: x.f(p.Vector)})
			}
			fam.loops = append(fam.loops, c07covNewLoop(x.name, v))
		}
		c07covRelate(c, fam)
		ta := make([]float64, len(fam.loops))
		for i := range fam.loops {
			ta[i] = c07covLoopOf(fam.loops[i].v).TurningAngle()
		}
		var probes []s2.Point
		for i := range fam.loops {
			probes = append(probes, fam.loops[i].v...)
			probes = append(probes, fam.loops[i].mid...)
		}
		probes = lattice.Dedup(append(probes, lattice.PStruct(0)...))
		mem := make([][]bool, len(fam.loops)) // exact membership of every probe in every image, once
		c.ParallelFor(len(fam.loops), func(i int) {
			mem[i] = make([]bool, len(probes))
			for q, p := range probes {
				mem[i][q] = fam.loops[i].ref.Contains(p)
			}
		})
		maxK := core.Pick(c, 3, 4)
		for k := 2; k <= maxK; k++ {
			si := 0
			c07covSubsets(len(fam.loops), k, func(s []int) {
				si++
				for _, i := range s {
					for _, j := range s {
						if i != j && fam.rel[i][j] != c07covDisjoint {
							panic(core.HarnessError("cov-invert-ties: the images of the base loop are not disjoint"))
						}
					}
				}
				tie := false
				for _, i := range s {
					for _, j := range s {
						if i != j && ta[i] == ta[j] {
							tie = true
						}
					}
				}
				if tie {
					ties++
				}
				first := -1
				oi := 0
				permute(s, func(order []int) {
					oi++
					if c.Skip(sub, bi, k, si, oi) {
						return
					}
					cas := []int{bi, k, si, oi}
					var names []string
					for _, i := range order {
						names = append(names, fam.loops[i].name)
					}
					detail := func() any { return map[string]any{"base": b.name, "input_order": names} }
					c.Guard(sub, cas, detail, func() {
						evals++
						orders++
						var ls []*s2.Loop
						for _, i := range order {
							ls = append(ls, c07covLoopOf(fam.loops[i].v))
						}
						pg := s2.PolygonFromLoops(ls)
						pg.Invert()
						if err := pg.Validate(); err != nil {
							c.Violate(sub, "wrong-answer", "Polygon.Validate rejects the complement of a polygon of disjoint congruent shells", cas, map[string]any{"base": b.name, "input_order": names, "error": err.Error()})
						}
						// which shell was inverted?
						inverted := -1
						if pg.NumLoops() == len(order) {
							l0 := pg.Loop(0)
							for _, i := range order {
								if l0.BoundaryEqual(c07covLoopOf(c07covReverse(fam.loops[i].v))) {
									inverted = i
								}
							}
						}
						if inverted < 0 {
							c.Violate(sub, "wrong-answer", "after Polygon.Invert the first loop is not the reversal of one of the shells", cas, detail())
							return
						}
						if first < 0 {
							first = inverted
						} else if inverted != first {
							c.Violate(sub, "wrong-answer", "Polygon.Invert of shells with equal turning angles inverts a different shell depending on the input order of the loops", cas, map[string]any{"base": b.name, "input_order": names, "inverted": fam.loops[inverted].name, "inverted_in_first_order": fam.loops[first].name})
						}
						for q, p := range probes {
							in := false
							for _, i := range order {
								if mem[i][q] {
									in = !in
								}
							}
							if pg.ContainsPoint(p) == in {
								c.Violate(sub, "wrong-answer", "after Polygon.Invert a point has the same membership as before", cas, map[string]any{"base": b.name, "input_order": names, "p": ptStr(p)})
								break
							}
						}
						pg.Invert()
						for q, p := range probes {
							in := false
							for _, i := range order {
								if mem[i][q] {
									in = !in
								}
							}
							if pg.ContainsPoint(p) != in {
								c.Violate(sub, "wrong-answer", "inverting a polygon twice does not restore the membership of a point", cas, map[string]any{"base": b.name, "input_order": names, "p": ptStr(p)})
								break
							}
						}
					})
				})
			})
		}
	}
	c.Eval(int(evals))
	c.Nontrivial(int(ties))
	c.Count(sub+"/polygons_inverted", orders)
	c.Count(sub+"/shell_sets_with_bit_identical_turning_angles", ties)
	if ties == 0 && c.OnlySub == "" {
		panic(core.HarnessError("cov-invert-ties: no two shells have identical turning angles"))
	}
}

// ---------------------------------------------------------------------------------------------
// Sub-check "cov-polyline-intersects": all ordered pairs of polylines with 2..k vertices over a
// lat/lng grid that contains exactly collinear triples.  Documented: polylines that share a vertex
// intersect; an endpoint touching the other polyline may be reported either way.  Reference: exact
// determinant signs per edge pair; a pair of polylines with a shared vertex or a proper crossing must
// intersect, a pair whose edges are all exactly apart must not; pairs whose only contact is a vertex
// lying exactly on the other's edge are not constrained.

const (
	c07covApart = 0
	c07covMeet  = 1
	c07covTouch = 2
)

func c07covEdgePair(a, b, p, q s2.Point) int {
	if a == p || a == q || b == p || b == q {
		return c07covMeet
	}
	s1 := refmodel.ExactDetSign(a, b, p)
	s2_ := refmodel.ExactDetSign(a, b, q)
	s3 := refmodel.ExactDetSign(p, q, a)
	s4 := refmodel.ExactDetSign(p, q, b)
	if s1 != 0 && s2_ != 0 && s3 != 0 && s4 != 0 {
		// AB crosses CD iff the triangles ACB, CBD, BDA, DAC have the same orientation
		if -s1 == -s4 && -s4 == s2_ && s2_ == s3 {
			return c07covMeet
		}
		return c07covApart
	}
	if c07covOnArc(a, b, p) || c07covOnArc(a, b, q) || c07covOnArc(p, q, a) || c07covOnArc(p, q, b) {
		return c07covTouch
	}
	return c07covApart
}

func c07covPolylines(c *core.Ctx) {
	sub := "cov-polyline-intersects"
	type lat struct {
		name string
		pts  []s2.Point
		maxV int
	}
	grid := func(lats, lngs []float64) []s2.Point {
		var out []s2.Point
		for _, la := range lats {
			for _, lo := range lngs {
				out = append(out, lattice.LL(la, lo))
			}
		}
		return out
	}
	lats := []lat{{"3x3 grid, 2..3 vertices", grid([]float64{-10, 0, 10}, []float64{-10, 0, 10}), 3}}
	if !c.Quick() {
		lats = []lat{{"3x3 grid, 2..4 vertices", grid([]float64{-10, 0, 10}, []float64{-10, 0, 10}), 4},
			{"3x4 grid, 2..3 vertices", grid([]float64{-10, 0, 10}, []float64{-10, 0, 10, 20}), 3}}
	}
	var evals, meet, apart, free, gotTrue atomic.Int64
	for li, lt := range lats {
		li, lt := li, lt
		np := len(lt.pts)
		// edge-pair table
		tab := make([]int8, np*np*np*np)
		c.ParallelFor(np*np, func(k int) {
			a, b := k/np, k%np
			if a == b {
				return
			}
			for p := 0; p < np; p++ {
				for q := 0; q < np; q++ {
					if p != q {
						tab[((a*np+b)*np+p)*np+q] = int8(c07covEdgePair(lt.pts[a], lt.pts[b], lt.pts[p], lt.pts[q]))
					}
				}
			}
		})
		var lines [][]int
		var rec func(cur []int)
		rec = func(cur []int) {
			if len(cur) >= 2 {
				lines = append(lines, append([]int(nil), cur...))
			}
			if len(cur) == lt.maxV {
				return
			}
			for i := 0; i < np; i++ {
				if len(cur) > 0 && cur[len(cur)-1] == i {
					continue
				}
				rec(append(cur, i))
			}
		}
		rec(nil)
		pls := make([]*s2.Polyline, len(lines))
		for i, ln := range lines {
			pl := make(s2.Polyline, len(ln))
			for k, x := range ln {
				pl[k] = lt.pts[x]
			}
			pls[i] = &pl
		}
		c.Count(sub+"/polylines", int64(len(lines)))
		c.ParallelFor(len(lines), func(i int) {
			if c.Expired() {
				return
			}
			var nm, na, nf, nt int64
			for j := range lines {
				if c.Skip(sub, li, i, j) {
					continue
				}
				cls := c07covApart
				A, B := lines[i], lines[j]
			scan:
				for x := 0; x+1 < len(A); x++ {
					for y := 0; y+1 < len(B); y++ {
						switch tab[((A[x]*np+A[x+1])*np+B[y])*np+B[y+1]] {
						case c07covMeet:
							cls = c07covMeet
							break scan
						case c07covTouch:
							cls = c07covTouch
						}
					}
				}
				var got bool
				cas := []int{li, i, j}
				detail := func() any {
					return map[string]any{"lattice": lt.name, "A": ptsStr(*pls[i]), "B": ptsStr(*pls[j])}
				}
				c.Guard(sub, cas, detail, func() { got = pls[i].Intersects(pls[j]) })
				if got {
					nt++
				}
				switch cls {
				case c07covMeet:
					nm++
					if !got {
						c.Violate(sub, "wrong-answer", "Polyline.Intersects is false for polylines that share a vertex or whose edges properly cross (exact reference)", cas, detail())
					}
				case c07covApart:
					na++
					if got {
						c.Violate(sub, "wrong-answer", "Polyline.Intersects is true for polylines none of whose edge pairs touch or cross (exact reference)", cas, detail())
					}
				default:
					nf++
				}
			}
			evals.Add(int64(len(lines)))
			meet.Add(nm)
			apart.Add(na)
			free.Add(nf)
			gotTrue.Add(nt)
		})
		if c.Expired() {
			c.CapHit("cov-polyline-intersects: wall budget reached")
		}
		// the degenerate polylines: no panic, the empty polyline intersects nothing
		empty := s2.Polyline{}
		single := s2.Polyline{lt.pts[0]}
		c.Guard(sub, nil, nil, func() {
			for _, pl := range pls[:core.Pick(c, 50, 200)] {
				if empty.Intersects(pl) || pl.Intersects(&empty) {
					c.Violate(sub, "wrong-answer", "the empty polyline intersects a polyline", nil, nil)
				}
				single.Intersects(pl)
				pl.Intersects(&single)
			}
		})
	}
	c.Eval(int(evals.Load()))
	c.Nontrivial(int(meet.Load()))
	c.Count(sub+"/pairs", evals.Load())
	c.Count(sub+"/pairs_that_must_intersect", meet.Load())
	c.Count(sub+"/pairs_that_must_not_intersect", apart.Load())
	c.Count(sub+"/pairs_touching_only_unconstrained", free.Load())
	c.Count(sub+"/pairs_reported_intersecting", gotTrue.Load())
	if (meet.Load() == 0 || apart.Load() == 0 || free.Load() == 0) && c.OnlySub == "" && !c.Expired() {
		panic(core.HarnessError("cov-polyline-intersects: a class of pairs is missing"))
	}
	c.Sample(map[string]any{"sub": sub, "grid": "lat,lng in {-10,0,10} deg", "vertices": "2..3 (quick), 2..4 (thorough)"})
}
