package checks

// C10 — coverage-guided extension.
//
// A statement-coverage measurement of golang/geo under all checks showed code behind C10 that no
// lattice element reached: the degenerate branches of ConvexHullQuery (no geometry, one point, one
// edge, duplicates, exactly antipodal points, empty / full loops and polygons as input, more than a
// hemisphere), ShapeIndexRegion over indexes of every face count (empty index, one leaf cell, one
// face cell, every subset of the six faces), Rect.CapBound over every class of rectangle, the cell
// bounds at face corners / centres of all levels, the CellUnion bounds of the empty union, of single
// leaves and of unions over several faces, and the empty-cap branches of Cap.AddPoint / AddCap /
// RectBound.  The sub-checks below walk explicit finite lattices over those inputs.
//
//   cov-hull-degenerate   ConvexHullQuery: what the documentation of ConvexHull promises for 0, 1, 2
//                         points and single edges (three vertices, a superset of the input; the full
//                         loop for exactly antipodal points), for input that no hemisphere holds (exact
//                         test: the full loop), for empty / full loops and polygons, for exactly
//                         collinear input; for every non-full result convexity by exact signs, "every
//                         input point is a vertex or contained", every vertex is an input point, and
//                         RectBound / CapBound / CellUnionBound of the RETURNED loop and the CapBound of
//                         the QUERY contain the input points
//   cov-index-region      ShapeIndexRegion.CellUnionBound / RectBound / CapBound over indexes on every
//                         subset of the six faces and on single leaf / face cells: valid cell ids, the
//                         documented cell counts (<= 4 on one face, <= 6), every index cell (read through
//                         the index iterator) lies in a bound cell, every vertex, edge point and interior
//                         point of every indexed shape is inside the three bounds
//   cov-rect-capbound     Rect.CapBound / RectBound / CellUnionBound over the product of a latitude and a
//                         longitude alphabet (empty, full, polar, > 180 degrees, across the antimeridian,
//                         points, lines)
//   cov-cell-bounds       Cell.RectBound / CapBound / CellUnionBound for the cells of all 31 levels at
//                         the corners, the edge midpoints and the centre of every face
//   cov-cellunion-bounds  CellUnion.RectBound / CapBound / CellUnionBound for the empty union, single
//                         leaves, every subset of the face cells, one cell per face over every subset of
//                         faces, complete sets of descendants, the cells around every cube vertex
//   cov-cap-degenerate    the documented behaviour of Cap.AddPoint / AddCap with an empty cap
//
// Cap-shaped bounds are judged the way the recorded finding D24 requires: they carry no rounding pad,
// so a miss of at most 4e-15 in chord length is counted ("cap_misses_within_rounding"), only a larger
// miss is a violation.  Rectangular bounds are strict wherever the library documents the padding
// (vertices of loops and cells), and use the same 4e-15 rad level for points that are on an edge only
// up to rounding.

import (
	"fmt"
	"math"
	"sort"
	"sync"
	"time"

	"github.com/golang/geo/r1"
	"github.com/golang/geo/r3"
	"github.com/golang/geo/s1"
	"github.com/golang/geo/s2"

	"verif/mc/core"
	"verif/mc/exact"
	"verif/mc/lattice"
	"verif/mc/refmodel"
)

const (
	c10vHull  = "cov-hull-degenerate"
	c10vIndex = "cov-index-region"
	c10vRect  = "cov-rect-capbound"
	c10vCell  = "cov-cell-bounds"
	c10vUnion = "cov-cellunion-bounds"
	c10vCap   = "cov-cap-degenerate"
)

func init() {
	ck := Registry["C10"]
	if ck == nil {
		panic("c10_cov.go: C10 is not registered (file order)")
	}
	run := ck.Run
	ck.Run = func(c *core.Ctx) {
		run(c)
		c10Cov(c)
	}
}

// c10vCounters collects named counters of one sub-check.
type c10vCounters struct {
	mu sync.Mutex
	m  map[string]int64
}

func (k *c10vCounters) add(name string, n int64) {
	k.mu.Lock()
	if k.m == nil {
		k.m = map[string]int64{}
	}
	k.m[name] += n
	k.mu.Unlock()
}

func (k *c10vCounters) get(name string) int64 {
	k.mu.Lock()
	defer k.mu.Unlock()
	return k.m[name]
}

func (k *c10vCounters) flush(c *core.Ctx, sub string) {
	k.mu.Lock()
	defer k.mu.Unlock()
	var names []string
	for n := range k.m {
		names = append(names, n)
	}
	sort.Strings(names)
	for _, n := range names {
		c.Count(sub+"/"+n, k.m[n])
	}
}

// c10vCapMiss: 0 = the cap contains p (the library's own distance test), 1 = p is outside by at most
// 4e-15 in chord length (finding D24: no rounding pad), 2 = outside by more.
func c10vCapMiss(cb s2.Cap, p s2.Point) int {
	if cb.ContainsPoint(p) {
		return 0
	}
	if c10CapGross(cb, p) {
		return 2
	}
	return 1
}

// c10vRectMiss: 0 = inside, 1 = outside by at most 4e-15 rad, 2 = outside by more.
func c10vRectMiss(rb s2.Rect, ll s2.LatLng) int {
	if rb.ContainsLatLng(ll) {
		return 0
	}
	if c10RectExcess(rb, ll) > c10RectUlpLevel {
		return 2
	}
	return 1
}

func c10vCells(ids []s2.CellID) []s2.Cell {
	out := make([]s2.Cell, 0, len(ids))
	for _, id := range ids {
		if id.IsValid() {
			out = append(out, s2.CellFromCellID(id))
		}
	}
	return out
}

func c10vCovered(cells []s2.Cell, p s2.Point) bool {
	for _, cl := range cells {
		if cl.ContainsPoint(p) {
			return true
		}
	}
	return false
}

func c10vTokens(ids []s2.CellID) []string {
	var t []string
	for _, id := range ids {
		if id.IsValid() {
			t = append(t, id.ToToken())
		} else {
			t = append(t, fmt.Sprintf("invalid:%#x", uint64(id)))
		}
	}
	return t
}

func c10vRectStr(r s2.Rect) map[string]any {
	return map[string]any{"lat": []float64{r.Lat.Lo, r.Lat.Hi}, "lng": []float64{r.Lng.Lo, r.Lng.Hi}}
}

func c10vRaw(x, y, z float64) s2.Point { return s2.Point{Vector: r3.Vector{X: x, Y: y, Z: z}} }

func c10vN1(x, y, z float64) s2.Point {
	n := r3.Vector{X: x, Y: y, Z: z}.Norm()
	return s2.Point{Vector: r3.Vector{X: x / n, Y: y / n, Z: z / n}}
}

func c10vNeg(p s2.Point) s2.Point { return s2.Point{Vector: r3.Vector{X: -p.X, Y: -p.Y, Z: -p.Z}} }

// c10vBoundJudge judges the three bounds of one object against a list of points the object contains.
type c10vBoundJudge struct {
	c      *core.Ctx
	sub    string
	cas    []int
	what   string // "Cell", "CellUnion", "the loop returned by ConvexHull", ...
	detail func() map[string]any
	k      *c10vCounters
	rb     s2.Rect
	cb     s2.Cap
	cub    []s2.CellID
	cells  []s2.Cell
}

// point judges one contained point.  rectStrict: the rectangle must contain the computed
// latitude/longitude exactly (otherwise only a miss above 4e-15 rad is reported).  capStrict: the cap
// must contain the point by the library's own distance test (used only where the documentation of
// Cap.AddPoint promises it); otherwise only a miss above 4e-15 in chord length is reported.
func (j *c10vBoundJudge) point(p s2.Point, role string, rectStrict, capStrict bool) {
	j.k.add("points_judged", 1)
	ll := s2.LatLngFromPoint(p)
	mk := func() map[string]any {
		d := j.detail()
		d["point"] = lattice.GeoPt(p)
		d["point_role"] = role
		d["point_lat_lng"] = []float64{ll.Lat.Radians(), ll.Lng.Radians()}
		d["rect_bound"] = c10vRectStr(j.rb)
		d["cap_bound"] = j.cb.String()
		d["cell_union_bound"] = c10vTokens(j.cub)
		return d
	}
	switch m := c10vRectMiss(j.rb, ll); {
	case m == 2:
		d := mk()
		d["excess_rad"] = c10RectExcess(j.rb, ll)
		j.c.Violate(j.sub, "wrong-answer", "bound too small by more than rounding (over 4e-15 rad): RectBound of "+j.what+" misses the latitude/longitude of "+role, j.cas, d)
	case m == 1 && rectStrict:
		d := mk()
		d["excess_rad"] = c10RectExcess(j.rb, ll)
		j.c.Violate(j.sub, "wrong-answer", "RectBound of "+j.what+" does not contain the computed latitude/longitude of "+role, j.cas, d)
	case m == 1:
		j.k.add("rect_misses_within_rounding_of_points_known_only_up_to_rounding", 1)
	}
	switch m := c10vCapMiss(j.cb, p); {
	case m == 2:
		d := mk()
		d["squared_chord_to_cap_center"] = float64(s2.ChordAngleBetweenPoints(j.cb.Center(), p))
		d["cap_squared_chord_radius"] = 2 * j.cb.Height()
		j.c.Violate(j.sub, "wrong-answer", "bound too small by more than rounding (over 4e-15 in chord length): CapBound of "+j.what+" misses "+role, j.cas, d)
	case m == 1 && capStrict:
		d := mk()
		d["squared_chord_to_cap_center"] = float64(s2.ChordAngleBetweenPoints(j.cb.Center(), p))
		d["cap_squared_chord_radius"] = 2 * j.cb.Height()
		j.c.Violate(j.sub, "wrong-answer", "CapBound of "+j.what+" does not contain "+role+" although the cap was grown with Cap.AddPoint of that very point", j.cas, d)
	case m == 1:
		j.k.add("cap_misses_within_rounding", 1)
	}
	if !c10CapContainsExact(j.cb, p) {
		j.k.add("cap_misses_in_exact_arithmetic", 1)
	}
	if !c10vCovered(j.cells, p) {
		j.c.Violate(j.sub, "wrong-answer", "CellUnionBound of "+j.what+" does not cover "+role, j.cas, mk())
	}
}

func c10Cov(c *core.Ctx) {
	run := func(sub string) bool { return c.OnlySub == "" || c.OnlySub == sub }
	c.Rule += "  Coverage-guided sub-checks: cov-hull-degenerate: every ConvexHullQuery input of the degenerate lattice (no geometry / empty and full loops and polygons; every point of the alphabet 1-3 times through AddPoint / AddPolyline; every ordered pair of the alphabet plus each point's exact antipode, near-antipodes at 1e-15 and 1e-7, ulp-neighbours, as two points / one polyline edge / an edge with duplicates; every subset of >= 3 of 6-7 exactly collinear points on 4 great circles in two orders; every subset of 3..6 (thorough 8) of the 6 axis points and 8 cube corners; regular loops and polygons with holes / two shells through AddLoop / AddPolygon); non-trivial = inputs with at least one point.  cov-index-region: every index of the catalogue (empty; one point, 12 and 25 coincident points, a tiny and a 0.1 rad loop, a 0.6 rad polyline on every non-empty subset of the six faces (thorough: also 0.5 rad off the face centres); piles of coincident points and single points at face centres, cube corners, face-edge midpoints; one wide edge per face; loops around all 8 cube vertices; polylines across all 12 cube edges; equator / meridian chains; loops larger than a hemisphere; the full polygon) x every vertex, edge point (quarter points) and exactly contained structural point; non-trivial = points judged.  cov-rect-capbound: every valid rectangle of latitude alphabet^2 x longitude alphabet^2 x (4 vertices, centre, edge midpoints in latitude and longitude, 3x5 grid, poles when reached) filtered by Rect.ContainsPoint; non-trivial = points judged.  cov-cell-bounds: cells of levels 0..30 at the corner / edge-middle / centre / quarter leaf positions of every face (8x8 positions quick, 14x14 thorough) x (4 vertices, centre, 4 edge midpoints); non-trivial = points judged.  cov-cellunion-bounds: every union of the catalogue (empty, single leaves and cells, one cell on each face of every subset of the six faces in 4 (thorough 7) size variants, complete sets of children and grandchildren, the cells around cube vertices and across cube edges) x (4 vertices + centre of every member cell before and after Normalize; structural points for the whole sphere); non-trivial = points judged.  cov-cap-degenerate: every (point, cap) of the alphabet for Cap.AddPoint / AddCap with an empty operand; non-trivial = laws evaluated."
	c.Assume = append(c.Assume,
		"coverage sub-checks: a cap-shaped bound that loses a point by at most 4e-15 in chord length is counted, not reported (recorded finding D24: cap bounds carry no rounding pad); a rectangular bound is strict for vertices and for points contained by exact arithmetic, and uses the 4e-15 rad level for edge points that are on the edge only up to rounding",
		"cov-hull-degenerate: 'no hemisphere holds the input' is decided exactly (a closed hemisphere holds a point set of rank 3 iff one with a boundary through two of the points does); hull containment is the exact reference loop as in convex-hull",
		"cov-index-region: the index cells are read with ShapeIndex.Iterator, which shares no code with ShapeIndexRegion",
	)
	phases := map[string]float64{}
	t0 := time.Now()
	lap := func(name string) {
		phases[name] = time.Since(t0).Seconds()
		t0 = time.Now()
	}
	if run(c10vHull) {
		c10vHullDegenerate(c)
		lap(c10vHull)
	}
	if run(c10vIndex) {
		c10vIndexRegion(c)
		lap(c10vIndex)
	}
	if run(c10vRect) {
		c10vRectCapBound(c)
		lap(c10vRect)
	}
	if run(c10vCell) {
		c10vCellBounds(c)
		lap(c10vCell)
	}
	if run(c10vUnion) {
		c10vCellUnionBounds(c)
		lap(c10vUnion)
	}
	if run(c10vCap) {
		c10vCapDegenerate(c)
		lap(c10vCap)
	}
	c.Note("cov_phase_wall_seconds", phases)
}

// ---- cov-hull-degenerate ------------------------------------------------------------------------------

const (
	c10vExpGeneric = iota // full, or a convex loop that holds every input point
	c10vExpEmpty          // documented: no geometry -> the empty loop
	c10vExpFull           // must be the full loop
)

type c10vHullCase struct {
	name    string
	class   string
	build   func(q *s2.ConvexHullQuery)
	pts     []s2.Point // every point that was added (vertices of everything added)
	expect  int
	nonFull bool   // the documentation promises a loop that is not full
	why     string // for expect / nonFull
}

func c10vHasAntipodalPair(pts []s2.Point) bool {
	for i := range pts {
		for j := i + 1; j < len(pts); j++ {
			if antipodal(pts[i], pts[j]) {
				return true
			}
		}
	}
	return false
}

// c10vInClosedHemisphere decides exactly whether some closed hemisphere holds all points.
func c10vInClosedHemisphere(pts []s2.Point) bool {
	ev := make([]exact.V, len(pts))
	for i, p := range pts {
		ev[i] = exact.FromVector(p.Vector)
	}
	spanned := false
	for i := range ev {
		for j := i + 1; j < len(ev); j++ {
			n := ev[i].Cross(ev[j])
			if n.IsZero() {
				continue
			}
			spanned = true
			pos, neg := true, true
			for _, q := range ev {
				switch n.Dot(q).Sign() {
				case -1:
					pos = false
				case 1:
					neg = false
				}
			}
			if pos || neg {
				return true
			}
		}
	}
	return !spanned // all points parallel or antiparallel: they lie on a great circle
}

func c10vHullAlphabet(c *core.Ctx) []s2.Point {
	out := []s2.Point{
		c10vRaw(1, 0, 0), c10vRaw(0, 1, 0), c10vRaw(0, 0, 1), c10vRaw(0, 0, -1), c10vRaw(-1, 0, 0),
		c10vN1(1, 1, 1), c10vN1(-1, 1, -1), c10vN1(1, 1, 0), c10vN1(0, -1, 1),
		lattice.LL(37.3, -122.1), lattice.LL(-89.9999, 10), lattice.LL(0, 180), lattice.LL(10, -179.9999999), lattice.LL(89.999999999, -60),
		c10vRaw(1, 1e-300, 0), c10vRaw(1e-9, 0, 1), c10vN1(1, 0.1, 0),
	}
	if !c.Quick() {
		out = append(out, lattice.LL(45, 45), lattice.LL(-45, 135), c10vRaw(0, -1, 0), c10vN1(1, -1, -1), c10vN1(3, 4, 12), lattice.LL(0.0000001, 60),
			c10vRaw(5e-324, 1, 0), lattice.LL(-33.9, 151.2), lattice.LL(60, 179.99999999), c10vRaw(-0.8, 0, 0.6), c10vRaw(0.6, 0, -0.8))
	}
	return lattice.Dedup(out)
}

func c10vHullCases(c *core.Ctx) []c10vHullCase {
	var out []c10vHullCase
	add := func(h c10vHullCase) { out = append(out, h) }
	cp := func(v []s2.Point) []s2.Point { return append([]s2.Point(nil), v...) }
	loopOf := func(v []s2.Point) *s2.Loop { return s2.LoopFromPoints(cp(v)) }

	// no geometry
	for _, nb := range []struct {
		name string
		f    func(q *s2.ConvexHullQuery)
	}{
		{"nothing added", func(q *s2.ConvexHullQuery) {}},
		{"AddLoop(EmptyLoop)", func(q *s2.ConvexHullQuery) { q.AddLoop(s2.EmptyLoop()) }},
		{"AddPolygon(empty polygon)", func(q *s2.ConvexHullQuery) { q.AddPolygon(s2.PolygonFromLoops(nil)) }},
		{"AddPolyline(no vertices)", func(q *s2.ConvexHullQuery) { pl := s2.Polyline{}; q.AddPolyline(&pl) }},
		{"AddLoop(EmptyLoop) twice + AddPolygon(polygon of the empty loop)", func(q *s2.ConvexHullQuery) {
			q.AddLoop(s2.EmptyLoop())
			q.AddLoop(s2.EmptyLoop())
			q.AddPolygon(s2.PolygonFromLoops([]*s2.Loop{s2.EmptyLoop()}))
		}},
	} {
		add(c10vHullCase{name: "no geometry: " + nb.name, class: "no geometry", build: nb.f, expect: c10vExpEmpty, why: "ConvexHull documents: if there is no geometry, the empty loop"})
	}
	// the full loop / polygon as input
	g := lattice.LL(37.3, -122.1)
	for _, nb := range []struct {
		name string
		f    func(q *s2.ConvexHullQuery)
		pts  []s2.Point
	}{
		{"AddLoop(FullLoop)", func(q *s2.ConvexHullQuery) { q.AddLoop(s2.FullLoop()) }, nil},
		{"AddPolygon(FullPolygon)", func(q *s2.ConvexHullQuery) { q.AddPolygon(s2.FullPolygon()) }, nil},
		{"AddPoint + AddLoop(FullLoop)", func(q *s2.ConvexHullQuery) { q.AddPoint(g); q.AddLoop(s2.FullLoop()) }, []s2.Point{g}},
		{"AddLoop(FullLoop) + AddPoint", func(q *s2.ConvexHullQuery) { q.AddLoop(s2.FullLoop()); q.AddPoint(g) }, []s2.Point{g}},
		{"AddLoop(EmptyLoop) + AddPolygon(FullPolygon)", func(q *s2.ConvexHullQuery) { q.AddLoop(s2.EmptyLoop()); q.AddPolygon(s2.FullPolygon()) }, nil},
	} {
		add(c10vHullCase{name: "full input: " + nb.name, class: "full loop / polygon as input", build: nb.f, pts: nb.pts, expect: c10vExpFull, why: "every input loop is contained by the hull (documented); only the full loop contains the full loop"})
	}

	alpha := c10vHullAlphabet(c)
	// one point
	for ai, p := range alpha {
		p := p
		for m := 1; m <= 3; m++ {
			m := m
			add(c10vHullCase{name: fmt.Sprintf("point %d added %d time(s) with AddPoint", ai, m), class: "one point", pts: []s2.Point{p}, nonFull: true,
				why: "ConvexHull documents a very small three-vertex loop for one point",
				build: func(q *s2.ConvexHullQuery) {
					for k := 0; k < m; k++ {
						q.AddPoint(p)
					}
				}})
		}
		add(c10vHullCase{name: fmt.Sprintf("point %d as a one-vertex polyline", ai), class: "one point", pts: []s2.Point{p}, nonFull: true, why: "ConvexHull documents a very small three-vertex loop for one point",
			build: func(q *s2.ConvexHullQuery) { pl := s2.Polyline{p}; q.AddPolyline(&pl) }})
		add(c10vHullCase{name: fmt.Sprintf("point %d as a degenerate polyline (p,p) after AddLoop(EmptyLoop)", ai), class: "one point", pts: []s2.Point{p}, nonFull: true, why: "ConvexHull documents a very small three-vertex loop for one point",
			build: func(q *s2.ConvexHullQuery) { q.AddLoop(s2.EmptyLoop()); pl := s2.Polyline{p, p}; q.AddPolyline(&pl) }})
	}
	// two points / one edge
	for ai, a := range alpha {
		a := a
		partners := append([]s2.Point(nil), alpha...)
		na := c10vNeg(a)
		partners = append(partners, na)
		partners = append(partners, s2.Point{Vector: r3.Vector{X: lattice.Ulp(na.X, 1), Y: na.Y, Z: lattice.Ulp(na.Z, -1)}})
		partners = append(partners, c10vNeg(lattice.GeoCirclePoint(a, 1e-15, 0.3)), c10vNeg(lattice.GeoCirclePoint(a, 1e-7, 2.1)))
		partners = append(partners, s2.Point{Vector: r3.Vector{X: lattice.Ulp(a.X, 1), Y: lattice.Ulp(a.Y, -1), Z: a.Z}}, lattice.GeoCirclePoint(a, 1e-15, 1.0), lattice.GeoCirclePoint(a, 0.3, 4.0))
		partners = c10Unit(lattice.Dedup(partners))
		for bi, b := range partners {
			b := b
			if a == b {
				continue
			}
			pts := []s2.Point{a, b}
			h := c10vHullCase{pts: pts, class: "two points"}
			switch {
			case antipodal(a, b):
				h.class = "two exactly antipodal points"
				h.expect = c10vExpFull
				h.why = "a loop may not have adjacent antipodal vertices, so no three-vertex loop can have both points as vertices (singleEdgeLoop documents the full loop)"
			case a.Dot(b.Vector) >= 0.5:
				h.class = "two points within 60 degrees"
				h.nonFull = true
				h.why = "ConvexHull documents a three-vertex loop for two points / a single edge"
			}
			for variant := 0; variant < 3; variant++ {
				hh := h
				switch variant {
				case 0:
					hh.name = fmt.Sprintf("points %d and partner %d with AddPoint", ai, bi)
					hh.build = func(q *s2.ConvexHullQuery) { q.AddPoint(a); q.AddPoint(b) }
				case 1:
					hh.name = fmt.Sprintf("points %d and partner %d as one polyline edge", ai, bi)
					hh.build = func(q *s2.ConvexHullQuery) { pl := s2.Polyline{a, b}; q.AddPolyline(&pl) }
				case 2:
					hh.name = fmt.Sprintf("points %d and partner %d as polyline (a,b,a) + AddPoint(b)", ai, bi)
					hh.build = func(q *s2.ConvexHullQuery) { pl := s2.Polyline{a, b, a}; q.AddPolyline(&pl); q.AddPoint(b) }
				}
				add(hh)
			}
		}
	}
	// exactly collinear points (extent below 0.45 rad: the documented hull is not full)
	circles := []struct {
		name string
		pts  []s2.Point
	}{
		{"equator z=0", []s2.Point{c10vN1(12, -5, 0), c10vN1(12, -2, 0), c10vRaw(1, 0, 0), c10vN1(12, 1, 0), c10vN1(12, 3, 0), c10vN1(12, 5, 0)}},
		{"meridian plane y=0 through the north pole", []s2.Point{c10vN1(-3, 0, 10), c10vN1(-1, 0, 10), c10vRaw(0, 0, 1), c10vN1(1, 0, 10), c10vN1(2, 0, 10), c10vN1(3, 0, 10)}},
		{"plane x=y through a cube edge", []s2.Point{c10vN1(1, 1, -0.5), c10vN1(1, 1, -0.25), c10vN1(1, 1, 0), c10vN1(1, 1, 0.125), c10vN1(1, 1, 0.25), c10vN1(1, 1, 0.5)}},
		{"plane y=0 across the antimeridian", []s2.Point{c10vN1(-4, 0, -1), c10vN1(-8, 0, -1), c10vRaw(-1, 0, 0), c10vN1(-8, 0, 1), c10vN1(-4, 0, 1), c10vN1(-3, 0, 1)}},
	}
	if !c.Quick() {
		circles[0].pts = append(circles[0].pts, c10vRaw(1, 1e-300, 0))
		circles[1].pts = append(circles[1].pts, c10vRaw(1e-9, 0, 1))
	}
	for ci, cc := range circles {
		n := len(cc.pts)
		for m := 1; m < 1<<uint(n); m++ {
			var sel []s2.Point
			for i := 0; i < n; i++ {
				if m&(1<<uint(i)) != 0 {
					sel = append(sel, cc.pts[i])
				}
			}
			if len(sel) < 3 {
				continue
			}
			for order := 0; order < 2; order++ {
				in := cp(sel)
				if order == 1 {
					in = lattice.GeoReverse(in)
				}
				add(c10vHullCase{name: fmt.Sprintf("collinear on %s (circle %d), subset %#x, order %d", cc.name, ci, m, order), class: "three or more exactly collinear points", pts: in, nonFull: true,
					why: "the points lie within 0.45 rad of each other: the smallest convex region holding them is not the sphere",
					build: func(q *s2.ConvexHullQuery) {
						for _, p := range in {
							q.AddPoint(p)
						}
					}})
			}
		}
	}
	// axis points and cube corners: most subsets are held by no hemisphere
	var big []s2.Point
	for _, v := range [][3]float64{{1, 0, 0}, {-1, 0, 0}, {0, 1, 0}, {0, -1, 0}, {0, 0, 1}, {0, 0, -1}} {
		big = append(big, c10vRaw(v[0], v[1], v[2]))
	}
	for _, sx := range []float64{1, -1} {
		for _, sy := range []float64{1, -1} {
			for _, sz := range []float64{1, -1} {
				big = append(big, c10vN1(sx, sy, sz))
			}
		}
	}
	maxK := core.Pick(c, 6, 8)
	for m := 1; m < 1<<uint(len(big)); m++ {
		var sel []s2.Point
		for i := range big {
			if m&(1<<uint(i)) != 0 {
				sel = append(sel, big[i])
			}
		}
		if len(sel) < 3 || len(sel) > maxK {
			continue
		}
		in := sel
		add(c10vHullCase{name: fmt.Sprintf("axis points / cube corners subset %#x", m), class: "points spread over the sphere", pts: in,
			build: func(q *s2.ConvexHullQuery) {
				for _, p := range in {
					q.AddPoint(p)
				}
			}})
	}
	// loops and polygons
	centres := []s2.Point{c10vN1(1, 1, 1), lattice.LL(37.3, -122.1), lattice.LL(10, -179.99), c10vRaw(0, 0, 1), c10vRaw(1, 0, 0), lattice.LL(-89.5, 20)}
	for ci, ctr := range centres {
		for _, r := range []float64{1e-6, 0.1} {
			for _, n := range core.Pick(c, []int{3, 7}, []int{3, 4, 7, 20}) {
				v := lattice.GeoRegular(ctr, r, n, 0.1)
				hole := lattice.GeoRegular(ctr, r/3, 5, 0.4)
				second := lattice.GeoRegular(lattice.GeoCirclePoint(ctr, 3*r, 1), r/2, 4, 0)
				nm := fmt.Sprintf("centre %d r=%g n=%d", ci, r, n)
				add(c10vHullCase{name: "AddLoop " + nm, class: "loop", pts: v, nonFull: true, why: "the loop lies within 0.1 rad of its centre",
					build: func(q *s2.ConvexHullQuery) { q.AddLoop(loopOf(v)) }})
				add(c10vHullCase{name: "AddLoop(EmptyLoop) + AddLoop " + nm, class: "loop", pts: v, nonFull: true, why: "the loop lies within 0.1 rad of its centre",
					build: func(q *s2.ConvexHullQuery) { q.AddLoop(s2.EmptyLoop()); q.AddLoop(loopOf(v)) }})
				add(c10vHullCase{name: "AddPolygon(shell+hole) " + nm, class: "polygon", pts: append(cp(v), hole...), nonFull: true, why: "the polygon lies within 0.1 rad of its centre",
					build: func(q *s2.ConvexHullQuery) { q.AddPolygon(s2.PolygonFromLoops([]*s2.Loop{loopOf(v), loopOf(hole)})) }})
				add(c10vHullCase{name: "AddPolygon(two shells) " + nm, class: "polygon", pts: append(cp(v), second...), nonFull: true, why: "the polygon lies within 0.4 rad of its centre",
					build: func(q *s2.ConvexHullQuery) { q.AddPolygon(s2.PolygonFromLoops([]*s2.Loop{loopOf(v), loopOf(second)})) }})
			}
		}
		// larger than a hemisphere: holds antipodal points, only the full loop contains it
		wide := lattice.GeoRegular(ctr, 2.0, 8, 0.1)
		add(c10vHullCase{name: fmt.Sprintf("AddLoop of radius 2 rad at centre %d", ci), class: "loop larger than a hemisphere", pts: wide, expect: c10vExpFull, why: "the loop holds antipodal points; every input loop is contained by the hull (documented)",
			build: func(q *s2.ConvexHullQuery) { q.AddLoop(loopOf(wide)) }})
		add(c10vHullCase{name: fmt.Sprintf("AddPolygon of radius 2 rad at centre %d", ci), class: "loop larger than a hemisphere", pts: wide, expect: c10vExpFull, why: "the polygon holds antipodal points; every input polygon is contained by the hull (documented)",
			build: func(q *s2.ConvexHullQuery) { q.AddPolygon(s2.PolygonFromLoops([]*s2.Loop{loopOf(wide)})) }})
	}
	return out
}

func c10vHullDegenerate(c *core.Ctx) {
	const sub = c10vHull
	k := &c10vCounters{}
	cases := c10vHullCases(c)
	k.add("cases", int64(len(cases)))
	c.ParallelFor(len(cases), func(i int) {
		if c.Skip(sub, i) {
			return
		}
		h := cases[i]
		cas := []int{i}
		var hull *s2.Loop
		var qcap, hcap s2.Cap
		var hrect s2.Rect
		var hcub []s2.CellID
		ok := false
		c.Guard(sub, cas, func() any { return map[string]any{"case": h.name, "input": lattice.GeoPts(h.pts)} }, func() {
			q := s2.NewConvexHullQuery()
			h.build(q)
			qcap = q.CapBound()
			hull = q.ConvexHull()
			hrect, hcap, hcub = hull.RectBound(), hull.CapBound(), hull.CellUnionBound()
			ok = true
		})
		if !ok {
			return
		}
		c.Eval(1)
		k.add("class: "+h.class, 1)
		distinct := lattice.Dedup(h.pts)
		if len(distinct) > 0 {
			c.Nontrivial(1)
		}
		detail := func() map[string]any {
			return map[string]any{"case": h.name, "class": h.class, "input": lattice.GeoPts(h.pts), "hull": lattice.GeoPts(hull.Vertices()), "hull_is_full": hull.IsFull(), "hull_is_empty": hull.IsEmpty(), "reason": h.why}
		}
		// the query's own cap bound
		for _, p := range distinct {
			switch c10vCapMiss(qcap, p) {
			case 2:
				d := detail()
				d["point"] = lattice.GeoPt(p)
				d["query_cap_bound"] = qcap.String()
				c.Violate(sub, "wrong-answer", "bound too small by more than rounding (over 4e-15 in chord length): ConvexHullQuery.CapBound misses an input point", cas, d)
			case 1:
				k.add("query_cap_misses_within_rounding", 1)
			}
			k.add("query_cap_points_judged", 1)
		}
		if i%397 == 0 {
			c.Sample(map[string]any{"sub": sub, "case": h.name, "class": h.class, "hull_vertices": len(hull.Vertices()), "full": hull.IsFull(), "empty": hull.IsEmpty()})
		}
		switch h.expect {
		case c10vExpEmpty:
			if !hull.IsEmpty() {
				c.Violate(sub, "wrong-answer", "ConvexHull of no geometry is not the empty loop", cas, detail())
			} else {
				k.add("empty_results_as_documented", 1)
			}
			return
		case c10vExpFull:
			if !hull.IsFull() {
				c.Violate(sub, "wrong-answer", "ConvexHull is not the full loop for "+h.class, cas, detail())
			} else {
				k.add("full_results_required_and_returned", 1)
			}
			return
		}
		if hull.IsFull() {
			if h.nonFull {
				c.Violate(sub, "wrong-answer", "ConvexHull is the full loop for "+h.class+" (documented: a small loop)", cas, detail())
			} else {
				k.add("full_results_accepted", 1)
			}
			return
		}
		if hull.IsEmpty() {
			if len(distinct) > 0 {
				c.Violate(sub, "wrong-answer", "ConvexHull of a non-empty input is the empty loop ("+h.class+")", cas, detail())
			}
			return
		}
		// One defect, one descriptor.  ConvexHull needs a point "definitely outside the hull" and takes it
		// 90 degrees from the centre of the query's bounding cap; it returns the full loop when that cap is
		// a hemisphere or more.  When the cap is a hemisphere only within rounding (computed height in
		// [1-1e-15, 1)) that test fails and whatever goes wrong afterwards has this one cause, so every
		// failed assertion of such an input is reported under the same descriptor (the failed assertion is
		// kept in the detail).
		hemi := qcap.Height() >= 1-1e-15
		if hemi {
			k.add("inputs_whose_bounding_cap_is_a_hemisphere_within_rounding_and_hull_not_full", 1)
		}
		if len(distinct) >= 3 && c10vHasAntipodalPair(distinct) {
			k.add("inputs_of_three_or_more_points_with_an_antipodal_pair_and_hull_not_full", 1)
		}
		failed := false
		viol := func(desc string, d map[string]any) {
			failed = true
			if hemi {
				d["failed_assertion"] = desc
				d["query_cap_bound_height"] = qcap.Height()
				desc = "ConvexHull is neither the full loop nor a convex loop that holds every input point when the query's bounding cap is a hemisphere within rounding (height in [1-1e-15, 1))"
			}
			c.Violate(sub, "wrong-answer", desc, cas, d)
		}
		if !c10vInClosedHemisphere(distinct) {
			viol("ConvexHull is not the full loop although no hemisphere holds the input points", detail())
			return
		}
		k.add("loops_judged", 1)
		v := hull.Vertices()
		n := len(v)
		if n < 3 {
			viol("ConvexHull returns a loop with fewer than three vertices that is neither empty nor full ("+h.class+")", detail())
			return
		}
		isVertex := func(p s2.Point) bool {
			for _, w := range v {
				if w == p {
					return true
				}
			}
			return false
		}
		for t := 0; t < n; t++ {
			if refmodel.ExactDetSign(v[t], v[(t+1)%n], v[(t+2)%n]) < 0 {
				d := detail()
				d["turn_at"] = (t + 1) % n
				viol("ConvexHull has a clockwise turn (exact orientation sign < 0): not convex ("+h.class+")", d)
				break
			}
		}
		if len(distinct) <= 2 {
			k.add("one_or_two_point_loops", 1)
			bad := n != 3
			for _, p := range distinct {
				if !isVertex(p) {
					bad = true
				}
			}
			if bad {
				viol("ConvexHull of "+h.class+" is not a three-vertex loop whose vertices are a superset of the input", detail())
			}
			if len(distinct) == 1 {
				for _, w := range v {
					if w.Sub(distinct[0].Vector).Norm() > 1e-9 {
						viol("ConvexHull of one point is not a very small loop (a vertex is more than 1e-9 away)", detail())
						break
					}
				}
			}
		} else {
			in := map[r3.Vector]bool{}
			for _, p := range distinct {
				in[p.Vector] = true
			}
			for _, w := range v {
				if !in[w.Vector] {
					d := detail()
					d["vertex"] = lattice.GeoPt(w)
					viol("ConvexHull of three or more points has a vertex that is not an input point ("+h.class+")", d)
					break
				}
			}
		}
		ref := refmodel.NewFastLoop(v)
		for _, p := range distinct {
			if !isVertex(p) && !ref.Contains(p) {
				d := detail()
				d["point"] = lattice.GeoPt(p)
				viol("ConvexHull neither contains an input point nor has it as a vertex ("+h.class+")", d)
				break
			}
		}
		if failed {
			return // the bounds of a loop that is not the hull are not judged
		}
		j := &c10vBoundJudge{c: c, sub: sub, cas: cas, what: "the loop returned by ConvexHull", detail: detail, k: k, rb: hrect, cb: hcap, cub: hcub, cells: c10vCells(hcub)}
		for _, p := range distinct {
			if isVertex(p) {
				k.add("input_points_that_are_hull_vertices", 1)
			} else {
				k.add("input_points_contained", 1)
			}
			j.point(p, "an input point of the hull query", true, false)
		}
	})
	k.flush(c, sub)
	if c.OnlySub == "" {
		for _, need := range []string{"empty_results_as_documented", "full_results_required_and_returned", "one_or_two_point_loops", "input_points_contained", "loops_judged"} {
			if k.get(need) == 0 && c.NumViolations() == 0 {
				panic(core.HarnessError("C10 " + sub + ": nothing counted under " + need + " (vacuous)"))
			}
		}
	}
}

// ---- cov-index-region -----------------------------------------------------------------------------------

type c10vIdxEntry struct {
	name     string
	class    string
	loops    [][]s2.Point // indexed as s2.Loop
	lines    [][]s2.Point // indexed as s2.Polyline
	points   [][]s2.Point // indexed as s2.PointVector
	full     bool         // the full polygon is indexed as well
	interior bool         // judge exactly contained structural points as well
}

func c10vFaceCentre(f int) s2.Point {
	return []s2.Point{c10vRaw(1, 0, 0), c10vRaw(0, 1, 0), c10vRaw(0, 0, 1), c10vRaw(-1, 0, 0), c10vRaw(0, -1, 0), c10vRaw(0, 0, -1)}[f]
}

func c10vIdxEntries(c *core.Ctx) []c10vIdxEntry {
	var out []c10vIdxEntry
	add := func(e c10vIdxEntry) { out = append(out, e) }
	pile := func(p s2.Point, n int) []s2.Point {
		v := make([]s2.Point, n)
		for i := range v {
			v[i] = p
		}
		return v
	}
	add(c10vIdxEntry{name: "empty index", class: "empty"})
	add(c10vIdxEntry{name: "one shape without edges (empty point vector, empty polyline)", class: "empty", points: [][]s2.Point{{}}, lines: [][]s2.Point{{}}})
	add(c10vIdxEntry{name: "the full polygon", class: "whole sphere", full: true, interior: true})
	add(c10vIdxEntry{name: "the full polygon and a small loop", class: "whole sphere", full: true, interior: true, loops: [][]s2.Point{lattice.GeoRegular(lattice.LL(20, 30), 0.1, 6, 0)}})
	// every non-empty subset of the six faces
	kinds := []string{"point", "loop 0.1", "loop 1e-6", "pile 12", "pile 25", "polyline 0.3"}
	for m := 1; m < 64; m++ {
		for ki, kind := range append(append([]string(nil), kinds...), core.Pick(c, []string(nil), kinds)...) {
			where := "at the face centres"
			if ki >= len(kinds) {
				where = "0.5 rad off the face centres"
			}
			e := c10vIdxEntry{name: fmt.Sprintf("faces %06b: %s %s", m, kind, where), class: "face subsets"}
			for f := 0; f < 6; f++ {
				if m&(1<<uint(f)) == 0 {
					continue
				}
				ctr := c10vFaceCentre(f)
				if ki >= len(kinds) {
					ctr = lattice.GeoCirclePoint(ctr, 0.5, 0.9+float64(f))
				}
				switch kind {
				case "point":
					e.points = append(e.points, []s2.Point{ctr})
				case "loop 0.1":
					e.loops = append(e.loops, lattice.GeoRegular(ctr, 0.1, 8, 0.1))
					e.interior = true
				case "loop 1e-6":
					e.loops = append(e.loops, lattice.GeoRegular(ctr, 1e-6, 4, 0.1))
				case "pile 12":
					e.points = append(e.points, pile(lattice.GeoCirclePoint(ctr, 0.2, float64(f)), 12))
				case "pile 25":
					e.points = append(e.points, pile(lattice.GeoCirclePoint(ctr, 0.4, 1+float64(f)), 25))
				case "polyline 0.3":
					e.lines = append(e.lines, []s2.Point{lattice.GeoCirclePoint(ctr, 0.3, 0.5), ctr, lattice.GeoCirclePoint(ctr, 0.3, 2.5)})
				}
			}
			add(e)
		}
	}
	// single points and piles (single leaf cells) at special positions
	special := map[string]s2.Point{"face centre": c10vRaw(1, 0, 0), "cube corner": c10vN1(1, 1, 1), "cube corner 2": c10vN1(-1, -1, 1), "face-edge midpoint": c10vN1(1, 1, 0), "north pole": c10vRaw(0, 0, 1), "south pole": c10vRaw(0, 0, -1),
		"generic": lattice.LL(37.3, -122.1), "antimeridian": lattice.LL(10, 180), "just off a cube corner": lattice.GeoCirclePoint(c10vN1(1, 1, 1), 1e-12, 0.7), "just off a face edge": lattice.GeoCirclePoint(c10vN1(0, 1, 1), 1e-15, 0.2)}
	var names []string
	for nme := range special {
		names = append(names, nme)
	}
	sort.Strings(names)
	for _, nme := range names {
		p := special[nme]
		for _, n := range []int{1, 11, 12, 40} {
			add(c10vIdxEntry{name: fmt.Sprintf("%d coincident point(s) at %s", n, nme), class: "single point / single leaf", points: [][]s2.Point{pile(p, n)}})
		}
		add(c10vIdxEntry{name: "two piles of 12 points 1e-9 apart at " + nme, class: "single point / single leaf", points: [][]s2.Point{pile(p, 12), pile(lattice.GeoCirclePoint(p, 1e-9, 0.9), 12)}})
		add(c10vIdxEntry{name: "pile of 12 points at " + nme + " and at its antipode", class: "two far leaves", points: [][]s2.Point{pile(p, 12), pile(c10vNeg(p), 12)}})
	}
	// one wide edge per face (the index cell is the face cell or close to it)
	for f := 0; f < 6; f++ {
		a := lattice.FaceSiTiPoint(f, lattice.MaxSiTi/16, lattice.MaxSiTi/8)
		b := lattice.FaceSiTiPoint(f, lattice.MaxSiTi-lattice.MaxSiTi/16, lattice.MaxSiTi-lattice.MaxSiTi/8)
		d := lattice.FaceSiTiPoint(f, lattice.MaxSiTi/16, lattice.MaxSiTi-lattice.MaxSiTi/8)
		add(c10vIdxEntry{name: fmt.Sprintf("one diagonal edge across face %d", f), class: "single face", lines: [][]s2.Point{{a, b}}})
		add(c10vIdxEntry{name: fmt.Sprintf("triangle filling face %d", f), class: "single face", loops: [][]s2.Point{c10Tri(a, b, d)}, interior: true})
		add(c10vIdxEntry{name: fmt.Sprintf("the four vertices of face %d as points", f), class: "face corners", points: [][]s2.Point{lattice.GeoCellVerts(s2.CellFromCellID(s2.CellIDFromFace(f)))}})
	}
	// loops around the 8 cube vertices, polylines across the 12 cube edges
	for _, sx := range []float64{1, -1} {
		for _, sy := range []float64{1, -1} {
			for _, sz := range []float64{1, -1} {
				ctr := c10vN1(sx, sy, sz)
				for _, r := range core.Pick(c, []float64{0.2, 1e-6}, []float64{0.5, 0.2, 1e-3, 1e-6, 1e-9}) {
					add(c10vIdxEntry{name: fmt.Sprintf("loop r=%g around the cube vertex (%g,%g,%g)", r, sx, sy, sz), class: "three faces", loops: [][]s2.Point{lattice.GeoRegular(ctr, r, 9, 0.2)}, interior: true})
				}
			}
		}
	}
	for ax := 0; ax < 3; ax++ {
		for _, s1v := range []float64{1, -1} {
			for _, s2v := range []float64{1, -1} {
				var m [3]float64
				m[(ax+1)%3], m[(ax+2)%3] = s1v, s2v
				mid := c10vN1(m[0], m[1], m[2])
				for _, r := range core.Pick(c, []float64{0.3, 1e-7}, []float64{0.6, 0.3, 1e-3, 1e-7, 1e-12}) {
					// across the edge, and along it
					var across [3]float64
					across[(ax+1)%3], across[(ax+2)%3] = s1v, -s2v
					dir := c10vN1(across[0], across[1], across[2])
					a := s2.Point{Vector: mid.Mul(math.Cos(r)).Add(dir.Mul(math.Sin(r))).Normalize()}
					b := s2.Point{Vector: mid.Mul(math.Cos(r)).Sub(dir.Mul(math.Sin(r))).Normalize()}
					add(c10vIdxEntry{name: fmt.Sprintf("polyline of half-length %g across the cube edge at (%g,%g,%g)", r, m[0], m[1], m[2]), class: "two faces", lines: [][]s2.Point{{a, mid, b}}})
				}
			}
		}
	}
	// chains over four / five / six faces
	var eq, mer []s2.Point
	for k := 0; k < 12; k++ {
		eq = append(eq, lattice.LL(3*math.Sin(float64(k)), -180+30*float64(k)))
		mer = append(mer, lattice.GeoPtLL(math.Pi/2*math.Sin(float64(k)*math.Pi/6), 0.3+math.Pi*float64((k/6)%2)))
	}
	add(c10vIdxEntry{name: "closed polyline along the equator (faces 0,1,3,4)", class: "four faces", lines: [][]s2.Point{append(append([]s2.Point(nil), eq...), eq[0])}})
	add(c10vIdxEntry{name: "loop along the equator (northern hemisphere)", class: "five or six faces", loops: [][]s2.Point{eq}, interior: true})
	add(c10vIdxEntry{name: "polyline from pole to pole and back", class: "four faces", lines: [][]s2.Point{mer}})
	add(c10vIdxEntry{name: "equator polyline and both poles as points", class: "five or six faces", lines: [][]s2.Point{eq}, points: [][]s2.Point{{c10vRaw(0, 0, 1)}, {c10vRaw(0, 0, -1)}}})
	for _, ctr := range []s2.Point{c10vRaw(1, 0, 0), c10vN1(1, 1, 1), lattice.LL(-70, 100)} {
		add(c10vIdxEntry{name: fmt.Sprintf("loop of radius 2 rad around %v", lattice.GeoPt(ctr)), class: "five or six faces", loops: [][]s2.Point{lattice.GeoRegular(ctr, 2.0, 16, 0.1)}, interior: true})
		add(c10vIdxEntry{name: fmt.Sprintf("loop of radius 3.1 rad around %v (the complement of a small polygon)", lattice.GeoPt(ctr)), class: "five or six faces", loops: [][]s2.Point{lattice.GeoRegular(ctr, 3.1, 6, 0.1)}, interior: true})
	}
	return out
}

func c10vIndexRegion(c *core.Ctx) {
	const sub = c10vIndex
	k := &c10vCounters{}
	es := c10vIdxEntries(c)
	k.add("indexes", int64(len(es)))
	structural := lattice.PStruct(1)
	c.ParallelFor(len(es), func(i int) {
		if c.Skip(sub, i) {
			return
		}
		e := es[i]
		cas := []int{i}
		var cub, cub2, idx []s2.CellID
		var rb s2.Rect
		var cb s2.Cap
		ok := false
		c.Guard(sub, cas, func() any { return map[string]any{"index": e.name} }, func() {
			ix := s2.NewShapeIndex()
			if e.full {
				ix.Add(s2.FullPolygon())
			}
			for _, v := range e.loops {
				ix.Add(s2.LoopFromPoints(append([]s2.Point(nil), v...)))
			}
			for _, v := range e.lines {
				pl := s2.Polyline(append([]s2.Point(nil), v...))
				ix.Add(&pl)
			}
			for _, v := range e.points {
				pv := s2.PointVector(append([]s2.Point(nil), v...))
				ix.Add(&pv)
			}
			reg := ix.Region()
			cub = reg.CellUnionBound()
			rb = reg.RectBound()
			cb = reg.CapBound()
			cub2 = reg.CellUnionBound()
			for it := ix.Iterator(); !it.Done(); it.Next() {
				idx = append(idx, it.CellID())
			}
			ok = true
		})
		if !ok {
			return
		}
		c.Eval(1)
		k.add("class: "+e.class, 1)
		detail := func() map[string]any {
			d := map[string]any{"index": e.name, "class": e.class, "cell_union_bound": c10vTokens(cub), "rect_bound": c10vRectStr(rb), "cap_bound": cb.String(), "index_cells": len(idx)}
			if len(idx) <= 24 {
				d["index_cell_ids"] = c10vTokens(idx)
			}
			return d
		}
		// shape of the answer
		faces := map[int]bool{}
		for _, id := range idx {
			faces[id.Face()] = true
			switch id.Level() {
			case 0:
				k.add("index_cells_that_are_face_cells", 1)
			case 30:
				k.add("index_cells_that_are_leaf_cells", 1)
			}
		}
		k.add(fmt.Sprintf("indexes_spanning_%d_faces", len(faces)), 1)
		switch len(idx) {
		case 0:
			k.add("indexes_without_cells", 1)
		case 1:
			k.add("indexes_with_one_cell", 1)
		}
		k.add("index_cells", int64(len(idx)))
		for _, id := range cub {
			if !id.IsValid() {
				c.Violate(sub, "wrong-answer", "ShapeIndexRegion.CellUnionBound returns an invalid cell id", cas, detail())
				return
			}
		}
		if len(cub) != len(cub2) {
			c.Violate(sub, "wrong-answer", "ShapeIndexRegion.CellUnionBound gives a different answer when asked again", cas, detail())
		} else {
			for t := range cub {
				if cub[t] != cub2[t] {
					c.Violate(sub, "wrong-answer", "ShapeIndexRegion.CellUnionBound gives a different answer when asked again", cas, detail())
					break
				}
			}
		}
		if len(cub) > 6 || (len(faces) == 1 && len(cub) > 4) {
			c.Violate(sub, "wrong-answer", "ShapeIndexRegion.CellUnionBound returns more cells than documented (4 on a single face, 6 otherwise)", cas, detail())
		}
		k.add(fmt.Sprintf("bounds_with_%d_cells", len(cub)), 1)
		for _, id := range idx {
			found := false
			for _, b := range cub {
				if b.Contains(id) {
					found = true
					break
				}
			}
			if !found {
				d := detail()
				d["index_cell"] = id.ToToken()
				c.Violate(sub, "wrong-answer", "ShapeIndexRegion.CellUnionBound does not cover an index cell", cas, d)
				break
			}
		}
		j := &c10vBoundJudge{c: c, sub: sub, cas: cas, what: "a ShapeIndexRegion", detail: detail, k: k, rb: rb, cb: cb, cub: cub, cells: c10vCells(cub)}
		n := 0
		seen := map[r3.Vector]bool{}
		vertex := func(p s2.Point) {
			if !seen[p.Vector] {
				seen[p.Vector] = true
				j.point(p, "a vertex of an indexed shape", true, false)
				k.add("vertices_judged", 1)
				n++
			}
		}
		chain := func(v []s2.Point, closed bool) {
			for _, p := range v {
				vertex(p)
			}
			last := len(v) - 1
			if closed {
				last = len(v)
			}
			for t := 0; t < last; t++ {
				a, b := v[t], v[(t+1)%len(v)]
				if a == b || antipodal(a, b) {
					continue
				}
				for _, f := range []float64{0.25, 0.5, 0.75} {
					m := lattice.GeoSlerp(a, b, f)
					if nn := m.Norm2(); !(nn > 1-1e-14 && nn < 1+1e-14) {
						continue
					}
					exactOn := c10OnChain([]s2.Point{a, b}, m)
					if exactOn {
						k.add("edge_points_exactly_on_their_edge", 1)
					}
					j.point(m, "a point of an indexed edge", exactOn, false)
					k.add("edge_points_judged", 1)
					n++
				}
			}
		}
		for _, v := range e.loops {
			chain(v, true)
		}
		for _, v := range e.lines {
			chain(v, false)
		}
		for _, v := range e.points {
			for _, p := range v {
				vertex(p)
			}
		}
		if e.interior {
			var refs []*refmodel.FastLoop
			for _, v := range e.loops {
				refs = append(refs, refmodel.NewFastLoop(v))
			}
			for _, p := range structural {
				in := e.full
				for _, r := range refs {
					if in {
						break
					}
					in = r.Contains(p)
				}
				if in {
					j.point(p, "a point inside an indexed polygon", true, false)
					k.add("interior_points_judged", 1)
					n++
				}
			}
		}
		c.Eval(n)
		c.Nontrivial(n)
		if i%61 == 0 {
			c.Sample(map[string]any{"sub": sub, "index": e.name, "index_cells": len(idx), "faces": len(faces), "cell_union_bound": c10vTokens(cub), "points_judged": n})
		}
	})
	k.flush(c, sub)
	if c.OnlySub == "" && c.NumViolations() == 0 {
		for _, need := range []string{"indexes_without_cells", "indexes_with_one_cell", "index_cells_that_are_leaf_cells", "index_cells_that_are_face_cells", "indexes_spanning_1_faces", "indexes_spanning_2_faces", "indexes_spanning_3_faces", "indexes_spanning_4_faces", "indexes_spanning_5_faces", "indexes_spanning_6_faces", "interior_points_judged"} {
			if k.get(need) == 0 {
				panic(core.HarnessError("C10 " + sub + ": nothing counted under " + need + " (vacuous)"))
			}
		}
	}
}

// ---- cov-rect-capbound -----------------------------------------------------------------------------------

func c10vRectClass(r s2.Rect) string {
	switch {
	case r.IsEmpty():
		return "empty"
	case r.IsFull():
		return "full"
	}
	var s string
	switch {
	case r.Lat.Lo == r.Lat.Hi && r.Lng.Lo == r.Lng.Hi:
		s = "point"
	case r.Lat.Lo == r.Lat.Hi:
		s = "line of constant latitude"
	case r.Lng.Lo == r.Lng.Hi:
		s = "line of constant longitude"
	default:
		s = "area"
	}
	if r.Lat.Hi == math.Pi/2 || r.Lat.Lo == -math.Pi/2 {
		s += ", polar"
	}
	switch l := r.Lng.Length(); {
	case r.Lng.IsFull():
		s += ", all longitudes"
	case l > math.Pi:
		s += ", more than 180 degrees"
	case l == math.Pi:
		s += ", exactly 180 degrees"
	}
	if r.Lng.IsInverted() {
		s += ", across the antimeridian"
	}
	return s
}

func c10vRectCapBound(c *core.Ctx) {
	const sub = c10vRect
	k := &c10vCounters{}
	hp := math.Pi / 2
	lats := []float64{-hp, -hp + 1e-9, -1, -math.Pi / 4, -1e-9, 0, 1e-9, 0.5, math.Pi / 4, 1.2, hp - 1e-9, hp}
	lngs := []float64{-math.Pi, -math.Pi + 1e-9, -2.5, -hp, -1e-9, 0, 1e-9, 1, hp, 2.5, math.Pi - 1e-9, math.Pi}
	if !c.Quick() {
		lats = append(lats, math.Nextafter(-hp, 0), -1.5, -0.3, -1e-15, 5e-324, 1e-15, 0.3, 1.5, math.Nextafter(hp, 0))
		lngs = append(lngs, math.Nextafter(-math.Pi, 0), -3, -1, -1e-15, 1e-15, 0.5, 2, 3, math.Nextafter(math.Pi, 0), math.Nextafter(hp, 4), math.Nextafter(-hp, -4))
		sort.Float64s(lats)
		sort.Float64s(lngs)
	}
	type rc struct{ a, b, x, y int }
	var rs []rc
	for a := range lats {
		for b := a; b < len(lats); b++ {
			for x := range lngs {
				for y := range lngs {
					rs = append(rs, rc{a, b, x, y})
				}
			}
		}
	}
	// the canonical empty rectangle as well (latitude interval inverted)
	k.add("rectangles_enumerated", int64(len(rs)))
	structural := lattice.PStruct(1)
	nA := len(lats)
	c.ParallelFor(nA, func(a int) {
		for ri, q := range rs {
			if q.a != a {
				continue
			}
			if c.Skip(sub, ri) {
				continue
			}
			r := s2.Rect{Lat: r1.Interval{Lo: lats[q.a], Hi: lats[q.b]}, Lng: s1.Interval{Lo: lngs[q.x], Hi: lngs[q.y]}}
			if !r.IsValid() {
				k.add("invalid_rectangles_skipped", 1)
				continue
			}
			c10vJudgeRect(c, sub, []int{ri}, r, structural, k)
		}
	})
	// the canonical empty rectangle and the full rectangle
	for t, r := range []s2.Rect{s2.EmptyRect(), s2.FullRect()} {
		if !c.Skip(sub, -1-t) {
			c10vJudgeRect(c, sub, []int{-1 - t}, r, structural, k)
		}
	}
	k.flush(c, sub)
	if c.OnlySub == "" && c.NumViolations() == 0 {
		for _, need := range []string{"class: empty", "class: full", "pole_caps_returned", "centre_caps_returned", "poles_judged"} {
			if k.get(need) == 0 {
				panic(core.HarnessError("C10 " + sub + ": nothing counted under " + need + " (vacuous)"))
			}
		}
	}
}

func c10vJudgeRect(c *core.Ctx, sub string, cas []int, r s2.Rect, structural []s2.Point, k *c10vCounters) {
	var cb s2.Cap
	var rb s2.Rect
	var cub []s2.CellID
	ok := false
	desc := func() map[string]any { return map[string]any{"rect": c10vRectStr(r), "class": c10vRectClass(r)} }
	c.Guard(sub, cas, func() any { return desc() }, func() {
		cb, rb, cub = r.CapBound(), r.RectBound(), r.CellUnionBound()
		ok = true
	})
	if !ok {
		return
	}
	c.Eval(1)
	k.add("rectangles_judged", 1)
	cls := c10vRectClass(r)
	k.add("class: "+cls, 1)
	if rb != r {
		c.Violate(sub, "wrong-answer", "Rect.RectBound is not the rectangle itself", cas, desc())
	}
	if r.IsEmpty() {
		return
	}
	if cb.IsFull() {
		k.add("full_caps_returned", 1)
	} else if ctr := cb.Center(); ctr.X == 0 && ctr.Y == 0 {
		k.add("pole_caps_returned", 1)
	} else {
		k.add("centre_caps_returned", 1)
	}
	detail := func() map[string]any {
		d := desc()
		return d
	}
	j := &c10vBoundJudge{c: c, sub: sub, cas: cas, what: "a lat-lng rectangle (" + c10vRectShort(cls) + ")", detail: detail, k: k, rb: rb, cb: cb, cub: cub, cells: c10vCells(cub)}
	var probes []s2.Point
	role := map[r3.Vector]string{}
	addp := func(p s2.Point, what string) {
		if _, dup := role[p.Vector]; !dup {
			role[p.Vector] = what
			probes = append(probes, p)
		}
	}
	for t := 0; t < 4; t++ {
		addp(s2.PointFromLatLng(r.Vertex(t)), "a vertex of the rectangle")
	}
	length := r.Lng.Length()
	lngAt := func(f float64) float64 {
		if r.Lng.IsFull() {
			return -math.Pi + 2*math.Pi*f
		}
		return math.Remainder(r.Lng.Lo+length*f, 2*math.Pi)
	}
	for _, fl := range []float64{0, 0.5, 1} {
		la := r.Lat.Lo + (r.Lat.Hi-r.Lat.Lo)*fl
		if fl == 1 {
			la = r.Lat.Hi
		}
		for _, fg := range []float64{0, 0.25, 0.5, 0.75, 1} {
			ln := lngAt(fg)
			if fg == 0 && !r.Lng.IsFull() {
				ln = r.Lng.Lo
			}
			if fg == 1 && !r.Lng.IsFull() {
				ln = r.Lng.Hi
			}
			what := "a point of the rectangle"
			if (fl == 0 || fl == 1) != (fg == 0 || fg == 1) && (fl == 0.5 || fg == 0.5) {
				what = "an edge midpoint of the rectangle"
			} else if fl == 0.5 && fg == 0.5 {
				what = "the centre of the rectangle"
			}
			addp(lattice.GeoPtLL(la, ln), what)
		}
	}
	if r.Lat.Hi == math.Pi/2 {
		addp(c10vRaw(0, 0, 1), "the north pole")
	}
	if r.Lat.Lo == -math.Pi/2 {
		addp(c10vRaw(0, 0, -1), "the south pole")
	}
	if r.IsFull() {
		for _, p := range structural {
			addp(p, "a point of the sphere")
		}
	}
	n := 0
	for _, p := range c10Unit(probes) {
		if !r.ContainsPoint(p) {
			k.add("probes_outside_after_rounding", 1)
			continue
		}
		what := role[p.Vector]
		if what == "the north pole" || what == "the south pole" {
			k.add("poles_judged", 1)
		}
		j.point(p, what, true, false)
		n++
	}
	c.Eval(n)
	c.Nontrivial(n)
	if cas[0]%2503 == 0 {
		c.Sample(map[string]any{"sub": sub, "rect": c10vRectStr(r), "class": cls, "cap_bound": cb.String(), "points_judged": n})
	}
}

// c10vRectShort reduces the class to the part that identifies a defect (descriptor granularity).
func c10vRectShort(cls string) string {
	switch {
	case cls == "full":
		return "full"
	case len(cls) >= 5 && cls[:5] == "point":
		return "point"
	}
	for _, key := range []string{"all longitudes", "more than 180 degrees", "exactly 180 degrees"} {
		for t := 0; t+len(key) <= len(cls); t++ {
			if cls[t:t+len(key)] == key {
				return key
			}
		}
	}
	return "at most 180 degrees"
}

// ---- cov-cell-bounds ----------------------------------------------------------------------------------------

// c10vLeafPos are the (si, ti) coordinates of the first, the two middle and the last leaf cell of a face
// axis: their products are the leaves at the corners, the edge middles and the centre of a face.
var c10vLeafPos = []uint32{1, lattice.MaxSiTi/2 - 1, lattice.MaxSiTi/2 + 1, lattice.MaxSiTi - 1}

// c10vSpecialLeaves returns the leaf cells at the corners, edge middles and the centre of a face.
func c10vSpecialLeaves(face int) []s2.CellID {
	var out []s2.CellID
	for _, si := range c10vLeafPos {
		for _, ti := range c10vLeafPos {
			out = append(out, lattice.GeoLeaf(lattice.FaceSiTiPoint(face, si, ti)))
		}
	}
	return out
}

func c10vCellBounds(c *core.Ctx) {
	const sub = c10vCell
	k := &c10vCounters{}
	seen := map[s2.CellID]bool{}
	var ids []s2.CellID
	extra := []uint32{lattice.MaxSiTi/4 - 1, lattice.MaxSiTi/4 + 1, 3*(lattice.MaxSiTi/4) - 1, 3*(lattice.MaxSiTi/4) + 1}
	if !c.Quick() {
		extra = append(extra, lattice.MaxSiTi/8+1, 7*(lattice.MaxSiTi/8)-1, 3, lattice.MaxSiTi-3, lattice.MaxSiTi/3|1, 2*(lattice.MaxSiTi/3)|1)
	}
	for f := 0; f < 6; f++ {
		leafs := c10vSpecialLeaves(f)
		all := append(append([]uint32(nil), c10vLeafPos...), extra...)
		for _, si := range all {
			for _, ti := range extra {
				leafs = append(leafs, lattice.GeoLeaf(lattice.FaceSiTiPoint(f, si, ti)), lattice.GeoLeaf(lattice.FaceSiTiPoint(f, ti, si)))
			}
		}
		for _, leaf := range leafs {
			if leaf.Face() != f {
				k.add("leaf_positions_on_another_face", 1)
			}
			for l := 0; l <= 30; l++ {
				if id := leaf.Parent(l); !seen[id] {
					seen[id] = true
					ids = append(ids, id)
				}
			}
		}
	}
	k.add("cells", int64(len(ids)))
	c.ParallelFor(len(ids), func(i int) {
		if c.Skip(sub, i) {
			return
		}
		id := ids[i]
		cas := []int{i}
		var rb s2.Rect
		var cb s2.Cap
		var cub []s2.CellID
		var cell s2.Cell
		ok := false
		c.Guard(sub, cas, func() any { return map[string]any{"cell": id.ToToken(), "level": id.Level()} }, func() {
			cell = s2.CellFromCellID(id)
			rb, cb, cub = cell.RectBound(), cell.CapBound(), cell.CellUnionBound()
			ok = true
		})
		if !ok {
			return
		}
		c.Eval(1)
		k.add(fmt.Sprintf("cells_at_level_%02d", id.Level()), 1)
		detail := func() map[string]any {
			return map[string]any{"cell": id.ToToken(), "face": id.Face(), "level": id.Level(), "vertices": lattice.GeoPts(lattice.GeoCellVerts(cell))}
		}
		j := &c10vBoundJudge{c: c, sub: sub, cas: cas, what: "a Cell", detail: detail, k: k, rb: rb, cb: cb, cub: cub, cells: c10vCells(cub)}
		v := lattice.GeoCellVerts(cell)
		for _, p := range v {
			// the cap is grown with AddPoint(vertex): Cap.AddPoint documents that the cap then contains the point
			j.point(p, "a vertex of the cell", true, true)
		}
		j.point(cell.Center(), "the centre of the cell", true, false)
		n := 5
		for t := 0; t < 4; t++ {
			m := s2.Point{Vector: v[t].Add(v[(t+1)%4].Vector).Normalize()}
			exactOn := c10OnChain([]s2.Point{v[t], v[(t+1)%4]}, m)
			if exactOn {
				k.add("edge_midpoints_exactly_on_the_edge", 1)
			}
			j.point(m, "the midpoint of an edge of the cell", exactOn, false)
			n++
		}
		c.Eval(n)
		c.Nontrivial(n)
		if i%211 == 0 {
			c.Sample(map[string]any{"sub": sub, "cell": id.ToToken(), "level": id.Level(), "rect_bound": c10vRectStr(rb), "cap_bound": cb.String()})
		}
	})
	k.flush(c, sub)
}

// ---- cov-cellunion-bounds ------------------------------------------------------------------------------------

// c10vDistinctIDs removes duplicate cell ids.
func c10vDistinctIDs(ids []s2.CellID) []s2.CellID {
	seen := map[s2.CellID]bool{}
	var out []s2.CellID
	for _, id := range ids {
		if !seen[id] {
			seen[id] = true
			out = append(out, id)
		}
	}
	return out
}

type c10vUnionEntry struct {
	name, class string
	ids         []s2.CellID
}

func c10vUnionEntries(c *core.Ctx) []c10vUnionEntry {
	var out []c10vUnionEntry
	add := func(e c10vUnionEntry) { out = append(out, e) }
	add(c10vUnionEntry{"the empty union", "empty", nil})
	leaves := make([][]s2.CellID, 6)
	for f := 0; f < 6; f++ {
		leaves[f] = c10vSpecialLeaves(f)
		for li, leaf := range leaves[f] {
			if c.Quick() && li%3 != 0 {
				continue
			}
			add(c10vUnionEntry{fmt.Sprintf("single leaf %d of face %d", li, f), "single leaf", []s2.CellID{leaf}})
			add(c10vUnionEntry{fmt.Sprintf("single level-%d cell at leaf position %d of face %d", 7+li, li, f), "single cell", []s2.CellID{leaf.Parent(7 + li)}})
		}
	}
	type variant struct {
		name string
		pick func(f int) s2.CellID
	}
	variants := []variant{
		{"face cells", func(f int) s2.CellID { return s2.CellIDFromFace(f) }},
		{"corner leaves", func(f int) s2.CellID { return leaves[f][0] }},
		{"level-10 cells at the face centres", func(f int) s2.CellID { return leaves[f][5].Parent(10) }},
		{"mixed levels at the far corners", func(f int) s2.CellID { return leaves[f][15].Parent((f*7 + 2) % 31) }},
	}
	if !c.Quick() {
		variants = append(variants,
			variant{"level-1 cells", func(f int) s2.CellID { return leaves[f][3].Parent(1) }},
			variant{"centre leaves", func(f int) s2.CellID { return leaves[f][10] }},
			variant{"level-29 cells at edge middles", func(f int) s2.CellID { return leaves[f][1].Parent(29) }})
	}
	for m := 1; m < 64; m++ {
		nf := 0
		for f := 0; f < 6; f++ {
			if m&(1<<uint(f)) != 0 {
				nf++
			}
		}
		for _, va := range variants {
			var ids []s2.CellID
			for f := 0; f < 6; f++ {
				if m&(1<<uint(f)) != 0 {
					ids = append(ids, va.pick(f))
				}
			}
			cls := fmt.Sprintf("one cell on each of %d faces", nf)
			if nf == 6 && va.name == "face cells" {
				cls = "whole sphere"
			}
			add(c10vUnionEntry{fmt.Sprintf("faces %06b: %s", m, va.name), cls, ids})
		}
	}
	// complete sets of descendants: Normalize merges them (twice for the grandchildren)
	for f := 0; f < 6; f++ {
		for _, base := range []s2.CellID{s2.CellIDFromFace(f), leaves[f][5].Parent(9), leaves[f][0].Parent(28)} {
			for d := 1; d <= 2; d++ {
				var ids []s2.CellID
				for ch := base.ChildBeginAtLevel(base.Level() + d); ch != base.ChildEndAtLevel(base.Level()+d); ch = ch.Next() {
					ids = append(ids, ch)
				}
				add(c10vUnionEntry{fmt.Sprintf("all descendants %d level(s) below %s", d, base.ToToken()), "complete descendants", ids})
				add(c10vUnionEntry{fmt.Sprintf("all descendants %d level(s) below %s and a leaf on the next face", d, base.ToToken()), "complete descendants", append(append([]s2.CellID(nil), ids...), leaves[(f+1)%6][10])})
			}
		}
	}
	// the cells around the eight cube vertices and across cube edges
	for f := 0; f < 6; f += 5 {
		for _, li := range []int{0, 3, 12, 15} {
			for _, l := range core.Pick(c, []int{1, 12, 29}, []int{1, 2, 5, 12, 20, 28, 29}) {
				add(c10vUnionEntry{fmt.Sprintf("the cells of level %d around the cube vertex at leaf %d of face %d", l, li, f), "around a cube vertex", leaves[f][li].VertexNeighbors(l)})
			}
			add(c10vUnionEntry{fmt.Sprintf("the leaf at the cube vertex (leaf %d of face %d) and its neighbours", li, f), "around a cube vertex", append(leaves[f][li].AllNeighbors(30), leaves[f][li])})
		}
	}
	for f := 0; f < 6; f++ {
		for _, li := range []int{1, 4, 7, 13} {
			for _, l := range core.Pick(c, []int{3, 30}, []int{1, 3, 10, 25, 30}) {
				id := leaves[f][li].Parent(l)
				en := id.EdgeNeighbors()
				add(c10vUnionEntry{fmt.Sprintf("level-%d cell at the edge middle (leaf %d of face %d) and its edge neighbours", l, li, f), "across a cube edge", append(en[:], id)})
			}
		}
	}
	return out
}

func c10vCellUnionBounds(c *core.Ctx) {
	const sub = c10vUnion
	k := &c10vCounters{}
	es := c10vUnionEntries(c)
	k.add("unions", int64(len(es)))
	structural := lattice.PStruct(1)
	c.ParallelFor(len(es), func(i int) {
		if c.Skip(sub, i) {
			return
		}
		e := es[i]
		cas := []int{i}
		var cu s2.CellUnion
		var rb s2.Rect
		var cb s2.Cap
		var cub []s2.CellID
		ok := false
		c.Guard(sub, cas, func() any { return map[string]any{"union": e.name, "cells": c10vTokens(e.ids)} }, func() {
			cu = s2.CellUnion(append([]s2.CellID(nil), e.ids...))
			cu.Normalize()
			rb, cb, cub = cu.RectBound(), cu.CapBound(), cu.CellUnionBound()
			ok = true
		})
		if !ok {
			return
		}
		c.Eval(1)
		k.add("class: "+e.class, 1)
		faces := map[int]bool{}
		for _, id := range cu {
			faces[id.Face()] = true
		}
		k.add(fmt.Sprintf("unions_on_%d_faces", len(faces)), 1)
		detail := func() map[string]any {
			return map[string]any{"union": e.name, "class": e.class, "cells": c10vTokens(cu)}
		}
		for _, id := range cub {
			if !id.IsValid() {
				c.Violate(sub, "wrong-answer", "CellUnion.CellUnionBound returns an invalid cell id", cas, detail())
				return
			}
		}
		if len(cu) == 0 {
			k.add("empty_unions", 1)
			return
		}
		if cb.IsFull() {
			k.add("full_caps_returned", 1)
		}
		j := &c10vBoundJudge{c: c, sub: sub, cas: cas, what: "a CellUnion (" + e.class + ")", detail: detail, k: k, rb: rb, cb: cb, cub: cub, cells: c10vCells(cub)}
		n := 0
		members := append([]s2.CellID(nil), cu...)
		if len(e.ids) <= 64 {
			// the cells as given (before Normalize merged or dropped any) are part of the union as well
			members = append(members, e.ids...)
		}
		done := map[s2.CellID]bool{}
		for _, id := range members {
			if done[id] {
				continue
			}
			done[id] = true
			cell := s2.CellFromCellID(id)
			for _, p := range lattice.GeoCellVerts(cell) {
				j.point(p, "a vertex of a member cell", true, false)
				n++
			}
			j.point(cell.Center(), "the centre of a member cell", true, false)
			n++
		}
		if len(cu) < len(c10vDistinctIDs(e.ids)) {
			k.add("unions_that_Normalize_made_smaller", 1)
		}
		if e.class == "whole sphere" {
			for _, p := range structural {
				j.point(p, "a point of the sphere", true, false)
				n++
			}
		}
		c.Eval(n)
		c.Nontrivial(n)
		if i%53 == 0 {
			c.Sample(map[string]any{"sub": sub, "union": e.name, "cells": len(cu), "cap_bound": cb.String(), "rect_bound": c10vRectStr(rb), "points_judged": n})
		}
	})
	k.flush(c, sub)
	if c.OnlySub == "" && c.NumViolations() == 0 {
		for _, need := range []string{"empty_unions", "class: single leaf", "class: whole sphere", "unions_on_2_faces", "unions_on_3_faces", "unions_on_4_faces", "unions_on_5_faces", "unions_on_6_faces"} {
			if k.get(need) == 0 {
				panic(core.HarnessError("C10 " + sub + ": nothing counted under " + need + " (vacuous)"))
			}
		}
	}
}

// ---- cov-cap-degenerate ------------------------------------------------------------------------------------

func c10vCapDegenerate(c *core.Ctx) {
	const sub = c10vCap
	k := &c10vCounters{}
	alpha := c10vHullAlphabet(c)
	radii := []float64{0, 1e-7, 0.5, math.Pi / 2, 3, math.Pi}
	for pi, p := range alpha {
		if c.Skip(sub, pi) {
			continue
		}
		cas := []int{pi}
		c.Guard(sub, cas, func() any { return map[string]any{"point": lattice.GeoPt(p)} }, func() {
			// AddPoint on the empty cap: "the center is set to the point with a zero height"
			e := s2.EmptyCap().AddPoint(p)
			c.Eval(1)
			c.Nontrivial(1)
			k.add("AddPoint_on_the_empty_cap", 1)
			if e.Center() != p || e.Height() != 0 || !e.ContainsPoint(p) || e.IsEmpty() {
				c.Violate(sub, "wrong-answer", "EmptyCap().AddPoint(p) is not the cap of height zero at p that contains p", cas, map[string]any{"point": lattice.GeoPt(p), "result": e.String(), "center": lattice.GeoPt(e.Center()), "height": e.Height()})
			}
			if rb := e.RectBound(); !rb.ContainsLatLng(s2.LatLngFromPoint(p)) {
				c.Violate(sub, "wrong-answer", "RectBound of EmptyCap().AddPoint(p) does not contain the computed latitude/longitude of p", cas, map[string]any{"point": lattice.GeoPt(p), "rect_bound": c10vRectStr(rb)})
			}
			// the empty cap has no points: its bounds are judged only for not panicking
			_ = s2.EmptyCap().RectBound()
			_ = s2.EmptyCap().CellUnionBound()
			k.add("bounds_of_the_empty_cap_computed", 1)
			for _, rad := range radii {
				o := s2.CapFromCenterAngle(p, s1.Angle(rad))
				// "If this cap is empty, it is set to the other cap."
				got := s2.EmptyCap().AddCap(o)
				c.Eval(2)
				c.Nontrivial(2)
				k.add("AddCap_with_an_empty_operand", 2)
				if got.Center() != o.Center() || got.Height() != o.Height() {
					c.Violate(sub, "wrong-answer", "EmptyCap().AddCap(c) is not c", cas, map[string]any{"cap": o.String(), "result": got.String()})
				}
				// adding the empty cap must not lose anything the cap contained
				keep := o.AddCap(s2.EmptyCap())
				r2 := 2 * o.Height()
				theta := 2 * math.Atan2(math.Sqrt(r2), math.Sqrt(math.Max(0, 4-r2)))
				probes := []s2.Point{p}
				for t := 0; t < 8; t++ {
					probes = append(probes, lattice.GeoCirclePoint(p, theta, float64(t)*math.Pi/4), lattice.GeoCirclePoint(p, theta/2, float64(t)*math.Pi/4))
				}
				for _, q := range c10Unit(probes) {
					if o.ContainsPoint(q) {
						k.add("points_of_the_cap_judged", 1)
						if !keep.ContainsPoint(q) {
							c.Violate(sub, "wrong-answer", "c.AddCap(EmptyCap()) loses a point that c contains", cas, map[string]any{"cap": o.String(), "result": keep.String(), "point": lattice.GeoPt(q)})
							break
						}
					}
				}
			}
		})
	}
	c.Sample(map[string]any{"sub": sub, "points": len(alpha), "radii": radii})
	k.flush(c, sub)
}
