package checks

import (
	"fmt"
	"hash/fnv"
	"math"
	"sort"
	"strings"

	"github.com/golang/geo/r2"
	"github.com/golang/geo/r3"
	"github.com/golang/geo/s2"

	"verif/mc/core"
	"verif/mc/exact"
	"verif/mc/lattice"
	"verif/mc/refmodel"
)

// C06 coverage extension (part 1: models, shape catalogue, shape contract, Edge order).
//
// A statement-coverage measurement showed library code behind C06 that no lattice element reached.
// The sub-checks below add the lattice elements that execute it, each judged by an oracle that follows
// from the property text or from golang/geo's documentation:
//
//	cov-shape-contract   every constructor of every Shape type (LaxLoopFromLoop, LaxPolylineFromPolyline,
//	                     LaxPolygonFromPolygon with holes / full / empty, degenerate lax polygons, empty and
//	                     full loops and polygons, polygons with more than 12 loops, empty point vectors and
//	                     polylines) against a definitional edge list; IsEmpty / IsFull; ReferencePoint and
//	                     containsBruteForce against exact crossing parity; "interior on the left"
//	cov-edge-order       Edge.Cmp on a point alphabet with shared coordinates: lexicographic total order
//	cov-type-equivalence the same edges expressed through different Shape types: every index answer against
//	                     the exact reference, and the answers of the variants against each other
//	cov-leaf-piles       collections that force LEAF index cells (part 2 below)
//	cov-clip-edge, cov-clip-face   ClipEdge / ClipToFace / ClipToPaddedFace (part 3 below)
//	cov-loop-relations   Loop.Contains / Intersects of loop pairs driven through rangeIterator.seekTo /
//	                     seekBeyond against brute force over all edge pairs (part 3 below)
func init() {
	ck := Registry["C06"]
	run := ck.Run
	ck.Run = func(c *core.Ctx) {
		run(c)
		c06Coverage(c)
	}
}

func c06Coverage(c *core.Ctx) {
	c.Rule += "; coverage extension: (6) a catalogue of every Shape constructor incl. empty/full/degenerate shapes against a definitional edge list, IsEmpty/IsFull, ReferencePoint and containsBruteForce against exact crossing parity, interior-on-the-left (non-trivial = shapes with degenerate chains, holes, empty chains, or a balanced first vertex); (7) Edge.Cmp on all pairs of edges over a point alphabet with shared coordinates; (8) equal edge sets expressed through different Shape types and collections forcing leaf index cells, judged by all oracles of (1)-(4) plus Begin/End/NewShapeIndexIterator walks and LocatePoint/LocateCellID against the index dump; (9) ClipEdge on a lattice of uv segments x rectangles against exact rational clipping, ClipToFace/ClipToPaddedFace against exact determinants; (10) Loop.Contains/Intersects of loop pairs against brute force over all edge pairs"
	steps := []struct {
		name string
		f    func(*core.Ctx)
	}{
		{"cov-shape-contract", c06covShapeContract},
		{"cov-edge-order", c06covEdgeOrder},
		{"cov-type-equivalence", c06covTypeEquivalence},
		{"cov-leaf-piles", c06covLeafPiles},
		{"cov-clip-edge", c06covClipEdge},
		{"cov-clip-face", c06covClipFace},
		{"cov-loop-relations", c06covLoopRelations},
	}
	for _, st := range steps {
		if c.Expired() {
			c.CapHit("coverage extension " + st.name + ": wall budget reached")
			continue
		}
		if c.OnlySub != "" && c.OnlySub != st.name && !(c.OnlySub == "index-structure" && (st.name == "cov-type-equivalence" || st.name == "cov-leaf-piles")) {
			continue
		}
		st.f(c)
	}
}

// ---------------------------------------------------------------------------------------------------
// definitional model of a shape

type c06covModel struct {
	dim    int
	chains [][]s2.Point
	// dimension 2 only
	real      []bool // chain is a genuine loop: the vertex-1 rule of refmodel.NewLoop applies
	holes     int    // number of genuine loops given clockwise that are holes INSIDE a counter-clockwise shell of the shape (a clockwise loop on its own is simply the large region, which the vertex-1 rule already yields)
	noContain bool   // the type's documented precondition for point containment is not met: contract only
	// anchor, when set, replaces the genuine chains in the vertex-1 rule (a chain that visits a vertex
	// twice is the same region as the chain without the detour)
	anchor [][]s2.Point

	edges        []s2.Edge
	starts       []int
	originInside bool
	ready        bool
}

func (m *c06covModel) init() *c06covModel {
	if m.ready {
		return m
	}
	m.ready = true
	for _, ch := range m.chains {
		m.starts = append(m.starts, len(m.edges))
		switch m.dim {
		case 0:
			m.edges = append(m.edges, s2.Edge{V0: ch[0], V1: ch[0]})
		case 1:
			for i := 0; i+1 < len(ch); i++ {
				m.edges = append(m.edges, s2.Edge{V0: ch[i], V1: ch[i+1]})
			}
		default:
			for i := range ch {
				m.edges = append(m.edges, s2.Edge{V0: ch[i], V1: ch[(i+1)%len(ch)]})
			}
		}
	}
	if m.dim == 2 {
		in := m.holes%2 == 1
		for i, ch := range m.chains {
			switch {
			case len(ch) == 0: // the full loop
				in = !in
			case i < len(m.real) && m.real[i] && m.anchor == nil:
				if refmodel.NewLoop(ch).OriginInside {
					in = !in
				}
			}
		}
		for _, ch := range m.anchor {
			if refmodel.NewLoop(ch).OriginInside {
				in = !in
			}
		}
		m.originInside = in
	}
	return m
}

func (m *c06covModel) chainLen(i int) int {
	switch m.dim {
	case 0:
		return 1
	case 1:
		return len(m.chains[i]) - 1
	}
	return len(m.chains[i])
}

// contains is the semi-open containment by exact crossing parity over ALL edges from the fixed origin.
func (m *c06covModel) contains(p s2.Point) bool {
	if m.dim != 2 {
		return false
	}
	o := s2.OriginPoint()
	in := m.originInside
	if p == o {
		return in
	}
	for _, e := range m.edges {
		if c06covEdgeOrVertexCrossing(o, p, e.V0, e.V1) {
			in = !in
		}
	}
	return in
}

// c06covCrossingSign is refmodel.CrossingSign (the documented four-orientation criterion on exact
// signs) with the rigorous float filter of refmodel.FastSign in front of every exact sign, and the
// two signs that reject most edge pairs evaluated first.
func c06covCrossingSign(a, b, c, d s2.Point) int {
	if a == c || a == d || b == c || b == d {
		return refmodel.MaybeCross
	}
	if a == b || c == d {
		return refmodel.DoNotCross
	}
	acb := refmodel.FastSign(a, c, b)
	if refmodel.FastSign(b, d, a) != acb || refmodel.FastSign(c, b, d) != acb || refmodel.FastSign(d, a, c) != acb {
		return refmodel.DoNotCross
	}
	return refmodel.Cross
}

func c06covEdgeOrVertexCrossing(a, b, c, d s2.Point) bool {
	switch c06covCrossingSign(a, b, c, d) {
	case refmodel.DoNotCross:
		return false
	case refmodel.Cross:
		return true
	}
	return refmodel.VertexCrossing(a, b, c, d)
}

func (m *c06covModel) isVertex(p s2.Point) bool {
	for _, e := range m.edges {
		if e.V0 == p || e.V1 == p {
			return true
		}
	}
	return false
}

// refs returns what c06Structure needs: the genuine loops (degenerate edges do not change the
// containment of points that are not on them) and the flip bit.
func (m *c06covModel) refs() ([]*refmodel.Loop, bool) {
	if m.dim != 2 || m.noContain {
		return nil, false
	}
	var out []*refmodel.Loop
	for i, ch := range m.chains {
		switch {
		case len(ch) == 0:
			out = append(out, refmodel.NewLoop([]s2.Point{{Vector: r3.Vector{Z: -1}}})) // full
		case i < len(m.real) && m.real[i] && m.anchor == nil:
			out = append(out, refmodel.NewLoop(ch))
		}
	}
	for _, ch := range m.anchor {
		out = append(out, refmodel.NewLoop(ch))
	}
	if len(out) == 0 {
		out = append(out, refmodel.NewLoop([]s2.Point{{Vector: r3.Vector{Z: 1}}})) // empty
	}
	return out, m.holes%2 == 1
}

type c06covEntry struct {
	name string
	mk   func() s2.Shape
	m    *c06covModel
	tags []string // what makes the entry non-trivial
}

func c06covRev(v []s2.Point) []s2.Point {
	out := make([]s2.Point, len(v))
	for i := range v {
		out[len(v)-1-i] = v[i]
	}
	return out
}

func c06covReg(ctr s2.Point, deg float64, n int) []s2.Point {
	return append([]s2.Point(nil), s2.RegularLoop(ctr, lattice.Deg(deg), n).Vertices()...)
}

func c06covOff(ctr s2.Point, t float64) s2.Point {
	return s2.Point{Vector: ctr.Add(s2.Ortho(ctr).Mul(t)).Normalize()}
}

func c06covAllReal(n int) []bool {
	out := make([]bool, n)
	for i := range out {
		out[i] = true
	}
	return out
}

// polygon model: chain i = loop i of the polygon, reversed as a whole when the loop is a hole
// (documentation of Loop.OrientedVertex and of Polygon.ChainEdge); holes = number of hole loops.
func c06covPolygonModel(mk func() *s2.Polygon) *c06covModel {
	p := mk()
	m := &c06covModel{dim: 2}
	for i := 0; i < p.NumLoops(); i++ {
		l := p.Loop(i)
		switch {
		case l.IsFull():
			m.chains = append(m.chains, []s2.Point{})
			m.real = append(m.real, false)
		case l.IsHole():
			m.chains = append(m.chains, c06covRev(l.Vertices()))
			m.real = append(m.real, true)
			m.holes++
		default:
			m.chains = append(m.chains, append([]s2.Point(nil), l.Vertices()...))
			m.real = append(m.real, true)
		}
	}
	return m
}

// c06covCatalogue is the shape catalogue at one centre.
func c06covCatalogue(pos string, ctr s2.Point) []c06covEntry {
	var out []c06covEntry
	add := func(name string, mk func() s2.Shape, m *c06covModel, tags ...string) {
		out = append(out, c06covEntry{name + "@" + pos, mk, m, tags})
	}
	loops2 := func(chains [][]s2.Point, real []bool, holes int) *c06covModel {
		return &c06covModel{dim: 2, chains: chains, real: real, holes: holes}
	}
	// --- Loop
	v33 := c06covReg(ctr, 6, 33)
	add("Loop(33)", func() s2.Shape { return s2.LoopFromPoints(v33) }, loops2([][]s2.Point{v33}, []bool{true}, 0))
	add("EmptyLoop", func() s2.Shape { return s2.EmptyLoop() }, loops2(nil, nil, 0), "empty")
	add("FullLoop", func() s2.Shape { return s2.FullLoop() }, loops2([][]s2.Point{{}}, []bool{false}, 0), "full")
	// --- LaxLoop
	v21 := c06covReg(ctr, 7, 21)
	add("LaxLoopFromLoop(21)", func() s2.Shape { return s2.LaxLoopFromLoop(s2.LoopFromPoints(v21)) }, loops2([][]s2.Point{v21}, []bool{true}, 0))
	add("LaxLoopFromLoop(EmptyLoop)", func() s2.Shape { return s2.LaxLoopFromLoop(s2.EmptyLoop()) }, loops2(nil, nil, 0), "empty")
	add("LaxLoopFromPoints(21)", func() s2.Shape { return s2.LaxLoopFromPoints(v21) }, loops2([][]s2.Point{v21}, []bool{true}, 0))
	add("LaxLoopFromPoints(21 clockwise)", func() s2.Shape { return s2.LaxLoopFromPoints(c06covRev(v21)) }, loops2([][]s2.Point{c06covRev(v21)}, []bool{true}, 0), "clockwise")
	add("LaxLoopFromPoints(0)", func() s2.Shape { return s2.LaxLoopFromPoints(nil) }, loops2(nil, nil, 0), "empty")
	add("LaxLoopFromPoints(1)", func() s2.Shape { return s2.LaxLoopFromPoints(v21[:1]) }, loops2([][]s2.Point{v21[:1]}, []bool{false}, 0), "degenerate", "balanced-first-vertex")
	add("LaxLoopFromPoints(2)", func() s2.Shape { return s2.LaxLoopFromPoints(v21[:2]) }, loops2([][]s2.Point{v21[:2]}, []bool{false}, 0), "degenerate", "balanced-first-vertex")
	// --- Polygon and LaxPolygonFromPolygon
	type pg struct {
		name string
		mk   func() *s2.Polygon
		tags []string
	}
	mkLoops := func(vs ...[]s2.Point) []*s2.Loop {
		var ls []*s2.Loop
		for _, v := range vs {
			ls = append(ls, s2.LoopFromPoints(append([]s2.Point(nil), v...)))
		}
		return ls
	}
	v40 := c06covReg(ctr, 8, 40)
	shell, hole := c06covReg(ctr, 9, 12), c06covReg(ctr, 3, 7)
	shA, hoA, isl, shB := c06covReg(ctr, 10, 14), c06covReg(ctr, 6, 9), c06covReg(ctr, 2, 5), c06covReg(c06covOff(ctr, 0.5), 4, 8)
	var many [][]s2.Point
	for k := 0; k < 14; k++ {
		many = append(many, c06covReg(lattice.GeoCirclePoint(ctr, 8*math.Pi/180, 2*math.Pi*float64(k)/14), 0.8, 5))
	}
	pgs := []pg{
		{"Polygon(1 loop 40)", func() *s2.Polygon { return s2.PolygonFromLoops(mkLoops(v40)) }, nil},
		{"Polygon(shell+hole)", func() *s2.Polygon { return s2.PolygonFromLoops(mkLoops(shell, hole)) }, []string{"hole"}},
		{"Polygon(2 shells, hole, island)", func() *s2.Polygon { return s2.PolygonFromLoops(mkLoops(isl, shB, hoA, shA)) }, []string{"hole"}},
		{"Polygon(14 shells)", func() *s2.Polygon { return s2.PolygonFromLoops(mkLoops(many...)) }, []string{"many-loops"}},
		{"FullPolygon", func() *s2.Polygon { return s2.FullPolygon() }, []string{"full"}},
		{"Polygon(no loops)", func() *s2.Polygon { return s2.PolygonFromLoops(nil) }, []string{"empty"}},
		{"Polygon(EmptyLoop)", func() *s2.Polygon { return s2.PolygonFromLoops([]*s2.Loop{s2.EmptyLoop()}) }, []string{"empty"}},
	}
	for _, p := range pgs {
		p := p
		add(p.name, func() s2.Shape { return p.mk() }, c06covPolygonModel(p.mk), p.tags...)
		add("LaxPolygonFromPolygon("+p.name+")", func() s2.Shape { return s2.LaxPolygonFromPolygon(p.mk()) }, c06covPolygonModel(p.mk), p.tags...)
	}
	// --- LaxPolygonFromPoints
	lp := func(name string, chains [][]s2.Point, real []bool, holes int, tags ...string) {
		cp := make([][]s2.Point, len(chains))
		for i := range chains {
			cp[i] = append([]s2.Point{}, chains[i]...)
		}
		add("LaxPolygonFromPoints("+name+")", func() s2.Shape { return s2.LaxPolygonFromPoints(cp) }, loops2(cp, real, holes), tags...)
	}
	v11 := c06covReg(ctr, 5, 11)
	a, b := c06covOff(ctr, 0.02), c06covOff(ctr, 0.03) // a sibling pair inside every shell used below
	x, y := c06covOff(ctr, -0.02), c06covOff(ctr, -0.035)
	far1, far2 := c06covOff(ctr, 0.9), c06covOff(ctr, 1.1) // a sibling pair outside
	lp("no loops", nil, nil, 0, "empty")
	lp("{}", [][]s2.Point{{}}, []bool{false}, 0, "full")
	lp("1 loop 11", [][]s2.Point{v11}, []bool{true}, 0)
	lp("shell, hole, shell", [][]s2.Point{shell, c06covRev(hole), shB}, c06covAllReal(3), 1, "hole")
	lp("{a,b}", [][]s2.Point{{a, b}}, []bool{false}, 0, "degenerate", "balanced-first-vertex")
	lp("{x}", [][]s2.Point{{x}}, []bool{false}, 0, "degenerate", "balanced-first-vertex")
	lp("{}, {a,b}", [][]s2.Point{{}, {a, b}}, []bool{false, false}, 0, "full", "degenerate", "balanced-first-vertex")
	lp("{x}, {}", [][]s2.Point{{x}, {}}, []bool{false, false}, 0, "full", "degenerate", "balanced-first-vertex")
	lp("{a,b}, shell", [][]s2.Point{{a, b}, shell}, []bool{false, true}, 0, "degenerate", "balanced-first-vertex")
	lp("{x}, shell", [][]s2.Point{{x}, shell}, []bool{false, true}, 0, "degenerate", "balanced-first-vertex")
	lp("{far1,far2}, {a,b}, {x,y}, shell, hole", [][]s2.Point{{far1, far2}, {a, b}, {x, y}, shA, c06covRev(hoA)}, []bool{false, false, false, true, true}, 1, "degenerate", "balanced-first-vertex", "hole")
	lp("shell, {a,b}, {x}", [][]s2.Point{shell, {a, b}, {x}}, []bool{true, false, false}, 0, "degenerate")
	// a loop with a whisker (sibling pair inside a genuine loop), started at the whisker's tip: the
	// first vertex is balanced
	tip := c06covOff(ctr, 0.3)
	whisk := append([]s2.Point{tip}, append(append([]s2.Point{}, shell[3:]...), shell[:4]...)...)
	lp("whisker first", [][]s2.Point{whisk}, []bool{true}, 0, "degenerate", "balanced-first-vertex")
	out[len(out)-1].m.anchor = [][]s2.Point{shell}
	lp("shell, shell, reversed shell", [][]s2.Point{v11, v11, c06covRev(v11)}, c06covAllReal(3), 1, "duplicate-edges")
	out = append(out, c06covEntry{"LaxPolygonFromPoints(shell, {}, shell)@" + pos, func() s2.Shape {
		return s2.LaxPolygonFromPoints([][]s2.Point{v11, {}, shB})
	}, &c06covModel{dim: 2, chains: [][]s2.Point{v11, {}, shB}, real: []bool{true, false, true}, noContain: true}, []string{"empty-chain-in-the-middle"}})
	// --- dimension 1
	line := append([]s2.Point{ctr}, c06covReg(ctr, 10, 14)[:9]...)
	dline := []s2.Point{line[0], line[1], line[1], line[2], line[2], line[2], line[3]}
	for _, pl := range []struct {
		name string
		v    []s2.Point
		tags []string
	}{
		{"0", nil, []string{"empty"}}, {"1", line[:1], []string{"empty"}}, {"2", line[:2], nil}, {"10", line, nil},
		{"degenerate edges", dline, []string{"degenerate"}}, {"v,v", []s2.Point{ctr, ctr}, []string{"degenerate"}},
	} {
		pl := pl
		m := func() *c06covModel {
			m := &c06covModel{dim: 1}
			if len(pl.v) >= 2 {
				m.chains = [][]s2.Point{pl.v}
			}
			return m
		}
		add("Polyline("+pl.name+")", func() s2.Shape { p := s2.Polyline(append([]s2.Point(nil), pl.v...)); return &p }, m(), pl.tags...)
		add("LaxPolylineFromPoints("+pl.name+")", func() s2.Shape { return s2.LaxPolylineFromPoints(pl.v) }, m(), pl.tags...)
		add("LaxPolylineFromPolyline("+pl.name+")", func() s2.Shape {
			return s2.LaxPolylineFromPolyline(s2.Polyline(append([]s2.Point(nil), pl.v...)))
		}, m(), pl.tags...)
	}
	// --- dimension 0
	for _, pv := range []struct {
		name string
		v    []s2.Point
		tags []string
	}{
		{"0", nil, []string{"empty"}}, {"1", []s2.Point{ctr}, nil},
		{"5 with a duplicate", []s2.Point{ctr, v40[0], v40[7], ctr, {Vector: ctr.Mul(-1)}}, []string{"degenerate"}},
	} {
		pv := pv
		m := &c06covModel{dim: 0}
		for _, p := range pv.v {
			m.chains = append(m.chains, []s2.Point{p})
		}
		add("PointVector("+pv.name+")", func() s2.Shape { p := s2.PointVector(append([]s2.Point(nil), pv.v...)); return &p }, m, pv.tags...)
	}
	for i := range out {
		out[i].m.init()
	}
	return out
}

func c06covCentres(c *core.Ctx) []string {
	return core.Pick(c, []string{"face-centre", "cube-corner", "generic"}, []string{"face-centre", "cube-corner", "face-edge", "north-pole", "generic", "south-ish"})
}

// ---------------------------------------------------------------------------------------------------
// cov-shape-contract

func c06covShapeContract(c *core.Ctx) {
	const sub = "cov-shape-contract"
	cs := lattice.Centres()
	var cat []c06covEntry
	for _, pos := range c06covCentres(c) {
		cat = append(cat, c06covCatalogue(pos, cs[pos])...)
	}
	c.Note("cov_shape_catalogue", len(cat))
	c.ParallelFor(len(cat), func(i int) {
		if c.Skip(sub, i) {
			return
		}
		en := cat[i]
		m := en.m
		cas := []int{i}
		detail := func() any { return map[string]any{"shape": en.name} }
		bad := func(desc string, extra map[string]any) {
			d := map[string]any{"shape": en.name}
			for k, v := range extra {
				d[k] = v
			}
			c.Violate(sub, "wrong-answer", desc, cas, d)
		}
		c.Guard(sub, cas, detail, func() {
			s := en.mk()
			T := typeOfEntry(en.name)
			evals := 0
			// --- edge list, chains
			if s.Dimension() != m.dim {
				bad(T+": Dimension differs from the type's documented dimension", map[string]any{"got": s.Dimension(), "want": m.dim})
			}
			if s.NumEdges() != len(m.edges) {
				bad(T+": NumEdges differs from the definitional edge list", map[string]any{"got": s.NumEdges(), "want": len(m.edges)})
				return
			}
			if s.NumChains() != len(m.chains) {
				bad(T+": NumChains differs from the definitional chain list", map[string]any{"got": s.NumChains(), "want": len(m.chains)})
				return
			}
			for e, want := range m.edges {
				evals++
				if got := s.Edge(e); got != want {
					bad(T+": Edge(e) differs from the definitional edge list", map[string]any{"edge": e, "got": fmt.Sprint(got), "want": fmt.Sprint(want)})
				}
			}
			for ci := range m.chains {
				evals++
				want := s2.Chain{Start: m.starts[ci], Length: m.chainLen(ci)}
				if got := s.Chain(ci); got != want {
					bad(T+": Chain(i) differs from the definitional chain list", map[string]any{"chain": ci, "got": fmt.Sprint(got), "want": fmt.Sprint(want)})
					continue
				}
				for j := 0; j < want.Length; j++ {
					evals++
					if got := s.ChainEdge(ci, j); got != m.edges[want.Start+j] {
						bad(T+": ChainEdge(i,j) differs from the definitional edge list", map[string]any{"chain": ci, "offset": j})
					}
					if got := s.ChainPosition(want.Start + j); got != (s2.ChainPosition{ChainID: ci, Offset: j}) {
						bad(T+": ChainPosition(e) does not invert chain lookup", map[string]any{"edge": want.Start + j, "got": fmt.Sprint(got), "want": fmt.Sprint(s2.ChainPosition{ChainID: ci, Offset: j})})
					}
				}
			}
			// --- IsEmpty / IsFull (documentation of Shape.IsEmpty / IsFull and of the full loop)
			wantEmpty := len(m.edges) == 0 && (m.dim < 2 || len(m.chains) == 0)
			wantFull := len(m.edges) == 0 && m.dim == 2 && len(m.chains) > 0
			evals += 2
			if s.IsEmpty() != wantEmpty {
				bad(T+": IsEmpty differs from \"no edges and (dimension < 2 or no chains)\"", map[string]any{"got": s.IsEmpty()})
			}
			if s.IsFull() != wantFull {
				bad(T+": IsFull differs from \"no edges, dimension 2 and a chain\"", map[string]any{"got": s.IsFull()})
			}
			if wantEmpty {
				c.Count("cov/contract/empty_shapes", 1)
			}
			if wantFull {
				c.Count("cov/contract/full_shapes", 1)
			}
			// --- reference point
			rp := s.ReferencePoint()
			evals++
			if m.dim < 2 {
				if rp.Contained {
					bad(T+": ReferencePoint().Contained is true for a shape without interior", nil)
				}
				c.Count("cov/contract/reference_point_dimension_lt_2", 1)
			} else if !m.noContain {
				if rp.Point == s2.OriginPoint() {
					c.Count("cov/contract/reference_point_is_origin", 1)
				} else {
					c.Count("cov/contract/reference_point_is_vertex", 1)
					if !m.isVertex(rp.Point) {
						bad(T+": ReferencePoint().Point is neither the origin nor a vertex", map[string]any{"point": ptStr(rp.Point)})
					}
				}
				if want := m.contains(rp.Point); rp.Contained != want {
					bad(T+": ReferencePoint().Contained differs from exact crossing parity at ReferencePoint().Point", map[string]any{"point": ptStr(rp.Point), "got": rp.Contained, "want": want})
				}
			}
			// --- probes: vertices, edge midpoints, points just left / right of every edge, far points
			var probes []s2.Point
			type side struct {
				e           int
				left, right s2.Point
			}
			var sides []side
			rev := map[s2.Edge]int{}
			for _, e := range m.edges {
				rev[e]++
			}
			for e, ed := range m.edges {
				probes = append(probes, ed.V0)
				if ed.V0 == ed.V1 {
					continue
				}
				mid := s2.Point{Vector: ed.V0.Add(ed.V1.Vector).Normalize()}
				if e%3 == 0 {
					probes = append(probes, mid)
				}
				if m.dim == 2 && rev[ed] == 1 && rev[s2.Edge{V0: ed.V1, V1: ed.V0}] == 0 {
					n := ed.V0.Cross(ed.V1.Vector).Normalize()
					sides = append(sides, side{e, s2.Point{Vector: mid.Add(n.Mul(1e-5)).Normalize()}, s2.Point{Vector: mid.Sub(n.Mul(1e-5)).Normalize()}})
				}
			}
			for _, sd := range sides {
				probes = append(probes, sd.left, sd.right)
			}
			probes = append(probes, s2.OriginPoint(), lattice.LL(-33, 77), lattice.LL(5, 170), s2.Point{Vector: r3.Vector{X: 1}}, s2.Point{Vector: r3.Vector{Z: -1}})
			probes = lattice.Dedup(probes)
			nv := 0
			for _, p := range probes {
				evals++
				want := !m.noContain && m.contains(p)
				if m.noContain && m.dim == 2 {
					continue
				}
				if m.isVertex(p) {
					nv++
				}
				if got := s2.VerifContainsBruteForce(s, p); got != want {
					bad(T+": containsBruteForce differs from exact crossing parity over all edges", map[string]any{"p": ptStr(p), "got": got, "want": want, "is_vertex": m.isVertex(p)})
				}
			}
			// --- interior on the left (documentation of Shape.Dimension, LaxPolygon, Loop.OrientedVertex):
			// judged on the LIBRARY's edges against the containment of the region defined by construction
			if m.dim == 2 && !m.noContain && s.NumEdges() == len(m.edges) {
				librev := map[s2.Edge]int{}
				for e := 0; e < s.NumEdges(); e++ {
					librev[s.Edge(e)]++
				}
				for e := 0; e < s.NumEdges(); e++ {
					ed := s.Edge(e)
					if ed.V0 == ed.V1 || librev[ed] != 1 || librev[s2.Edge{V0: ed.V1, V1: ed.V0}] != 0 {
						continue
					}
					evals++
					mid := s2.Point{Vector: ed.V0.Add(ed.V1.Vector).Normalize()}
					n := ed.V0.Cross(ed.V1.Vector).Normalize()
					l, r := s2.Point{Vector: mid.Add(n.Mul(1e-5)).Normalize()}, s2.Point{Vector: mid.Sub(n.Mul(1e-5)).Normalize()}
					if !m.contains(l) || m.contains(r) {
						bad(T+": the interior is not on the left of an edge", map[string]any{"edge": e, "left_contained": m.contains(l), "right_contained": m.contains(r)})
					}
					c.Count("cov/contract/interior_on_the_left_edges", 1)
				}
			}
			c.Eval(evals)
			if len(en.tags) > 0 {
				c.Nontrivial(1 + nv)
			}
			for _, t := range en.tags {
				c.Count("cov/contract/"+t, 1)
			}
			if i == 9 || i == 30 {
				c.Sample(map[string]any{"sub": sub, "shape": en.name, "edges": len(m.edges), "chains": len(m.chains), "reference_point": ptStr(rp.Point), "contained": rp.Contained, "probes": len(probes)})
			}
		})
	})
}

func lastAt(s string) int {
	for i := len(s) - 1; i >= 0; i-- {
		if s[i] == '@' {
			return i
		}
	}
	return len(s)
}

// typeOfEntry is the constructor name of a catalogue entry (descriptor granularity = constructor).
func typeOfEntry(name string) string {
	name = name[:lastAt(name)]
	for i := 0; i < len(name); i++ {
		if name[i] == '(' || name[i] == '-' || name[i] == '/' {
			return name[:i]
		}
	}
	return name
}

// ---------------------------------------------------------------------------------------------------
// cov-edge-order: Edge.Cmp is the lexicographic order of (V0, V1) under Point.Cmp

func c06covEdgeOrder(c *core.Ctx) {
	const sub = "cov-edge-order"
	vals := core.Pick(c, []float64{-1, 0, 0.6, 1}, []float64{-1, -0.8, 0, math.Copysign(0, -1), 0.6, 0.8, 1})
	var pts []s2.Point
	for _, x := range vals {
		for _, y := range vals {
			for _, z := range vals {
				if len(pts) < core.Pick(c, 14, 40) && (x != y || y != z || x == 0.6) {
					pts = append(pts, s2.Point{Vector: r3.Vector{X: x, Y: y, Z: z}})
				}
			}
		}
	}
	// make sure ties in every prefix exist
	pts = append(pts, s2.Point{Vector: r3.Vector{X: 0.6, Y: 0.8, Z: 0}}, s2.Point{Vector: r3.Vector{X: 0.6, Y: 0.8, Z: 1e-300}}, s2.Point{Vector: r3.Vector{X: 0.6, Y: -0.8, Z: 0}})
	var es []s2.Edge
	for _, a := range pts {
		for _, b := range pts {
			es = append(es, s2.Edge{V0: a, V1: b})
		}
	}
	lex := func(a, b s2.Edge) int {
		x := [6]float64{a.V0.X, a.V0.Y, a.V0.Z, a.V1.X, a.V1.Y, a.V1.Z}
		y := [6]float64{b.V0.X, b.V0.Y, b.V0.Z, b.V1.X, b.V1.Y, b.V1.Z}
		for k := 0; k < 6; k++ {
			if x[k] < y[k] {
				return -1
			}
			if x[k] > y[k] {
				return 1
			}
		}
		return 0
	}
	// ShapeEdgeID.Cmp: lexicographic order of (ShapeID, EdgeID)
	ids := []int32{-1, 0, 1, 2, 1 << 30}
	for _, s1 := range ids {
		for _, e1 := range ids {
			for _, s2_ := range ids {
				for _, e2 := range ids {
					want := 0
					switch {
					case s1 < s2_ || (s1 == s2_ && e1 < e2):
						want = -1
					case s1 > s2_ || e1 > e2:
						want = 1
					}
					c.Eval(1)
					if got := (s2.ShapeEdgeID{ShapeID: s1, EdgeID: e1}).Cmp(s2.ShapeEdgeID{ShapeID: s2_, EdgeID: e2}); got != want {
						c.Violate(sub, "wrong-answer", "ShapeEdgeID.Cmp differs from the lexicographic order of (ShapeID, EdgeID)", []int{int(s1), int(e1), int(s2_), int(e2)}, map[string]any{"got": got, "want": want})
					}
				}
			}
		}
	}
	c.Note("cov_edge_order_edges", len(es))
	c.ParallelFor(len(es), func(i int) {
		if c.Skip(sub, i) {
			return
		}
		ties := 0
		c.Guard(sub, []int{i}, nil, func() {
			for j := range es {
				want := lex(es[i], es[j])
				if es[i].V0.Vector.Cmp(es[j].V0.Vector) == 0 {
					ties++
				}
				if got := es[i].Cmp(es[j]); got != want {
					c.Violate(sub, "wrong-answer", "Edge.Cmp differs from the lexicographic order of (V0, V1)", []int{i, j}, map[string]any{"e": fmt.Sprint(es[i]), "other": fmt.Sprint(es[j]), "got": got, "want": want})
				}
			}
		})
		c.Eval(len(es))
		c.Nontrivial(ties)
		c.Count("cov/edge_order/pairs_with_equal_first_vertex", int64(ties))
	})
}

// C06 coverage extension (part 2): a model-driven judge for one collection, the type-equivalence
// families and the collections that force leaf index cells.

type c06covColl struct {
	name    string
	entries []c06covEntry
	probes  []s2.Point    // extra probes
	qedges  [][2]s2.Point // extra query edges
	targets []s2.CellID   // extra LocateCellID targets
	fixed   []s2.Point    // probes on which the per-shape answers are returned for comparison between collections
}

type c06covAnswers struct {
	perShape []string // per entry: the answers on the fixed probes / fixed query edges
	cells    int
	leaf     int // number of leaf index cells
}

// c06covJudge builds one index and applies every C06 oracle to it.
// c06covSkip is c.Skip for a collection job; a replay of an "index-structure" violation raised by
// c06Structure on one of these collections (case index base+job) re-runs exactly that collection.
func c06covSkip(c *core.Ctx, sub string, base, ji int) bool {
	if c.OnlySub == "index-structure" {
		return len(c.OnlyCase) == 0 || c.OnlyCase[0] != base+ji
	}
	return c.Skip(sub, ji)
}

func c06covJudge(c *core.Ctx, sub string, base, ci int, co c06covColl) (ans c06covAnswers) {
	cas := []int{ci}
	bad := func(desc string, detail map[string]any) {
		if detail == nil {
			detail = map[string]any{}
		}
		detail["collection"] = co.name
		c.Violate(sub, "wrong-answer", desc, cas, detail)
	}
	c.Guard(sub, cas, func() any { return map[string]any{"collection": co.name} }, func() {
		ix := s2.NewShapeIndex()
		var shapes []s2.Shape
		var refs [][]*refmodel.Loop
		var flips []bool
		old := c06Coll{name: co.name}
		for _, en := range co.entries {
			s := en.mk()
			shapes = append(shapes, s)
			ix.Add(s)
			r, f := en.m.init().refs()
			refs = append(refs, r)
			flips = append(flips, f)
			old.shapes = append(old.shapes, c06Shape{name: en.name})
		}
		var evals, nontriv int64
		// --- an iterator positioned at the end of an index whose additions are still pending
		staleEnd := s2.NewShapeIndexIterator(ix, s2.IteratorEnd)
		staleDone := staleEnd.Done()
		stalePrev := staleEnd.Prev()
		staleID := staleEnd.CellID()
		ix.Build()
		dump := ix.VerifIndexDump()
		var ids []s2.CellID
		for _, cell := range dump.Cells {
			ids = append(ids, cell.ID)
			if cell.ID.IsLeaf() {
				ans.leaf++
			}
		}
		ans.cells = len(ids)
		evals++
		if !staleDone {
			bad("NewShapeIndexIterator(index, IteratorEnd): Done() is false at the end position", nil)
		}
		if len(ids) > 0 {
			c.Count("cov/iterator_at_end_of_an_index_with_pending_additions", 1)
			if !stalePrev || staleID != ids[len(ids)-1] {
				c.Violate(sub, "wrong-answer", "NewShapeIndexIterator(index, IteratorEnd) on an index with pending additions: Prev() does not reach the last index cell", cas, map[string]any{"collection": co.name, "prev": stalePrev, "cell": staleID.String(), "want": ids[len(ids)-1].String()})
			}
		}
		// --- shape contract against the model (short form; the long form is cov-shape-contract)
		for si, s := range shapes {
			m := co.entries[si].m
			if s.NumEdges() != len(m.edges) || s.NumChains() != len(m.chains) {
				bad(typeOfEntry(co.entries[si].name)+": NumEdges / NumChains differ from the definitional model", map[string]any{"shape": co.entries[si].name})
				return
			}
		}
		// --- probes
		var probes []s2.Point
		probes = append(probes, co.fixed...)
		probes = append(probes, co.probes...)
		for _, en := range co.entries {
			for e, ed := range en.m.edges {
				probes = append(probes, ed.V0, ed.V1)
				if e%3 == 0 && ed.V0 != ed.V1 {
					probes = append(probes, s2.Interpolate(0.5, ed.V0, ed.V1))
				}
			}
		}
		for k, id := range ids {
			probes = append(probes, id.Point())
			if k%4 == 0 {
				cl := s2.CellFromCellID(id)
				probes = append(probes, cl.Vertex(0), cl.Vertex(2))
			}
		}
		probes = append(probes, lattice.LL(-33, 77), s2.OriginPoint())
		probes = lattice.Dedup(probes)
		nFixed := len(lattice.Dedup(co.fixed))
		models := []s2.VertexModel{s2.VertexModelOpen, s2.VertexModelSemiOpen, s2.VertexModelClosed}
		mname := []string{"Open", "SemiOpen", "Closed"}
		keys := make([]strings.Builder, len(shapes))
		// exact containment and vertex incidence once per (shape, probe)
		inside := make([][]bool, len(shapes))
		isV := make([][]bool, len(shapes))
		for si := range shapes {
			m := co.entries[si].m
			inside[si] = make([]bool, len(probes))
			isV[si] = make([]bool, len(probes))
			for pi, p := range probes {
				isV[si][pi] = m.isVertex(p)
				if m.dim == 2 && !m.noContain {
					inside[si][pi] = m.contains(p)
				}
				if isV[si][pi] {
					nontriv++
				}
			}
		}
		for mi, model := range models {
			q := s2.NewContainsPointQuery(ix, model)
			for pi, p := range probes {
				evals++
				anyWant := false
				var wantIDs, gotIDs []int
				for si, s := range shapes {
					m := co.entries[si].m
					var want bool
					switch {
					case m.dim < 2:
						want = model == s2.VertexModelClosed && isV[si][pi]
					case isV[si][pi] && model == s2.VertexModelOpen:
						want = false
					case isV[si][pi] && model == s2.VertexModelClosed:
						want = true
					default:
						want = inside[si][pi]
					}
					if want {
						anyWant = true
						wantIDs = append(wantIDs, si)
					}
					got := q.ShapeContains(s, p)
					if got != want {
						bad(fmt.Sprintf("ShapeContains (%s model, %s, dimension %d) differs from brute force over all edges", mname[mi], typeOfEntry(co.entries[si].name), m.dim), map[string]any{"shape": co.entries[si].name, "p": ptStr(p), "got": got, "want": want, "is_vertex": isV[si][pi]})
					}
					if pi < nFixed {
						if got {
							keys[si].WriteByte('1')
						} else {
							keys[si].WriteByte('0')
						}
					}
				}
				if got := q.Contains(p); got != anyWant {
					bad(fmt.Sprintf("Contains (%s model) differs from brute force over all shapes", mname[mi]), map[string]any{"p": ptStr(p), "got": got, "want": anyWant})
				}
				for _, s := range q.ContainingShapes(p) {
					for si := range shapes {
						if shapes[si] == s {
							gotIDs = append(gotIDs, si)
						}
					}
				}
				sort.Ints(gotIDs)
				if fmt.Sprint(gotIDs) != fmt.Sprint(wantIDs) {
					bad(fmt.Sprintf("ContainingShapes (%s model) differs from brute force over all shapes", mname[mi]), map[string]any{"p": ptStr(p), "got": gotIDs, "want": wantIDs})
				}
			}
		}
		// --- crossing edge query
		var alpha []s2.Point
		for si, en := range co.entries {
			if n := len(en.m.edges); n > 0 {
				alpha = append(alpha, en.m.edges[0].V0)
				if si%2 == 0 {
					alpha = append(alpha, en.m.edges[n/2].V1)
				}
			}
		}
		if len(ids) > 0 {
			cl := s2.CellFromCellID(ids[len(ids)/2])
			alpha = append(alpha, cl.Vertex(1), cl.Center())
		}
		if len(alpha) > 0 {
			ctr := alpha[0]
			alpha = append(alpha, s2.Point{Vector: ctr.Add(s2.Ortho(ctr).Mul(0.5)).Normalize()}, s2.Point{Vector: ctr.Sub(s2.Ortho(ctr).Mul(0.5)).Normalize()})
		}
		alpha = append(alpha, lattice.LL(5, 170), lattice.LL(-80, 10))
		alpha = lattice.Dedup(alpha)
		if len(alpha) > 9 {
			alpha = alpha[:9]
		}
		qedges := append([][2]s2.Point(nil), co.qedges...)
		nFixedQ := len(qedges)
		for ai := range alpha {
			for bi := range alpha {
				if ai != bi {
					qedges = append(qedges, [2]s2.Point{alpha[ai], alpha[bi]})
				}
			}
		}
		cq := s2.NewCrossingEdgeQuery(ix)
		for qi, qe := range qedges {
			a, b := qe[0], qe[1]
			if a == b || antipodal(a, b) {
				continue
			}
			evals++
			for ti, ct := range []s2.CrossingType{s2.CrossingTypeInterior, s2.CrossingTypeAll} {
				em := cq.CrossingsEdgeMap(a, b, ct)
				seen := 0
				for si, s := range shapes {
					var want []int
					for e := 0; e < s.NumEdges(); e++ {
						ed := s.Edge(e)
						cs := c06covCrossingSign(a, b, ed.V0, ed.V1)
						if cs == refmodel.Cross || (ti == 1 && cs == refmodel.MaybeCross) {
							want = append(want, e)
						}
						if cs == refmodel.MaybeCross && ti == 0 {
							nontriv++
						}
					}
					got := append([]int(nil), cq.Crossings(a, b, s, ct)...)
					sort.Ints(got)
					if fmt.Sprint(got) != fmt.Sprint(want) {
						bad(fmt.Sprintf("Crossings (%s, crossing type %d) differs from the exact crossing test on every edge", typeOfEntry(co.entries[si].name), ti), map[string]any{"a": ptStr(a), "b": ptStr(b), "shape": co.entries[si].name, "got": got, "want": want})
					}
					gm := append([]int(nil), em[s]...)
					if _, ok := em[s]; ok {
						seen++
						if len(gm) == 0 {
							bad("CrossingsEdgeMap returns a shape without crossing edges", map[string]any{"a": ptStr(a), "b": ptStr(b), "shape": co.entries[si].name})
						}
					}
					sort.Ints(gm)
					if fmt.Sprint(gm) != fmt.Sprint(want) {
						bad(fmt.Sprintf("CrossingsEdgeMap (%s, crossing type %d) differs from the exact crossing test on every edge", typeOfEntry(co.entries[si].name), ti), map[string]any{"a": ptStr(a), "b": ptStr(b), "shape": co.entries[si].name, "got": gm, "want": want})
					}
					if qi < nFixedQ {
						// compared between Shape types as undirected vertex pairs: edge ids and directions
						// are the subject of cov-shape-contract
						var und []string
						for _, e := range got {
							ed := s.Edge(e)
							if ed.V0.Cmp(ed.V1.Vector) > 0 {
								ed.V0, ed.V1 = ed.V1, ed.V0
							}
							und = append(und, fmt.Sprint(ed))
						}
						sort.Strings(und)
						h := fnv.New64a()
						h.Write([]byte(strings.Join(und, ";")))
						fmt.Fprintf(&keys[si], "|%d:%x", len(got), h.Sum64())
					}
				}
				if seen != len(em) {
					bad("CrossingsEdgeMap has an entry for a shape that is not in the index", map[string]any{"a": ptStr(a), "b": ptStr(b)})
				}
			}
		}
		// --- structure of the dump (sorted, disjoint, every edge listed, containsCenter)
		c06Structure(c, base+ci, old, shapes, refs, flips, dump)
		// --- iterators
		walk := func(what string, it *s2.ShapeIndexIterator) {
			evals++
			var got []s2.CellID
			for n := 0; !it.Done() && n <= len(ids)+2; n++ {
				got = append(got, it.CellID())
				if it.IndexCell() == nil {
					bad(what+": IndexCell() is nil at a cell of the index", map[string]any{"cell": it.CellID().String()})
				} else if it.Center() != it.CellID().Point() {
					bad(what+": Center() is not the centre of the current cell", nil)
				}
				it.Next()
			}
			if fmt.Sprint(got) != fmt.Sprint(ids) {
				bad(what+": the forward walk differs from the cells of the index", map[string]any{"got": len(got), "want": len(ids)})
			}
			if it.CellID() != s2.SentinelCellID {
				bad(what+": CellID() at the end is not the sentinel", nil)
			}
		}
		back := func(what string, it *s2.ShapeIndexIterator) {
			evals++
			if !it.Done() || it.CellID() != s2.SentinelCellID {
				bad(what+": not Done() / CellID() is not the sentinel at the end position", nil)
			}
			var got []s2.CellID
			for n := 0; n <= len(ids)+2 && it.Prev(); n++ {
				got = append(got, it.CellID())
			}
			for i, j := 0, len(got)-1; i < j; i, j = i+1, j-1 {
				got[i], got[j] = got[j], got[i]
			}
			if fmt.Sprint(got) != fmt.Sprint(ids) {
				bad(what+": the backward walk differs from the cells of the index", map[string]any{"got": len(got), "want": len(ids)})
			}
			if len(ids) > 0 && (it.Done() || it.CellID() != ids[0]) {
				bad(what+": a refused Prev() moved the iterator off the first cell", nil)
			}
		}
		walk("ShapeIndex.Begin()", ix.Begin())
		walk("NewShapeIndexIterator(index, IteratorBegin)", s2.NewShapeIndexIterator(ix, s2.IteratorBegin))
		un := s2.NewShapeIndexIterator(ix)
		un.Begin()
		walk("NewShapeIndexIterator(index) + Begin()", un)
		un.End()
		back("ShapeIndexIterator.End()", un)
		back("ShapeIndex.End()", ix.End())
		back("NewShapeIndexIterator(index, IteratorEnd)", s2.NewShapeIndexIterator(ix, s2.IteratorEnd))
		// LocatePoint / LocateCellID against the definitional model on the dump
		holder := func(leaf s2.CellID) int {
			for k, id := range ids {
				if id.RangeMin() <= leaf && leaf <= id.RangeMax() {
					return k
				}
			}
			return -1
		}
		itB, itE := ix.Begin(), ix.End()
		for _, p := range probes {
			evals++
			k := holder(s2.CellFromPoint(p).ID())
			for wi, it := range []*s2.ShapeIndexIterator{itB, itE} {
				what := []string{"ShapeIndex.Begin()", "ShapeIndex.End()"}[wi]
				ok := it.LocatePoint(p)
				if ok != (k >= 0) || (ok && it.CellID() != ids[k]) {
					bad(what+": LocatePoint differs from the cell of the index that contains the point's leaf cell", map[string]any{"p": ptStr(p), "got": ok, "want": k >= 0})
				}
			}
		}
		var targets []s2.CellID
		targets = append(targets, co.targets...)
		for k, id := range ids {
			if k%3 == 0 || id.IsLeaf() {
				targets = append(targets, id, id.RangeMin(), id.RangeMax())
				if id.Level() > 0 {
					targets = append(targets, id.Parent(id.Level()-1))
				}
				if !id.IsLeaf() {
					targets = append(targets, id.Children()[0], id.Children()[3])
				}
				targets = append(targets, id.Next(), id.Prev())
			}
		}
		for f := 0; f < 6; f++ {
			targets = append(targets, s2.CellIDFromFace(f))
		}
		for _, t := range targets {
			if !t.IsValid() {
				continue
			}
			evals++
			want, pos := s2.Disjoint, s2.CellID(0)
			for _, id := range ids {
				if id.RangeMin() <= t.RangeMin() && t.RangeMax() <= id.RangeMax() {
					want, pos = s2.Indexed, id
					break
				}
			}
			if want == s2.Disjoint {
				for _, id := range ids {
					if t.RangeMin() <= id.RangeMin() && id.RangeMax() <= t.RangeMax() {
						want, pos = s2.Subdivided, id
						break
					}
				}
			}
			if t.IsLeaf() && want == s2.Indexed && pos.IsLeaf() {
				nontriv++
				c.Count("cov/locate_cell_id_leaf_target_in_leaf_cell", 1)
			}
			for wi, it := range []*s2.ShapeIndexIterator{itB, itE} {
				what := []string{"ShapeIndex.Begin()", "ShapeIndex.End()"}[wi]
				got := it.LocateCellID(t)
				if got != want || (want != s2.Disjoint && it.CellID() != pos) {
					bad(what+": LocateCellID differs from the definition evaluated on the cells of the index", map[string]any{"target": t.String(), "target_level": t.Level(), "got": int(got), "want": int(want), "got_cell": it.CellID().String(), "want_cell": pos.String()})
				}
			}
		}
		for si := range shapes {
			ans.perShape = append(ans.perShape, keys[si].String())
		}
		c.Eval(int(evals))
		c.Nontrivial(int(nontriv))
		c.Count("cov/"+sub+"/index_cells", int64(len(ids)))
		c.Count("cov/"+sub+"/leaf_index_cells", int64(ans.leaf))
		c.Count("cov/"+sub+"/probes", int64(len(probes)))
		c.Count("cov/"+sub+"/query_edges", int64(len(qedges)))
		c.Count("cov/"+sub+"/locate_targets", int64(len(targets)))
		if ci%17 == 3 {
			c.Sample(map[string]any{"sub": sub, "collection": co.name, "shapes": len(shapes), "index_cells": len(ids), "leaf_cells": ans.leaf, "probes": len(probes), "query_edges": len(qedges)})
		}
	})
	return ans
}

// ---------------------------------------------------------------------------------------------------
// cov-type-equivalence

func c06covTypeEquivalence(c *core.Ctx) {
	const sub = "cov-type-equivalence"
	cs := lattice.Centres()
	type family struct {
		name     string
		variants []c06covEntry
		fixed    []s2.Point
		qedges   [][2]s2.Point
		context  []c06covEntry // other shapes put into the index together with ONE variant
	}
	var fams []family
	for _, pos := range core.Pick(c, []string{"face-centre", "cube-corner"}, c06covCentres(c)) {
		ctr := cs[pos]
		cat := c06covCatalogue(pos, ctr)
		by := map[string]c06covEntry{}
		for _, en := range cat {
			by[en.name[:lastAt(en.name)]] = en
		}
		v40 := c06covReg(ctr, 8, 40)
		loop1 := &c06covModel{dim: 2, chains: [][]s2.Point{v40}, real: []bool{true}}
		ent := func(name string, mk func() s2.Shape, m *c06covModel) c06covEntry {
			return c06covEntry{name + "@" + pos, mk, m.init(), nil}
		}
		pick := func(names ...string) []c06covEntry {
			var out []c06covEntry
			for _, n := range names {
				en, ok := by[n]
				if !ok {
					panic(core.HarnessError("cov-type-equivalence: no catalogue entry " + n))
				}
				out = append(out, en)
			}
			return out
		}
		fixedOf := func(m *c06covModel) (ps []s2.Point, qs [][2]s2.Point) {
			for e, ed := range m.edges {
				ps = append(ps, ed.V0)
				if e%4 == 0 && ed.V0 != ed.V1 {
					ps = append(ps, s2.Interpolate(0.5, ed.V0, ed.V1), s2.Interpolate(0.25, ed.V0, ctr), s2.Point{Vector: ed.V0.Add(ed.V0.Sub(ctr.Vector).Mul(0.1)).Normalize()})
				}
			}
			ps = append(ps, ctr, s2.Point{Vector: ctr.Mul(-1)}, s2.OriginPoint(), lattice.LL(-33, 77))
			far := c06covOff(ctr, 0.8)
			if len(m.edges) > 0 {
				n := len(m.edges)
				qs = append(qs, [2]s2.Point{ctr, far}, [2]s2.Point{m.edges[0].V0, far}, [2]s2.Point{m.edges[0].V0, m.edges[n/2].V0}, [2]s2.Point{ctr, m.edges[n/3].V1}, [2]s2.Point{c06covOff(ctr, -0.8), far})
			}
			return
		}
		ctx := pick("Polyline(10)", "PointVector(5 with a duplicate)", "Loop(33)")
		// one loop of 40 vertices through six constructors
		p1, q1 := fixedOf(loop1.init())
		fams = append(fams, family{"one loop of 40 vertices@" + pos, []c06covEntry{
			ent("Loop(40)", func() s2.Shape { return s2.LoopFromPoints(v40) }, loop1),
			ent("LaxLoopFromLoop(40)", func() s2.Shape { return s2.LaxLoopFromLoop(s2.LoopFromPoints(v40)) }, loop1),
			ent("LaxLoopFromPoints(40)", func() s2.Shape { return s2.LaxLoopFromPoints(v40) }, loop1),
			ent("LaxPolygonFromPoints(40)", func() s2.Shape { return s2.LaxPolygonFromPoints([][]s2.Point{v40}) }, loop1),
			by["Polygon(1 loop 40)"], by["LaxPolygonFromPolygon(Polygon(1 loop 40))"],
		}, p1, q1, ctx})
		// polygons with holes / many loops: Polygon vs LaxPolygonFromPolygon vs LaxPolygonFromPoints(oriented chains)
		for _, pn := range []string{"Polygon(shell+hole)", "Polygon(2 shells, hole, island)", "Polygon(14 shells)"} {
			m := by[pn].m
			chains := m.chains
			p, q := fixedOf(m)
			fams = append(fams, family{pn + "@" + pos, []c06covEntry{
				by[pn], by["LaxPolygonFromPolygon("+pn+")"],
				ent("LaxPolygonFromPoints(oriented chains of "+pn+")", func() s2.Shape { return s2.LaxPolygonFromPoints(chains) }, &c06covModel{dim: 2, chains: chains, real: m.real, holes: m.holes}),
			}, p, q, ctx})
		}
		// full and empty
		pf, _ := fixedOf(by["Loop(33)"].m)
		fams = append(fams, family{"full@" + pos, pick("FullLoop", "FullPolygon", "LaxPolygonFromPolygon(FullPolygon)", "LaxPolygonFromPoints({})"), pf, [][2]s2.Point{{ctr, c06covOff(ctr, 0.8)}}, ctx})
		fams = append(fams, family{"empty@" + pos, pick("EmptyLoop", "LaxLoopFromLoop(EmptyLoop)", "LaxLoopFromPoints(0)", "Polygon(no loops)", "Polygon(EmptyLoop)", "LaxPolygonFromPolygon(Polygon(no loops))", "LaxPolygonFromPoints(no loops)", "LaxPolygonFromPoints({a,b})", "LaxPolygonFromPoints({x})", "LaxLoopFromPoints(2)"), pf, [][2]s2.Point{{ctr, c06covOff(ctr, 0.8)}}, ctx})
		// polylines
		pl, ql := fixedOf(by["Polyline(10)"].m)
		fams = append(fams, family{"polyline@" + pos, pick("Polyline(10)", "LaxPolylineFromPoints(10)", "LaxPolylineFromPolyline(10)"), pl, ql, pick("Polygon(shell+hole)", "PointVector(1)")})
		pd, qd := fixedOf(by["Polyline(degenerate edges)"].m)
		fams = append(fams, family{"polyline with degenerate edges@" + pos, pick("Polyline(degenerate edges)", "LaxPolylineFromPoints(degenerate edges)", "LaxPolylineFromPolyline(degenerate edges)"), pd, qd, pick("LaxPolygonFromPoints({a,b}, shell)")})
		// degenerate lax polygons whose reference point needs the sorted-edge search, next to the plain shell
		ps, qs := fixedOf(by["LaxPolygonFromPoints({a,b}, shell)"].m)
		fams = append(fams, family{"shell with degeneracies@" + pos, pick("LaxPolygonFromPoints({a,b}, shell)", "LaxPolygonFromPoints({x}, shell)", "LaxPolygonFromPoints(shell, {a,b}, {x})", "LaxPolygonFromPoints(whisker first)", "LaxPolygonFromPoints({}, {a,b})", "LaxPolygonFromPoints({x}, {})"), ps, qs, ctx})
	}
	c.Note("cov_type_equivalence_families", len(fams))
	// collections: every variant alone, every variant with the context, all variants together
	type job struct {
		fam, variant int // variant -1: all together
		withCtx      bool
	}
	var jobs []job
	for fi, f := range fams {
		for vi := range f.variants {
			jobs = append(jobs, job{fi, vi, false})
			if !c.Quick() || vi == 0 || vi == len(f.variants)-1 {
				jobs = append(jobs, job{fi, vi, true})
			}
		}
		jobs = append(jobs, job{fi, -1, false})
	}
	res := make([]c06covAnswers, len(jobs))
	c.ParallelFor(len(jobs), func(ji int) {
		if c.Expired() || c06covSkip(c, sub, 1000000, ji) {
			return
		}
		j := jobs[ji]
		f := fams[j.fam]
		co := c06covColl{fixed: f.fixed, qedges: f.qedges}
		switch {
		case j.variant < 0:
			co.name = "all variants of " + f.name
			co.entries = f.variants
		case j.withCtx:
			co.name = f.variants[j.variant].name + " + context"
			co.entries = append([]c06covEntry{f.variants[j.variant]}, f.context...)
		default:
			co.name = "single:" + f.variants[j.variant].name
			co.entries = []c06covEntry{f.variants[j.variant]}
		}
		res[ji] = c06covJudge(c, sub, 1000000, ji, co)
	})
	if c.OnlySub != "" {
		return
	}
	// the variants of one family answer identically (alone, with the context, and side by side)
	for fi, f := range fams {
		if f.name[:4] == "empt" || f.name[:4] == "shel" {
			// these families hold different edge sets that describe the same REGION: the answers on
			// the vertices of the degeneracies legitimately differ under the open / closed models
			continue
		}
		for _, mode := range []int{0, 1, 2} {
			var first string
			var firstName string
			for ji, j := range jobs {
				if j.fam != fi || len(res[ji].perShape) == 0 {
					continue
				}
				var keys []string
				var names []string
				switch {
				case mode == 2 && j.variant < 0:
					keys, names = res[ji].perShape, nil
					for _, v := range f.variants {
						names = append(names, v.name)
					}
				case mode == 0 && j.variant >= 0 && !j.withCtx, mode == 1 && j.variant >= 0 && j.withCtx:
					keys, names = res[ji].perShape[:1], []string{f.variants[j.variant].name}
				}
				for k := range keys {
					c.Eval(1)
					if firstName == "" {
						first, firstName = keys[k], names[k]
					} else if keys[k] != first {
						c.Violate(sub, "wrong-answer", "the same edges expressed through two Shape types give different index answers", []int{fi, mode}, map[string]any{"family": f.name, "a": firstName, "b": names[k], "mode": []string{"alone", "with context", "side by side"}[mode], "first_difference": firstDiff(first, keys[k])})
					}
				}
			}
		}
	}
}

// ---------------------------------------------------------------------------------------------------
// cov-leaf-piles: more than maxEdgesPerCell (10) edges that no subdivision separates

func c06covLeafPiles(c *core.Ctx) {
	const sub = "cov-leaf-piles"
	type site struct {
		name string
		p    s2.Point
	}
	var sites []site
	gen := lattice.LL(20, 30)
	sites = append(sites, site{"generic point", gen})
	l29 := s2.CellFromPoint(lattice.LL(-41, 100)).ID().Parent(29)
	for k, ch := range l29.Children() {
		sites = append(sites, site{fmt.Sprintf("centre of leaf child %d of a level-29 cell", k), ch.Point()})
	}
	for _, f := range core.Pick(c, []int{0, 5}, []int{0, 1, 2, 3, 4, 5}) {
		sites = append(sites, site{fmt.Sprintf("first leaf of face %d", f), s2.CellIDFromFace(f).ChildBeginAtLevel(30).Point()})
		sites = append(sites, site{fmt.Sprintf("last leaf of face %d", f), s2.CellIDFromFace(f).RangeMax().Point()})
	}
	cs := lattice.Centres()
	sites = append(sites, site{"cube corner", cs["cube-corner"]}, site{"face edge", cs["face-edge"]})
	if !c.Quick() {
		sites = append(sites, site{"face centre", cs["face-centre"]}, site{"north pole", cs["north-pole"]},
			site{"corner of a level-12 cell", s2.CellFromCellID(s2.CellFromPoint(gen).ID().Parent(12)).Vertex(2)})
	}
	sizes := core.Pick(c, []int{12}, []int{10, 11, 12, 25})
	type pile struct {
		name    string
		entries func(p s2.Point, n int) []c06covEntry
	}
	pv := func(name string, pts []s2.Point) c06covEntry {
		m := &c06covModel{dim: 0}
		for _, p := range pts {
			m.chains = append(m.chains, []s2.Point{p})
		}
		return c06covEntry{name, func() s2.Shape { v := s2.PointVector(append([]s2.Point(nil), pts...)); return &v }, m.init(), nil}
	}
	pl := func(name string, pts []s2.Point) c06covEntry {
		m := &c06covModel{dim: 1, chains: [][]s2.Point{pts}}
		return c06covEntry{name, func() s2.Shape { v := s2.Polyline(append([]s2.Point(nil), pts...)); return &v }, m.init(), nil}
	}
	rep := func(p s2.Point, n int) []s2.Point {
		out := make([]s2.Point, n)
		for i := range out {
			out[i] = p
		}
		return out
	}
	piles := []pile{
		{"PointVector of n equal points", func(p s2.Point, n int) []c06covEntry { return []c06covEntry{pv("pile", rep(p, n))} }},
		{"n PointVectors of one point", func(p s2.Point, n int) []c06covEntry {
			var out []c06covEntry
			for i := 0; i < n; i++ {
				out = append(out, pv(fmt.Sprintf("pile-%d", i), []s2.Point{p}))
			}
			return out
		}},
		{"polyline of n degenerate edges", func(p s2.Point, n int) []c06covEntry { return []c06covEntry{pl("pile", rep(p, n+1))} }},
		{"n polylines (v,v)", func(p s2.Point, n int) []c06covEntry {
			var out []c06covEntry
			for i := 0; i < n; i++ {
				out = append(out, pl(fmt.Sprintf("pile-%d", i), []s2.Point{p, p}))
			}
			return out
		}},
		{"n short polylines leaving one vertex in nearly the same direction", func(p s2.Point, n int) []c06covEntry {
			u, v := lattice.GeoFrame(p)
			var out []c06covEntry
			for i := 0; i < n; i++ {
				w := s2.Point{Vector: p.Add(u.Mul(1.1e-9)).Add(v.Mul(float64(i) * 1e-10)).Normalize()}
				out = append(out, pl(fmt.Sprintf("pile-%d", i), []s2.Point{p, w}))
			}
			return out
		}},
	}
	type job struct {
		site, pile, n, combo int
	}
	var jobs []job
	for si := range sites {
		for pi := range piles {
			for _, n := range sizes {
				for combo := 0; combo < 3; combo++ {
					if combo == 1 && c.Quick() {
						continue // combo 2 holds the shapes of combo 1 and two more
					}
					jobs = append(jobs, job{si, pi, n, combo})
				}
			}
		}
	}
	// all four leaf children of the level-29 cell at once
	for pi := range piles {
		jobs = append(jobs, job{-1, pi, 12, 0}, job{-1, pi, 12, 1})
	}
	c.Note("cov_leaf_pile_collections", len(jobs))
	var withLeaf, without int64
	res := make([]c06covAnswers, len(jobs))
	c.ParallelFor(len(jobs), func(ji int) {
		if c.Expired() || c06covSkip(c, sub, 2000000, ji) {
			return
		}
		j := jobs[ji]
		var co c06covColl
		var at []s2.Point
		if j.site < 0 {
			co.name = fmt.Sprintf("%s (n=%d) in each of the four leaf children of a level-29 cell", piles[j.pile].name, j.n)
			for k, ch := range l29.Children() {
				at = append(at, ch.Point())
				for _, en := range piles[j.pile].entries(ch.Point(), j.n) {
					en.name = fmt.Sprintf("%s/child%d", en.name, k)
					co.entries = append(co.entries, en)
				}
			}
		} else {
			co.name = fmt.Sprintf("%s (n=%d) at %s", piles[j.pile].name, j.n, sites[j.site].name)
			at = []s2.Point{sites[j.site].p}
			co.entries = piles[j.pile].entries(at[0], j.n)
		}
		p := at[0]
		u, v := lattice.GeoFrame(p)
		mkp := func(a, b float64) s2.Point { return s2.Point{Vector: p.Add(u.Mul(a)).Add(v.Mul(b)).Normalize()} }
		if j.combo >= 1 {
			// a polygon containing the pile and a polyline with a vertex exactly on it
			ring := c06covReg(mkp(0.003, -0.002), 2, 16)
			co.entries = append(co.entries, c06covEntry{"polygon around the pile", func() s2.Shape { return s2.PolygonFromLoops([]*s2.Loop{s2.LoopFromPoints(ring)}) }, (&c06covModel{dim: 2, chains: [][]s2.Point{ring}, real: []bool{true}}).init(), nil})
			co.entries = append(co.entries, pl("polyline with a vertex on the pile", []s2.Point{mkp(-0.02, 0.01), p, mkp(0.015, 0.02)}))
			co.name += " + polygon + polyline through"
		}
		if j.combo == 2 {
			// a long edge whose interior passes through the pile's leaf cell, and a lax polygon with a vertex on the pile
			co.entries = append(co.entries, pl("polyline whose edge passes over the pile", []s2.Point{mkp(-0.01, 0), mkp(0.01, 0)}))
			tri := []s2.Point{p, mkp(0.01, 0.002), mkp(0.002, 0.01)}
			co.entries = append(co.entries, c06covEntry{"lax triangle with a vertex on the pile", func() s2.Shape { return s2.LaxPolygonFromPoints([][]s2.Point{tri}) }, (&c06covModel{dim: 2, chains: [][]s2.Point{tri}, real: []bool{true}}).init(), nil})
			co.name += " + edge over + lax triangle at"
		}
		for _, q := range at {
			leaf := s2.CellFromPoint(q).ID()
			co.probes = append(co.probes, lattice.PUlp(q, 1)...)
			lc := s2.CellFromCellID(leaf)
			co.probes = append(co.probes, leaf.Point(), lc.Vertex(0), lc.Vertex(1), lc.Vertex(2), lc.Vertex(3), leaf.Next().Point(), leaf.Prev().Point())
			for _, nb := range leaf.EdgeNeighbors() {
				co.probes = append(co.probes, nb.Point())
			}
			qu, qv := lattice.GeoFrame(q)
			mq := func(a, b float64) s2.Point { return s2.Point{Vector: q.Add(qu.Mul(a)).Add(qv.Mul(b)).Normalize()} }
			far := mq(0.3, 0.1)
			co.qedges = append(co.qedges,
				[2]s2.Point{q, far}, [2]s2.Point{far, q}, [2]s2.Point{q, mq(1e-9, 0)}, [2]s2.Point{q, mq(0, 3e-9)},
				[2]s2.Point{mq(-0.01, 0), mq(0.01, 0)}, [2]s2.Point{mq(0, -0.01), mq(0, 0.01)}, [2]s2.Point{mq(-1e-8, 2e-9), mq(1e-8, 2e-9)},
				[2]s2.Point{mq(-0.01, 1e-9), mq(0.01, 1e-9)}, [2]s2.Point{mq(5e-10, -1e-8), mq(5e-10, 1e-8)}, [2]s2.Point{mq(-0.01, 1e-8), mq(0.01, -1e-8)},
				[2]s2.Point{leaf.Point(), far}, [2]s2.Point{lc.Vertex(0), lc.Vertex(2)})
			for _, lv := range []int{29, 28, 20, 10, 1, 0} {
				a := leaf.Parent(lv)
				co.targets = append(co.targets, a, a.RangeMin(), a.RangeMax(), a.Next(), a.Prev())
				if lv < 29 {
					co.targets = append(co.targets, a.Children()[0], a.Children()[3])
				}
			}
			co.targets = append(co.targets, leaf, leaf.Next(), leaf.Prev(), leaf.Parent(29).Children()[0], leaf.Parent(29).Children()[1], leaf.Parent(29).Children()[2], leaf.Parent(29).Children()[3])
		}
		res[ji] = c06covJudge(c, sub, 2000000, ji, co)
		c.Nontrivial(res[ji].leaf)
	})
	for ji, j := range jobs {
		if res[ji].cells == 0 {
			continue
		}
		if res[ji].leaf > 0 {
			withLeaf++
		} else {
			without++
			if j.n >= 12 && c.OnlySub == "" {
				panic(core.HarnessError(fmt.Sprintf("cov-leaf-piles: a pile of %d inseparable edges produced no leaf index cell (job %d)", j.n, ji)))
			}
		}
	}
	c.Count("cov/leaf_piles/collections_with_leaf_cells", withLeaf)
	c.Count("cov/leaf_piles/collections_without_leaf_cells", without)
}

// C06 coverage extension (part 3): ClipEdge, ClipToFace / ClipToPaddedFace, loop-pair relations.

const (
	c06covEps           = 2.220446049250313e-16 // dblEpsilon of golang/geo
	c06covEdgeClipErr   = 2.25 * c06covEps      // edgeClipErrorUVCoord (edge_clipping.go)
	c06covFaceClipErrUV = 9 * c06covEps         // faceClipErrorUVDist
)

// ---------------------------------------------------------------------------------------------------
// cov-clip-edge
//
// Lattice: all segments between the points of a coordinate alphabet squared (multiples of 1/4, 1/3,
// 1-ulp neighbours of 1/2: vertical, horizontal, degenerate, diagonal segments through rectangle
// corners and 1 ulp next to them) x rectangles over a boundary alphabet (incl. degenerate ones).
// All inside [-1,1]^2 as the documented error bound requires.  Oracle: exact rational clipping
// (Liang-Barsky over big.Rat).
//
//	intersects == true : both returned points lie in the rectangle and in the bounding box of AB,
//	                     and within edgeClipErrorUVCoord (per coordinate) of a point of the exact
//	                     segment; when the exact intersection is not empty they are within that
//	                     error of the exact clipped endpoints
//	intersects == false: the exact segment misses the rectangle shrunk by the error on every side

// exact dyadic arithmetic without division: parameters are fractions with a positive denominator
type c06covFrac struct{ n, d exact.S }

func (a c06covFrac) cmp(b c06covFrac) int { return a.n.Mul(b.d).Cmp(b.n.Mul(a.d)) }

type c06covRatSeg struct{ ax, ay, dx, dy exact.S }

func c06covRat(x float64) exact.S { return exact.FromFloat(x) }

func c06covNewRatSeg(a, b r2.Point) c06covRatSeg {
	ax, ay, bx, by := c06covRat(a.X), c06covRat(a.Y), c06covRat(b.X), c06covRat(b.Y)
	return c06covRatSeg{ax, ay, bx.Sub(ax), by.Sub(ay)}
}

// clip returns the parameter range of the segment inside the closed box.
func (s c06covRatSeg) clip(lox, hix, loy, hiy exact.S) (hit bool, t0, t1 c06covFrac) {
	t0, t1 = c06covFrac{exact.Int(0), exact.Int(1)}, c06covFrac{exact.Int(1), exact.Int(1)}
	edge := func(p, q exact.S) bool { // p*t <= q
		if p.Sign() == 0 {
			return q.Sign() >= 0
		}
		if p.Sign() < 0 {
			r := c06covFrac{q.Neg(), p.Neg()}
			if r.cmp(t1) > 0 {
				return false
			}
			if r.cmp(t0) > 0 {
				t0 = r
			}
			return true
		}
		r := c06covFrac{q, p}
		if r.cmp(t0) < 0 {
			return false
		}
		if r.cmp(t1) < 0 {
			t1 = r
		}
		return true
	}
	hit = edge(s.dx.Neg(), s.ax.Sub(lox)) && edge(s.dx, hix.Sub(s.ax)) && edge(s.dy.Neg(), s.ay.Sub(loy)) && edge(s.dy, hiy.Sub(s.ay))
	return
}

// cmpX / cmpY compare a coordinate of the point at parameter t with a bound.
func (s c06covRatSeg) cmpX(t c06covFrac, bound exact.S) int {
	return s.ax.Mul(t.d).Add(t.n.Mul(s.dx)).Cmp(bound.Mul(t.d))
}
func (s c06covRatSeg) cmpY(t c06covFrac, bound exact.S) int {
	return s.ay.Mul(t.d).Add(t.n.Mul(s.dy)).Cmp(bound.Mul(t.d))
}

func (s c06covRatSeg) at(t c06covFrac) (x, y float64) {
	f := func(a, d exact.S) float64 {
		num, _ := a.Mul(t.d).Add(t.n.Mul(d)).Big(200).Float64()
		den, _ := t.d.Big(200).Float64()
		return num / den
	}
	return f(s.ax, s.dx), f(s.ay, s.dy)
}

func c06covClipEdge(c *core.Ctx) {
	const sub = "cov-clip-edge"
	up := func(x float64) float64 { return math.Nextafter(x, 2) }
	dn := func(x float64) float64 { return math.Nextafter(x, -2) }
	coords := []float64{-1, -0.5, up(-0.5), -0.25, 0, 1. / 3, 0.5, up(0.5), 1}
	ivs := [][2]float64{{-0.5, 0.5}, {0, 0.5}, {-1, 1}, {0.5, 0.5}, {-0.5, 1. / 3}}
	if !c.Quick() {
		ivs = append(ivs, [2]float64{0.25, 0.75})
		coords = append(coords, -2./3, dn(-0.5), dn(0.5), dn(1), up(-1), 5e-324)
		ivs = append(ivs, [2]float64{-1, -0.5}, [2]float64{up(-0.5), dn(0.5)}, [2]float64{1. / 3, 1. / 3}, [2]float64{-0.25, 0.1})
	}
	var pts []r2.Point
	for _, x := range coords {
		for _, y := range coords {
			pts = append(pts, r2.Point{X: x, Y: y})
		}
	}
	var rects []r2.Rect
	for _, ix := range ivs {
		for _, iy := range ivs {
			rects = append(rects, r2.RectFromPoints(r2.Point{X: ix[0], Y: iy[0]}, r2.Point{X: ix[1], Y: iy[1]}))
		}
	}
	c.Note("cov_clip_edge_lattice", fmt.Sprintf("%d points^2 x %d rectangles", len(pts), len(rects)))
	errR := c06covRat(c06covEdgeClipErr)
	type rr struct{ lox, hix, loy, hiy, slox, shix, sloy, shiy exact.S }
	rrs := make([]rr, len(rects))
	for i, r := range rects {
		x := rr{lox: c06covRat(r.X.Lo), hix: c06covRat(r.X.Hi), loy: c06covRat(r.Y.Lo), hiy: c06covRat(r.Y.Hi)}
		x.slox, x.shix = x.lox.Add(errR), x.hix.Sub(errR)
		x.sloy, x.shiy = x.loy.Add(errR), x.hiy.Sub(errR)
		rrs[i] = x
	}
	c.ParallelFor(len(pts), func(ai int) {
		if c.Expired() {
			return
		}
		var evals, hits, graze, tolTrue, tolFalse, clippedBoth, trivial, denormal int64
		for bi := range pts {
			a, b := pts[ai], pts[bi]
			seg := c06covNewRatSeg(a, b)
			bound := r2.RectFromPoints(a, b)
			for ri, clip := range rects {
				if c.Skip(sub, ai, bi, ri) {
					continue
				}
				evals++
				cas := []int{ai, bi, ri}
				detail := func() any { return map[string]any{"a": fmt.Sprint(a), "b": fmt.Sprint(b), "clip": clip.String()} }
				c.Guard(sub, cas, detail, func() {
					ac, bc, ok := s2.ClipEdge(a, b, clip)
					// two exact shortcuts that need no rational arithmetic (comparisons of the inputs)
					if !bound.Intersects(clip) {
						trivial++
						if ok {
							c.Violate(sub, "wrong-answer", "ClipEdge reports an intersection although the bounding box of AB misses the rectangle", cas, detail())
						}
						return
					}
					if clip.ContainsPoint(a) && clip.ContainsPoint(b) {
						trivial++
						if !ok || math.Abs(ac.X-a.X) > c06covEdgeClipErr || math.Abs(ac.Y-a.Y) > c06covEdgeClipErr || math.Abs(bc.X-b.X) > c06covEdgeClipErr || math.Abs(bc.Y-b.Y) > c06covEdgeClipErr {
							c.Violate(sub, "wrong-answer", "ClipEdge changes a segment that lies inside the rectangle", cas, detail())
						}
						return
					}
					R := rrs[ri]
					hit, t0, t1 := seg.clip(R.lox, R.hix, R.loy, R.hiy)
					if hit {
						hits++
						if t0.cmp(t1) == 0 && (a != b) {
							graze++
						}
						if t0.n.Sign() > 0 && t1.n.Cmp(t1.d) < 0 {
							clippedBoth++
						}
					}
					bad := func(desc string, extra map[string]any) {
						d := map[string]any{"a": fmt.Sprint(a), "b": fmt.Sprint(b), "clip": clip.String(), "a_clipped": fmt.Sprint(ac), "b_clipped": fmt.Sprint(bc), "intersects": ok, "exact_intersects": hit}
						for k, v := range extra {
							d[k] = v
						}
						c.Violate(sub, "wrong-answer", desc, cas, d)
					}
					if !ok {
						if hit {
							tolFalse++
						}
						if R.slox.Cmp(R.shix) <= 0 && R.sloy.Cmp(R.shiy) <= 0 {
							if deep, _, _ := seg.clip(R.slox, R.shix, R.sloy, R.shiy); deep {
								desc := "ClipEdge reports no intersection although the exact segment meets the rectangle shrunk by edgeClipErrorUVCoord"
								// the coordinate difference that interpolateFloat64 multiplies: in the denormal range
								// its product with (x-a) is rounded to a whole denormal (recorded finding, own descriptor)
								const minNormal = 2.2250738585072014e-308
								dx, dy := math.Abs(b.X-a.X), math.Abs(b.Y-a.Y)
								if (dx != 0 && dx < minNormal) || (dy != 0 && dy < minNormal) {
									desc += " [coordinate difference in the denormal range: interpolateFloat64 is not monotone there]"
									denormal++
								}
								bad(desc, nil)
							}
						}
						return
					}
					if !hit {
						tolTrue++
					}
					for k, p := range []r2.Point{ac, bc} {
						which := []string{"first", "second"}[k]
						if !clip.ContainsPoint(p) {
							bad("ClipEdge: a clipped endpoint lies outside the clip rectangle", map[string]any{"endpoint": which})
						}
						if !bound.ContainsPoint(p) {
							bad("ClipEdge: a clipped endpoint lies outside the bounding box of AB", map[string]any{"endpoint": which})
						}
						px, py := c06covRat(p.X), c06covRat(p.Y)
						if near, _, _ := seg.clip(px.Sub(errR), px.Add(errR), py.Sub(errR), py.Add(errR)); !near {
							bad("ClipEdge: a clipped endpoint is further than edgeClipErrorUVCoord from the exact segment AB", map[string]any{"endpoint": which})
						}
					}
					if hit {
						// no part of the exact intersection is lost: its two ends lie in the bounding box of
						// the returned segment grown by the error
						got := r2.RectFromPoints(ac, bc)
						for k, t := range []c06covFrac{t0, t1} {
							if seg.cmpX(t, c06covRat(got.X.Lo).Sub(errR)) < 0 || seg.cmpX(t, c06covRat(got.X.Hi).Add(errR)) > 0 ||
								seg.cmpY(t, c06covRat(got.Y.Lo).Sub(errR)) < 0 || seg.cmpY(t, c06covRat(got.Y.Hi).Add(errR)) > 0 {
								fx, fy := seg.at(t)
								bad("ClipEdge: an end of the exact intersection lies outside the returned segment by more than edgeClipErrorUVCoord", map[string]any{"end": []string{"first", "second"}[k], "exact": fmt.Sprintf("(%v, %v)", fx, fy)})
							}
						}
					}
				})
			}
		}
		c.Eval(int(evals))
		c.Nontrivial(int(clippedBoth + graze))
		c.Count("cov/clip_edge/decided_by_bounding_boxes", trivial)
		c.Count("cov/clip_edge/lost_intersections_with_a_denormal_coordinate_difference", denormal)
		c.Count("cov/clip_edge/exact_intersections", hits)
		c.Count("cov/clip_edge/clipped_at_both_ends", clippedBoth)
		c.Count("cov/clip_edge/exact_intersection_is_one_point", graze)
		c.Count("cov/clip_edge/true_within_tolerance_of_an_empty_exact_result", tolTrue)
		c.Count("cov/clip_edge/false_within_tolerance_of_a_nonempty_exact_result", tolFalse)
	})
	if c.Expired() {
		c.CapHit("cov-clip-edge: wall budget reached")
	}
	c.Sample(map[string]any{"sub": sub, "a": fmt.Sprint(pts[1]), "b": fmt.Sprint(pts[len(pts)-3]), "clip": rects[0].String()})
}

// ---------------------------------------------------------------------------------------------------
// cov-clip-face
//
// Lattice: all ordered pairs of unit points built from a (u,v) alphabet on every face (face corners,
// face-edge points, interior points) x 6 faces x paddings.  Exact side: A, B in the face's (u,v,w)
// frame; "the edge meets the face" decided by exact determinants against the four boundary arcs of
// the UNPADDED face; configurations with a vanishing determinant are undetermined and only counted.
//
//	result false: the exact edge must not definitely meet the unpadded face
//	result true, padding 0 (ClipToFace: "the test for face intersection is exact"): the exact edge
//	              must not definitely miss the face
//	result true : the returned (u,v) lie in [-R,R]^2, R = 1+padding, and within
//	              faceClipErrorUVDist * R of the exact line AB in (u,v) space

func c06covClipFace(c *core.Ctx) {
	const sub = "cov-clip-face"
	up := func(x float64) float64 { return math.Nextafter(x, 2) }
	dn := func(x float64) float64 { return math.Nextafter(x, -2) }
	uvs := []float64{-1, -0.5, 0, 1. / 3, 1}
	pads := []float64{0, 2 * (0.5*c06covEps + 4.5*c06covEps)}
	if !c.Quick() {
		uvs = append(uvs, dn(1), up(-1), 0.75)
		pads = append(pads, 1e-9, 0.01)
	}
	var pts []s2.Point
	for f := 0; f < 6; f++ {
		for _, u := range uvs {
			for _, v := range uvs {
				pts = append(pts, s2.Point{Vector: faceUVToXYZ(f, u, v).Normalize()})
			}
		}
	}
	pts = lattice.Dedup(pts)
	c.Note("cov_clip_face_lattice", fmt.Sprintf("%d points^2 x 6 faces x %d paddings", len(pts), len(pads)))
	corners := [4]exact.V{}
	for k, cv := range [][2]float64{{-1, -1}, {1, -1}, {1, 1}, {-1, 1}} {
		corners[k] = exact.FromVector(r3.Vector{X: cv[0], Y: cv[1], Z: 1})
	}
	c.ParallelFor(len(pts), func(ai int) {
		if c.Expired() {
			return
		}
		var evals, defI, defD, undet, trues int64
		for bi := range pts {
			a, b := pts[ai], pts[bi]
			if antipodal(a, b) {
				continue
			}
			for f := 0; f < 6; f++ {
				A, B := faceCoords(f, a), faceCoords(f, b)
				N := A.Cross(B)
				// "inside the face" and "crosses a boundary arc" are decided exactly; a configuration counts
				// as determined only when every quantity that decides it is also robustly away from zero
				// (|value| > 1e-12 for unit-scale vectors): the documented exactness of the face test is
				// exactness with respect to the computed normal of AB, which carries a rounding error.
				const robust = 1e-12
				Af, Bf := A.Float(), B.Float()
				inside := func(X exact.V, Xf r3.Vector) (closed, strict bool) {
					w := X.Comp(2)
					if w.Sign() <= 0 {
						return false, false
					}
					closed, strict = true, true
					for k := 0; k < 2; k++ {
						x := X.Comp(k)
						if x.Sign() < 0 {
							x = x.Neg()
						}
						switch x.Cmp(w) {
						case 1:
							closed, strict = false, false
						case 0:
							strict = false
						}
					}
					if math.Abs(Xf.Z-math.Abs(Xf.X)) < robust || math.Abs(Xf.Z-math.Abs(Xf.Y)) < robust || Xf.Z < robust {
						strict = false
						if !closed {
							closed = math.Abs(Xf.Z) < robust || (Xf.Z > 0 && math.Abs(Xf.X) <= Xf.Z+robust && math.Abs(Xf.Y) <= Xf.Z+robust)
						}
					}
					return
				}
				ca, sa := inside(A, Af)
				cb, sb := inside(B, Bf)
				anyCross, zero := false, false
				fdet := func(a, b, c r3.Vector) float64 { return a.Dot(b.Cross(c)) }
				for k := 0; k < 4; k++ {
					C, D := corners[k], corners[(k+1)%4]
					Cf, Df := C.Float(), D.Float()
					if math.Abs(fdet(Af, Cf, Bf)) < robust || math.Abs(fdet(Cf, Bf, Df)) < robust || math.Abs(fdet(Bf, Df, Af)) < robust || math.Abs(fdet(Df, Af, Cf)) < robust {
						zero = true
						continue
					}
					s1, s2_, s3, s4 := exact.Det3(A, C, B).Sign(), exact.Det3(C, B, D).Sign(), exact.Det3(B, D, A).Sign(), exact.Det3(D, A, C).Sign()
					if s1 == s2_ && s2_ == s3 && s3 == s4 {
						anyCross = true
					}
				}
				definitelyMeets := sa || sb || anyCross
				definitelyMisses := !zero && !ca && !cb && !anyCross
				switch {
				case definitelyMeets:
					defI++
				case definitelyMisses:
					defD++
				default:
					undet++
				}
				for pi, pad := range pads {
					if c.Skip(sub, ai, bi, f, pi) {
						continue
					}
					evals++
					cas := []int{ai, bi, f, pi}
					detail := func() any {
						return map[string]any{"a": ptStr(a), "b": ptStr(b), "face": f, "padding": pad}
					}
					c.Guard(sub, cas, detail, func() {
						au, bu, ok := s2.ClipToPaddedFace(a, b, f, pad)
						bad := func(desc string, extra map[string]any) {
							d := map[string]any{"a": ptStr(a), "b": ptStr(b), "face": f, "padding": pad, "a_uv": fmt.Sprint(au), "b_uv": fmt.Sprint(bu), "intersects": ok}
							for k, v := range extra {
								d[k] = v
							}
							c.Violate(sub, "wrong-answer", desc, cas, d)
						}
						if pad == 0 {
							au2, bu2, ok2 := s2.ClipToFace(a, b, f)
							if ok2 != ok || (ok && (au2 != au || bu2 != bu)) {
								bad("ClipToFace differs from ClipToPaddedFace with padding 0", nil)
							}
						}
						if !ok {
							if definitelyMeets {
								bad("ClipToPaddedFace reports no intersection although the exact edge meets the (unpadded) face", nil)
							}
							return
						}
						trues++
						if pad == 0 && definitelyMisses {
							bad("ClipToFace reports an intersection although the exact edge misses the face", nil)
						}
						R := 1 + pad
						for k, p := range []r2.Point{au, bu} {
							which := []string{"first", "second"}[k]
							if math.Abs(p.X) > R || math.Abs(p.Y) > R || math.IsNaN(p.X) || math.IsNaN(p.Y) {
								bad("ClipToPaddedFace: a clipped vertex lies outside the (padded) face square", map[string]any{"vertex": which})
							}
							// distance from (u,v) to the exact line N.(u,v,1) = 0
							nu, nv := N.Comp(0), N.Comp(1)
							den := nu.Mul(nu).Add(nv.Mul(nv))
							if den.Sign() == 0 {
								continue
							}
							P := exact.FromVector(r3.Vector{X: p.X, Y: p.Y, Z: 1})
							num := N.Dot(P)
							tol := exact.FromFloat(c06covFaceClipErrUV * R)
							if num.Mul(num).Cmp(tol.Mul(tol).Mul(den)) > 0 {
								bad("ClipToPaddedFace: a clipped vertex is further than faceClipErrorUVDist from the exact line AB", map[string]any{"vertex": which})
							}
						}
					})
				}
			}
		}
		c.Eval(int(evals))
		c.Nontrivial(int(undet))
		c.Count("cov/clip_face/exact_edge_definitely_meets_face", defI)
		c.Count("cov/clip_face/exact_edge_definitely_misses_face", defD)
		c.Count("cov/clip_face/undetermined_touching_configurations", undet)
		c.Count("cov/clip_face/result_true", trues)
	})
	if c.Expired() {
		c.CapHit("cov-clip-face: wall budget reached")
	}
}

// ---------------------------------------------------------------------------------------------------
// cov-loop-relations
//
// Loop.Contains(Loop) / Intersects(Loop) walk the two loop indexes with two range iterators
// (seekTo / seekBeyond) and use CrossingEdgeQuery.getCells inside a cell with many edges.  Lattice:
// large loops with few long edges (coarse index cells, whole faces in the interior) x regular 64-gons
// and 24-gons of small radius at centres inside / outside / across an edge / on a vertex region of the
// large loop, both argument orders.  Filter: no shared vertex (the wedge rules are another property).
// Oracle (brute force over all edge pairs + exact point containment): with X = "some edge of A
// properly crosses some edge of B", a = "B contains vertex 0 of A", b = "A contains vertex 0 of B":
// A.Intersects(B) == X or a or b;  A.Contains(B) == not X and b and not a.

func c06covLoopRelations(c *core.Ctx) {
	const sub = "cov-loop-relations"
	x := s2.Point{Vector: r3.Vector{X: 1}}
	type nl struct {
		name string
		v    []s2.Point
	}
	bigs := []nl{
		{"regular(8, 80deg)@+x", c06covReg(x, 80, 8)},
		{"regular(4, 30deg)@+x", c06covReg(x, 30, 4)},
		{"regular(4, 30deg)@+x reversed", c06covRev(c06covReg(x, 30, 4))},
	}
	if !c.Quick() {
		bigs = append(bigs, nl{"regular(5, 100deg)@cube-corner", c06covReg(lattice.Centres()["cube-corner"], 100, 5)},
			nl{"regular(3, 55deg)@generic", c06covReg(lattice.LL(20, 30), 55, 3)},
			nl{"regular(8, 80deg)@+x reversed", c06covRev(c06covReg(x, 80, 8))})
	}
	var smalls []nl
	for _, ctr := range []struct {
		name string
		p    s2.Point
	}{
		{"+x", x}, {"(10,12)", lattice.LL(10, 12)}, {"(0,29.5)", lattice.LL(0, 29.5)}, {"(21,21)", lattice.LL(21, 21)}, {"(0,78)", lattice.LL(0, 78)},
		{"(50,60)", lattice.LL(50, 60)}, {"-x", s2.Point{Vector: r3.Vector{X: -1}}}, {"(0,120)", lattice.LL(0, 120)}, {"(-3,81)", lattice.LL(-3, 81)},
	} {
		for _, r := range core.Pick(c, []float64{0.5, 3}, []float64{0.05, 0.5, 3, 12}) {
			for _, n := range core.Pick(c, []int{64}, []int{24, 64, 200}) {
				smalls = append(smalls, nl{fmt.Sprintf("regular(%d, %gdeg)@%s", n, r, ctr.name), c06covReg(ctr.p, r, n)})
				if r == 3 || !c.Quick() {
					smalls = append(smalls, nl{fmt.Sprintf("regular(%d, %gdeg)@%s reversed", n, r, ctr.name), c06covRev(c06covReg(ctr.p, r, n))})
				}
			}
		}
	}
	type job struct{ a, b int }
	var jobs []job
	for ai := range bigs {
		for bi := range smalls {
			jobs = append(jobs, job{ai, bi})
		}
	}
	c.Note("cov_loop_relation_pairs", len(jobs))
	c.ParallelFor(len(jobs), func(ji int) {
		if c.Expired() || c.Skip(sub, ji) {
			return
		}
		A, B := bigs[jobs[ji].a], smalls[jobs[ji].b]
		cas := []int{ji}
		detail := func() any { return map[string]any{"A": A.name, "B": B.name} }
		c.Guard(sub, cas, detail, func() {
			shared := false
			cross := false
			for i := range A.v {
				a0, a1 := A.v[i], A.v[(i+1)%len(A.v)]
				for j := range B.v {
					switch c06covCrossingSign(a0, a1, B.v[j], B.v[(j+1)%len(B.v)]) {
					case refmodel.MaybeCross:
						shared = true
					case refmodel.Cross:
						cross = true
					}
				}
			}
			if shared {
				c.Count("cov/loop_relations/filtered_shared_vertex", 1)
				return
			}
			ra, rb := refmodel.NewLoop(A.v), refmodel.NewLoop(B.v)
			aInB, bInA := rb.Contains(A.v[0]), ra.Contains(B.v[0])
			la, lb := s2.LoopFromPoints(A.v), s2.LoopFromPoints(B.v)
			type rel struct {
				name      string
				got, want bool
			}
			rels := []rel{
				{"A.Intersects(B)", la.Intersects(lb), cross || aInB || bInA},
				{"B.Intersects(A)", lb.Intersects(la), cross || aInB || bInA},
				{"A.Contains(B)", la.Contains(lb), !cross && bInA && !aInB},
				{"B.Contains(A)", lb.Contains(la), !cross && aInB && !bInA},
			}
			kind := "disjoint"
			switch {
			case cross:
				kind = "boundaries_cross"
			case bInA && aInB:
				kind = "union_is_the_sphere"
			case bInA:
				kind = "A_contains_B"
			case aInB:
				kind = "B_contains_A"
			}
			c.Count("cov/loop_relations/"+kind, 1)
			for _, r := range rels {
				if r.got != r.want {
					role := "large.X(small)"
					if r.name[0] == 'B' {
						role = "small.X(large)"
					}
					c.Violate(sub, "wrong-answer", "Loop."+r.name[2:len(r.name)-3]+" ("+role+") differs from brute force over all edge pairs and exact vertex containment", cas, map[string]any{"A": A.name, "B": B.name, "relation": r.name, "got": r.got, "want": r.want, "configuration": kind})
				}
			}
			c.Eval(4)
			if kind != "disjoint" {
				c.Nontrivial(1)
			}
			if ji == 3 {
				c.Sample(map[string]any{"sub": sub, "A": A.name, "B": B.name, "configuration": kind})
			}
		})
	})
}
