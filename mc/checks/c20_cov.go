package checks

import (
	"fmt"
	"math"
	"sort"
	"sync"
	_ "unsafe" // go:linkname (the two inverse functions of the snappers are unexported and have no exported caller)

	"github.com/golang/geo/r2"
	"github.com/golang/geo/r3"
	"github.com/golang/geo/s1"
	"github.com/golang/geo/s2"

	"verif/mc/core"
	"verif/mc/exact"
	"verif/mc/lattice"
)

// C20, coverage extension.  Code behind the property that the sub-checks of
// c20.go / c20_ops.go never execute:
//
//	snap-declared         the four quantities every snap function DECLARES (SnapRadius,
//	                      MaxEdgeDeviation, MinVertexSeparation, MinEdgeVertexSeparation) for
//	                      IdentitySnapper, CellIDSnapper (levels 0..30 + the default) and
//	                      IntLatLngSnapper (exponents 0..10): a definitional model built from the
//	                      documented bounds, the documented ranges, monotonicity.
//	snap-sites-cellid     MinVertexSeparation judged on real sites: distinct cell centres at
//	snap-sites-intlatlng  face centres / face edges / cube corners, grid points next to each other
//	                      in latitude, longitude, diagonally, near the poles, at the critical
//	                      latitude acos(1/3), across the antimeridian; exact (320 bit) distances.
//	snap-inverse          levelForMaxSnapRadius / exponentForMaxSnapRadius against
//	                      minSnapRadiusForLevel / minSnapRadiusForExponent.
//	projection-api        Projection.Interpolate, WrapDistance, WrapDestination (edges crossing
//	                      the antimeridian both ways, exactly half a period, many periods),
//	                      FromLatLng / ToLatLng and their round trips.
//
// Nothing here samples: every lattice below is a finite product that is walked completely.

func init() {
	ck := Registry["C20"]
	run := ck.Run
	ck.Run = func(c *core.Ctx) {
		run(c)
		c20Cov(c)
	}
}

//go:linkname c20covLevelForMaxSnapRadius github.com/golang/geo/s2.CellIDSnapper.levelForMaxSnapRadius
func c20covLevelForMaxSnapRadius(sf s2.CellIDSnapper, r s1.Angle) int

//go:linkname c20covMinSnapRadiusForLevel github.com/golang/geo/s2.CellIDSnapper.minSnapRadiusForLevel
func c20covMinSnapRadiusForLevel(sf s2.CellIDSnapper, level int) s1.Angle

//go:linkname c20covExponentForMaxSnapRadius github.com/golang/geo/s2.IntLatLngSnapper.exponentForMaxSnapRadius
func c20covExponentForMaxSnapRadius(sf s2.IntLatLngSnapper, r s1.Angle) int

//go:linkname c20covMinSnapRadiusForExponent github.com/golang/geo/s2.IntLatLngSnapper.minSnapRadiusForExponent
func c20covMinSnapRadiusForExponent(sf s2.IntLatLngSnapper, e int) s1.Angle

const (
	c20covEps = 2.220446049250313e-16 // the library's dblEpsilon

	// the documented metric derivatives of the quadratic projection (s2/metric.go doc comments)
	c20covMinEdgeDeriv = 2 * math.Sqrt2 / 3 // 0.943
	c20covMaxDiagDeriv = 2.438654594434021032
	c20covMinDiagDeriv = 8 * math.Sqrt2 / 9 // 1.257
)

func c20Cov(c *core.Ctx) {
	c.Rule += "; coverage extension: declared quantities of every snapper (3 kinds x all levels / exponents / 9 identity radii) against the documented bounds; MinVertexSeparation on every pair of distinct cell centres of a per-level structural set (face corner / edge / centre coordinates on all six faces, all pairs closer than 3 cell widths) and on every pair of lat-lng grid points (structural latitudes incl. acos(1/3) and the poles x structural longitudes incl. the antimeridian x offsets up to 2x3 grid steps), a pair closer than the declared separation being a violation only when a witness shows that both can be selected (a point at least SnapRadius from the first site that snaps to the second); inverse functions on every level / exponent x 9 factors + specials; Projection.Interpolate on 13 fractions x all planar point pairs, WrapDestination on all pairs of 75 (quick 45) x-coordinates spanning five periods, FromLatLng/ToLatLng on a lat x lng lattice with +-180, +-90, 0, -0.  Non-trivial there: a pair of sites closer than three cell widths, a radius that is not the exact minimum of a level, an edge that needs wrapping, a round trip that is not bit-identical"
	c.Assume = append(c.Assume,
		"coverage extension: distances between sites are evaluated with exact.HPAngle (320 bits) on the float64 coordinates the library returned",
		"the site-selection rule of Builder is the one its documentation states: a new site SnapPoint(v) is selected only when v is at least SnapRadius away from every existing site",
		"levelForMaxSnapRadius / exponentForMaxSnapRadius / minSnapRadiusFor* are reached through go:linkname (they are unexported and not exported by verif_export.go)")
	c20CovDeclared(c)
	c20CovSitesCellID(c)
	c20CovSitesIntLatLng(c)
	c20CovInverse(c)
	c20CovProjectionAPI(c)
}

// within reports |got-want| <= k ulps of want (plus one denormal).
func c20covWithin(got, want float64, k float64) bool {
	return math.Abs(got-want) <= k*c20covEps*math.Abs(want)+5e-324
}

// ---------------------------------------------------------------------------
// declared quantities

type c20covDecl struct {
	name              string
	r, med, mvs, mevs float64
}

func c20covDeclOf(name string, sn s2.Snapper) c20covDecl {
	return c20covDecl{name, float64(sn.SnapRadius()), float64(sn.MaxEdgeDeviation()), float64(sn.MinVertexSeparation()), float64(sn.MinEdgeVertexSeparation())}
}

func (d c20covDecl) detail() any {
	return map[string]any{"snapper": d.name, "SnapRadius": d.r, "MaxEdgeDeviation": d.med, "MinVertexSeparation": d.mvs, "MinEdgeVertexSeparation": d.mevs}
}

func c20CovDeclared(c *core.Ctx) {
	sub := "snap-declared"
	var cases, nt int64
	bad := func(idx []int, d c20covDecl, desc string) {
		c.Violate(sub, "wrong-answer", desc, idx, d.detail())
	}
	// common to all three kinds: the edge deviation is the documented 10% more than the snap radius
	common := func(idx []int, kind string, d c20covDecl) {
		if !(d.med >= d.r) {
			bad(idx, d, kind+".MaxEdgeDeviation() is smaller than SnapRadius()")
		}
		if !c20covWithin(d.med, 1.1*d.r, 2) {
			bad(idx, d, kind+".MaxEdgeDeviation() is not the documented 1.1 x SnapRadius()")
		}
		if d.r < 0 || d.mvs < 0 || d.mevs < 0 || math.IsNaN(d.r+d.med+d.mvs+d.mevs) {
			bad(idx, d, kind+": a declared quantity is negative or NaN")
		}
	}

	// ---- IdentitySnapper
	base := append([]s2.Point(nil), lattice.PStruct(2)...)
	for _, l := range c20Alphabet(c) {
		base = append(base, c20PointDeg(l))
	}
	radii := []float64{0, 1e-300, 1e-15, 1e-9, 1e-5, 0.01, 1, 70 * math.Pi / 180, 1.0 / 3}
	for i, r := range radii {
		idx := []int{0, i}
		if c.Skip(sub, idx...) {
			continue
		}
		c.Guard(sub, idx, func() any { return map[string]any{"snapper": "NewIdentitySnapper", "radius": r} }, func() {
			sn := s2.NewIdentitySnapper(s1.Angle(r))
			d := c20covDeclOf(fmt.Sprintf("NewIdentitySnapper(%g)", r), sn)
			cases++
			if r > 0 {
				nt++
			}
			common(idx, "IdentitySnapper", d)
			if d.r != r {
				bad(idx, d, "IdentitySnapper.SnapRadius() is not the radius it was constructed with")
			}
			if d.mvs != r {
				bad(idx, d, "IdentitySnapper.MinVertexSeparation() is not SnapRadius() (documented: no vertex pair is closer than snapRadius)")
			}
			if d.mevs != 0.5*r {
				bad(idx, d, "IdentitySnapper.MinEdgeVertexSeparation() is not the documented 0.5 x SnapRadius()")
			}
			moved := 0
			for _, p := range base {
				if sn.SnapPoint(p) != p {
					moved++
				}
			}
			cases += int64(len(base))
			if moved > 0 {
				bad(idx, d, "IdentitySnapper.SnapPoint is not the identity")
			}
		})
	}
	c.Count(sub+"/identity_radii", int64(len(radii)))
	c.Count(sub+"/identity_points_per_radius", int64(len(base)))

	// ---- CellIDSnapper: levels 0..30 and the default constructor (index 31)
	var cell [32]c20covDecl
	for li := 0; li < 32; li++ {
		idx := []int{1, li}
		if c.Skip(sub, idx...) {
			continue
		}
		level := li
		name := fmt.Sprintf("CellIDSnapperForLevel(%d)", li)
		c.Guard(sub, idx, func() any { return map[string]any{"snapper": name} }, func() {
			var sn s2.CellIDSnapper
			if li == 31 {
				sn, level, name = s2.NewCellIDSnapper(), s2.MaxLevel, "NewCellIDSnapper()"
			} else {
				sn = s2.CellIDSnapperForLevel(li)
			}
			d := c20covDeclOf(name, sn)
			cell[li] = d
			cases++
			nt++
			common(idx, "CellIDSnapper", d)
			minEdge := math.Ldexp(c20covMinEdgeDeriv, -level)
			maxDiag := math.Ldexp(c20covMaxDiagDeriv, -level)
			minDiag := math.Ldexp(c20covMinDiagDeriv, -level)
			// documented: half the maximum diagonal plus 4 dblEpsilon of conversion error
			want := 0.5*maxDiag + 4*c20covEps
			if !(d.r >= want*(1-c20covEps)) {
				bad(idx, d, "CellIDSnapper.SnapRadius() is below the documented 0.5*MaxDiag(level) + 4*dblEpsilon")
			}
			if !(d.r <= want*(1+1e-9)+4*c20covEps) {
				bad(idx, d, "CellIDSnapper.SnapRadius() is not approximately half the maximum cell diagonal of the level")
			}
			// documented: the maximum of three bounds; "between 0.5*snapRadius and snapRadius"
			hi := math.Max(minEdge, math.Max(2/math.Sqrt(13)*d.r, d.r-0.5*maxDiag))
			if !(d.mvs >= minEdge*(1-c20covEps)) {
				bad(idx, d, "CellIDSnapper.MinVertexSeparation() is below the documented constant bound MinEdge(level)")
			}
			if !(d.mvs <= hi*(1+4*c20covEps)) {
				bad(idx, d, "CellIDSnapper.MinVertexSeparation() exceeds the largest of its three documented bounds")
			}
			if !(d.mvs >= 0.5*d.r && d.mvs <= d.r) {
				bad(idx, d, "CellIDSnapper.MinVertexSeparation() is outside the documented range [0.5, 1] x SnapRadius()")
			}
			// documented: at the minimum snap radius between 0.5 (plane) and 0.5652980068 (sphere) x MinDiag(level);
			// never below 0.219 x snapRadius
			if !(d.mevs >= 0.5*minDiag && d.mevs <= 0.5652980068*minDiag) {
				bad(idx, d, "CellIDSnapper.MinEdgeVertexSeparation() at the minimum snap radius is outside the documented [0.5, 0.5652980068] x MinDiag(level)")
			}
			if !(d.mevs >= 0.219*d.r) {
				bad(idx, d, "CellIDSnapper.MinEdgeVertexSeparation() is below the documented 0.219 x SnapRadius()")
			}
		})
	}
	if c.OnlySub == "" {
		for l := 1; l <= 30; l++ {
			a, b := cell[l-1], cell[l]
			cases++
			if !(b.r < a.r && b.med < a.med && b.mvs < a.mvs && b.mevs < a.mevs) {
				c.Violate(sub, "wrong-answer", "CellIDSnapper: a declared quantity does not decrease from one level to the next finer one", []int{1, l}, []any{a.detail(), b.detail()})
			}
		}
		if a, b := cell[30], cell[31]; a.r != b.r || a.med != b.med || a.mvs != b.mvs || a.mevs != b.mevs {
			c.Violate(sub, "wrong-answer", "NewCellIDSnapper() does not declare the quantities of the level (MaxLevel) it snaps to", []int{1, 31}, []any{a.detail(), b.detail()})
		}
	}

	// ---- IntLatLngSnapper: exponents 0..10
	var ill [11]c20covDecl
	for e := 0; e <= 10; e++ {
		idx := []int{2, e}
		if c.Skip(sub, idx...) {
			continue
		}
		name := fmt.Sprintf("NewIntLatLngSnapper(%d)", e)
		c.Guard(sub, idx, func() any { return map[string]any{"snapper": name} }, func() {
			sn := s2.NewIntLatLngSnapper(e)
			d := c20covDeclOf(name, sn)
			ill[e] = d
			cases++
			nt++
			common(idx, "IntLatLngSnapper", d)
			unit := math.Pi / 180 / math.Pow(10, float64(e)) // grid step in radians
			errTerm := (9*math.Sqrt2 + 1.5) * c20covEps
			want := unit/math.Sqrt2 + errTerm
			if !(d.r >= want*(1-2*c20covEps)) {
				bad(idx, d, "IntLatLngSnapper.SnapRadius() is below the documented (1/sqrt2) x 10^-exponent degrees + (9*sqrt2+1.5)*dblEpsilon")
			}
			if !(d.r <= want*(1+1e-9)) {
				bad(idx, d, "IntLatLngSnapper.SnapRadius() is not approximately (1/sqrt2) x 10^-exponent degrees")
			}
			// documented: the maximum of two bounds, the proportional one being at most sqrt2/3
			hi := math.Max(math.Sqrt2/3*d.r, d.r-unit/math.Sqrt2)
			lo := math.Max(0.47*d.r, d.r-unit/math.Sqrt2)
			if !(d.mvs <= hi*(1+4*c20covEps)) {
				bad(idx, d, "IntLatLngSnapper.MinVertexSeparation() exceeds the larger of its two documented bounds")
			}
			if !(d.mvs >= lo*(1-4*c20covEps)) {
				bad(idx, d, "IntLatLngSnapper.MinVertexSeparation() is below the larger of its two documented bounds")
			}
			// documented: the maximum of three bounds; never below 0.222 x snapRadius
			hi2 := math.Max(unit/math.Sqrt(13), math.Max(2.0/9*d.r, 0.5*d.mvs/d.r*d.mvs))
			if !(d.mevs <= hi2*(1+8*c20covEps)) {
				bad(idx, d, "IntLatLngSnapper.MinEdgeVertexSeparation() exceeds the largest of its three documented bounds")
			}
			if !(d.mevs >= 0.222*d.r) {
				bad(idx, d, "IntLatLngSnapper.MinEdgeVertexSeparation() is below the documented 0.222 x SnapRadius()")
			}
			if !(d.mevs <= d.r && d.mvs <= d.r) {
				bad(idx, d, "IntLatLngSnapper: a guaranteed separation exceeds SnapRadius() (both are documented as fractions of it)")
			}
		})
	}
	if c.OnlySub == "" {
		for e := 1; e <= 10; e++ {
			a, b := ill[e-1], ill[e]
			cases++
			if !(b.r < a.r && b.med < a.med && b.mvs < a.mvs && b.mevs < a.mevs) {
				c.Violate(sub, "wrong-answer", "IntLatLngSnapper: a declared quantity does not decrease from one exponent to the next", []int{2, e}, []any{a.detail(), b.detail()})
			}
		}
	}
	c.Eval(int(cases))
	c.Nontrivial(int(nt))
	c.Count(sub+"/snappers_judged", nt)
	c.Sample(map[string]any{"sub": sub, "example": cell[12].detail()})
	c.Sample(map[string]any{"sub": sub, "example": ill[7].detail()})
}

// ---------------------------------------------------------------------------
// MinVertexSeparation on real sites

func c20covStToUV(s float64) float64 {
	if s >= 0.5 {
		return (1 / 3.) * (4*s*s - 1)
	}
	return (1 / 3.) * (1 - 4*(1-s)*(1-s))
}

func c20covFaceUV(face int, u, v float64) r3.Vector {
	switch face {
	case 0:
		return r3.Vector{X: 1, Y: u, Z: v}
	case 1:
		return r3.Vector{X: -u, Y: 1, Z: v}
	case 2:
		return r3.Vector{X: -u, Y: -v, Z: 1}
	case 3:
		return r3.Vector{X: -1, Y: -v, Z: -u}
	case 4:
		return r3.Vector{X: v, Y: -1, Z: -u}
	}
	return r3.Vector{X: v, Y: u, Z: -1}
}

// c20covExactLess reports dist(a,b) < x, the distance being evaluated at 320 bits.
func c20covExactLess(a, b r3.Vector, x float64) bool {
	return exact.HPAngle(exact.FromVector(a), exact.FromVector(b)).Cmp(exact.HP(x)) < 0
}

func c20covExactDist(a, b r3.Vector) float64 {
	return exact.HPFloat64(exact.HPAngle(exact.FromVector(a), exact.FromVector(b)))
}

// c20covExactDistLess returns the distance (rounded, for reporting) and whether the exact one is < x.
func c20covExactDistLess(a, b r3.Vector, x float64) (float64, bool) {
	d := exact.HPAngle(exact.FromVector(a), exact.FromVector(b))
	return exact.HPFloat64(d), d.Cmp(exact.HP(x)) < 0
}

type c20covCell struct {
	f, i, j int
	p       s2.Point
}

func c20covCoords(c *core.Ctx, level int) []int {
	n := 1 << uint(level)
	cand := []int{0, 1, n / 4, n/2 - 1, n / 2, n - 2, n - 1}
	if !c.Quick() {
		cand = append(cand, 2, n/4-1, n/2-2, n/2+1, n-3, n/8, 3*n/4)
	}
	set := map[int]bool{}
	for _, x := range cand {
		if x >= 0 && x < n {
			set[x] = true
		}
	}
	var out []int
	for x := range set {
		out = append(out, x)
	}
	sort.Ints(out)
	return out
}

func c20CovSitesCellID(c *core.Ctx) {
	sub := "snap-sites-cellid"
	var mu sync.Mutex
	var cases, near, edgeN, diagN, otherSame, cross, closer, witnessed, notFixed int64
	minRatio := math.Inf(1)
	minRatioAt := ""
	worst := &c20Worst{}
	c.ParallelFor(32, func(li int) {
		level := li
		var sn s2.CellIDSnapper
		name := fmt.Sprintf("CellIDSnapperForLevel(%d)", li)
		if li == 31 {
			sn, level, name = s2.NewCellIDSnapper(), s2.MaxLevel, "NewCellIDSnapper()"
		} else {
			sn = s2.CellIDSnapperForLevel(li)
		}
		r, mvs := float64(sn.SnapRadius()), float64(sn.MinVertexSeparation())
		coords := c20covCoords(c, level)
		n := float64(int64(1) << uint(level))
		sh := uint(30 - level)
		var cells []c20covCell
		var nf int64
		c.Guard(sub, []int{li}, func() any { return map[string]any{"snapper": name} }, func() {
			for f := 0; f < 6; f++ {
				for _, i := range coords {
					for _, j := range coords {
						ideal := lattice.FaceSiTiPoint(f, uint32((2*int64(i)+1)<<sh), uint32((2*int64(j)+1)<<sh))
						// the site the library produces for this cell
						p := sn.SnapPoint(ideal)
						if p != ideal {
							nf++
							c.Violate(sub, "wrong-answer", "CellIDSnapper.SnapPoint of a cell centre of the snapper's level is not that centre", []int{li, f, i, j},
								map[string]any{"snapper": name, "centre": [3]float64{ideal.X, ideal.Y, ideal.Z}, "snapped": [3]float64{p.X, p.Y, p.Z}})
							continue
						}
						cells = append(cells, c20covCell{f, i, j, p})
					}
				}
			}
		})
		// witness: a point of cell b that is at least SnapRadius from site a and snaps to b
		witness := func(a, b c20covCell) (s2.Point, bool) {
			for _, ds := range []float64{-7. / 16, 7. / 16, -0.25, 0.25} {
				for _, dt := range []float64{-7. / 16, 7. / 16, -0.25, 0.25} {
					s, t := (float64(b.i)+0.5+ds)/n, (float64(b.j)+0.5+dt)/n
					v := s2.Point{Vector: c20covFaceUV(b.f, c20covStToUV(s), c20covStToUV(t)).Normalize()}
					if sn.SnapPoint(v) == b.p && !c20covExactLess(v.Vector, a.p.Vector, r) {
						return v, true
					}
				}
			}
			return s2.Point{}, false
		}
		lim := 3 * math.Ldexp(1, -level)
		var cs, nr, en, dn, os, cr, cl, wi int64
		mr, mrAt := math.Inf(1), ""
		for x := 0; x < len(cells); x++ {
			for y := x + 1; y < len(cells); y++ {
				a, b := cells[x], cells[y]
				cs++
				if level > 1 && a.p.Sub(b.p.Vector).Norm() >= lim {
					continue // farther than three cell widths: not neighbours
				}
				idx := []int{li, x, y}
				if c.Skip(sub, idx...) {
					continue
				}
				nr++
				switch di, dj := a.i-b.i, a.j-b.j; {
				case a.f != b.f:
					cr++
				case di*di+dj*dj == 1:
					en++
				case di*di == 1 && dj*dj == 1:
					dn++
				default:
					os++
				}
				d, less := c20covExactDistLess(a.p.Vector, b.p.Vector, mvs)
				if ratio := d / mvs; ratio < mr {
					mr, mrAt = ratio, fmt.Sprintf("%s faces %d,%d cells (%d,%d) (%d,%d)", name, a.f, b.f, a.i, a.j, b.i, b.j)
				}
				if !less {
					continue
				}
				cl++
				v, ok := witness(a, b)
				if !ok {
					v, ok = witness(b, a)
					a, b = b, a
				}
				if !ok {
					continue
				}
				wi++
				worst.add("CellIDSnapper.MinVertexSeparation(): two distinct cell centres that can both be selected as sites (the second is SnapPoint of a point at least SnapRadius() from the first) are closer than the declared minimum vertex separation", "bound-exceeded", -d/mvs, idx, func() any {
					return map[string]any{"snapper": name, "site1": [3]float64{a.p.X, a.p.Y, a.p.Z}, "site2": [3]float64{b.p.X, b.p.Y, b.p.Z},
						"site1_face_i_j": [3]int{a.f, a.i, a.j}, "site2_face_i_j": [3]int{b.f, b.i, b.j},
						"input_vertex_snapping_to_site2": [3]float64{v.X, v.Y, v.Z}, "its_distance_from_site1_rad": c20covExactDist(v.Vector, a.p.Vector),
						"SnapRadius": r, "MinVertexSeparation": mvs, "distance_rad_320bit": d, "ratio": d / mvs}
				})
			}
		}
		mu.Lock()
		cases += cs
		near += nr
		edgeN += en
		diagN += dn
		otherSame += os
		cross += cr
		closer += cl
		witnessed += wi
		notFixed += nf
		if mr < minRatio {
			minRatio, minRatioAt = mr, mrAt
		}
		mu.Unlock()
	})
	worst.flush(c, sub)
	c.Eval(int(cases))
	c.Nontrivial(int(near))
	c.Count(sub+"/pairs_of_distinct_cell_centres", cases)
	c.Count(sub+"/pairs_closer_than_3_cell_widths(distance evaluated at 320 bits)", near)
	c.Count(sub+"/edge_neighbours_on_one_face", edgeN)
	c.Count(sub+"/diagonal_neighbours_on_one_face", diagN)
	c.Count(sub+"/second_ring_on_one_face", otherSame)
	c.Count(sub+"/pairs_on_different_faces(across a cube edge or corner)", cross)
	c.Count(sub+"/pairs_closer_than_MinVertexSeparation", closer)
	c.Count(sub+"/of_those_with_a_witness_that_both_can_be_selected", witnessed)
	c.Note("snap_sites_cellid_min_distance_over_MinVertexSeparation", minRatio)
	c.Note("snap_sites_cellid_min_distance_over_MinVertexSeparation_at", minRatioAt)
	c.Sample(map[string]any{"sub": sub, "closest_pair_relative_to_declared_separation": minRatioAt, "ratio": minRatio})
	if c.OnlySub == "" && (edgeN == 0 || diagN == 0 || cross == 0) {
		panic(core.HarnessError("C20 snap-sites-cellid: a neighbour class is empty"))
	}
}

type c20covGrid struct {
	a, b int64 // latitude / longitude in grid steps (normalised)
	p    s2.Point
}

func c20CovSitesIntLatLng(c *core.Ctx) {
	sub := "snap-sites-intlatlng"
	var mu sync.Mutex
	var cases, sameLat, sameLng, diag, polar, anti, closer, witnessed, offGrid int64
	minRatio := math.Inf(1)
	minRatioAt := ""
	minWitRatio := math.Inf(1)
	worst := &c20Worst{}
	crit := math.Acos(1.0/3) * 180 / math.Pi // where cos(lat) = 1/3: the proportional bound is tight here
	c.ParallelFor(11, func(e int) {
		sn := s2.NewIntLatLngSnapper(e)
		r, mvs := float64(sn.SnapRadius()), float64(sn.MinVertexSeparation())
		pow := math.Pow(10, float64(e)) // exact
		P := int64(pow)
		unit := math.Pi / 180 / pow
		norm := func(a, b int64) (int64, int64, bool) {
			if a > 90*P || a < -90*P {
				return 0, 0, false
			}
			for b > 180*P {
				b -= 360 * P
			}
			for b <= -180*P {
				b += 360 * P
			}
			if a == 90*P || a == -90*P {
				b = 0 // one site whatever the longitude
			}
			return a, b, true
		}
		ideal := func(a, b int64) s2.Point { return c20PointDeg(c20LL{float64(a) / pow, float64(b) / pow}) }
		sites := map[[2]int64]c20covGrid{}
		var og int64
		site := func(a, b int64) (c20covGrid, bool) {
			k := [2]int64{a, b}
			if g, ok := sites[k]; ok {
				return g, g.p != (s2.Point{})
			}
			id := ideal(a, b)
			p := sn.SnapPoint(id)
			// documented error of a snapped position: (9*sqrt2+1.5)*dblEpsilon < 3.2e-15
			if c20Angle(p.Vector, id.Vector) > 4e-15 {
				og++
				c.Violate(sub, "wrong-answer", "IntLatLngSnapper.SnapPoint of a grid point is not that grid point (to within the documented rounding)", []int{e, int(a % 1000), int(b % 1000)},
					map[string]any{"exponent": e, "lat_steps": a, "lng_steps": b, "grid_point": [3]float64{id.X, id.Y, id.Z}, "snapped": [3]float64{p.X, p.Y, p.Z}})
				sites[k] = c20covGrid{a: a, b: b}
				return c20covGrid{}, false
			}
			g := c20covGrid{a, b, p}
			sites[k] = g
			return g, true
		}
		// witness: a point of the lat-lng cell of g2 that is at least SnapRadius from site g1
		// and that the library snaps to g2
		witness := func(g1, g2 c20covGrid) (s2.Point, s2.Point, bool) {
			for _, dl := range []float64{0, 1e-12, 1e-9, 1e-6, 1. / 4096, 1. / 64, 0.125} {
				for _, sa := range []float64{-1, 1, 0} {
					for _, sb := range []float64{-1, 1, 0} {
						if sa == 0 && sb == 0 {
							continue
						}
						lat := (float64(g2.a) + sa*(0.5-dl)) / pow
						lng := (float64(g2.b) + sb*(0.5-dl)) / pow
						if math.Abs(lat) > 90 {
							continue
						}
						v := c20PointDeg(c20LL{lat, lng})
						s := sn.SnapPoint(v)
						if s != g2.p && c20Angle(s.Vector, g2.p.Vector) > 4e-15 {
							continue
						}
						if c20covExactLess(v.Vector, g1.p.Vector, r) || !c20covExactLess(g1.p.Vector, s.Vector, mvs) {
							continue
						}
						return v, s, true
					}
				}
			}
			return s2.Point{}, s2.Point{}, false
		}
		latSet, lngSet := map[int64]bool{}, map[int64]bool{}
		for _, deg := range core.Pick(c, []float64{0, 45, 60, 89}, []float64{0, 10, 30, 45, 60, 70, 75, 80, 85, 88, 89}) {
			latSet[int64(math.Round(deg*pow))] = true
		}
		for k := int64(-2); k <= 3; k++ {
			latSet[int64(math.Floor(crit*pow))+k] = true
		}
		for k := int64(0); k <= 3; k++ {
			latSet[90*P-k] = true
		}
		for a := range latSet {
			latSet[-a] = true
		}
		for _, b := range []int64{0, 1, 90 * P, -90 * P, 180 * P, 180*P - 1, 180*P - 2, -180*P + 1, -180*P + 2} {
			lngSet[b] = true
		}
		if !c.Quick() {
			for _, deg := range []float64{-37, 45, 135, -120} {
				lngSet[int64(math.Round(deg*pow))] = true
			}
		}
		var lats, lngs []int64
		for a := range latSet {
			lats = append(lats, a)
		}
		for b := range lngSet {
			lngs = append(lngs, b)
		}
		sort.Slice(lats, func(i, j int) bool { return lats[i] < lats[j] })
		sort.Slice(lngs, func(i, j int) bool { return lngs[i] < lngs[j] })
		maxDa, maxDb := core.Pick(c, int64(2), int64(3)), core.Pick(c, int64(3), int64(6))
		done := map[[4]int64]bool{}
		var cs, sl, sg, dg, po, an, cl, wi int64
		mr, mrAt, mwr := math.Inf(1), "", math.Inf(1)
		for ai, a0 := range lats {
			for bi, b0 := range lngs {
				c.Guard(sub, []int{e, ai, bi}, func() any { return map[string]any{"exponent": e, "lat_steps": a0, "lng_steps": b0} }, func() {
					a1, b1, ok := norm(a0, b0)
					if !ok {
						return
					}
					g1, ok := site(a1, b1)
					if !ok {
						return
					}
					for da := -maxDa; da <= maxDa; da++ {
						for db := -maxDb; db <= maxDb; db++ {
							idx := []int{e, ai, bi, int(da + maxDa), int(db + maxDb)}
							if c.Skip(sub, idx...) {
								continue
							}
							a2, b2, ok := norm(a0+da, b0+db)
							if !ok || (a2 == a1 && b2 == b1) {
								continue // outside the grid, or the same site
							}
							key := [4]int64{a1, b1, a2, b2}
							if a2 < a1 || (a2 == a1 && b2 < b1) {
								key = [4]int64{a2, b2, a1, b1}
							}
							if done[key] {
								continue
							}
							done[key] = true
							g2, ok := site(a2, b2)
							if !ok {
								continue
							}
							cs++
							switch {
							case a1 == 90*P || a1 == -90*P || a2 == 90*P || a2 == -90*P:
								po++
							case (b1 > 0) != (b2 > 0) && (b1 > 90*P || b1 < -90*P):
								an++
							case a1 == a2:
								sl++
							case b1 == b2:
								sg++
							default:
								dg++
							}
							d, less := c20covExactDistLess(g1.p.Vector, g2.p.Vector, mvs)
							if ratio := d / mvs; ratio < mr {
								mr, mrAt = ratio, fmt.Sprintf("exponent %d: (%d,%d) and (%d,%d) grid steps", e, a1, b1, a2, b2)
							}
							if !less {
								continue
							}
							// closer than declared (meridians converge): a violation only if both can be selected
							cl++
							h1, h2 := g1, g2
							v, s, ok := witness(h1, h2)
							if !ok {
								h1, h2 = g2, g1
								v, s, ok = witness(h1, h2)
							}
							if !ok {
								continue
							}
							wi++
							c.Count(fmt.Sprintf("%s/witnessed_pairs_closer_than_declared/exponent_%02d", sub, e), 1)
							dw := c20covExactDist(h1.p.Vector, s.Vector)
							mwr = math.Min(mwr, dw/mvs)
							worst.add("IntLatLngSnapper.MinVertexSeparation(): two distinct grid points that can both be selected as sites (the second is SnapPoint of a point at least SnapRadius() from the first) are closer than the declared minimum vertex separation (the proportional bound sqrt2/3 x snapRadius is the planar value; the documentation says it is smaller on the sphere and must be reduced)", "bound-exceeded", -dw/mvs, idx, func() any {
								return map[string]any{"exponent": e, "site1_lat_lng_steps": [2]int64{h1.a, h1.b}, "site2_lat_lng_steps": [2]int64{h2.a, h2.b},
									"site1": [3]float64{h1.p.X, h1.p.Y, h1.p.Z}, "site2": [3]float64{s.X, s.Y, s.Z},
									"input_vertex_snapping_to_site2": [3]float64{v.X, v.Y, v.Z}, "its_distance_from_site1_rad": c20covExactDist(v.Vector, h1.p.Vector),
									"SnapRadius": r, "MinVertexSeparation": mvs, "distance_rad_320bit": dw, "ratio": dw / mvs, "grid_step_rad": unit}
							})
						}
					}
				})
			}
		}
		mu.Lock()
		cases += cs
		sameLat += sl
		sameLng += sg
		diag += dg
		polar += po
		anti += an
		closer += cl
		witnessed += wi
		offGrid += og
		if mr < minRatio {
			minRatio, minRatioAt = mr, mrAt
		}
		minWitRatio = math.Min(minWitRatio, mwr)
		mu.Unlock()
	})
	worst.flush(c, sub)
	c.Eval(int(cases))
	c.Nontrivial(int(cases))
	c.Count(sub+"/pairs_of_distinct_grid_points(distance evaluated at 320 bits)", cases)
	c.Count(sub+"/same_latitude", sameLat)
	c.Count(sub+"/same_longitude", sameLng)
	c.Count(sub+"/diagonal_or_farther", diag)
	c.Count(sub+"/one_site_is_a_pole", polar)
	c.Count(sub+"/across_the_antimeridian", anti)
	c.Count(sub+"/pairs_closer_than_MinVertexSeparation(converging meridians)", closer)
	c.Count(sub+"/of_those_with_a_witness_that_both_can_be_selected", witnessed)
	c.Note("snap_sites_intlatlng_min_distance_over_MinVertexSeparation(all pairs, admissible or not)", minRatio)
	c.Note("snap_sites_intlatlng_min_distance_over_MinVertexSeparation_at", minRatioAt)
	if !math.IsInf(minWitRatio, 0) {
		c.Note("snap_sites_intlatlng_min_distance_over_MinVertexSeparation(witnessed pairs)", minWitRatio)
	}
	c.Sample(map[string]any{"sub": sub, "closest_pair_relative_to_declared_separation": minRatioAt, "ratio": minRatio})
	if c.OnlySub == "" && (sameLat == 0 || sameLng == 0 || diag == 0 || polar == 0 || anti == 0 || closer == 0) {
		panic(core.HarnessError("C20 snap-sites-intlatlng: a pair class is empty"))
	}
}

// ---------------------------------------------------------------------------
// inverse functions

func c20CovInverse(c *core.Ctx) {
	sub := "snap-inverse"
	var cases, nt int64
	outcomes := map[string]int64{}
	factors := []float64{1, 1 + 1e-9, 1 - 1e-9, 1.001, 0.999, 1.5, 0.75}

	// ---- CellIDSnapper
	var R [31]float64
	for l := 0; l <= 30; l++ {
		R[l] = float64(s2.CellIDSnapperForLevel(l).SnapRadius())
	}
	wantLevel := func(r float64) int { // the minimum level whose cells never move a vertex by more than r
		for l := 0; l <= 30; l++ {
			if R[l] <= r {
				return l
			}
		}
		return 30 // documented: out of range values are clamped
	}
	type rad struct {
		r    float64
		what string
	}
	var radii []rad
	for l := 0; l <= 30; l++ {
		for _, f := range factors {
			radii = append(radii, rad{R[l] * f, fmt.Sprintf("minSnapRadiusForLevel(%d) x %v", l, f)})
		}
		radii = append(radii, rad{math.Nextafter(R[l], 4), fmt.Sprintf("minSnapRadiusForLevel(%d) + 1 ulp", l)},
			rad{math.Nextafter(R[l], 0), fmt.Sprintf("minSnapRadiusForLevel(%d) - 1 ulp", l)})
	}
	for _, r := range []float64{0, -1, 1e-30, 1e-300, 5, 70 * math.Pi / 180, math.Inf(1), 4 * c20covEps, 2 * c20covEps, 8 * c20covEps} {
		radii = append(radii, rad{r, "special value"})
	}
	receivers := []s2.CellIDSnapper{s2.CellIDSnapperForLevel(0), s2.NewCellIDSnapper(), s2.CellIDSnapperForLevel(17)}
	for l := 0; l <= 30; l++ {
		for ri, rc := range receivers {
			cases++
			if got := float64(c20covMinSnapRadiusForLevel(rc, l)); got != R[l] {
				c.Violate(sub, "wrong-answer", "CellIDSnapper.minSnapRadiusForLevel(level) differs from the SnapRadius() of CellIDSnapperForLevel(level)", []int{0, l, ri},
					map[string]any{"level": l, "minSnapRadiusForLevel": got, "SnapRadius": R[l]})
			}
		}
	}
	for i, rd := range radii {
		for ri, rc := range receivers {
			idx := []int{1, i, ri}
			if c.Skip(sub, idx...) {
				continue
			}
			detail := func() any { return map[string]any{"snap_radius": rd.r, "which": rd.what} }
			c.Guard(sub, idx, detail, func() {
				got := c20covLevelForMaxSnapRadius(rc, s1.Angle(rd.r))
				want := wantLevel(rd.r)
				cases++
				if ri == 0 {
					if rd.r != R[want] {
						nt++
					}
					outcomes[fmt.Sprintf("level/%02d", got)]++
				}
				if got != want {
					desc := "CellIDSnapper.levelForMaxSnapRadius does not return the minimum level whose minimum snap radius is at most the argument"
					if got >= 0 && got <= 30 && R[got] > rd.r {
						desc = "CellIDSnapper.levelForMaxSnapRadius returns a level whose cells can move a vertex by more than the argument"
					}
					if got < 0 || got > 30 {
						desc = "CellIDSnapper.levelForMaxSnapRadius returns an invalid level"
					}
					c.Violate(sub, "wrong-answer", desc, idx, map[string]any{"snap_radius": rd.r, "which": rd.what, "returned_level": got, "expected_level": want})
				}
			})
		}
	}

	// ---- IntLatLngSnapper
	var E [11]float64
	for e := 0; e <= 10; e++ {
		E[e] = float64(s2.NewIntLatLngSnapper(e).SnapRadius())
	}
	wantExp := func(r float64) int {
		for e := 0; e <= 10; e++ {
			if E[e] <= r {
				return e
			}
		}
		return 10
	}
	efactors := []float64{1, 1 + 1e-9, 1 - 1e-9, 1.001, 0.999, 3, 0.5}
	var eradii []rad
	for e := 0; e <= 10; e++ {
		for _, f := range efactors {
			eradii = append(eradii, rad{E[e] * f, fmt.Sprintf("minSnapRadiusForExponent(%d) x %v", e, f)})
		}
	}
	for _, r := range []float64{0, -1, 1e-30, 5, 70 * math.Pi / 180} {
		eradii = append(eradii, rad{r, "special value"})
	}
	nAsserted := len(eradii)
	// 1-ulp neighbours of the boundaries: the implementation documents "small errors" of its
	// logarithm; only the range of the result is asserted there, the outcome is counted
	for e := 0; e <= 10; e++ {
		eradii = append(eradii, rad{math.Nextafter(E[e], 4), fmt.Sprintf("minSnapRadiusForExponent(%d) + 1 ulp", e)},
			rad{math.Nextafter(E[e], 0), fmt.Sprintf("minSnapRadiusForExponent(%d) - 1 ulp", e)})
	}
	ereceivers := []s2.IntLatLngSnapper{s2.NewIntLatLngSnapper(0), s2.NewIntLatLngSnapper(7), s2.NewIntLatLngSnapper(10)}
	for e := 0; e <= 10; e++ {
		for ri, rc := range ereceivers {
			cases++
			if got := float64(c20covMinSnapRadiusForExponent(rc, e)); got != E[e] {
				c.Violate(sub, "wrong-answer", "IntLatLngSnapper.minSnapRadiusForExponent(e) differs from the SnapRadius() of NewIntLatLngSnapper(e)", []int{2, e, ri},
					map[string]any{"exponent": e, "minSnapRadiusForExponent": got, "SnapRadius": E[e]})
			}
		}
	}
	for i, rd := range eradii {
		for ri, rc := range ereceivers {
			idx := []int{3, i, ri}
			if c.Skip(sub, idx...) {
				continue
			}
			detail := func() any { return map[string]any{"snap_radius": rd.r, "which": rd.what} }
			c.Guard(sub, idx, detail, func() {
				got := c20covExponentForMaxSnapRadius(rc, s1.Angle(rd.r))
				want := wantExp(rd.r)
				cases++
				if ri == 0 {
					if rd.r != E[want] {
						nt++
					}
					outcomes[fmt.Sprintf("exponent/%02d", got)]++
				}
				if got < 0 || got > 10 {
					c.Violate(sub, "wrong-answer", "IntLatLngSnapper.exponentForMaxSnapRadius returns an invalid exponent", idx, map[string]any{"snap_radius": rd.r, "which": rd.what, "returned": got})
					return
				}
				if i >= nAsserted {
					if got != want && ri == 0 {
						outcomes["exponent/one_ulp_from_a_boundary_and_not_the_minimum_exponent(observed, not asserted)"]++
					}
					return
				}
				if got != want {
					desc := "IntLatLngSnapper.exponentForMaxSnapRadius does not return the minimum exponent whose minimum snap radius is at most the argument"
					if E[got] > rd.r {
						desc = "IntLatLngSnapper.exponentForMaxSnapRadius returns an exponent whose grid can move a vertex by more than the argument"
					}
					c.Violate(sub, "wrong-answer", desc, idx, map[string]any{"snap_radius": rd.r, "which": rd.what, "returned_exponent": got, "expected_exponent": want})
				}
			})
		}
	}
	c.Eval(int(cases))
	c.Nontrivial(int(nt))
	c.Count(sub+"/calls", cases)
	c.Count(sub+"/radii_that_are_not_the_exact_minimum_of_a_level_or_exponent", nt)
	var keys []string
	for k := range outcomes {
		keys = append(keys, k)
	}
	sort.Strings(keys)
	for _, k := range keys {
		c.Count(sub+"/returned_"+k, outcomes[k])
	}
	c.Sample(map[string]any{"sub": sub, "radius": radii[40].r, "which": radii[40].what, "level": c20covLevelForMaxSnapRadius(receivers[0], s1.Angle(radii[40].r))})
}

// ---------------------------------------------------------------------------
// Projection: Interpolate, WrapDistance, WrapDestination, FromLatLng, ToLatLng

// c20covPointRad is the point of a latitude / longitude given in radians.
func c20covPointRad(lat, lng float64) r3.Vector {
	sp, cp := math.Sincos(lat)
	sl, cl := math.Sincos(lng)
	return r3.Vector{X: cp * cl, Y: cp * sl, Z: sp}
}

func c20CovProjectionAPI(c *core.Ctx) {
	sub := "projection-api"
	negZero := math.Copysign(0, -1)
	var projs []c20Proj
	for _, sc := range core.Pick(c, []float64{180, 1}, []float64{180, 1, 1 << 30, math.Pi, 1e-3}) {
		projs = append(projs, c20Proj{false, sc}, c20Proj{true, sc})
	}
	worst := &c20Worst{}
	var mu sync.Mutex
	var cInterp, cWrap, cWrapNeeded, cWrapHalf, cFrom, cTo, cRoundNotIdentical, cPoles int64

	c.ParallelFor(len(projs), func(pi int) {
		pr := projs[pi]
		impl := pr.impl()
		sc := pr.scale
		pname := pr.name()
		var nInterp, nWrap, nWrapNeeded, nWrapHalf, nFrom, nTo, nRNI, nPoles int64
		base := func() map[string]any { return map[string]any{"projection": pname, "scale": sc} }

		// ---- WrapDistance
		w := impl.WrapDistance()
		if w.X != 2*sc || w.Y != 0 {
			worst.add("Projection("+pname+").WrapDistance is not (2*scale, 0)", "wrong-answer", 0, []int{pi, 0}, func() any { return base() })
		}
		W := exact.FromFloat(2 * sc)

		// ---- Interpolate: exact rational reference a(1-f) + bf
		xs := []float64{0, negZero, sc, -sc, sc / 2, 1.234 * sc / 180, 2.1234e-20 * sc, 3 * sc, -170 * sc / 180}
		ys := []float64{0, negZero, sc / 2, -sc / 2, 7.456 * sc / 180, -5.456e-20 * sc}
		fs := []float64{0, negZero, 1, 0.25, 0.5, 0.75, 1.0 / 3, c20Fraction, 1 - c20Fraction, -2, 2, 1e-300, 1 - 1.0/(1<<53)}
		var pts []r2.Point
		for _, x := range xs {
			for _, y := range ys {
				pts = append(pts, r2.Point{X: x, Y: y})
			}
		}
		if c.Quick() {
			var q []r2.Point
			for i, p := range pts {
				if i%3 == 0 || i < 8 {
					q = append(q, p)
				}
			}
			pts = q
		}
		for ai, a := range pts {
			for bi, b := range pts {
				for fi, f := range fs {
					idx := []int{pi, 1, ai, bi, fi}
					if c.Skip(sub, idx...) {
						continue
					}
					detail := func() any {
						m := base()
						m["a"], m["b"], m["fraction"] = [2]float64{a.X, a.Y}, [2]float64{b.X, b.Y}, f
						return m
					}
					c.Guard(sub, idx, detail, func() {
						got := impl.Interpolate(f, a, b)
						nInterp++
						ef := exact.FromFloat(f)
						om := exact.Int(1).Sub(ef)
						for k := 0; k < 2; k++ {
							av, bv, gv := a.X, b.X, got.X
							if k == 1 {
								av, bv, gv = a.Y, b.Y, got.Y
							}
							if math.IsNaN(gv) || math.IsInf(gv, 0) {
								worst.add("Projection("+pname+").Interpolate returns a non-finite coordinate for finite arguments", "wrong-answer", 0, idx, detail)
								return
							}
							want := exact.FromFloat(av).Mul(om).Add(exact.FromFloat(bv).Mul(ef))
							diff := math.Abs(exact.FromFloat(gv).Sub(want).Float())
							tol := 4*c20covEps*(math.Abs(av)*math.Abs(1-f)+math.Abs(bv)*math.Abs(f)) + 1e-320
							if diff > tol {
								desc := "Projection(" + pname + ").Interpolate(f, a, b) is not the point at fraction f of the line from a to b"
								if f == 0 || f == 1 {
									desc = "Projection(" + pname + ").Interpolate at fraction 0 / 1 is not the end point a / b"
								}
								worst.add(desc, "wrong-answer", diff, idx, func() any {
									m := detail().(map[string]any)
									m["got"], m["exact"], m["coordinate"] = [2]float64{got.X, got.Y}, want.Float(), k
									return m
								})
								return
							}
						}
					})
				}
			}
		}

		// ---- WrapDestination
		ms := []float64{-1, -170. / 180, -0.5, -10. / 180, negZero, 0, 10. / 180, 0.5, 170. / 180, 1, 1 - 1.0/(1<<52), -0.5 - 1.0/(1<<52), 0.5 + 1.0/(1<<52), 0.25, -0.75}
		ks := []float64{-2, -1, 0, 1, 2}
		if c.Quick() {
			ms = ms[:11]
			ks = []float64{-2, 0, 1, 2}
		}
		var wx []float64
		for _, k := range ks {
			for _, m := range ms {
				wx = append(wx, m*sc+k*(2*sc))
			}
		}
		wys := [][2]float64{{0.3 * sc, -0.25 * sc}, {negZero, 0}}
		half := exact.FromFloat(sc) // half a period
		for ai, ax := range wx {
			for bi, bx := range wx {
				for yi, yy := range wys {
					idx := []int{pi, 2, ai, bi, yi}
					if c.Skip(sub, idx...) {
						continue
					}
					a, b := r2.Point{X: ax, Y: yy[0]}, r2.Point{X: bx, Y: yy[1]}
					detail := func() any {
						m := base()
						m["a"], m["b"] = [2]float64{a.X, a.Y}, [2]float64{b.X, b.Y}
						return m
					}
					c.Guard(sub, idx, detail, func() {
						got := impl.WrapDestination(a, b)
						nWrap++
						full := func() any {
							m := detail().(map[string]any)
							m["got"] = [2]float64{got.X, got.Y}
							return m
						}
						if math.Float64bits(got.Y) != math.Float64bits(b.Y) {
							worst.add("Projection("+pname+").WrapDestination changes the coordinate of the axis that does not wrap", "wrong-answer", 0, idx, full)
							return
						}
						D := exact.FromFloat(b.X).Sub(exact.FromFloat(a.X))
						absD := D
						if D.Sign() < 0 {
							absD = D.Neg()
						}
						cmp := absD.Cmp(half)
						if cmp == 0 {
							nWrapHalf++
						}
						if cmp <= 0 {
							// already a shortest edge: documented "b is unmodified unless wrapping is required"
							if math.Float64bits(got.X) != math.Float64bits(b.X) {
								worst.add("Projection("+pname+").WrapDestination modifies b although the edge ab is already (one of) the shortest", "wrong-answer", 0, idx, full)
							}
							return
						}
						nWrapNeeded++
						tol := 4 * c20covEps * (math.Abs(a.X) + math.Abs(b.X) + 2*sc)
						if math.IsNaN(got.X) || math.IsInf(got.X, 0) {
							worst.add("Projection("+pname+").WrapDestination returns a non-finite coordinate", "wrong-answer", 0, idx, full)
							return
						}
						// the shortest edge: at most half a period long
						g := exact.FromFloat(got.X)
						L := g.Sub(exact.FromFloat(a.X))
						if L.Sign() < 0 {
							L = L.Neg()
						}
						if over := L.Sub(half).Float(); over > tol {
							worst.add("Projection("+pname+").WrapDestination(a, b): the returned edge is longer than half a period (not the shortest edge)", "wrong-answer", over/sc, idx, full)
							return
						}
						// still the same point: b shifted by a whole number of periods
						sh := g.Sub(exact.FromFloat(b.X))
						k := math.Round(sh.Float() / (2 * sc))
						res := math.Abs(sh.Sub(W.Mul(exact.FromFloat(k))).Float())
						if res > tol {
							worst.add("Projection("+pname+").WrapDestination(a, b) is not b shifted by a whole number of periods", "wrong-answer", res/sc, idx, full)
						}
					})
				}
			}
		}

		// ---- FromLatLng / ToLatLng
		lats := []float64{0, negZero, 1e-9, 30, -30, 45, -45, 60, -60, 85, -85, 89.9, -89.9, 90, -90}
		lngs := []float64{0, negZero, 22.5, -22.5, 90, -90, 135, -135, 179.999, -179.999, 180, -180}
		if !c.Quick() {
			lats = append(lats, -1e-9, 1, -1, 15, -75, 89.99, -89.99)
			lngs = append(lngs, 1e-9, -1e-9, 45, -45, 100, -170, 179.9999999, -179.9999999)
		}
		for li, latD := range lats {
			for gi, lngD := range lngs {
				idx := []int{pi, 3, li, gi}
				if c.Skip(sub, idx...) {
					continue
				}
				lat, lng := latD*(math.Pi/180), lngD*(math.Pi/180)
				if latD == 90 || latD == -90 {
					lat = math.Copysign(math.Pi/2, latD)
				}
				if lngD == 180 || lngD == -180 {
					lng = math.Copysign(math.Pi, lngD)
				}
				ll := s2.LatLng{Lat: s1.Angle(lat), Lng: s1.Angle(lng)}
				P := c20covPointRad(lat, lng)
				detail := func() any {
					m := base()
					m["lat_deg"], m["lng_deg"], m["lat_rad"], m["lng_rad"] = latD, lngD, lat, lng
					return m
				}
				c.Guard(sub, idx, detail, func() {
					q := impl.FromLatLng(ll)
					nFrom++
					full := func() any {
						m := detail().(map[string]any)
						m["FromLatLng"] = [2]float64{q.X, q.Y}
						return m
					}
					bound := c20RoundTripBound(pr, latD) + c20RefErr
					// x is the longitude scaled to [-scale, scale]
					if !(math.Abs(q.X-lng/math.Pi*sc) <= 8*c20covEps*sc) {
						worst.add("Projection("+pname+").FromLatLng: x is not the longitude scaled to [-scale, scale]", "wrong-answer", 0, idx, full)
						return
					}
					pole := math.Abs(latD) == 90
					if pr.mercator && pole {
						nPoles++
						// documented: latitudes of +/- 90 degrees yield y values of +/- infinity
						if !math.IsInf(q.Y, int(math.Copysign(1, latD))) {
							worst.add("Projection(Mercator).FromLatLng of a pole is not the documented +/- infinity", "wrong-answer", 0, idx, full)
							return
						}
					} else {
						if !pr.mercator && !(math.Abs(q.Y-lat/math.Pi*sc) <= 8*c20covEps*sc) {
							worst.add("Projection(PlateCarree).FromLatLng: y is not the latitude scaled to [-scale/2, scale/2]", "wrong-answer", 0, idx, full)
							return
						}
						if math.IsNaN(q.Y) || math.IsInf(q.Y, 0) {
							worst.add("Projection("+pname+").FromLatLng returns a non-finite y away from the poles", "wrong-answer", 0, idx, full)
							return
						}
						if d := c20Angle(pr.unproject(q).Vector, P); !(d <= bound) {
							worst.add("Projection("+pname+").FromLatLng(ll) is not the projection of the point ll (to within rounding)", "bound-exceeded", d/bound, idx, full)
							return
						}
						// documented: equivalent to Project(PointFromLatLng(ll))
						q2 := impl.Project(s2.PointFromLatLng(ll))
						if d := c20Angle(pr.unproject(q2).Vector, pr.unproject(q).Vector); !(d <= 2*bound) {
							worst.add("Projection("+pname+").FromLatLng(ll) and Project(PointFromLatLng(ll)) name different points", "bound-exceeded", d/bound, idx, full)
							return
						}
					}
					// round trip
					back := impl.ToLatLng(q)
					if math.Float64bits(float64(back.Lat)) != math.Float64bits(lat) || math.Float64bits(float64(back.Lng)) != math.Float64bits(lng) {
						nRNI++
					}
					if !(math.Abs(float64(back.Lat)) <= math.Pi/2+4*c20covEps && math.Abs(float64(back.Lng)) <= math.Pi+4*c20covEps) {
						worst.add("Projection("+pname+").ToLatLng returns a latitude / longitude outside [-pi/2, pi/2] x [-pi, pi]", "wrong-answer", 0, idx, full)
						return
					}
					if d := c20Angle(c20covPointRad(float64(back.Lat), float64(back.Lng)), P); !(d <= 2*bound) {
						worst.add("Projection("+pname+").ToLatLng(FromLatLng(ll)) is farther from ll than rounding allows", "bound-exceeded", d/bound, idx, func() any {
							m := full().(map[string]any)
							m["back_lat_rad"], m["back_lng_rad"], m["distance_rad"], m["allowed_rad"] = float64(back.Lat), float64(back.Lng), d, 2*bound
							return m
						})
					}
				})
			}
		}
		// ToLatLng on planar points, any real x
		txs := []float64{0, negZero, 22.5 / 180, -22.5 / 180, 0.5, -0.5, 0.75, -0.75, 179.999 / 180, -179.999 / 180, 1, -1}
		var tys []float64
		if pr.mercator {
			tys = []float64{0, negZero, 0.1, -0.1, 0.5, -0.5, 1, -1, 2, -2, 5, -5, math.Inf(1), math.Inf(-1)}
		} else {
			tys = []float64{0, negZero, 1. / 6, -1. / 6, 0.25, -0.25, 0.4999, -0.4999, 0.5, -0.5}
		}
		for xi, mx := range txs {
			for ki, k := range []float64{0, -2, -1, 1, 2} {
				for yi, my := range tys {
					idx := []int{pi, 4, xi, ki, yi}
					if c.Skip(sub, idx...) {
						continue
					}
					q := r2.Point{X: mx*sc + k*2*sc, Y: my * sc}
					detail := func() any {
						m := base()
						m["planar_point"] = [2]float64{q.X, q.Y}
						return m
					}
					c.Guard(sub, idx, detail, func() {
						ll := impl.ToLatLng(q)
						nTo++
						lat, lng := float64(ll.Lat), float64(ll.Lng)
						full := func() any {
							m := detail().(map[string]any)
							m["ToLatLng_rad"] = [2]float64{lat, lng}
							return m
						}
						if !(math.Abs(lat) <= math.Pi/2+4*c20covEps && math.Abs(lng) <= math.Pi+4*c20covEps) {
							worst.add("Projection("+pname+").ToLatLng returns a latitude / longitude outside [-pi/2, pi/2] x [-pi, pi]", "wrong-answer", 0, idx, full)
							return
						}
						ref := pr.unproject(q)
						// adding k periods rounds x to an ulp of up to 2.5 periods: 5*pi*2^-52 rad
						bound := c20RoundTripBound(pr, c20LatDeg(ref)) + c20RefErr + 4e-15
						P := c20covPointRad(lat, lng)
						if d := c20Angle(P, ref.Vector); !(d <= bound) {
							desc := "Projection(" + pname + ").ToLatLng(p) is not the point p is the projection of (to within rounding)"
							if math.IsInf(q.Y, 0) {
								desc = "Projection(Mercator).ToLatLng of an infinite y is not the pole"
							}
							worst.add(desc, "bound-exceeded", d/bound, idx, full)
							return
						}
						// documented: equivalent to LatLngFromPoint(Unproject(p))
						if d := c20Angle(impl.Unproject(q).Vector, P); !(d <= 8*c20covEps) {
							worst.add("Projection("+pname+").ToLatLng(p) and Unproject(p) name different points", "bound-exceeded", d, idx, full)
							return
						}
						if math.IsInf(q.Y, 0) {
							nPoles++
							return
						}
						// and back: the same point modulo the period
						q2 := impl.FromLatLng(ll)
						if d := c20Angle(pr.unproject(q2).Vector, ref.Vector); !(d <= 2*bound) {
							worst.add("Projection("+pname+").FromLatLng(ToLatLng(p)) names a different point than p", "bound-exceeded", d/bound, idx, full)
							return
						}
						if math.Abs(q2.X) > sc*(1+4*c20covEps) {
							worst.add("Projection("+pname+").FromLatLng(ToLatLng(p)): x is outside [-scale, scale]", "wrong-answer", 0, idx, full)
						}
						if q2 != q {
							nRNI++
						}
					})
				}
			}
		}
		mu.Lock()
		cInterp += nInterp
		cWrap += nWrap
		cWrapNeeded += nWrapNeeded
		cWrapHalf += nWrapHalf
		cFrom += nFrom
		cTo += nTo
		cRoundNotIdentical += nRNI
		cPoles += nPoles
		mu.Unlock()
	})
	worst.flush(c, sub)
	c.Eval(int(cInterp + cWrap + cFrom + cTo))
	c.Nontrivial(int(cWrapNeeded + cRoundNotIdentical))
	c.Count(sub+"/projections_x_scales", int64(len(projs)))
	c.Count(sub+"/Interpolate_calls(exact rational reference)", cInterp)
	c.Count(sub+"/WrapDestination_calls", cWrap)
	c.Count(sub+"/WrapDestination_edges_longer_than_half_a_period(wrapping required)", cWrapNeeded)
	c.Count(sub+"/WrapDestination_edges_of_exactly_half_a_period", cWrapHalf)
	c.Count(sub+"/FromLatLng_calls", cFrom)
	c.Count(sub+"/ToLatLng_calls_on_planar_points", cTo)
	c.Count(sub+"/round_trips_not_bit_identical", cRoundNotIdentical)
	c.Count(sub+"/mercator_poles_and_infinite_y", cPoles)
	c.Sample(map[string]any{"sub": sub, "WrapDestination": "a.x, b.x in (m + 2k) x scale, m in {-1, -170/180, -1/2, -10/180, -0, 0, 10/180, 1/2, 170/180, 1, ...}, k in -2..2"})
	if c.OnlySub == "" && (cWrapNeeded == 0 || cWrapHalf == 0) {
		panic(core.HarnessError("C20 projection-api: no edge needed wrapping / none was exactly half a period"))
	}
}
