package checks

import (
	"fmt"
	"sort"

	"github.com/golang/geo/s2"

	"verif/mc/core"
)

// C11 — cell-union algebra is exact set algebra on leaf cells.
//
// Reference model (independent of golang/geo): a cell is the closed interval of
// global leaf indices g = id>>1 that it covers (computed from the bit pattern of
// the id), a union is the sorted list of maximal disjoint intervals, and the
// normal form of a leaf set is recomputed from the interval list by greedy
// maximal aligned tiling.  Inside a finite universe of cells the same model is
// evaluated on bit masks over the universe's atoms (elementary leaf segments).
//
// Sub-checks
//   S1-subsets      every subset (and every subset plus one duplicate) of small
//                   cell universes: Normalize, IsValid, IsNormalized,
//                   LeafCellsCovered, ContainsCellID/IntersectsCellID for every
//                   query cell, Denormalize over a (minLevel, levelMod) grid
//   S2-pairs        every ordered pair of valid unions (normalised and verbatim)
//                   over restricted depth-2 universes and 8-atom universes:
//                   Union, Intersection, Difference, Contains, Intersects;
//                   IntersectionWithCellID for every universe cell
//   S3-ranges       CellUnionFromRange on every (begin,end) pair of leaf windows,
//                   MaxTile on every (cell, limit) pair of the window's cells
//   S4-cellindex    every Add/AddCellUnion history up to a depth, then Build and
//                   full range / contents / seek sweeps
//   S5-find         s2intersect.Find on every tuple of unions over small universes

func init() {
	Registry["C11"] = &Check{Level: "model_checking", QuickBudget: 200, ThoroughBudget: 1000, Run: runC11}
}

// ---- leaf-interval model ---------------------------------------------------------

const c11EndG = uint64(6) << 60 // one past the last leaf of face 5

type c11iv struct{ a, b uint64 } // closed interval of global leaf indices

func c11Lsb(id s2.CellID) uint64 { return uint64(id) & -uint64(id) }

// c11Ivl is the leaf interval covered by a cell id.
func c11Ivl(id s2.CellID) c11iv {
	l := c11Lsb(id)
	a := (uint64(id) - l) >> 1
	return c11iv{a, a + l - 1}
}

func c11Level(id s2.CellID) int {
	l := c11Lsb(id)
	k := 0
	for l > 1 {
		l >>= 2
		k++
	}
	return 30 - k
}

// c11Cell is the cell whose first leaf is g and that covers 4^k leaves.
func c11Cell(g uint64, k int) s2.CellID { return s2.CellID(g<<1 + uint64(1)<<(2*uint(k))) }

func c11Leaf(g uint64) s2.CellID { return s2.CellID(g<<1 | 1) }

func c11Child(id s2.CellID, k int) s2.CellID {
	l := c11Lsb(id)
	return s2.CellID(uint64(id) - l + uint64(2*k+1)*(l>>2))
}

func c11Parent(id s2.CellID) s2.CellID {
	l := c11Lsb(id) << 2
	return s2.CellID((uint64(id) & -l) | l)
}

// c11Set is the leaf set of a list of cells: sorted, merged intervals.
func c11Set(cells []s2.CellID, buf []c11iv) []c11iv {
	out := buf[:0]
	for _, c := range cells {
		out = append(out, c11Ivl(c))
	}
	for i := 1; i < len(out); i++ {
		for j := i; j > 0 && out[j].a < out[j-1].a; j-- {
			out[j], out[j-1] = out[j-1], out[j]
		}
	}
	w := 0
	for _, iv := range out {
		if w > 0 && iv.a <= out[w-1].b+1 {
			if iv.b > out[w-1].b {
				out[w-1].b = iv.b
			}
			continue
		}
		out[w] = iv
		w++
	}
	return out[:w]
}

// c11Canon is the unique normal form of a leaf set: greedy maximal aligned tiling.
func c11Canon(ivs []c11iv, buf []s2.CellID) []s2.CellID {
	out := buf[:0]
	for _, iv := range ivs {
		g := iv.a
		for g <= iv.b {
			k := 0
			for k < 30 {
				sz := uint64(1) << (2 * uint(k+1))
				if g&(sz-1) != 0 || g+sz-1 > iv.b {
					break
				}
				k++
			}
			out = append(out, c11Cell(g, k))
			g += uint64(1) << (2 * uint(k))
		}
	}
	return out
}

func c11Count(ivs []c11iv) uint64 {
	var n uint64
	for _, iv := range ivs {
		n += iv.b - iv.a + 1
	}
	return n
}

func c11Covers(ivs []c11iv, q c11iv) bool {
	for _, iv := range ivs {
		if iv.a <= q.a && q.b <= iv.b {
			return true
		}
	}
	return false
}

func c11Meets(ivs []c11iv, q c11iv) bool {
	for _, iv := range ivs {
		if iv.a <= q.b && q.a <= iv.b {
			return true
		}
	}
	return false
}

func c11EqCells(a, b []s2.CellID) bool {
	if len(a) != len(b) {
		return false
	}
	for i := range a {
		if a[i] != b[i] {
			return false
		}
	}
	return true
}

func c11Hex(cs []s2.CellID) []string {
	out := make([]string, len(cs))
	for i, c := range cs {
		out[i] = fmt.Sprintf("%016x", uint64(c))
	}
	return out
}

// ---- universes ----------------------------------------------------------------------

type c11Univ struct {
	name    string
	cells   []s2.CellID // sorted by id
	ivl     []c11iv
	segs    []c11iv  // atoms: elementary covered leaf segments, ascending
	mask    []uint64 // mask[i]: atoms covered by cells[i]
	queries []s2.CellID
}

func c11SortCells(cs []s2.CellID) {
	sort.Slice(cs, func(i, j int) bool { return cs[i] < cs[j] })
}

func c11NewUniv(name string, cells []s2.CellID, extraQueries []s2.CellID) *c11Univ {
	u := &c11Univ{name: name}
	seen := map[s2.CellID]bool{}
	for _, c := range cells {
		if !seen[c] {
			seen[c] = true
			u.cells = append(u.cells, c)
		}
	}
	c11SortCells(u.cells)
	var cuts []uint64
	for _, c := range u.cells {
		iv := c11Ivl(c)
		u.ivl = append(u.ivl, iv)
		cuts = append(cuts, iv.a, iv.b+1)
	}
	// close the atoms under the recursive subdivision used by the difference: for a
	// universe cell nested in another one, every sibling on the path between them is
	// a possible result cell and must be a union of atoms
	for _, anc := range u.cells {
		ai := c11Ivl(anc)
		for _, desc := range u.cells {
			di := c11Ivl(desc)
			if desc == anc || !(ai.a <= di.a && di.b <= ai.b) {
				continue
			}
			for x := desc; x != anc; x = c11Parent(x) {
				p := c11Parent(x)
				for k := 0; k < 4; k++ {
					iv := c11Ivl(c11Child(p, k))
					cuts = append(cuts, iv.a, iv.b+1)
				}
			}
		}
	}
	sort.Slice(cuts, func(i, j int) bool { return cuts[i] < cuts[j] })
	for i := 0; i+1 < len(cuts); i++ {
		if cuts[i] == cuts[i+1] {
			continue
		}
		seg := c11iv{cuts[i], cuts[i+1] - 1}
		if c11Meets(u.ivl, seg) {
			u.segs = append(u.segs, seg)
		}
	}
	if len(u.segs) > 64 {
		panic(core.HarnessError("C11: universe with more than 64 atoms"))
	}
	for _, iv := range u.ivl {
		u.mask = append(u.mask, u.maskOfIvl(iv))
	}
	u.queries = append(u.queries, u.cells...)
	for _, q := range extraQueries {
		if !seen[q] {
			seen[q] = true
			u.queries = append(u.queries, q)
		}
	}
	return u
}

func (u *c11Univ) maskOfIvl(iv c11iv) uint64 {
	var m uint64
	for k, s := range u.segs {
		if iv.a <= s.a && s.b <= iv.b {
			m |= 1 << uint(k)
		}
	}
	return m
}

// maskOf maps a cell to its atom mask; ok is false when the cell is not a union
// of atoms of this universe (then the mask cannot represent it).
func (u *c11Univ) maskOf(id s2.CellID) (uint64, bool) {
	for i, c := range u.cells {
		if c == id {
			return u.mask[i], true
		}
	}
	iv := c11Ivl(id)
	m := u.maskOfIvl(iv)
	var n uint64
	for k, s := range u.segs {
		if m>>uint(k)&1 == 1 {
			n += s.b - s.a + 1
		}
	}
	return m, n == iv.b-iv.a+1
}

func (u *c11Univ) ivsOfMask(m uint64, buf []c11iv) []c11iv {
	out := buf[:0]
	for k, s := range u.segs {
		if m>>uint(k)&1 == 0 {
			continue
		}
		if len(out) > 0 && out[len(out)-1].b+1 == s.a {
			out[len(out)-1].b = s.b
		} else {
			out = append(out, s)
		}
	}
	return out
}

func (u *c11Univ) canonOfMask(m uint64) []s2.CellID {
	return c11Canon(u.ivsOfMask(m, nil), nil)
}

// c11Subtree returns the cell and all its descendants down to depth d.
func c11Subtree(x s2.CellID, d int) []s2.CellID {
	out := []s2.CellID{x}
	if d == 0 {
		return out
	}
	for k := 0; k < 4; k++ {
		out = append(out, c11Subtree(c11Child(x, k), d-1)...)
	}
	return out
}

// c11Path descends from a face along the given child positions.
func c11Path(face int, path ...int) s2.CellID {
	id := c11Cell(uint64(face)<<60, 30)
	for _, k := range path {
		id = c11Child(id, k)
	}
	return id
}

func c11Rep(k, n int) []int {
	out := make([]int, n)
	for i := range out {
		out[i] = k
	}
	return out
}

func c11Outside(x s2.CellID) []s2.CellID {
	// query cells around a universe rooted at x: ancestors, the neighbouring cells on
	// the curve at the same level, and leaves just outside and just inside the range
	var out []s2.CellID
	iv := c11Ivl(x)
	lvl := c11Level(x)
	if lvl > 0 {
		out = append(out, c11Parent(x))
	}
	if lvl > 1 {
		out = append(out, c11Parent(c11Parent(x)))
	}
	k := 30 - lvl
	sz := uint64(1) << (2 * uint(k))
	if iv.a >= sz {
		out = append(out, c11Cell(iv.a-sz, k))
		out = append(out, c11Leaf(iv.a-1))
	}
	if iv.b+sz < c11EndG {
		out = append(out, c11Cell(iv.b+1, k))
		out = append(out, c11Leaf(iv.b+1))
	}
	out = append(out, c11Leaf(iv.a), c11Leaf(iv.b), c11Leaf(iv.a+(iv.b-iv.a)/2))
	return out
}

// ---- S1: all subsets ------------------------------------------------------------------

type c11S1Stats struct {
	evals, nontriv, ops                         int64
	merged, pruned, cascades, invalid, verbatim int64
	denorm, queries                             int64
}

func c11RunSubsets(c *core.Ctx, ui int, u *c11Univ, withDup bool) {
	const sub = "S1-subsets"
	n := len(u.cells)
	if n > 24 {
		panic(core.HarnessError("C11: subset universe too large"))
	}
	rootLevel := 30
	for _, cell := range u.cells {
		if l := c11Level(cell); l < rootLevel {
			rootLevel = l
		}
	}
	var minLevels []int
	for _, d := range []int{0, rootLevel, rootLevel + 1, rootLevel + 2, rootLevel + 3} {
		if d <= 30 && (len(minLevels) == 0 || minLevels[len(minLevels)-1] < d) {
			minLevels = append(minLevels, d)
		}
	}
	total := 1 << uint(n)
	shardBits := 8
	if n < 10 {
		shardBits = 2
	}
	shards := 1 << uint(shardBits)
	per := total / shards
	var mu = make(chan struct{}, 1)
	mu <- struct{}{}
	var agg c11S1Stats
	capped := false
	c.ParallelFor(shards, func(sh int) {
		var st c11S1Stats
		var ivbuf, ivbuf2 []c11iv
		var cbuf, exp []s2.CellID
		V := make([]s2.CellID, 0, n+1)
		for m := sh * per; m < (sh+1)*per; m++ {
			if m&1023 == 0 && c.Expired() {
				<-mu
				if !capped {
					capped = true
					c.CapHit(fmt.Sprintf("S1-subsets %s: wall budget reached", u.name))
				}
				mu <- struct{}{}
				break
			}
			V = V[:0]
			for i := 0; i < n; i++ {
				if m>>uint(i)&1 == 1 {
					V = append(V, u.cells[i])
				}
			}
			ivbuf = c11Set(V, ivbuf)
			cbuf = c11Canon(ivbuf, cbuf)
			canon := cbuf
			validRef := true
			for i := 0; i < len(V) && validRef; i++ {
				for j := i + 1; j < len(V); j++ {
					a, b := c11Ivl(V[i]), c11Ivl(V[j])
					if a.a <= b.b && b.a <= a.b {
						validRef = false
						break
					}
				}
			}
			normRef := validRef && c11EqCells(V, canon)
			nDup := 1
			if withDup {
				nDup = 1 + len(V)
			}
			for dup := 0; dup < nDup; dup++ {
				if c.Skip(sub, c11TF, ui, m, dup) {
					continue
				}
				cas := []int{c11TF, ui, m, dup}
				st.evals++
				detail := func() any {
					return map[string]any{"universe": u.name, "subset": c11Hex(V), "duplicate_index": dup - 1, "canonical": c11Hex(canon)}
				}
				c.Guard(sub, cas, detail, func() {
					// input to Normalize: reversed order, plus one duplicated element
					in := make(s2.CellUnion, 0, len(V)+1)
					for i := len(V) - 1; i >= 0; i-- {
						in = append(in, V[i])
					}
					if dup > 0 {
						in = append(in, V[dup-1])
					}
					in.Normalize()
					st.ops++
					if !c11EqCells(in, canon) {
						ivbuf2 = c11Set(in, ivbuf2)
						same := len(ivbuf2) == len(ivbuf)
						for i := 0; same && i < len(ivbuf); i++ {
							same = ivbuf[i] == ivbuf2[i]
						}
						d := detail().(map[string]any)
						d["normalize_result"] = c11Hex(in)
						if !same {
							c.Violate(sub, "wrong-answer", "Normalize changes the set of covered leaf cells", cas, d)
						} else {
							c.Violate(sub, "wrong-answer", "Normalize keeps the leaf set but does not yield the unique sorted, non-overlapping, sibling-merged form", cas, d)
						}
						return
					}
					if dup > 0 {
						return // the remaining assertions do not depend on the duplicate
					}
					cu := s2.CellUnion(append([]s2.CellID(nil), V...))
					if got := cu.IsValid(); got != validRef {
						c.Violate(sub, "wrong-answer", fmt.Sprintf("IsValid()=%v on a sorted union whose cells are pairwise disjoint=%v", got, validRef), cas, detail())
					}
					if got := cu.IsNormalized(); got != normRef {
						c.Violate(sub, "wrong-answer", fmt.Sprintf("IsNormalized()=%v on a union that equals its normal form=%v", got, normRef), cas, detail())
					}
					if !in.IsValid() || !in.IsNormalized() {
						c.Violate(sub, "wrong-answer", "IsValid/IsNormalized false on the result of Normalize", cas, detail())
					}
					st.ops += 4
					leaves := c11Count(ivbuf)
					if got := in.LeafCellsCovered(); uint64(got) != leaves {
						c.Violate(sub, "wrong-answer", "LeafCellsCovered of a normalised union differs from the size of the leaf set", cas, detail())
					}
					if validRef {
						if got := cu.LeafCellsCovered(); uint64(got) != leaves {
							c.Violate(sub, "wrong-answer", "LeafCellsCovered of a valid union differs from the size of the leaf set", cas, detail())
						}
					}
					st.ops += 2
					for _, q := range u.queries {
						qi := c11Ivl(q)
						wantC, wantI := c11Covers(ivbuf, qi), c11Meets(ivbuf, qi)
						if got := in.ContainsCellID(q); got != wantC {
							d := detail().(map[string]any)
							d["query"] = fmt.Sprintf("%016x", uint64(q))
							c.Violate(sub, "wrong-answer", fmt.Sprintf("ContainsCellID on a normalised union = %v, leaf model says %v", got, wantC), cas, d)
						}
						if got := in.IntersectsCellID(q); got != wantI {
							d := detail().(map[string]any)
							d["query"] = fmt.Sprintf("%016x", uint64(q))
							c.Violate(sub, "wrong-answer", fmt.Sprintf("IntersectsCellID on a normalised union = %v, leaf model says %v", got, wantI), cas, d)
						}
						st.queries += 2
						if validRef && !normRef {
							// documented caveat: a verbatim union contains a cell iff one of its cells does
							wantV := false
							for _, v := range V {
								vi := c11Ivl(v)
								if vi.a <= qi.a && qi.b <= vi.b {
									wantV = true
								}
							}
							if got := cu.ContainsCellID(q); got != wantV {
								d := detail().(map[string]any)
								d["query"] = fmt.Sprintf("%016x", uint64(q))
								c.Violate(sub, "wrong-answer", fmt.Sprintf("ContainsCellID on a valid non-normalised union = %v, cell-wise model says %v", got, wantV), cas, d)
							}
							if got := cu.IntersectsCellID(q); got != wantI {
								d := detail().(map[string]any)
								d["query"] = fmt.Sprintf("%016x", uint64(q))
								c.Violate(sub, "wrong-answer", fmt.Sprintf("IntersectsCellID on a valid non-normalised union = %v, leaf model says %v", got, wantI), cas, d)
							}
							st.queries += 2
						}
					}
					// Denormalize over the option grid
					for _, ml := range minLevels {
						for lm := 1; lm <= 3; lm++ {
							exp = exp[:0]
							for _, cell := range canon {
								lvl := c11Level(cell)
								t := lvl
								if t < ml {
									t = ml
								}
								for t < 30 && (t-ml)%lm != 0 {
									t++
								}
								iv := c11Ivl(cell)
								k := 30 - t
								step := uint64(1) << (2 * uint(k))
								for g := iv.a; g <= iv.b; g += step {
									exp = append(exp, c11Cell(g, k))
								}
							}
							d := s2.CellUnion(append([]s2.CellID(nil), in...))
							d.Denormalize(ml, lm)
							st.denorm++
							if !c11EqCells(d, exp) {
								dd := detail().(map[string]any)
								dd["minLevel"], dd["levelMod"] = ml, lm
								dd["got"], dd["want"] = c11Hex(d), c11Hex(exp)
								c.Violate(sub, "wrong-answer", "Denormalize result differs from replacing each cell by its descendants at the first admissible level", cas, dd)
							}
						}
					}
				})
			}
			if !c11EqCells(V, canon) {
				st.nontriv++
			}
			if !validRef {
				st.invalid++
			} else if !normRef {
				st.verbatim++
			}
			if len(canon) < len(V) {
				st.merged++
			}
			// cascade: a cell of the normal form that is not covered by any single input cell and
			// has a child that is not covered by a single input cell either: the child had to be
			// produced by a merge and was then merged again
			inV := func(q c11iv) bool {
				for _, v := range V {
					vi := c11Ivl(v)
					if vi.a <= q.a && q.b <= vi.b {
						return true
					}
				}
				return false
			}
			for _, cc := range canon {
				if c11Lsb(cc) < 16 || inV(c11Ivl(cc)) {
					continue
				}
				found := false
				for k := 0; k < 4; k++ {
					if !inV(c11Ivl(c11Child(cc, k))) {
						found = true
					}
				}
				if found {
					st.cascades++
					break
				}
			}
			if m == total/3+5 || m == total/7*5+1 {
				c.Sample(map[string]any{"sub": sub, "universe": u.name, "subset": c11Hex(V), "normal_form": c11Hex(canon)})
			}
		}
		<-mu
		agg.evals += st.evals
		agg.nontriv += st.nontriv
		agg.ops += st.ops + st.denorm + st.queries
		agg.merged += st.merged
		agg.cascades += st.cascades
		agg.invalid += st.invalid
		agg.verbatim += st.verbatim
		agg.denorm += st.denorm
		agg.queries += st.queries
		mu <- struct{}{}
	})
	c.Eval(int(agg.evals))
	c.Nontrivial(int(agg.nontriv))
	c.MC(agg.evals, agg.ops, agg.ops)
	c.Count("S1/multisets", agg.evals)
	c.Count("S1/subsets_changed_by_normalize", agg.nontriv)
	c.Count("S1/subsets_with_sibling_merge_or_pruning", agg.merged)
	c.Count("S1/subsets_with_cascading_merge", agg.cascades)
	c.Count("S1/subsets_overlapping(invalid)", agg.invalid)
	c.Count("S1/subsets_valid_not_normalised", agg.verbatim)
	c.Count("S1/denormalize_calls", agg.denorm)
	c.Count("S1/membership_queries", agg.queries)
	maxLevel := 0
	for _, cell := range u.cells {
		if l := c11Level(cell); l > maxLevel {
			maxLevel = l
		}
	}
	if agg.cascades == 0 && maxLevel-rootLevel >= 2 && !capped && c.OnlySub == "" {
		panic(core.HarnessError("C11 S1: no subset exercised the cascading sibling merge in " + u.name))
	}
}

// ---- S2: all pairs of valid unions -----------------------------------------------------

type c11VU struct {
	cells s2.CellUnion
	mask  uint64
	norm  bool
}

func c11ValidUnions(u *c11Univ) []c11VU {
	var out []c11VU
	var rec func(i int, cur []int, mask uint64)
	rec = func(i int, cur []int, mask uint64) {
		if i == len(u.cells) {
			vu := c11VU{mask: mask}
			for _, k := range cur {
				vu.cells = append(vu.cells, u.cells[k])
			}
			out = append(out, vu)
			return
		}
		rec(i+1, cur, mask)
		if u.mask[i]&mask == 0 {
			rec(i+1, append(cur, i), mask|u.mask[i])
		}
	}
	rec(0, nil, 0)
	return out
}

type c11S2Stats struct {
	pairs, nontriv, ops, skipPath, bothNorm int64
}

func c11RunPairs(c *core.Ctx, ui int, u *c11Univ) {
	const sub = "S2-pairs"
	na := len(u.segs)
	if na > 16 {
		panic(core.HarnessError("C11 S2: more than 16 atoms"))
	}
	canon := make([][]s2.CellID, 1<<uint(na))
	for m := range canon {
		canon[m] = u.canonOfMask(uint64(m))
	}
	vus := c11ValidUnions(u)
	for i := range vus {
		vus[i].norm = c11EqCells(vus[i].cells, canon[vus[i].mask])
	}
	toMask := func(cu s2.CellUnion) (m uint64, ok, valid bool) {
		ok, valid = true, true
		for i, id := range cu {
			cm, k := u.maskOf(id)
			if !k {
				ok = false
			}
			if cm&m != 0 || (i > 0 && cu[i-1] >= id) {
				valid = false
			}
			m |= cm
		}
		return
	}
	bad := func(cas []int, a, b *c11VU, op, what string, got s2.CellUnion, want uint64) {
		form := "verbatim"
		if a.norm && (b == nil || b.norm) {
			form = "normalised"
		}
		d := map[string]any{"universe": u.name, "x": c11Hex(a.cells), "got": c11Hex(got), "want_normal_form": c11Hex(canon[want])}
		if b != nil {
			d["y"] = c11Hex(b.cells)
		}
		c.Violate(sub, "wrong-answer", fmt.Sprintf("%s on %s inputs: %s", op, form, what), cas, d)
	}
	// unary with a cell argument
	var unaryOps int64
	for i := range vus {
		a := &vus[i]
		for qi, q := range u.cells {
			if c.Skip(sub, c11TF, ui, i, -1-qi) {
				continue
			}
			cas := []int{c11TF, ui, i, -1 - qi}
			c.Guard(sub, cas, func() any {
				return map[string]any{"universe": u.name, "x": c11Hex(a.cells), "cell": fmt.Sprintf("%016x", uint64(q))}
			}, func() {
				x := append(s2.CellUnion(nil), a.cells...)
				r := s2.CellUnionFromIntersectionWithCellID(x, q)
				unaryOps++
				want := a.mask & u.mask[qi]
				m, ok, valid := toMask(r)
				if !ok || m != want {
					bad(cas, a, nil, "CellUnionFromIntersectionWithCellID", fmt.Sprintf("leaf set differs from x ∩ cell %016x", uint64(q)), r, want)
				} else if !valid {
					bad(cas, a, nil, "CellUnionFromIntersectionWithCellID", "result is not sorted and non-overlapping", r, want)
				} else if a.norm && !c11EqCells(r, canon[want]) {
					bad(cas, a, nil, "CellUnionFromIntersectionWithCellID", "result of a normalised input is not in normal form", r, want)
				}
			})
		}
	}
	var agg c11S2Stats
	lock := make(chan struct{}, 1)
	lock <- struct{}{}
	capped := false
	c.ParallelFor(len(vus), func(i int) {
		if c.Expired() {
			<-lock
			if !capped {
				capped = true
				c.CapHit(fmt.Sprintf("S2-pairs %s: wall budget reached", u.name))
			}
			lock <- struct{}{}
			return
		}
		var st c11S2Stats
		a := &vus[i]
		for j := range vus {
			if c.Skip(sub, c11TF, ui, i, j) {
				continue
			}
			b := &vus[j]
			cas := []int{c11TF, ui, i, j}
			st.pairs++
			c.Guard(sub, cas, func() any { return map[string]any{"universe": u.name, "x": c11Hex(a.cells), "y": c11Hex(b.cells)} }, func() {
				x := append(s2.CellUnion(nil), a.cells...)
				y := append(s2.CellUnion(nil), b.cells...)
				bothNorm := a.norm && b.norm
				// union
				r := s2.CellUnionFromUnion(x, y)
				want := a.mask | b.mask
				if !c11EqCells(r, canon[want]) {
					m, ok, _ := toMask(r)
					if !ok || m != want {
						bad(cas, a, b, "CellUnionFromUnion", "leaf set differs from x ∪ y", r, want)
					} else {
						bad(cas, a, b, "CellUnionFromUnion", "result is not the normal form of x ∪ y", r, want)
					}
				}
				// intersection
				r = s2.CellUnionFromIntersection(x, y)
				want = a.mask & b.mask
				if !c11EqCells(r, canon[want]) {
					m, ok, valid := toMask(r)
					if !ok || m != want {
						bad(cas, a, b, "CellUnionFromIntersection", "leaf set differs from x ∩ y", r, want)
					} else if !valid {
						bad(cas, a, b, "CellUnionFromIntersection", "result is not sorted and non-overlapping", r, want)
					} else if bothNorm {
						bad(cas, a, b, "CellUnionFromIntersection", "result is not the normal form of x ∩ y", r, want)
					}
				}
				// difference
				r = s2.CellUnionFromDifference(x, y)
				want = a.mask &^ b.mask
				if !c11EqCells(r, canon[want]) {
					m, ok, valid := toMask(r)
					if !ok || m != want {
						bad(cas, a, b, "CellUnionFromDifference", "leaf set differs from x − y", r, want)
					} else if !valid {
						bad(cas, a, b, "CellUnionFromDifference", "result is not sorted and non-overlapping", r, want)
					} else if bothNorm {
						bad(cas, a, b, "CellUnionFromDifference", "result is not the normal form of x − y", r, want)
					}
				}
				// containment: leaf-set semantics for a normalised receiver, cell-wise
				// semantics (documented caveat) for a verbatim receiver
				wantC := b.mask&^a.mask == 0
				if !a.norm {
					wantC = true
					for _, yc := range b.cells {
						ym, _ := u.maskOf(yc)
						in := false
						for _, xc := range a.cells {
							xm, _ := u.maskOf(xc)
							if ym&^xm == 0 {
								in = true
							}
						}
						if !in {
							wantC = false
						}
					}
				}
				if got := x.Contains(y); got != wantC {
					form := "normalised receiver: leaf-set"
					if !a.norm {
						form = "verbatim receiver: cell-wise"
					}
					c.Violate(sub, "wrong-answer", fmt.Sprintf("Contains = %v, model (%s containment) says %v", got, form, wantC), cas,
						map[string]any{"universe": u.name, "x": c11Hex(a.cells), "y": c11Hex(b.cells)})
				}
				wantI := a.mask&b.mask != 0
				if got := x.Intersects(y); got != wantI {
					c.Violate(sub, "wrong-answer", fmt.Sprintf("Intersects = %v, leaf model says %v", got, wantI), cas,
						map[string]any{"universe": u.name, "x": c11Hex(a.cells), "y": c11Hex(b.cells)})
				}
				// the same argument written redundantly (a duplicated cell; a cell together with one of its
				// descendants): the covered leaf set is unchanged, so are the answers
				if a.norm && len(b.cells) > 0 {
					dup := append(append(s2.CellUnion(nil), b.cells...), b.cells[len(b.cells)-1])
					c11SortCells(dup)
					red := [][]s2.CellID{dup}
					for _, yc := range b.cells {
						if c11Level(yc) < 30 {
							nested := append(append(s2.CellUnion(nil), b.cells...), c11Child(yc, 2), c11Child(yc, 3))
							c11SortCells(nested)
							red = append(red, nested)
							break
						}
					}
					for ri, yv := range red {
						if got := x.Contains(s2.CellUnion(yv)); got != wantC {
							c.Violate(sub, "wrong-answer", fmt.Sprintf("Contains(redundantly written argument) = %v, leaf model says %v", got, wantC), append(cas, ri),
								map[string]any{"universe": u.name, "x": c11Hex(a.cells), "y": c11Hex(yv)})
						}
						if got := x.Intersects(s2.CellUnion(yv)); got != wantI {
							c.Violate(sub, "wrong-answer", fmt.Sprintf("Intersects(redundantly written argument) = %v, leaf model says %v", got, wantI), append(cas, ri),
								map[string]any{"universe": u.name, "x": c11Hex(a.cells), "y": c11Hex(yv)})
						}
						st.ops += 2
					}
				}
				if !c11EqCells(x, a.cells) || !c11EqCells(y, b.cells) {
					c.Violate(sub, "wrong-answer", "a binary operation modified one of its operands", cas,
						map[string]any{"universe": u.name, "x": c11Hex(a.cells), "y": c11Hex(b.cells)})
				}
				st.ops += 5
				if bothNorm {
					st.bothNorm++
				}
				// non-trivial: the operands overlap partially (neither disjoint nor nested)
				if a.mask&b.mask != 0 && a.mask&^b.mask != 0 && b.mask&^a.mask != 0 {
					st.nontriv++
				}
				// the skipping branch of the intersection is taken when some cell of one
				// operand lies entirely before the current cell of the other
				if len(a.cells) > 1 && len(b.cells) > 0 && c11Ivl(a.cells[0]).b < c11Ivl(b.cells[0]).a {
					st.skipPath++
				}
			})
		}
		<-lock
		agg.pairs += st.pairs
		agg.nontriv += st.nontriv
		agg.ops += st.ops
		agg.skipPath += st.skipPath
		agg.bothNorm += st.bothNorm
		lock <- struct{}{}
	})
	if len(vus) > 3 && ui < 2 {
		k := len(vus) / 3
		c.Sample(map[string]any{"sub": sub, "universe": u.name, "x": c11Hex(vus[k].cells), "y": c11Hex(vus[2*k].cells)})
	}
	c.Eval(int(agg.pairs) + int(unaryOps))
	c.Nontrivial(int(agg.nontriv))
	c.MC(int64(len(vus)), agg.ops+unaryOps, agg.ops+unaryOps)
	c.Count("S2/valid_unions", int64(len(vus)))
	c.Count("S2/ordered_pairs", agg.pairs)
	c.Count("S2/pairs_partially_overlapping", agg.nontriv)
	c.Count("S2/pairs_both_normalised", agg.bothNorm)
	c.Count("S2/pairs_entering_the_skip_branch", agg.skipPath)
	c.Count("S2/intersection_with_cell_calls", unaryOps)
}

// ---- S3: range tiling ---------------------------------------------------------------------

func c11MinTiles(a, b uint64) int {
	// fewest aligned cells tiling the leaf interval [a,b] exactly (dynamic programme
	// over start positions; independent of the greedy rule)
	n := int(b - a + 1)
	f := make([]int, n+1)
	for i := n - 1; i >= 0; i-- {
		f[i] = 1 << 30
		g := a + uint64(i)
		for k := 0; k <= 30; k++ {
			sz := uint64(1) << (2 * uint(k))
			if g&(sz-1) != 0 || uint64(i)+sz > uint64(n) {
				break
			}
			if v := 1 + f[i+int(sz)]; v < f[i] {
				f[i] = v
			}
		}
	}
	return f[0]
}

func c11RunRanges(c *core.Ctx, wi int, name string, g0 uint64, w int) {
	const sub = "S3-ranges"
	var evals, nontriv, ops int64
	idOf := func(g uint64) s2.CellID { return c11Leaf(g) } // g == c11EndG gives the End sentinel id
	for i := 0; i <= w; i++ {
		for j := i; j <= w; j++ {
			if c.Skip(sub, c11TF, wi, i, j) {
				continue
			}
			cas := []int{c11TF, wi, i, j}
			begin, end := idOf(g0+uint64(i)), idOf(g0+uint64(j))
			detail := func() any {
				return map[string]any{"window": name, "begin": fmt.Sprintf("%016x", uint64(begin)), "end": fmt.Sprintf("%016x", uint64(end))}
			}
			evals++
			c.Guard(sub, cas, detail, func() {
				got := s2.CellUnionFromRange(begin, end)
				ops++
				var want []s2.CellID
				if j > i {
					want = c11Canon([]c11iv{{g0 + uint64(i), g0 + uint64(j) - 1}}, nil)
				}
				if !c11EqCells(got, want) {
					d := detail().(map[string]any)
					d["got"], d["want"] = c11Hex(got), c11Hex(want)
					ivs := c11Set(got, nil)
					if j > i && (len(ivs) != 1 || ivs[0] != c11iv{g0 + uint64(i), g0 + uint64(j) - 1}) || j == i && len(got) != 0 {
						c.Violate(sub, "wrong-answer", "CellUnionFromRange does not cover exactly the leaf range [begin,end)", cas, d)
					} else {
						c.Violate(sub, "wrong-answer", "CellUnionFromRange covers the range but not with the normal-form tiling", cas, d)
					}
					return
				}
				if j > i {
					if mn := c11MinTiles(g0+uint64(i), g0+uint64(j)-1); len(got) != mn {
						d := detail().(map[string]any)
						d["got_cells"], d["minimum"] = len(got), mn
						c.Violate(sub, "wrong-answer", "CellUnionFromRange uses more cells than the minimal tiling of the range", cas, d)
					}
					if len(got) >= 3 {
						nontriv++
					}
				}
			})
		}
	}
	// MaxTile on every (cell, limit) pair of the cells inside the window
	var cells []s2.CellID
	for k := 0; k <= 3; k++ {
		sz := uint64(1) << (2 * uint(k))
		for g := (g0 + sz - 1) &^ (sz - 1); g+sz <= g0+uint64(w); g += sz {
			cells = append(cells, c11Cell(g, k))
		}
	}
	limits := append([]s2.CellID(nil), cells...)
	limits = append(limits, idOf(g0+uint64(w)))
	for i, ci := range cells {
		for j, lim := range limits {
			if c.Skip(sub, c11TF, wi, -1-i, j) {
				continue
			}
			cas := []int{c11TF, wi, -1 - i, j}
			detail := func() any {
				return map[string]any{"window": name, "cell": fmt.Sprintf("%016x", uint64(ci)), "limit": fmt.Sprintf("%016x", uint64(lim))}
			}
			evals++
			c.Guard(sub, cas, detail, func() {
				got := ci.MaxTile(lim)
				ops++
				// definition: the largest cell with the same first leaf whose last leaf is
				// before the first leaf of limit; limit if there is none
				start := c11Ivl(ci).a
				la := c11Ivl(lim).a
				if lim == idOf(c11EndG) {
					la = c11EndG
				}
				want := lim
				for k := 30; k >= 0; k-- {
					sz := uint64(1) << (2 * uint(k))
					if start&(sz-1) == 0 && start+sz-1 < la {
						want = c11Cell(start, k)
						break
					}
				}
				if got != want {
					d := detail().(map[string]any)
					d["got"], d["want"] = fmt.Sprintf("%016x", uint64(got)), fmt.Sprintf("%016x", uint64(want))
					c.Violate(sub, "wrong-answer", "MaxTile differs from the largest cell with the same first leaf that ends before limit", cas, d)
				}
				if want != lim && want != ci {
					nontriv++
				}
			})
		}
	}
	c.Sample(map[string]any{"sub": sub, "window": name, "first_leaf": fmt.Sprintf("%016x", uint64(c11Leaf(g0))), "leaves": w})
	c.Eval(int(evals))
	c.Nontrivial(int(nontriv))
	c.MC(evals, ops, ops)
	c.Count("S3/range_pairs_and_maxtile_pairs", evals)
	c.Count("S3/nontrivial(>=3 tiles, or MaxTile grows/shrinks)", nontriv)
}

// ---- S4: CellIndex ---------------------------------------------------------------------------

type c11Op struct {
	cells []s2.CellID
	label int32
}

type c11Pair struct {
	id    s2.CellID
	label int32
	iv    c11iv
}

func c11PairKey(id s2.CellID, label int32) string { return fmt.Sprintf("%016x/%d", uint64(id), label) }

func c11OpStr(o c11Op) string {
	if len(o.cells) == 1 {
		return fmt.Sprintf("Add(%016x,%d)", uint64(o.cells[0]), o.label)
	}
	return fmt.Sprintf("AddCellUnion(%v,%d)", c11Hex(o.cells), o.label)
}

// c11CheckIndex builds the index for one history and compares every iterator sweep
// with the leaf model.  It returns a violation descriptor ("" when all hold), the
// number of iterator operations performed and whether the case is non-trivial.
func c11CheckIndex(ops []c11Op, hist []int, seekExtra []s2.CellID) (bad string, nops int64, nontrivial bool) {
	var idx s2.CellIndex
	var pairs []c11Pair
	for _, h := range hist {
		o := ops[h]
		if len(o.cells) == 1 {
			idx.Add(o.cells[0], o.label)
		} else {
			idx.AddCellUnion(s2.CellUnion(o.cells), o.label)
		}
		nops++
		for _, id := range o.cells {
			pairs = append(pairs, c11Pair{id, o.label, c11Ivl(id)})
		}
	}
	idx.Build()
	nops++
	beginID, endID := c11Leaf(0), c11Leaf(c11EndG)
	maxRanges := 2*len(pairs) + 4
	wantAll := map[string]int{}
	for _, p := range pairs {
		wantAll[c11PairKey(p.id, p.label)]++
	}
	type rng struct {
		start, limit s2.CellID
		empty        bool
	}
	collect := func(con *s2.CellIndexContentsIterator) (map[string]int, bool) {
		got := map[string]int{}
		for n := 0; !con.Done(); n++ {
			if n > len(pairs) {
				return got, false
			}
			got[c11PairKey(con.CellID(), con.Label())]++
			con.Next()
			nops++
		}
		return got, true
	}
	eqMS := func(a, b map[string]int) bool {
		if len(a) != len(b) {
			return false
		}
		for k, v := range a {
			if b[k] != v {
				return false
			}
		}
		return true
	}
	// R1: forward sweep of the plain range iterator; contents of every range with Clear
	var ranges []rng
	r := s2.NewCellIndexRangeIterator(&idx)
	con := s2.NewCellIndexContentsIterator(&idx)
	r.Begin()
	prev := beginID
	overlapping := false
	for !r.Done() {
		if len(ranges) > maxRanges {
			return "range iterator does not terminate within the possible number of ranges", nops, false
		}
		s, l := r.StartID(), r.LimitID()
		nops += 3
		if s != prev {
			return "ranges of the plain range iterator are not contiguous from the first leaf of face 0", nops, false
		}
		if !(s < l) || uint64(s)&1 == 0 || uint64(l)&1 == 0 {
			return "a range of the range iterator is empty, reversed or not bounded by leaf ids", nops, false
		}
		riv := c11iv{uint64(s) >> 1, uint64(l)>>1 - 1}
		want := map[string]int{}
		for _, p := range pairs {
			covers := p.iv.a <= riv.a && riv.b <= p.iv.b
			meets := p.iv.a <= riv.b && riv.a <= p.iv.b
			if covers != meets {
				return "a range of the range iterator straddles the boundary of an indexed cell", nops, false
			}
			if covers {
				want[c11PairKey(p.id, p.label)]++
			}
		}
		if len(want) > 1 {
			overlapping = true
		}
		con.Clear()
		con.StartUnion(r)
		nops += 2
		got, ok := collect(con)
		if !ok {
			return "contents iterator does not terminate", nops, false
		}
		if !eqMS(got, want) {
			return "contents of a leaf range differ from the set of (cell,label) pairs covering that range", nops, false
		}
		if r.IsEmpty() != (len(want) == 0) {
			return "IsEmpty disagrees with the set of (cell,label) pairs covering the range", nops, false
		}
		ranges = append(ranges, rng{s, l, len(want) == 0})
		prev = l
		r.Next()
	}
	if prev != endID || r.StartID() != endID {
		return "the ranges do not end at the end of face 5 / StartID of a finished iterator is not the end sentinel", nops, false
	}
	// R2: monotone sweep without Clear reports every pair exactly once
	con = s2.NewCellIndexContentsIterator(&idx)
	gotAll := map[string]int{}
	for r.Begin(); !r.Done(); r.Next() {
		con.StartUnion(r)
		g, ok := collect(con)
		if !ok {
			return "contents iterator does not terminate", nops, false
		}
		for k, v := range g {
			gotAll[k] += v
		}
		nops += 2
	}
	if !eqMS(gotAll, wantAll) {
		return "a monotone sweep over all ranges does not report every (cell,label) pair exactly once", nops, false
	}
	// R5: reverse-order visit without Clear: every report covers the current range and
	// every pair is reported at least once
	con = s2.NewCellIndexContentsIterator(&idx)
	gotAll = map[string]int{}
	r.Finish()
	for k := len(ranges) - 1; r.Prev(); k-- {
		nops++
		if k < 0 || r.StartID() != ranges[k].start {
			return "Prev on the plain range iterator does not visit the ranges in reverse order", nops, false
		}
		riv := c11iv{uint64(ranges[k].start) >> 1, uint64(ranges[k].limit)>>1 - 1}
		con.StartUnion(r)
		for n := 0; !con.Done(); n++ {
			if n > len(pairs) {
				return "contents iterator does not terminate", nops, false
			}
			civ := c11Ivl(con.CellID())
			if !(civ.a <= riv.a && riv.b <= civ.b) {
				return "contents iterator reports a cell that does not cover the current range (reverse-order visit)", nops, false
			}
			gotAll[c11PairKey(con.CellID(), con.Label())]++
			con.Next()
			nops++
		}
		if k == 0 {
			if r.Prev() {
				return "Prev returns true at the first range", nops, false
			}
			if r.StartID() != ranges[0].start {
				return "Prev at the first range moves the iterator", nops, false
			}
			break
		}
	}
	for k := range wantAll {
		if gotAll[k] == 0 {
			return "a reverse-order visit of all ranges misses a (cell,label) pair", nops, false
		}
	}
	// R3: non-empty iterator forward and backward
	var ne []rng
	for _, x := range ranges {
		if !x.empty {
			ne = append(ne, x)
		}
	}
	q := s2.NewCellIndexNonEmptyRangeIterator(&idx)
	q.Begin()
	for k := 0; ; k++ {
		nops++
		if q.Done() {
			if k != len(ne) {
				return "non-empty range iterator finishes before visiting every non-empty range", nops, false
			}
			if q.StartID() != endID {
				return "StartID of a finished non-empty iterator is not the end sentinel", nops, false
			}
			break
		}
		if k >= len(ne) || q.StartID() != ne[k].start || q.LimitID() != ne[k].limit || q.IsEmpty() {
			return "non-empty range iterator does not visit exactly the non-empty ranges in order", nops, false
		}
		q.Next()
	}
	q.Finish()
	for k := len(ne) - 1; k >= 0; k-- {
		nops++
		if !q.Prev() || q.StartID() != ne[k].start {
			return "Prev on the non-empty iterator does not visit the non-empty ranges in reverse order", nops, false
		}
	}
	if q.Prev() {
		return "Prev on the non-empty iterator returns true at the first non-empty range", nops, false
	}
	if len(ne) > 0 && (q.Done() || q.StartID() != ne[0].start) {
		return "a failed Prev on the non-empty iterator does not restore the position", nops, false
	}
	if len(ne) == 0 && !q.Done() {
		return "a failed Prev on the non-empty iterator of an empty index leaves it on an empty range", nops, false
	}
	// R4: Seek
	var targets []s2.CellID
	for _, x := range ranges {
		targets = append(targets, x.start, c11Leaf(uint64(x.limit)>>1-1))
	}
	targets = append(targets, seekExtra...)
	for _, t := range targets {
		r.Seek(t)
		nops++
		if r.Done() || !(r.StartID() <= t && t < r.LimitID()) {
			return "Seek(leaf) does not position the plain iterator on the range containing the leaf", nops, false
		}
		q.Seek(t)
		nops++
		var want *rng
		for k := range ne {
			if t < ne[k].limit {
				want = &ne[k]
				break
			}
		}
		if want == nil {
			if !q.Done() {
				return "Seek(leaf) on the non-empty iterator: no non-empty range at or after the leaf, but the iterator is not done", nops, false
			}
		} else if q.Done() || q.StartID() != want.start {
			return "Seek(leaf) on the non-empty iterator is not positioned on the first non-empty range ending after the leaf", nops, false
		}
	}
	return "", nops, overlapping
}

func c11RunIndex(c *core.Ctx, mi int, name string, ops []c11Op, depth int, seekExtra []s2.CellID) {
	const sub = "S4-cellindex"
	k := len(ops)
	var hist64, nt64, ops64 int64
	lock := make(chan struct{}, 1)
	lock <- struct{}{}
	capped := false
	encode := func(h []int) int {
		v := 0
		for _, x := range h {
			v = v*(k+1) + x + 1
		}
		return v
	}
	run := func(h []int) (int64, bool) {
		code := encode(h)
		if c.Skip(sub, c11TF, mi, code) {
			return 0, false
		}
		var nops int64
		var nt bool
		var bad string
		hs := func() any {
			var s []string
			for _, x := range h {
				s = append(s, c11OpStr(ops[x]))
			}
			return map[string]any{"machine": name, "history": append(s, "Build")}
		}
		c.Guard(sub, []int{c11TF, mi, code}, hs, func() { bad, nops, nt = c11CheckIndex(ops, h, seekExtra) })
		if bad != "" {
			c.Violate(sub, "wrong-answer", bad, []int{c11TF, mi, code}, hs())
		}
		if code%4099 == 17 {
			c.Sample(hs())
		}
		return nops, nt
	}
	// the empty history, then every first operation in parallel
	if n, _ := run(nil); true {
		hist64++
		ops64 += n
	}
	c.ParallelFor(k*k, func(s int) {
		var nh, nn, no int64
		var rec func(h []int)
		stop := false
		rec = func(h []int) {
			if stop {
				return
			}
			if nh&255 == 0 && c.Expired() {
				stop = true
				<-lock
				if !capped {
					capped = true
					c.CapHit(fmt.Sprintf("S4-cellindex %s: wall budget reached", name))
				}
				lock <- struct{}{}
				return
			}
			n, nt := run(h)
			nh++
			no += n
			if nt {
				nn++
			}
			if len(h) >= depth {
				return
			}
			for o := 0; o < k; o++ {
				rec(append(append([]int(nil), h...), o))
			}
		}
		a, b := s/k, s%k
		if b == 0 {
			// the length-1 history [a] is owned by the shard (a,0)
			n, nt := run([]int{a})
			nh++
			no += n
			if nt {
				nn++
			}
		}
		if depth >= 2 {
			rec([]int{a, b})
		}
		<-lock
		hist64 += nh
		nt64 += nn
		ops64 += no
		lock <- struct{}{}
	})
	c.Eval(int(hist64))
	c.Nontrivial(int(nt64))
	c.MC(hist64, ops64, ops64)
	c.Count("S4/histories", hist64)
	c.Count("S4/histories_with_a_range_covered_by_several_pairs", nt64)
	c.Count("S4/index_and_iterator_operations", ops64)
}

// ---- S5: s2intersect.Find ------------------------------------------------------------------

// c11TF is the tier coordinate (0 quick, 1 thorough) that leads every case index, so
// that a replay rebuilds the lattice of the tier in which the case was found.
var c11TF int

func runC11(c *core.Ctx) {
	c11TF = 0
	if !c.Quick() {
		c11TF = 1
	}
	if c.OnlySub != "" && len(c.OnlyCase) > 0 {
		c11TF = c.OnlyCase[0]
	}
	c.Rule = "S1: every subset (thorough: also every subset plus one duplicated element) of each cell universe, given to Normalize in reversed order; non-trivial = Normalize changes the list. S2: every ordered pair of valid (sorted, non-overlapping) unions over each pair universe, verbatim and normalised; non-trivial = the two leaf sets overlap partially. S3: every (begin,end) leaf pair of each window and every (cell,limit) pair of the window's cells; non-trivial = tiling of >= 3 cells / MaxTile result differs from both arguments. S4: every Add/AddCellUnion history up to the depth, then Build and full iterator sweeps; non-trivial = some leaf range is covered by several (cell,label) pairs. S5: every tuple of unions over each universe; non-trivial = at least two different index sets intersect. states = multisets/unions/histories/tuples enumerated, transitions = library operations applied and compared with the leaf-interval model"
	c.Assume = []string{
		"the bit layout of a cell id (face, 2 bits per level, trailing 1) is the documented one; leaf intervals are computed from it independently of golang/geo",
		"binary operations, ContainsCellID/IntersectsCellID and LeafCellsCovered are asserted for valid (sorted, non-overlapping) unions only; Contains uses leaf-set semantics for a normalised receiver and the documented cell-wise semantics for a verbatim receiver",
		"results of Intersection/Difference/IntersectionWithCellID must be in normal form only when all inputs are normalised; the leaf set must be exact always",
		"CellIndex: Build is called once, after all additions (documented); Seek is asserted with the implemented (and C++) meaning 'range containing the leaf'",
	}
	c11RunAll(c)
	if c.OnlySub == "" || c.OnlySub == "S5-find-many-unions" {
		c11FindManyUnions(c)
	}
	c11AlgebraHistories(c)
}
