package checks

import (
	"fmt"
	"math"

	"github.com/golang/geo/r3"
	"github.com/golang/geo/s1"
	"github.com/golang/geo/s2"

	"verif/mc/core"
)

// ---- CAP: s2.Cap ---------------------------------------------------------------------------------------

const c19M = 1e-9 // angular safety margin (radians) around every cap boundary

type c19Cap struct {
	v     s2.Cap
	name  string
	theta float64 // angular radius recomputed from the stored squared chord length; <0 empty
	full  bool
}

func c19Angle(a, b s2.Point) float64 {
	return math.Atan2(a.Cross(b.Vector).Norm(), a.Dot(b.Vector))
}

func c19Theta(c s2.Cap) (theta float64, empty, full bool) {
	r2 := 2 * c.Height() // squared chord length of the radius
	if r2 < 0 {
		return -1, true, false
	}
	if r2 >= 4 {
		return math.Pi, false, true
	}
	return 2 * math.Asin(0.5*math.Sqrt(r2)), false, false
}

// c19Class classifies a probe against a cap: +1 inside by at least the margin/2,
// -1 outside by at least the margin/2, 0 too close to the boundary to tell.
func c19Class(p s2.Point, c s2.Cap) int {
	theta, empty, full := c19Theta(c)
	if empty {
		return -1
	}
	if full {
		return 1
	}
	if p == c.Center() {
		return 1
	}
	a := c19Angle(p, c.Center())
	// the radius is stored as a squared chord length with relative precision ~2e-16,
	// which is an angular uncertainty of ~4e-16*tan(theta/2) (large close to π)
	mg := c19M/2 + 1e-14*math.Tan(theta/2)
	if a <= theta-mg {
		return 1
	}
	if a >= theta+mg {
		return -1
	}
	return 0
}

func c19CapStr(c s2.Cap) string {
	return fmt.Sprintf("center=%v chord2=%v(%016x)", c.Center().Vector, 2*c.Height(), math.Float64bits(2*c.Height()))
}

func c19CapValid(c s2.Cap) bool {
	n2 := c.Center().Norm2()
	return math.Abs(n2-1) <= 1e-14 && 2*c.Height() <= 4 && c.IsValid()
}

// c19Probes returns probe points around cap x, with the direction frame aligned to
// the other centre: centre, antipode, and 8 rays x distances {r/2, r-m, r+m}.
func c19Probes(x s2.Cap, other s2.Point) []s2.Point {
	theta, empty, _ := c19Theta(x)
	if empty {
		return nil
	}
	ctr := x.Center()
	out := []s2.Point{ctr, {Vector: ctr.Mul(-1)}}
	// tangent towards the other centre (any perpendicular when the centres are equal or antipodal)
	t := other.Sub(ctr.Mul(ctr.Dot(other.Vector)))
	if t.Norm() < 1e-6 {
		t = ctr.Ortho()
	}
	u0 := t.Normalize()
	u1 := ctr.Cross(u0).Normalize()
	for _, dist := range []float64{theta / 2, theta - c19M, theta + c19M} {
		if dist <= 0 || dist >= math.Pi {
			continue
		}
		for k := 0; k < 8; k++ {
			phi := float64(k) * math.Pi / 4
			dir := u0.Mul(math.Cos(phi)).Add(u1.Mul(math.Sin(phi)))
			p := ctr.Mul(math.Cos(dist)).Add(dir.Mul(math.Sin(dist)))
			out = append(out, s2.Point{Vector: p.Normalize()})
		}
	}
	return out
}

func c19RunCap(c *core.Ctx) {
	const sub = "CAP-s2.Cap"
	n := func(x, y, z float64) s2.Point { return s2.Point{Vector: r3.Vector{X: x, Y: y, Z: z}.Normalize()} }
	centers := []s2.Point{n(1, 0, 0), n(-1, 0, 0), n(0, 0, 1), n(0, 0, -1), n(0, 1, 0), n(1, 1, 0), n(1, 1, 1), n(-1, -1, -1),
		s2.PointFromLatLng(s2.LatLngFromDegrees(37.5, -122)), n(1, 1e-8, 0), n(1, 1e-15, 0), n(-1, 1e-8, 1e-8)}
	radii := []float64{0, 1e-7, 1e-3, 0.5, math.Pi / 2, 2, math.Pi - 1e-3, math.Pi}
	if c19Big() {
		for _, sx := range []float64{-1, 0, 1} {
			for _, sy := range []float64{-1, 0, 1} {
				for _, sz := range []float64{-1, 0, 1} {
					if sx != 0 || sy != 0 || sz != 0 {
						centers = append(centers, n(sx, sy, sz))
					}
				}
			}
		}
		centers = append(centers, s2.PointFromLatLng(s2.LatLngFromDegrees(-60, 170)), s2.PointFromLatLng(s2.LatLngFromDegrees(89.999, 12)),
			s2.PointFromLatLng(s2.LatLngFromDegrees(-89.999999, -100)), n(1e-8, 1, -1e-8))
		radii = append(radii, 1e-5, 1, 3, math.Pi/2+1e-6, math.Pi/2-1e-6, 1e-9)
	}
	// distinct centres only
	{
		seen := map[r3.Vector]bool{}
		w := centers[:0]
		for _, p := range centers {
			if !seen[p.Vector] {
				seen[p.Vector] = true
				w = append(w, p)
			}
		}
		centers = w
	}
	var caps []c19Cap
	addCap := func(v s2.Cap, name string) {
		th, _, full := c19Theta(v)
		caps = append(caps, c19Cap{v: v, name: name, theta: th, full: full})
	}
	addCap(s2.EmptyCap(), "empty")
	addCap(s2.FullCap(), "full")
	for i, ctr := range centers {
		for _, r := range radii {
			addCap(s2.CapFromCenterAngle(ctr, s1.Angle(r)), fmt.Sprintf("center%d/radius%v", i, r))
		}
		addCap(s2.CapFromPoint(ctr), fmt.Sprintf("center%d/point", i))
		addCap(s2.CapFromCenterHeight(ctr, 1), fmt.Sprintf("center%d/height1", i))
	}
	expand := []float64{0, 4e-9, 1e-3, 1, math.Pi}
	var st c19Stats
	var robust, unknown int64
	lock := make(chan struct{}, 1)
	lock <- struct{}{}
	c.ParallelFor(len(caps), func(ai int) {
		A := caps[ai]
		var ev, nt, rb, un int64
		for bi, B := range caps {
			if c.Skip(sub, c19TF, ai, bi) {
				continue
			}
			cas := []int{c19TF, ai, bi}
			det := func(extra ...any) any {
				return map[string]any{"a": A.name, "a_value": c19CapStr(A.v), "b": B.name, "b_value": c19CapStr(B.v), "more": fmt.Sprint(extra...)}
			}
			ev++
			c.Guard(sub, cas, func() any { return det() }, func() {
				a, b := A.v, B.v
				if !c19CapValid(a) || !c19CapValid(b) {
					c.Violate(sub, "wrong-answer", "cap constructor returns an invalid cap", cas, det())
					return
				}
				aEmpty, bEmpty := A.theta < 0, B.theta < 0
				if a.IsEmpty() != aEmpty || a.IsFull() != A.full {
					c.Violate(sub, "wrong-answer", "cap IsEmpty/IsFull disagrees with the stored radius", cas, det())
				}
				d := c19Angle(a.Center(), b.Center())
				// Relations are decided on squared chord lengths, whose resolution in angle
				// degrades towards π (documented: about 1.5e-8 rad at 180 degrees), so the
				// margin grows with 1/sin of the angles being compared.
				mg := func(ts ...float64) float64 {
					m := c19M
					for _, t := range ts {
						if x := c19M + 4e-15/math.Max(math.Abs(math.Sin(math.Min(t, math.Pi))), 1e-8); x > m {
							m = x
						}
					}
					return m
				}
				mC := mg(A.theta, d+B.theta)
				mI := mg(d, A.theta+B.theta)
				// ---- relations against the spherical triangle inequality, with margin
				gotC := a.Contains(b)
				switch {
				case A.full || bEmpty:
					if !gotC {
						c.Violate(sub, "wrong-answer", "cap Contains is false although the receiver is full or the argument is empty", cas, det())
					}
				case aEmpty:
					if gotC {
						c.Violate(sub, "wrong-answer", "empty cap Contains a non-empty cap", cas, det())
					}
				case d+B.theta <= A.theta-mC && !gotC:
					c.Violate(sub, "wrong-answer", "cap Contains is false although centre distance + radius of the argument is below the receiver's radius by more than the margin", cas, det("d=", d))
				case (d+B.theta >= A.theta+mC || B.full) && gotC:
					c.Violate(sub, "wrong-answer", "cap Contains is true although the argument reaches beyond the receiver by more than the margin", cas, det("d=", d))
				}
				gotI, gotII := a.Intersects(b), a.InteriorIntersects(b)
				switch {
				case aEmpty || bEmpty:
					if gotI || gotII {
						c.Violate(sub, "wrong-answer", "cap Intersects/InteriorIntersects is true with an empty operand", cas, det())
					}
				case A.full || B.full:
					// exact: the full cap meets every non-empty cap, and its interior is everything
					if !gotI {
						c.Violate(sub, "wrong-answer", "cap Intersects is false although one operand is the full cap and the other is not empty", cas, det("d=", d))
					}
					if !gotII && A.theta > 0 {
						family := ""
						if a.Center().Sub(b.Center().Vector).Norm2() >= 4-1e-15 {
							family = " [radii summing to π or more, squared centre distance rounding to 4]"
						}
						c.Violate(sub, "wrong-answer", "cap InteriorIntersects is false although the receiver has an interior and the caps overlap by more than the margin"+family, cas, det("d=", d, " radius_a=", A.theta, " radius_b=", B.theta))
					}
				case d <= A.theta+B.theta-mI:
					if !gotI {
						c.Violate(sub, "wrong-answer", "cap Intersects is false although the caps overlap by more than the margin", cas, det("d=", d))
					}
					if !gotII && A.theta > 0 {
						family := ""
						if a.Center().Sub(b.Center().Vector).Norm2() >= 4-1e-15 && 2*a.Height()+2*b.Height() >= 4 {
							family = " [radii summing to π or more, squared centre distance rounding to 4]"
						}
						c.Violate(sub, "wrong-answer", "cap InteriorIntersects is false although the receiver has an interior and the caps overlap by more than the margin"+family, cas, det("d=", d, " radius_a=", A.theta, " radius_b=", B.theta))
					}
				case d >= A.theta+B.theta+mI:
					if gotI || gotII {
						c.Violate(sub, "wrong-answer", "cap Intersects/InteriorIntersects is true although the caps are further apart than the margin", cas, det("d=", d))
					}
				}
				if gotII && A.theta <= 0 {
					c.Violate(sub, "wrong-answer", "cap InteriorIntersects is true for a receiver without interior", cas, det())
				}
				if !aEmpty && !bEmpty && !A.full && !B.full && d > math.Abs(A.theta-B.theta)+c19M && d < A.theta+B.theta-c19M {
					nt++
				}
				// ---- membership of probe points
				probes := append(c19Probes(a, b.Center()), c19Probes(b, a.Center())...)
				u := a.Union(b)
				ac := a.AddCap(b)
				cm := a.Complement()
				if !c19CapValid(u) || !c19CapValid(ac) || !c19CapValid(cm) {
					c.Violate(sub, "wrong-answer", "cap Union/AddCap/Complement returns an invalid cap", cas, det("union=", c19CapStr(u), " addcap=", c19CapStr(ac), " complement=", c19CapStr(cm)))
					return
				}
				if !aEmpty && !bEmpty && !A.full && !B.full {
					// smallest enclosing cap
					want := math.Max(math.Max(A.theta, B.theta), 0.5*(d+A.theta+B.theta))
					if ut, _, _ := c19Theta(u); want <= 3 && ut > want+1e-8 {
						c.Violate(sub, "wrong-answer", "cap Union is larger than the smallest cap enclosing both operands", cas, det("union=", c19CapStr(u), " radius=", ut, " smallest=", want))
					}
				}
				var expd []s2.Cap
				for _, e := range expand {
					x := a.Expanded(s1.Angle(e))
					if !c19CapValid(x) || (aEmpty && !x.IsEmpty()) {
						c.Violate(sub, "wrong-answer", "cap Expanded returns an invalid cap or a non-empty expansion of the empty cap", cas, det("e=", e, " got=", c19CapStr(x)))
					}
					expd = append(expd, x)
				}
				for _, p := range probes {
					ca, cb := c19Class(p, a), c19Class(p, b)
					if ca == 0 || cb == 0 {
						un++
					} else {
						rb++
					}
					pd := func(extra ...any) any { return det(append([]any{"probe=", p.Vector, " "}, extra...)...) }
					for k, x := range []s2.Cap{a, b} {
						cl := []int{ca, cb}[k]
						if cl != 0 && x.ContainsPoint(p) != (cl > 0) {
							c.Violate(sub, "wrong-answer", "cap ContainsPoint disagrees with a probe that is away from the boundary by the margin", cas, pd("cap=", k))
						}
						if cl != 0 && p != x.Center() && x.InteriorContainsPoint(p) != (cl > 0) {
							c.Violate(sub, "wrong-answer", "cap InteriorContainsPoint disagrees with a probe that is away from the boundary by the margin", cas, pd("cap=", k))
						}
					}
					if (ca > 0 || cb > 0) && c19Class(p, u) < 0 {
						c.Violate(sub, "wrong-answer", "cap Union misses a point that is inside an operand by the margin", cas, pd("union=", c19CapStr(u)))
					}
					if (ca > 0 || cb > 0) && c19Class(p, ac) < 0 {
						c.Violate(sub, "wrong-answer", "cap AddCap misses a point that is inside an operand by the margin", cas, pd("addcap=", c19CapStr(ac)))
					}
					if gotC && cb > 0 && ca < 0 {
						c.Violate(sub, "wrong-answer", "cap Contains is true but a point inside the argument by the margin is outside the receiver by the margin", cas, pd())
					}
					if !gotI && ca > 0 && cb > 0 {
						c.Violate(sub, "wrong-answer", "cap Intersects is false but a probe is inside both caps by the margin", cas, pd())
					}
					if bi == 0 { // unary operations: once per receiver
						cc := c19Class(p, cm)
						if ca < 0 && cc < 0 {
							c.Violate(sub, "wrong-answer", "a cap and its Complement do not cover a probe point", cas, pd("complement=", c19CapStr(cm)))
						}
						if ca > 0 && cc > 0 && !A.full && A.theta > c19M {
							c.Violate(sub, "wrong-answer", "a cap and its Complement share an interior point", cas, pd("complement=", c19CapStr(cm)))
						}
						for k, x := range expd {
							cx := c19Class(p, x)
							if ca > 0 && cx < 0 {
								c.Violate(sub, "wrong-answer", "cap Expanded loses a point of the cap", cas, pd("e=", expand[k], " got=", c19CapStr(x)))
							}
							if !aEmpty && expand[k] >= 4*c19M && cx < 0 && c19Angle(p, a.Center()) <= A.theta+expand[k]-2*c19M {
								c.Violate(sub, "wrong-answer", "cap Expanded misses a point within the expansion distance of the cap", cas, pd("e=", expand[k], " got=", c19CapStr(x)))
							}
						}
					}
					// AddPoint: the documented guarantee is exact
					ap := a.AddPoint(p)
					if !c19CapValid(ap) || !ap.ContainsPoint(p) {
						c.Violate(sub, "wrong-answer", "cap AddPoint: the result is invalid or does not contain the added point", cas, pd("got=", c19CapStr(ap)))
					}
					for _, q := range probes[:2] {
						if c19Class(q, a) > 0 && c19Class(q, ap) < 0 {
							c.Violate(sub, "wrong-answer", "cap AddPoint loses a point of the cap", cas, pd("got=", c19CapStr(ap)))
						}
					}
					ev += 6
				}
				if !a.ApproxEqual(a) || !a.Equal(a) {
					c.Violate(sub, "wrong-answer", "cap ApproxEqual/Equal is not reflexive", cas, det())
				}
				if a.ApproxEqual(b) != b.ApproxEqual(a) {
					c.Violate(sub, "wrong-answer", "cap ApproxEqual is not symmetric", cas, det())
				}
			})
		}
		<-lock
		st.evals += ev
		st.nontriv += nt
		robust += rb
		unknown += un
		lock <- struct{}{}
	})
	c.Sample(map[string]any{"sub": sub, "a": caps[len(caps)/3].name, "b": caps[len(caps)/2+1].name, "a_value": c19CapStr(caps[len(caps)/3].v)})
	c.Eval(int(st.evals))
	c.Nontrivial(int(st.nontriv))
	c.Count("CAP/caps", int64(len(caps)))
	c.Count("CAP/ordered_pairs", int64(len(caps)*len(caps)))
	c.Count("CAP/pairs_properly_overlapping", st.nontriv)
	c.Count("CAP/probes_away_from_both_boundaries", robust)
	c.Count("CAP/probes_within_margin_of_a_boundary(no assertion)", unknown)
}

// ---- CHORD: s1.ChordAngle arithmetic ----------------------------------------------------------------------

func c19RunChord(c *core.Ctx) {
	const sub = "CHORD-s1.ChordAngle"
	vals := []float64{0, 1e-30, 1e-14, 1e-6, 0.25, 1, c19Ulp(2, -1), 2, 3, c19Ulp(4, -1), 4}
	if c19Big() {
		vals = append(vals, 1e-10, 0.5, 1.5, c19Ulp(2, 1), 3.5, 3.999999, c19Ulp(1, 1), c19Ulp(4, -2))
	}
	// angle of a squared chord length, in the form that stays accurate close to 4
	ang := func(x float64) float64 { return 2 * math.Atan2(math.Sqrt(x), math.Sqrt(4-x)) }
	chord := func(t float64) float64 { s := 2 * math.Sin(0.5*math.Min(math.Pi, t)); return s * s }
	var ev, nt int64
	neg, inf := s1.NegativeChordAngle, s1.InfChordAngle()
	if !c.Skip(sub, c19TF, -1) && (neg.Successor() != 0 || s1.StraightChordAngle.Successor() != inf || inf.Successor() != inf ||
		inf.Predecessor() != s1.StraightChordAngle || s1.ChordAngle(0).Predecessor() != neg || neg.Predecessor() != neg) {
		c.Violate(sub, "wrong-answer", "ChordAngle Successor/Predecessor: a documented special case does not hold", []int{c19TF, -1}, nil)
	}
	for i, x := range vals {
		a := s1.ChordAngle(x)
		if c.Skip(sub, c19TF, i, -1) {
			continue
		}
		ev++
		if x < 4 && !(a.Successor() > a && a.Successor().Predecessor() == a) {
			c.Violate(sub, "wrong-answer", "ChordAngle Successor is not the next larger value", []int{c19TF, i, -1}, map[string]any{"a": c19F(x)})
		}
		if x > 0 && !(a.Predecessor() < a && a.Predecessor().Successor() == a) {
			c.Violate(sub, "wrong-answer", "ChordAngle Predecessor is not the next smaller value", []int{c19TF, i, -1}, map[string]any{"a": c19F(x)})
		}
		for _, e := range []float64{0, 1e-15, 1, 5, -1e-15, -1, -5} {
			r := float64(a.Expanded(e))
			want := math.Max(0, math.Min(4, x+e))
			if r != want {
				c.Violate(sub, "wrong-answer", "ChordAngle Expanded is not the clamped sum", []int{c19TF, i, -1}, map[string]any{"a": c19F(x), "e": e, "got": r})
			}
		}
		if neg.Expanded(1) != neg || inf.Expanded(-1) != inf {
			c.Violate(sub, "wrong-answer", "ChordAngle Expanded changes a special value", []int{c19TF, i, -1}, nil)
		}
		if t := ang(x); t <= 3 {
			back := float64(s1.ChordAngleFromAngle(s1.Angle(t)))
			if math.Abs(back-x) > 1e-15+4e-15*x {
				c.Violate(sub, "wrong-answer", "ChordAngleFromAngle(Angle()) does not return to the chord angle", []int{c19TF, i, -1}, map[string]any{"a": c19F(x), "got": back})
			}
			if got := float64(a.Angle()); math.Abs(got-t) > 1e-15 {
				c.Violate(sub, "wrong-answer", "ChordAngle.Angle differs from the angle of the chord", []int{c19TF, i, -1}, map[string]any{"a": c19F(x), "got": got})
			}
		}
		for j, y := range vals {
			if c.Skip(sub, c19TF, i, j) {
				continue
			}
			b := s1.ChordAngle(y)
			ev += 2
			sum, diff := float64(a.Add(b)), float64(a.Sub(b))
			wantSum := chord(ang(x) + ang(y))
			wantDiff := 0.0
			if x > y {
				wantDiff = chord(ang(x) - ang(y))
			}
			tol := func(w float64) float64 { return 1e-14*math.Max(w, math.Max(x, y)) + 1e-300 }
			d := map[string]any{"a": c19F(x), "b": c19F(y), "sum": sum, "want_sum": wantSum, "diff": diff, "want_diff": wantDiff}
			if !(sum >= math.Max(x, y) && sum <= 4) || math.Abs(sum-wantSum) > tol(wantSum) {
				c.Violate(sub, "wrong-answer", "ChordAngle Add is not the clamped chord of the angle sum (or is below an operand / above 4)", []int{c19TF, i, j}, d)
			}
			if !(diff >= 0 && diff <= x) || math.Abs(diff-wantDiff) > tol(wantDiff) {
				c.Violate(sub, "wrong-answer", "ChordAngle Sub is not the chord of the angle difference clamped at 0 (or is negative / above the minuend)", []int{c19TF, i, j}, d)
			}
			if x > 0 && y > 0 && x+y < 4 {
				nt++
			}
		}
	}
	c.Eval(int(ev))
	c.Nontrivial(int(nt))
	c.Count("CHORD/values", int64(len(vals)))
	c.Count("CHORD/ordered_pairs", int64(len(vals)*len(vals)))
}
