package checks

import (
	"math"

	"github.com/golang/geo/s1"
	"github.com/golang/geo/s2"
	"verif/mc/core"
)

// Sub-check "CHORD-near-supplementary": ChordAngle.Add for pairs whose squared chord lengths sum
// to 4 minus 0..8 ulps (the angles sum to 180 degrees minus a rounding error): the general formula
// x + y + 2 sqrt(xy(1-x/4)(1-y/4)) is evaluated there with a result that can round above 4, so the
// clamp that keeps the result a valid chord angle is decisive exactly on these pairs.  x runs over
// a lattice of 1/512 steps and over whole and quarter degrees; each sum is also carried into
// s2.Cap.Expanded / Union, whose result must be a valid cap that behaves as the full cap when it
// contains every point.
func c19RunChordSupplementary(c *core.Ctx) {
	const sub = "CHORD-near-supplementary"
	var xs []float64
	for k := 1; k < 2048; k++ {
		xs = append(xs, float64(k)/512)
	}
	step := core.Pick(c, 1.0, 0.25)
	for d := step; d < 180; d += step {
		xs = append(xs, float64(s1.ChordAngleFromAngle(s1.Angle(d)*s1.Degree)))
	}
	if !c.Quick() {
		for k := 1; k <= 4000; k++ {
			xs = append(xs, 4*math.Mod(float64(k)*0.6180339887498949, 1))
		}
	}
	K := core.Pick(c, 8, 16)
	centre := s2.PointFromCoords(-3, 1, -2)
	var ev, above int64
	for i, x := range xs {
		if !(x > 0 && x < 4) {
			continue
		}
		y := 4 - x
		for k := 0; k <= K; k++ {
			if k > 0 {
				y = math.Nextafter(y, 0)
			}
			if c.Skip(sub, i, k) {
				continue
			}
			ev++
			a, b := s1.ChordAngle(x), s1.ChordAngle(y)
			sum := float64(a.Add(b))
			d := map[string]any{"a": c19F(x), "b": c19F(y), "sum": c19F(sum)}
			if !(sum <= 4 && sum >= math.Max(x, y)) {
				above++
				c.Violate(sub, "wrong-answer", "ChordAngle Add of two nearly supplementary chord angles is not a valid chord angle (above 4 or below an operand)", []int{i, k}, d)
				continue
			}
			if sum < 4-1e-13 {
				c.Violate(sub, "wrong-answer", "ChordAngle Add of two nearly supplementary chord angles is farther than 1e-13 from 4", []int{i, k}, d)
			}
			cp := s2.CapFromCenterChordAngle(centre, a)
			ex := cp.Expanded(b.Angle())
			if !ex.IsValid() || !c19CapValid(ex) {
				c.Violate(sub, "wrong-answer", "Cap.Expanded by the supplement of its radius returns an invalid cap", []int{i, k}, map[string]any{"a": c19F(x), "b": c19F(y), "cap": c19CapStr(ex)})
				continue
			}
			if !ex.ContainsPoint(centre) || !ex.Contains(cp) {
				c.Violate(sub, "wrong-answer", "Cap.Expanded by the supplement of its radius loses the original cap", []int{i, k}, map[string]any{"a": c19F(x), "b": c19F(y), "cap": c19CapStr(ex)})
			}
			if 2*ex.Height() >= 4 && (!ex.IsFull() || !ex.Complement().IsEmpty()) {
				c.Violate(sub, "wrong-answer", "a cap of squared chord radius 4 or more is not the full cap (IsFull false or non-empty complement)", []int{i, k}, map[string]any{"cap": c19CapStr(ex)})
			}
		}
	}
	c.Eval(int(ev))
	c.Nontrivial(int(ev))
	c.Count("CHORD-near-supplementary/pairs", ev)
}

func init() {
	ck := Registry["C19"]
	prev := ck.Run
	ck.Run = func(c *core.Ctx) {
		prev(c)
		c19RunChordSupplementary(c)
	}
}
