package checks

import (
	"bytes"
	"fmt"

	"github.com/golang/geo/s1"
	"github.com/golang/geo/s2"

	"verif/mc/core"
	"verif/mc/refmodel"
)

// Sub-check "decoded-polygons": containment on polygons that arrive through Decode rather than through
// a constructor (the decoders initialise bound, origin flag and index by their own code paths).
// Polygons around a pole, around s2.OriginPoint() and elsewhere, with vertices snapped to cell
// centres (so that Encode chooses the compressed format) and unsnapped (lossless format), with 4..70
// vertices per loop (the compressed format stores a bound only from 64 vertices on).  Every probe is
// asked of a freshly decoded polygon (first query, no index yet), then again after the index exists;
// both answers must be the exact crossing parity, and the polygon and its complement must contain
// each probe exactly once.
func init() {
	ck := Registry["C04"]
	run := ck.Run
	ck.Run = func(c *core.Ctx) {
		run(c)
		c04Decoded(c)
	}
}

func c04Decoded(c *core.Ctx) {
	sub := "decoded-polygons"
	type centre struct {
		name     string
		lat, lng float64
	}
	centres := []centre{{"north pole", 90, 0}, {"south pole", -90, 0}, {"near the north pole", 88, 40}, {"mid latitude", 35, -100}, {"equator at the antimeridian", 0, 180}}
	sizes := core.Pick(c, []int{4, 8, 63, 64}, []int{3, 4, 8, 20, 63, 64, 70})
	radii := []float64{25, 3}
	levels := core.Pick(c, []int{-1, 12, 30}, []int{-1, 8, 12, 20, 30})
	var polys, judged int64
	for ci, ce := range centres {
		ctr := s2.PointFromLatLng(s2.LatLngFromDegrees(ce.lat, ce.lng))
		for ni, n := range sizes {
			for li, lv := range levels {
				for shape := 0; shape < 2; shape++ {
					cas := []int{ci, ni, li, shape}
					if c.Skip(sub, cas...) {
						continue
					}
					mk := func(r float64, k int) []s2.Point {
						vs := s2.RegularLoop(ctr, s1.Angle(r)*s1.Degree, k).Vertices()
						out := make([]s2.Point, len(vs))
						for i, v := range vs {
							if lv >= 0 {
								v = s2.CellFromPoint(v).ID().Parent(lv).Point()
							}
							out[i] = v
						}
						return out
					}
					var vls [][]s2.Point
					vls = append(vls, mk(radii[0], n))
					if shape == 1 {
						vls = append(vls, mk(radii[1], n))
					}
					desc := fmt.Sprintf("%s, %d vertices per loop, snap level %d, %d loop(s)", ce.name, n, lv, len(vls))
					detail := func() any { return map[string]any{"polygon": desc} }
					c.Guard(sub, cas, detail, func() {
						build := func() *s2.Polygon {
							var ls []*s2.Loop
							for _, v := range vls {
								ls = append(ls, s2.LoopFromPoints(append([]s2.Point(nil), v...)))
							}
							return s2.PolygonFromLoops(ls)
						}
						orig := build()
						if orig.Validate() != nil {
							return // snapping collapsed two vertices: not a polygon
						}
						var buf bytes.Buffer
						if err := orig.Encode(&buf); err != nil {
							c.Violate(sub, "wrong-answer", "Encode of a valid polygon fails: "+err.Error(), cas, detail())
							return
						}
						enc := buf.Bytes()
						decode := func() *s2.Polygon {
							p := &s2.Polygon{}
							if err := p.Decode(bytes.NewReader(enc)); err != nil {
								return nil
							}
							return p
						}
						if decode() == nil {
							c.Violate(sub, "wrong-answer", "Decode of an encoded valid polygon fails", cas, detail())
							return
						}
						polys++
						var rl []*refmodel.Loop
						for i := 0; i < orig.NumLoops(); i++ {
							rl = append(rl, refmodel.NewLoop(append([]s2.Point(nil), orig.Loop(i).Vertices()...)))
						}
						probes := []s2.Point{ctr, s2.Point{Vector: ctr.Mul(-1)}, s2.OriginPoint(), s2.PointFromCoords(0, 0, 1), s2.PointFromCoords(0, 0, -1),
							s2.PointFromLatLng(s2.LatLngFromDegrees(ce.lat-10, ce.lng+7)), s2.PointFromLatLng(s2.LatLngFromDegrees(ce.lat-2, ce.lng+100)),
							s2.PointFromLatLng(s2.LatLngFromDegrees(-ce.lat, ce.lng+33))}
						for _, v := range vls {
							for i := 0; i < len(v); i += 1 + len(v)/8 {
								probes = append(probes, v[i], s2.Point{Vector: v[i].Mul(0.9).Add(ctr.Mul(0.1)).Normalize()}, s2.Point{Vector: v[i].Mul(1.1).Sub(ctr.Mul(0.1)).Normalize()},
									s2.Point{Vector: v[i].Add(v[(i+1)%len(v)].Vector).Normalize()})
							}
						}
						// a decoded polygon that has answered enough queries to have built its index
						warm := decode()
						for i := 0; i < 40; i++ {
							warm.ContainsPoint(probes[i%len(probes)])
						}
						warmInv := decode()
						warmInv.Invert()
						for _, q := range probes {
							judged++
							want := refmodel.PolygonContains(rl, q)
							first := decode().ContainsPoint(q)
							d := map[string]any{"polygon": desc, "probe": ptStr(q), "want": want}
							if first != want {
								d["got"] = first
								c.Violate(sub, "wrong-answer", "the first ContainsPoint on a freshly decoded polygon differs from the exact crossing parity", cas, d)
								return
							}
							if got := warm.ContainsPoint(q); got != want {
								d["got"] = got
								c.Violate(sub, "wrong-answer", "ContainsPoint on a decoded polygon whose index exists differs from the exact crossing parity", cas, d)
								return
							}
							if got := orig.ContainsPoint(q); got != want {
								d["got"] = got
								c.Violate(sub, "wrong-answer", "ContainsPoint on the constructed polygon differs from the exact crossing parity", cas, d)
								return
							}
							if got := warmInv.ContainsPoint(q); got == want {
								d["got"] = got
								c.Violate(sub, "wrong-answer", "a decoded polygon and its complement do not contain the probe exactly once", cas, d)
								return
							}
						}
					})
				}
			}
		}
	}
	c.Eval(int(judged))
	c.Nontrivial(int(judged))
	c.Count(sub+"/polygons", polys)
	c.Count(sub+"/probes_judged", judged)
}
